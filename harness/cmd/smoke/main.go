package main

import (
	"fmt"
	"math/big"
	"math/rand"
	"os"
	"time"

	"github.com/ipfs/go-log"
	"verif/harness/ev"
	"verif/harness/pump"
	"verif/harness/tlc"
)

func main() {
	log.SetLogLevel("tss-lib", "fatal")
	strat := "fifo"
	if len(os.Args) > 1 {
		strat = os.Args[1]
	}
	w := &ev.Mem{}
	st, err := pump.StrategyByName(strat)
	if err != nil {
		panic(err)
	}
	edk, _ := pump.LoadEdFixtures(3)
	eck, _ := pump.LoadEcFixtures(3)
	pp, _ := pump.PreParams(3)
	cfgs := []pump.Config{
		{Proto: pump.EdKeygen, N: 3, T: 1, Seed: 7},
		{Proto: pump.EdSigning, N: 3, T: 2, EdKeys: edk, Msg: big.NewInt(424242), Seed: 7},
		{Proto: pump.EdReshare, N: 3, T: 2, NewN: 3, NewT: 1, EdKeys: edk, Seed: 7},
		{Proto: pump.EcKeygen, N: 3, T: 1, Seed: 7, PreParams: pp},
		{Proto: pump.EcSigning, N: 3, T: 2, EcKeys: eck, Msg: big.NewInt(424242), Seed: 7},
		{Proto: pump.EcReshare, N: 3, T: 2, NewN: 3, NewT: 1, EcKeys: eck, PreParams: pp, Seed: 7},
	}
	for _, c := range cfgs {
		t0 := time.Now()
		s, err := pump.New(c, w)
		if err != nil {
			panic(err)
		}
		sched := s.Run(st, rand.New(rand.NewSource(1)), 100000)
		fmt.Printf("%s: steps=%d sent=%d quiescent=%v %.2fs\n", c.Proto, len(sched), len(s.All), s.Quiescent(), time.Since(t0).Seconds())
	}
	flags := tlc.EngineFlags{QuirkShort: os.Getenv("QS") != "0", QuirkStuck: os.Getenv("QK") != "0", StartRunsUpdate: os.Getenv("SU") == "1", WaitingExact: os.Getenv("WE") == "1"}
	gs, err := tlc.ValidateEngineTraces(w.Events, flags, "Engine_Trace", "")
	if err != nil {
		fmt.Println("ERR", err)
	}
	for _, g := range gs {
		fmt.Printf("%s %d/%d runs=%d events=%d accepted=%v violated=%s line=%d %.1fs\n", g.Proto, g.NOld, g.NNew, g.Runs, g.Events, g.Accepted, g.Violated, g.FailLine, g.Res.Wall)
		if g.FailEvent != nil {
			fmt.Printf("   fail event: %+v\n", *g.FailEvent)
		}
	}
}
