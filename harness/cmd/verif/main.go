// Command verif runs one property check of the tss-lib verification harness.
//
//	verif <ID> --tier quick|thorough [--replay file]
//
// exit 0: property held on everything explored (known findings are printed)
// exit 1: a VIOLATION line was printed
// exit 2: inconclusive (the machinery failed; never a verdict on the code)
package main

import (
	"fmt"
	"os"
	"runtime/debug"
	"strconv"
	"time"

	"github.com/ipfs/go-log"

	"verif/harness/core"
	"verif/harness/obs"
	"verif/harness/props"
)

func main() {
	if len(os.Args) < 2 {
		fmt.Fprintln(os.Stderr, "usage: verif <ID> --tier quick|thorough [--replay file]")
		os.Exit(2)
	}
	_ = log.SetLogLevel("tss-lib", "fatal")
	id := os.Args[1]
	ctx := &core.Ctx{ID: id, Tier: "quick", Seed: 1, Started: time.Now()}
	if t := os.Getenv("VERIF_TIER"); t == "quick" || t == "thorough" {
		ctx.Tier = t
	}
	if s := os.Getenv("VERIF_SEED"); s != "" {
		if v, err := strconv.ParseInt(s, 10, 64); err == nil {
			ctx.Seed = v
		}
	}
	for i := 2; i < len(os.Args); i++ {
		switch os.Args[i] {
		case "--tier":
			i++
			if i < len(os.Args) {
				ctx.Tier = os.Args[i]
			}
		case "--replay":
			i++
			if i < len(os.Args) {
				ctx.Replay = os.Args[i]
			}
		}
	}
	if ctx.Tier != "quick" && ctx.Tier != "thorough" {
		fmt.Fprintln(os.Stderr, "bad tier", ctx.Tier)
		os.Exit(2)
	}
	if ctx.Seed == 0 {
		ctx.Seed = 1
	}
	fn, ok := props.Registry[id]
	if !ok {
		// worker modes (child processes of fault / crash checks)
		if w, ok := props.Workers[id]; ok {
			os.Exit(w(os.Args[2:]))
		}
		fmt.Fprintln(os.Stderr, "unknown property", id)
		os.Exit(2)
	}
	if err := obs.SelfCheck(); err != nil {
		fmt.Println("INCONCLUSIVE: independent arithmetic failed its self check:", err)
		os.Exit(2)
	}
	var err error
	func() {
		defer func() {
			if r := recover(); r != nil {
				err = core.Inconcl("harness panic: %v\n%s", r, debug.Stack())
			}
		}()
		err = fn(ctx)
	}()
	if err != nil {
		fmt.Println("INCONCLUSIVE:", err)
		// a violation already reported is a concrete real-code behaviour with a replay file: it stands even if a later
		// part of the machinery could not finish
		if n := len(ctx.Violations()); n > 0 {
			fmt.Printf("%s: %d violation(s) reported before the machinery stopped\n", id, n)
			os.Exit(1)
		}
		os.Exit(2)
	}
	for _, k := range ctx.KnownHit() {
		_ = k
	}
	if n := len(ctx.Violations()); n > 0 {
		fmt.Printf("%s: %d violation(s) in %.1fs\n", id, n, time.Since(ctx.Started).Seconds())
		os.Exit(1)
	}
	fmt.Printf("%s: OK (%s, seed %d, %.1fs)\n", id, ctx.Tier, ctx.Seed, time.Since(ctx.Started).Seconds())
}
