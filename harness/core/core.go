// Package core holds what every property check shares: the run context
// (tier, seed), violations with replay files, known findings, evidence output.
package core

import (
	"crypto/sha256"
	"encoding/hex"
	"encoding/json"
	"fmt"
	"os"
	"path/filepath"
	"sort"
	"strings"
	"sync"
	"time"
)

func VerifDir() string {
	if d := os.Getenv("VERIF_DIR"); d != "" {
		return d
	}
	return "/verif"
}

// Ctx is the context of one check run.
type Ctx struct {
	ID      string
	Tier    string // quick | thorough
	Seed    int64
	Started time.Time
	Replay  string // path of a replay file, "" normally

	mu         sync.Mutex
	violations []Violation
	known      []string
	notes      []string
}

func (c *Ctx) Thorough() bool { return c.Tier == "thorough" }

// Pick returns q for the quick tier and t for the thorough tier.
func (c *Ctx) Pick(q, t int) int {
	if c.Thorough() {
		return t
	}
	return q
}

// Violation is a concrete real-code behaviour that contradicts the property text.
type Violation struct {
	Property string          `json:"property"`
	Key      string          `json:"key"`  // identifies call site / input class / history (matched against known findings)
	What     string          `json:"what"` // human readable
	Scenario json.RawMessage `json:"scenario"`
	Path     string          `json:"-"`
}

type Finding struct {
	Property string `json:"property"`
	Key      string `json:"key"`
	Status   string `json:"status"` // known | fixed
	Commit   string `json:"commit,omitempty"`
	What     string `json:"what"`
}

func LoadFindings() ([]Finding, error) {
	b, err := os.ReadFile(filepath.Join(VerifDir(), "known_findings.json"))
	if err != nil {
		if os.IsNotExist(err) {
			return nil, nil
		}
		return nil, err
	}
	var fs []Finding
	if err := json.Unmarshal(b, &fs); err != nil {
		return nil, err
	}
	return fs, nil
}

// Report records a violation (or a known finding). scenario is anything JSON-serialisable that
// `verif <ID> --replay <file>` can re-run.
func (c *Ctx) Report(key, what string, scenario any) {
	c.mu.Lock()
	defer c.mu.Unlock()
	fs, _ := LoadFindings()
	for _, f := range fs {
		if f.Property == c.ID && f.Status == "known" && f.Key == key {
			line := fmt.Sprintf("KNOWN-FINDING: property=%s %s [%s]", c.ID, f.What, key)
			for _, k := range c.known {
				if k == line {
					return
				}
			}
			c.known = append(c.known, line)
			fmt.Println(line)
			return
		}
	}
	for _, v := range c.violations {
		if v.Key == key {
			return // one replay per key is enough
		}
	}
	sc, err := json.MarshalIndent(scenario, "", " ")
	if err != nil {
		sc = []byte(fmt.Sprintf("%q", fmt.Sprint(scenario)))
	}
	v := Violation{Property: c.ID, Key: key, What: what, Scenario: sc}
	h := sha256.Sum256(append([]byte(key), sc...))
	dir := filepath.Join(VerifDir(), "replays", c.ID)
	os.MkdirAll(dir, 0o755)
	v.Path = filepath.Join(dir, hex.EncodeToString(h[:6])+".json")
	b, _ := json.MarshalIndent(v, "", " ")
	os.WriteFile(v.Path, b, 0o644)
	c.violations = append(c.violations, v)
	fmt.Printf("VIOLATION property=%s replay=%s\n", c.ID, v.Path)
	fmt.Printf("  key: %s\n  what: %s\n", key, what)
}

func (c *Ctx) Note(format string, a ...any) {
	c.mu.Lock()
	defer c.mu.Unlock()
	s := fmt.Sprintf(format, a...)
	c.notes = append(c.notes, s)
	fmt.Println("note:", s)
}

func (c *Ctx) Violations() []Violation { return c.violations }
func (c *Ctx) KnownHit() []string      { return c.known }

// LoadReplay reads a replay file's scenario into v.
func LoadReplay(path string, v any) (Violation, error) {
	var vio Violation
	b, err := os.ReadFile(path)
	if err != nil {
		return vio, err
	}
	if err := json.Unmarshal(b, &vio); err != nil {
		return vio, err
	}
	if v != nil {
		if err := json.Unmarshal(vio.Scenario, v); err != nil {
			return vio, err
		}
	}
	return vio, nil
}

// Evidence is written per EVIDENCE.schema.json.
type Evidence struct {
	PropertyID  string         `json:"property_id"`
	Tier        string         `json:"tier"`
	Seed        int64          `json:"seed"`
	Level       string         `json:"level"`
	Coverage    map[string]any `json:"coverage"`
	Assumptions []string       `json:"assumptions"`
	WallS       float64        `json:"wall_s"`
	Violations  int            `json:"violations"`
}

// Cov accumulates coverage counters thread-safely.
type Cov struct {
	mu       sync.Mutex
	Evals    int
	distinct map[string]bool
	Samples  []any
	Extra    map[string]any
	States   int
	Trans    int
	Traces   int
}

func NewCov() *Cov { return &Cov{distinct: map[string]bool{}, Extra: map[string]any{}} }

// Case counts one evaluated case; key identifies it for distinctness; nontrivial says whether it counts as non-trivial.
func (c *Cov) Case(key string, nontrivial bool) {
	c.mu.Lock()
	defer c.mu.Unlock()
	c.Evals++
	if nontrivial {
		c.distinct[key] = true
	}
}

func (c *Cov) Sample(s any, max int) {
	c.mu.Lock()
	defer c.mu.Unlock()
	if len(c.Samples) < max {
		c.Samples = append(c.Samples, s)
	}
}

func (c *Cov) AddMC(states, trans int) {
	c.mu.Lock()
	defer c.mu.Unlock()
	c.States += states
	c.Trans += trans
}

func (c *Cov) AddTraces(n int) {
	c.mu.Lock()
	defer c.mu.Unlock()
	c.Traces += n
}

func (c *Cov) Set(k string, v any) {
	c.mu.Lock()
	defer c.mu.Unlock()
	c.Extra[k] = v
}

func (c *Cov) Add(k string, n int) {
	c.mu.Lock()
	defer c.mu.Unlock()
	if old, ok := c.Extra[k].(int); ok {
		c.Extra[k] = old + n
	} else {
		c.Extra[k] = n
	}
}

func (c *Cov) Distinct() int {
	c.mu.Lock()
	defer c.mu.Unlock()
	return len(c.distinct)
}

// WriteEvidence writes /verif/evidence/<id>.json.
func (c *Ctx) WriteEvidence(level, rule string, cov *Cov, assumptions []string, checker string) error {
	m := map[string]any{
		"evaluations":         cov.Evals,
		"distinct_nontrivial": cov.Distinct(),
		"rule":                rule,
		"samples":             cov.Samples,
	}
	if cov.States > 0 {
		m["states"] = cov.States
		m["transitions"] = cov.Trans
	}
	m["traces_validated_against_impl"] = cov.Traces
	if checker != "" {
		m["checker_cmd"] = checker
	}
	keys := make([]string, 0, len(cov.Extra))
	for k := range cov.Extra {
		keys = append(keys, k)
	}
	sort.Strings(keys)
	for _, k := range keys {
		m[k] = cov.Extra[k]
	}
	// schema: the typed keys must have their types (free text goes to a *_note key)
	if v, ok := m["exhaustive"]; ok {
		if _, isBool := v.(bool); !isBool {
			m["exhaustive_note"] = v
			m["exhaustive"] = false
		}
	}
	for _, k := range []string{"states", "transitions", "obligations", "discharged"} {
		if v, ok := m[k]; ok {
			switch v.(type) {
			case int, int64:
			default:
				m[k+"_note"] = v
				delete(m, k)
			}
		}
	}
	if len(c.known) > 0 {
		m["known_findings_hit"] = c.known
	}
	if len(c.notes) > 0 {
		m["notes"] = c.notes
	}
	if len(cov.Samples) == 0 {
		m["samples"] = []any{"(none)"}
	}
	e := Evidence{PropertyID: c.ID, Tier: c.Tier, Seed: c.Seed, Level: level, Coverage: m,
		Assumptions: assumptions, WallS: time.Since(c.Started).Seconds(), Violations: len(c.violations)}
	b, err := json.MarshalIndent(e, "", " ")
	if err != nil {
		return err
	}
	dir := filepath.Join(VerifDir(), "evidence")
	os.MkdirAll(dir, 0o755)
	name := c.ID + ".json"
	if c.Replay != "" {
		name = c.ID + ".replay.json" // a replay of one stored scenario does not replace the evidence of the last full run
	}
	return os.WriteFile(filepath.Join(dir, name), b, 0o644)
}

// Inconclusive is returned by a property function when the machinery itself failed.
type Inconclusive struct{ Msg string }

func (e Inconclusive) Error() string { return "inconclusive: " + e.Msg }

func Inconcl(format string, a ...any) error { return Inconclusive{fmt.Sprintf(format, a...)} }

// Short trims long strings for samples.
func Short(s string, n int) string {
	s = strings.TrimSpace(s)
	if len(s) > n {
		return s[:n] + "…"
	}
	return s
}
