// Package ev defines the ndjson trace events shared by the Go harness and the
// TLA+ trace specifications (spec/Engine_Trace.tla and friends). Every key is
// always present and no value is ever JSON null (the CommunityModules Json
// reader rejects null).
package ev

import (
	"bufio"
	"encoding/json"
	"os"
	"sort"
)

// Msg is the abstract view of one protocol message addressed to one recipient.
type Msg struct {
	Type string `json:"type"` // short protobuf name, e.g. KGRound2Message1
	From int    `json:"from"` // global 1-based party number
	To   int    `json:"to"`
	Kind string `json:"kind"` // "B" or "P": how the sender flagged it
	Fan  int    `json:"fan"`  // number of recipients the original message was addressed to
}

// Event is one line of a trace.
type Event struct {
	Ev    string `json:"ev"` // Reset | Start | Deliver
	Proto string `json:"proto"`
	NOld  int    `json:"nold"`
	NNew  int    `json:"nnew"`

	P  int    `json:"p"`  // the party called
	M  Msg    `json:"m"`  // Deliver: the message
	As string `json:"as"` // Deliver: flag handed to the party ("B"/"P")

	Ret      string `json:"ret"` // ok | ignored | err
	ErrRound int    `json:"err_round"`
	Culprits []int  `json:"culprits"`

	Rnd     int   `json:"rnd"` // 0 not started, 99 finished, else round number
	Waiting []int `json:"waiting"`
	Out     []Msg `json:"out"`
	Ended   int   `json:"ended"` // total results emitted by this party so far

	// property-specific observations (booleans), always a JSON object
	Obs map[string]bool `json:"obs"`

	// resharing (C04): old members whose caller-held secret share is still the original value,
	// new members that have emitted key data, new members whose final ACK has been seen on the wire
	Intact  []int `json:"intact"`
	Emitted []int `json:"emitted"`
	Acked   []int `json:"acked"`
}

const Done = 99

func (e *Event) Normalise() {
	if e.Culprits == nil {
		e.Culprits = []int{}
	}
	if e.Waiting == nil {
		e.Waiting = []int{}
	}
	if e.Out == nil {
		e.Out = []Msg{}
	}
	if e.Obs == nil {
		e.Obs = map[string]bool{}
	}
	if e.Intact == nil {
		e.Intact = []int{}
	}
	if e.Emitted == nil {
		e.Emitted = []int{}
	}
	if e.Acked == nil {
		e.Acked = []int{}
	}
	sort.Ints(e.Culprits)
	sort.Ints(e.Waiting)
	if e.M.Type == "" {
		e.M = Msg{Type: "-", Kind: "-"}
	}
	if e.As == "" {
		e.As = "-"
	}
	if e.Ret == "" {
		e.Ret = "-"
	}
	if e.Proto == "" {
		e.Proto = "-"
	}
}

// Writer appends events to an ndjson file.
type Writer struct {
	f *os.File
	w *bufio.Writer
	N int
}

func NewWriter(path string) (*Writer, error) {
	f, err := os.Create(path)
	if err != nil {
		return nil, err
	}
	return &Writer{f: f, w: bufio.NewWriterSize(f, 1<<20)}, nil
}

func (w *Writer) Emit(e Event) {
	if w == nil {
		return
	}
	e.Normalise()
	b, err := json.Marshal(e)
	if err != nil {
		panic(err)
	}
	w.w.Write(b)
	w.w.WriteByte('\n')
	w.N++
}

func (w *Writer) Close() error {
	if w == nil {
		return nil
	}
	if err := w.w.Flush(); err != nil {
		return err
	}
	return w.f.Close()
}

// Mem collects events in memory (used when a run is first executed and only
// later appended to a trace file).
type Mem struct{ Events []Event }

func (m *Mem) Emit(e Event) { e.Normalise(); m.Events = append(m.Events, e) }

type Sink interface{ Emit(Event) }
