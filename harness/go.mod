module verif/harness

go 1.21

require (
	github.com/bnb-chain/tss-lib/v2 v2.0.0
	github.com/ipfs/go-log v1.0.5
	google.golang.org/protobuf v1.31.0
)

require (
	github.com/agl/ed25519 v0.0.0-20200225211852-fd4d107ace12 // indirect
	github.com/btcsuite/btcd v0.23.4 // indirect
	github.com/btcsuite/btcd/btcec/v2 v2.3.2 // indirect
	github.com/btcsuite/btcd/chaincfg/chainhash v1.0.1 // indirect
	github.com/btcsuite/btcutil v1.0.2 // indirect
	github.com/decred/dcrd/dcrec/edwards/v2 v2.0.3 // indirect
	github.com/decred/dcrd/dcrec/secp256k1/v4 v4.0.1 // indirect
	github.com/gogo/protobuf v1.3.2 // indirect
	github.com/hashicorp/errwrap v1.0.0 // indirect
	github.com/hashicorp/go-multierror v1.1.1 // indirect
	github.com/ipfs/go-log/v2 v2.1.3 // indirect
	github.com/opentracing/opentracing-go v1.2.0 // indirect
	github.com/otiai10/primes v0.0.0-20210501021515-f1b2be525a11 // indirect
	github.com/pkg/errors v0.9.1 // indirect
	go.uber.org/atomic v1.7.0 // indirect
	go.uber.org/multierr v1.6.0 // indirect
	go.uber.org/zap v1.16.0 // indirect
	golang.org/x/crypto v0.13.0 // indirect
)

replace github.com/bnb-chain/tss-lib/v2 => /repo

replace github.com/agl/ed25519 => github.com/binance-chain/edwards25519 v0.0.0-20200305024217-f36fc4b53d43
