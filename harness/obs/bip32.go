package obs

// Independent BIP32 public (non-hardened) child key derivation and extended key serialisation.
//
// Nothing of tss-lib or of its dependencies (btcec, btcutil/base58, x/crypto/ripemd160) is used: HMAC-SHA512 and
// SHA-256 come from the Go standard library, RIPEMD-160 and base58 are written here, the point arithmetic is the
// affine math/big arithmetic of this package.  Bip32SelfCheck() compares all of it with the published BIP32 test
// vectors (and RIPEMD-160's own vectors); a failed self check makes a check inconclusive, never a violation.

import (
	"bytes"
	"crypto/hmac"
	"crypto/sha256"
	"crypto/sha512"
	"encoding/binary"
	"encoding/hex"
	"errors"
	"fmt"
	"math/big"
	"math/bits"
)

// ---------------------------------------------------------------- RIPEMD-160

var (
	rmdRL = [80]uint8{
		0, 1, 2, 3, 4, 5, 6, 7, 8, 9, 10, 11, 12, 13, 14, 15,
		7, 4, 13, 1, 10, 6, 15, 3, 12, 0, 9, 5, 2, 14, 11, 8,
		3, 10, 14, 4, 9, 15, 8, 1, 2, 7, 0, 6, 13, 11, 5, 12,
		1, 9, 11, 10, 0, 8, 12, 4, 13, 3, 7, 15, 14, 5, 6, 2,
		4, 0, 5, 9, 7, 12, 2, 10, 14, 1, 3, 8, 11, 6, 15, 13}
	rmdRR = [80]uint8{
		5, 14, 7, 0, 9, 2, 11, 4, 13, 6, 15, 8, 1, 10, 3, 12,
		6, 11, 3, 7, 0, 13, 5, 10, 14, 15, 8, 12, 4, 9, 1, 2,
		15, 5, 1, 3, 7, 14, 6, 9, 11, 8, 12, 2, 10, 0, 4, 13,
		8, 6, 4, 1, 3, 11, 15, 0, 5, 12, 2, 13, 9, 7, 10, 14,
		12, 15, 10, 4, 1, 5, 8, 7, 6, 2, 13, 14, 0, 3, 9, 11}
	rmdSL = [80]uint8{
		11, 14, 15, 12, 5, 8, 7, 9, 11, 13, 14, 15, 6, 7, 9, 8,
		7, 6, 8, 13, 11, 9, 7, 15, 7, 12, 15, 9, 11, 7, 13, 12,
		11, 13, 6, 7, 14, 9, 13, 15, 14, 8, 13, 6, 5, 12, 7, 5,
		11, 12, 14, 15, 14, 15, 9, 8, 9, 14, 5, 6, 8, 6, 5, 12,
		9, 15, 5, 11, 6, 8, 13, 12, 5, 12, 13, 14, 11, 8, 5, 6}
	rmdSR = [80]uint8{
		8, 9, 9, 11, 13, 15, 15, 5, 7, 7, 8, 11, 14, 14, 12, 6,
		9, 13, 15, 7, 12, 8, 9, 11, 7, 7, 12, 7, 6, 15, 13, 11,
		9, 7, 15, 11, 8, 6, 6, 14, 12, 13, 5, 14, 13, 13, 7, 5,
		15, 5, 8, 11, 14, 14, 6, 14, 6, 9, 12, 9, 12, 5, 15, 8,
		8, 5, 12, 9, 12, 5, 14, 6, 8, 13, 6, 5, 15, 13, 11, 11}
	rmdKL = [5]uint32{0x00000000, 0x5a827999, 0x6ed9eba1, 0x8f1bbcdc, 0xa953fd4e}
	rmdKR = [5]uint32{0x50a28be6, 0x5c4dd124, 0x6d703ef3, 0x7a6d76e9, 0x00000000}
)

func rmdF(j int, x, y, z uint32) uint32 {
	switch j / 16 {
	case 0:
		return x ^ y ^ z
	case 1:
		return (x & y) | (^x & z)
	case 2:
		return (x | ^y) ^ z
	case 3:
		return (x & z) | (y & ^z)
	default:
		return x ^ (y | ^z)
	}
}

// Ripemd160 is RIPEMD-160 (Dobbertin, Bosselaers, Preneel 1996).
func Ripemd160(msg []byte) []byte {
	h := [5]uint32{0x67452301, 0xefcdab89, 0x98badcfe, 0x10325476, 0xc3d2e1f0}
	m := append([]byte(nil), msg...)
	m = append(m, 0x80)
	for len(m)%64 != 56 {
		m = append(m, 0)
	}
	var lb [8]byte
	binary.LittleEndian.PutUint64(lb[:], uint64(len(msg))*8)
	m = append(m, lb[:]...)
	var x [16]uint32
	for off := 0; off < len(m); off += 64 {
		for i := 0; i < 16; i++ {
			x[i] = binary.LittleEndian.Uint32(m[off+4*i:])
		}
		al, bl, cl, dl, el := h[0], h[1], h[2], h[3], h[4]
		ar, br, cr, dr, er := al, bl, cl, dl, el
		for j := 0; j < 80; j++ {
			t := bits.RotateLeft32(al+rmdF(j, bl, cl, dl)+x[rmdRL[j]]+rmdKL[j/16], int(rmdSL[j])) + el
			al, el, dl, cl, bl = el, dl, bits.RotateLeft32(cl, 10), bl, t
			t = bits.RotateLeft32(ar+rmdF(79-j, br, cr, dr)+x[rmdRR[j]]+rmdKR[j/16], int(rmdSR[j])) + er
			ar, er, dr, cr, br = er, dr, bits.RotateLeft32(cr, 10), br, t
		}
		t := h[1] + cl + dr
		h[1] = h[2] + dl + er
		h[2] = h[3] + el + ar
		h[3] = h[4] + al + br
		h[4] = h[0] + bl + cr
		h[0] = t
	}
	out := make([]byte, 20)
	for i, v := range h {
		binary.LittleEndian.PutUint32(out[4*i:], v)
	}
	return out
}

// Hash160 is RIPEMD-160(SHA-256(b)).
func Hash160(b []byte) []byte {
	s := sha256.Sum256(b)
	return Ripemd160(s[:])
}

// ---------------------------------------------------------------- base58check

const b58Alphabet = "123456789ABCDEFGHJKLMNPQRSTUVWXYZabcdefghijkmnopqrstuvwxyz"

func Base58Encode(b []byte) string {
	zeros := 0
	for zeros < len(b) && b[zeros] == 0 {
		zeros++
	}
	n := new(big.Int).SetBytes(b)
	radix, mod := big.NewInt(58), new(big.Int)
	var out []byte
	for n.Sign() > 0 {
		n.DivMod(n, radix, mod)
		out = append(out, b58Alphabet[mod.Int64()])
	}
	for i := 0; i < zeros; i++ {
		out = append(out, '1')
	}
	for i, j := 0, len(out)-1; i < j; i, j = i+1, j-1 {
		out[i], out[j] = out[j], out[i]
	}
	return string(out)
}

func Base58Decode(s string) ([]byte, error) {
	n := new(big.Int)
	radix := big.NewInt(58)
	zeros := 0
	lead := true
	for _, c := range []byte(s) {
		i := bytes.IndexByte([]byte(b58Alphabet), c)
		if i < 0 {
			return nil, fmt.Errorf("base58: invalid character %q", c)
		}
		if lead && c == '1' {
			zeros++
		} else {
			lead = false
		}
		n.Mul(n, radix).Add(n, big.NewInt(int64(i)))
	}
	return append(make([]byte, zeros), n.Bytes()...), nil
}

func checksum4(b []byte) []byte {
	a := sha256.Sum256(b)
	c := sha256.Sum256(a[:])
	return c[:4]
}

// ---------------------------------------------------------------- extended public keys

// Bip32Field is one field of the serialisation layout (the layout is printed by TLC from spec/Bip32.tla).
type Bip32Field struct {
	Field string `json:"field"`
	Bytes int    `json:"bytes"`
}

// XKey is an extended public key (a BIP32 node without the private part).
type XKey struct {
	Version   []byte // 4 bytes
	Depth     byte
	ParentFP  []byte // 4 bytes
	Child     uint32
	ChainCode []byte // 32 bytes
	Key       Pt
}

// Compress is SEC1 point compression: 02 / 03 by the parity of y, then x as 32 big-endian bytes.
func Compress(p Pt) []byte {
	out := make([]byte, 33)
	out[0] = 2 + byte(p.Y.Bit(0))
	p.X.FillBytes(out[1:])
	return out
}

// Decompress inverts Compress on secp256k1.
func Decompress(b []byte) (Pt, error) {
	if len(b) != 33 || (b[0] != 2 && b[0] != 3) {
		return Pt{}, errors.New("not a compressed point")
	}
	x := new(big.Int).SetBytes(b[1:])
	if x.Cmp(Secp.p) >= 0 {
		return Pt{}, errors.New("x coordinate is not below the field prime")
	}
	p, ok := Secp.LiftX(x, uint(b[0]&1))
	if !ok {
		return Pt{}, errors.New("no curve point with this x coordinate")
	}
	return p, nil
}

// Fingerprint: the first four bytes of HASH160 of the compressed key.
func (k XKey) Fingerprint() []byte { return Hash160(Compress(k.Key))[:4] }

// Payload serialises the node in the order and widths given by layout (78 bytes for the BIP32 layout).
func (k XKey) Payload(layout []Bip32Field) ([]byte, error) {
	var out []byte
	for _, f := range layout {
		var v []byte
		switch f.Field {
		case "version":
			v = k.Version
		case "depth":
			v = []byte{k.Depth}
		case "parent_fp":
			v = k.ParentFP
		case "child_number":
			v = binary.BigEndian.AppendUint32(nil, k.Child)
		case "chain_code":
			v = k.ChainCode
		case "key":
			v = Compress(k.Key)
		default:
			return nil, fmt.Errorf("unknown field %q in the layout", f.Field)
		}
		if len(v) != f.Bytes {
			return nil, fmt.Errorf("field %s has %d bytes, the layout says %d", f.Field, len(v), f.Bytes)
		}
		out = append(out, v...)
	}
	return out, nil
}

// Encode is the base58check string of the node.
func (k XKey) Encode(layout []Bip32Field) (string, error) {
	p, err := k.Payload(layout)
	if err != nil {
		return "", err
	}
	return Base58Encode(append(p, checksum4(p)...)), nil
}

// ParseXKey decodes a base58check extended public key over secp256k1.
func ParseXKey(s string, layout []Bip32Field) (XKey, error) {
	var k XKey
	raw, err := Base58Decode(s)
	if err != nil {
		return k, err
	}
	total := 0
	for _, f := range layout {
		total += f.Bytes
	}
	if len(raw) != total+4 {
		return k, fmt.Errorf("extended key has %d bytes, want %d", len(raw), total+4)
	}
	if !bytes.Equal(checksum4(raw[:total]), raw[total:]) {
		return k, errors.New("bad checksum")
	}
	off := 0
	for _, f := range layout {
		v := append([]byte(nil), raw[off:off+f.Bytes]...)
		off += f.Bytes
		switch f.Field {
		case "version":
			k.Version = v
		case "depth":
			k.Depth = v[0]
		case "parent_fp":
			k.ParentFP = v
		case "child_number":
			k.Child = binary.BigEndian.Uint32(v)
		case "chain_code":
			k.ChainCode = v
		case "key":
			if k.Key, err = Decompress(v); err != nil {
				return k, err
			}
		default:
			return k, fmt.Errorf("unknown field %q in the layout", f.Field)
		}
	}
	return k, nil
}

// Bip32Layout is the BIP32 serialisation layout (used when no layout printed by the specification is at hand).
var Bip32Layout = []Bip32Field{{"version", 4}, {"depth", 1}, {"parent_fp", 4}, {"child_number", 4}, {"chain_code", 32}, {"key", 33}}

// CKD classes
const (
	CkdValid    = "valid"
	CkdHardened = "hardened" // index >= 2^31: no public derivation exists
	CkdDepth    = "depth"    // the parent's depth is 255: the child's depth does not fit the byte
	CkdGE       = "ge"       // IL >= group order
	CkdZero     = "zero"     // IL = 0 (BIP32 does not name this case for public derivation; the child would equal the parent)
	CkdIdentity = "identity" // parent + IL*G is the point at infinity
)

// CkdStep is the outcome of one public derivation step computed independently.
type CkdStep struct {
	Class string
	IL    *big.Int // set when the HMAC was computed
	Child XKey     // set when Class == CkdValid
}

// HmacIL computes I = HMAC-SHA512(key = chain code, data = compressed parent key || index) and splits it.
func HmacIL(k XKey, index uint32) (il *big.Int, right []byte) {
	mac := hmac.New(sha512.New, k.ChainCode)
	mac.Write(Compress(k.Key))
	mac.Write(binary.BigEndian.AppendUint32(nil, index))
	i := mac.Sum(nil)
	return new(big.Int).SetBytes(i[:32]), i[32:]
}

// CKDpub is BIP32's public parent key -> public child key function over the group g
// (secp256k1 for BIP32 proper; the same formulas over any other group of this package).
func CKDpub(g Group, k XKey, index uint32) CkdStep {
	if index >= 1<<31 {
		return CkdStep{Class: CkdHardened}
	}
	if k.Depth == 255 {
		return CkdStep{Class: CkdDepth}
	}
	il, right := HmacIL(k, index)
	if il.Cmp(g.Order()) >= 0 {
		return CkdStep{Class: CkdGE, IL: il}
	}
	if il.Sign() == 0 {
		return CkdStep{Class: CkdZero, IL: il}
	}
	child := g.Add(BaseMul(g, il), k.Key)
	if child.Inf || child.Eq(g.Identity()) {
		return CkdStep{Class: CkdIdentity, IL: il}
	}
	return CkdStep{Class: CkdValid, IL: il, Child: XKey{
		Version: append([]byte(nil), k.Version...), Depth: k.Depth + 1, ParentFP: k.Fingerprint(), Child: index,
		ChainCode: right, Key: child}}
}

// ---------------------------------------------------------------- self check

type bip32Vec struct {
	parent string
	index  uint32
	child  string
}

// Bip32Vectors: the non-hardened public derivation steps contained in the published BIP32 test vectors 1 and 2
// (parent and child extended public keys as printed in the BIP), followed by the public-only chains that
// btcsuite's hdkeychain derives from the two master public keys (TestPublicDerivation).
var Bip32Vectors = []bip32Vec{
	// test vector 1: m/0' -> m/0'/1
	{"xpub68Gmy5EdvgibQVfPdqkBBCHxA5htiqg55crXYuXoQRKfDBFA1WEjWgP6LHhwBZeNK1VTsfTFUHCdrfp1bgwQ9xv5ski8PX9rL2dZXvgGDnw", 1,
		"xpub6ASuArnXKPbfEwhqN6e3mwBcDTgzisQN1wXN9BJcM47sSikHjJf3UFHKkNAWbWMiGj7Wf5uMash7SyYq527Hqck2AxYysAA7xmALppuCkwQ"},
	// m/0'/1/2' -> m/0'/1/2'/2
	{"xpub6D4BDPcP2GT577Vvch3R8wDkScZWzQzMMUm3PWbmWvVJrZwQY4VUNgqFJPMM3No2dFDFGTsxxpG5uJh7n7epu4trkrX7x7DogT5Uv6fcLW5", 2,
		"xpub6FHa3pjLCk84BayeJxFW2SP4XRrFd1JYnxeLeU8EqN3vDfZmbqBqaGJAyiLjTAwm6ZLRQUMv1ZACTj37sR62cfN7fe5JnJ7dh8zL4fiyLHV"},
	// m/0'/1/2'/2 -> m/0'/1/2'/2/1000000000
	{"xpub6FHa3pjLCk84BayeJxFW2SP4XRrFd1JYnxeLeU8EqN3vDfZmbqBqaGJAyiLjTAwm6ZLRQUMv1ZACTj37sR62cfN7fe5JnJ7dh8zL4fiyLHV", 1000000000,
		"xpub6H1LXWLaKsWFhvm6RVpEL9P4KfRZSW7abD2ttkWP3SSQvnyA8FSVqNTEcYFgJS2UaFcxupHiYkro49S8yGasTvXEYBVPamhGW6cFJodrTHy"},
	// test vector 2: m -> m/0
	{"xpub661MyMwAqRbcFW31YEwpkMuc5THy2PSt5bDMsktWQcFF8syAmRUapSCGu8ED9W6oDMSgv6Zz8idoc4a6mr8BDzTJY47LJhkJ8UB7WEGuduB", 0,
		"xpub69H7F5d8KSRgmmdJg2KhpAK8SR3DjMwAdkxj3ZuxV27CprR9LgpeyGmXUbC6wb7ERfvrnKZjXoUmmDznezpbZb7ap6r1D3tgFxHmwMkQTPH"},
	// m/0/2147483647' -> m/0/2147483647'/1
	{"xpub6ASAVgeehLbnwdqV6UKMHVzgqAG8Gr6riv3Fxxpj8ksbH9ebxaEyBLZ85ySDhKiLDBrQSARLq1uNRts8RuJiHjaDMBU4Zn9h8LZNnBC5y4a", 1,
		"xpub6DF8uhdarytz3FWdA8TvFSvvAh8dP3283MY7p2V4SeE2wyWmG5mg5EwVvmdMVCQcoNJxGoWaU9DCWh89LojfZ537wTfunKau47EL2dhHKon"},
	// m/0/2147483647'/1/2147483646' -> .../2
	{"xpub6ERApfZwUNrhLCkDtcHTcxd75RbzS1ed54G1LkBUHQVHQKqhMkhgbmJbZRkrgZw4koxb5JaHWkY4ALHY2grBGRjaDMzQLcgJvLJuZZvRcEL", 2,
		"xpub6FnCn6nSzZAw5Tw7cgR9bi15UV96gLZhjDstkXXxvCLsUXBGXPdSnLFbdpq8p9HmGsApME5hQTZ3emM2rnY5agb9rXpVGyy3bdW6EEgAtqt"},
	// public-only chain from the master of test vector 1: m/0/1/2/2/1000000000
	{"xpub661MyMwAqRbcFtXgS5sYJABqqG9YLmC4Q1Rdap9gSE8NqtwybGhePY2gZ29ESFjqJoCu1Rupje8YtGqsefD265TMg7usUDFdp6W1EGMcet8", 0,
		"xpub68Gmy5EVb2BdFbj2LpWrk1M7obNuaPTpT5oh9QCCo5sRfqSHVYWex97WpDZzszdzHzxXDAzPLVSwybe4uPYkSk4G3gnrPqqkV9RyNzAcNJ1"},
	{"xpub68Gmy5EVb2BdFbj2LpWrk1M7obNuaPTpT5oh9QCCo5sRfqSHVYWex97WpDZzszdzHzxXDAzPLVSwybe4uPYkSk4G3gnrPqqkV9RyNzAcNJ1", 1,
		"xpub6AvUGrnEpfvJBbfx7sQ89Q8hEMPM65UteqEX4yUbUiES2jHfjexmfJoxCGSwFMZiPBaKQT1RiKWrKfuDV4vpgVs4Xn8PpPTR2i79rwHd4Zr"},
	{"xpub6AvUGrnEpfvJBbfx7sQ89Q8hEMPM65UteqEX4yUbUiES2jHfjexmfJoxCGSwFMZiPBaKQT1RiKWrKfuDV4vpgVs4Xn8PpPTR2i79rwHd4Zr", 2,
		"xpub6BqyndF6rhZqmgktFCBcapkwubGxPqoAZtQaYewJHXVKZcLdnqBVC8N6f6FSHWUghjuTLeubWyQWfJdk2G3tGgvgj3qngo4vLTnnSjAZckv"},
	{"xpub6BqyndF6rhZqmgktFCBcapkwubGxPqoAZtQaYewJHXVKZcLdnqBVC8N6f6FSHWUghjuTLeubWyQWfJdk2G3tGgvgj3qngo4vLTnnSjAZckv", 2,
		"xpub6FHUhLbYYkgFQiFrDiXRfQFXBB2msCxKTsNyAExi6keFxQ8sHfwpogY3p3s1ePSpUqLNYks5T6a3JqpCGszt4kxbyq7tUoFP5c8KWyiDtPp"},
	{"xpub6FHUhLbYYkgFQiFrDiXRfQFXBB2msCxKTsNyAExi6keFxQ8sHfwpogY3p3s1ePSpUqLNYks5T6a3JqpCGszt4kxbyq7tUoFP5c8KWyiDtPp", 1000000000,
		"xpub6GX3zWVgSgPc5tgjE6ogT9nfwSADD3tdsxpzd7jJoJMqSY12Be6VQEFwDCp6wAQoZsH2iq5nNocHEaVDxBcobPrkZCjYW3QUmoDYzMFBDu9"},
	// public-only chain from the master of test vector 2: m/0/2147483647/1/2147483646/2
	{"xpub69H7F5d8KSRgmmdJg2KhpAK8SR3DjMwAdkxj3ZuxV27CprR9LgpeyGmXUbC6wb7ERfvrnKZjXoUmmDznezpbZb7ap6r1D3tgFxHmwMkQTPH", 2147483647,
		"xpub6ASAVgeWMg4pmutghzHG3BohahjwNwPmy2DgM6W9wGegtPrvNgjBwuZRD7hSDFhYfunq8vDgwG4ah1gVzZysgp3UsKz7VNjCnSUJJ5T4fdD"},
	{"xpub6ASAVgeWMg4pmutghzHG3BohahjwNwPmy2DgM6W9wGegtPrvNgjBwuZRD7hSDFhYfunq8vDgwG4ah1gVzZysgp3UsKz7VNjCnSUJJ5T4fdD", 1,
		"xpub6CrnV7NzJy4VdgP5niTpqWJiFXMAca6qBm5Hfsry77SQmN1HGYHnjsZSujoHzdxf7ZNK5UVrmDXFPiEW2ecwHGWMFGUxPC9ARipss9rXd4b"},
	{"xpub6CrnV7NzJy4VdgP5niTpqWJiFXMAca6qBm5Hfsry77SQmN1HGYHnjsZSujoHzdxf7ZNK5UVrmDXFPiEW2ecwHGWMFGUxPC9ARipss9rXd4b", 2147483646,
		"xpub6FL2423qFaWzHCvBndkN9cbkn5cysiUeFq4eb9t9kE88jcmY63tNuLNRzpHPdAM4dUpLhZ7aUm2cJ5zF7KYonf4jAPfRqTMTRBNkQL3Tfta"},
	{"xpub6FL2423qFaWzHCvBndkN9cbkn5cysiUeFq4eb9t9kE88jcmY63tNuLNRzpHPdAM4dUpLhZ7aUm2cJ5zF7KYonf4jAPfRqTMTRBNkQL3Tfta", 2,
		"xpub6H7WkJf547AiSwAbX6xsm8Bmq9M9P1Gjequ5SipsjipWmtXSyp4C3uwzewedGEgAMsDy4jEvNTWtxLyqqHY9C12gaBmgUdk2CGmwachwnWK"},
}

// Bip32ParseOnly: further published extended public keys (test vector 3, and hardened children) that must survive a
// parse / re-encode round trip.
var Bip32ParseOnly = []string{
	"xpub661MyMwAqRbcEZVB4dScxMAdx6d4nFc9nvyvH3v4gJL378CSRZiYmhRoP7mBy6gSPSCYk6SzXPTf3ND1cZAceL7SfJ1Z3GC8vBgp2epUt13",
	"xpub68NZiKmJWnxxS6aaHmn81bvJeTESw724CRDs6HbuccFQN9Ku14VQrADWgqbhhTHBaohPX4CjNLf9fq9MYo6oDaPPLPxSb7gwQN3ih19Zm4Y",
	"xpub661MyMwAqRbcFtXgS5sYJABqqG9YLmC4Q1Rdap9gSE8NqtwybGhePY2gZ29ESFjqJoCu1Rupje8YtGqsefD265TMg7usUDFdp6W1EGMcet8",
	"tpubD6NzVbkrYhZ4XgiXtGrdW5XDAPFCL9h7we1vwNCpn8tGbBcgfVYjXyhWo4E1xkh56hjod1RhGjxbaTLV3X4FyWuejifB9jusQ46QzG87VKp",
}

// Bip32VectorList exposes the vectors to the checks (parent, index, child).
func Bip32VectorList() (out [][3]string) {
	for _, v := range Bip32Vectors {
		out = append(out, [3]string{v.parent, fmt.Sprint(v.index), v.child})
	}
	return out
}

// Bip32SelfCheck validates the independent derivation against published vectors, with the given layout.
func Bip32SelfCheck(layout []Bip32Field) error {
	for _, v := range [][2]string{
		{"", "9c1185a5c5e9fc54612808977ee8f548b2258d31"},
		{"a", "0bdc9d2d256b3ee9daae347be6f4dc835a467ffe"},
		{"abc", "8eb208f7e05d987a9b044a8e98c6b087f15a0bfc"},
		{"message digest", "5d0689ef49d2fae572b881b123a85ffa21595f36"},
		{"abcdefghijklmnopqrstuvwxyz", "f71c27109c692c1b56bbdceb5b9d2865b3708dbc"},
		{"abcdbcdecdefdefgefghfghighijhijkijkljklmklmnlmnomnopnopq", "12a053384a9c0c88e405a06c27dcf49ada62eb2b"},
		{"12345678901234567890123456789012345678901234567890123456789012345678901234567890", "9b752e45573d4b39f4dbd3323cab82bf63326bfb"},
	} {
		if got := hex.EncodeToString(Ripemd160([]byte(v[0]))); got != v[1] {
			return fmt.Errorf("RIPEMD-160(%q) = %s, published %s", v[0], got, v[1])
		}
	}
	if s := Base58Encode([]byte{0, 0, 1, 2, 3}); s != "11Ldp" {
		return fmt.Errorf("base58 of 0000010203 = %s, want 11Ldp", s)
	}
	for _, s := range Bip32ParseOnly {
		k, err := ParseXKey(s, layout)
		if err != nil {
			return fmt.Errorf("published key %s does not parse: %v", s[:16], err)
		}
		back, err := k.Encode(layout)
		if err != nil || back != s {
			return fmt.Errorf("published key %s does not survive parse/encode (%v)", s[:16], err)
		}
	}
	for _, v := range Bip32Vectors {
		p, err := ParseXKey(v.parent, layout)
		if err != nil {
			return fmt.Errorf("published parent %s does not parse: %v", v.parent[:16], err)
		}
		st := CKDpub(Secp, p, v.index)
		if st.Class != CkdValid {
			return fmt.Errorf("published derivation %s / %d classified %s", v.parent[:16], v.index, st.Class)
		}
		got, err := st.Child.Encode(layout)
		if err != nil || got != v.child {
			return fmt.Errorf("independent derivation %s / %d gives %s (%v), published %s", v.parent[:16], v.index, got, err, v.child)
		}
		// child = parent + IL*G, the other way round
		if !Secp.Add(st.Child.Key, Secp.Neg(BaseMul(Secp, st.IL))).Eq(p.Key) {
			return errors.New("independent derivation: child - IL*G is not the parent")
		}
		// a different index must not give the published child
		if o := CKDpub(Secp, p, v.index^1); o.Class == CkdValid {
			if s, _ := o.Child.Encode(layout); s == v.child {
				return errors.New("independent derivation ignores the index")
			}
		}
	}
	if CKDpub(Secp, XKey{Depth: 0}, 1<<31).Class != CkdHardened || CKDpub(Secp, XKey{Depth: 255}, 0).Class != CkdDepth {
		return errors.New("independent derivation: refusal classes")
	}
	return nil
}
