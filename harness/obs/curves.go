// Package obs holds the independent oracles of the harness: affine secp256k1
// and edwards25519 arithmetic over math/big (written here, independent of
// btcec / dcrd / agl used by tss-lib), ECDSA verification and public key
// recovery, Ed25519 verification through the Go standard library, Lagrange
// interpolation.  SelfCheck() compares them with published vectors; a failed
// self check makes every check inconclusive (exit 2), never a violation.
package obs

import (
	"crypto/ed25519"
	"encoding/hex"
	"errors"
	"fmt"
	"math/big"
)

// Pt is an affine point; Inf marks the neutral element.
type Pt struct {
	X, Y *big.Int
	Inf  bool
}

func (p Pt) Eq(q Pt) bool {
	if p.Inf || q.Inf {
		return p.Inf == q.Inf
	}
	return p.X.Cmp(q.X) == 0 && p.Y.Cmp(q.Y) == 0
}

func (p Pt) String() string {
	if p.Inf {
		return "inf"
	}
	return fmt.Sprintf("(%x,%x)", p.X, p.Y)
}

// Group is a prime-order (sub)group of an elliptic curve with independent arithmetic.
type Group interface {
	Name() string
	Order() *big.Int
	Gen() Pt
	Add(a, b Pt) Pt
	Neg(a Pt) Pt
	OnCurve(a Pt) bool
	Identity() Pt
}

func Mul(g Group, k *big.Int, p Pt) Pt {
	// plain double-and-add on the non-negative integer k (no reduction: callers decide)
	r := g.Identity()
	if k.Sign() < 0 {
		return Mul(g, new(big.Int).Neg(k), g.Neg(p))
	}
	for i := k.BitLen() - 1; i >= 0; i-- {
		r = g.Add(r, r)
		if k.Bit(i) == 1 {
			r = g.Add(r, p)
		}
	}
	return r
}

func BaseMul(g Group, k *big.Int) Pt { return Mul(g, k, g.Gen()) }

func hexInt(s string) *big.Int {
	v, ok := new(big.Int).SetString(s, 16)
	if !ok {
		panic("bad hex " + s)
	}
	return v
}

// ---------------------------------------------------------------- secp256k1

type secp struct{ p, n, gx, gy, b *big.Int }

var Secp = &secp{
	p:  hexInt("FFFFFFFFFFFFFFFFFFFFFFFFFFFFFFFFFFFFFFFFFFFFFFFFFFFFFFFEFFFFFC2F"),
	n:  hexInt("FFFFFFFFFFFFFFFFFFFFFFFFFFFFFFFEBAAEDCE6AF48A03BBFD25E8CD0364141"),
	gx: hexInt("79BE667EF9DCBBAC55A06295CE870B07029BFCDB2DCE28D959F2815B16F81798"),
	gy: hexInt("483ADA7726A3C4655DA4FBFC0E1108A8FD17B448A68554199C47D08FFB10D4B8"),
	b:  big.NewInt(7),
}

func (c *secp) Name() string     { return "secp256k1" }
func (c *secp) Order() *big.Int  { return c.n }
func (c *secp) P() *big.Int      { return c.p }
func (c *secp) Gen() Pt          { return Pt{X: c.gx, Y: c.gy} }
func (c *secp) Identity() Pt     { return Pt{Inf: true} }
func (c *secp) Neg(a Pt) Pt {
	if a.Inf {
		return a
	}
	return Pt{X: a.X, Y: new(big.Int).Mod(new(big.Int).Neg(a.Y), c.p)}
}
func (c *secp) OnCurve(a Pt) bool {
	if a.Inf {
		return true
	}
	if a.X.Sign() < 0 || a.Y.Sign() < 0 || a.X.Cmp(c.p) >= 0 || a.Y.Cmp(c.p) >= 0 {
		return false
	}
	l := new(big.Int).Mul(a.Y, a.Y)
	r := new(big.Int).Mul(a.X, a.X)
	r.Mul(r, a.X).Add(r, c.b)
	return l.Sub(l, r).Mod(l, c.p).Sign() == 0
}
func (c *secp) Add(a, b Pt) Pt {
	if a.Inf {
		return b
	}
	if b.Inf {
		return a
	}
	var lam *big.Int
	if a.X.Cmp(b.X) == 0 {
		if new(big.Int).Mod(new(big.Int).Add(a.Y, b.Y), c.p).Sign() == 0 {
			return Pt{Inf: true}
		}
		// doubling: lam = 3x^2 / 2y
		num := new(big.Int).Mul(a.X, a.X)
		num.Mul(num, big.NewInt(3))
		den := new(big.Int).Lsh(a.Y, 1)
		lam = num.Mul(num, den.ModInverse(den, c.p))
	} else {
		num := new(big.Int).Sub(b.Y, a.Y)
		den := new(big.Int).Sub(b.X, a.X)
		den.Mod(den, c.p)
		lam = num.Mul(num, den.ModInverse(den, c.p))
	}
	lam.Mod(lam, c.p)
	x := new(big.Int).Mul(lam, lam)
	x.Sub(x, a.X).Sub(x, b.X).Mod(x, c.p)
	y := new(big.Int).Sub(a.X, x)
	y.Mul(y, lam).Sub(y, a.Y).Mod(y, c.p)
	return Pt{X: x, Y: y}
}

// LiftX returns the point with the given x and y parity (odd = 1), if any.
func (c *secp) LiftX(x *big.Int, odd uint) (Pt, bool) {
	if x.Cmp(c.p) >= 0 {
		return Pt{}, false
	}
	rhs := new(big.Int).Mul(x, x)
	rhs.Mul(rhs, x).Add(rhs, c.b).Mod(rhs, c.p)
	y := new(big.Int).ModSqrt(rhs, c.p)
	if y == nil {
		return Pt{}, false
	}
	if y.Bit(0) != odd {
		y.Sub(c.p, y)
	}
	return Pt{X: new(big.Int).Set(x), Y: y}, true
}

// ---------------------------------------------------------------- edwards25519

type edw struct{ p, l, d, bx, by *big.Int }

var Ed = func() *edw {
	p := new(big.Int).Sub(new(big.Int).Lsh(big.NewInt(1), 255), big.NewInt(19))
	l, _ := new(big.Int).SetString("7237005577332262213973186563042994240857116359379907606001950938285454250989", 10)
	inv := new(big.Int).ModInverse(big.NewInt(121666), p)
	d := new(big.Int).Mul(big.NewInt(-121665), inv)
	d.Mod(d, p)
	by := new(big.Int).Mul(big.NewInt(4), new(big.Int).ModInverse(big.NewInt(5), p))
	by.Mod(by, p)
	e := &edw{p: p, l: l, d: d, by: by}
	bx, ok := e.recoverX(by, 0)
	if !ok {
		panic("no base point")
	}
	e.bx = bx
	return e
}()

func (c *edw) Name() string    { return "edwards25519" }
func (c *edw) Order() *big.Int { return c.l }
func (c *edw) P() *big.Int     { return c.p }
func (c *edw) Gen() Pt         { return Pt{X: c.bx, Y: c.by} }
func (c *edw) Identity() Pt    { return Pt{X: big.NewInt(0), Y: big.NewInt(1)} }
func (c *edw) Neg(a Pt) Pt {
	return Pt{X: new(big.Int).Mod(new(big.Int).Neg(a.X), c.p), Y: a.Y}
}
func (c *edw) OnCurve(a Pt) bool {
	if a.Inf {
		return false
	}
	if a.X.Sign() < 0 || a.Y.Sign() < 0 || a.X.Cmp(c.p) >= 0 || a.Y.Cmp(c.p) >= 0 {
		return false
	}
	x2 := new(big.Int).Mul(a.X, a.X)
	y2 := new(big.Int).Mul(a.Y, a.Y)
	l := new(big.Int).Sub(y2, x2)
	r := new(big.Int).Mul(x2, y2)
	r.Mul(r, c.d).Add(r, big.NewInt(1))
	return l.Sub(l, r).Mod(l, c.p).Sign() == 0
}
func (c *edw) Add(a, b Pt) Pt {
	x1y2 := new(big.Int).Mul(a.X, b.Y)
	x2y1 := new(big.Int).Mul(b.X, a.Y)
	y1y2 := new(big.Int).Mul(a.Y, b.Y)
	x1x2 := new(big.Int).Mul(a.X, b.X)
	t := new(big.Int).Mul(x1x2, y1y2)
	t.Mul(t, c.d).Mod(t, c.p)
	dx := new(big.Int).Add(big.NewInt(1), t)
	dy := new(big.Int).Sub(big.NewInt(1), t)
	dx.Mod(dx, c.p)
	dy.Mod(dy, c.p)
	x := new(big.Int).Add(x1y2, x2y1)
	x.Mul(x, dx.ModInverse(dx, c.p)).Mod(x, c.p)
	y := new(big.Int).Add(y1y2, x1x2)
	y.Mul(y, dy.ModInverse(dy, c.p)).Mod(y, c.p)
	return Pt{X: x, Y: y}
}

func (c *edw) recoverX(y *big.Int, sign uint) (*big.Int, bool) {
	// x^2 = (y^2 - 1) / (d y^2 + 1)
	y2 := new(big.Int).Mul(y, y)
	num := new(big.Int).Sub(y2, big.NewInt(1))
	den := new(big.Int).Mul(c.d, y2)
	den.Add(den, big.NewInt(1)).Mod(den, c.p)
	if den.Sign() == 0 {
		return nil, false
	}
	x2 := num.Mul(num, den.ModInverse(den, c.p))
	x2.Mod(x2, c.p)
	x := new(big.Int).ModSqrt(x2, c.p)
	if x == nil {
		return nil, false
	}
	if x.Sign() == 0 && sign == 1 {
		return nil, false
	}
	if x.Bit(0) != sign {
		x.Sub(c.p, x)
	}
	return x, true
}

// Encode is the RFC 8032 32-byte encoding of a point.
func (c *edw) Encode(a Pt) []byte {
	out := make([]byte, 32)
	yb := a.Y.Bytes()
	for i, b := range yb {
		out[len(yb)-1-i] = b
	}
	if a.X.Bit(0) == 1 {
		out[31] |= 0x80
	}
	return out
}

// Decode inverts Encode.
func (c *edw) Decode(b []byte) (Pt, bool) {
	if len(b) != 32 {
		return Pt{}, false
	}
	le := make([]byte, 32)
	for i := range b {
		le[31-i] = b[i]
	}
	sign := uint(le[0] >> 7)
	le[0] &= 0x7f
	y := new(big.Int).SetBytes(le)
	if y.Cmp(c.p) >= 0 {
		return Pt{}, false
	}
	x, ok := c.recoverX(y, sign)
	if !ok {
		return Pt{}, false
	}
	return Pt{X: x, Y: y}, true
}

// Torsion returns the 8 points of order dividing 8.
func (c *edw) Torsion() []Pt {
	// a point of order 8: y with x^2 = ... ; use the known encoding of an order-8 point
	enc, _ := hex.DecodeString("26e8958fc2b227b045c3f489f2ef98f0d5dfac05d3c63339b13802886d53fc05")
	t8, ok := c.Decode(enc)
	if !ok {
		panic("torsion generator does not decode")
	}
	pts := []Pt{c.Identity()}
	cur := t8
	for i := 1; i < 8; i++ {
		pts = append(pts, cur)
		cur = c.Add(cur, t8)
	}
	return pts
}

// ---------------------------------------------------------------- signatures

// EcdsaVerify is textbook ECDSA verification of (r,s) over the integer digest e (already reduced to at most 32 bytes).
func EcdsaVerify(pub Pt, e, r, s *big.Int) bool {
	n := Secp.n
	if r.Sign() <= 0 || s.Sign() <= 0 || r.Cmp(n) >= 0 || s.Cmp(n) >= 0 || pub.Inf || !Secp.OnCurve(pub) {
		return false
	}
	w := new(big.Int).ModInverse(s, n)
	u1 := new(big.Int).Mul(e, w)
	u1.Mod(u1, n)
	u2 := new(big.Int).Mul(r, w)
	u2.Mod(u2, n)
	R := Secp.Add(BaseMul(Secp, u1), Mul(Secp, u2, pub))
	if R.Inf {
		return false
	}
	return new(big.Int).Mod(R.X, n).Cmp(r) == 0
}

// EcdsaRecover returns the public key recovered from (r, s, recid) and digest e.
func EcdsaRecover(e, r, s *big.Int, recid byte) (Pt, error) {
	n := Secp.n
	x := new(big.Int).Set(r)
	if recid&2 != 0 {
		x.Add(x, n)
	}
	R, ok := Secp.LiftX(x, uint(recid&1))
	if !ok {
		return Pt{}, errors.New("no curve point for r")
	}
	rinv := new(big.Int).ModInverse(r, n)
	if rinv == nil {
		return Pt{}, errors.New("r not invertible")
	}
	sR := Mul(Secp, s, R)
	eG := BaseMul(Secp, new(big.Int).Mod(e, n))
	Q := Mul(Secp, rinv, Secp.Add(sR, Secp.Neg(eG)))
	return Q, nil
}

// Ed25519Verify uses the Go standard library (independent of the libraries tss-lib signs with).
func Ed25519Verify(pub Pt, msg, sig []byte) bool {
	if len(sig) != 64 || pub.Inf {
		return false
	}
	return ed25519.Verify(ed25519.PublicKey(Ed.Encode(pub)), msg, sig)
}

// LagrangeAtZero returns the coefficients lambda_i with sum lambda_i f(x_i) = f(0) mod q.
func LagrangeAtZero(xs []*big.Int, q *big.Int) ([]*big.Int, error) {
	out := make([]*big.Int, len(xs))
	for i := range xs {
		num, den := big.NewInt(1), big.NewInt(1)
		for j := range xs {
			if i == j {
				continue
			}
			num.Mul(num, xs[j]).Mod(num, q)
			d := new(big.Int).Sub(xs[j], xs[i])
			den.Mul(den, d.Mod(d, q)).Mod(den, q)
		}
		inv := new(big.Int).ModInverse(den, q)
		if inv == nil {
			return nil, errors.New("ids collide modulo the group order")
		}
		out[i] = num.Mul(num, inv).Mod(num, q)
	}
	return out, nil
}

// SelfCheck validates the independent arithmetic against published vectors.
func SelfCheck() error {
	// secp256k1: 2G and n*G
	g2 := Secp.Add(Secp.Gen(), Secp.Gen())
	if g2.X.Cmp(hexInt("C6047F9441ED7D6D3045406E95C07CD85C778E4B8CEF3CA7ABAC09B95C709EE5")) != 0 ||
		g2.Y.Cmp(hexInt("1AE168FEA63DC339A3C58419466CEAEEF7F632653266D0E1236431A950CFE52A")) != 0 {
		return errors.New("secp256k1 2G mismatch")
	}
	if !Mul(Secp, Secp.n, Secp.Gen()).Inf {
		return errors.New("secp256k1 n*G is not the identity")
	}
	if !Secp.OnCurve(g2) {
		return errors.New("secp256k1 2G not on curve")
	}
	// ECDSA: sign with a known key using the textbook equations and verify / recover
	d := hexInt("1E99423A4ED27608A15A2616A2B0E9E52CED330AC530EDCC32C8FFC6A526AEDD")
	Q := BaseMul(Secp, d)
	k := hexInt("A6E3C57DD01ABE90086538398355DD4C3B17AA873382B0F24D6129493D8AAD60")
	e := hexInt("4B688DF40BCEDBE641DDB16FF0A1842D9C67EA1C3BF63F3E0471BAA664531D1A")
	R := BaseMul(Secp, k)
	r := new(big.Int).Mod(R.X, Secp.n)
	s := new(big.Int).Mul(r, d)
	s.Add(s, e).Mul(s, new(big.Int).ModInverse(k, Secp.n)).Mod(s, Secp.n)
	if !EcdsaVerify(Q, e, r, s) {
		return errors.New("ecdsa self verification failed")
	}
	rec, err := EcdsaRecover(e, r, s, byte(R.Y.Bit(0)))
	if err != nil || !rec.Eq(Q) {
		return errors.New("ecdsa recovery self check failed")
	}
	if EcdsaVerify(Q, new(big.Int).Add(e, big.NewInt(1)), r, s) {
		return errors.New("ecdsa verifies a wrong digest")
	}
	// edwards25519: base point encoding, order, RFC 8032 test 1 public key
	if hex.EncodeToString(Ed.Encode(Ed.Gen())) != "5866666666666666666666666666666666666666666666666666666666666666" {
		return errors.New("ed25519 base point encoding mismatch")
	}
	if !Mul(Ed, Ed.l, Ed.Gen()).Eq(Ed.Identity()) {
		return errors.New("ed25519 l*B is not the identity")
	}
	// RFC 8032 7.1 TEST 1: secret scalar derived by the stdlib; compare A = a*B through our arithmetic
	seed, _ := hex.DecodeString("9d61b19deffd5a60ba844af492ec2cc44449c5697b326919703bac031cae7f60")
	priv := ed25519.NewKeyFromSeed(seed)
	pubWant := "d75a980182b10ab7d54bfed3c964073a0ee172f3daa62325af021a68f707511a"
	if hex.EncodeToString(priv.Public().(ed25519.PublicKey)) != pubWant {
		return errors.New("stdlib ed25519 test vector mismatch")
	}
	A, ok := Ed.Decode(priv.Public().(ed25519.PublicKey))
	if !ok || !Ed.OnCurve(A) || hex.EncodeToString(Ed.Encode(A)) != pubWant {
		return errors.New("ed25519 decode/encode round trip failed")
	}
	sig := ed25519.Sign(priv, []byte{})
	if !Ed25519Verify(A, []byte{}, sig) {
		return errors.New("ed25519 verify of RFC vector failed")
	}
	ts := Ed.Torsion()
	if !Mul(Ed, big.NewInt(8), ts[1]).Eq(Ed.Identity()) || Mul(Ed, big.NewInt(4), ts[1]).Eq(Ed.Identity()) {
		return errors.New("torsion generator does not have order 8")
	}
	// Lagrange
	q := big.NewInt(101)
	xs := []*big.Int{big.NewInt(1), big.NewInt(2), big.NewInt(5)}
	lam, err := LagrangeAtZero(xs, q)
	if err != nil {
		return err
	}
	f := func(x int64) *big.Int { return big.NewInt((7 + 3*x + 9*x*x) % 101) }
	acc := big.NewInt(0)
	for i, x := range xs {
		acc.Add(acc, new(big.Int).Mul(lam[i], f(x.Int64())))
	}
	if acc.Mod(acc, q).Int64() != 7 {
		return errors.New("lagrange self check failed")
	}
	return nil
}
