package props

import (
	"encoding/json"
	"math/big"
	"fmt"
	"os"
	"sort"
	"strings"
	"sync"
	"time"

	"verif/harness/core"
	"verif/harness/obs"
	"verif/harness/pump"
	"verif/harness/sandbox"
	"verif/harness/tamper"
	"verif/harness/tlc"
)

// faultBase lists the small configurations the fault catalogue runs on (n >= 3 so that another honest party exists).
type faultBase struct {
	sc   Scenario
	cost int // rough seconds per run
}

func faultBases(ctx *core.Ctx) []faultBase {
	s := ctx.Seed * 131
	return []faultBase{
		{Scenario{Proto: pump.EdKeygen, N: 3, T: 1, Strategy: "fifo", Seed: s + 1}, 1},
		{Scenario{Proto: pump.EdSigning, N: 3, T: 1, KeyN: 3, Strategy: "fifo", Seed: s + 2}, 1},
		{Scenario{Proto: pump.EdReshare, N: 2, T: 1, KeyN: 3, NewN: 3, NewT: 1, Strategy: "fifo", Seed: s + 3}, 1},
		{Scenario{Proto: pump.EcKeygen, N: 3, T: 1, Strategy: "fifo", Seed: s + 4}, 7},
		{Scenario{Proto: pump.EcSigning, N: 3, T: 2, KeyN: 5, Strategy: "fifo", Seed: s + 5}, 1},
		{Scenario{Proto: pump.EcReshare, N: 3, T: 2, KeyN: 5, NewN: 3, NewT: 1, Strategy: "fifo", Seed: s + 6}, 7},
	}
}

// sendersOf returns the global numbers of the parties that send type t in scenario sc.
func sendersOf(sc Scenario, t string) []int {
	var all []int
	nold, nnew := sc.N, sc.NewN
	if !sc.Proto.IsResharing() {
		for i := 1; i <= nold; i++ {
			all = append(all, i)
		}
		return all
	}
	oldTypes := map[string]bool{"DGRound1Message": true, "DGRound3Message1": true, "DGRound3Message2": true}
	if oldTypes[t] {
		for i := 1; i <= nold; i++ {
			all = append(all, i)
		}
	} else {
		for i := nold + 1; i <= nold+nnew; i++ {
			all = append(all, i)
		}
	}
	return all
}

// uncovered lists the fields that no commitment, share check or zero-knowledge proof covers (clause (c) of C05 does
// not apply to them; clauses (a), (b), (d) still do).  devFirst: the deviating party is the first of its committee.
func uncovered(p pump.Proto, typ, field string, devFirst bool) (bool, string) {
	switch {
	case p == pump.EdSigning && typ == "SignRound3Message" && field == "s":
		return true, "partial signature s_i: a wrong value only shows in the final verification, which cannot attribute"
	case p == pump.EcSigning && typ == "SignRound3Message" && field == "theta":
		return true, "delta_i share: GG18 has no proof for it; detected by the later consistency checks without attribution"
	case p == pump.EcSigning && typ == "SignRound9Message" && field == "s":
		return true, "partial signature s_i: only the final verification shows it"
	case p.IsResharing() && typ == "DGRound1Message" && strings.Contains(field, "_pub_") && !devFirst:
		return true, "new members take the public key from the first old member's message only; the copies of the others are not consumed"
	case p == pump.EcReshare && typ == "DGRound1Message" && field == "ssid":
		return true, "session id: compared for equality, not covered by a commitment or proof"
	}
	return false, ""
}

func c05Catalogue(ctx *core.Ctx) ([]FaultCase, error) {
	var cases []FaultCase
	bases := faultBases(ctx)
	type sampled struct {
		base    faultBase
		samples []wireSample
	}
	res := make([]sampled, len(bases))
	errs := make([]error, len(bases))
	var wg sync.WaitGroup
	for i, b := range bases {
		wg.Add(1)
		go func(i int, b faultBase) {
			defer wg.Done()
			ws, err := honestWireSamples(b.sc)
			res[i] = sampled{b, ws}
			errs[i] = err
		}(i, b)
	}
	wg.Wait()
	for _, e := range errs {
		if e != nil {
			return nil, e
		}
	}
	kinds := []string{"plus1", "random", "from-other", "empty"}
	rot := int(ctx.Seed)
	for _, r := range res {
		sc := r.base.sc
		for ti, ws := range r.samples {
			snd := sendersOf(sc, ws.Type)
			devs := []int{snd[0], snd[len(snd)/2], snd[len(snd)-1]}
			type fi struct {
				name string
				idx  int
			}
			var fis []fi
			for _, f := range ws.Fields {
				if !f.IsList {
					fis = append(fis, fi{f.Name, 0})
					continue
				}
				if f.Len == 0 {
					continue
				}
				idxs := map[int]bool{0: true, f.Len / 2: true, f.Len - 1: true}
				if ctx.Thorough() && f.Len <= 12 {
					for k := 0; k < f.Len; k++ {
						idxs[k] = true
					}
				}
				var ks []int
				for k := range idxs {
					ks = append(ks, k)
				}
				sort.Ints(ks)
				for _, k := range ks {
					fis = append(fis, fi{f.Name, k})
				}
			}
			if len(fis) == 0 {
				continue // ACK messages without content
			}
			add := func(dev int, f fi, kind string) {
				fc := FaultCase{Sc: sc, Dev: dev, Type: ws.Type, Spec: tamper.Spec{Field: f.name, Index: f.idx, Kind: kind}}
				if ws.Kind == "P" {
					// altered for one victim only: the first recipient that is not the deviating party
					for _, g := range recipientsOf(sc, ws.Type, dev) {
						fc.To = g
						break
					}
				}
				cases = append(cases, fc)
			}
			// a sender that replaces a message the recipient already holds (first copy honest, second copy altered,
			// delivered while the recipient is still in the round that awaits it)
			addReplace := func(dev int, f fi, kind string) {
				fc := FaultCase{Sc: sc, Dev: dev, Type: ws.Type, Replace: true, Spec: tamper.Spec{Field: f.name, Index: f.idx, Kind: kind}}
				fc.Sc.Strategy = fmt.Sprintf("devdup:%d", dev)
				if ws.Kind == "P" {
					for _, g := range recipientsOf(sc, ws.Type, dev) {
						fc.To = g
						break
					}
				}
				cases = append(cases, fc)
			}
			// (i) another representative of the same residue class (value + q, value + 8q: still the same number modulo the
			// group order) and (ii) a late duplicate with altered content (after the recipient has left the round that
			// awaits the type): neither need be rejected, but whatever the honest parties output must still be valid
			qHex := obs.Secp.Order().Text(16)
			if !sc.Proto.IsEcdsa() {
				qHex = obs.Ed.Order().Text(16)
			}
			q8 := new(big.Int)
			q8.SetString(qHex, 16)
			q8Hex := new(big.Int).Lsh(q8, 3).Text(16)
			for fi_, f := range ws.Fields {
				if f.IsList || len(f.Sizes) == 0 || f.Sizes[0] > 33 || f.Sizes[0] == 0 {
					continue // scalars only (shares, responses, partial signatures, coordinates)
				}
				if !ctx.Thorough() && r.base.cost > 1 && (fi_+ti)%2 != rot%2 {
					continue
				}
				for k, hx := range []string{qHex, q8Hex} {
					fc := FaultCase{Sc: sc, Dev: devs[(k*2)%3], Type: ws.Type, Equiv: true, Spec: tamper.Spec{Field: f.Name, Kind: "add", Hex: hx}}
					if ws.Kind == "P" {
						for _, g := range recipientsOf(sc, ws.Type, fc.Dev) {
							fc.To = g
							break
						}
					}
					cases = append(cases, fc)
				}
			}
			if len(fis) > 0 {
				f := fis[(rot+ti)%len(fis)]
				fc := FaultCase{Sc: sc, Dev: devs[0], Type: ws.Type, Replace: true, ReplaceLate: true, Equiv: true, Spec: tamper.Spec{Field: f.name, Index: f.idx, Kind: "plus1"}}
				fc.Sc.Strategy = fmt.Sprintf("devduplate:%d", devs[0])
				if ws.Kind == "P" {
					for _, g := range recipientsOf(sc, ws.Type, fc.Dev) {
						fc.To = g
						break
					}
				}
				cases = append(cases, fc)
			}
			if !ctx.Thorough() {
				// one alteration per (protocol, message type, field name), rotating index class / kind / position of the
				// deviating party with the seed; plus one replacement per message type
				byName := map[string][]fi{}
				var names []string
				for _, f := range fis {
					if _, ok := byName[f.name]; !ok {
						names = append(names, f.name)
					}
					byName[f.name] = append(byName[f.name], f)
				}
				for ni, name := range names {
					fs := byName[name]
					f := fs[(rot+ti+ni)%len(fs)]
					// the alteration that stays well-formed (+1) at the first and at the last position of the committee
					// (attribution mistakes tend to depend on the position), one rotating kind at the middle one
					add(devs[0], f, "plus1")
					if devs[2] != devs[0] {
						add(devs[2], fs[(rot+ti+ni+1)%len(fs)], "plus1")
					}
					if len(fs) > 1 && sc.Proto.IsEcdsa() {
						// list fields are the proofs, which the ECDSA rounds verify in worker goroutines: the same
						// alteration at the last position with a single worker slot (tss.Parameters.SetConcurrency(1))
						add(devs[2], fs[len(fs)-1], "plus1")
						cases[len(cases)-1].Sc.Concurrency = 1
					}
					if r.base.cost <= 1 {
						add(devs[1], f, kinds[1+(rot+ti+ni)%(len(kinds)-1)])
					}
				}
				f := fis[(rot+ti)%len(fis)]
				addReplace(devs[(rot+ti)%3], f, []string{"plus1", "random"}[(rot+ti)%2])
				continue
			}
			for di, dev := range devs {
				if di > 0 && dev == devs[di-1] {
					continue
				}
				for fi_, f := range fis {
					if r.base.cost > 1 && (fi_+di)%3 != 0 {
						continue
					}
					addReplace(dev, f, "plus1")
				}
			}
			for di, dev := range devs {
				if di > 0 && dev == devs[di-1] {
					continue
				}
				for _, f := range fis {
					for _, kind := range kinds {
						if r.base.cost > 1 && di > 0 && kind != "plus1" {
							continue // expensive protocols: all kinds at one position, plus1 at the others
						}
						add(dev, f, kind)
					}
				}
			}
		}
		// whole-message mirror: the deviating party replays another participant's message as its own
		for ti, ws := range r.samples {
			if len(ws.Fields) == 0 {
				continue
			}
			snd := sendersOf(sc, ws.Type)
			if len(snd) < 2 {
				continue
			}
			if !ctx.Thorough() && (ti+rot)%2 == 1 && r.base.cost > 1 {
				continue
			}
			dev, victim := snd[0], snd[len(snd)-1]
			if (ti+rot)%2 == 1 {
				dev, victim = victim, dev
			}
			fc := FaultCase{Sc: sc, Dev: dev, Type: ws.Type, Mirror: victim}
			cases = append(cases, fc)
			if ctx.Thorough() {
				cases = append(cases, FaultCase{Sc: sc, Dev: victim, Type: ws.Type, Mirror: dev})
			}
		}
		// a point committed and opened with an added small-order component, the honest proof kept (edwards25519 only):
		// the honest parties either clear the component (and finish with a valid result) or name the sender
		for _, cp := range cmtPairs {
			if cp.proto != sc.Proto || sc.Proto.IsEcdsa() {
				continue
			}
			snd := sendersOf(sc, cp.cType)
			for k, dev := range []int{snd[0], snd[len(snd)-1]} {
				if k == 1 && (dev == snd[0] || !ctx.Thorough()) {
					continue
				}
				cases = append(cases, FaultCase{Sc: sc, Dev: dev, Type: cp.cType, MayAccept: true, Spec: tamper.Spec{Field: cp.dField, Kind: "addtorsion"},
					Craft: &CraftSpec{Kind: "addtorsion", CType: cp.cType, CField: cp.cField, DType: cp.dType, DField: cp.dField, Arity: cp.arity}})
			}
		}
		// wrong secret input
		switch sc.Proto {
		case pump.EdSigning, pump.EcSigning, pump.EdReshare, pump.EcReshare:
			cases = append(cases, FaultCase{Sc: sc, Dev: 1, WrongSecret: true})
			if ctx.Thorough() {
				cases = append(cases, FaultCase{Sc: sc, Dev: sc.N, WrongSecret: true})
			}
		}
		// duplicated Paillier / ring-Pedersen parameters
		switch sc.Proto {
		case pump.EcKeygen:
			cases = append(cases, FaultCase{Sc: sc, Dev: 1, DupParams: 3})
			if ctx.Thorough() {
				cases = append(cases, FaultCase{Sc: sc, Dev: 3, DupParams: 1})
			}
		case pump.EcReshare:
			cases = append(cases, FaultCase{Sc: sc, Dev: sc.N + 1, DupParams: sc.N + sc.NewN})
			if ctx.Thorough() {
				cases = append(cases, FaultCase{Sc: sc, Dev: sc.N + sc.NewN, DupParams: sc.N + 1})
			}
		}
	}
	return cases, nil
}

// recipientsOf lists the parties a message of type t from `from` goes to.
func recipientsOf(sc Scenario, t string, from int) []int {
	var out []int
	if !sc.Proto.IsResharing() {
		for i := 1; i <= sc.N; i++ {
			if i != from {
				out = append(out, i)
			}
		}
		return out
	}
	toOld := map[string]bool{"DGRound2Message": true, "DGRound2Message2": true}
	toBoth := map[string]bool{"DGRound4Message": true, "DGRound4Message2": true}
	for i := 1; i <= sc.N+sc.NewN; i++ {
		if i == from {
			continue
		}
		old := i <= sc.N
		switch {
		case toBoth[t]:
			out = append(out, i)
		case toOld[t] && old:
			out = append(out, i)
		case !toOld[t] && !old:
			out = append(out, i)
		}
	}
	return out
}

// judgeFault applies the four clauses of C05 to one outcome. It returns (clause, message) pairs.
func judgeFault(fc FaultCase, o *FaultOutcome) [][2]string {
	var bad [][2]string
	if o.OutputBad != "" {
		bad = append(bad, [2]string{"badoutput", o.OutputBad})
	}
	for _, p := range o.Parties {
		for _, c := range p.Culprits {
			if c != fc.Dev && c != p.G {
				bad = append(bad, [2]string{"blame-sound", fmt.Sprintf("honest party %d (round %d) blames party %d, the deviating party is %d (%s)", p.G, p.ErrRound, c, fc.Dev, p.ErrText)})
				break
			}
		}
	}
	if fc.Type != "" && fc.Mirror == 0 && fc.RawWire == "" && o.Applied && o.Changed && !fc.Equiv {
		snd := sendersOf(fc.Sc, fc.Type)
		unc, _ := uncovered(fc.Sc.Proto, fc.Type, fc.Spec.Field, fc.Dev == snd[0])
		if !unc {
			for _, p := range o.Parties {
				if !p.Consumed {
					continue
				}
				switch {
				case p.Ended > 0 && fc.MayAccept:
					// neutralised (the result itself is judged by the output oracle)
				case p.Ended > 0:
					bad = append(bad, [2]string{"silent-accept", fmt.Sprintf("honest party %d consumed the altered %s.%s and still produced a result", p.G, fc.Type, fc.Spec.Field)})
				case !p.Err:
					// it may simply be waiting for somebody who aborted; only a quiescent, un-aborted consumer that moved past the verifying round is suspicious
				case !onlyDev(p.Culprits, fc.Dev):
					bad = append(bad, [2]string{"blame-complete", fmt.Sprintf("honest party %d detected the altered %s.%s (round %d: %s) but names %v instead of exactly the deviating party %d",
						p.G, fc.Type, fc.Spec.Field, p.ErrRound, p.ErrText, p.Culprits, fc.Dev)})
				}
			}
		}
	}
	if fc.Sc.Proto.IsResharing() && len(o.OldErased) > 0 {
		// an honest old share is gone: every honest new member must have emitted (valid) key data
		want := 0
		for g := fc.Sc.N + 1; g <= fc.Sc.N+fc.Sc.NewN; g++ {
			if g != fc.Dev {
				want++
			}
		}
		if len(o.NewSaved) < want {
			bad = append(bad, [2]string{"keyloss", fmt.Sprintf("honest old members %v erased their shares but only honest new members %v of %d emitted key data (errors: %s)",
				o.OldErased, o.NewSaved, want, errSummary(o))})
		}
	}
	return bad
}

// onlyDev: the culprit list names the deviating party and nobody else (the library may list it more than once).
func onlyDev(c []int, dev int) bool {
	if len(c) == 0 {
		return false
	}
	for _, x := range c {
		if x != dev {
			return false
		}
	}
	return true
}

func errSummary(o *FaultOutcome) string {
	var s []string
	for _, p := range o.Parties {
		if p.Err {
			s = append(s, fmt.Sprintf("party %d round %d culprits %v", p.G, p.ErrRound, p.Culprits))
		}
	}
	return strings.Join(s, "; ")
}

func faultKey(prop string, fc FaultCase, clause string) string {
	what := fc.Type + "." + fc.Spec.Field
	if clause == "keyloss" && fc.Type != "" {
		// the call site is the message type whose late verification loses the key, whatever field was altered
		return fmt.Sprintf("%s:%s:%s:%s", prop, clause, fc.Sc.Proto, fc.Type)
	}
	switch {
	case fc.Mirror > 0:
		what = fc.Type + ".mirror"
	case fc.WrongSecret:
		what = "wrong-secret"
	case fc.DupParams > 0:
		what = "duplicate-params"
	}
	return fmt.Sprintf("%s:%s:%s:%s", prop, clause, fc.Sc.Proto, what)
}

// faultsMC model-checks the fault layer (FaultsMC.tla) for the resharing key-loss clause and blame structure.
func faultsMC(ctx *core.Ctx) ([]tlc.Result, []string, error) {
	type inst struct {
		proto      string
		nold, nnew int
		bad        string // BadMsgs value
		expectViol string // "" = must hold; else the invariant expected to be violated (a reproduced known finding)
	}
	insts := []inst{
		{"eddsa-resharing", 2, 2, `{<<"DGRound3Message1", 1>>}`, ""},
		{"eddsa-keygen", 3, 0, `{<<"KGRound2Message2", 2>>}`, ""},
		{"ecdsa-resharing", 2, 2, `{<<"DGRound4Message1", 3>>}`, "NoKeyLoss"},
	}
	if ctx.Thorough() {
		insts = append(insts, inst{"ecdsa-resharing", 2, 2, `{<<"DGRound3Message1", 2>>}`, ""},
			inst{"eddsa-signing", 3, 0, `{<<"SignRound2Message", 3>>}`, ""},
			inst{"ecdsa-keygen", 3, 0, `{<<"KGRound1Message", 1>>}`, ""})
	}
	out := make([]tlc.Result, len(insts))
	var notes []string
	var wg sync.WaitGroup
	sem := make(chan struct{}, 3)
	for i, in := range insts {
		wg.Add(1)
		go func(i int, in inst) {
			defer wg.Done()
			sem <- struct{}{}
			defer func() { <-sem }()
			cfg := strings.Replace(tlc.EngineConstants(in.proto, in.nold, in.nnew, tlc.CodeFlags), "BadMsgs = {}", "BadMsgs <- BadVal", 1) +
				"  MaxDups = 0\n  MaxFlips = 0\n" +
				"SPECIFICATION FSpec\nINVARIANTS TypeOK EndOnce BlameSound NoSilentAccept NoKeyLoss\nVIEW View\nCHECK_DEADLOCK FALSE\n"
			wrap := "---- MODULE MC_Faults ----\nEXTENDS FaultsMC\nBadVal == " + in.bad + "\n====\n"
			out[i] = tlc.Run(tlc.Options{Module: "MC_Faults", Cfg: cfg, Workers: 3, Heap: "3g", Timeout: 15 * time.Minute,
				Files: map[string]string{"MC_Faults.tla": wrap}})
		}(i, in)
	}
	wg.Wait()
	for i, in := range insts {
		r := out[i]
		if r.Err != nil {
			return out, notes, fmt.Errorf("FaultsMC %s: %v", in.proto, r.Err)
		}
		if in.expectViol == "" && !r.OK {
			return out, notes, fmt.Errorf("FaultsMC %s bad=%s violates %s:\n%s", in.proto, in.bad, r.Violated, r.ErrorTrace(2000))
		}
		if in.expectViol != "" {
			if r.OK {
				notes = append(notes, fmt.Sprintf("design: FaultsMC %s with %s no longer violates %s (the model says the known key-loss finding is gone)", in.proto, in.bad, in.expectViol))
			} else if r.Violated == in.expectViol {
				notes = append(notes, fmt.Sprintf("design: TLC reproduces the known finding on the model: %s with %s violates %s", in.proto, in.bad, in.expectViol))
			} else {
				return out, notes, fmt.Errorf("FaultsMC %s bad=%s violates %s (expected %s)", in.proto, in.bad, r.Violated, in.expectViol)
			}
		}
	}
	return out, notes, nil
}

func C05(ctx *core.Ctx) error {
	cov := core.NewCov()
	var cases []FaultCase
	if ctx.Replay != "" {
		var fc FaultCase
		if _, err := core.LoadReplay(ctx.Replay, &fc); err != nil {
			return core.Inconcl("cannot load replay: %v", err)
		}
		cases = []FaultCase{fc}
	} else {
		var err error
		cases, err = c05Catalogue(ctx)
		if err != nil {
			return core.Inconcl("catalogue: %v", err)
		}
	}
	only := os.Getenv("VERIF_C05_ONLY") // development aid: substring filter on case ids; such a run is never a verdict
	if only != "" {
		var f []FaultCase
		for _, c := range cases {
			if strings.Contains(c.ID(), only) {
				f = append(f, c)
			}
		}
		cases = f
		defer func() {
			for _, c := range cases {
				fmt.Println("case:", c.ID())
			}
		}()
	}
	var mcRes []tlc.Result
	var mcNotes []string
	var mcErr error
	var wg sync.WaitGroup
	if ctx.Replay == "" && only == "" {
		wg.Add(1)
		go func() { defer wg.Done(); mcRes, mcNotes, mcErr = faultsMC(ctx) }()
	}
	results, err := runFaultCases(cases, 12, 180*time.Second)
	wg.Wait()
	if err != nil {
		return core.Inconcl("fault runner: %v", err)
	}
	if mcErr != nil {
		return core.Inconcl("%v", mcErr)
	}
	for _, r := range mcRes {
		cov.AddMC(r.Distinct, r.Generated)
	}
	for _, n := range mcNotes {
		ctx.Note("%s", n)
	}
	applied, changed, detected := 0, 0, 0
	for i, r := range results {
		fc := cases[i]
		switch r.Status {
		case "ok":
		case "harness-error":
			return core.Inconcl("case %s: %s", fc.ID(), r.Detail)
		default:
			// crashes and hangs are C06's subject; here they only mean "no verdict for this case"
			ctx.Note("case %s ended with %s (judged by C06)", fc.ID(), r.Status)
			cov.Add("cases_crashed_or_hung", 1)
			continue
		}
		var o FaultOutcome
		if err := json.Unmarshal(r.Output, &o); err != nil {
			return core.Inconcl("bad outcome json: %v", err)
		}
		if ctx.Replay != "" {
			fmt.Println("outcome:", string(r.Output))
		}
		nontrivial := o.Changed || fc.WrongSecret || fc.DupParams > 0
		cov.Case(fc.ID(), nontrivial)
		if o.Applied {
			applied++
		}
		if o.Changed {
			changed++
		}
		for _, p := range o.Parties {
			if p.Err {
				detected++
				break
			}
		}
		for _, b := range judgeFault(fc, &o) {
			ctx.Report(faultKey("C05", fc, b[0]), fmt.Sprintf("%s dev=%d %s: %s", fc.Sc.Proto, fc.Dev, describeFault(fc), b[1]), fc)
		}
		cov.Sample(map[string]any{"proto": fc.Sc.Proto, "dev": fc.Dev, "fault": describeFault(fc), "changed": o.Changed,
			"honest": partySummary(o.Parties)}, 10)
	}
	cov.Set("cases", len(cases))
	cov.Set("alteration_reached", applied)
	cov.Set("alteration_changed_content", changed)
	cov.Set("cases_with_an_honest_error", detected)
	// data-level conformance: real ECDSA key generations on toy curves with one altered share / opening / commitment;
	// TLC predicts from the dealt polynomials who must abort and whom it must name (KeygenData.tla)
	if ctx.Replay == "" && only == "" {
		if err := kdPhase(ctx, cov, "C05"); err != nil {
			return err
		}
		if err := rdPhase(ctx, cov, "C05"); err != nil {
			return err
		}
	}
	if only != "" {
		return core.Inconcl("filtered development run (VERIF_C05_ONLY=%s): %d cases, %d violations", only, len(cases), len(ctx.Violations()))
	}
	return ctx.WriteEvidence("fault_enumeration",
		"one case = one real protocol run with one deviating participant: (protocol, deviating position, message type, field, list index class, alteration kind in {+1, random same size, value from another party's message, removed}) "+
			"applied to the wire bytes through protobuf reflection, plus whole-message mirror, wrong secret input, duplicated pre-parameters; non-trivial = the alteration changed the content; "+
			"clauses judged per case: honest outputs valid and equal, blame soundness, blame completeness for covered fields, no key loss in resharing; FaultsMC.tla model-checks the fault layer",
		cov, []string{"one deviating participant; reliable broadcast (every recipient of a broadcast gets the same altered content)",
			"honest abort: a party that reported an error receives nothing more",
			"the table of fields not covered by a commitment/share check/proof is in props/c05.go (uncovered)"}, "java tlc2.TLC MC_Faults.tla")
}

func describeFault(fc FaultCase) string {
	switch {
	case fc.Mirror > 0:
		return fmt.Sprintf("mirror %s of party %d", fc.Type, fc.Mirror)
	case fc.WrongSecret:
		return "wrong secret input"
	case fc.DupParams > 0:
		return fmt.Sprintf("pre-parameters duplicated from party %d", fc.DupParams)
	case fc.RawWire != "":
		return fmt.Sprintf("%s replaced by raw bytes %s", fc.Type, shortHex(fc.RawWire))
	}
	to := ""
	if fc.To > 0 {
		to = fmt.Sprintf(" to %d", fc.To)
	}
	return fmt.Sprintf("%s%s %s", fc.Type, to, fc.Spec)
}

func partySummary(ps []PartyOutcome) []string {
	var out []string
	for _, p := range ps {
		s := fmt.Sprintf("p%d r%d", p.G, p.Round)
		if p.Err {
			s += fmt.Sprintf(" err@%d culprits%v", p.ErrRound, p.Culprits)
		}
		if p.Ended > 0 {
			s += " ended"
		}
		out = append(out, s)
	}
	return out
}

var _ = sandbox.Run
