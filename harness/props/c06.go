package props

import (
	"encoding/hex"
	"encoding/json"
	"fmt"
	"math/big"
	"math/rand"
	"os"
	"regexp"
	"sort"
	"strings"
	"sync"
	"time"

	"github.com/bnb-chain/tss-lib/v2/tss"

	"verif/harness/core"
	"verif/harness/obs"
	"verif/harness/pump"
	"verif/harness/sandbox"
	"verif/harness/tamper"
)

// ---------------------------------------------------------------- boundary values

type bval struct {
	name string
	b    []byte
}

func boundaryValues(p pump.Proto, n2048 *big.Int, thorough bool) []bval {
	q := obs.Secp.Order()
	if !p.IsEcdsa() {
		q = obs.Ed.Order()
	}
	one := big.NewInt(1)
	mk := func(name string, v *big.Int) bval { return bval{name, v.Bytes()} }
	vals := []bval{
		{"zero-byte", []byte{0}}, {"empty", []byte{}}, mk("one", one),
		mk("q-1", new(big.Int).Sub(q, one)), mk("q", q), mk("q+1", new(big.Int).Add(q, one)), mk("2q", new(big.Int).Lsh(q, 1)),
		mk("2^256", new(big.Int).Lsh(one, 256)),
		{"oversized", bytesOf(0xff, 4096)},
	}
	if p.IsEcdsa() && n2048 != nil {
		vals = append(vals,
			mk("N-1", new(big.Int).Sub(n2048, one)), mk("N", n2048), mk("N+1", new(big.Int).Add(n2048, one)),
			mk("N^2", new(big.Int).Mul(n2048, n2048)), mk("2^2048", new(big.Int).Lsh(one, 2048)))
	}
	if thorough {
		vals = append(vals, mk("2^63", new(big.Int).Lsh(one, 63)), mk("2^64+3", new(big.Int).Add(new(big.Int).Lsh(one, 64), big.NewInt(3))),
			mk("q^3", new(big.Int).Exp(q, big.NewInt(3), nil)), mk("3q", new(big.Int).Mul(q, big.NewInt(3))), bval{"oversized-64k", bytesOf(0x80, 65536)})
	}
	return vals
}

func bytesOf(b byte, n int) []byte {
	out := make([]byte, n)
	for i := range out {
		out[i] = b
	}
	return out
}

// ---------------------------------------------------------------- catalogue

func c06Bases(ctx *core.Ctx) []faultBase {
	s := ctx.Seed * 733
	return []faultBase{
		{Scenario{Proto: pump.EdKeygen, N: 3, T: 1, Strategy: "fifo", Seed: s + 1}, 1},
		{Scenario{Proto: pump.EdSigning, N: 3, T: 1, KeyN: 3, Strategy: "fifo", Seed: s + 2}, 1},
		{Scenario{Proto: pump.EdReshare, N: 2, T: 1, KeyN: 3, NewN: 2, NewT: 1, Strategy: "fifo", Seed: s + 3}, 1},
		{Scenario{Proto: pump.EcKeygen, N: 2, T: 1, Strategy: "fifo", Seed: s + 4}, 4},
		{Scenario{Proto: pump.EcSigning, N: 3, T: 2, KeyN: 5, Strategy: "fifo", Seed: s + 5}, 1},
		{Scenario{Proto: pump.EcReshare, N: 3, T: 2, KeyN: 5, NewN: 2, NewT: 1, Strategy: "fifo", Seed: s + 6}, 5},
		// two signers: every failure a party sees comes from its single peer (per-peer error channels / counters of a
		// round are then filled by one sender)
		{Scenario{Proto: pump.EcSigning, N: 2, T: 1, KeyN: 3, Strategy: "fifo", Seed: s + 7}, 1},
		// a resharing whose declared old party count exceeds the old peer context (as the library's own test sets it up):
		// sender indices between the two are inside the declared range and outside every per-sender table
		{Scenario{Proto: pump.EdReshare, N: 2, T: 1, KeyN: 3, NewN: 2, NewT: 1, Strategy: "fifo", Seed: s + 8, DeclaredOldN: 4}, 1},
	}
}

// commitment / de-commitment pairs of the protocols (type.field of the commitment, type.field of the opening)
type cmtPair struct {
	proto                  pump.Proto
	cType, cField          string
	dType, dField          string
	arity                  int // number of committed integers the honest protocol uses
}

var cmtPairs = []cmtPair{
	{pump.EdKeygen, "KGRound1Message", "commitment", "KGRound2Message2", "de_commitment", 4},
	{pump.EcKeygen, "KGRound1Message", "commitment", "KGRound2Message2", "de_commitment", 4},
	{pump.EdSigning, "SignRound1Message", "commitment", "SignRound2Message", "de_commitment", 2},
	{pump.EcSigning, "SignRound1Message2", "commitment", "SignRound4Message", "de_commitment", 2},
	{pump.EcSigning, "SignRound5Message", "commitment", "SignRound6Message", "de_commitment", 4},
	{pump.EcSigning, "SignRound7Message", "commitment", "SignRound8Message", "de_commitment", 4},
	{pump.EdReshare, "DGRound1Message", "v_commitment", "DGRound3Message2", "v_decommitment", 4},
	{pump.EcReshare, "DGRound1Message", "v_commitment", "DGRound3Message2", "v_decommitment", 4},
}

func c06Catalogue(ctx *core.Ctx) ([]FaultCase, error) {
	bases := c06Bases(ctx)
	type sampled struct {
		base    faultBase
		samples []wireSample
	}
	res := make([]sampled, len(bases))
	errs := make([]error, len(bases))
	var wg sync.WaitGroup
	for i, b := range bases {
		wg.Add(1)
		go func(i int, b faultBase) {
			defer wg.Done()
			ws, err := honestWireSamples(b.sc)
			res[i] = sampled{b, ws}
			errs[i] = err
		}(i, b)
	}
	wg.Wait()
	for _, e := range errs {
		if e != nil {
			return nil, e
		}
	}
	fx, err := pump.LoadEcFixtures(1)
	if err != nil {
		return nil, err
	}
	n2048 := fx[0].PaillierSK.N
	rng := rand.New(rand.NewSource(ctx.Seed))
	var cases []FaultCase
	for _, r := range res {
		sc := r.base.sc
		vals := boundaryValues(sc.Proto, n2048, ctx.Thorough())
		expensive := r.base.cost > 1
		for ti, ws := range r.samples {
			snd := sendersOf(sc, ws.Type)
			dev := snd[(ti+int(ctx.Seed))%len(snd)]
			to := 0
			if ws.Kind == "P" {
				to = recipientsOf(sc, ws.Type, dev)[0]
			}
			// (1) every field x boundary value (list fields: first / middle / last element; plus list shape)
			for _, f := range ws.Fields {
				idxs := []int{0}
				if f.IsList {
					if f.Len == 0 {
						continue
					}
					idxs = []int{0, f.Len / 2, f.Len - 1}
					if f.Len <= 2 {
						idxs = []int{0, f.Len - 1}
					}
					if expensive && !ctx.Thorough() {
						idxs = []int{(ti + int(ctx.Seed)) % f.Len}
					}
				}
				for ii, idx := range idxs {
					if ii > 0 && idx == idxs[ii-1] {
						continue
					}
					for vi, v := range vals {
						if expensive && !ctx.Thorough() && (vi+ti+ii)%6 != int(ctx.Seed)%6 {
							continue // expensive protocols (4-7 s per run), quick tier: a rotating sixth of the values
						}
						if !expensive && sc.Proto == pump.EcSigning && !ctx.Thorough() && (vi+ti+ii)%3 != int(ctx.Seed)%3 {
							continue // ECDSA signing (about 1 s per run), quick tier: a rotating third
						}
						cases = append(cases, FaultCase{Sc: sc, Dev: dev, Type: ws.Type, To: to, AfterAbort: true,
							Spec: tamper.Spec{Field: f.Name, Index: idx, Kind: "set", Hex: hex.EncodeToString(v.b) + "#" + v.name}})
					}
					// parity / low bit flip
					if !expensive || ctx.Thorough() || (ti+ii)%2 == int(ctx.Seed)%2 {
						cases = append(cases, FaultCase{Sc: sc, Dev: dev, Type: ws.Type, To: to, AfterAbort: true, Spec: tamper.Spec{Field: f.Name, Index: idx, Kind: "flipbit"}})
					}
				}
				if f.IsList {
					for ki, k := range []string{"remove", "append", "clearlist"} {
						if expensive && !ctx.Thorough() && (ki+ti)%3 != int(ctx.Seed)%3 {
							continue
						}
						cases = append(cases, FaultCase{Sc: sc, Dev: dev, Type: ws.Type, To: to, AfterAbort: true, Spec: tamper.Spec{Field: f.Name, Index: 0, Kind: k}})
					}
				}
			}
			// (2) random and mutated wire bytes, wrong type
			nraw := ctx.Pick(3, 12)
			if expensive {
				nraw = ctx.Pick(1, 4)
			}
			for k := 0; k < nraw; k++ {
				cases = append(cases, FaultCase{Sc: sc, Dev: dev, Type: ws.Type, To: to, AfterAbort: true, RawWire: "mutate:" + fmt.Sprint(rng.Int63())})
			}
			if !expensive || ctx.Thorough() || ti%2 == int(ctx.Seed)%2 {
				cases = append(cases, FaultCase{Sc: sc, Dev: dev, Type: ws.Type, To: to, AfterAbort: true, RawWire: "empty"})
				cases = append(cases, FaultCase{Sc: sc, Dev: dev, Type: ws.Type, To: to, AfterAbort: true, RawWire: "othertype"})
			}
			// (3) sender indices
			for _, idx := range []int{-1, sc.N, sc.N + 1, sc.NewN, sc.N + sc.NewN, sc.N + sc.NewN + 7, 1 << 30} {
				if expensive && !ctx.Thorough() && idx != -1 && idx != sc.N+sc.NewN && idx != sc.N {
					continue
				}
				cases = append(cases, FaultCase{Sc: sc, Dev: dev, Type: ws.Type, To: to, AfterAbort: true, AsFrom: idx + 1000000})
			}
		}
		// (3b) several misbehaving peers at once: the same alteration in the messages of this type from every sender
		for ti, ws := range r.samples {
			if len(ws.Fields) == 0 || len(sendersOf(sc, ws.Type)) < 2 {
				continue
			}
			for fi, f := range ws.Fields {
				if f.IsList && f.Len == 0 {
					continue
				}
				if expensive && !ctx.Thorough() && (fi+ti)%4 != int(ctx.Seed)%4 {
					continue
				}
				idx := 0
				if f.IsList {
					idx = (ti + fi + int(ctx.Seed)) % f.Len
				}
				kind := []string{"flipbit", "plus1"}[(ti+fi)%2]
				cases = append(cases, FaultCase{Sc: sc, Dev: sendersOf(sc, ws.Type)[0], AllDev: true, Type: ws.Type, AfterAbort: true,
					Spec: tamper.Spec{Field: f.Name, Index: idx, Kind: kind}})
			}
		}
		// (3c) multi-part packings (dln proofs) re-split with the same number of elements
		for _, ws := range r.samples {
			for _, f := range ws.Fields {
				if !f.IsList || !strings.HasPrefix(f.Name, "dlnproof") {
					continue
				}
				snd := sendersOf(sc, ws.Type)
				for ri, rv := range repackVariants {
					if !ctx.Thorough() && ri%3 != (int(ctx.Seed)+len(f.Name))%3 && ri != 0 {
						continue
					}
					cases = append(cases, FaultCase{Sc: sc, Dev: snd[len(snd)-1], Type: ws.Type, AfterAbort: true,
						Craft: &CraftSpec{Kind: "repack", DType: ws.Type, DField: f.Name, Sizes: strings.TrimPrefix(rv, "repack:")}})
				}
			}
		}
		// (4) crafted relations: commitments that open to degenerate tuples
		for _, cp := range cmtPairs {
			if cp.proto != sc.Proto {
				continue
			}
			snd := sendersOf(sc, cp.cType)
			dev := snd[int(ctx.Seed)%len(snd)]
			for ci, craft := range []string{"offcurve", "identity", "torsion", "short", "long", "nothing", "zeros", "huge"} {
				if craft == "torsion" && sc.Proto.IsEcdsa() {
					continue
				}
				if expensive && !ctx.Thorough() && ci%2 != int(ctx.Seed)%2 {
					continue
				}
				cases = append(cases, FaultCase{Sc: sc, Dev: dev, Type: cp.cType, AfterAbort: true,
					Craft: &CraftSpec{Kind: craft, CType: cp.cType, CField: cp.cField, DType: cp.dType, DField: cp.dField, Arity: cp.arity}})
			}
		}
		// (5) values summing to zero (ECDSA signing round 3: sum of theta = 0 mod q)
		if sc.Proto == pump.EcSigning {
			sc2 := sc
			sc2.Strategy = "devlast:1"
			cases = append(cases, FaultCase{Sc: sc2, Dev: 1, Type: "SignRound3Message", AfterAbort: true, Craft: &CraftSpec{Kind: "sumzero", DType: "SignRound3Message", DField: "theta"}})
		}
	}
	return cases, nil
}

// ---------------------------------------------------------------- judging

var reFrame = regexp.MustCompile(`github\.com/bnb-chain/tss-lib/v2/([A-Za-z0-9_/\.\(\)\*]+)\(`)

// crashSite extracts the innermost two tss-lib frames of a stack dump ("" if none).
func crashSite(stack string) string {
	ms := reFrame.FindAllStringSubmatch(stack, -1)
	var fr []string
	for _, m := range ms {
		f := m[1]
		if strings.Contains(f, "harness") {
			continue
		}
		if len(fr) == 0 || fr[len(fr)-1] != f {
			fr = append(fr, f)
		}
		if len(fr) == 2 {
			break
		}
	}
	return strings.Join(fr, "<-")
}

func panicHead(s string) string {
	if i := strings.Index(s, "\n"); i > 0 {
		s = s[:i]
	}
	s = strings.TrimPrefix(s, "panic: ")
	// normalise addresses and numbers so that one defect has one key
	s = regexp.MustCompile(`0x[0-9a-f]+`).ReplaceAllString(s, "0x..")
	s = regexp.MustCompile(`\[\d+\]|\[:\d+\]|\[\d+:\d*\]`).ReplaceAllString(s, "[..]")
	s = regexp.MustCompile(`\d{2,}`).ReplaceAllString(s, "N")
	return core.Short(s, 90)
}

func c06Judge(ctx *core.Ctx, cov *core.Cov, what string, classKey string, r sandbox.Result, partyPanics []string, scenario any) error {
	report := func(kind, detail string) {
		site := crashSite(detail)
		head := ""
		if kind != "hang" {
			if i := strings.Index(detail, "panic:"); i >= 0 {
				head = panicHead(detail[i:])
			} else {
				head = panicHead(detail)
			}
		}
		if site == "" && kind != "hang" {
			// no library frame: not attributable to the code under test
			ctx.Note("unattributed %s in case %s: %s", kind, what, core.Short(detail, 300))
			cov.Add("unattributed", 1)
			return
		}
		key := fmt.Sprintf("C06:%s:%s:%s", kind, site, classKey)
		ctx.Report(key, fmt.Sprintf("%s: %s at %s (%s)", what, kind, site, head), scenario)
	}
	switch r.Status {
	case "ok":
		for _, p := range partyPanics {
			report("panic", p)
		}
	case "panic":
		report("panic", r.Detail)
	case "crash":
		if !strings.Contains(r.Detail, "panic:") && !strings.Contains(r.Detail, "fatal error:") {
			return core.Inconcl("child died without a panic message in case %s: %s", what, core.Short(r.Detail, 400))
		}
		report("panic", r.Detail)
	case "hang":
		if !strings.Contains(r.Detail, "tss-lib/v2") {
			return core.Inconcl("case %s made no progress but the goroutine dump shows no library frame", what)
		}
		report("hang", hangSite(r.Detail))
	default:
		return core.Inconcl("case %s: %s %s", what, r.Status, core.Short(r.Detail, 300))
	}
	return nil
}

// hangSite keeps the goroutines of the dump that are inside the library.
func hangSite(dump string) string {
	var keep []string
	for _, g := range strings.Split(dump, "\n\n") {
		if strings.Contains(g, "bnb-chain/tss-lib/v2/") && !strings.Contains(g, "go-log") {
			keep = append(keep, g)
		}
	}
	sort.Strings(keep)
	if len(keep) > 3 {
		keep = keep[:3]
	}
	return strings.Join(keep, "\n\n")
}

func c06Class(fc FaultCase) string {
	switch {
	case fc.Craft != nil:
		return fmt.Sprintf("%s:%s:craft-%s", fc.Sc.Proto, fc.Type, fc.Craft.Kind)
	case fc.RawWire != "":
		k := fc.RawWire
		if i := strings.Index(k, ":"); i >= 0 {
			k = k[:i]
		}
		return fmt.Sprintf("%s:%s:raw-%s", fc.Sc.Proto, fc.Type, k)
	case fc.AsFrom != 0:
		return fmt.Sprintf("%s:%s:sender-index", fc.Sc.Proto, fc.Type)
	}
	return fmt.Sprintf("%s:%s.%s", fc.Sc.Proto, fc.Type, fc.Spec.Field)
}

func C06(ctx *core.Ctx) error {
	cov := core.NewCov()
	if ctx.Replay != "" {
		return c06Replay(ctx)
	}
	cases, err := c06Catalogue(ctx)
	if err != nil {
		return core.Inconcl("catalogue: %v", err)
	}
	direct := directCases(ctx)
	switch os.Getenv("VERIF_C06_ONLY") { // development aid: run one half only
	case "direct":
		cases = nil
	case "protocol":
		direct = nil
	}
	var dres []sandbox.Result
	var derr error
	var wg sync.WaitGroup
	wg.Add(1)
	go func() {
		defer wg.Done()
		dres, derr = runDirectCases(direct, 4, 60*time.Second)
	}()
	results, err := runFaultCases(cases, 12, 120*time.Second)
	wg.Wait()
	if err != nil {
		return core.Inconcl("fault runner: %v", err)
	}
	if derr != nil {
		return core.Inconcl("direct-call runner: %v", derr)
	}
	// a case that made no progress is re-run alone in a fresh child: leaked goroutines of earlier cases, a loaded
	// machine or a slow start must not be mistaken for a hang of this case
	confirmed := 0
	for i := range results {
		if results[i].Status == "hang" && confirmed >= 4 {
			results[i].Status = "skipped" // four confirmed hangs already decide the run; every confirmation costs a time-out
			continue
		}
		if results[i].Status == "hang" {
			again, err := runFaultCases([]FaultCase{cases[i]}, 1, 180*time.Second)
			if err != nil {
				return core.Inconcl("fault runner (confirmation): %v", err)
			}
			if again[0].Status != "hang" {
				ctx.Note("case %s made no progress in the batch but completes on its own (%s): not a hang", cases[i].ID(), again[0].Status)
			} else {
				confirmed++
			}
			results[i] = again[0]
		}
	}
	for i := range dres {
		if dres[i].Status == "hang" && confirmed >= 4 {
			dres[i].Status = "skipped"
			continue
		}
		if dres[i].Status == "hang" {
			again, err := runDirectCases([]DirectCase{direct[i]}, 1, 120*time.Second)
			if err != nil {
				return core.Inconcl("direct runner (confirmation): %v", err)
			}
			if again[0].Status != "hang" {
				ctx.Note("direct case %s made no progress in the batch but completes on its own (%s): not a hang", direct[i].ID(), again[0].Status)
			} else {
				confirmed++
			}
			dres[i] = again[0]
		}
	}
	applied := 0
	for i, r := range results {
		fc := cases[i]
		if r.Status == "skipped" {
			cov.Add("cases_skipped_after_failures", 1)
			continue
		}
		var panics []string
		if r.Status == "ok" {
			var o FaultOutcome
			if err := json.Unmarshal(r.Output, &o); err != nil {
				return core.Inconcl("bad outcome: %v", err)
			}
			if o.Applied {
				applied++
			}
			cov.Case(fc.ID(), o.Applied)
			for _, p := range o.Parties {
				if p.Panic != "" {
					panics = append(panics, p.Panic)
				}
			}
			cov.Sample(map[string]any{"proto": fc.Sc.Proto, "fault": describeFault(fc), "applied": o.Applied, "honest": partySummary(o.Parties)}, 8)
		} else if r.Status == "harness-error" {
			return core.Inconcl("case %s: %s", fc.ID(), r.Detail)
		} else {
			cov.Case(fc.ID(), true)
		}
		if err := c06Judge(ctx, cov, fmt.Sprintf("%s dev=%d %s", fc.Sc.Proto, fc.Dev, describeFault(fc)), c06Class(fc), r, panics, fc); err != nil {
			return err
		}
	}
	for i, r := range dres {
		dc := direct[i]
		if r.Status == "skipped" {
			cov.Add("cases_skipped_after_failures", 1)
			continue
		}
		cov.Case("direct|"+dc.ID(), true)
		if r.Status == "harness-error" {
			return core.Inconcl("direct case %s: %s", dc.ID(), r.Detail)
		}
		slot := dc.Slot
		if _, raw := rawEntries[dc.Entry]; raw {
			slot = dc.Value // random inputs: the class, not the seed, identifies the finding
		}
		if err := c06Judge(ctx, cov, "direct call "+dc.ID(), "direct:"+dc.Entry+":"+slot, r, nil, dc); err != nil {
			return err
		}
		cov.Sample(map[string]any{"entry": dc.Entry, "slot": dc.Slot, "value": dc.Value, "status": r.Status}, 14)
	}
	cov.Set("protocol_cases", len(cases))
	cov.Set("protocol_cases_alteration_reached", applied)
	cov.Set("direct_call_cases", len(direct))
	return ctx.WriteEvidence("fault_enumeration",
		"protocol level: one case = one real run in a journalled child process with one message field set to a boundary value (zero byte, empty, 1, q-1, q, q+1, 2q, N-1, N, N+1, N^2, 2^k, oversized), a flipped low bit, a list made shorter/longer/empty, "+
			"random / mutated / empty / wrong-type wire bytes, out-of-range sender indices, commitments crafted to open to degenerate tuples (off-curve, identity, torsion, wrong arity), values summing to zero; deliveries continue after an abort; "+
			"direct level: every exported verifier / decoder called with the same value classes in every argument and proof component; verdict: the call returned and the process is alive (panic in any goroutine or a hang with a library frame in the goroutine dump = violation); "+
			"non-trivial = the alteration point was reached",
		cov, []string{"negative big.Int arguments are not explored (unreachable through the wire decoding, which uses SetBytes)",
			"a hang is a violation only when the goroutine dump shows a blocked library frame"}, "")
}

func c06Replay(ctx *core.Ctx) error {
	var raw json.RawMessage
	if _, err := core.LoadReplay(ctx.Replay, &raw); err != nil {
		return core.Inconcl("cannot load replay: %v", err)
	}
	cov := core.NewCov()
	var dc DirectCase
	if json.Unmarshal(raw, &dc) == nil && dc.Entry != "" {
		res, err := runDirectCases([]DirectCase{dc}, 1, 20*time.Second)
		if err != nil {
			return core.Inconcl("%v", err)
		}
		fmt.Printf("replay: status=%s\n%s\n", res[0].Status, core.Short(res[0].Detail, 1500))
		return c06Judge(ctx, cov, "direct call "+dc.ID(), "direct:"+dc.Entry+":"+dc.Slot, res[0], nil, dc)
	}
	var fc FaultCase
	if err := json.Unmarshal(raw, &fc); err != nil {
		return core.Inconcl("bad replay scenario: %v", err)
	}
	res, err := runFaultCases([]FaultCase{fc}, 1, 120*time.Second)
	if err != nil {
		return core.Inconcl("%v", err)
	}
	var panics []string
	if res[0].Status == "ok" {
		var o FaultOutcome
		json.Unmarshal(res[0].Output, &o)
		for _, p := range o.Parties {
			if p.Panic != "" {
				panics = append(panics, p.Panic)
			}
		}
		fmt.Printf("replay: applied=%v honest=%v\n", o.Applied, partySummary(o.Parties))
	} else {
		fmt.Printf("replay: status=%s\n%s\n", res[0].Status, core.Short(res[0].Detail, 1500))
	}
	return c06Judge(ctx, cov, describeFault(fc), c06Class(fc), res[0], panics, fc)
}

var _ = tss.S256
var _ = big.NewInt
