//go:build verif

package props

import (
	"verif/harness/tamper"
	"math/rand"
	"encoding/json"
	"fmt"
	"os"
	"path/filepath"
	"regexp"
	"sort"
	"strings"
	"sync"
	"time"

	"verif/harness/core"
	"verif/harness/ev"
	"verif/harness/pump"
	"verif/harness/sandbox"
	"verif/harness/tlc"
)

// ConcCase is one concurrent run (executed inside the race-detector build of the harness).
type ConcCase struct {
	Sc        Scenario `json:"sc"`
	Workers   int      `json:"workers"`
	Readers   bool     `json:"readers"`
	Junk      bool     `json:"junk"`
	LateStart bool     `json:"late_start"`
	// Fault, when set, alters one field (+1) of the messages of one type from party From to party To: a round of the
	// recipient fails while other deliveries to it are in flight (an abort must be final also under concurrency)
	Fault *ConcFault `json:"fault,omitempty"`
}

type ConcFault struct {
	Type  string `json:"type"`
	Field string `json:"field"`
	Index int    `json:"index"`
	From  int    `json:"from"`
	To    int    `json:"to"`
}

func (c ConcCase) ID() string {
	f := ""
	if c.Fault != nil {
		f = fmt.Sprintf("|fault:%s.%s:%d>%d", c.Fault.Type, c.Fault.Field, c.Fault.From, c.Fault.To)
	}
	return fmt.Sprintf("%s|w%d|r%v|j%v|l%v|%d%s", c.Sc.GroupKey(), c.Workers, c.Readers, c.Junk, c.LateStart, c.Sc.Seed, f)
}

type ConcOutcome struct {
	Events    []ev.Event `json:"events"`
	MutexBad  string     `json:"mutex_bad"`
	Finished  []bool     `json:"finished"`
	NResults  []int      `json:"n_results"`
	Rounds    []int      `json:"rounds"`
	Errs      []string   `json:"errs"`
	TimedOut  bool       `json:"timed_out"`
	Sections  int        `json:"sections"`
	OracleBad string     `json:"oracle_bad"`
}

func execConc(cc ConcCase) (*ConcOutcome, error) {
	cfg, err := BuildConfig(cc.Sc)
	if err != nil {
		return nil, err
	}
	sort.Slice(cfg.EdKeys, func(i, j int) bool { return cfg.EdKeys[i].ShareID.Cmp(cfg.EdKeys[j].ShareID) < 0 })
	sort.Slice(cfg.EcKeys, func(i, j int) bool { return cfg.EcKeys[i].ShareID.Cmp(cfg.EcKeys[j].ShareID) < 0 })
	s, err := pump.New(cfg, nil)
	if err != nil {
		return nil, err
	}
	if f := cc.Fault; f != nil {
		frng := rand.New(rand.NewSource(cc.Sc.Seed))
		s.Mutate = func(it *pump.Item) []byte {
			if it.Msg.Type != f.Type || it.From.G != f.From || it.To.G != f.To {
				return nil
			}
			w, _, err := tamper.Apply(it.Wire, tamper.Spec{Field: f.Field, Index: f.Index, Kind: "plus1"}, frng, nil)
			if err != nil {
				return nil
			}
			return w
		}
	}
	r := s.RunConcurrent(pump.ConcOpts{Workers: cc.Workers, Readers: cc.Readers, Junk: cc.Junk, LateStart: cc.LateStart, Seed: cc.Sc.Seed, Timeout: 150 * time.Second})
	out := &ConcOutcome{Events: r.Events, MutexBad: r.MutexBad, Finished: r.Finished, NResults: r.NResults, Rounds: r.Rounds, Errs: r.Errs, TimedOut: r.TimedOut, Sections: r.Sections}
	done := true
	for _, f := range r.Finished {
		if !f {
			done = false
		}
	}
	if done && len(r.Errs) == 0 && cc.Fault == nil {
		rec := &RunRecord{Sc: cc.Sc, Session: s}
		out.OracleBad = ResultOracle(rec)
	}
	return out, nil
}

// ConcWorker is the sandbox child entry point (run from the -race binary).
func ConcWorker(args []string) int {
	return sandbox.ChildMain(args, func(p json.RawMessage) (any, error) {
		var cc ConcCase
		if err := json.Unmarshal(p, &cc); err != nil {
			return nil, err
		}
		return execConc(cc)
	})
}

func init() { Workers["conc-worker"] = ConcWorker; Registry["C09"] = C09 }

func c09Plan(ctx *core.Ctx) []ConcCase {
	type sz struct {
		proto                  pump.Proto
		n, t, keyN, newN, newT int
		noProofs               bool
		reps                   int
	}
	var sizes []sz
	if !ctx.Thorough() {
		sizes = []sz{
			{pump.EdKeygen, 3, 1, 0, 0, 0, false, 6}, {pump.EdSigning, 3, 1, 3, 0, 0, false, 6}, {pump.EdReshare, 2, 1, 3, 3, 1, false, 6},
			{pump.EcSigning, 3, 2, 5, 0, 0, false, 3}, {pump.EcKeygen, 2, 1, 0, 0, 0, false, 1}, {pump.EcReshare, 3, 2, 5, 2, 1, true, 1},
		}
	} else {
		sizes = []sz{
			{pump.EdKeygen, 3, 1, 0, 0, 0, false, 40}, {pump.EdKeygen, 4, 2, 0, 0, 0, false, 20}, {pump.EdSigning, 3, 1, 3, 0, 0, false, 40},
			{pump.EdSigning, 4, 2, 4, 0, 0, false, 20}, {pump.EdReshare, 2, 1, 3, 3, 1, false, 40}, {pump.EdReshare, 3, 1, 3, 2, 1, false, 20},
			{pump.EcSigning, 3, 2, 5, 0, 0, false, 16}, {pump.EcKeygen, 2, 1, 0, 0, 0, false, 4}, {pump.EcKeygen, 3, 1, 0, 0, 0, false, 2},
			{pump.EcReshare, 3, 2, 5, 2, 1, true, 4}, {pump.EcReshare, 3, 2, 5, 3, 1, false, 2},
		}
	}
	var cases []ConcCase
	i := 0
	for _, s := range sizes {
		for k := 0; k < s.reps; k++ {
			cases = append(cases, ConcCase{
				Sc:      Scenario{Proto: s.proto, N: s.n, T: s.t, KeyN: s.keyN, NewN: s.newN, NewT: s.newT, NoProofs: s.noProofs, Strategy: "concurrent", Seed: ctx.Seed*9001 + int64(i) + 1},
				Workers: 2 + k%3, Readers: k%2 == 0, LateStart: k%3 == 1,
				// invalid / unparsable input handed to the update entry points in parallel (the validation-failure and parse-failure paths)
				Junk: k%3 == 2,
			})
			i++
		}
	}
	// a round of one party fails (an altered share / response) while deliveries to it race: only crashes, hangs, races
	// and results of the aborted party are judged in these runs
	type fsz struct {
		proto            pump.Proto
		n, t, keyN       int
		typ, field       string
		reps             int
	}
	fs := []fsz{{pump.EcKeygen, 3, 1, 0, "KGRound2Message1", "share", ctx.Pick(2, 8)}, {pump.EcSigning, 3, 2, 5, "SignRound2Message", "c1", ctx.Pick(2, 8)},
		{pump.EdSigning, 3, 1, 3, "SignRound2Message", "proof_t", ctx.Pick(2, 8)}}
	for _, f := range fs {
		for k := 0; k < f.reps; k++ {
			cases = append(cases, ConcCase{
				Sc:      Scenario{Proto: f.proto, N: f.n, T: f.t, KeyN: f.keyN, Strategy: "concurrent", Seed: ctx.Seed*9001 + int64(i) + 1},
				Workers: 2 + k%3, Readers: k%2 == 0,
				Fault:   &ConcFault{Type: f.typ, Field: f.field, From: 1 + k%2, To: f.n},
			})
			i++
		}
	}
	return cases
}

var reRace = regexp.MustCompile(`(?s)WARNING: DATA RACE(.*?)={18}`)

// raceKey summarises one race report by the innermost tss-lib frames of its two accesses.
func raceKey(report string) (key string, lib bool) {
	parts := regexp.MustCompile(`(?m)^(Read|Write|Previous read|Previous write|Atomic|Previous atomic)[^\n]*\n`).Split(report, -1)
	var tops []string
	for _, p := range parts[1:] {
		// first frame of this access
		top := ""
		for _, line := range strings.Split(p, "\n") {
			line = strings.TrimSpace(line)
			if strings.HasSuffix(line, ")") && !strings.HasPrefix(line, "/") {
				top = line
				if i := strings.LastIndex(line, "("); i > 0 {
					top = line[:i]
				}
				break
			}
		}
		if top != "" {
			tops = append(tops, strings.TrimPrefix(top, "github.com/bnb-chain/tss-lib/v2/"))
		}
		if len(tops) == 2 {
			break
		}
	}
	for _, t := range tops {
		if !strings.HasPrefix(t, "verif/") && !strings.HasPrefix(t, "main.") && !strings.HasPrefix(t, "runtime.") {
			lib = true
		}
	}
	sort.Strings(tops)
	if strings.Contains(report, "(*BaseParty).WrapError()") {
		// one defect, many partners: the error path reads the round (pointer and fields) outside the mutex
		return "BaseParty.WrapError(unlocked error path)", lib
	}
	return strings.Join(tops, "|"), lib
}

func lockMCInsts(ctx *core.Ctx) []struct {
	cfg, wrap string
	expect    string
} {
	mk := func(upd, rounds string, invalid string, need int, locked bool, expect string) struct {
		cfg, wrap string
		expect    string
	} {
		cfg := fmt.Sprintf("SPECIFICATION Spec\nCONSTANTS\n  Updaters = %s\n  MsgRound <- MsgRoundVal\n  Invalid = %s\n  Rounds = 2\n  Need = %d\n  WrapErrLocked = %v\n  WithReader = TRUE\n  WithStarter = TRUE\n"+
			"INVARIANTS NoUnsyncAccess MutualExclusion EndOnce SameResult\nPROPERTIES Termination\nCHECK_DEADLOCK FALSE\n", upd, invalid, need, strings.ToUpper(fmt.Sprint(locked)))
		wrap := "---- MODULE MC_Lock ----\nEXTENDS Lock\nMsgRoundVal == " + rounds + "\n====\n"
		return struct {
			cfg, wrap string
			expect    string
		}{cfg, wrap, expect}
	}
	out := []struct {
		cfg, wrap string
		expect    string
	}{
		// the design with every access under the mutex: all properties hold
		mk(`{"u1","u2","u3","u4"}`, `[t \in {"u1","u2","u3","u4"} |-> IF t = "u3" THEN 2 ELSE 1]`, `{"u4"}`, 1, true, ""),
		mk(`{"u1","u2","u3"}`, `[t \in {"u1","u2","u3"} |-> IF t = "u3" THEN 2 ELSE 1]`, `{}`, 2, false, ""),
		// the code as it is: the error path of an invalid message reads the round pointer without the mutex
		mk(`{"u1","u2","u4"}`, `[t \in {"u1","u2","u4"} |-> 1]`, `{"u4"}`, 1, false, "NoUnsyncAccess"),
	}
	if ctx.Thorough() {
		out = append(out, mk(`{"u1","u2","u3","u4","u5"}`, `[t \in {"u1","u2","u3","u4","u5"} |-> IF t \in {"u3","u5"} THEN 2 ELSE 1]`, `{"u4"}`, 2, true, ""))
	}
	return out
}

func C09(ctx *core.Ctx) error {
	cov := core.NewCov()
	raceBin := os.Getenv("VERIF_RACE_BIN")
	if raceBin == "" {
		return core.Inconcl("VERIF_RACE_BIN is not set (run through ./check, which builds the race-detector binary)")
	}
	var cases []ConcCase
	if ctx.Replay != "" {
		var cc ConcCase
		if _, err := core.LoadReplay(ctx.Replay, &cc); err != nil {
			return core.Inconcl("cannot load replay: %v", err)
		}
		cases = []ConcCase{cc}
	} else {
		cases = c09Plan(ctx)
	}
	// design level: Lock.tla
	var notes []string
	var mcErr error
	var wg sync.WaitGroup
	if ctx.Replay == "" {
		wg.Add(1)
		go func() {
			defer wg.Done()
			for _, in := range lockMCInsts(ctx) {
				r := tlc.Run(tlc.Options{Module: "MC_Lock", Cfg: in.cfg, Workers: 3, Heap: "2g", Timeout: 10 * time.Minute, Files: map[string]string{"MC_Lock.tla": in.wrap}})
				if r.Err != nil {
					mcErr = r.Err
					return
				}
				switch {
				case in.expect == "" && !r.OK:
					mcErr = fmt.Errorf("Lock.tla violates %s:\n%s", r.Violated, r.ErrorTrace(1500))
					return
				case in.expect != "" && r.OK:
					notes = append(notes, "design: Lock.tla with the unlocked error path no longer violates "+in.expect)
				case in.expect != "" && r.Violated == in.expect:
					notes = append(notes, "design: TLC reproduces the known unsynchronised access on the model (error path of an invalid message reads the round pointer without the mutex)")
				case in.expect != "":
					mcErr = fmt.Errorf("Lock.tla violates %s (expected %s)", r.Violated, in.expect)
					return
				}
				cov.AddMC(r.Distinct, r.Generated)
			}
		}()
	}
	// real runs under the race detector
	tmp := os.Getenv("VERIF_TMP")
	logPrefix := filepath.Join(tmp, fmt.Sprintf("race-%d", os.Getpid()))
	cs := make([]sandbox.Case, len(cases))
	for i, cc := range cases {
		b, _ := json.Marshal(cc)
		cs[i] = sandbox.Case{ID: fmt.Sprintf("%03d:%s", i, cc.ID()), Payload: b}
	}
	env := []string{"GORACE=halt_on_error=0 log_path=" + logPrefix + " history_size=5"}
	results, err := sandbox.RunExe(raceBin, env, "conc-worker", cs, 6, 240*time.Second)
	wg.Wait()
	defer func() {
		fs, _ := filepath.Glob(logPrefix + ".*")
		for _, f := range fs {
			os.Remove(f)
		}
	}()
	if err != nil {
		return core.Inconcl("concurrent runner: %v", err)
	}
	if mcErr != nil {
		return core.Inconcl("%v", mcErr)
	}
	for _, n := range notes {
		ctx.Note("%s", n)
	}
	// race reports
	fs, _ := filepath.Glob(logPrefix + ".*")
	nreports := 0
	for _, f := range fs {
		b, _ := os.ReadFile(f)
		for _, m := range reRace.FindAllStringSubmatch(string(b), -1) {
			nreports++
			key, lib := raceKey(m[1])
			if !lib {
				return core.Inconcl("the race detector reports a race inside the harness itself: %s", core.Short(m[1], 1500))
			}
			ctx.Report("C09:race:"+key, "unsynchronised concurrent access to party state (Go race detector):\n"+core.Short(m[1], 1800), map[string]any{"note": "re-run ./check C09; the report names both accesses", "key": key})
		}
	}
	cov.Set("race_reports", nreports)
	// outcomes
	var all []ev.Event
	var idx []ConcCase
	for i, r := range results {
		cc := cases[i]
		switch r.Status {
		case "ok":
		case "skipped":
			continue
		case "harness-error":
			return core.Inconcl("case %s: %s", cc.ID(), r.Detail)
		case "hang":
			if strings.Contains(r.Detail, "tss-lib/v2") {
				ctx.Report(fmt.Sprintf("C09:hang:%s", cc.Sc.Proto), fmt.Sprintf("concurrent run %s made no progress: %s", cc.ID(), core.Short(hangSite(r.Detail), 1200)), cc)
				continue
			}
			return core.Inconcl("concurrent run %s made no progress and the dump shows no library frame", cc.ID())
		default:
			ctx.Report(fmt.Sprintf("C09:crash:%s:%s", cc.Sc.Proto, crashSite(r.Detail)), fmt.Sprintf("concurrent run %s crashed: %s", cc.ID(), core.Short(r.Detail, 1200)), cc)
			continue
		}
		var o ConcOutcome
		if err := json.Unmarshal(r.Output, &o); err != nil {
			return core.Inconcl("bad outcome: %v", err)
		}
		cov.Case(cc.ID(), true)
		cov.Add("critical_sections", o.Sections)
		if o.MutexBad != "" {
			ctx.Report(fmt.Sprintf("C09:mutex:%s", cc.Sc.Proto), fmt.Sprintf("%s: %s", cc.ID(), o.MutexBad), cc)
		}
		if cc.Fault != nil {
			// the recipient of the altered message must not produce a result (its abort is final); errors are expected
			if v := cc.Fault.To - 1; v >= 0 && v < len(o.NResults) && o.NResults[v] > 0 {
				ctx.Report(fmt.Sprintf("C09:result-after-abort:%s", cc.Sc.Proto), fmt.Sprintf("%s: party %d was handed an altered %s.%s and still emitted %d result(s) under concurrent delivery (errors: %s)",
					cc.ID(), cc.Fault.To, cc.Fault.Type, cc.Fault.Field, o.NResults[v], strings.Join(o.Errs, "; ")), cc)
			}
			cov.Add("concurrent_runs_with_a_failing_round", 1)
			continue
		}
		if len(o.Errs) > 0 {
			ctx.Report(fmt.Sprintf("C09:error:%s", cc.Sc.Proto), fmt.Sprintf("concurrent delivery of an honest run %s reported errors: %s", cc.ID(), strings.Join(o.Errs, "; ")), cc)
			continue
		}
		if o.TimedOut {
			return core.Inconcl("concurrent run %s did not finish in time (rounds %v results %v)", cc.ID(), o.Rounds, o.NResults)
		}
		for j, f := range o.Finished {
			if !f {
				ctx.Report(fmt.Sprintf("C09:result:%s", cc.Sc.Proto), fmt.Sprintf("%s: party %d ended in round %d with %d result(s) although a sequential delivery of the same messages finishes with exactly one (all: rounds %v results %v)",
					cc.ID(), j+1, o.Rounds[j], o.NResults[j], o.Rounds, o.NResults), cc)
				break
			}
		}
		if o.OracleBad != "" {
			ctx.Report(fmt.Sprintf("C09:oracle:%s", cc.Sc.Proto), fmt.Sprintf("%s: %s", cc.ID(), o.OracleBad), cc)
		}
		all = append(all, o.Events...)
		idx = append(idx, cc)
		cov.Sample(map[string]any{"scenario": cc.Sc.GroupKey(), "goroutines_per_party": cc.Workers + 1, "readers": cc.Readers, "junk_input": cc.Junk, "late_start": cc.LateStart, "critical_sections": o.Sections}, 6)
	}
	// every critical section of every run must be a step of the engine specification
	if len(all) > 0 {
		groups, terr := tlc.ValidateTraces(all, tlc.EngineFlags{StartRunsUpdate: true}, "EngineConc_Trace", "CTraceSpec", "CTraceInv", "")
		if terr != nil {
			return core.Inconcl("trace validation machinery failed: %v", terr)
		}
		acc := 0
		for _, g := range groups {
			if g.Accepted {
				acc += g.Runs
				continue
			}
			acc += g.FailRun
			ctx.Report(fmt.Sprintf("C09:trace:%s:%s", g.Proto, g.Violated),
				fmt.Sprintf("critical-section log of a concurrent %s run (n=%d+%d) is not a behaviour of the engine specification: %s at %s", g.Proto, g.NOld, g.NNew, g.Violated, describeEvent(g.FailEvent)),
				map[string]any{"proto": g.Proto, "run_in_group": g.FailRun})
		}
		cov.AddTraces(acc)
	}
	cov.Set("runs", len(cases))
	return ctx.WriteEvidence("model_checking",
		"one case = one real protocol run in which Start, UpdateFromBytes (several goroutines per party, random start order and yields, optionally invalid input in parallel) and WaitingFor of every party are called concurrently, "+
			"in a binary built with the Go race detector; a hook around the party mutex (build tag verif) logs every critical section while the mutex is held; verdicts: race-detector reports with a library frame, "+
			"mutual exclusion seen by the hook, one result per party and the C01-C04 result oracles (same result as a sequential delivery), and TLC must explain the critical-section log step by step (EngineConc_Trace.tla); Lock.tla model-checks the mutex discipline",
		cov, []string{"interleavings are explored by seeded randomisation (goroutine counts, start order, yields), not exhaustively on the real code; Lock.tla explores them exhaustively on the model",
			"the hook adds no synchronisation of its own (per-goroutine slots, per-party log under the party mutex)"}, "java tlc2.TLC MC_Lock.tla / EngineConc_Trace.tla; go build -race")
}
