package props

// C10 - every honestly generated zero-knowledge proof verifies, also after encoding.
//
// Design level : spec/ProofsMC.tla - TLC checks completeness of the nine proof systems of spec/Proofs.tla exhaustively
//                over toy domains (equations hold for every witness / coin / challenge; the guards an honest proof can
//                fail, and exactly when: the completeness gap; the verdict; the effect of the wire form).
// Catalogue (B): spec/ProofsGen.tla - TLC generates the scenario rows (system x admissible witness class x session class x
//                curve, with the number of wire parts); every row is concretised at REAL size with the vendored parameter
//                sets and the library's own prover: prover -> Verify -> wire parts -> parse -> Verify.
// Binding (C)  : the library's provers and verifiers are run on toy curves / moduli; every transcript is one line that
//                spec/Proofs_Trace.tla must explain (value of every guard and equation, outcome incl. predicted panics).
// Verdict      : only the real Verify at real size: true before and after the round trip.

import (
	"bytes"
	"encoding/json"
	"fmt"
	"math/big"
	"math/rand"
	"runtime"
	"sort"
	"strings"
	"sync"
	"time"

	"github.com/bnb-chain/tss-lib/v2/crypto"
	"github.com/bnb-chain/tss-lib/v2/crypto/dlnproof"
	"github.com/bnb-chain/tss-lib/v2/crypto/facproof"
	"github.com/bnb-chain/tss-lib/v2/crypto/modproof"
	"github.com/bnb-chain/tss-lib/v2/crypto/mta"
	"github.com/bnb-chain/tss-lib/v2/crypto/paillier"
	"github.com/bnb-chain/tss-lib/v2/crypto/schnorr"
	eckg "github.com/bnb-chain/tss-lib/v2/ecdsa/keygen"
	ecsg "github.com/bnb-chain/tss-lib/v2/ecdsa/signing"
	edkg "github.com/bnb-chain/tss-lib/v2/eddsa/keygen"
	"github.com/bnb-chain/tss-lib/v2/tss"

	"verif/harness/core"
	"verif/harness/obs"
	"verif/harness/pump"
	"verif/harness/tlc"
)

func init() { Registry["C10"] = C10 }

// ------------------------------------------------------------------ catalogue rows and scenarios

type c10Row struct {
	Sys         string `json:"sys"`
	WClass      string `json:"wclass"`
	Sess        string `json:"sess"`
	Curve       string `json:"curve"`
	PSets       int    `json:"psets"`
	Expect      string `json:"expect"`
	ExpectParts int    `json:"expect_parts"`
}

type c10Scenario struct {
	Row  c10Row `json:"row"`
	I    int    `json:"i"`    // vendored parameter set (prover's key / modulus)
	J    int    `json:"j"`    // vendored parameter set (verifier's ring-Pedersen parameters)
	Part int    `json:"part"` // witness class lz: the wire part (1-based) that must come out shortened; 0 = any
	Seed int64  `json:"seed"`
}

func (s c10Scenario) key() string {
	return fmt.Sprintf("%s|w=%s|sess=%s|%s|%d,%d|part%d", s.Row.Sys, s.Row.WClass, s.Row.Sess, s.Row.Curve, s.I, s.J, s.Part)
}

type c10Result struct {
	Sc      c10Scenario
	Viols   []c13Viol
	Drift   []string
	Inconcl string
	Parts   int // wire parts observed
	Short   int // parts whose encoding is shorter than the longest part of its kind would be (leading zero bytes dropped)
	Empty   int // parts with an empty encoding
	Info    map[string]any
	TwinOK  bool
	Seconds float64
}

const pcAllSys = `{"sch", "schv", "dln", "pai", "mod", "fac", "alice", "bob", "bobwc"}`

// c10Rows lets TLC print the catalogue.
func c10Rows() ([]c10Row, tlc.Result, error) {
	cfg := "SPECIFICATION GSpec\nCONSTANTS\n  Sys = " + pcAllSys + "\n  Wide = FALSE\nINVARIANTS EmitRow\nCHECK_DEADLOCK FALSE\n"
	r := tlc.Run(tlc.Options{Module: "ProofsGen", Cfg: cfg, Workers: 1, Heap: "2g", Timeout: 20 * time.Minute})
	if r.Err != nil {
		return nil, r, r.Err
	}
	if !r.OK {
		return nil, r, fmt.Errorf("ProofsGen violates %s", r.Violated)
	}
	var rows []c10Row
	if err := pcParseRows(r.Output, &rows); err != nil {
		return nil, r, err
	}
	sort.Slice(rows, func(a, b int) bool { return pcJSON(rows[a]) < pcJSON(rows[b]) })
	return rows, r, nil
}

func c10SessBytes(cls string) []byte {
	switch cls {
	case "empty":
		return []byte{}
	case "short":
		return []byte("ssid")
	case "long":
		return bytes.Repeat([]byte("0123456789abcdef"), 200)
	}
	return []byte("c10")
}

// c10Witness: the value of a witness class in [0, order)
func c10Witness(cls string, order *big.Int, rng *rand.Rand) *big.Int {
	switch cls {
	case "0":
		return big.NewInt(0)
	case "1":
		return big.NewInt(1)
	case "2":
		return big.NewInt(2)
	case "max":
		return new(big.Int).Sub(order, pc1)
	case "lz": // at least two leading zero bytes in an encoding as long as the order's
		return new(big.Int).Add(pcB(3), new(big.Int).Rand(rng, new(big.Int).Lsh(pc1, uint(order.BitLen()-20))))
	}
	for {
		v := new(big.Int).Rand(rng, order)
		if v.Cmp(pcB(2)) > 0 && v.Cmp(new(big.Int).Sub(order, pc1)) < 0 {
			return v
		}
	}
}

func c10Curve(name string) *pcCurve {
	if name == "ed25519" {
		return pcEd
	}
	return pcSecp
}

var c10From = tss.NewPartyID("1", "P1", big.NewInt(101))
var c10To = tss.NewPartyID("2", "P2", big.NewInt(102))

// wire: message -> bytes -> message
func c10Wire(m tss.ParsedMessage) (tss.ParsedMessage, error) {
	bz, _, err := m.WireBytes()
	if err != nil {
		return nil, err
	}
	pm, err := tss.ParseWireMessage(bz, m.GetFrom(), m.IsBroadcast())
	if err != nil {
		return nil, err
	}
	if !pm.ValidateBasic() {
		return nil, fmt.Errorf("the parsed message fails ValidateBasic")
	}
	return pm, nil
}

func c10Lens(parts [][]byte, r *c10Result) {
	r.Parts = len(parts)
	mx := 0
	for _, p := range parts {
		if len(p) > mx {
			mx = len(p)
		}
	}
	for _, p := range parts {
		if len(p) == 0 {
			r.Empty++
		}
		if len(p) < mx {
			r.Short++
		}
	}
}

// c10ResidueParts: the wire parts (1-based) of a system that are residues of a modulus (their encoding can lose leading zeros)
func c10ResidueParts(sys string) []int {
	switch sys {
	case "sch":
		return []int{1, 2, 3}
	case "schv":
		return []int{1, 2, 3, 4}
	case "fac":
		return []int{1, 2, 3, 4, 5}
	case "alice":
		return []int{1, 2, 3, 4}
	case "bob":
		return []int{1, 2, 3, 4, 5, 6}
	case "bobwc":
		return []int{1, 2, 3, 4, 5, 6, 11, 12}
	}
	return nil
}

// c10HasShortPart: some part (want > 0: that part) that is a residue (of a modulus of nomBytes[i] bytes) has an encoding shorter than the modulus:
// big.Int.Bytes() dropped leading zero bytes. nom 0 = not a residue.
func c10HasShortPart(want int, parts [][]byte, nom []int) bool {
	for i, p := range parts {
		if want > 0 && i != want-1 {
			continue
		}
		if i < len(nom) && nom[i] > 0 && len(p) < nom[i] {
			return true
		}
	}
	return false
}

func c10Len(x *big.Int) int { return (x.BitLen() + 7) / 8 }

// c10Grind repeats an honest prover until short() says that the proof has a part with leading zero bytes dropped (the witness
// class "lz"): at most max tries. The last proof is used in any case.
func c10Grind(on bool, max int, prove func() bool, short func() bool) (tries int) {
	for tries = 1; ; tries++ {
		if !prove() {
			return tries
		}
		if !on || tries >= max || short() {
			return tries
		}
	}
}

// c10Run concretises one row at real size.
func c10Run(sc c10Scenario, keys []eckg.LocalPartySaveData) (res c10Result) {
	t0 := time.Now()
	res.Sc = sc
	res.Info = map[string]any{}
	defer func() { res.Seconds = time.Since(t0).Seconds() }()
	row := sc.Row
	grind := row.WClass == "lz" // this class also asks for a PROOF one of whose parts has leading zero bytes
	rng := rand.New(rand.NewSource(sc.Seed))
	lib := pump.NewDRBG(sc.Seed ^ 0xc10)
	sess := c10SessBytes(row.Sess)
	A, B := keys[sc.I], keys[sc.J]
	viol := func(kind, what string) {
		res.Viols = append(res.Viols, c13Viol{fmt.Sprintf("C10:%s:%s:w=%s", row.Sys, kind, row.WClass), what})
	}
	ctxs := fmt.Sprintf("%s, witness class %s, session %s (%d bytes), curve %s, parameter sets %d,%d", row.Sys, row.WClass, row.Sess, len(sess), row.Curve, sc.I, sc.J)
	// judge(stage, f): f is a real Verify
	judge := func(stage string, f func() bool) bool {
		out, pan := pcGuard(f)
		switch out {
		case "acc":
			return true
		case "panic":
			viol("verify-panics-"+stage, fmt.Sprintf("Verify panics on an honest proof (%s) [%s]: %s", stage, ctxs, core.Short(pan, 160)))
		default:
			viol("verify-rejects-"+stage, fmt.Sprintf("Verify returns false on an honest proof (%s) [%s]", stage, ctxs))
		}
		return false
	}
	proverFail := func(err error, pan string) {
		res.Drift = append(res.Drift, fmt.Sprintf("the prover produced no proof for an admissible witness [%s]: err=%v panic=%q", ctxs, err, core.Short(pan, 120)))
	}
	twin := func(t *pcTr) {
		if !t.complete() {
			res.Drift = append(res.Drift, "twin: the honest proof has nil parts")
			return
		}
		t.challenge()
		v := t.vec()
		res.TwinOK = v.allOK()
		if !res.TwinOK {
			res.Drift = append(res.Drift, fmt.Sprintf("twin: the harness's transcription of the verifier does not accept this honest proof (%v) [%s]", v.failing(), ctxs))
		}
	}
	parseFail := func(err error) {
		viol("rejects-after-encoding", fmt.Sprintf("the wire parts of an honest proof cannot be parsed back: %v [%s]", err, ctxs))
	}

	switch row.Sys {
	case "sch", "schv":
		cv := c10Curve(row.Curve)
		q := cv.q()
		fl := c10Len(cv.Ec.Params().P)
		if row.Sys == "sch" {
			x := c10Witness(row.WClass, q, rng)
			var X *crypto.ECPoint
			if pan := pcCall(func() { X = crypto.ScalarBaseMult(cv.Ec, x) }); pan != "" || X == nil {
				res.Inconcl = "x*G is not representable although the model admits the class: " + pan
				return
			}
			if ind := obs.BaseMul(cv.G, x); !pcPtEq(cv, ind, pcFromEC(X)) {
				res.Inconcl = "x*G differs between the library and the independent arithmetic"
				return
			}
			var pf *schnorr.ZKProof
			var err error
			var pan string
			res.Info["prover_runs"] = c10Grind(grind, 6000, func() bool {
				pan = pcCall(func() { pf, err = schnorr.NewZKProof(sess, x, X, lib) })
				return pan == "" && err == nil && pf != nil
			}, func() bool {
				return c10HasShortPart(sc.Part, [][]byte{pf.Alpha.X().Bytes(), pf.Alpha.Y().Bytes(), pf.T.Bytes()}, []int{fl, fl, c10Len(q)})
			})
			if pan != "" || err != nil || pf == nil {
				proverFail(err, pan)
				return
			}
			if !judge("in-memory", func() bool { return pf.Verify(sess, X) }) {
				return
			}
			t := pcNewTr("sch")
			t.Cv, t.Sess = cv, sess
			t.P["X"], t.P["alpha"], t.I["t"] = pcFromEC(X), pcFromEC(pf.Alpha), pf.T
			twin(t)
			// the wire form of a Schnorr proof is defined by the protocol messages that carry it
			var pf2 *schnorr.ZKProof
			var parts [][]byte
			if row.Curve == "ed25519" {
				pm, err := c10Wire(edkg.NewKGRound2Message2(c10From, []*big.Int{pcB(1), pcB(2), pcB(3)}, pf))
				if err != nil {
					parseFail(err)
					return
				}
				c := pm.Content().(*edkg.KGRound2Message2)
				parts = [][]byte{c.ProofAlphaX, c.ProofAlphaY, c.ProofT}
				pf2, err = c.UnmarshalZKProof(cv.Ec)
				if err != nil {
					parseFail(err)
					return
				}
			} else {
				pm, err := c10Wire(ecsg.NewSignRound4Message(c10From, []*big.Int{pcB(1), pcB(2), pcB(3)}, pf))
				if err != nil {
					parseFail(err)
					return
				}
				c := pm.Content().(*ecsg.SignRound4Message)
				parts = [][]byte{c.ProofAlphaX, c.ProofAlphaY, c.ProofT}
				pf2, err = c.UnmarshalZKProof(cv.Ec)
				if err != nil {
					parseFail(err)
					return
				}
			}
			c10Lens(parts, &res)
			judge("after-encoding", func() bool { return pf2.Verify(sess, X) })
			return
		}
		// schv: V = s*R + l*G
		var s, l *big.Int
		switch row.WClass {
		case "0":
			s, l = big.NewInt(0), c10Witness("rand", q, rng)
		case "l0":
			s, l = c10Witness("rand", q, rng), big.NewInt(0)
		default:
			s, l = c10Witness(row.WClass, q, rng), c10Witness(row.WClass, q, rng)
		}
		r := c10Witness("rand", q, rng)
		var R, V *crypto.ECPoint
		if pan := pcCall(func() {
			R = crypto.ScalarBaseMult(cv.Ec, r)
			V = crypto.ScalarBaseMult(cv.Ec, new(big.Int).Mod(new(big.Int).Add(new(big.Int).Mul(s, r), l), q))
		}); pan != "" {
			res.Inconcl = "V is not representable: " + pan
			return
		}
		var pf *schnorr.ZKVProof
		var err error
		var pan string
		res.Info["prover_runs"] = c10Grind(grind, 6000, func() bool {
			pan = pcCall(func() { pf, err = schnorr.NewZKVProof(sess, V, R, s, l, lib) })
			return pan == "" && err == nil && pf != nil
		}, func() bool {
			return c10HasShortPart(sc.Part, [][]byte{pf.Alpha.X().Bytes(), pf.Alpha.Y().Bytes(), pf.T.Bytes(), pf.U.Bytes()}, []int{fl, fl, c10Len(q), c10Len(q)})
		})
		if pan != "" || err != nil || pf == nil {
			proverFail(err, pan)
			return
		}
		if !judge("in-memory", func() bool { return pf.Verify(sess, V, R) }) {
			return
		}
		t := pcNewTr("schv")
		t.Cv, t.Sess = cv, sess
		t.P["V"], t.P["R"], t.P["alpha"], t.I["t"], t.I["u"] = pcFromEC(V), pcFromEC(R), pcFromEC(pf.Alpha), pf.T, pf.U
		twin(t)
		// round 6 of ECDSA signing carries a ZKProof and the ZKVProof
		x2 := c10Witness("rand", q, rng)
		X2 := crypto.ScalarBaseMult(cv.Ec, x2)
		zp, err := schnorr.NewZKProof(sess, x2, X2, lib)
		if err != nil {
			res.Inconcl = "auxiliary Schnorr proof failed"
			return
		}
		pm, err := c10Wire(ecsg.NewSignRound6Message(c10From, []*big.Int{pcB(1), pcB(2), pcB(3), pcB(4), pcB(5)}, zp, pf))
		if err != nil {
			parseFail(err)
			return
		}
		c := pm.Content().(*ecsg.SignRound6Message)
		c10Lens([][]byte{c.VProofAlphaX, c.VProofAlphaY, c.VProofT, c.VProofU}, &res)
		pf2, err := c.UnmarshalZKVProof(cv.Ec)
		if err != nil {
			parseFail(err)
			return
		}
		judge("after-encoding", func() bool { return pf2.Verify(sess, V, R) })
	case "dln":
		N, pq := A.NTildei, new(big.Int).Mul(A.P, A.Q)
		h1 := A.H1i
		var h2, x *big.Int
		switch row.WClass {
		case "key":
			h2, x = A.H2i, A.Alpha
		case "keyrev":
			h1, h2, x = A.H2i, A.H1i, A.Beta
		default:
			x = c10Witness(row.WClass, pq, rng)
			h2 = new(big.Int).Exp(h1, x, N)
		}
		var pf *dlnproof.Proof
		if pan := pcCall(func() { pf = dlnproof.NewDLNProof(h1, h2, x, A.P, A.Q, N, lib) }); pan != "" || pf == nil {
			proverFail(nil, pan)
			return
		}
		if !judge("in-memory", func() bool { return pf.Verify(h1, h2, N) }) {
			return
		}
		t := pcNewTr("dln")
		t.I["h1"], t.I["h2"], t.I["N"] = h1, h2, N
		t.fromDln(pf)
		twin(t)
		bzs, err := pf.Serialize()
		if err != nil {
			parseFail(err)
			return
		}
		c10Lens(bzs, &res)
		pf2, err := dlnproof.UnmarshalDLNProof(bzs)
		if err != nil {
			parseFail(err)
			return
		}
		if !judge("after-encoding", func() bool { return pf2.Verify(h1, h2, N) }) {
			return
		}
		// and inside the message that carries it (with a second proof for the reverse direction)
		pm, err := eckg.NewKGRound1Message(c10From, big.NewInt(7), &A.PaillierSK.PublicKey, N, h1, h2, pf, pf)
		if err != nil {
			parseFail(err)
			return
		}
		pm2, err := c10Wire(pm)
		if err != nil {
			parseFail(err)
			return
		}
		pf3, err := pm2.Content().(*eckg.KGRound1Message).UnmarshalDLNProof1()
		if err != nil {
			parseFail(err)
			return
		}
		judge("after-message", func() bool { return pf3.Verify(h1, h2, N) })
	case "pai":
		sk := A.PaillierSK
		var k *big.Int
		switch row.Sess {
		case "empty":
			k = big.NewInt(0)
		case "short":
			k = big.NewInt(1)
		default:
			k = new(big.Int).Rand(rng, new(big.Int).Lsh(pc1, 512))
		}
		pub := keys[sc.J].ECDSAPub
		var pf paillier.Proof
		if pan := pcCall(func() { pf = sk.Proof(k, pub) }); pan != "" {
			proverFail(nil, pan)
			return
		}
		ver := func(p paillier.Proof) func() bool {
			return func() bool { ok, err := p.Verify(sk.N, k, pub); return ok && err == nil }
		}
		if !judge("in-memory", ver(pf)) {
			return
		}
		t := pcNewTr("pai")
		t.Bound, t.PaiK, t.PaiPt = 1000, k, pcFromEC(pub)
		t.I["N"] = sk.N
		t.fromPai(pf)
		twin(t)
		pm, err := c10Wire(eckg.NewKGRound3Message(c10From, pf))
		if err != nil {
			parseFail(err)
			return
		}
		c := pm.Content().(*eckg.KGRound3Message)
		c10Lens(c.PaillierProof, &res)
		judge("after-encoding", ver(c.UnmarshalProofInts()))
	case "mod":
		sk := A.PaillierSK
		var pf *modproof.ProofMod
		var err error
		if pan := pcCall(func() { pf, err = modproof.NewProof(sess, sk.N, sk.P, sk.Q, lib) }); pan != "" || err != nil || pf == nil {
			proverFail(err, pan)
			return
		}
		if !judge("in-memory", func() bool { return pf.Verify(sess, sk.N) }) {
			return
		}
		t := pcNewTr("mod")
		t.Sess = sess
		t.I["N"] = sk.N
		t.fromMod(pf)
		twin(t)
		res.Info["A"], res.Info["B"] = pf.A.Text(16), pf.B.Text(16)
		bz := pf.Bytes()
		c10Lens(bz[:], &res)
		pf2, err := modproof.NewProofFromBytes(bz[:])
		if err != nil {
			parseFail(err)
			return
		}
		if !judge("after-encoding", func() bool { return pf2.Verify(sess, sk.N) }) {
			return
		}
		pm, err := c10Wire(eckg.NewKGRound2Message2(c10From, []*big.Int{pcB(1), pcB(2)}, pf))
		if err != nil {
			parseFail(err)
			return
		}
		pf3, err := pm.Content().(*eckg.KGRound2Message2).UnmarshalModProof()
		if err != nil {
			parseFail(err)
			return
		}
		judge("after-message", func() bool { return pf3.Verify(sess, sk.N) })
	case "fac":
		cv := c10Curve(row.Curve)
		sk := A.PaillierSK
		var pf *facproof.ProofFac
		var err error
		var pan string
		nc := c10Len(B.NTildei)
		res.Info["prover_runs"] = c10Grind(row.Sess == "long", 2500, func() bool {
			pan = pcCall(func() { pf, err = facproof.NewProof(sess, cv.Ec, sk.N, B.NTildei, B.H1i, B.H2i, sk.P, sk.Q, lib) })
			return pan == "" && err == nil && pf != nil
		}, func() bool { bz := pf.Bytes(); return c10HasShortPart(sc.Part, bz[:], []int{nc, nc, nc, nc, nc}) })
		if pan != "" || err != nil || pf == nil {
			proverFail(err, pan)
			return
		}
		if !judge("in-memory", func() bool { return pf.Verify(sess, cv.Ec, sk.N, B.NTildei, B.H1i, B.H2i) }) {
			return
		}
		t := pcNewTr("fac")
		t.Cv, t.Sess = cv, sess
		t.I["N0"], t.I["NC"], t.I["s"], t.I["t"] = sk.N, B.NTildei, B.H1i, B.H2i
		t.fromFac(pf)
		twin(t)
		if pf.V.Sign() < 0 {
			res.Drift = append(res.Drift, "the factor proof has a negative v: its encoding loses the sign (ProofsMC!WireKeeps)")
		}
		bz := pf.Bytes()
		c10Lens(bz[:], &res)
		pf2, err := facproof.NewProofFromBytes(bz[:])
		if err != nil {
			parseFail(err)
			return
		}
		judge("after-encoding", func() bool { return pf2.Verify(sess, cv.Ec, sk.N, B.NTildei, B.H1i, B.H2i) })
	case "alice":
		cv := c10Curve(row.Curve)
		pk := &A.PaillierSK.PublicKey
		m := c10Witness(row.WClass, cv.q(), rng)
		var c, r *big.Int
		var pf *mta.RangeProofAlice
		var err error
		var pan string
		nt, nn := c10Len(B.NTildei), c10Len(pk.N)
		res.Info["prover_runs"] = c10Grind(grind, 2500, func() bool {
			pan = pcCall(func() {
				c, r, err = pk.EncryptAndReturnRandomness(lib, m)
				if err == nil {
					pf, err = mta.ProveRangeAlice(cv.Ec, pk, c, B.NTildei, B.H1i, B.H2i, m, r, lib)
				}
			})
			return pan == "" && err == nil && pf != nil
		}, func() bool { bz := pf.Bytes(); return c10HasShortPart(sc.Part, bz[:], []int{nt, 2 * nn, nt, nn}) })
		if pan != "" || err != nil || pf == nil {
			proverFail(err, pan)
			return
		}
		if !judge("in-memory", func() bool { return pf.Verify(cv.Ec, pk, B.NTildei, B.H1i, B.H2i, c) }) {
			return
		}
		t := pcNewTr("alice")
		t.Cv, t.N, t.NT, t.H1, t.H2 = cv, pk.N, B.NTildei, B.H1i, B.H2i
		t.I["c"] = c
		t.fromAlice(pf)
		twin(t)
		bz := pf.Bytes()
		c10Lens(bz[:], &res)
		pf2, err := mta.RangeProofAliceFromBytes(bz[:])
		if err != nil {
			parseFail(err)
			return
		}
		if !judge("after-encoding", func() bool { return pf2.Verify(cv.Ec, pk, B.NTildei, B.H1i, B.H2i, c) }) {
			return
		}
		pm, err := c10Wire(ecsg.NewSignRound1Message1(c10To, c10From, c, pf))
		if err != nil {
			parseFail(err)
			return
		}
		cm := pm.Content().(*ecsg.SignRound1Message1)
		pf3, err := cm.UnmarshalRangeProofAlice()
		if err != nil {
			parseFail(err)
			return
		}
		judge("after-message", func() bool { return pf3.Verify(cv.Ec, pk, B.NTildei, B.H1i, B.H2i, cm.UnmarshalC()) })
	case "bob", "bobwc":
		cv := c10Curve(row.Curve)
		q := cv.q()
		pk := &A.PaillierSK.PublicKey
		NT, h1, h2 := B.NTildei, B.H1i, B.H2i
		x := c10Witness(row.WClass, q, rng)
		q5 := pcPow(q, 5)
		yCls := []string{"rand", "1", "max", "0", "lz"}[int(sc.Seed%5+5)%5]
		y := c10Witness(yCls, q5, rng)
		res.Info["mask_class"] = yCls
		var c1, c2, r *big.Int
		var err error
		pan := pcCall(func() {
			c1, err = pk.Encrypt(lib, c10Witness("rand", q, rng))
			if err != nil {
				return
			}
			var cy, cx *big.Int
			cy, r, err = pk.EncryptAndReturnRandomness(lib, y)
			if err != nil {
				return
			}
			cx, err = pk.HomoMult(x, c1)
			if err != nil {
				return
			}
			c2, err = pk.HomoAdd(cx, cy)
		})
		if pan != "" || err != nil {
			res.Inconcl = fmt.Sprintf("could not build the statement: %v %s", err, pan)
			return
		}
		t := pcNewTr(row.Sys)
		t.Cv, t.Sess, t.N, t.NT, t.H1, t.H2 = cv, sess, pk.N, NT, h1, h2
		t.I["c1"], t.I["c2"] = c1, c2
		bobNom := []int{c10Len(NT), c10Len(NT), c10Len(NT), 2 * c10Len(pk.N), c10Len(NT), c10Len(pk.N)}
		if row.Sys == "bob" {
			var pf *mta.ProofBob
			var pan string
			res.Info["prover_runs"] = c10Grind(grind, 2500, func() bool {
				pan = pcCall(func() { pf, err = mta.ProveBob(sess, cv.Ec, pk, NT, h1, h2, c1, c2, x, y, r, lib) })
				return pan == "" && err == nil && pf != nil
			}, func() bool { bz := pf.Bytes(); return c10HasShortPart(sc.Part, bz[:], bobNom) })
			if pan != "" || err != nil || pf == nil {
				proverFail(err, pan)
				return
			}
			if !judge("in-memory", func() bool { return pf.Verify(sess, cv.Ec, pk, NT, h1, h2, c1, c2) }) {
				return
			}
			t.fromBob(pf)
			twin(t)
			bz := pf.Bytes()
			c10Lens(bz[:], &res)
			pf2, err := mta.ProofBobFromBytes(bz[:])
			if err != nil {
				parseFail(err)
				return
			}
			judge("after-encoding", func() bool { return pf2.Verify(sess, cv.Ec, pk, NT, h1, h2, c1, c2) })
			return
		}
		var X *crypto.ECPoint
		if pan := pcCall(func() { X = crypto.ScalarBaseMult(cv.Ec, x) }); pan != "" {
			res.Inconcl = "x*G is not representable although the model admits the class"
			return
		}
		var pw *mta.ProofBobWC
		var pan2 string
		res.Info["prover_runs"] = c10Grind(grind, 2500, func() bool {
			pan2 = pcCall(func() { pw, err = mta.ProveBobWC(sess, cv.Ec, pk, NT, h1, h2, c1, c2, x, y, r, X, lib) })
			return pan2 == "" && err == nil && pw != nil
		}, func() bool {
			bz := pw.Bytes()
			return c10HasShortPart(sc.Part, bz[:], append(append([]int{}, bobNom...), 0, 0, 0, 0, 32, 32))
		})
		if pan2 != "" || err != nil || pw == nil {
			proverFail(err, pan2)
			return
		}
		if !judge("in-memory", func() bool { return pw.Verify(sess, cv.Ec, pk, NT, h1, h2, c1, c2, X) }) {
			return
		}
		t.fromBob(pw.ProofBob)
		t.P["X"], t.P["U"] = pcFromEC(X), pcFromEC(pw.U)
		twin(t)
		bz := pw.Bytes()
		c10Lens(bz[:], &res)
		pw2, err := mta.ProofBobWCFromBytes(cv.Ec, bz[:])
		if err != nil {
			parseFail(err)
			return
		}
		if !judge("after-encoding", func() bool { return pw2.Verify(sess, cv.Ec, pk, NT, h1, h2, c1, c2, X) }) {
			return
		}
		// round 2 of ECDSA signing carries both of Bob's proofs
		pb, err := mta.ProveBob(sess, cv.Ec, pk, NT, h1, h2, c1, c2, x, y, r, lib)
		if err != nil {
			res.Inconcl = "auxiliary ProveBob failed"
			return
		}
		pm, err := c10Wire(ecsg.NewSignRound2Message(c10To, c10From, c2, pb, c2, pw))
		if err != nil {
			parseFail(err)
			return
		}
		cm := pm.Content().(*ecsg.SignRound2Message)
		pw3, err := cm.UnmarshalProofBobWC(cv.Ec)
		if err != nil {
			parseFail(err)
			return
		}
		pb3, err := cm.UnmarshalProofBob()
		if err != nil {
			parseFail(err)
			return
		}
		judge("after-message", func() bool {
			return pw3.Verify(sess, cv.Ec, pk, NT, h1, h2, c1, c2, X) && pb3.Verify(sess, cv.Ec, pk, NT, h1, h2, c1, c2)
		})
	default:
		res.Inconcl = "unknown system " + row.Sys
	}
	return
}

// ------------------------------------------------------------------ plan

func c10Plan(ctx *core.Ctx, rows []c10Row) []c10Scenario {
	rng := rand.New(rand.NewSource(ctx.Seed*104729 + 10))
	var scs []c10Scenario
	add := func(r c10Row, i, j int) {
		sc := c10Scenario{Row: r, I: i, J: j}
		sc.Seed = ctx.Seed*1000003 + int64(len(scs))*11 + 3
		scs = append(scs, sc)
	}
	pairs := c13Pairs()
	if ctx.Thorough() {
		reps := 1
		for _, r := range rows {
			switch r.PSets {
			case 0:
				for k := 0; k < 3*reps; k++ {
					add(r, 0, 1)
				}
			case 1:
				for i := 0; i < 5; i++ {
					add(r, i, (i+1)%5)
				}
			default:
				for _, p := range pairs {
					add(r, p[0], p[1])
				}
				if r.Sys == "bob" || r.Sys == "bobwc" {
					add(r, rng.Intn(5), -1) // the protocol's use: Alice's key and Alice's ring-Pedersen parameters
				}
			}
		}
	} else {
		// one scenario per (system, witness class), sessions / curves / parameter sets rotating; then every
		// (system, session) and (system, curve) that did not occur
		seen := map[string]bool{}
		byKey := map[string][]c10Row{}
		var order []string
		for _, r := range rows {
			k := r.Sys + "|" + r.WClass
			if _, ok := byKey[k]; !ok {
				order = append(order, k)
			}
			byKey[k] = append(byKey[k], r)
		}
		n := 0
		pick := func(r c10Row) {
			p := pairs[(n*7+int(ctx.Seed))%len(pairs)]
			n++
			add(r, p[0], p[1])
			seen[r.Sys+"|s|"+r.Sess] = true
			seen[r.Sys+"|c|"+r.Curve] = true
		}
		for _, k := range order {
			rs := byKey[k]
			pick(rs[(n+int(ctx.Seed))%len(rs)])
		}
		for _, r := range rows {
			if !seen[r.Sys+"|s|"+r.Sess] || !seen[r.Sys+"|c|"+r.Curve] {
				pick(r)
			}
		}
	}
	if ctx.Thorough() {
		// the leading-zero class once per residue part: that part must come out shortened
		done := map[string]bool{}
		for _, r := range rows {
			lz := r.WClass == "lz" || (r.Sys == "fac" && r.Sess == "long")
			if !lz || done[r.Sys+r.Curve] {
				continue
			}
			done[r.Sys+r.Curve] = true
			for _, part := range c10ResidueParts(r.Sys) {
				p := pairs[(part*3+int(ctx.Seed))%len(pairs)]
				add(r, p[0], p[1])
				scs[len(scs)-1].Part = part
			}
		}
	}
	for i := range scs {
		if scs[i].J < 0 {
			scs[i].J = scs[i].I
		}
	}
	return scs
}

func c10RunAll(scs []c10Scenario, keys []eckg.LocalPartySaveData, workers int) []*c10Result {
	out := make([]*c10Result, len(scs))
	var wg sync.WaitGroup
	ch := make(chan int)
	for w := 0; w < workers; w++ {
		wg.Add(1)
		go func() {
			defer wg.Done()
			for i := range ch {
				r := c10Run(scs[i], keys)
				out[i] = &r
			}
		}()
	}
	for i := range scs {
		ch <- i
	}
	close(ch)
	wg.Wait()
	return out
}

// ------------------------------------------------------------------ TLC: completeness

type pcMCGroup struct {
	Sys  []string
	Res  tlc.Result
	Wide bool
}

func pcSet(xs []string) string {
	var q []string
	for _, x := range xs {
		q = append(q, `"`+x+`"`)
	}
	return "{" + strings.Join(q, ", ") + "}"
}

func c10RunMC(ctx *core.Ctx) ([]pcMCGroup, error) {
	groups := []pcMCGroup{{Sys: []string{"sch", "schv", "dln", "pai", "mod"}}, {Sys: []string{"fac", "bobwc"}}, {Sys: []string{"alice", "bob"}}}
	if ctx.Thorough() {
		groups = nil
		for _, s := range pcSystems {
			groups = append(groups, pcMCGroup{Sys: []string{s}, Wide: true})
		}
	}
	var wg sync.WaitGroup
	sem := make(chan struct{}, 4)
	for i := range groups {
		wg.Add(1)
		go func(g *pcMCGroup) {
			defer wg.Done()
			sem <- struct{}{}
			defer func() { <-sem }()
			cfg := fmt.Sprintf("SPECIFICATION Spec\nCONSTANTS\n  Sys = %s\n  Wide = %s\nINVARIANTS Complete\nCHECK_DEADLOCK FALSE\n", pcSet(g.Sys), c13TLCBool(g.Wide))
			g.Res = tlc.Run(tlc.Options{Module: "ProofsMC", Cfg: cfg, Workers: 2, Heap: "3g", Timeout: 30 * time.Minute})
		}(&groups[i])
	}
	wg.Wait()
	for _, g := range groups {
		if g.Res.Err != nil {
			return groups, fmt.Errorf("ProofsMC %v: %v", g.Sys, g.Res.Err)
		}
		if !g.Res.OK {
			return groups, fmt.Errorf("ProofsMC %v violates %s:\n%s", g.Sys, g.Res.Violated, g.Res.ErrorTrace(2500))
		}
	}
	return groups, nil
}

// pcParseRows extracts <<"ROW", "json">> lines printed by TLC.
func pcParseRows[T any](output string, rows *[]T) error {
	js, err := pcPrinted(output, "ROW")
	if err != nil {
		return err
	}
	for _, s := range js {
		var row T
		if err := json.Unmarshal([]byte(s), &row); err != nil {
			return fmt.Errorf("cannot parse catalogue row %s: %v", core.Short(s, 200), err)
		}
		*rows = append(*rows, row)
	}
	if len(*rows) == 0 {
		return fmt.Errorf("TLC printed no catalogue rows")
	}
	return nil
}

// ------------------------------------------------------------------ the check

func pcWorkers() int {
	n := runtime.NumCPU() / 2
	if n > 8 {
		n = 8
	}
	if n < 2 {
		n = 2
	}
	return n
}

func C10(ctx *core.Ctx) error {
	if err := pcSelfCheck(); err != nil {
		return core.Inconcl("toy curves: %v", err)
	}
	keys, err := pump.LoadEcFixtures(5)
	if err != nil {
		return core.Inconcl("cannot load the vendored parameter sets: %v", err)
	}
	for i, k := range keys {
		if k.PaillierSK == nil || k.NTildei == nil || k.H1i == nil || k.H2i == nil || k.Alpha == nil || k.Beta == nil || k.P == nil || k.Q == nil || k.ECDSAPub == nil {
			return core.Inconcl("parameter set %d is incomplete", i)
		}
	}
	report := func(r *c10Result) {
		for _, v := range r.Viols {
			ctx.Report(v.Key, v.What, r.Sc)
		}
	}
	if ctx.Replay != "" {
		var hsc c10HistScenario
		if _, err := core.LoadReplay(ctx.Replay, &hsc); err == nil && hsc.Type != "" {
			// in child processes of its own: the history, then the remote verifier
			rs, err := c10HistRunAll([][]c10HistScenario{{hsc}}, 1)
			if err != nil {
				return core.Inconcl("replay %s: %v", hsc.key(), err)
			}
			r := rs[0][0]
			if r.Inconcl != "" {
				return core.Inconcl("replay %s: %s", hsc.key(), r.Inconcl)
			}
			fmt.Printf("replay %s: %d violation(s), outcomes %v, remote verifier %v, drift %v\n", hsc.key(), len(r.Viols), r.Outs, r.Remote, r.Drift)
			for _, v := range r.Viols {
				ctx.Report(v.Key, v.What, hsc)
			}
			return nil
		}
		var sc c10Scenario
		if _, err := core.LoadReplay(ctx.Replay, &sc); err != nil {
			return core.Inconcl("cannot load replay: %v", err)
		}
		if sc.I < 0 || sc.I > 4 || sc.J < 0 || sc.J > 4 {
			return core.Inconcl("replay names an unknown parameter set")
		}
		r := c10Run(sc, keys)
		if r.Inconcl != "" {
			return core.Inconcl("replay %s: %s", sc.key(), r.Inconcl)
		}
		fmt.Printf("replay %s: %d violation(s), drift %v\n", sc.key(), len(r.Viols), r.Drift)
		report(&r)
		return nil
	}
	cov := core.NewCov()

	// design model and toy binding in the background
	var mcGroups []pcMCGroup
	var mcErr error
	var toyRes pcTraceResult
	var toyErr error
	var gen *pcToyGen
	var hist *hPhase
	var wg sync.WaitGroup
	wg.Add(3)
	go func() { defer wg.Done(); hist = c10HistPhase(ctx, keys) }()
	go func() { defer wg.Done(); mcGroups, mcErr = c10RunMC(ctx) }()
	go func() {
		defer wg.Done()
		gen = newPcToyGen(ctx.Seed*31 + 10)
		gen.honest(ctx.Pick(24, 120))
		toyRes, toyErr = pcValidate(gen.lines, 30*time.Minute)
	}()

	rows, genRes, err := c10Rows()
	if err != nil {
		wg.Wait()
		return core.Inconcl("scenario catalogue (ProofsGen.tla): %v", err)
	}
	scs := c10Plan(ctx, rows)
	t0 := time.Now()
	results := c10RunAll(scs, keys, pcWorkers())
	realWall := time.Since(t0).Seconds()
	wg.Wait()

	bySys := map[string]int{}
	byClass := map[string]int{}
	drifts, twinOK, short, empty := 0, 0, 0, 0
	partsSeen := map[string]int{}
	for _, r := range results {
		if r.Inconcl != "" {
			return core.Inconcl("scenario %s could not be built or observed: %s", r.Sc.key(), r.Inconcl)
		}
		report(r)
		cov.Case(r.Sc.key(), true)
		bySys[r.Sc.Row.Sys]++
		byClass[r.Sc.Row.Sys+"/"+r.Sc.Row.WClass]++
		if r.TwinOK {
			twinOK++
		}
		short += r.Short
		empty += r.Empty
		if r.Parts > 0 {
			partsSeen[r.Sc.Row.Sys] = r.Parts
			if r.Parts != r.Sc.Row.ExpectParts {
				r.Drift = append(r.Drift, fmt.Sprintf("%s travels as %d parts, the specification says %d", r.Sc.Row.Sys, r.Parts, r.Sc.Row.ExpectParts))
			}
		}
		if len(r.Drift) > 0 {
			drifts++
			ctx.Note("drift: scenario %s: %s", r.Sc.key(), strings.Join(r.Drift, "; "))
		}
	}
	// call histories and object identity (spec/ProofsHist.tla, c10_hist.go)
	if err := c10HistJudge(ctx, cov, hist); err != nil {
		return err
	}
	for _, s := range pcSystems {
		for _, r := range results {
			if r.Sc.Row.Sys == s {
				cov.Sample(map[string]any{"scenario": r.Sc, "wire_parts": r.Parts, "parts_with_leading_zero_bytes_dropped": r.Short, "twin_accepts": r.TwinOK, "seconds": r.Seconds, "info": r.Info}, 9)
				break
			}
		}
	}
	// toy binding
	if toyErr != nil {
		return core.Inconcl("toy binding machinery failed: %v", toyErr)
	}
	toyOut := map[string]int{}
	toyMismatch := 0
	for _, l := range gen.lines {
		toyOut[l.T.Sys+":"+l.Real]++
		if l.Real != "na" && l.Real != l.Twin {
			toyMismatch++
			ctx.Note("drift: toy %s transcript: the real verifier says %s, the harness's transcription %s (failing %v)", l.T.Sys, l.Real, l.Twin, l.Vec.failing())
		}
	}
	if !toyRes.Accepted {
		if len(ctx.Violations()) == 0 {
			return core.Inconcl("Proofs_Trace.tla does not explain toy line %d of %d: %s - the specification and the code (or the harness's transcription) disagree on a toy-sized honest transcript",
				toyRes.FailLine, toyRes.Lines, core.Short(toyRes.FailText, 300))
		}
		ctx.Note("Proofs_Trace.tla does not explain toy line %d (%s): consistent with the violation(s) reported above", toyRes.FailLine, core.Short(toyRes.FailText, 200))
	} else if !toyRes.SelfTest {
		return core.Inconcl("self test: TLC did not refuse the toy transcript whose vector the harness had corrupted - the binding is not effective")
	}
	if toyRes.Accepted {
		cov.AddTraces(toyRes.Lines)
	}
	if mcErr != nil {
		return core.Inconcl("completeness model: %v", mcErr)
	}
	var mcOut []map[string]any
	for _, g := range mcGroups {
		cov.AddMC(g.Res.Distinct, g.Res.Generated)
		mcOut = append(mcOut, map[string]any{"systems": g.Sys, "wide": g.Wide, "distinct": g.Res.Distinct, "generated": g.Res.Generated, "wall_s": g.Res.Wall})
	}
	cov.Set("mc_configs", mcOut)
	cov.Set("catalogue_rows", len(rows))
	cov.Set("catalogue_tlc_wall_s", genRes.Wall)
	cov.Set("real_size_scenarios", len(results))
	cov.Set("real_size_wall_s", realWall)
	cov.Set("scenarios_by_system", bySys)
	cov.Set("scenarios_by_system_and_witness_class", byClass)
	cov.Set("twin_accepts_honest_proof", twinOK)
	cov.Set("drift_scenarios", drifts)
	cov.Set("wire_parts_by_system", partsSeen)
	cov.Set("wire_parts_shorter_than_longest", short)
	cov.Set("wire_parts_empty", empty)
	cov.Set("toy_lines_validated", toyRes.Lines)
	cov.Set("toy_outcomes", toyOut)
	cov.Set("toy_prover_no_proof", gen.skips)
	cov.Set("toy_twin_vs_real_mismatches", toyMismatch)
	cov.Set("toy_trace_tlc_wall_s", toyRes.Res.Wall)
	cov.Set("self_test_corrupted_line_refused", toyRes.SelfTest)
	cov.Set("exhaustive", false)
	return ctx.WriteEvidence("model_checking",
		"one case = one catalogue row generated by TLC (spec/ProofsGen.tla: system, admissible witness class, session class, curve) concretised at real size with "+
			"vendored parameter sets: the library's prover, the real Verify, the wire parts (Bytes / Serialize / the protocol message that carries the proof, through "+
			"tss.ParseWireMessage), the parser, the real Verify again; distinct = distinct (row, parameter sets). Verdict: the real Verify returns true both times. "+
			"states/transitions: TLC on spec/ProofsMC.tla (invariant Complete: equations hold for every witness, coin and challenge of the toy domains; honest proofs fail "+
			"only slack guards and exactly in the stated gap; verdict; wire form). traces: toy-sized transcripts produced by the library's provers on toy curves and moduli, "+
			"each explained by spec/Proofs_Trace.tla (value of every guard and equation, outcome of the real Verify incl. the predicted panics for a challenge of 0). "+
			"Call histories and object identity (spec/ProofsHist.tla): further cases = histories of prove / verify calls generated by TLC (exhaustively for 4 calls: the directed ones; -simulate for 7 calls) "+
			"with session buffers allocated or rewritten in place, statement objects of their own or overwritten in place, everything the verifier receives in memory / re-created from bytes with the prover's, "+
			"fresh or registry curve handles, replayed at real size sequentially in child processes, every item also verified in another process; and the rows of the handle catalogue (origin of the curve handle "+
			"per role); verdict: every honest verification returns true. The spec's defect variants (memoised tag keeping the caller's slice / keyed by identity / by a prefix, statement cache by object identity, "+
			"handle comparison) are emulated around the real Schnorr proof and must give the model's outcomes call by call (counted in traces)",
		cov, []string{
			"the five vendored parameter sets of test/_ecdsa_fixtures (Paillier keys with factors, ring-Pedersen parameters with their trapdoors)",
			"completeness holds up to the gap characterised by ProofsMC.tla (probability about 2^-256 .. 2^-512 at real size): not reachable by the real-size scenarios",
			"the Fiat-Shamir challenge is an oracle input of the specification; the harness's transcription of the verifier derives it with the library's exported hash functions (a disagreement with the real verifier is recorded as drift, never a violation)",
			"the Paillier key proof cannot run below 250 bit moduli (its challenges are 256 bit blocks that must be below N): its toy lines carry the twin's verdict only",
			"panics are recovered in the calling goroutine; the verifiers that start goroutines (modproof, paillier) do not panic inside them on these inputs",
			"histories: hidden state of the library is per process; a history runs in a child process in which nothing else calls the library, but the histories of one batch follow each other in the same process",
			"the proof systems of the MtA protocol, the factor proof and the Paillier key proof are also run with edwards25519 as the curve argument / public key curve (the library's protocols use them with secp256k1 only)",
		}, "java tlc2.TLC ProofsMC.tla / ProofsGen.tla / Proofs_Trace.tla / ProofsHist.tla (exhaustive and -simulate)")
}
