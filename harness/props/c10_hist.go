package props

// C10, call histories and object identity (spec/ProofsHist.tla).
//
// The property says that an honest proof is accepted "under the same session" and "still after being serialised to its
// wire parts and parsed back" - for every session byte string, whatever the process did before, in whatever memory the
// caller keeps the session, and whichever object stands for the curve on the receiving side. ProofsHist.tla models
//   - session buffers as references into a heap (fresh allocation / rewritten in place),
//   - the verifier's statement objects (own / one set of objects overwritten in place),
//   - curve handles (the prover's objects / parsed with the same handle / every object a fresh handle / registry + the
//     verifier's own handle), per role in the handle catalogue,
// and defect variants (memoised tag digest keeping the caller's slice, keyed by array identity, comparing a prefix only;
// a statement cache keyed by object identity; handle comparison with ==) that TLC must be able to expose in the bounded
// history space. TLC prints (a) every short history whose last step alone exposes a variant (exhaustive run), (b) long
// random histories (-simulate), (c) the handle catalogue. The harness replays them at REAL size with the library's
// provers and verifiers, each batch sequentially in a child process of its own (hidden state of the library is per
// process; no other library call runs in between), compares the projected buffer contents with the model after every
// step and demands what the model says of the code as read: every honest verification returns true.
// Self test of the binding: the harness wraps the real prover / verifier of the Schnorr proof in an emulation of each
// defect variant built from real Go slices and pointers; the outcomes must equal the model's out[v] step by step.

import (
	"bytes"
	"crypto/elliptic"
	"encoding/json"
	"fmt"
	"io"
	"math/big"
	"math/rand"
	"sort"
	"strings"
	"syscall"
	"time"

	"github.com/bnb-chain/tss-lib/v2/crypto"
	"github.com/bnb-chain/tss-lib/v2/crypto/dlnproof"
	"github.com/bnb-chain/tss-lib/v2/crypto/facproof"
	"github.com/bnb-chain/tss-lib/v2/crypto/modproof"
	"github.com/bnb-chain/tss-lib/v2/crypto/mta"
	"github.com/bnb-chain/tss-lib/v2/crypto/paillier"
	"github.com/bnb-chain/tss-lib/v2/crypto/schnorr"
	eckg "github.com/bnb-chain/tss-lib/v2/ecdsa/keygen"
	ecsg "github.com/bnb-chain/tss-lib/v2/ecdsa/signing"
	edkg "github.com/bnb-chain/tss-lib/v2/eddsa/keygen"
	"github.com/bnb-chain/tss-lib/v2/tss"

	"verif/harness/core"
	"verif/harness/pump"
	"verif/harness/sandbox"
	"verif/harness/tlc"
)

func init() { Workers["c10-hist-worker"] = c10HistWorker }

// ------------------------------------------------------------------ what TLC prints

type hKind struct {
	Tg bool   `json:"tg"`
	Cv string `json:"cv"` // single | multi
}

type hStep struct {
	Op    string            `json:"op"` // prove | verify
	Item  int               `json:"item"`
	Kind  int               `json:"kind"`
	Buf   int               `json:"buf"`
	How   string            `json:"how"` // new | inplace
	Sess  []int             `json:"sess"`
	Stm   string            `json:"stm"` // own | slot
	Hd    string            `json:"hd"`  // mem | same | fresh | reg
	Mem   [][]int           `json:"mem"`
	Alloc []bool            `json:"alloc"`
	Out   map[string]string `json:"out"`
}

type hHist struct {
	Kinds   []hKind             `json:"kinds"`
	Steps   []hStep             `json:"steps"`
	Remote  []map[string]string `json:"remote"` // the remote verifier's outcome for every item, per variant
	Exposes []string            `json:"exposes"`
}

type hRow struct {
	Sys      string   `json:"sys"`
	Curve    string   `json:"curve"`
	Roles    []string `json:"roles"`
	Asg      []string `json:"asg"`
	Expect   string   `json:"expect"`
	Distinct [][2]int `json:"distinct"`
}

type hVariantRow struct {
	Variant string `json:"variant"`
	Exposed bool   `json:"exposed"`
}

var hVariants = []string{"alias", "ident", "prefix", "stmt", "hcmp"}

const hAllVariants = `{"code", "alias", "ident", "prefix", "stmt", "hcmp"}`

func hWrapper(name, sess, kinds string) string {
	return fmt.Sprintf("---- MODULE %s ----\nEXTENDS ProofsHist\nSessV == %s\nKCV == %s\n====\n", name, sess, kinds)
}

func hCfg(nbufs, nkinds int, stms, hds string, maxOps int, emit string, twoPhase bool, rest string) string {
	return fmt.Sprintf("SPECIFICATION Spec\nCONSTANTS\n  NBufs = %d\n  Sess <- SessV\n  NKinds = %d\n  KindChoices <- KCV\n  Stms = %s\n  Hds = %s\n  MaxOps = %d\n  Variants = %s\n  TwoPhase = %s\n  EmitMode = %q\n%sCHECK_DEADLOCK FALSE\n",
		nbufs, nkinds, stms, hds, maxOps, hAllVariants, c13TLCBool(twoPhase), emit, rest)
}

type hMCOut struct {
	Res      tlc.Result
	Wide     *tlc.Result // thorough: two buffers
	WideDone chan error
	Variants []hVariantRow
	Directed []hHist
	Rows     []hRow
	Bounds   string
}

// c10HistMC: exhaustive exploration of the short histories (all variants side by side): the code as read accepts every
// honest verification, every defect variant is exposed by some history (non-vacuity); prints the directed histories and
// the handle catalogue.
func c10HistMC(thorough bool) (out hMCOut, err error) {
	name := "MCH_ProofsHist"
	nbufs, hds := 1, `{"mem", "fresh"}`
	out.Bounds = fmt.Sprintf("NBufs=%d, Sess={<<1,1>>,<<1,2>>,<<2,1>>}, one tagged kind on a multi-handle curve, Stms={own,slot}, Hds=%s, MaxOps=4", nbufs, hds)
	out.WideDone = make(chan error, 1)
	if thorough {
		// the same exploration with two buffers (no printing; non-vacuity through the specification's own registers, one
		// worker); runs on while the directed histories are replayed, the phase waits for it at its end
		out.Wide = &tlc.Result{}
		go func(res *tlc.Result, done chan error) {
			cfg := hCfg(2, 1, `{"own", "slot"}`, hds, 4, "none", false, "INVARIANTS TypeOK CodeSound Honest Witness\nPOSTCONDITION Post\n")
			r := tlc.Run(tlc.Options{Module: name, Cfg: cfg, Workers: 1, Heap: "4g", Timeout: 60 * time.Minute,
				Files: map[string]string{name + ".tla": hWrapper(name, "{<<1,1>>, <<1,2>>, <<2,1>>}", `{[tg |-> TRUE, cv |-> "multi"]}`)}})
			*res = r
			switch {
			case r.Err != nil:
				done <- r.Err
			case !r.OK:
				done <- fmt.Errorf("ProofsHist (two buffers) violates %s:\n%s", r.Violated, r.ErrorTrace(1500))
			default:
				done <- nil
			}
		}(out.Wide, out.WideDone)
	} else {
		out.WideDone <- nil
	}
	// several workers: the non-vacuity registers of the specification (Witness / Post) are per worker, so exposure is
	// read off the printed directed histories instead (every variant must have some)
	cfg := hCfg(nbufs, 1, `{"own", "slot"}`, hds, 4, "directed", false, "INVARIANTS TypeOK CodeSound Honest Emit\nPOSTCONDITION PostHandles\n")
	r := tlc.Run(tlc.Options{Module: name, Cfg: cfg, Workers: 3, Heap: "3g", Timeout: 30 * time.Minute,
		Files: map[string]string{name + ".tla": hWrapper(name, "{<<1,1>>, <<1,2>>, <<2,1>>}", `{[tg |-> TRUE, cv |-> "multi"]}`)}})
	out.Res = r
	if r.Err != nil {
		return out, r.Err
	}
	if !r.OK {
		return out, fmt.Errorf("ProofsHist violates %s:\n%s", r.Violated, r.ErrorTrace(1500))
	}
	hs, err := pcPrinted(r.Output, "HISTORY")
	if err != nil {
		return out, err
	}
	sort.Strings(hs)
	seen := map[string]bool{}
	for _, s := range hs {
		var h hHist
		if err := json.Unmarshal([]byte(s), &h); err != nil {
			return out, fmt.Errorf("cannot parse a history printed by TLC: %v", err)
		}
		for _, v := range h.Exposes {
			seen[v] = true
		}
		out.Directed = append(out.Directed, h)
	}
	out.Variants = []hVariantRow{{"code", seen["code"]}}
	for _, v := range hVariants {
		out.Variants = append(out.Variants, hVariantRow{v, seen[v]})
	}
	rs, err := pcPrinted(r.Output, "HROW")
	if err != nil {
		return out, err
	}
	for _, s := range rs {
		var row hRow
		if err := json.Unmarshal([]byte(s), &row); err != nil {
			return out, fmt.Errorf("cannot parse a handle row printed by TLC: %v", err)
		}
		out.Rows = append(out.Rows, row)
	}
	sort.Slice(out.Rows, func(a, b int) bool { return pcJSON(out.Rows[a]) < pcJSON(out.Rows[b]) })
	if len(out.Directed) == 0 || len(out.Rows) == 0 {
		return out, fmt.Errorf("TLC printed %d directed histories and %d handle rows", len(out.Directed), len(out.Rows))
	}
	return out, nil
}

// c10HistSim: num random histories of maxOps calls over the full alphabets (two kinds, all kind attributes, five sessions
// incl. the empty one and a shorter one, two buffers, all disciplines).
func c10HistSim(seed int64, num, maxOps int) ([]hHist, tlc.Result, error) {
	name := "MCS_ProofsHist"
	cfg := hCfg(2, 2, `{"own", "slot"}`, `{"mem", "same", "fresh", "reg"}`, maxOps, "all", true, "INVARIANTS CodeSound Emit\n")
	r := tlc.Run(tlc.Options{Module: name, Cfg: cfg, Workers: 1, Heap: "2g", Timeout: 30 * time.Minute,
		Args:  []string{"-simulate", fmt.Sprintf("num=%d", num), "-depth", fmt.Sprint(2*maxOps + 3), "-seed", fmt.Sprint(seed)},
		Files: map[string]string{name + ".tla": hWrapper(name, "{<<>>, <<1>>, <<1,1>>, <<1,2>>, <<2,1>>}", `[tg : BOOLEAN, cv : {"single", "multi"}]`)}})
	if r.Err != nil {
		return nil, r, r.Err
	}
	if !r.OK {
		return nil, r, fmt.Errorf("ProofsHist (-simulate) violates %s", r.Violated)
	}
	hs, err := pcPrinted(r.Output, "HISTORY")
	if err != nil {
		return nil, r, err
	}
	var out []hHist
	for _, s := range hs {
		var h hHist
		if err := json.Unmarshal([]byte(s), &h); err != nil {
			return nil, r, fmt.Errorf("cannot parse a history printed by TLC: %v", err)
		}
		if len(h.Steps) != maxOps {
			return nil, r, fmt.Errorf("TLC printed a history of %d calls, expected %d", len(h.Steps), maxOps)
		}
		out = append(out, h)
	}
	if len(out) == 0 {
		return nil, r, fmt.Errorf("TLC printed no history")
	}
	return out, r, nil
}

// ------------------------------------------------------------------ the nine systems behind one interface

// hStmt: the statement as the verifier holds it (objects!)
type hStmt struct {
	Ints []*big.Int
	Pts  []*crypto.ECPoint
	Ec   elliptic.Curve
	Pk   *paillier.PublicKey // slot discipline: ONE key object whose modulus is Ints[0], overwritten in place with it
}

type hEnv struct {
	A, B eckg.LocalPartySaveData
	N    int // ordinal of the item in its history
}

type hSys struct {
	name     string
	tagged   bool
	curves   []string // curves the system runs on; "-" = takes no curve
	build    func(env *hEnv, cv *pcCurve, rng *rand.Rand, lib io.Reader) (hStmt, any, error)
	prove    func(sess []byte, st hStmt, wit any, lib io.Reader) (any, error)
	verify   func(pf any, sess []byte, st hStmt) bool
	toWire   func(pf any, cv *pcCurve) ([][]byte, error)
	fromWire func(parts [][]byte, ec elliptic.Curve) (any, error)
	pfCurves func(pf any) []elliptic.Curve // the curve handles the proof object carries
}

func hPk(st hStmt) *paillier.PublicKey {
	if st.Pk != nil && st.Pk.N == st.Ints[0] {
		return st.Pk
	}
	return &paillier.PublicKey{N: st.Ints[0]}
}

func hArr(bz [][]byte, n int) ([][]byte, error) {
	if len(bz) != n {
		return nil, fmt.Errorf("%d wire parts, expected %d", len(bz), n)
	}
	return bz, nil
}

var hShares5 = []*big.Int{pcB(1), pcB(2), pcB(3), pcB(4), pcB(5)}

var hSystems = map[string]*hSys{
	"sch": {
		name: "sch", tagged: true, curves: []string{"secp256k1", "ed25519"},
		build: func(env *hEnv, cv *pcCurve, rng *rand.Rand, lib io.Reader) (hStmt, any, error) {
			// the extremes once per history each: two items with the witness 1 would be the same statement
			x := c10Witness([]string{"rand", "1", "rand", "max", "rand", "lz", "rand", "rand"}[env.N%8], cv.q(), rng)
			return hStmt{Pts: []*crypto.ECPoint{crypto.ScalarBaseMult(cv.Ec, x)}, Ec: cv.Ec}, x, nil
		},
		prove: func(sess []byte, st hStmt, wit any, lib io.Reader) (any, error) {
			return schnorr.NewZKProof(sess, wit.(*big.Int), st.Pts[0], lib)
		},
		verify: func(pf any, sess []byte, st hStmt) bool { return pf.(*schnorr.ZKProof).Verify(sess, st.Pts[0]) },
		toWire: func(pf any, cv *pcCurve) ([][]byte, error) {
			if cv == pcEd {
				pm, err := c10Wire(edkg.NewKGRound2Message2(c10From, hShares5[:3], pf.(*schnorr.ZKProof)))
				if err != nil {
					return nil, err
				}
				c := pm.Content().(*edkg.KGRound2Message2)
				return [][]byte{c.ProofAlphaX, c.ProofAlphaY, c.ProofT}, nil
			}
			pm, err := c10Wire(ecsg.NewSignRound4Message(c10From, hShares5[:3], pf.(*schnorr.ZKProof)))
			if err != nil {
				return nil, err
			}
			c := pm.Content().(*ecsg.SignRound4Message)
			return [][]byte{c.ProofAlphaX, c.ProofAlphaY, c.ProofT}, nil
		},
		fromWire: func(p [][]byte, ec elliptic.Curve) (any, error) {
			if _, err := hArr(p, 3); err != nil {
				return nil, err
			}
			if tss.SameCurve(ec, tss.Edwards()) {
				return (&edkg.KGRound2Message2{ProofAlphaX: p[0], ProofAlphaY: p[1], ProofT: p[2]}).UnmarshalZKProof(ec)
			}
			return (&ecsg.SignRound4Message{ProofAlphaX: p[0], ProofAlphaY: p[1], ProofT: p[2]}).UnmarshalZKProof(ec)
		},
		pfCurves: func(pf any) []elliptic.Curve { return []elliptic.Curve{pf.(*schnorr.ZKProof).Alpha.Curve()} },
	},
	"schv": {
		name: "schv", tagged: true, curves: []string{"secp256k1", "ed25519"},
		build: func(env *hEnv, cv *pcCurve, rng *rand.Rand, lib io.Reader) (hStmt, any, error) {
			q := cv.q()
			s, l, r := c10Witness([]string{"rand", "1", "max"}[rng.Intn(3)], q, rng), c10Witness("rand", q, rng), c10Witness("rand", q, rng)
			R := crypto.ScalarBaseMult(cv.Ec, r)
			V := crypto.ScalarBaseMult(cv.Ec, new(big.Int).Mod(new(big.Int).Add(new(big.Int).Mul(s, r), l), q))
			return hStmt{Pts: []*crypto.ECPoint{V, R}, Ec: cv.Ec}, []*big.Int{s, l}, nil
		},
		prove: func(sess []byte, st hStmt, wit any, lib io.Reader) (any, error) {
			w := wit.([]*big.Int)
			return schnorr.NewZKVProof(sess, st.Pts[0], st.Pts[1], w[0], w[1], lib)
		},
		verify: func(pf any, sess []byte, st hStmt) bool { return pf.(*schnorr.ZKVProof).Verify(sess, st.Pts[0], st.Pts[1]) },
		toWire: func(pf any, cv *pcCurve) ([][]byte, error) {
			// round 6 of ECDSA signing carries a ZKProof and the ZKVProof; the companion is a fixed dummy (no library call)
			zp := &schnorr.ZKProof{Alpha: crypto.ScalarBaseMult(cv.Ec, pcB(1)), T: pcB(1)}
			pm, err := c10Wire(ecsg.NewSignRound6Message(c10From, hShares5, zp, pf.(*schnorr.ZKVProof)))
			if err != nil {
				return nil, err
			}
			c := pm.Content().(*ecsg.SignRound6Message)
			return [][]byte{c.VProofAlphaX, c.VProofAlphaY, c.VProofT, c.VProofU}, nil
		},
		fromWire: func(p [][]byte, ec elliptic.Curve) (any, error) {
			if _, err := hArr(p, 4); err != nil {
				return nil, err
			}
			return (&ecsg.SignRound6Message{VProofAlphaX: p[0], VProofAlphaY: p[1], VProofT: p[2], VProofU: p[3]}).UnmarshalZKVProof(ec)
		},
		pfCurves: func(pf any) []elliptic.Curve { return []elliptic.Curve{pf.(*schnorr.ZKVProof).Alpha.Curve()} },
	},
	"dln": {
		name: "dln", curves: []string{"-"},
		build: func(env *hEnv, cv *pcCurve, rng *rand.Rand, lib io.Reader) (hStmt, any, error) {
			A := env.A
			if rng.Intn(2) == 0 {
				return hStmt{Ints: []*big.Int{A.H1i, A.H2i, A.NTildei}}, []*big.Int{A.Alpha, A.P, A.Q}, nil
			}
			x := c10Witness("rand", new(big.Int).Mul(A.P, A.Q), rng)
			return hStmt{Ints: []*big.Int{A.H1i, new(big.Int).Exp(A.H1i, x, A.NTildei), A.NTildei}}, []*big.Int{x, A.P, A.Q}, nil
		},
		prove: func(sess []byte, st hStmt, wit any, lib io.Reader) (any, error) {
			w := wit.([]*big.Int)
			return dlnproof.NewDLNProof(st.Ints[0], st.Ints[1], w[0], w[1], w[2], st.Ints[2], lib), nil
		},
		verify: func(pf any, sess []byte, st hStmt) bool {
			return pf.(*dlnproof.Proof).Verify(st.Ints[0], st.Ints[1], st.Ints[2])
		},
		toWire:   func(pf any, cv *pcCurve) ([][]byte, error) { return pf.(*dlnproof.Proof).Serialize() },
		fromWire: func(p [][]byte, ec elliptic.Curve) (any, error) { return dlnproof.UnmarshalDLNProof(p) },
	},
	"pai": {
		name: "pai", curves: []string{"secp256k1", "ed25519"},
		build: func(env *hEnv, cv *pcCurve, rng *rand.Rand, lib io.Reader) (hStmt, any, error) {
			k := new(big.Int).Rand(rng, new(big.Int).Lsh(pc1, uint(1+rng.Intn(300))))
			pub := crypto.ScalarBaseMult(cv.Ec, c10Witness("rand", cv.q(), rng))
			return hStmt{Ints: []*big.Int{env.A.PaillierSK.N, k}, Pts: []*crypto.ECPoint{pub}, Ec: cv.Ec}, env.A.PaillierSK, nil
		},
		prove: func(sess []byte, st hStmt, wit any, lib io.Reader) (any, error) {
			return wit.(*paillier.PrivateKey).Proof(st.Ints[1], st.Pts[0]), nil
		},
		verify: func(pf any, sess []byte, st hStmt) bool {
			ok, err := pf.(paillier.Proof).Verify(st.Ints[0], st.Ints[1], st.Pts[0])
			return ok && err == nil
		},
		toWire: func(pf any, cv *pcCurve) ([][]byte, error) {
			pm, err := c10Wire(eckg.NewKGRound3Message(c10From, pf.(paillier.Proof)))
			if err != nil {
				return nil, err
			}
			return pm.Content().(*eckg.KGRound3Message).PaillierProof, nil
		},
		fromWire: func(p [][]byte, ec elliptic.Curve) (any, error) {
			if _, err := hArr(p, paillier.ProofIters); err != nil {
				return nil, err
			}
			return (&eckg.KGRound3Message{PaillierProof: p}).UnmarshalProofInts(), nil
		},
	},
	"mod": {
		name: "mod", tagged: true, curves: []string{"-"},
		build: func(env *hEnv, cv *pcCurve, rng *rand.Rand, lib io.Reader) (hStmt, any, error) {
			sk := env.A.PaillierSK
			return hStmt{Ints: []*big.Int{sk.N}}, []*big.Int{sk.P, sk.Q}, nil
		},
		prove: func(sess []byte, st hStmt, wit any, lib io.Reader) (any, error) {
			w := wit.([]*big.Int)
			return modproof.NewProof(sess, st.Ints[0], w[0], w[1], lib)
		},
		verify: func(pf any, sess []byte, st hStmt) bool { return pf.(*modproof.ProofMod).Verify(sess, st.Ints[0]) },
		toWire: func(pf any, cv *pcCurve) ([][]byte, error) {
			bz := pf.(*modproof.ProofMod).Bytes()
			return bz[:], nil
		},
		fromWire: func(p [][]byte, ec elliptic.Curve) (any, error) { return modproof.NewProofFromBytes(p) },
	},
	"fac": {
		name: "fac", tagged: true, curves: []string{"secp256k1", "ed25519"},
		build: func(env *hEnv, cv *pcCurve, rng *rand.Rand, lib io.Reader) (hStmt, any, error) {
			sk, B := env.A.PaillierSK, env.B
			return hStmt{Ints: []*big.Int{sk.N, B.NTildei, B.H1i, B.H2i}, Ec: cv.Ec}, []*big.Int{sk.P, sk.Q}, nil
		},
		prove: func(sess []byte, st hStmt, wit any, lib io.Reader) (any, error) {
			w := wit.([]*big.Int)
			return facproof.NewProof(sess, st.Ec, st.Ints[0], st.Ints[1], st.Ints[2], st.Ints[3], w[0], w[1], lib)
		},
		verify: func(pf any, sess []byte, st hStmt) bool {
			return pf.(*facproof.ProofFac).Verify(sess, st.Ec, st.Ints[0], st.Ints[1], st.Ints[2], st.Ints[3])
		},
		toWire: func(pf any, cv *pcCurve) ([][]byte, error) {
			bz := pf.(*facproof.ProofFac).Bytes()
			return bz[:], nil
		},
		fromWire: func(p [][]byte, ec elliptic.Curve) (any, error) { return facproof.NewProofFromBytes(p) },
	},
	"alice": {
		name: "alice", curves: []string{"secp256k1", "ed25519"},
		build: func(env *hEnv, cv *pcCurve, rng *rand.Rand, lib io.Reader) (hStmt, any, error) {
			pk, B := &env.A.PaillierSK.PublicKey, env.B
			m := c10Witness([]string{"rand", "0", "max", "lz"}[rng.Intn(4)], cv.q(), rng)
			c, r, err := pk.EncryptAndReturnRandomness(lib, m)
			if err != nil {
				return hStmt{}, nil, err
			}
			return hStmt{Ints: []*big.Int{pk.N, B.NTildei, B.H1i, B.H2i, c}, Ec: cv.Ec}, []*big.Int{m, r}, nil
		},
		prove: func(sess []byte, st hStmt, wit any, lib io.Reader) (any, error) {
			w := wit.([]*big.Int)
			return mta.ProveRangeAlice(st.Ec, hPk(st), st.Ints[4], st.Ints[1], st.Ints[2], st.Ints[3], w[0], w[1], lib)
		},
		verify: func(pf any, sess []byte, st hStmt) bool {
			return pf.(*mta.RangeProofAlice).Verify(st.Ec, hPk(st), st.Ints[1], st.Ints[2], st.Ints[3], st.Ints[4])
		},
		toWire: func(pf any, cv *pcCurve) ([][]byte, error) {
			bz := pf.(*mta.RangeProofAlice).Bytes()
			return bz[:], nil
		},
		fromWire: func(p [][]byte, ec elliptic.Curve) (any, error) { return mta.RangeProofAliceFromBytes(p) },
	},
	"bob":   hBobSys(false),
	"bobwc": hBobSys(true),
}

func hBobSys(wc bool) *hSys {
	s := &hSys{name: "bob", tagged: true, curves: []string{"secp256k1", "ed25519"}}
	if wc {
		s.name = "bobwc"
	}
	s.build = func(env *hEnv, cv *pcCurve, rng *rand.Rand, lib io.Reader) (hStmt, any, error) {
		pk, B := &env.A.PaillierSK.PublicKey, env.B
		q := cv.q()
		x := c10Witness([]string{"rand", "1", "max"}[rng.Intn(3)], q, rng)
		y := c10Witness("rand", pcPow(q, 5), rng)
		c1, err := pk.Encrypt(lib, c10Witness("rand", q, rng))
		if err != nil {
			return hStmt{}, nil, err
		}
		cy, r, err := pk.EncryptAndReturnRandomness(lib, y)
		if err != nil {
			return hStmt{}, nil, err
		}
		cx, err := pk.HomoMult(x, c1)
		if err != nil {
			return hStmt{}, nil, err
		}
		c2, err := pk.HomoAdd(cx, cy)
		if err != nil {
			return hStmt{}, nil, err
		}
		st := hStmt{Ints: []*big.Int{pk.N, B.NTildei, B.H1i, B.H2i, c1, c2}, Ec: cv.Ec}
		if wc {
			st.Pts = []*crypto.ECPoint{crypto.ScalarBaseMult(cv.Ec, x)}
		}
		return st, []*big.Int{x, y, r}, nil
	}
	s.prove = func(sess []byte, st hStmt, wit any, lib io.Reader) (any, error) {
		w, I := wit.([]*big.Int), st.Ints
		if wc {
			return mta.ProveBobWC(sess, st.Ec, hPk(st), I[1], I[2], I[3], I[4], I[5], w[0], w[1], w[2], st.Pts[0], lib)
		}
		return mta.ProveBob(sess, st.Ec, hPk(st), I[1], I[2], I[3], I[4], I[5], w[0], w[1], w[2], lib)
	}
	s.verify = func(pf any, sess []byte, st hStmt) bool {
		I := st.Ints
		if wc {
			return pf.(*mta.ProofBobWC).Verify(sess, st.Ec, hPk(st), I[1], I[2], I[3], I[4], I[5], st.Pts[0])
		}
		return pf.(*mta.ProofBob).Verify(sess, st.Ec, hPk(st), I[1], I[2], I[3], I[4], I[5])
	}
	s.toWire = func(pf any, cv *pcCurve) ([][]byte, error) {
		if wc {
			bz := pf.(*mta.ProofBobWC).Bytes()
			return bz[:], nil
		}
		bz := pf.(*mta.ProofBob).Bytes()
		return bz[:], nil
	}
	s.fromWire = func(p [][]byte, ec elliptic.Curve) (any, error) {
		if wc {
			return mta.ProofBobWCFromBytes(ec, p)
		}
		return mta.ProofBobFromBytes(p)
	}
	if wc {
		s.pfCurves = func(pf any) []elliptic.Curve { return []elliptic.Curve{pf.(*mta.ProofBobWC).U.Curve()} }
	}
	return s
}

var (
	hTagged   = []string{"sch", "schv", "mod", "fac", "bob", "bobwc"}
	hUntagged = []string{"pai", "alice", "dln"}
	hCheap    = map[string]bool{"sch": true, "schv": true}
)

func hCurveOf(sys *hSys, cvClass string) (*pcCurve, string) {
	if sys.curves[0] == "-" {
		return nil, "-"
	}
	if cvClass == "multi" {
		return pcEd, "ed25519"
	}
	return pcSecp, "secp256k1"
}

// curve handles by origin
func hFresh(cv *pcCurve) elliptic.Curve {
	if cv == pcEd {
		return tss.Edwards()
	}
	return tss.S256()
}

func hReg(cv *pcCurve) (elliptic.Curve, error) {
	name := tss.Secp256k1
	if cv == pcEd {
		name = tss.Ed25519
	}
	ec, ok := tss.GetCurveByName(name)
	if !ok {
		return nil, fmt.Errorf("curve %s is not in the registry", name)
	}
	return ec, nil
}

// a point by origin: the prover's object, rebuilt from its coordinates' bytes with a given handle, or through JSON
func hPointWith(p *crypto.ECPoint, ec elliptic.Curve) (*crypto.ECPoint, error) {
	return crypto.NewECPoint(ec, new(big.Int).SetBytes(p.X().Bytes()), new(big.Int).SetBytes(p.Y().Bytes()))
}

func hPointJSON(p *crypto.ECPoint) (*crypto.ECPoint, error) {
	bz, err := json.Marshal(p)
	if err != nil {
		return nil, err
	}
	var out crypto.ECPoint
	if err := json.Unmarshal(bz, &out); err != nil {
		return nil, err
	}
	return &out, nil
}

func hIntCopy(x *big.Int) *big.Int {
	y := new(big.Int).SetBytes(x.Bytes())
	if x.Sign() < 0 {
		y.Neg(y)
	}
	return y
}

// ------------------------------------------------------------------ emulation of the defect variants (self test)

type hEmu struct {
	v    string
	w    int
	set  bool
	tag  []byte // the caller's slice (alias, ident)
	key  []byte // a copy (prefix)
	dig  []byte
	sset bool
	sobj any
	sst  hStmt
}

// session: the session the wrapped library derives its challenge under when handed buf
func (e *hEmu) session(buf []byte) []byte {
	if e == nil || (e.v != "alias" && e.v != "ident" && e.v != "prefix") {
		return buf
	}
	hit := false
	switch e.v {
	case "alias":
		hit = e.set && bytes.Equal(e.tag, buf)
	case "ident":
		hit = e.set && len(buf) > 0 && len(e.tag) == len(buf) && &e.tag[0] == &buf[0]
	case "prefix":
		hit = e.set && len(e.key) == len(buf) && len(buf) > 0 && bytes.Equal(e.key[:e.w], buf[:e.w])
	}
	if hit {
		return append([]byte{}, e.dig...)
	}
	e.set, e.tag, e.key, e.dig = true, buf, append([]byte{}, buf...), append([]byte{}, buf...)
	return buf
}

func hFirstObj(st hStmt) any {
	if len(st.Ints) > 0 {
		return st.Ints[0]
	}
	if len(st.Pts) > 0 {
		return st.Pts[0]
	}
	return nil
}

func hDeep(st hStmt) hStmt {
	out := hStmt{Ec: st.Ec}
	for _, x := range st.Ints {
		out.Ints = append(out.Ints, new(big.Int).Set(x))
	}
	for _, p := range st.Pts {
		out.Pts = append(out.Pts, crypto.NewECPointNoCurveCheck(p.Curve(), p.X(), p.Y()))
	}
	return out
}

// statement: the statement the wrapped verifier works with when handed the objects of st
func (e *hEmu) statement(st hStmt) hStmt {
	if e == nil || e.v != "stmt" {
		return st
	}
	obj := hFirstObj(st)
	if e.sset && e.sobj == obj {
		return e.sst
	}
	e.sset, e.sobj, e.sst = true, obj, hDeep(st)
	return st
}

// handlesOK: Go == on the curve handles of statement and proof
func (e *hEmu) handlesOK(sys *hSys, st hStmt, pf any) bool {
	if e == nil || e.v != "hcmp" || sys.pfCurves == nil {
		return true
	}
	var ref elliptic.Curve
	if len(st.Pts) > 0 {
		ref = st.Pts[0].Curve()
	} else {
		ref = st.Ec
	}
	for _, c := range sys.pfCurves(pf) {
		if c != ref {
			return false
		}
	}
	for _, p := range st.Pts {
		if p.Curve() != ref {
			return false
		}
	}
	return true
}

// ------------------------------------------------------------------ items as they travel to the remote verifier

type hExport struct {
	Sys   string      `json:"sys"`
	Curve string      `json:"curve"` // secp256k1 | ed25519 | -
	Ints  []string    `json:"ints"`  // statement integers, hex
	Pts   [][2][]byte `json:"pts"`   // statement points, coordinates big endian
	Wire  [][]byte    `json:"wire"`
	Sess  []byte      `json:"sess"`
}

func hCurveName(cv *pcCurve) string {
	switch cv {
	case nil:
		return "-"
	case pcEd:
		return "ed25519"
	}
	return "secp256k1"
}

func hExportItem(it *hItem) hExport {
	e := hExport{Sys: it.sys.name, Curve: hCurveName(it.cv), Sess: append([]byte{}, it.sess...)}
	for _, x := range it.st.Ints {
		e.Ints = append(e.Ints, x.Text(16))
	}
	for _, p := range it.st.Pts {
		e.Pts = append(e.Pts, [2][]byte{p.X().Bytes(), p.Y().Bytes()})
	}
	for _, w := range it.wire {
		e.Wire = append(e.Wire, append([]byte{}, w...))
	}
	return e
}

// hRemoteVerify: what a verifier in another process does with a received item: everything restored from bytes into
// objects of its own, every curve handle obtained anew. emu (self test only) wraps the session.
func hRemoteVerify(e hExport, emu *hEmu) (out string, detail string) {
	sys := hSystems[e.Sys]
	if sys == nil {
		return "inconcl", "unknown system " + e.Sys
	}
	var cv *pcCurve
	if e.Curve != "-" {
		cv = c10Curve(e.Curve)
	}
	st := hStmt{}
	for _, t := range e.Ints {
		x, ok := new(big.Int).SetString(t, 16)
		if !ok {
			return "inconcl", "bad integer"
		}
		st.Ints = append(st.Ints, x)
	}
	for _, c := range e.Pts {
		p, err := crypto.NewECPoint(hFresh(cv), new(big.Int).SetBytes(c[0]), new(big.Int).SetBytes(c[1]))
		if err != nil {
			return "rej", "a statement point cannot be restored from its coordinates: " + err.Error()
		}
		st.Pts = append(st.Pts, p)
	}
	var ec elliptic.Curve
	if cv != nil {
		st.Ec, ec = hFresh(cv), hFresh(cv)
	}
	var pf any
	var err error
	if pan := pcCall(func() { pf, err = sys.fromWire(e.Wire, ec) }); pan != "" || err != nil {
		return "rej", fmt.Sprintf("the wire parts cannot be parsed back: %v %s", err, core.Short(pan, 120))
	}
	sess := append(make([]byte, 0, len(e.Sess)), e.Sess...)
	out, pan := pcGuard(func() bool { return sys.verify(pf, emu.session(sess), st) })
	if out == "acc" && !emu.handlesOK(sys, st, pf) {
		out = "rej"
	}
	return out, pan
}

// ------------------------------------------------------------------ replay of one history at real size

type c10HistScenario struct {
	Type string   `json:"type"` // history | handles
	Hist *hHist   `json:"hist,omitempty"`
	Src  string   `json:"src,omitempty"` // directed | simulated
	Sys  []string `json:"sys,omitempty"` // concrete system of every kind
	W    int      `json:"w,omitempty"`   // bytes per session element
	Lead bool     `json:"lead,omitempty"` // the element's value is the FIRST byte of its block (else the last)
	Row  *hRow    `json:"row,omitempty"`
	I    int      `json:"i"`
	J    int      `json:"j"`
	Seed int64    `json:"seed"`
	Emu  string   `json:"emu,omitempty"` // self test: the variant emulated around the real code
}

func (s c10HistScenario) key() string {
	if s.Type == "handles" {
		return fmt.Sprintf("handles|%s|%s|%s|%d,%d", s.Row.Sys, s.Row.Curve, strings.Join(s.Row.Asg, ","), s.I, s.J)
	}
	return fmt.Sprintf("history|%s|%s|w%d%v|%d,%d|%d|emu=%s", s.Src, strings.Join(s.Sys, "+"), s.W, s.Lead, s.I, s.J, s.Seed, s.Emu)
}

type c10HistResult struct {
	Sc       c10HistScenario `json:"sc"`
	Viols    []c13Viol       `json:"viols,omitempty"`
	Drift    []string        `json:"drift,omitempty"`
	Inconcl  string          `json:"inconcl,omitempty"`
	Proves   int             `json:"proves"`
	Verifies int             `json:"verifies"`
	InPlace  int             `json:"in_place"` // calls made with a buffer rewritten in place
	Slot     int             `json:"slot"`     // verifications with statement objects overwritten in place
	Wire     int             `json:"wire"`     // verifications of everything re-created from bytes
	Outs     []string        `json:"outs,omitempty"`
	EmuDiff  []string        `json:"emu_diff,omitempty"`
	Distinct [][2]int        `json:"distinct,omitempty"` // handle rows: role pairs whose handles are different objects
	Exports  []hExport       `json:"exports,omitempty"`  // every item as it travels to the remote verifier
	Remote   []string        `json:"remote,omitempty"`   // the remote verifier's outcomes
	Seconds  float64         `json:"seconds"`
	CPU      float64         `json:"cpu_s"` // process CPU time (meaningful in the sequential child processes)
}

// hSessBytes widens a model session to real bytes: element x at position p -> a block of w bytes: filler that depends on
// p only, and x as the last byte (ssid||1 vs ssid||2) or, with lead, as the first byte (sessions that differ early)
func hSessBytes(s []int, w int, lead bool) []byte {
	out := make([]byte, 0, len(s)*w)
	for p, x := range s {
		if lead {
			out = append(out, byte(x))
		}
		for k := 0; k < w-1; k++ {
			out = append(out, byte(0xA0+p))
		}
		if !lead {
			out = append(out, byte(x))
		}
	}
	return out
}

func hCPU() float64 {
	var ru syscall.Rusage
	if syscall.Getrusage(syscall.RUSAGE_SELF, &ru) != nil {
		return 0
	}
	return float64(ru.Utime.Sec+ru.Stime.Sec) + float64(ru.Utime.Usec+ru.Stime.Usec)/1e6
}

type hItem struct {
	sys  *hSys
	cv   *pcCurve
	st   hStmt
	wit  any
	pf   any
	wire [][]byte
	sess []byte
}

func c10HistRun(sc c10HistScenario, keys []eckg.LocalPartySaveData) (res c10HistResult) {
	t0, c0 := time.Now(), hCPU()
	res.Sc = sc
	defer func() { res.Seconds, res.CPU = time.Since(t0).Seconds(), hCPU()-c0 }()
	defer func() {
		if r := recover(); r != nil {
			res.Inconcl = fmt.Sprintf("harness panic while replaying: %v", r)
		}
	}()
	if sc.Type == "handles" {
		c10HandleRun(sc, keys, &res)
		return
	}
	h := sc.Hist
	if h == nil || len(sc.Sys) != len(h.Kinds) || sc.W < 1 || sc.I < 0 || sc.J < 0 || sc.I >= len(keys) || sc.J >= len(keys) {
		res.Inconcl = "malformed history scenario"
		return
	}
	rng := rand.New(rand.NewSource(sc.Seed))
	lib := pump.NewDRBG(sc.Seed ^ 0xc10a)
	var emu *hEmu
	if sc.Emu != "" {
		emu = &hEmu{v: sc.Emu, w: sc.W}
	}
	syss := make([]*hSys, len(sc.Sys))
	cvs := make([]*pcCurve, len(sc.Sys))
	for k, n := range sc.Sys {
		syss[k] = hSystems[n]
		if syss[k] == nil {
			res.Inconcl = "unknown system " + n
			return
		}
		cvs[k], _ = hCurveOf(syss[k], h.Kinds[k].Cv)
	}
	nb := 0
	for _, st := range h.Steps {
		if len(st.Mem) > nb {
			nb = len(st.Mem)
		}
	}
	bufs := make([][]byte, nb+1)
	var items []*hItem
	slots := make([]*hStmt, len(sc.Sys))
	vh := map[*pcCurve]elliptic.Curve{} // the verifier's own handle per curve (hd = reg)
	ctxs := func(n int, st hStep) string {
		return fmt.Sprintf("call %d of a %s history on %s: %s of item %d (%s), session of %d bytes in buffer %d (%s), statement objects %s, received as %q",
			n+1, sc.Src, strings.Join(sc.Sys, "+"), st.Op, st.Item, sc.Sys[st.Kind-1], len(st.Sess)*sc.W, st.Buf, st.How, st.Stm, st.Hd)
	}
	for n, st := range h.Steps {
		k := st.Kind - 1
		if k < 0 || k >= len(syss) || st.Buf < 1 || st.Buf > nb {
			res.Inconcl = "malformed step"
			return
		}
		sys, cv := syss[k], cvs[k]
		want := hSessBytes(st.Sess, sc.W, sc.Lead)
		// ---- the caller prepares its buffer
		switch st.How {
		case "new":
			bufs[st.Buf] = append(make([]byte, 0, len(want)), want...)
		case "inplace":
			if bufs[st.Buf] == nil || len(bufs[st.Buf]) != len(want) {
				res.Inconcl = fmt.Sprintf("step %d: in-place write into a buffer of another length (the model allows it only for equal lengths)", n+1)
				return
			}
			copy(bufs[st.Buf], want)
			res.InPlace++
		default:
			res.Inconcl = "unknown buffer discipline " + st.How
			return
		}
		// projection (B): the buffers hold what the model's heap says
		for b := 1; b <= nb && b-1 < len(st.Mem); b++ {
			if b-1 < len(st.Alloc) && !st.Alloc[b-1] {
				if bufs[b] != nil {
					res.Inconcl = fmt.Sprintf("step %d: buffer %d is allocated, the model says it is not", n+1, b)
					return
				}
				continue
			}
			if !bytes.Equal(bufs[b], hSessBytes(st.Mem[b-1], sc.W, sc.Lead)) {
				res.Inconcl = fmt.Sprintf("step %d: buffer %d does not hold what the model's heap holds", n+1, b)
				return
			}
		}
		buf := bufs[st.Buf]
		switch st.Op {
		case "prove":
			if st.Item != len(items)+1 {
				res.Inconcl = "items are not numbered in the order of their proofs"
				return
			}
			it := &hItem{sys: sys, cv: cv, sess: append([]byte{}, want...)}
			var err error
			var pan string
			// every item has parameter sets of its own (the statements of one system differ in every component)
			env := &hEnv{A: keys[(sc.I+len(items))%len(keys)], B: keys[(sc.J+2*len(items))%len(keys)], N: len(items) + int(sc.Seed&3)}
			pan = pcCall(func() { it.st, it.wit, err = sys.build(env, cv, rng, lib) })
			if pan != "" || err != nil {
				res.Inconcl = fmt.Sprintf("step %d: could not build a true statement for %s: %v %s", n+1, sys.name, err, pan)
				return
			}
			emu.statement(it.st) // the prover works on its own statement objects
			pan = pcCall(func() { it.pf, err = sys.prove(emu.session(buf), it.st, it.wit, lib) })
			if pan != "" || err != nil || it.pf == nil {
				res.Drift = append(res.Drift, fmt.Sprintf("the prover produced no proof [%s]: err=%v panic=%q", ctxs(n, st), err, core.Short(pan, 120)))
				return
			}
			if !bytes.Equal(buf, want) {
				res.Drift = append(res.Drift, fmt.Sprintf("the prover wrote into the caller's session buffer [%s]", ctxs(n, st)))
				return
			}
			pan = pcCall(func() { it.wire, err = sys.toWire(it.pf, cv) })
			if pan != "" || err != nil {
				res.Viols = append(res.Viols, c13Viol{fmt.Sprintf("C10:%s:history:rejects-after-encoding", sys.name),
					fmt.Sprintf("an honest proof cannot be put on the wire and read back: %v %s [%s]", err, core.Short(pan, 120), ctxs(n, st))})
				return
			}
			items = append(items, it)
			res.Proves++
		case "verify":
			if st.Item < 1 || st.Item > len(items) || items[st.Item-1].sys != sys {
				res.Inconcl = "verify step names an unknown item"
				return
			}
			it := items[st.Item-1]
			if !bytes.Equal(buf, it.sess) {
				res.Inconcl = fmt.Sprintf("step %d is not an honest verification: the buffer does not hold the item's session", n+1)
				return
			}
			// ---- everything the verifier receives, by discipline
			var pf any = it.pf
			stv := hStmt{Ec: it.st.Ec}
			var err error
			mkPf := func(ec elliptic.Curve) {
				parts := make([][]byte, len(it.wire))
				for i, p := range it.wire {
					parts[i] = append([]byte{}, p...)
				}
				if pan := pcCall(func() { pf, err = sys.fromWire(parts, ec) }); pan != "" {
					err = fmt.Errorf("the parser panics: %s", core.Short(pan, 120))
				}
			}
			switch st.Hd {
			case "mem":
				stv.Ints, stv.Pts = it.st.Ints, it.st.Pts
			case "same", "fresh", "reg":
				res.Wire++
				for _, x := range it.st.Ints {
					stv.Ints = append(stv.Ints, hIntCopy(x))
				}
				var hErr error
				handle := func() elliptic.Curve { // the handle of the next received object
					switch {
					case cv == nil:
						return nil
					case st.Hd == "same":
						return it.st.Ec
					case st.Hd == "fresh":
						return hFresh(cv)
					}
					if vh[cv] == nil {
						vh[cv] = hFresh(cv)
					}
					return vh[cv]
				}
				for _, p := range it.st.Pts {
					var q *crypto.ECPoint
					if st.Hd == "reg" {
						q, hErr = hPointJSON(p)
					} else {
						q, hErr = hPointWith(p, handle())
					}
					if hErr != nil {
						res.Viols = append(res.Viols, c13Viol{fmt.Sprintf("C10:%s:history:statement-not-restored", sys.name),
							fmt.Sprintf("a statement point of an honest proof cannot be restored from its encoding: %v [%s]", hErr, ctxs(n, st))})
						return
					}
					stv.Pts = append(stv.Pts, q)
				}
				if cv != nil {
					stv.Ec = handle()
				}
				mkPf(handle())
				if err != nil {
					res.Viols = append(res.Viols, c13Viol{fmt.Sprintf("C10:%s:history:rejects-after-encoding", sys.name),
						fmt.Sprintf("the wire parts of an honest proof cannot be parsed back: %v [%s]", err, ctxs(n, st))})
					return
				}
			default:
				res.Inconcl = "unknown handle discipline " + st.Hd
				return
			}
			if st.Stm == "slot" {
				res.Slot++
				if slots[k] == nil {
					s := &hStmt{}
					for range stv.Ints {
						s.Ints = append(s.Ints, new(big.Int))
					}
					for range stv.Pts {
						s.Pts = append(s.Pts, new(crypto.ECPoint))
					}
					if len(s.Ints) > 0 {
						s.Pk = &paillier.PublicKey{N: s.Ints[0]}
					}
					slots[k] = s
				}
				s := slots[k]
				for i, x := range stv.Ints {
					s.Ints[i].Set(x)
				}
				for i, p := range stv.Pts {
					*s.Pts[i] = *crypto.NewECPointNoCurveCheck(p.Curve(), p.X(), p.Y())
				}
				s.Ec = stv.Ec
				stv = *s
			}
			used := emu.session(buf)
			stu := emu.statement(stv)
			out, pan := pcGuard(func() bool { return sys.verify(pf, used, stu) })
			if out == "acc" && !emu.handlesOK(sys, stv, pf) {
				out = "rej"
			}
			res.Outs = append(res.Outs, out)
			res.Verifies++
			if emu != nil {
				if want := st.Out[emu.v]; want != out {
					res.EmuDiff = append(res.EmuDiff, fmt.Sprintf("call %d: the model predicts %q for variant %s, the emulation around the real code gives %q", n+1, want, emu.v, out))
				}
				continue
			}
			if !bytes.Equal(buf, it.sess) {
				res.Drift = append(res.Drift, fmt.Sprintf("the verifier wrote into the caller's session buffer [%s]", ctxs(n, st)))
			}
			if st.Out["code"] != "acc" {
				res.Inconcl = "the model does not predict acc for the code as read"
				return
			}
			// which of the model's defect variants reject this very call (diagnosis only)
			var like []string
			for _, v := range hVariants {
				if st.Out[v] == "rej" {
					like = append(like, v)
				}
			}
			cvn := "-"
			if cv == pcEd {
				cvn = "ed25519"
			} else if cv != nil {
				cvn = "secp256k1"
			}
			diag := fmt.Sprintf("%s; curve %s; defect variants of ProofsHist.tla that reject this call: %v", ctxs(n, st), cvn, like)
			switch out {
			case "acc":
			case "panic":
				res.Viols = append(res.Viols, c13Viol{fmt.Sprintf("C10:%s:history:verify-panics", sys.name),
					fmt.Sprintf("Verify panics on an honest proof of a true statement under the session it was made for [%s]: %s", diag, core.Short(pan, 160))})
				return
			default:
				res.Viols = append(res.Viols, c13Viol{fmt.Sprintf("C10:%s:history:verify-rejects", sys.name),
					fmt.Sprintf("Verify returns false on an honest proof of a true statement under the session it was made for [%s]", diag)})
				return
			}
		default:
			res.Inconcl = "unknown operation " + st.Op
			return
		}
	}
	if len(h.Remote) != len(items) {
		res.Inconcl = "the history does not say what the remote verifier does with every item"
		return
	}
	if emu == nil {
		for _, it := range items {
			res.Exports = append(res.Exports, hExportItem(it))
		}
		return
	}
	// self test: the remote verifier under the same emulated variant, with hidden state of its own
	remu := &hEmu{v: emu.v, w: emu.w}
	for i, it := range items {
		out, detail := hRemoteVerify(hExportItem(it), remu)
		res.Remote = append(res.Remote, out)
		if want := h.Remote[i][emu.v]; want != out {
			res.EmuDiff = append(res.EmuDiff, fmt.Sprintf("remote verifier, item %d: the model predicts %q for variant %s, the emulation around the real code gives %q %s", i+1, want, emu.v, out, detail))
		}
	}
	return
}

// ------------------------------------------------------------------ one row of the handle catalogue

func c10HandleRun(sc c10HistScenario, keys []eckg.LocalPartySaveData, res *c10HistResult) {
	row := sc.Row
	sys := hSystems[row.Sys]
	if row == nil || sys == nil || len(row.Asg) != len(row.Roles) || sc.I >= len(keys) || sc.J >= len(keys) {
		res.Inconcl = "malformed handle row"
		return
	}
	cv := c10Curve(row.Curve)
	env := &hEnv{A: keys[sc.I], B: keys[sc.J], N: int(sc.Seed & 7)}
	rng := rand.New(rand.NewSource(sc.Seed))
	lib := pump.NewDRBG(sc.Seed ^ 0xc10b)
	sess := hSessBytes([]int{1, 2}, 16, false)
	ctxs := fmt.Sprintf("%s on %s, handles by role: %s", row.Sys, row.Curve, hAsgText(row))
	var st hStmt
	var wit, pf any
	var err error
	if pan := pcCall(func() { st, wit, err = sys.build(env, cv, rng, lib) }); pan != "" || err != nil {
		res.Inconcl = fmt.Sprintf("could not build a true statement: %v %s", err, pan)
		return
	}
	if pan := pcCall(func() { pf, err = sys.prove(sess, st, wit, lib) }); pan != "" || err != nil || pf == nil {
		res.Drift = append(res.Drift, fmt.Sprintf("the prover produced no proof [%s]: err=%v panic=%q", ctxs, err, core.Short(pan, 120)))
		return
	}
	res.Proves++
	if out, pan := pcGuard(func() bool { return sys.verify(pf, sess, st) }); out != "acc" {
		res.Viols = append(res.Viols, c13Viol{fmt.Sprintf("C10:%s:handles:verify-%s-in-memory", row.Sys, out),
			fmt.Sprintf("Verify does not accept an honest proof (in memory) [%s] %s", ctxs, core.Short(pan, 120))})
		return
	}
	res.Verifies++
	var wire [][]byte
	if pan := pcCall(func() { wire, err = sys.toWire(pf, cv) }); pan != "" || err != nil {
		res.Viols = append(res.Viols, c13Viol{fmt.Sprintf("C10:%s:handles:rejects-after-encoding", row.Sys),
			fmt.Sprintf("an honest proof cannot be put on the wire and read back: %v %s [%s]", err, core.Short(pan, 120), ctxs)})
		return
	}
	// ---- the handle object of every role
	param := hFresh(cv)
	handles := make([]elliptic.Curve, len(row.Roles))
	for i, o := range row.Asg {
		switch o {
		case "prover":
			handles[i] = st.Ec
		case "param":
			handles[i] = param
		case "fresh":
			handles[i] = hFresh(cv)
		case "reg":
			if handles[i], err = hReg(cv); err != nil {
				res.Inconcl = err.Error()
				return
			}
		default:
			res.Inconcl = "unknown origin " + o
			return
		}
	}
	stv := hStmt{Ec: st.Ec}
	for _, x := range st.Ints {
		stv.Ints = append(stv.Ints, hIntCopy(x))
	}
	restore := func(p *crypto.ECPoint, i int) (*crypto.ECPoint, error) {
		switch row.Asg[i] {
		case "prover":
			return p, nil // the prover's object itself
		case "reg":
			return hPointJSON(p)
		}
		return hPointWith(p, handles[i])
	}
	parseEc := st.Ec
	ptRole := 0
	for i, role := range row.Roles {
		switch role {
		case "ec":
			stv.Ec = handles[i]
		case "alpha", "U":
			parseEc = handles[i]
		default: // statement points in the order of the statement
			if ptRole >= len(st.Pts) {
				res.Inconcl = "the row names more statement points than the system has"
				return
			}
			q, err := restore(st.Pts[ptRole], i)
			if err != nil {
				res.Viols = append(res.Viols, c13Viol{fmt.Sprintf("C10:%s:handles:statement-not-restored", row.Sys),
					fmt.Sprintf("a statement point of an honest proof cannot be restored from its encoding: %v [%s]", err, ctxs)})
				return
			}
			stv.Pts = append(stv.Pts, q)
			handles[i] = q.Curve()
			ptRole++
		}
	}
	if ptRole != len(st.Pts) {
		res.Inconcl = "the row does not name every statement point"
		return
	}
	var pf2 any
	if pan := pcCall(func() { pf2, err = sys.fromWire(wire, parseEc) }); pan != "" || err != nil {
		res.Viols = append(res.Viols, c13Viol{fmt.Sprintf("C10:%s:handles:rejects-after-encoding", row.Sys),
			fmt.Sprintf("the wire parts of an honest proof cannot be parsed back: %v %s [%s]", err, core.Short(pan, 120), ctxs)})
		return
	}
	// what the model says about the identity of the handles, observed on the real objects
	if sys.pfCurves != nil {
		for i, role := range row.Roles {
			if role == "alpha" || role == "U" {
				handles[i] = sys.pfCurves(pf2)[0]
			}
		}
	}
	for i := range handles {
		for j := i + 1; j < len(handles); j++ {
			if handles[i] != handles[j] {
				res.Distinct = append(res.Distinct, [2]int{i + 1, j + 1})
			}
		}
	}
	res.Wire++
	out, pan := pcGuard(func() bool { return sys.verify(pf2, sess, stv) })
	res.Verifies++
	res.Outs = append(res.Outs, out)
	switch out {
	case "acc":
	case "panic":
		res.Viols = append(res.Viols, c13Viol{fmt.Sprintf("C10:%s:handles:verify-panics-after-encoding:%s", row.Sys, row.Curve),
			fmt.Sprintf("Verify panics on an honest proof after the wire round trip [%s]: %s", ctxs, core.Short(pan, 160))})
	default:
		res.Viols = append(res.Viols, c13Viol{fmt.Sprintf("C10:%s:handles:verify-rejects-after-encoding:%s", row.Sys, row.Curve),
			fmt.Sprintf("Verify returns false on an honest proof after the wire round trip, statement and proof restored from their encodings [%s]", ctxs)})
	}
}

func hAsgText(r *hRow) string {
	var s []string
	for i := range r.Roles {
		s = append(s, r.Roles[i]+"="+r.Asg[i])
	}
	return strings.Join(s, " ")
}

// ------------------------------------------------------------------ child processes

type hWorkerJob struct {
	Run   []c10HistScenario `json:"run,omitempty"`
	Sweep [][]hExport       `json:"sweep,omitempty"` // per history: its items
}

type hWorkerOut struct {
	Run   []c10HistResult `json:"run,omitempty"`
	Sweep [][][2]string   `json:"sweep,omitempty"` // per history, per item: outcome, detail
}

func c10HistWorker(args []string) int {
	keys, err := pump.LoadEcFixtures(5)
	return sandbox.ChildMain(args, func(p json.RawMessage) (any, error) {
		if err != nil {
			return nil, fmt.Errorf("cannot load the vendored parameter sets: %v", err)
		}
		var job hWorkerJob
		if err := json.Unmarshal(p, &job); err != nil {
			return nil, err
		}
		var out hWorkerOut
		for _, sc := range job.Run {
			r := c10HistRun(sc, keys)
			r.Sc = c10HistScenario{} // the parent has it
			out.Run = append(out.Run, r)
		}
		for _, items := range job.Sweep {
			var rs [][2]string
			for _, e := range items {
				o, d := hRemoteVerify(e, nil)
				rs = append(rs, [2]string{o, d})
			}
			out.Sweep = append(out.Sweep, rs)
		}
		return out, nil
	})
}

// c10HistRunAll runs the batches in child processes (one process per batch chunk, sequential inside).
func c10HistRunAll(batches [][]c10HistScenario, parallel int) ([][]c10HistResult, error) {
	run := func(jobs []hWorkerJob) ([]hWorkerOut, error) {
		cases := make([]sandbox.Case, len(jobs))
		for i, j := range jobs {
			bz, _ := json.Marshal(j)
			cases[i] = sandbox.Case{ID: fmt.Sprintf("batch-%03d", i), Payload: bz}
		}
		rs, err := sandbox.Run("c10-hist-worker", cases, parallel, 45*time.Minute) // one case = one batch
		if err != nil {
			return nil, err
		}
		outs := make([]hWorkerOut, len(jobs))
		for i, r := range rs {
			if r.Status != "ok" {
				return nil, fmt.Errorf("history batch %d: child process status %s: %s", i, r.Status, core.Short(r.Detail, 400))
			}
			if err := json.Unmarshal(r.Output, &outs[i]); err != nil {
				return nil, err
			}
		}
		return outs, nil
	}
	jobs := make([]hWorkerJob, len(batches))
	for i, b := range batches {
		jobs[i].Run = b
	}
	outs, err := run(jobs)
	if err != nil {
		return nil, err
	}
	out := make([][]c10HistResult, len(batches))
	sweeps := make([]hWorkerJob, len(batches))
	for i := range outs {
		out[i] = outs[i].Run
		if len(out[i]) != len(batches[i]) {
			return nil, fmt.Errorf("history batch %d: %d results for %d scenarios", i, len(out[i]), len(batches[i]))
		}
		for j := range out[i] {
			out[i][j].Sc = batches[i][j]
			sweeps[i].Sweep = append(sweeps[i].Sweep, out[i][j].Exports)
			out[i][j].Exports = nil
		}
	}
	// the remote verifier: other processes, the items of a batch in the order in which they came into being
	souts, err := run(sweeps)
	if err != nil {
		return nil, err
	}
	for i := range souts {
		if len(souts[i].Sweep) != len(out[i]) {
			return nil, fmt.Errorf("remote verifier of batch %d: %d results for %d histories", i, len(souts[i].Sweep), len(out[i]))
		}
		for j, rs := range souts[i].Sweep {
			r := &out[i][j]
			if r.Sc.Type != "history" || r.Inconcl != "" || len(r.Viols) > 0 || len(r.Drift) > 0 {
				continue
			}
			items := hItemsOf(r.Sc.Hist)
			if len(rs) != len(items) {
				r.Inconcl = fmt.Sprintf("the remote verifier returned %d results for %d items", len(rs), len(items))
				continue
			}
			for n, od := range rs {
				r.Remote = append(r.Remote, od[0])
				sysName := r.Sc.Sys[items[n].Kind-1]
				diag := fmt.Sprintf("item %d (%s, proved at call %d of a %s history on %s, session of %d bytes in buffer %d (%s)) handed to a verifier in another process - statement, proof and session restored from their bytes %s",
					n+1, sysName, items[n].Call, r.Sc.Src, strings.Join(r.Sc.Sys, "+"), len(items[n].Step.Sess)*r.Sc.W, items[n].Step.Buf, items[n].Step.How, core.Short(od[1], 160))
				switch od[0] {
				case "acc":
				case "inconcl":
					r.Inconcl = "remote verifier: " + od[1]
				case "panic":
					r.Viols = append(r.Viols, c13Viol{fmt.Sprintf("C10:%s:history:remote-verifier-panics", sysName), "Verify panics on an honest proof under the session it was made for: " + diag})
				default:
					r.Viols = append(r.Viols, c13Viol{fmt.Sprintf("C10:%s:history:remote-verifier-rejects", sysName), "Verify returns false on an honest proof under the session it was made for: " + diag})
				}
				if od[0] != "acc" {
					break
				}
			}
		}
	}
	return out, nil
}

type hItemRef struct {
	Call int
	Kind int
	Step hStep
}

// hBrief: a history in one line
func hBrief(h *hHist) string {
	var out []string
	for _, st := range h.Steps {
		if st.Op == "prove" {
			out = append(out, fmt.Sprintf("prove#%d(kind %d, buf %d %s, sess %v)", st.Item, st.Kind, st.Buf, st.How, st.Sess))
		} else {
			out = append(out, fmt.Sprintf("verify#%d(buf %d %s, stm %s, recv %s)", st.Item, st.Buf, st.How, st.Stm, st.Hd))
		}
	}
	return strings.Join(out, " ")
}

func hItemsOf(h *hHist) []hItemRef {
	var out []hItemRef
	for n, st := range h.Steps {
		if st.Op == "prove" {
			out = append(out, hItemRef{Call: n + 1, Kind: st.Kind, Step: st})
		}
	}
	return out
}

// ------------------------------------------------------------------ plan

type hPlan struct {
	Batches  [][]c10HistScenario
	SelfTest []c10HistScenario
	Notes    []string
}

func hCompat(tg bool, cv string) []string {
	var out []string
	pool := hUntagged
	if tg {
		pool = hTagged
	}
	for _, n := range pool {
		s := hSystems[n]
		if s.curves[0] == "-" || cv == "single" || len(s.curves) > 1 {
			out = append(out, n)
		}
	}
	return out
}

type hPlanner struct {
	ctx   *core.Ctx
	pairs [][2]int
	n     int
}

var hWidths = []struct {
	W    int
	Lead bool
}{{16, false}, {1, false}, {33, true}, {800, false}, {33, false}, {800, true}}

func (p *hPlanner) mk(h *hHist, src string, sys []string, emu string) c10HistScenario {
	pr := p.pairs[(p.n*7+int(p.ctx.Seed))%len(p.pairs)]
	p.n++
	return c10HistScenario{Type: "history", Hist: h, Src: src, Sys: sys, W: hWidths[p.n%len(hWidths)].W, Lead: hWidths[p.n%len(hWidths)].Lead, I: pr[0], J: pr[1], Seed: p.ctx.Seed*1000003 + int64(p.n)*13 + 5, Emu: emu}
}

func hSpread(par int, lists ...[]c10HistScenario) [][]c10HistScenario {
	spread := make([][]c10HistScenario, par)
	i := 0
	for _, l := range lists {
		for _, sc := range l {
			spread[i%par] = append(spread[i%par], sc)
			i++
		}
	}
	var out [][]c10HistScenario
	for _, b := range spread {
		if len(b) > 0 {
			out = append(out, b)
		}
	}
	return out
}

// c10PlanSim: the simulated histories: kinds -> systems by their attributes, rotating; the histories on the cheap
// systems run in ONE child process, the others are spread over par - 1 processes
func c10PlanSim(ctx *core.Ctx, sim []hHist, par int) (hPlan, error) {
	var pl hPlan
	pp := &hPlanner{ctx: ctx, pairs: c13Pairs(), n: 5000}
	var cheap, costly []c10HistScenario
	nsim := ctx.Pick(90, 900)
	if nsim > len(sim) {
		nsim = len(sim)
	}
	for i := 0; i < nsim; i++ {
		h := &sim[i]
		sys := make([]string, len(h.Kinds))
		costlyOne := false
		for k, kd := range h.Kinds {
			c := hCompat(kd.Tg, kd.Cv)
			if len(c) == 0 {
				return pl, fmt.Errorf("no system for kind %+v", kd)
			}
			// two of three simulated histories stay on the cheap systems where there is a choice
			if i%3 != 0 {
				var cc []string
				for _, x := range c {
					if hCheap[x] || x == "pai" {
						cc = append(cc, x)
					}
				}
				if len(cc) > 0 {
					c = cc
				}
			}
			sys[k] = c[(i/3+k*2+int(ctx.Seed))%len(c)]
			if !hCheap[sys[k]] {
				costlyOne = true
			}
		}
		sc := pp.mk(h, "simulated", sys, "")
		if costlyOne {
			costly = append(costly, sc)
		} else {
			cheap = append(cheap, sc)
		}
	}
	if len(cheap) > 0 {
		pl.Batches = append(pl.Batches, cheap)
	}
	pl.Batches = append(pl.Batches, hSpread(par-1, costly)...)
	return pl, nil
}

// c10PlanMC: the directed histories (every tagged system x every defect variant), the handle catalogue, the self test
func c10PlanMC(ctx *core.Ctx, mc hMCOut, par int) (hPlan, error) {
	var pl hPlan
	rng := rand.New(rand.NewSource(ctx.Seed*7907 + 1010))
	pp := &hPlanner{ctx: ctx, pairs: c13Pairs()}
	byVar := map[string][]int{}
	for i := range mc.Directed {
		for _, v := range mc.Directed[i].Exposes {
			byVar[v] = append(byVar[v], i)
		}
	}
	for _, v := range hVariants {
		if len(byVar[v]) == 0 {
			return pl, fmt.Errorf("no directed history exposes variant %s", v)
		}
	}
	var cheap, costly []c10HistScenario
	for _, name := range hTagged {
		for _, v := range hVariants {
			per := ctx.Pick(1, 6)
			if hCheap[name] {
				per = ctx.Pick(8, 60)
			} else if v == "stmt" || v == "prefix" {
				per = ctx.Pick(2, 8) // the classes with the narrowest histories
			}
			for r := 0; r < per; r++ {
				h := &mc.Directed[byVar[v][rng.Intn(len(byVar[v]))]]
				sc := pp.mk(h, "directed", []string{name}, "")
				if hCheap[name] {
					cheap = append(cheap, sc)
				} else {
					costly = append(costly, sc)
				}
			}
		}
	}
	// handle rows: all of them; in the quick tier 14 of the 64 per curve for Bob's proof with check, every pair of roles separated
	var rows []c10HistScenario
	perSys := map[string]int{}
	covered := map[string]bool{}
	for _, i := range rng.Perm(len(mc.Rows)) {
		row := &mc.Rows[i]
		k := row.Sys + "|" + row.Curve
		limit := 1 << 30
		if !ctx.Thorough() && row.Sys == "bobwc" {
			limit = 14
		}
		newPair := false
		for _, d := range row.Distinct {
			if !covered[fmt.Sprint(k, d)] {
				newPair = true
			}
		}
		if perSys[k] >= limit && !newPair {
			continue
		}
		perSys[k]++
		for _, d := range row.Distinct {
			covered[fmt.Sprint(k, d)] = true
		}
		pr := pp.pairs[(pp.n*7+int(ctx.Seed))%len(pp.pairs)]
		pp.n++
		rows = append(rows, c10HistScenario{Type: "handles", Row: row, I: pr[0], J: pr[1], Seed: ctx.Seed*1000003 + int64(pp.n)*13 + 7})
	}
	var rowsCheap, rowsCostly []c10HistScenario
	for _, r := range rows {
		if hCheap[r.Row.Sys] {
			rowsCheap = append(rowsCheap, r)
		} else {
			rowsCostly = append(rowsCostly, r)
		}
	}
	pl.Batches = append(pl.Batches, append(cheap, rowsCheap...))
	pl.Batches = append(pl.Batches, hSpread(par-1, costly, rowsCostly)...)
	// self test: emulated variants around the Schnorr proof
	for _, v := range hVariants {
		for r := 0; r < 4; r++ {
			pl.SelfTest = append(pl.SelfTest, pp.mk(&mc.Directed[byVar[v][rng.Intn(len(byVar[v]))]], "directed", []string{"sch"}, v))
		}
	}
	return pl, nil
}

// c10PlanSelfSim: the simulated histories all of whose kinds take a session, on the Schnorr proof, under every emulated variant
func c10PlanSelfSim(ctx *core.Ctx, sim []hHist) []c10HistScenario {
	pp := &hPlanner{ctx: ctx, pairs: c13Pairs(), n: 9000}
	var out []c10HistScenario
	for _, v := range hVariants {
		cnt := 0
		for i := range sim {
			h := &sim[i]
			ok := true
			for _, kd := range h.Kinds {
				ok = ok && kd.Tg
			}
			if !ok {
				continue
			}
			sys := make([]string, len(h.Kinds))
			for k := range sys {
				sys[k] = "sch"
			}
			out = append(out, pp.mk(h, "simulated", sys, v))
			if cnt++; cnt >= 4 {
				break
			}
		}
	}
	return out
}

// ------------------------------------------------------------------ the phase as C10 runs it

type hPhase struct {
	MC       hMCOut
	SimRes   tlc.Result
	Sim      []hHist
	Plan     hPlan
	Results  [][]c10HistResult
	SelfTest []c10HistResult
	Wall     float64
	Err      error
}

func c10HistPhase(ctx *core.Ctx, keys []eckg.LocalPartySaveData) *hPhase {
	ph := &hPhase{}
	t0 := time.Now()
	defer func() { ph.Wall = time.Since(t0).Seconds() }()
	par := pcWorkers() / 2
	if par < 2 {
		par = 2
	}
	// pipeline 1: random histories (-simulate) -> child processes
	var simErr error
	var simPlan hPlan
	var simResults [][]c10HistResult
	done := make(chan struct{})
	go func() {
		defer close(done)
		if ph.Sim, ph.SimRes, simErr = c10HistSim(ctx.Seed*131+10, ctx.Pick(100, 1000), 7); simErr != nil {
			simErr = fmt.Errorf("ProofsHist.tla (-simulate): %v", simErr)
			return
		}
		if simPlan, simErr = c10PlanSim(ctx, ph.Sim, par); simErr != nil {
			return
		}
		simResults, simErr = c10HistRunAll(simPlan.Batches, par)
	}()
	// pipeline 2: exhaustive run -> directed histories, handle catalogue -> child processes
	var err error
	ph.MC, err = c10HistMC(ctx.Thorough())
	if err == nil {
		ph.Plan, err = c10PlanMC(ctx, ph.MC, par)
	} else {
		err = fmt.Errorf("ProofsHist.tla (exhaustive): %v", err)
	}
	if err == nil {
		ph.Results, err = c10HistRunAll(ph.Plan.Batches, par)
	}
	<-done
	if ph.MC.WideDone != nil {
		if e := <-ph.MC.WideDone; e != nil && err == nil {
			err = fmt.Errorf("ProofsHist.tla (exhaustive, two buffers): %v", e)
		}
	}
	if err == nil {
		err = simErr
	}
	if err != nil {
		ph.Err = err
		return ph
	}
	ph.Plan.Batches = append(ph.Plan.Batches, simPlan.Batches...)
	ph.Results = append(ph.Results, simResults...)
	ph.Plan.SelfTest = append(ph.Plan.SelfTest, c10PlanSelfSim(ctx, ph.Sim)...)
	// self test in this process (the emulation's state is the harness's own)
	ph.SelfTest = make([]c10HistResult, len(ph.Plan.SelfTest))
	sem := make(chan struct{}, pcWorkers())
	fin := make(chan int)
	for i := range ph.Plan.SelfTest {
		go func(i int) {
			sem <- struct{}{}
			ph.SelfTest[i] = c10HistRun(ph.Plan.SelfTest[i], keys)
			<-sem
			fin <- i
		}(i)
	}
	for range ph.Plan.SelfTest {
		<-fin
	}
	return ph
}

// c10HistJudge reports the violations of the phase, records its coverage; a non-nil error is inconclusive.
func c10HistJudge(ctx *core.Ctx, cov *core.Cov, ph *hPhase) error {
	if ph.Err != nil {
		return core.Inconcl("call histories / handle catalogue: %v", ph.Err)
	}
	for _, v := range ph.MC.Variants {
		if (v.Variant == "code") == v.Exposed {
			return core.Inconcl("ProofsHist.tla: variant %s exposed=%v in the exhaustive run", v.Variant, v.Exposed)
		}
	}
	cov.AddMC(ph.MC.Res.Distinct, ph.MC.Res.Generated)
	if ph.MC.Wide != nil {
		cov.AddMC(ph.MC.Wide.Distinct, ph.MC.Wide.Generated)
		cov.Set("hist_mc_two_buffers", map[string]any{"distinct": ph.MC.Wide.Distinct, "generated": ph.MC.Wide.Generated, "wall_s": ph.MC.Wide.Wall})
	}
	bySrc := map[string]int{}
	bySys := map[string]int{}
	byFeat := map[string]int{}
	expo := map[string]int{}
	var proves, verifies, inplace, slot, wire, drifts, handleRows, handleDrift int
	cpu := 0.0
	cpuBy := map[string]float64{}
	sampled := map[string]bool{}
	for _, batch := range ph.Results {
		for i := range batch {
			r := &batch[i]
			if r.Inconcl != "" {
				return core.Inconcl("scenario %s could not be replayed: %s", r.Sc.key(), r.Inconcl)
			}
			for _, v := range r.Viols {
				ctx.Report(v.Key, v.What, r.Sc)
			}
			cov.Case(r.Sc.key(), true)
			proves += r.Proves
			cpu += r.CPU
			if r.Sc.Type == "handles" {
				cpuBy["handles/"+r.Sc.Row.Sys] += r.CPU
			} else {
				cpuBy[r.Sc.Src+"/"+strings.Join(r.Sc.Sys, "+")] += r.CPU
			}
			verifies += r.Verifies
			inplace += r.InPlace
			slot += r.Slot
			wire += r.Wire
			if len(r.Drift) > 0 {
				drifts++
				ctx.Note("drift: scenario %s: %s", r.Sc.key(), strings.Join(r.Drift, "; "))
			}
			if r.Sc.Type == "handles" {
				handleRows++
				bySys["handles/"+r.Sc.Row.Sys+"/"+r.Sc.Row.Curve]++
				if len(r.Viols) == 0 && len(r.Drift) == 0 && pcJSON(r.Distinct) != pcJSON(r.Sc.Row.Distinct) && !(len(r.Distinct) == 0 && len(r.Sc.Row.Distinct) == 0) {
					handleDrift++
					ctx.Note("drift: handle row %s: the model says the role pairs %v carry different handle objects, the real objects: %v", r.Sc.key(), r.Sc.Row.Distinct, r.Distinct)
				}
				continue
			}
			bySrc[r.Sc.Src]++
			for _, s := range r.Sc.Sys {
				bySys["history/"+s]++
			}
			for _, e := range r.Sc.Hist.Exposes {
				expo[e]++
			}
			for _, st := range r.Sc.Hist.Steps {
				if st.Op == "verify" {
					byFeat[fmt.Sprintf("buf=%s,stm=%s,recv=%s", st.How, st.Stm, st.Hd)]++
				}
			}
			if k := r.Sc.Src + strings.Join(r.Sc.Sys, "+"); !sampled[k] && len(sampled) < 6 {
				sampled[k] = true
				cov.Sample(map[string]any{"history_scenario": r.Sc.key(), "calls": hBrief(r.Sc.Hist), "kinds": r.Sc.Hist.Kinds, "exposes_variants": r.Sc.Hist.Exposes, "outcomes": r.Outs, "remote_verifier": r.Remote, "seconds": r.Seconds}, 16)
			}
		}
	}
	// the self test: model's prediction for every variant = emulation around the real code
	rejSeen := map[string]int{}
	stSteps := 0
	for i := range ph.SelfTest {
		r := &ph.SelfTest[i]
		bad := r.Inconcl
		if bad == "" && len(r.EmuDiff) > 0 {
			bad = strings.Join(r.EmuDiff, "; ")
		}
		if bad == "" && len(r.Drift) > 0 {
			bad = strings.Join(r.Drift, "; ")
		}
		if bad != "" {
			if len(ctx.Violations()) == 0 {
				return core.Inconcl("self test of the history binding (variant %s emulated around the real Schnorr proof, %s): %s", r.Sc.Emu, r.Sc.key(), bad)
			}
			ctx.Note("self test of the history binding disagrees with the model (variant %s): consistent with the violation(s) reported above", r.Sc.Emu)
			continue
		}
		stSteps += r.Verifies + len(r.Remote)
		for _, o := range append(append([]string{}, r.Outs...), r.Remote...) {
			if o == "rej" {
				rejSeen[r.Sc.Emu]++
			}
		}
	}
	if len(ctx.Violations()) == 0 {
		for _, v := range hVariants {
			if rejSeen[v] == 0 {
				return core.Inconcl("self test: the emulation of variant %s around the real code was never rejected - the replay would not notice that class", v)
			}
		}
	}
	cov.AddTraces(len(ph.SelfTest))
	cov.Set("hist_mc", map[string]any{"bounds": ph.MC.Bounds, "distinct": ph.MC.Res.Distinct, "generated": ph.MC.Res.Generated, "wall_s": ph.MC.Res.Wall,
		"variants": ph.MC.Variants, "directed_histories_printed": len(ph.MC.Directed), "handle_rows_printed": len(ph.MC.Rows)})
	cov.Set("hist_simulated_printed", len(ph.Sim))
	cov.Set("hist_simulate_tlc_wall_s", ph.SimRes.Wall)
	cov.Set("hist_replayed_by_source", bySrc)
	cov.Set("hist_replayed_exposing_variant", expo)
	cov.Set("hist_scenarios_by_system", bySys)
	cov.Set("hist_verify_steps_by_discipline", byFeat)
	cov.Set("hist_prove_calls", proves)
	cov.Set("hist_verify_calls", verifies)
	cov.Set("hist_calls_with_buffer_rewritten_in_place", inplace)
	cov.Set("hist_verifications_with_statement_slot", slot)
	cov.Set("hist_verifications_of_restored_objects", wire)
	cov.Set("hist_drift_scenarios", drifts)
	cov.Set("handle_rows_replayed", handleRows)
	cov.Set("handle_rows_identity_drift", handleDrift)
	cov.Set("hist_child_processes", len(ph.Plan.Batches))
	cov.Set("hist_selftest_scenarios", len(ph.SelfTest))
	cov.Set("hist_selftest_verify_steps_agreeing", stSteps)
	cov.Set("hist_selftest_rejections_by_variant", rejSeen)
	cov.Set("hist_phase_wall_s", ph.Wall)
	cov.Set("hist_replay_cpu_s", cpu)
	cov.Set("hist_replay_cpu_s_by_kind", cpuBy)
	return nil
}
