package props

// C11 - verifiers reject proofs of false statements and out-of-range secrets.
//
// Design level : spec/ProofGuards.tla - (1) guard classification over simulated transcripts: every guard of the nine
//                verifiers is necessary (violated alone by a transcript that satisfies every equation) or redundant, as
//                tabulated; (2) the false-statement families of the property: the prover's algorithm on a witness that does
//                not fit is rejected for every non-degenerate challenge, and the number theory behind the modulus proofs
//                holds on the whole toy domain; (3) the family catalogue.
// Catalogue (B): every family row x size is built at REAL size (vendored parameter sets, crafted 2048 bit moduli) and the
//                LIBRARY'S OWN PROVER is run on it (or, where the row says "built", the prover's algorithm with coins
//                outside their range, so that every equation holds and one bound fails). Vacuity is measured on every
//                transcript with the harness's transcription of the verifier (which guards / equations fail).
// Binding (C)  : toy-sized false statements, built and simulated transcripts (ground against the hash so that a single
//                guard fails) are presented to the REAL verifiers; spec/Proofs_Trace.tla must explain every line.
// Verdict      : the real Verify returns false (an acceptance or a panic is a violation); Paillier operations return an
//                error for out-of-domain values.

import (
	"fmt"
	"io"
	"math/big"
	"math/rand"
	"sort"
	"strings"
	"sync"
	"time"

	"github.com/bnb-chain/tss-lib/v2/crypto"
	"github.com/bnb-chain/tss-lib/v2/crypto/dlnproof"
	"github.com/bnb-chain/tss-lib/v2/crypto/facproof"
	"github.com/bnb-chain/tss-lib/v2/crypto/modproof"
	"github.com/bnb-chain/tss-lib/v2/crypto/mta"
	"github.com/bnb-chain/tss-lib/v2/crypto/paillier"
	"github.com/bnb-chain/tss-lib/v2/crypto/schnorr"
	eckg "github.com/bnb-chain/tss-lib/v2/ecdsa/keygen"

	"verif/harness/core"
	"verif/harness/obs"
	"verif/harness/pump"
	"verif/harness/tlc"
)

func init() { Registry["C11"] = C11 }

type c11Row struct {
	Sys    string   `json:"sys"`
	Family string   `json:"family"`
	Trips  string   `json:"trips"`
	Prover string   `json:"prover"`
	Sizes  []string `json:"sizes"`
}

type c11Scenario struct {
	Sys    string `json:"sys"`
	Family string `json:"family"`
	Trips  string `json:"trips"`
	Prover string `json:"prover"`
	Size   string `json:"size"`
	Curve  string `json:"curve"`
	I      int    `json:"i"`
	J      int    `json:"j"`
	Seed   int64  `json:"seed"`
	Hist   string `json:"hist,omitempty"` // "" (empty history) | same | partial | collide: the kind of history the transcript is presented after
}

func (s c11Scenario) key() string {
	k := fmt.Sprintf("%s|%s|%s|%s|%d,%d", s.Sys, s.Family, s.Size, s.Curve, s.I, s.J)
	if s.Hist != "" {
		k += "|after:" + s.Hist
	}
	return k
}

type c11Result struct {
	Sc       c11Scenario
	Viols    []c13Viol
	Inconcl  string
	Real     string   // acc | rej | panic | no-proof
	Failing  []string // what the twin says fails
	Exact    bool     // the twin: exactly the guard / equation named by the catalogue fails
	Hit      bool     // ... fails (possibly with others)
	NoProof  string   // the prover produced nothing (its own panic / error): nothing to present
	Notes    []string
	Seconds  float64
	Demanded bool
	// histories (ProofHistory.tla)
	Accepted    []string // the genuine transcripts the real verifier accepted before the presentation
	Established bool     // every genuine transcript was accepted and the measured relation is the one the row names
	Rel         string   // relation of the presented transcript to the accepted ones, measured on the byte strings
	SameCoins   bool     // the commitments of the presented transcript are those of an accepted one
	Replay      string   // collide: what the real verifier did with the accepted proof presented for the colliding statement
}

// ------------------------------------------------------------------ crafted moduli (cached per run)

type c11Moduli struct {
	mu    sync.Mutex
	rng   *rand.Rand
	bits  int
	cache map[string][]*big.Int
	trs   map[string]*pcTr // honest proofs (the provers of dln and mod take a second)
}

// honest returns (a copy of) an honest transcript, produced once per key
func (m *c11Moduli) honest(key string, mk func() *pcTr) *pcTr {
	m.mu.Lock()
	defer m.mu.Unlock()
	t, ok := m.trs[key]
	if !ok {
		t = mk()
		m.trs[key] = t
	}
	if t == nil {
		return nil
	}
	c := *t
	c.I = map[string]*big.Int{}
	for k, v := range t.I {
		c.I[k] = v
	}
	c.V = map[string][]*big.Int{}
	for k, v := range t.V {
		c.V[k] = append([]*big.Int{}, v...)
	}
	c.E, c.EV = nil, nil
	return &c
}

func (m *c11Moduli) get(name string, mk func(rng *rand.Rand) []*big.Int) []*big.Int {
	m.mu.Lock()
	defer m.mu.Unlock()
	if v, ok := m.cache[name]; ok {
		return v
	}
	v := mk(rand.New(rand.NewSource(m.rng.Int63())))
	m.cache[name] = v
	return v
}

func c11NotOneMod(ps ...int64) func(*big.Int) bool {
	return func(p *big.Int) bool {
		for _, s := range ps {
			if new(big.Int).Mod(p, pcB(s)).Cmp(pc1) == 0 {
				return false
			}
		}
		return true
	}
}

// ------------------------------------------------------------------ one real-size case

func c11Sess(rng *rand.Rand) []byte {
	switch rng.Intn(3) {
	case 0:
		return []byte{}
	case 1:
		return []byte("ssid")
	}
	return []byte(strings.Repeat("0123456789abcdef", 100))
}

func c11Run(sc c11Scenario, keys []eckg.LocalPartySaveData, mods *c11Moduli) (res c11Result) {
	t0 := time.Now()
	res.Sc = sc
	res.Demanded = true
	defer func() { res.Seconds = time.Since(t0).Seconds() }()
	rng := rand.New(rand.NewSource(sc.Seed))
	lib := pump.NewDRBG(sc.Seed ^ 0xc11)
	sess := c11Sess(rng)
	A, B := keys[sc.I], keys[sc.J]
	cv := c10Curve(sc.Curve)
	q := cv.q()
	q3, q7 := pcPow(q, 3), pcPow(q, 7)
	ctxs := fmt.Sprintf("%s / %s / size %s, curve %s, parameter sets %d,%d, session %d bytes", sc.Sys, sc.Family, sc.Size, sc.Curve, sc.I, sc.J, len(sess))

	// histories: libG feeds the genuine prover, libF the prover of the presented transcript - the same coins
	var libG io.Reader
	libF := io.Reader(lib)
	if sc.Hist != "" {
		libG, libF = pump.NewDRBG(sc.Seed^0x6e0), pump.NewDRBG(sc.Seed^0x6e0)
	}
	var accepted []*pcTr
	histBroken := ""
	// accept: a genuine transcript (the library's prover on a true statement with its witness) is verified first, in this process
	accept := func(g *pcTr, what string) {
		if sc.Hist == "" {
			return
		}
		if g == nil || !g.complete() {
			histBroken = "the genuine prover produced nothing for " + what
			return
		}
		if g.E == nil && g.EV == nil {
			g.challenge()
		}
		real, pan := g.realVerify()
		if real != "acc" {
			histBroken = fmt.Sprintf("the genuine proof (%s) was not accepted by the real verifier: %s %s (completeness is C10's matter)", what, real, core.Short(pan, 80))
			return
		}
		accepted = append(accepted, g)
		res.Accepted = append(res.Accepted, what)
	}
	histWhat := func() string {
		if sc.Hist == "" {
			return ""
		}
		return fmt.Sprintf(" AFTER it had accepted, in the same process, genuine proof(s) for: %s [history kind %q, measured relation %q, same coins: %v]", strings.Join(res.Accepted, "; "), sc.Hist, res.Rel, res.SameCoins)
	}
	histKey := func() string {
		if sc.Hist == "" {
			return ""
		}
		return "-after-history:" + sc.Hist
	}
	// present: the transcript goes to the real verifier; the twin measures what fails
	present := func(t *pcTr) {
		if sc.Hist != "" && t.complete() {
			if t.E == nil && t.EV == nil {
				t.challenge()
			}
			res.Rel = "unrelated"
			for _, g := range accepted {
				switch r := c11Rel(g, t); {
				case r == "same", r == "collide" && res.Rel != "same", r == "partial" && res.Rel == "unrelated":
					res.Rel = r
				}
				if c11SameBytes(c11Commit(g), c11Commit(t)) {
					res.SameCoins = true
				}
			}
			res.Established = histBroken == "" && len(accepted) > 0 && res.Rel == sc.Hist && (sc.Size != "same_commitments" || res.SameCoins)
			if histBroken != "" {
				res.Notes = append(res.Notes, "history not established: "+histBroken)
			} else if !res.Established {
				res.Notes = append(res.Notes, fmt.Sprintf("history not established: the relation measured is %q, the row names %q", res.Rel, sc.Hist))
			}
		}
		if !t.complete() {
			res.Real, res.NoProof = "no-proof", "the prover left parts nil"
			return
		}
		if t.E == nil && t.EV == nil {
			t.challenge()
		}
		v := t.vec()
		res.Failing = v.failing()
		for _, f := range res.Failing {
			if f == sc.Trips {
				res.Hit = true
			}
		}
		res.Exact = len(res.Failing) == 1 && res.Hit
		twin := t.outcome(v)
		real, pan := t.realVerify()
		res.Real = real
		key := fmt.Sprintf("C11:%s:%s", sc.Sys, sc.Family)
		switch real {
		case "acc":
			if twin == "acc" {
				res.Notes = append(res.Notes, "the transcript satisfies every guard and equation of the specification (degenerate challenge or a statement that is not false): accepted, not judged")
				res.Demanded = false
				return
			}
			res.Viols = append(res.Viols, c13Viol{key + ":accepted" + histKey(), fmt.Sprintf("the real verifier ACCEPTS a proof for a statement outside the language [%s]%s; the specification's guards/equations that fail on it: %v", ctxs, histWhat(), res.Failing)})
		case "panic":
			if twin == "panic" {
				res.Notes = append(res.Notes, "challenge 0: the verifier multiplies a point by 0 (predicted by the specification)")
				res.Demanded = false
				return
			}
			res.Viols = append(res.Viols, c13Viol{key + ":panic" + histKey(), fmt.Sprintf("the real verifier PANICS instead of rejecting [%s]%s: %s", ctxs, histWhat(), core.Short(pan, 200))})
		default:
			if twin != "rej" {
				res.Notes = append(res.Notes, "twin says "+twin+" but the real verifier rejects (recorded as drift)")
			}
		}
	}
	noProof := func(err error, pan string) {
		res.Real = "no-proof"
		res.NoProof = fmt.Sprintf("err=%v panic=%s", err, core.Short(pan, 120))
	}
	pk := &A.PaillierSK.PublicKey
	bigSize := func(base *big.Int, limit *big.Int) *big.Int { // the size classes of a value beyond base
		var v *big.Int
		switch sc.Size {
		case "q3+1", "q7+1", "plus1":
			v = new(big.Int).Add(base, pc1)
		case "plus0":
			v = new(big.Int).Set(base)
		case "plus2":
			v = new(big.Int).Add(base, pc2)
		case "2q3", "2q7":
			v = new(big.Int).Lsh(base, 1)
		case "q4":
			v = new(big.Int).Mul(base, q)
		case "N-1":
			v = new(big.Int).Sub(limit, pc1)
		default: // far
			v = new(big.Int).Add(new(big.Int).Lsh(base, 64), pcRandBelow(rng, base))
		}
		if limit != nil && v.Cmp(limit) >= 0 {
			v = new(big.Int).Sub(limit, pc1)
		}
		return v
	}

	// genuine proofs for the vendored key of set A that share every other argument with the presented transcript
	acceptPai := func(k *big.Int) {
		if sc.Hist == "" {
			return
		}
		var pg paillier.Proof
		var g *pcTr
		if pan := pcCall(func() { pg = A.PaillierSK.Proof(k, A.ECDSAPub) }); pan == "" {
			g = pcNewTr("pai")
			g.Bound, g.PaiK, g.PaiPt = 1000, k, pcFromEC(A.ECDSAPub)
			g.I["N"] = A.PaillierSK.N
			g.fromPai(pg)
		}
		accept(g, "the vendored Paillier modulus with the same k and public key")
	}
	acceptMod := func() {
		if sc.Hist == "" {
			return
		}
		var pg *modproof.ProofMod
		var g *pcTr
		if pan := pcCall(func() { pg, _ = modproof.NewProof(sess, A.PaillierSK.N, A.PaillierSK.P, A.PaillierSK.Q, libG) }); pan == "" && pg != nil {
			g = pcNewTr("mod")
			g.Sess = sess
			g.I["N"] = A.PaillierSK.N
			g.fromMod(pg)
		}
		accept(g, "the vendored Paillier-Blum modulus with the same session")
	}
	acceptFac := func() {
		if sc.Hist == "" {
			return
		}
		var pg *facproof.ProofFac
		var g *pcTr
		sk := A.PaillierSK
		if pan := pcCall(func() { pg, _ = facproof.NewProof(sess, cv.Ec, sk.N, B.NTildei, B.H1i, B.H2i, sk.P, sk.Q, libG) }); pan == "" && pg != nil {
			g = pcNewTr("fac")
			g.Cv, g.Sess = cv, sess
			g.I["N0"], g.I["NC"], g.I["s"], g.I["t"] = sk.N, B.NTildei, B.H1i, B.H2i
			g.fromFac(pg)
		}
		accept(g, "the vendored balanced modulus with the same session and ring-Pedersen parameters")
	}
	// size "same_commitments" (histories): coins beyond their range that reproduce the commitments of a genuine run of the
	// prover's algorithm. shiftH2(e, M): the exponent of h2 that compensates M more in the exponent of h1 (h1 = h2^Beta).
	pqB := new(big.Int).Mul(B.P, B.Q)
	shiftH2 := func(e, M *big.Int) *big.Int {
		v := new(big.Int).Sub(e, new(big.Int).Mul(M, B.Beta))
		return v.Mod(v, pqB)
	}
	sameCommit := sc.Hist != "" && sc.Size == "same_commitments"
	if sameCommit && (B.Beta == nil || new(big.Int).Exp(B.H2i, B.Beta, B.NTildei).Cmp(B.H1i) != 0) {
		res.Inconcl = "the vendored parameter set does not carry the logarithm of h1 to the base h2"
		return
	}
	if sc.Hist == "collide" {
		if sc.Sys == "pai" {
			// the construction needs a vendored modulus N for which N >> 8 has a prime factor below 1000: the first such set from I on
			for d := 0; d < len(keys); d++ {
				cand := keys[(sc.I+d)%len(keys)]
				nb := cand.PaillierSK.N.Bytes()
				if c11SmallFactor(new(big.Int).SetBytes(nb[:len(nb)-1]), 1000) != nil {
					A = cand
					res.Notes = append(res.Notes, fmt.Sprintf("parameter set %d", (sc.I+d)%len(keys)))
					break
				}
			}
		}
		g, f, note, err := c11Collide(sc, A, B, cv, rng, libG, libF)
		if err != nil {
			res.Inconcl = "colliding statements: " + err.Error()
			return
		}
		res.Notes = append(res.Notes, note)
		accept(g, "a true statement whose arguments give the same byte string - "+note)
		present(f)
		if len(accepted) > 0 && f.complete() {
			// the accepted proof itself, presented for the colliding (false) statement
			r := c11Replay(g, f)
			r.challenge()
			twin := r.outcome(r.vec())
			real, pan := r.realVerify()
			res.Replay = real
			key := fmt.Sprintf("C11:%s:%s", sc.Sys, sc.Family)
			switch {
			case real == "acc" && twin != "acc":
				res.Viols = append(res.Viols, c13Viol{key + ":accepted-replayed-proof-after-history:collide", fmt.Sprintf("the real verifier ACCEPTS, for a statement outside the language, the proof it had accepted for another statement whose arguments give the same byte string [%s; %s]", ctxs, note)})
			case real == "panic" && twin != "panic":
				res.Viols = append(res.Viols, c13Viol{key + ":panic-replayed-proof-after-history:collide", fmt.Sprintf("the real verifier PANICS on the proof it had accepted for a colliding statement [%s]: %s", ctxs, core.Short(pan, 160))})
			}
		}
		return
	}

	switch sc.Sys + "/" + sc.Family {
	case "sch/wrong_dlog":
		x := c10Witness("rand", q, rng)
		var wrong *big.Int
		switch sc.Size {
		case "plus1":
			wrong = new(big.Int).Add(x, pc1)
		case "neg":
			wrong = new(big.Int).Sub(q, x)
		default:
			wrong = c10Witness("rand", q, rng)
		}
		Xs := obs.BaseMul(cv.G, wrong)
		var pf *schnorr.ZKProof
		var err error
		if pan := pcCall(func() { pf, err = schnorr.NewZKProof(sess, x, cv.ecPoint(Xs), libF) }); pan != "" || err != nil || pf == nil {
			noProof(err, pan)
			return
		}
		t := pcNewTr("sch")
		t.Cv, t.Sess = cv, sess
		t.P["X"], t.P["alpha"], t.I["t"] = Xs, pcFromEC(pf.Alpha), pf.T
		if sc.Hist != "" {
			var pg *schnorr.ZKProof
			pcCall(func() { pg, _ = schnorr.NewZKProof(sess, new(big.Int).Mod(wrong, q), cv.ecPoint(Xs), libG) })
			var g *pcTr
			if pg != nil {
				g = pcNewTr("sch")
				g.Cv, g.Sess = cv, sess
				g.P["X"], g.P["alpha"], g.I["t"] = Xs, pcFromEC(pg.Alpha), pg.T
			}
			accept(g, "the same point X, proven with its discrete logarithm")
		}
		present(t)
	case "schv/wrong_dlog":
		s, l, r := c10Witness("rand", q, rng), c10Witness("rand", q, rng), c10Witness("rand", q, rng)
		G := cv.G
		R := obs.BaseMul(G, r)
		V := G.Add(obs.Mul(G, s, R), obs.BaseMul(G, l))
		Vs, Rv := V, R
		sg, lg := s, new(big.Int).Set(l) // the witness of the statement (Vs, Rv)
		switch sc.Size {
		case "plus1":
			Vs = G.Add(V, G.Gen())
			lg = new(big.Int).Mod(new(big.Int).Add(l, pc1), q)
		case "wrongR": // the verifier holds another R than the prover used
			Rv = G.Add(R, G.Gen())
			lg = new(big.Int).Mod(new(big.Int).Sub(l, s), q) // V = s*(Rv - G) + l*G
		default:
			w := c10Witness("rand", q, rng)
			Vs = obs.BaseMul(G, w)
			lg = new(big.Int).Mod(new(big.Int).Sub(w, new(big.Int).Mul(s, r)), q) // w*G = s*R + (w - s*r)*G
		}
		var pf *schnorr.ZKVProof
		var err error
		if pan := pcCall(func() { pf, err = schnorr.NewZKVProof(sess, cv.ecPoint(Vs), cv.ecPoint(R), s, l, libF) }); pan != "" || err != nil || pf == nil {
			noProof(err, pan)
			return
		}
		t := pcNewTr("schv")
		t.Cv, t.Sess = cv, sess
		t.P["V"], t.P["R"], t.P["alpha"], t.I["t"], t.I["u"] = Vs, Rv, pcFromEC(pf.Alpha), pf.T, pf.U
		if sc.Hist != "" {
			var pg *schnorr.ZKVProof
			pcCall(func() { pg, _ = schnorr.NewZKVProof(sess, cv.ecPoint(Vs), cv.ecPoint(Rv), sg, lg, libG) })
			var g *pcTr
			if pg != nil && pg.Alpha != nil {
				g = pcNewTr("schv")
				g.Cv, g.Sess = cv, sess
				g.P["V"], g.P["R"], g.P["alpha"], g.I["t"], g.I["u"] = Vs, Rv, pcFromEC(pg.Alpha), pg.T, pg.U
			}
			accept(g, "the same points (V, R), proven with a witness that fits them")
		}
		present(t)
	case "dln/wrong_dlog", "dln/h2_outside_group":
		N, pq := A.NTildei, new(big.Int).Mul(A.P, A.Q)
		h1 := A.H1i
		x := c10Witness("rand", pq, rng)
		h2 := new(big.Int).Exp(h1, x, N)
		xp := x
		switch sc.Size {
		case "plus1":
			xp = new(big.Int).Add(x, pc1)
		case "rand":
			xp = c10Witness("rand", pq, rng)
		case "minus_h2":
			h2 = new(big.Int).Sub(N, h2)
		case "nonresidue":
			for {
				h2 = pcRandUnit(rng, N)
				if big.Jacobi(h2, N) == -1 {
					break
				}
			}
		case "random_unit":
			h2 = pcRandUnit(rng, N)
		}
		var pf *dlnproof.Proof
		if pan := pcCall(func() { pf = dlnproof.NewDLNProof(h1, h2, xp, A.P, A.Q, N, libF) }); pan != "" || pf == nil {
			noProof(nil, pan)
			return
		}
		t := pcNewTr("dln")
		t.I["h1"], t.I["h2"], t.I["N"] = h1, h2, N
		t.fromDln(pf)
		if sc.Hist != "" {
			hg := new(big.Int).Exp(h1, x, N)
			var pg *dlnproof.Proof
			pcCall(func() { pg = dlnproof.NewDLNProof(h1, hg, x, A.P, A.Q, N, libG) })
			var g *pcTr
			if pg != nil {
				g = pcNewTr("dln")
				g.I["h1"], g.I["h2"], g.I["N"] = h1, hg, N
				g.fromDln(pg)
			}
			accept(g, "(h1, h1^x, N), proven with x")
		}
		present(t)
	case "dln/iteration_unchecked", "pai/iteration_unchecked", "mod/iteration_unchecked_X", "mod/iteration_unchecked_Z":
		// an honest proof of a true statement (vendored set), one iteration's response replaced by response + 1
		fixedSess := []byte("c11-iteration")
		k := pcB(77)
		t := mods.honest(fmt.Sprintf("%s-%d", sc.Sys, sc.I), func() *pcTr {
			t := pcNewTr(sc.Sys)
			hl := pump.NewDRBG(int64(sc.I)*91 + 7)
			switch sc.Sys {
			case "dln":
				var pf *dlnproof.Proof
				if pan := pcCall(func() { pf = dlnproof.NewDLNProof(A.H1i, A.H2i, A.Alpha, A.P, A.Q, A.NTildei, hl) }); pan != "" || pf == nil {
					return nil
				}
				t.I["h1"], t.I["h2"], t.I["N"] = A.H1i, A.H2i, A.NTildei
				t.fromDln(pf)
			case "pai":
				var pf paillier.Proof
				if pan := pcCall(func() { pf = A.PaillierSK.Proof(k, A.ECDSAPub) }); pan != "" {
					return nil
				}
				t.Bound, t.PaiK, t.PaiPt = 1000, k, pcFromEC(A.ECDSAPub)
				t.I["N"] = A.PaillierSK.N
				t.fromPai(pf)
			default:
				var pf *modproof.ProofMod
				var err error
				if pan := pcCall(func() { pf, err = modproof.NewProof(fixedSess, A.PaillierSK.N, A.PaillierSK.P, A.PaillierSK.Q, hl) }); pan != "" || err != nil || pf == nil {
					return nil
				}
				t.Sess = fixedSess
				t.I["N"] = A.PaillierSK.N
				t.fromMod(pf)
			}
			return t
		})
		if t == nil || !t.complete() {
			noProof(nil, "the honest prover failed")
			return
		}
		accept(c11Clone(t), "the same statement: the honest proof before one response was replaced")
		idx := map[string]int{"first": 0, "middle": t.K / 2, "last": t.K - 1}[sc.Size]
		name := map[string]string{"dln/iteration_unchecked": "t", "pai/iteration_unchecked": "y", "mod/iteration_unchecked_X": "X", "mod/iteration_unchecked_Z": "Z"}[sc.Sys+"/"+sc.Family]
		mod := t.I["N"]
		v := new(big.Int).Add(t.V[name][idx], pc1)
		if sc.Sys != "dln" {
			v.Mod(v, mod)
			if v.Sign() == 0 {
				v = pcB(2)
			}
		}
		t.V[name][idx] = v
		res.Notes = append(res.Notes, fmt.Sprintf("iteration %d of %d", idx, t.K))
		present(t)
	case "pai/small_prime_factor":
		ps := map[string]int64{"3": 3, "5": 5, "997": 997}[sc.Size]
		pq := mods.get("pai-small", func(r *rand.Rand) []*big.Int {
			return []*big.Int{pcPrime(r, mods.bits/2-6, c11NotOneMod(3, 5, 997)), pcPrime(r, mods.bits/2-6, c11NotOneMod(3, 5, 997))}
		})
		P, Q := pq[0], pq[1]
		N := new(big.Int).Mul(pcB(ps), new(big.Int).Mul(P, Q))
		phi := new(big.Int).Mul(pcB(ps-1), new(big.Int).Mul(new(big.Int).Sub(P, pc1), new(big.Int).Sub(Q, pc1)))
		if !pcGcd1(N, phi) {
			res.Inconcl = "crafted modulus shares a factor with its totient"
			return
		}
		sk := &paillier.PrivateKey{PublicKey: paillier.PublicKey{N: N}, PhiN: phi, LambdaN: phi, P: P, Q: Q}
		k := c10Witness("rand", q, rng)
		var pf paillier.Proof
		if pan := pcCall(func() { pf = sk.Proof(k, A.ECDSAPub) }); pan != "" {
			noProof(nil, pan)
			return
		}
		t := pcNewTr("pai")
		t.Bound, t.PaiK, t.PaiPt = 1000, k, pcFromEC(A.ECDSAPub)
		t.I["N"] = N
		t.fromPai(pf)
		acceptPai(k)
		present(t)
	case "pai/shares_factor_with_totient":
		pq := mods.get("pai-totient", func(r *rand.Rand) []*big.Int {
			P := pcPrime(r, mods.bits/2-10, nil)
			for {
				k := new(big.Int).Add(pcB(1<<14), pcRandBelow(r, pcB(1<<14)))
				Q := new(big.Int).Mul(new(big.Int).Lsh(k, 1), P)
				Q.Add(Q, pc1)
				if Q.ProbablyPrime(12) {
					return []*big.Int{P, Q}
				}
			}
		})
		P, Q := pq[0], pq[1]
		N := new(big.Int).Mul(P, Q)
		phi := new(big.Int).Mul(new(big.Int).Sub(P, pc1), new(big.Int).Sub(Q, pc1))
		k := c10Witness("rand", q, rng)
		// the library's prover first: it cannot invert N modulo phi
		sk := &paillier.PrivateKey{PublicKey: paillier.PublicKey{N: N}, PhiN: phi, LambdaN: phi, P: P, Q: Q}
		if pan := pcCall(func() { _ = sk.Proof(k, A.ECDSAPub) }); pan != "" {
			res.Notes = append(res.Notes, "the library's prover panics on this key (N has no inverse modulo phi): no proof is obtained from it; the transcript is built with the best exponent available")
		}
		M := new(big.Int).ModInverse(N, new(big.Int).Div(phi, P))
		if M == nil {
			res.Inconcl = "no exponent for the best-effort prover"
			return
		}
		t := pcBuildPai(N, M, paillier.ProofIters, 1000, nil, k, pcFromEC(A.ECDSAPub))
		acceptPai(k)
		present(t)
	case "mod/prime", "mod/even", "mod/prime_power", "mod/not_blum":
		half := mods.bits / 2
		var fs []pcFactor
		useLib := false
		switch sc.Size {
		case "3mod4":
			fs = []pcFactor{{mods.get("p3-big", func(r *rand.Rand) []*big.Int { return []*big.Int{pcPrime(r, half, pcMod4(3))} })[0], 1}}
		case "2P":
			fs = []pcFactor{{pcB(2), 1}, {mods.get("p3-a", func(r *rand.Rand) []*big.Int { return []*big.Int{pcPrime(r, half, pcMod4(3))} })[0], 1}}
		case "P^2":
			fs = []pcFactor{{mods.get("p3-a", func(r *rand.Rand) []*big.Int { return []*big.Int{pcPrime(r, half, pcMod4(3))} })[0], 2}}
		case "P^3":
			fs = []pcFactor{{mods.get("p3-a", func(r *rand.Rand) []*big.Int { return []*big.Int{pcPrime(r, half, pcMod4(3))} })[0], 3}}
		case "P=1mod4":
			fs = []pcFactor{{mods.get("p1-a", func(r *rand.Rand) []*big.Int { return []*big.Int{pcPrime(r, half, pcMod4(1))} })[0], 1},
				{mods.get("p3-a", func(r *rand.Rand) []*big.Int { return []*big.Int{pcPrime(r, half, pcMod4(3))} })[0], 1}}
			useLib = true
		case "both=1mod4":
			fs = []pcFactor{{mods.get("p1-a", func(r *rand.Rand) []*big.Int { return []*big.Int{pcPrime(r, half, pcMod4(1))} })[0], 1},
				{mods.get("p1-b", func(r *rand.Rand) []*big.Int { return []*big.Int{pcPrime(r, half, pcMod4(1))} })[0], 1}}
			useLib = true
		default: // three_primes
			fs = []pcFactor{{mods.get("p3-a", func(r *rand.Rand) []*big.Int { return []*big.Int{pcPrime(r, half, pcMod4(3))} })[0], 1},
				{mods.get("p3-b", func(r *rand.Rand) []*big.Int { return []*big.Int{pcPrime(r, half, pcMod4(3))} })[0], 1},
				{mods.get("p3-c", func(r *rand.Rand) []*big.Int { return []*big.Int{pcPrime(r, half, pcMod4(3))} })[0], 1}}
		}
		N := big.NewInt(1)
		for _, f := range fs {
			for j := 0; j < f.K; j++ {
				N.Mul(N, f.P)
			}
		}
		if useLib {
			var pf *modproof.ProofMod
			var err error
			pan := pcCall(func() { pf, err = modproof.NewProof(sess, N, fs[0].P, fs[1].P, &pcFiniteReader{r: libF, left: 1 << 22}) })
			if pan != "" || err != nil || pf == nil {
				noProof(err, pan)
				return
			}
			t := pcNewTr("mod")
			t.Sess = sess
			t.I["N"] = N
			t.fromMod(pf)
			// elements the prover left nil (no twist of that challenge is a square modulo both primes): the N-th root exists
			// and is filled in, the fourth root does not and is set to 1 - so that only the fourth-root equation fails
			t.challenge()
			phi := pcPhi(fs)
			invN := new(big.Int).ModInverse(new(big.Int).Mod(N, phi), phi)
			filled := 0
			for j := range t.V["X"] {
				if t.V["X"][j] == nil {
					t.V["X"][j] = pcB(1)
					filled++
				}
				if t.V["Z"][j] == nil {
					t.V["Z"][j] = pcB(1)
					if invN != nil {
						t.V["Z"][j] = new(big.Int).Exp(t.EV[j], invN, N)
					}
				}
			}
			res.Notes = append(res.Notes, fmt.Sprintf("the library's prover left %d of 80 fourth roots nil; they were set to 1 (their N-th roots were filled in)", filled))
			acceptMod()
			present(t)
			return
		}
		t, good := pcModBest(sess, N, fs, modproof.Iterations, rng)
		res.Notes = append(res.Notes, fmt.Sprintf("best-effort prover: both equations hold in %d of 80 iterations", good))
		acceptMod()
		present(t)
	case "fac/small_factor":
		bits := map[string]int{"16bit": 16, "64bit": 64, "200bit": 200}[sc.Size]
		p := pcPrime(rng, bits, nil)
		qq := new(big.Int).Rand(rng, new(big.Int).Lsh(pc1, uint(2048-bits)))
		qq.SetBit(qq, 2048-bits-1, 1).SetBit(qq, 0, 1)
		N0 := new(big.Int).Mul(p, qq)
		var pf *facproof.ProofFac
		var err error
		if pan := pcCall(func() { pf, err = facproof.NewProof(sess, cv.Ec, N0, B.NTildei, B.H1i, B.H2i, p, qq, libF) }); pan != "" || err != nil || pf == nil {
			noProof(err, pan)
			return
		}
		t := pcNewTr("fac")
		t.Cv, t.Sess = cv, sess
		t.I["N0"], t.I["NC"], t.I["s"], t.I["t"] = N0, B.NTildei, B.H1i, B.H2i
		t.fromFac(pf)
		acceptFac()
		present(t)
	case "fac/z_beyond":
		sk := A.PaillierSK
		bound := new(big.Int).Mul(q3, new(big.Int).Sqrt(sk.N))
		al := bigSize(bound, nil)
		NC := B.NTildei
		k := pcCoins{"alpha": al, "beta": pcRandBelow(rng, bound), "mu": pcRandBelow(rng, new(big.Int).Mul(q, NC)), "nu": pcRandBelow(rng, new(big.Int).Mul(q, NC)),
			"sigma": pcRandBelow(rng, new(big.Int).Mul(new(big.Int).Mul(q, NC), sk.N)), "r": pcRandBelow(rng, new(big.Int).Mul(new(big.Int).Mul(q3, NC), sk.N)),
			"x": pcRandBelow(rng, new(big.Int).Mul(q3, NC)), "y": pcRandBelow(rng, new(big.Int).Mul(q3, NC))}
		if sameCommit {
			// genuine: in-range coins; presented: alpha + bound, with x and r compensating in the exponents of t
			k["alpha"] = pcRandBelow(rng, bound)
			g := pcBuildFac(cv, sess, sk.N, NC, B.H1i, B.H2i, sk.P, sk.Q, k)
			accept(g, "the same modulus: the prover's algorithm with every coin in its range")
			k2 := pcCoins{}
			for n, v := range k {
				k2[n] = v
			}
			k2["alpha"] = new(big.Int).Add(k["alpha"], bound)
			k2["x"] = shiftH2(k["x"], bound)
			// Q^bound = t^(bound*(q*Beta + nu)) with Q = s^q t^nu
			qb := new(big.Int).Add(new(big.Int).Mul(sk.Q, B.Beta), k["nu"])
			rr := new(big.Int).Sub(k["r"], new(big.Int).Mul(bound, qb))
			k2["r"] = rr.Mod(rr, pqB)
			present(pcBuildFac(cv, sess, sk.N, NC, B.H1i, B.H2i, sk.P, sk.Q, k2))
			return
		}
		acceptFac()
		present(pcBuildFac(cv, sess, sk.N, NC, B.H1i, B.H2i, sk.P, sk.Q, k))
	case "alice/plaintext_beyond_q3":
		m := bigSize(q3, pk.N)
		var c, r *big.Int
		var pf *mta.RangeProofAlice
		var err error
		if pan := pcCall(func() {
			c, r, err = pk.EncryptAndReturnRandomness(lib, m)
			if err == nil {
				pf, err = mta.ProveRangeAlice(cv.Ec, pk, c, B.NTildei, B.H1i, B.H2i, m, r, libF)
			}
		}); pan != "" || err != nil || pf == nil {
			noProof(err, pan)
			return
		}
		t := pcNewTr("alice")
		t.Cv, t.N, t.NT, t.H1, t.H2 = cv, pk.N, B.NTildei, B.H1i, B.H2i
		t.I["c"] = c
		t.fromAlice(pf)
		if sc.Hist != "" {
			m0 := c10Witness("rand", q, rng)
			var c0, r0 *big.Int
			var pg *mta.RangeProofAlice
			var g *pcTr
			pcCall(func() {
				var e0 error
				if c0, r0, e0 = pk.EncryptAndReturnRandomness(lib, m0); e0 == nil {
					pg, _ = mta.ProveRangeAlice(cv.Ec, pk, c0, B.NTildei, B.H1i, B.H2i, m0, r0, libG)
				}
			})
			if pg != nil {
				g = pcNewTr("alice")
				g.Cv, g.N, g.NT, g.H1, g.H2 = cv, pk.N, B.NTildei, B.H1i, B.H2i
				g.I["c"] = c0
				g.fromAlice(pg)
			}
			accept(g, "a ciphertext of a plaintext below q under the same key and ring-Pedersen parameters")
		}
		present(t)
	case "alice/s1_beyond":
		NT := B.NTildei
		r := pcRandUnit(rng, pk.N)
		k := pcCoins{"alpha": bigSize(q3, nil), "beta": pcRandUnit(rng, pk.N), "gamma": pcRandBelow(rng, new(big.Int).Mul(q3, NT)), "rho": pcRandBelow(rng, new(big.Int).Mul(q, NT))}
		c := pcEnc(pk.N, pc0, r)
		if sameCommit {
			// genuine: alpha below q^3; presented: alpha + N (Gamma has order N), gamma compensating in the exponent of h2
			k["alpha"] = pcRandBelow(rng, q3)
			accept(pcBuildAlice(cv, pk.N, NT, B.H1i, B.H2i, c, pc0, r, k), "the same ciphertext (of 0): the prover's algorithm with every coin in its range")
			k2 := pcCoins{"alpha": new(big.Int).Add(k["alpha"], pk.N), "beta": k["beta"], "gamma": shiftH2(k["gamma"], pk.N), "rho": k["rho"]}
			present(pcBuildAlice(cv, pk.N, NT, B.H1i, B.H2i, c, pc0, r, k2))
			return
		}
		if sc.Hist != "" {
			var pg *mta.RangeProofAlice
			var g *pcTr
			pcCall(func() { pg, _ = mta.ProveRangeAlice(cv.Ec, pk, c, NT, B.H1i, B.H2i, pc0, r, libG) })
			if pg != nil {
				g = pcNewTr("alice")
				g.Cv, g.N, g.NT, g.H1, g.H2 = cv, pk.N, NT, B.H1i, B.H2i
				g.I["c"] = c
				g.fromAlice(pg)
			}
			accept(g, "the same ciphertext (of 0), proven by the library's prover")
		}
		present(pcBuildAlice(cv, pk.N, NT, B.H1i, B.H2i, c, pc0, r, k))
	case "bob/multiplier_beyond_q3", "bob/mask_beyond_q7", "bobwc/multiplier_beyond_q3", "bobwc/mask_beyond_q7", "bobwc/point_mismatch":
		NT, h1, h2 := B.NTildei, B.H1i, B.H2i
		x := c10Witness("rand", q, rng)
		y := c10Witness("rand", pcPow(q, 5), rng)
		switch sc.Family {
		case "multiplier_beyond_q3":
			x = bigSize(q3, pk.N)
		case "mask_beyond_q7":
			y = bigSize(q7, pk.N)
		}
		var c1, c2, r *big.Int
		var err error
		pan := pcCall(func() {
			c1, err = pk.Encrypt(lib, c10Witness("rand", q, rng))
			if err != nil {
				return
			}
			var cy, cx *big.Int
			cy, r, err = pk.EncryptAndReturnRandomness(lib, y)
			if err != nil {
				return
			}
			cx, err = pk.HomoMult(x, c1)
			if err != nil {
				return
			}
			c2, err = pk.HomoAdd(cx, cy)
		})
		if pan != "" || err != nil {
			res.Inconcl = fmt.Sprintf("could not build the statement: %v %s", err, pan)
			return
		}
		t := pcNewTr(sc.Sys)
		t.Cv, t.Sess, t.N, t.NT, t.H1, t.H2 = cv, sess, pk.N, NT, h1, h2
		t.I["c1"], t.I["c2"] = c1, c2
		// histories: a genuine proof for the same c1 (and, for point_mismatch, the same c2) under the same session and parameters
		acceptBob := func() {
			if sc.Hist == "" {
				return
			}
			x0, y0, r0, c2g := c10Witness("rand", q, rng), c10Witness("rand", pcPow(q, 5), rng), r, c2
			what := "the same c1 with a multiplier below q and a mask below q^5"
			if sc.Family == "point_mismatch" {
				x0, y0 = x, y
				what = "the same (c1, c2) with the point that fits the multiplier"
			} else if pan := pcCall(func() {
				var cy, cx *big.Int
				var e0 error
				if cy, r0, e0 = pk.EncryptAndReturnRandomness(lib, y0); e0 != nil {
					c2g = nil
					return
				}
				if cx, e0 = pk.HomoMult(x0, c1); e0 != nil {
					c2g = nil
					return
				}
				if c2g, e0 = pk.HomoAdd(cx, cy); e0 != nil {
					c2g = nil
				}
			}); pan != "" || c2g == nil {
				accept(nil, what)
				return
			}
			g := pcNewTr(sc.Sys)
			g.Cv, g.Sess, g.N, g.NT, g.H1, g.H2 = cv, sess, pk.N, NT, h1, h2
			g.I["c1"], g.I["c2"] = c1, c2g
			if sc.Sys == "bob" {
				var pg *mta.ProofBob
				pcCall(func() { pg, _ = mta.ProveBob(sess, cv.Ec, pk, NT, h1, h2, c1, c2g, x0, y0, r0, libG) })
				if pg == nil {
					accept(nil, what)
					return
				}
				g.fromBob(pg)
			} else {
				X0 := obs.BaseMul(cv.G, new(big.Int).Mod(x0, q))
				var pg *mta.ProofBobWC
				pcCall(func() { pg, _ = mta.ProveBobWC(sess, cv.Ec, pk, NT, h1, h2, c1, c2g, x0, y0, r0, cv.ecPoint(X0), libG) })
				if pg == nil {
					accept(nil, what)
					return
				}
				g.fromBob(pg.ProofBob)
				g.P["X"], g.P["U"] = X0, pcFromEC(pg.U)
			}
			accept(g, what)
		}
		if sc.Sys == "bob" {
			var pf *mta.ProofBob
			if pan := pcCall(func() { pf, err = mta.ProveBob(sess, cv.Ec, pk, NT, h1, h2, c1, c2, x, y, r, libF) }); pan != "" || err != nil || pf == nil {
				noProof(err, pan)
				return
			}
			t.fromBob(pf)
			acceptBob()
			present(t)
			return
		}
		xs := new(big.Int).Mod(x, q)
		switch sc.Size {
		case "plus1":
			xs = new(big.Int).Add(x, pc1)
		case "neg":
			xs = new(big.Int).Sub(q, x)
		case "rand":
			xs = c10Witness("rand", q, rng)
		}
		if sc.Family != "point_mismatch" && xs.Sign() == 0 {
			xs = pcB(1)
		}
		Xs := obs.BaseMul(cv.G, xs)
		var pw *mta.ProofBobWC
		if pan := pcCall(func() { pw, err = mta.ProveBobWC(sess, cv.Ec, pk, NT, h1, h2, c1, c2, x, y, r, cv.ecPoint(Xs), libF) }); pan != "" || err != nil || pw == nil {
			noProof(err, pan)
			return
		}
		t.fromBob(pw.ProofBob)
		t.P["X"], t.P["U"] = Xs, pcFromEC(pw.U)
		acceptBob()
		present(t)
	case "bob/s1_beyond", "bob/t1_beyond":
		NT := B.NTildei
		c1 := pcEnc(pk.N, c10Witness("rand", q, rng), pcRandUnit(rng, pk.N))
		r := pcRandUnit(rng, pk.N)
		c2 := pcEnc(pk.N, pc0, r)
		k := pcCoins{"alpha": pcRandBelow(rng, q3), "rho": pcRandBelow(rng, new(big.Int).Mul(q, NT)), "sigma": pcRandBelow(rng, new(big.Int).Mul(q, NT)),
			"tau": pcRandBelow(rng, new(big.Int).Mul(q3, NT)), "rhop": pcRandBelow(rng, new(big.Int).Mul(q3, NT)), "beta": pcRandUnit(rng, pk.N), "gamma": pcRandBelow(rng, q7)}
		if sc.Family == "s1_beyond" {
			k["alpha"] = bigSize(q3, nil)
		} else {
			k["gamma"] = bigSize(q7, nil)
		}
		if sameCommit {
			// genuine: every coin in its range; presented: alpha + N (c1^N is absorbed by beta, h1^N by rho') resp. gamma + N
			k["alpha"], k["gamma"] = pcRandBelow(rng, q3), pcRandBelow(rng, q7)
			accept(pcBuildBob(cv, sess, pk.N, NT, B.H1i, B.H2i, c1, c2, pc0, pc0, r, k, nil), "the same (c1, c2 = Enc(0)): the prover's algorithm with every coin in its range")
			k2 := pcCoins{}
			for n, v := range k {
				k2[n] = v
			}
			if sc.Family == "s1_beyond" {
				ci := new(big.Int).ModInverse(new(big.Int).Mod(c1, pk.N), pk.N)
				if ci == nil {
					res.Inconcl = "c1 is no unit"
					return
				}
				k2["alpha"] = new(big.Int).Add(k["alpha"], pk.N)
				k2["beta"] = pcMul(pk.N, k["beta"], ci)
				k2["rhop"] = shiftH2(k["rhop"], pk.N)
			} else {
				k2["gamma"] = new(big.Int).Add(k["gamma"], pk.N)
				k2["tau"] = shiftH2(k["tau"], pk.N)
			}
			present(pcBuildBob(cv, sess, pk.N, NT, B.H1i, B.H2i, c1, c2, pc0, pc0, r, k2, nil))
			return
		}
		if sc.Hist != "" {
			var pg *mta.ProofBob
			var g *pcTr
			pcCall(func() { pg, _ = mta.ProveBob(sess, cv.Ec, pk, NT, B.H1i, B.H2i, c1, c2, pc0, pc0, r, libG) })
			if pg != nil {
				g = pcNewTr("bob")
				g.Cv, g.Sess, g.N, g.NT, g.H1, g.H2 = cv, sess, pk.N, NT, B.H1i, B.H2i
				g.I["c1"], g.I["c2"] = c1, c2
				g.fromBob(pg)
			}
			accept(g, "the same (c1, c2 = Enc(0)), proven by the library's prover with multiplier 0 and mask 0")
		}
		present(pcBuildBob(cv, sess, pk.N, NT, B.H1i, B.H2i, c1, c2, pc0, pc0, r, k, nil))
	default:
		res.Inconcl = "the harness has no recipe for catalogue row " + sc.Sys + "/" + sc.Family
	}
	return
}

// ------------------------------------------------------------------ Paillier domain guards

type c11PaiCase struct {
	Op   string `json:"op"`
	What string `json:"what"`
	Set  int    `json:"set"`
}

// prefixOps (ProofHistory!DomRows): the operations for which every out-of-domain call is preceded, in this process, by a call
// with the congruent in-domain value (v mod N for plaintexts, c mod N^2 for ciphertexts): a domain test that remembers the
// residues of values that passed must still refuse.
func c11Paillier(ctx *core.Ctx, keys []eckg.LocalPartySaveData, cov *core.Cov, prefixOps map[string]bool) {
	lib := pump.NewDRBG(ctx.Seed ^ 0x9a1)
	rng := rand.New(rand.NewSource(ctx.Seed * 17))
	type kp struct {
		sk  *paillier.PrivateKey
		set int
	}
	var ks []kp
	for i := 0; i < ctx.Pick(2, 5); i++ {
		ks = append(ks, kp{keys[(i+int(ctx.Seed))%5].PaillierSK, (i + int(ctx.Seed)) % 5})
	}
	// a toy key as well: every neighbour of the domain
	ks = append(ks, kp{&paillier.PrivateKey{PublicKey: paillier.PublicKey{N: pcB(35)}, LambdaN: pcB(12), PhiN: pcB(24), P: pcB(5), Q: pcB(7)}, -1})
	for _, k := range ks {
		sk := k.sk
		pk := &sk.PublicKey
		N := pk.N
		N2 := new(big.Int).Mul(N, N)
		good, err := pk.Encrypt(lib, pcB(3))
		if err != nil {
			continue
		}
		outM := map[string]*big.Int{"-1": pcB(-1), "N": N, "N+1": new(big.Int).Add(N, pc1), "2N": new(big.Int).Lsh(N, 1), "N^2": N2, "-N": new(big.Int).Neg(N),
			"random>=N": new(big.Int).Add(N, pcRandBelow(rng, N))}
		outC := map[string]*big.Int{"-1": pcB(-1), "N^2": N2, "N^2+1": new(big.Int).Add(N2, pc1), "N^2+c": new(big.Int).Add(N2, good), "-c": new(big.Int).Neg(good)}
		check := func(op, what string, f func() (*big.Int, error)) {
			var v *big.Int
			var e error
			pan := pcCall(func() { v, e = f() })
			cov.Case("paillier|"+op+"|"+what, true)
			if prefixOps[op] {
				cov.Add("paillier_out_of_domain_calls_after_congruent_in_domain_call", 1)
			}
			sc := c11PaiCase{op, what, k.set}
			switch {
			case pan != "":
				ctx.Report("C11:paillier:"+op+":panic", fmt.Sprintf("paillier %s panics on an out-of-domain value (%s) instead of refusing it: %s", op, what, core.Short(pan, 160)), sc)
			case e == nil:
				ctx.Report("C11:paillier:"+op+":accepts-out-of-domain", fmt.Sprintf("paillier %s returns a value (%v...) for an out-of-domain input (%s) instead of an error", op, core.Short(fmt.Sprint(v), 40), what), sc)
			}
		}
		// the history: the congruent in-domain value goes through the operation first (its result is of no interest)
		pre := func(op string, f func()) {
			if prefixOps[op] {
				pcCall(f)
			}
		}
		for w, m := range outM {
			m := m
			m0 := new(big.Int).Mod(m, N)
			pre("Encrypt", func() { pk.Encrypt(lib, m0) })
			check("Encrypt", "m="+w, func() (*big.Int, error) { return pk.Encrypt(lib, m) })
			pre("HomoMult", func() { pk.HomoMult(m0, good) })
			check("HomoMult", "m="+w, func() (*big.Int, error) { return pk.HomoMult(m, good) })
		}
		for w, c := range outC {
			c := c
			c0 := new(big.Int).Mod(c, N2)
			pre("HomoMult", func() { pk.HomoMult(pcB(2), c0) })
			check("HomoMult", "c="+w, func() (*big.Int, error) { return pk.HomoMult(pcB(2), c) })
			pre("HomoAdd", func() { pk.HomoAdd(c0, good); pk.HomoAdd(good, c0) })
			check("HomoAdd", "c1="+w, func() (*big.Int, error) { return pk.HomoAdd(c, good) })
			check("HomoAdd", "c2="+w, func() (*big.Int, error) { return pk.HomoAdd(good, c) })
			pre("Decrypt", func() { sk.Decrypt(c0) })
			check("Decrypt", "c="+w, func() (*big.Int, error) { return sk.Decrypt(c) })
		}
		for w, c := range map[string]*big.Int{"0": pcB(0), "N": N, "multiple of P": new(big.Int).Mul(sk.P, pcB(3)), "multiple of Q": new(big.Int).Mul(sk.Q, pcB(5))} {
			c := c
			check("Decrypt", "non-unit c="+w, func() (*big.Int, error) { return sk.Decrypt(c) })
		}
		// in-domain extremes still work (otherwise "refuse everything" would pass)
		for _, m := range []*big.Int{pcB(0), pcB(1), new(big.Int).Sub(N, pc1)} {
			c, e := pk.Encrypt(lib, m)
			var d *big.Int
			if e == nil {
				d, e = sk.Decrypt(c)
			}
			if e != nil || d.Cmp(m) != 0 {
				ctx.Note("drift: paillier refuses or mangles the in-domain plaintext %s (set %d): %v", core.Short(m.String(), 20), k.set, e)
			}
		}
	}
}

// ------------------------------------------------------------------ TLC

type c11TLC struct {
	Groups  []pcMCGroup
	Cat     tlc.Result
	Rows    []c11Row
	Witness map[string]string // "sys/guard" -> toy transcript
}

func c11RunTLC(ctx *core.Ctx) (*c11TLC, error) {
	out := &c11TLC{Witness: map[string]string{}}
	out.Groups = []pcMCGroup{{Sys: []string{"sch", "schv", "pai", "fac", "bobwc"}}, {Sys: []string{"dln", "alice"}}, {Sys: []string{"mod"}}, {Sys: []string{"bob"}}}
	wide := c13TLCBool(ctx.Thorough())
	var wg sync.WaitGroup
	for i := range out.Groups {
		wg.Add(1)
		go func(g *pcMCGroup) {
			defer wg.Done()
			cfg := fmt.Sprintf("SPECIFICATION Spec\nCONSTANTS\n  Sys = %s\n  Wide = %s\nINVARIANTS Track\nPOSTCONDITION Classified\nCHECK_DEADLOCK FALSE\n", pcSet(g.Sys), wide)
			g.Res = tlc.Run(tlc.Options{Module: "ProofGuards", Cfg: cfg, Workers: 1, Heap: "3g", Timeout: 30 * time.Minute})
		}(&out.Groups[i])
	}
	wg.Add(1)
	go func() { // the family catalogue; the false-statement formulas are closed: TLC evaluates them when it loads the configuration
		defer wg.Done()
		cfg := "SPECIFICATION CSpec\nCONSTANTS\n  Sys = " + pcAllSys + "\n  Wide = " + wide + "\nINVARIANTS FalseStatements EmitFamily\nCHECK_DEADLOCK FALSE\n"
		out.Cat = tlc.Run(tlc.Options{Module: "ProofGuards", Cfg: cfg, Workers: 1, Heap: "2g", Timeout: 30 * time.Minute})
	}()
	wg.Wait()
	for _, g := range out.Groups {
		if g.Res.Err != nil {
			return out, fmt.Errorf("guard classification %v: %v", g.Sys, g.Res.Err)
		}
		if !g.Res.OK {
			var mis []string
			for _, ln := range strings.Split(g.Res.Output, "\n") {
				if strings.Contains(ln, "MISCLASSIFIED") {
					mis = append(mis, strings.TrimSpace(ln))
				}
			}
			return out, fmt.Errorf("guard classification %v: %s %v", g.Sys, g.Res.Violated, mis)
		}
		for _, ln := range strings.Split(g.Res.Output, "\n") {
			ln = strings.TrimSpace(ln)
			if strings.HasPrefix(ln, `<<"WITNESS", "`) {
				f := strings.SplitN(ln[len(`<<"WITNESS", "`):], `", "`, 3)
				if len(f) == 3 {
					out.Witness[f[0]+"/"+f[1]] = core.Short(strings.ReplaceAll(strings.TrimSuffix(f[2], `">>`), `\"`, `"`), 400)
				}
			}
		}
	}
	if out.Cat.Err != nil {
		return out, fmt.Errorf("family catalogue: %v", out.Cat.Err)
	}
	if !out.Cat.OK {
		return out, fmt.Errorf("false-statement model / family catalogue: %s is violated:\n%s", out.Cat.Violated, out.Cat.ErrorTrace(1200))
	}
	if err := pcParseRows(out.Cat.Output, &out.Rows); err != nil {
		return out, err
	}
	sort.Slice(out.Rows, func(a, b int) bool { return out.Rows[a].Sys+out.Rows[a].Family < out.Rows[b].Sys+out.Rows[b].Family })
	return out, nil
}

// ------------------------------------------------------------------ plan

func c11Plan(ctx *core.Ctx, rows []c11Row) []c11Scenario {
	var scs []c11Scenario
	pairs := c13Pairs()
	n := 0
	add := func(r c11Row, size, curve string) {
		p := pairs[(n*7+int(ctx.Seed)*3)%len(pairs)]
		n++
		scs = append(scs, c11Scenario{Sys: r.Sys, Family: r.Family, Trips: r.Trips, Prover: r.Prover, Size: size, Curve: curve, I: p[0], J: p[1],
			Seed: ctx.Seed*1000003 + int64(len(scs))*13 + 5})
	}
	for _, r := range rows {
		curves := []string{"secp256k1"}
		if r.Sys == "sch" {
			curves = []string{"secp256k1", "ed25519"}
		}
		if ctx.Thorough() {
			reps := 3
			if r.Sys == "dln" || r.Sys == "mod" {
				reps = 2
			}
			for k := 0; k < reps; k++ {
				for _, sz := range r.Sizes {
					for _, c := range curves {
						add(r, sz, c)
					}
				}
			}
		} else {
			// every size once
			for k, sz := range r.Sizes {
				add(r, sz, curves[(k+int(ctx.Seed))%len(curves)])
			}
		}
	}
	return scs
}

// c11PlanHist: the history rows of ProofHistory.tla; quick: one size of every row (rotating with the seed), thorough: every size
func c11PlanHist(ctx *core.Ctx, rows []c11HRow, base int) []c11Scenario {
	var scs []c11Scenario
	pairs := c13Pairs()
	for i, r := range rows {
		sizes := r.Sizes
		if !ctx.Thorough() {
			sizes = []string{r.Sizes[(i+int(ctx.Seed))%len(r.Sizes)]}
			if last := r.Sizes[len(r.Sizes)-1]; last == "same_commitments" && sizes[0] != last {
				sizes = append(sizes, last)
			}
		}
		for k, sz := range sizes {
			p := pairs[((i*5+k)*7+int(ctx.Seed)*3+1)%len(pairs)]
			curve := "secp256k1"
			if r.Sys == "sch" && (i+k+int(ctx.Seed))%2 == 1 {
				curve = "ed25519"
			}
			scs = append(scs, c11Scenario{Sys: r.Sys, Family: r.Family, Trips: r.Trips, Prover: r.Prover, Size: sz, Curve: curve, I: p[0], J: p[1],
				Seed: ctx.Seed*1000003 + int64(base+len(scs))*13 + 7, Hist: r.Hist})
		}
	}
	return scs
}

func c11RunAll(scs []c11Scenario, keys []eckg.LocalPartySaveData, mods *c11Moduli, workers int) []*c11Result {
	out := make([]*c11Result, len(scs))
	var wg sync.WaitGroup
	ch := make(chan int)
	for w := 0; w < workers; w++ {
		wg.Add(1)
		go func() {
			defer wg.Done()
			for i := range ch {
				r := c11Run(scs[i], keys, mods)
				out[i] = &r
			}
		}()
	}
	for i := range scs {
		ch <- i
	}
	close(ch)
	wg.Wait()
	return out
}

// ------------------------------------------------------------------ the check

// c11JudgeToy: a toy-sized transcript of a named false-statement family must not be accepted, unless the specification
// accepts it too (challenge 0, a factor that is not small enough for the toy q): returns true in that case.
func c11JudgeToy(ctx *core.Ctx, l *pcLine, line, rounds int) (degenerate bool) {
	if !l.Demand {
		return false
	}
	sc := map[string]any{"toy": true, "seed": ctx.Seed, "line": line, "rounds": rounds, "kind": l.Kind, "sys": l.T.Sys}
	f := l.Vec.failing()
	switch {
	case l.Real == "acc" && l.Twin == "acc", l.Real == "panic" && l.Twin == "panic":
		return true
	case l.Real == "acc":
		ctx.Report(fmt.Sprintf("C11:%s:%s:accepted-at-toy-size", l.T.Sys, l.Family),
			fmt.Sprintf("the real %s verifier ACCEPTS a toy-sized proof for a statement outside the language (%s); the specification's guards/equations that fail on it: %v", l.T.Sys, l.Kind, f), sc)
	case l.Real == "panic":
		ctx.Report(fmt.Sprintf("C11:%s:%s:panic-at-toy-size", l.T.Sys, l.Family),
			fmt.Sprintf("the real %s verifier PANICS on a toy-sized proof for a statement outside the language (%s): %s", l.T.Sys, l.Kind, core.Short(l.Panic, 160)), sc)
	}
	return false
}

func C11(ctx *core.Ctx) error {
	if err := pcSelfCheck(); err != nil {
		return core.Inconcl("toy curves: %v", err)
	}
	keys, err := pump.LoadEcFixtures(5)
	if err != nil {
		return core.Inconcl("cannot load the vendored parameter sets: %v", err)
	}
	for i, k := range keys {
		if k.PaillierSK == nil || k.NTildei == nil || k.H1i == nil || k.H2i == nil || k.P == nil || k.Q == nil || k.ECDSAPub == nil {
			return core.Inconcl("parameter set %d is incomplete", i)
		}
	}
	mods := &c11Moduli{rng: rand.New(rand.NewSource(ctx.Seed*7 + 11)), bits: 2048, cache: map[string][]*big.Int{}, trs: map[string]*pcTr{}}
	report := func(r *c11Result) {
		for _, v := range r.Viols {
			ctx.Report(v.Key, v.What, r.Sc)
		}
	}
	if ctx.Replay != "" {
		var probe map[string]any
		if _, err := core.LoadReplay(ctx.Replay, &probe); err != nil {
			return core.Inconcl("cannot load replay: %v", err)
		}
		if _, isPai := probe["op"]; isPai {
			cov := core.NewCov()
			c11Paillier(ctx, keys, cov, map[string]bool{"Encrypt": true, "HomoMult": true, "HomoAdd": true, "Decrypt": true})
			fmt.Printf("replay: Paillier domain cases re-run (%d cases)\n", cov.Evals)
			return nil
		}
		if _, isTH := probe["toyhist"]; isTH {
			// the toy histories are a deterministic function of the seed: run them again, in order, in this process
			seed, _ := probe["seed"].(float64)
			line, _ := probe["line"].(float64)
			rounds, _ := probe["rounds"].(float64)
			if rounds < 1 {
				rounds = 6
			}
			saved := ctx.Seed
			ctx.Seed = int64(seed)
			hg := newC11HistGen(int64(seed))
			hg.histories(int(rounds))
			if int(line) < 1 || int(line) > len(hg.hl) {
				return core.Inconcl("replay names toy history line %v of %d", line, len(hg.hl))
			}
			l := hg.hl[int(line)-1]
			fmt.Printf("replay toy history line %d (%s %s %s, relation %s): real verifier %s, specification %s, failing %v\n", int(line), l.T.Sys, l.Step, l.Kind, l.Rel, l.Real, l.Twin, l.Vec.failing())
			c11JudgeHist(ctx, l, int(line), int(rounds))
			ctx.Seed = saved
			return nil
		}
		if _, isToy := probe["toy"]; isToy {
			// the toy lines are a deterministic function of the seed: regenerate them and present the line again
			seed, _ := probe["seed"].(float64)
			line, _ := probe["line"].(float64)
			rounds, _ := probe["rounds"].(float64)
			if rounds < 1 {
				rounds = 4
			}
			gen := newPcToyGen(int64(seed)*37 + 11)
			gen.crafted(int(rounds))
			if int(line) < 1 || int(line) > len(gen.lines) {
				return core.Inconcl("replay names toy line %v of %d", line, len(gen.lines))
			}
			l := gen.lines[int(line)-1]
			fmt.Printf("replay toy line %d (%s %s): real verifier %s, specification %s, failing %v\n", int(line), l.T.Sys, l.Kind, l.Real, l.Twin, l.Vec.failing())
			c11JudgeToy(ctx, l, int(line), int(rounds))
			return nil
		}
		var sc c11Scenario
		if _, err := core.LoadReplay(ctx.Replay, &sc); err != nil {
			return core.Inconcl("cannot load replay: %v", err)
		}
		if sc.I < 0 || sc.I > 4 || sc.J < 0 || sc.J > 4 {
			return core.Inconcl("replay names an unknown parameter set")
		}
		r := c11Run(sc, keys, mods)
		if r.Inconcl != "" {
			return core.Inconcl("replay %s: %s", sc.key(), r.Inconcl)
		}
		fmt.Printf("replay %s: real verifier %s, specification says failing %v, %d violation(s)\n", sc.key(), r.Real, r.Failing, len(r.Viols))
		report(&r)
		return nil
	}
	cov := core.NewCov()

	// toy binding in the background
	var toyRes pcTraceResult
	var toyErr error
	var gen *pcToyGen
	var hgen *c11HistGen
	var htRes pcTraceResult
	var htErr error
	var wg sync.WaitGroup
	wg.Add(1)
	go func() {
		defer wg.Done()
		gen = newPcToyGen(ctx.Seed*37 + 11)
		gen.crafted(ctx.Pick(4, 24))
		// the toy histories after the history-free toy lines, in the same process
		hgen = newC11HistGen(ctx.Seed)
		hgen.histories(ctx.Pick(6, 30))
		wg.Add(1)
		go func() {
			defer wg.Done()
			htRes, htErr = c11ValidateHist(hgen.hl, 40*time.Minute)
		}()
		toyRes, toyErr = pcValidate(gen.lines, 40*time.Minute)
	}()

	// the history model and its catalogue, next to the guard classification
	var hl *c11HistTLC
	var hlErr error
	histDone := make(chan struct{})
	go func() {
		defer close(histDone)
		hl, hlErr = c11RunHistTLC(ctx.Thorough())
	}()
	tl, err := c11RunTLC(ctx)
	<-histDone
	if err != nil {
		wg.Wait()
		return core.Inconcl("ProofGuards.tla: %v", err)
	}
	scs := c11Plan(ctx, tl.Rows)
	if hlErr != nil {
		wg.Wait()
		return core.Inconcl("%v", hlErr)
	}
	// Paillier domain guards (cheap), each out-of-domain call after the congruent in-domain one (rows of ProofHistory.tla)
	prefixOps := map[string]bool{}
	for _, r := range hl.DomRows {
		prefixOps[r["op"]] = true
	}
	if len(prefixOps) != 4 {
		wg.Wait()
		return core.Inconcl("ProofHistory.tla printed %d domain rows, 4 expected", len(prefixOps))
	}
	c11Paillier(ctx, keys, cov, prefixOps)
	// phase 1: every family on verifiers that have accepted nothing in this process; phase 2: the histories
	t0 := time.Now()
	results := c11RunAll(scs, keys, mods, pcWorkers())
	realWall := time.Since(t0).Seconds()
	t0 = time.Now()
	hscs := c11PlanHist(ctx, hl.Rows, len(scs))
	hresults := c11RunAll(hscs, keys, mods, pcWorkers())
	histWall := time.Since(t0).Seconds()
	wg.Wait()

	// ---- histories: verdicts and vacuity (a row counts only if its history was established: the genuine proofs were
	// accepted by the real verifier and the relation measured on the byte strings is the one the row names)
	type histStat struct {
		Cases, Established, Rejected, SameCoins, NoProof, NotJudged, ReplayRejected int
	}
	hist := map[string]*histStat{}
	for _, r := range hresults {
		if r.Inconcl != "" {
			return core.Inconcl("history %s could not be built or observed: %s", r.Sc.key(), r.Inconcl)
		}
		report(r)
		k := r.Sc.Sys + "/" + r.Sc.Family + " after " + r.Sc.Hist
		st := hist[k]
		if st == nil {
			st = &histStat{}
			hist[k] = st
		}
		st.Cases++
		cov.Case(r.Sc.key(), r.Real != "no-proof")
		switch {
		case r.Real == "no-proof":
			st.NoProof++
			ctx.Note("no proof obtained: %s: %s", r.Sc.key(), r.NoProof)
		case !r.Demanded:
			st.NotJudged++
		case r.Real == "rej":
			st.Rejected++
		}
		if r.Established && r.Real != "no-proof" {
			st.Established++
		}
		if r.SameCoins {
			st.SameCoins++
		}
		if r.Replay == "rej" {
			st.ReplayRejected++
		}
		for _, n := range r.Notes {
			if strings.Contains(n, "not established") {
				ctx.Note("drift: %s: %s", r.Sc.key(), n)
			}
		}
	}
	var histVacuous []string
	for _, row := range hl.Rows {
		k := row.Sys + "/" + row.Family + " after " + row.Hist
		if st := hist[k]; st == nil || st.Established == 0 {
			histVacuous = append(histVacuous, k)
		}
	}
	for i, r := range hresults {
		if i%3 == 0 {
			cov.Sample(map[string]any{"scenario": r.Sc, "accepted_first": r.Accepted, "relation_measured": r.Rel, "same_coins": r.SameCoins, "real_verifier": r.Real,
				"replayed_proof": r.Replay, "specification_says_failing": r.Failing, "notes": r.Notes, "seconds": r.Seconds}, 40)
		}
	}

	// ---- real-size verdicts and vacuity
	type famStat struct {
		Cases, Rejected, Exact, Hit, NoProof, NotJudged int
		Failing                                         map[string]int
	}
	fam := map[string]*famStat{}
	for _, r := range results {
		if r.Inconcl != "" {
			return core.Inconcl("case %s could not be built or observed: %s", r.Sc.key(), r.Inconcl)
		}
		report(r)
		k := r.Sc.Sys + "/" + r.Sc.Family
		st := fam[k]
		if st == nil {
			st = &famStat{Failing: map[string]int{}}
			fam[k] = st
		}
		st.Cases++
		cov.Case(r.Sc.key(), r.Real != "no-proof")
		switch {
		case r.Real == "no-proof":
			st.NoProof++
			ctx.Note("no proof obtained: %s: %s", r.Sc.key(), r.NoProof)
		case !r.Demanded:
			st.NotJudged++
		case r.Real == "rej":
			st.Rejected++
		}
		if r.Exact {
			st.Exact++
		}
		if r.Hit {
			st.Hit++
		}
		st.Failing[strings.Join(r.Failing, "+")]++
		for _, n := range r.Notes {
			if strings.Contains(n, "drift") {
				ctx.Note("drift: %s: %s", r.Sc.key(), n)
			}
		}
	}
	for _, row := range tl.Rows {
		for _, r := range results {
			if r.Sc.Sys == row.Sys && r.Sc.Family == row.Family {
				cov.Sample(map[string]any{"scenario": r.Sc, "real_verifier": r.Real, "specification_says_failing": r.Failing, "exactly_the_named_guard": r.Exact, "notes": r.Notes, "seconds": r.Seconds}, 24)
				break
			}
		}
	}
	// every family must have been exercised non-vacuously at least once: the named guard / equation fails on a presented transcript
	var vacuous []string
	for _, row := range tl.Rows {
		st := fam[row.Sys+"/"+row.Family]
		if st == nil || st.Hit == 0 {
			vacuous = append(vacuous, row.Sys+"/"+row.Family)
		}
	}

	// ---- toy lines
	if toyErr != nil {
		return core.Inconcl("toy binding machinery failed: %v", toyErr)
	}
	toyOut := map[string]int{}
	toyAlone := map[string]int{} // guard violated alone on the real verifier at toy size
	toyMismatch, toyDegenerate := 0, 0
	for i, l := range gen.lines {
		toyOut[l.T.Sys+":"+l.Real]++
		f := l.Vec.failing()
		if len(f) == 1 && l.Real == "rej" {
			toyAlone[l.T.Sys+"/"+f[0]]++
		}
		if l.Real != "na" && l.Real != l.Twin {
			toyMismatch++
			ctx.Note("drift: toy %s transcript (%s): the real verifier says %s, the harness's transcription %s (failing %v)", l.T.Sys, l.Kind, l.Real, l.Twin, f)
		}
		if c11JudgeToy(ctx, l, i+1, ctx.Pick(4, 24)) {
			toyDegenerate++
		}
	}
	if !toyRes.Accepted {
		if len(ctx.Violations()) > 0 {
			ctx.Note("Proofs_Trace.tla does not explain toy line %d (%s): consistent with the violation(s) reported above", toyRes.FailLine, core.Short(toyRes.FailText, 200))
		} else {
			return core.Inconcl("Proofs_Trace.tla does not explain toy line %d of %d: %s - the specification and the code (or the harness's transcription) disagree on a toy-sized transcript that no clause of the property covers",
				toyRes.FailLine, toyRes.Lines, core.Short(toyRes.FailText, 300))
		}
	} else {
		if !toyRes.SelfTest {
			return core.Inconcl("self test: TLC did not refuse the toy transcript whose vector the harness had corrupted - the binding is not effective")
		}
		cov.AddTraces(toyRes.Lines)
	}
	// ---- toy histories
	if htErr != nil {
		return core.Inconcl("toy history machinery failed: %v", htErr)
	}
	hToy := map[string]int{}
	hToyDegenerate := 0
	for i, l := range hgen.hl {
		hToy[l.T.Sys+":"+l.Step+":"+l.Rel+":"+l.Real]++
		if l.Real != l.Twin {
			ctx.Note("drift: toy history %s %s (%s): the real verifier says %s, the harness's transcription %s (failing %v)", l.T.Sys, l.Step, l.Kind, l.Real, l.Twin, l.Vec.failing())
		}
		if c11JudgeHist(ctx, l, i+1, ctx.Pick(6, 30)) {
			hToyDegenerate++
		}
	}
	if !htRes.Accepted {
		if len(ctx.Violations()) > 0 {
			ctx.Note("ProofHistory_Trace.tla does not explain toy history line %d (%s): consistent with the violation(s) reported above", htRes.FailLine, core.Short(htRes.FailText, 200))
		} else {
			return core.Inconcl("ProofHistory_Trace.tla does not explain toy history line %d of %d: %s", htRes.FailLine, htRes.Lines, core.Short(htRes.FailText, 300))
		}
	} else {
		if !htRes.SelfTest {
			return core.Inconcl("self test: TLC did not refuse the toy history line whose relation to the accepted lines the harness had falsified - the binding is not effective")
		}
		cov.AddTraces(htRes.Lines)
	}
	// every relation must have been presented (and rejected) at toy size at least once, by whichever system
	for _, rel := range []string{"same", "collide", "partial"} {
		n := 0
		for k, v := range hToy {
			if strings.Contains(k, ":present:"+rel+":rej") {
				n += v
			}
		}
		if n == 0 && len(ctx.Violations()) == 0 {
			return core.Inconcl("toy histories: no rejected presentation of relation %q was produced", rel)
		}
	}
	if len(vacuous) > 0 && len(ctx.Violations()) == 0 {
		return core.Inconcl("families never exercised (no presented transcript fails the guard the catalogue names): %v", vacuous)
	}
	if len(histVacuous) > 0 && len(ctx.Violations()) == 0 {
		return core.Inconcl("histories never established (genuine proof not accepted, or the relation to the presented transcript is not the one the catalogue names): %v", histVacuous)
	}

	var mcOut []map[string]any
	for _, g := range tl.Groups {
		cov.AddMC(g.Res.Distinct, g.Res.Generated)
		mcOut = append(mcOut, map[string]any{"classification_of": g.Sys, "distinct": g.Res.Distinct, "generated": g.Res.Generated, "wall_s": g.Res.Wall})
	}
	cov.Set("mc_configs", mcOut)
	cov.Set("false_statement_model_and_catalogue_wall_s", tl.Cat.Wall)
	cov.Set("family_rows", len(tl.Rows))
	cov.Set("toy_witness_of_each_necessary_guard", tl.Witness)
	cov.Set("real_size_cases", len(results))
	cov.Set("real_size_wall_s", realWall)
	cov.Set("families", fam)
	cov.AddMC(hl.Res.Distinct, hl.Res.Generated)
	cov.Set("history_model", map[string]any{"distinct": hl.Res.Distinct, "generated": hl.Res.Generated, "wall_s": hl.Res.Wall, "wrong_designs_exposed_by": hl.Exposed})
	cov.Set("history_rows", len(hl.Rows))
	cov.Set("history_cases", len(hresults))
	cov.Set("history_wall_s", histWall)
	cov.Set("histories", hist)
	cov.Set("toy_history_lines_validated", htRes.Lines)
	cov.Set("toy_history_outcomes", hToy)
	cov.Set("toy_history_genuine_not_accepted", hgen.notAcc)
	cov.Set("toy_history_false_statements_accepted_as_the_specification_predicts", hToyDegenerate)
	cov.Set("toy_history_trace_tlc_wall_s", htRes.Res.Wall)
	cov.Set("self_test_falsified_relation_refused", htRes.SelfTest)
	cov.Set("toy_lines_validated", toyRes.Lines)
	cov.Set("toy_outcomes", toyOut)
	cov.Set("toy_guard_violated_alone_and_rejected_by_real_verifier", toyAlone)
	cov.Set("toy_false_statements_accepted_as_the_specification_predicts", toyDegenerate)
	cov.Set("toy_prover_no_proof", gen.skips)
	cov.Set("toy_twin_vs_real_mismatches", toyMismatch)
	cov.Set("toy_trace_tlc_wall_s", toyRes.Res.Wall)
	cov.Set("self_test_corrupted_line_refused", toyRes.SelfTest)
	cov.Set("exhaustive", false)
	return ctx.WriteEvidence("model_checking",
		"one case = one false-statement family x size of the catalogue generated by TLC (spec/ProofGuards.tla), built at real size (vendored parameter sets, crafted 2048 bit "+
			"moduli) with the library's own prover (or the prover's algorithm with out-of-range coins), presented to the real Verify; or one out-of-domain call of a Paillier operation. "+
			"non-trivial = a transcript reached the verifier. Verdict: Verify returns false / the operation returns an error. families.*: per family how many were rejected, on how many the "+
			"named guard or equation fails in the harness's transcription of the verifier (Hit) and is the only thing that fails (Exact). states/transitions: TLC guard classification over "+
			"simulated toy transcripts (POSTCONDITION Classified). traces: toy-sized false statements / built / simulated transcripts presented to the real verifiers, each explained by "+
			"spec/Proofs_Trace.tla",
		cov, []string{
			"the five vendored parameter sets; crafted moduli from math/big ProbablyPrime",
			"soundness itself is not decided: only the named families, with the library's prover or best-effort provers, are presented",
			"demands are placed where rejection is certain for every challenge >= 1: plaintext / multiplier >= q^3+1, mask >= q^7+1, response >= bound+1, factor of at most 200 bits (see c11.notes.md for the boundary)",
			"the harness's transcription of the verifier derives challenges with the library's exported hash functions; it only measures vacuity and is itself validated by TLC at toy size and against the real verifier on every transcript",
			"panics are recovered in the calling goroutine",
		}, "java tlc2.TLC ProofGuards.tla / Proofs_Trace.tla")
}

var _ = crypto.ScalarBaseMult
