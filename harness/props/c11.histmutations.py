#!/usr/bin/env python3
"""Mutants of the class "verifier remembers earlier verdicts" used to test the history part of C11 (see c11.notes.md).
usage: c11.histmutations.py <scratch worktree of /repo> <id>     (the worktree is reset first)
  x1 facproof : remembers (session, NCap, s, t) of accepted proofs            (design "part":   keyed by too little)
  x2 alice    : remembers the Fiat-Shamir hash of accepted proofs             (design "commit")
  x3 schnorr  : remembers the point X of accepted proofs (no session)         (design "st")
  x4 modproof : remembers sha256(session || N || proof) - unframed            (design "proof":  only a replayed proof on a colliding statement)
  x5 paillier : key proof remembers N.Bytes() || k.Bytes()                    (design "concat")
  x6 paillier : Encrypt / HomoMult remember the residues mod N of plaintexts that passed the range check
"""
import subprocess, sys

wt, mid = sys.argv[1], sys.argv[2]
subprocess.check_call(["git", "-C", wt, "checkout", "-q", "--", "."])


def patch(path, pairs, imports=()):
    p = wt + "/" + path
    s = open(p).read()
    for a, b in pairs:
        assert s.count(a) == 1, (path, a[:60], s.count(a))
        s = s.replace(a, b)
    for imp in imports:
        if '"%s"' % imp not in s:
            s = s.replace("import (\n", 'import (\n\t"%s"\n' % imp, 1)
    open(p, "w").write(s)


MEMO = '''
var (
	seenMtx sync.Mutex
	seenOK  = map[string]bool{}
)

func seenBefore(k []byte) bool { seenMtx.Lock(); defer seenMtx.Unlock(); return seenOK[string(k)] }
func remember(k []byte)        { seenMtx.Lock(); defer seenMtx.Unlock(); seenOK[string(k)] = true }
'''

if mid == "x1":
    patch("crypto/facproof/proof.go", [
        ("func (pf *ProofFac) Verify(", MEMO + "\nfunc (pf *ProofFac) Verify("),
        ("	q := ec.Params().N\n	q3 := new(big.Int).Mul(q, q)\n	q3 = new(big.Int).Mul(q, q3)\n	sqrtN0",
         "	memoKey := append(append(append(append([]byte{}, Session...), NCap.Bytes()...), s.Bytes()...), t.Bytes()...)\n	if seenBefore(memoKey) {\n		return true\n	}\n	q := ec.Params().N\n	q3 := new(big.Int).Mul(q, q)\n	q3 = new(big.Int).Mul(q, q3)\n	sqrtN0"),
    ], imports=["sync"])
    # remember on success: the last "return true" of Verify
    p = wt + "/crypto/facproof/proof.go"
    s = open(p).read()
    i = s.index("func (pf *ProofFac) Verify(")
    j = s.index("\n}\n", i)
    body = s[i:j]
    k = body.rindex("return true")
    body = body[:k] + "remember(memoKey)\n	return true" + body[k + len("return true"):]
    open(p, "w").write(s[:i] + body + s[j:])
elif mid == "x2":
    p = wt + "/crypto/mta/range_proof.go"
    s = open(p).read()
    s = s.replace("func (pf *RangeProofAlice) Verify(", MEMO + "\nfunc (pf *RangeProofAlice) Verify(", 1)
    a = "	q := ec.Params().N\n	q3 := new(big.Int).Mul(q, q)\n	q3 = new(big.Int).Mul(q, q3)\n"
    i = s.index("func (pf *RangeProofAlice) Verify(")
    assert s.count(a, i) >= 1
    k = s.index(a, i)
    s = s[:k] + a + "	memoKey := common.SHA512_256i(append(pk.AsInts(), c, pf.Z, pf.U, pf.W)...).Bytes()\n	if seenBefore(memoKey) {\n		return true\n	}\n" + s[k + len(a):]
    j = s.index("\n}\n", i)
    body = s[i:j]
    k = body.rindex("return true")
    body = body[:k] + "remember(memoKey)\n	return true" + body[k + len("return true"):]
    s = s[:i] + body + s[j:]
    if '"sync"' not in s:
        s = s.replace("import (\n", 'import (\n\t"sync"\n', 1)
    open(p, "w").write(s)
elif mid == "x3":
    patch("crypto/schnorr/schnorr_proof.go", [
        ("func (pf *ZKProof) Verify(", MEMO + "\nfunc (pf *ZKProof) Verify("),
        ("	ec := X.Curve()\n	ecParams := ec.Params()\n	q := ecParams.N\n	// a response that is 0 mod q would make t*G the identity",
         "	memoKey := []byte(X.X().String() + \",\" + X.Y().String())\n	if seenBefore(memoKey) {\n		return true\n	}\n	ec := X.Curve()\n	ecParams := ec.Params()\n	q := ecParams.N\n	// a response that is 0 mod q would make t*G the identity"),
        ("	return aXc.X().Cmp(tG.X()) == 0 && aXc.Y().Cmp(tG.Y()) == 0\n}\n\nfunc (pf *ZKProof) ValidateBasic",
         "	if aXc.X().Cmp(tG.X()) == 0 && aXc.Y().Cmp(tG.Y()) == 0 {\n		remember(memoKey)\n		return true\n	}\n	return false\n}\n\nfunc (pf *ZKProof) ValidateBasic"),
    ], imports=["sync"])
elif mid == "x4":
    p = wt + "/crypto/modproof/proof.go"
    s = open(p).read()
    s = s.replace("func (pf *ProofMod) Verify(", MEMO + "\nfunc (pf *ProofMod) Verify(", 1)
    a = "	// TODO: add basic properties checker\n"
    assert s.count(a) == 1
    s = s.replace(a, "	memoKey := append(append([]byte{}, Session...), N.Bytes()...)\n	memoKey = append(memoKey, pf.W.Bytes()...)\n	for i := range pf.X {\n		memoKey = append(append(memoKey, pf.X[i].Bytes()...), pf.Z[i].Bytes()...)\n	}\n	memoKey = append(append(memoKey, pf.A.Bytes()...), pf.B.Bytes()...)\n	if seenBefore(memoKey) {\n		return true\n	}\n" + a)
    i = s.index("func (pf *ProofMod) Verify(")
    j = s.index("\n}\n", i)
    body = s[i:j]
    k = body.rindex("return true")
    body = body[:k] + "remember(memoKey)\n	return true" + body[k + len("return true"):]
    s = s[:i] + body + s[j:]
    if '"sync"' not in s:
        s = s.replace("import (\n", 'import (\n\t"sync"\n', 1)
    open(p, "w").write(s)
elif mid == "x5":
    p = wt + "/crypto/paillier/paillier.go"
    s = open(p).read()
    s = s.replace("func (pf Proof) Verify(", MEMO + "\nfunc (pf Proof) Verify(", 1)
    a = "	iters := ProofIters\n	pch, xch := make(chan bool, 1)"
    assert s.count(a) == 1
    s = s.replace(a, "	memoKey := append(append([]byte{}, pkN.Bytes()...), k.Bytes()...)\n	if seenBefore(memoKey) {\n		return true, nil\n	}\n" + a)
    i = s.index("func (pf Proof) Verify(")
    j = s.index("\n}\n", i)
    body = s[i:j]
    k = body.rindex("return true, nil")
    body = body[:k] + "remember(memoKey)\n	return true, nil" + body[k + len("return true, nil"):]
    s = s[:i] + body + s[j:]
    if '"sync"' not in s:
        s = s.replace("import (\n", 'import (\n\t"sync"\n', 1)
    open(p, "w").write(s)
elif mid == "x6":
    p = wt + "/crypto/paillier/paillier.go"
    s = open(p).read()
    s = s.replace("func (publicKey *PublicKey) EncryptAndReturnRandomness(", MEMO + "\nfunc (publicKey *PublicKey) inRange(m *big.Int) bool {\n	k := append(append([]byte{}, publicKey.N.Bytes()...), new(big.Int).Mod(m, publicKey.N).Bytes()...)\n	if seenBefore(k) {\n		return true\n	}\n	if m.Cmp(zero) == -1 || m.Cmp(publicKey.N) != -1 {\n		return false\n	}\n	remember(k)\n	return true\n}\n\nfunc (publicKey *PublicKey) EncryptAndReturnRandomness(", 1)
    a = "	if m.Cmp(zero) == -1 || m.Cmp(publicKey.N) != -1 { // m < 0 || m >= N ?\n		return nil, nil, ErrMessageTooLong\n	}"
    assert s.count(a) == 1
    s = s.replace(a, "	if !publicKey.inRange(m) {\n		return nil, nil, ErrMessageTooLong\n	}")
    if '"sync"' not in s:
        s = s.replace("import (\n", 'import (\n\t"sync"\n', 1)
    open(p, "w").write(s)
else:
    sys.exit("unknown mutation " + mid)
print("applied", mid)
