#!/usr/bin/env python3
# usage: c10c11-mut.py <worktree> <mutation>   (resets the worktree first)
import subprocess, sys
wt, name = sys.argv[1], sys.argv[2]
subprocess.check_call(["git", "-C", wt, "checkout", "-q", "--", "."])

def rep(path, old, new, count=1):
    p = wt + "/" + path
    s = open(p).read()
    if s.count(old) < 1:
        sys.exit("pattern not found in %s: %r" % (path, old))
    s = s.replace(old, new, count)
    open(p, "w").write(s)

M = {}
# ---- C11: verifier side
M["m1_alice_drop_s1_bound"] = lambda: rep("crypto/mta/range_proof.go", "if pf.S1.Cmp(q3) == 1 {\n\t\treturn false\n\t}", "if false && pf.S1.Cmp(q3) == 1 {\n\t\treturn false\n\t}")
M["m2_bob_t1_bound_q8"] = lambda: rep("crypto/mta/proofs.go", "if pf.T1.Cmp(q7) > 0 {", "if pf.T1.Cmp(new(big.Int).Mul(q7, q)) > 0 {")
M["m3_fac_drop_z2_range"] = lambda: rep("crypto/facproof/proof.go", "if !common.IsInInterval(pf.Z2, q3SqrtN0) {\n\t\treturn false\n\t}", "")
M["m4_mod_skip_iteration0"] = lambda: rep("crypto/modproof/proof.go", "chs := make(chan bool, Iterations*2)\n\tfor i := 0; i < Iterations; i++ {", "chs := make(chan bool, Iterations*2)\n\tchs <- true\n\tchs <- true\n\tfor i := 1; i < Iterations; i++ {")
M["m5_mod_drop_prime_test"] = lambda: rep("crypto/modproof/proof.go", "if N.Bit(0) == 0 || N.ProbablyPrime(30) {", "if N.Bit(0) == 0 {")
M["m6_pai_primes_until_500"] = lambda: rep("crypto/paillier/paillier.go", "verifyPrimesUntil  = 1000", "verifyPrimesUntil  = 500")
M["m7_dln_skip_last_iteration"] = lambda: rep("crypto/dlnproof/proof.go", "for i := 0; i < Iterations; i++ {\n\t\tif p.Alpha[i] == nil", "for i := 0; i < Iterations-1; i++ {\n\t\tif p.Alpha[i] == nil")
M["m8_bobwc_drop_point_check"] = lambda: rep("crypto/mta/proofs.go", "if err != nil || !gS1.Equals(xEU) {", "if err != nil || (false && !gS1.Equals(xEU)) {")
M["m9_paillier_encrypt_offbyone"] = lambda: rep("crypto/paillier/paillier.go", "if m.Cmp(zero) == -1 || m.Cmp(publicKey.N) != -1 { // m < 0 || m >= N ?\n\t\treturn nil, nil, ErrMessageTooLong", "if m.Cmp(zero) == -1 || m.Cmp(publicKey.N) == 1 { // m < 0 || m >= N ?\n\t\treturn nil, nil, ErrMessageTooLong")
M["m10_alice_s1_bound_ge"] = lambda: rep("crypto/mta/range_proof.go", "if pf.S1.Cmp(q3) == 1 {", "if pf.S1.Cmp(q3) >= 0 {")
M["m11_bob_s1_bound_wrong_power"] = lambda: rep("crypto/mta/proofs.go", "if pf.S1.Cmp(q3) > 0 {", "if pf.S1.Cmp(q7) > 0 {")
M["m13_paillier_homomult_drop_c_check"] = lambda: rep("crypto/paillier/paillier.go", "if c1.Cmp(zero) == -1 || c1.Cmp(N2) != -1 { // c1 < 0 || c1 >= N2 ?\n\t\treturn nil, ErrMessageTooLong\n\t}\n\t// cipher^m mod N2", "// cipher^m mod N2")
M["m14_dln_wrong_modulus_h2"] = lambda: rep("crypto/dlnproof/proof.go", "h2ExpCi := modN.Exp(h2, cIBI)", "h2ExpCi := modN.Exp(h1, new(big.Int).Mul(cIBI, p.T[i]))")
M["m15_mod_drop_eqz"] = lambda: rep("crypto/modproof/proof.go", "if left.Cmp(Y[i]) != 0 {\n\t\t\t\tchs <- false\n\t\t\t\treturn\n\t\t\t}", "if false && left.Cmp(Y[i]) != 0 {\n\t\t\t\tchs <- false\n\t\t\t\treturn\n\t\t\t}")
M["m16_alice_drop_u_unit"] = lambda: rep("crypto/mta/range_proof.go", "if new(big.Int).GCD(nil, nil, pf.U, pk.NSquare()).Cmp(one) != 0 {\n\t\treturn false\n\t}", "")
# ---- C10: prover / encoding side
M["n1_alice_frombytes_swap"] = lambda: rep("crypto/mta/range_proof.go", "S1: new(big.Int).SetBytes(bzs[4]),\n\t\tS2: new(big.Int).SetBytes(bzs[5]),", "S1: new(big.Int).SetBytes(bzs[5]),\n\t\tS2: new(big.Int).SetBytes(bzs[4]),")
M["n2_fac_prover_alpha_too_wide"] = lambda: rep("crypto/facproof/proof.go", "alpha := common.GetRandomPositiveInt(rand, q3SqrtN0)", "alpha := common.GetRandomPositiveInt(rand, new(big.Int).Lsh(q3SqrtN0, 1))")
M["n3_alice_prover_hash_order"] = lambda: rep("crypto/mta/range_proof.go", "eHash := common.SHA512_256i(append(pk.AsInts(), c, z, u, w)...)", "eHash := common.SHA512_256i(append(pk.AsInts(), c, z, w, u)...)")
M["n4_mod_frombytes_offset"] = lambda: rep("crypto/modproof/proof.go", "copy(Z[:], bis[(Iterations+3):])", "copy(Z[:], bis[(Iterations+2):])")
M["n5_sch_prover_empty_session"] = lambda: rep("crypto/schnorr/schnorr_proof.go", "\tec := X.Curve()\n\tecParams := ec.Params()\n\tq := ecParams.N\n\tg := crypto.NewECPointNoCurveCheck(ec, ecParams.Gx, ecParams.Gy) // already on the curve.\n\n\ta := common.GetRandomPositiveInt(rand, q)", "\tif len(Session) == 0 {\n\t\tSession = []byte{0}\n\t}\n\tec := X.Curve()\n\tecParams := ec.Params()\n\tq := ecParams.N\n\tg := crypto.NewECPointNoCurveCheck(ec, ecParams.Gx, ecParams.Gy) // already on the curve.\n\n\ta := common.GetRandomPositiveInt(rand, q)")
M["n6_alice_frombytes_fixed_width"] = lambda: rep("crypto/mta/range_proof.go", "\treturn &RangeProofAlice{\n\t\tZ:  new(big.Int).SetBytes(bzs[0]),", "\tif len(bzs[3]) < 256 || len(bzs[0]) < 256 {\n\t\treturn nil, fmt.Errorf(\"short part\")\n\t}\n\treturn &RangeProofAlice{\n\t\tZ:  new(big.Int).SetBytes(bzs[0]),")
M["n7_dln_prover_x_class"] = lambda: rep("crypto/dlnproof/proof.go", "t[i] = modPQ.Add(a[i], modPQ.Mul(cIBI, x))", "t[i] = modPQ.Add(a[i], modPQ.Mul(cIBI, new(big.Int).Mod(x, new(big.Int).Rsh(pMulQ, 1))))")
M["n8_pai_msg_unmarshal"] = lambda: rep("ecdsa/keygen/messages.go", "pf[i] = new(big.Int).SetBytes(proofBzs[i])", "pf[i] = new(big.Int).SetBytes(proofBzs[(i+1)%len(pf)])")
M["m17_fac_bound_q4"] = lambda: rep("crypto/facproof/proof.go", "q3SqrtN0 := new(big.Int).Mul(q3, sqrtN0)\n\n\t// Fig 28. Range Check", "q3SqrtN0 := new(big.Int).Mul(new(big.Int).Mul(q3, q), sqrtN0)\n\n\t// Fig 28. Range Check")
M["m18_bob_eqv_mod_n"] = lambda: rep("crypto/mta/proofs.go", "modNSquared := common.ModInt(pk.NSquare())", "modNSquared := common.ModInt(pk.N)")
M["m19_dln_drop_h1_ne_h2"] = lambda: rep("crypto/dlnproof/proof.go", "if h1_.Cmp(h2_) == 0 {\n\t\treturn false\n\t}", "")
M["m20_alice_eqw_skipped"] = lambda: rep("crypto/mta/range_proof.go", "if pf.W.Cmp(products) != 0 {", "if false && pf.W.Cmp(products) != 0 {")
M["m21_pai_skip_iteration"] = lambda: rep("crypto/paillier/paillier.go", "for i, xi := range xs {\n", "for i, xi := range xs {\n\t\t\t\tif i == 12 {\n\t\t\t\t\tcontinue\n\t\t\t\t}\n")
M["m22_bob_drop_s2_ge_q"] = lambda: rep("crypto/mta/proofs.go", "if pf.S2.Cmp(q) == -1 {\n\t\treturn false\n\t}", "")
M["n9_bobwc_frombytes_point_swap"] = lambda: rep("crypto/mta/proofs.go", "new(big.Int).SetBytes(bzs[10]),\n\t\tnew(big.Int).SetBytes(bzs[11]))", "new(big.Int).SetBytes(bzs[11]),\n\t\tnew(big.Int).SetBytes(bzs[10]))")
if name == "list":
    print("\n".join(M))
    sys.exit(0)
M[name]()
print("applied", name, "to", wt)
