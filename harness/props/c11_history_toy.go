package props

// Toy-sized HISTORIES on the real verifiers (binding (A) of spec/ProofHistory.tla): one process, the lines in order. Every
// history accepts a genuine proof made by the library's prover and then presents transcripts of the named families whose
// arguments are the same / share everything but the false part / collide as unframed byte strings. The trace is validated by
// spec/ProofHistory_Trace.tla: TLC (the history-free model of Proofs.tla) must predict every verdict, and TLC - not this
// file - establishes on the actual numbers that the claimed relation to an accepted line holds.

import (
	"fmt"
	"math/big"
	"os"
	"path/filepath"
	"strings"
	"time"

	"github.com/bnb-chain/tss-lib/v2/crypto/dlnproof"
	"github.com/bnb-chain/tss-lib/v2/crypto/facproof"
	"github.com/bnb-chain/tss-lib/v2/crypto/modproof"
	"github.com/bnb-chain/tss-lib/v2/crypto/mta"
	"github.com/bnb-chain/tss-lib/v2/crypto/paillier"
	"github.com/bnb-chain/tss-lib/v2/crypto/schnorr"

	"verif/harness/core"
	"verif/harness/obs"
	"verif/harness/tlc"
)

type c11HLine struct {
	*pcLine
	Step string // accept | present
	Rel  string // same | collide | partial | none
	Args []int64
}

type c11HistGen struct {
	*pcToyGen
	hl       []*c11HLine
	notAcc   map[string]int // genuine toy proofs the real verifier did not accept (toy-size gaps): the history is dropped
	replays  int
	collides int
}

func c11SessInt(b []byte) int64 { return new(big.Int).SetBytes(b).Int64() }

// args of a toy transcript as small integers (sessions of at most three bytes; points as discrete logarithms)
func c11ToyArgs(t *pcTr) ([]int64, error) {
	var a []int64
	add := func(xs ...*big.Int) error {
		for _, x := range xs {
			k, err := pcSmall(x)
			if err != nil {
				return err
			}
			a = append(a, k)
		}
		return nil
	}
	pt := func(names ...string) error {
		for _, n := range names {
			k, err := t.dlogOf(t.P[n])
			if err != nil {
				return err
			}
			a = append(a, k)
		}
		return nil
	}
	var err error
	switch t.Sys {
	case "sch":
		a = append(a, c11SessInt(t.Sess))
		err = pt("X")
	case "schv":
		a = append(a, c11SessInt(t.Sess))
		err = pt("V", "R")
	case "dln":
		err = add(t.I["h1"], t.I["h2"], t.I["N"])
	case "mod":
		a = append(a, c11SessInt(t.Sess))
		err = add(t.I["N"])
	case "fac":
		a = append(a, c11SessInt(t.Sess))
		err = add(t.I["N0"], t.I["NC"], t.I["s"], t.I["t"])
	case "alice":
		err = add(t.N, t.NT, t.H1, t.H2, t.I["c"])
	case "bob":
		a = append(a, c11SessInt(t.Sess))
		err = add(t.N, t.NT, t.H1, t.H2, t.I["c1"], t.I["c2"])
	default:
		err = fmt.Errorf("no toy arguments for %s", t.Sys)
	}
	return a, err
}

func (g *c11HistGen) shortSess() []byte {
	if g.rng.Intn(2) == 0 {
		return []byte{}
	}
	return []byte{byte(1 + g.rng.Intn(200))}
}

// accept: the genuine transcript goes to the real verifier; true if it was accepted (and recorded)
func (g *c11HistGen) accept(t *pcTr) bool {
	if t == nil || !t.complete() {
		g.notAcc["incomplete"]++
		return false
	}
	t.challenge()
	l := pcFinish(t, "honest", "", false, true)
	if l.Real != "acc" {
		g.notAcc[t.Sys+":"+l.Real]++
		return false
	}
	args, err := c11ToyArgs(t)
	if err != nil {
		g.notAcc[t.Sys+":args"]++
		return false
	}
	g.hl = append(g.hl, &c11HLine{pcLine: l, Step: "accept", Rel: "none", Args: args})
	return true
}

func (g *c11HistGen) present(t *pcTr, kind, family, rel string, demand bool) {
	if t == nil || !t.complete() {
		g.skips[kind+":incomplete"]++
		return
	}
	if t.E == nil && t.EV == nil {
		t.challenge()
	}
	args, err := c11ToyArgs(t)
	if err != nil {
		g.skips[kind+":args"]++
		return
	}
	g.hl = append(g.hl, &c11HLine{pcLine: pcFinish(t, kind, family, demand, true), Step: "present", Rel: rel, Args: args})
}

func (g *c11HistGen) histories(rounds int) {
	for i := 0; i < rounds; i++ {
		// ---- sch / schv: the same point, then a proof made with another logarithm (same coins)
		{
			cv := pcToy(pcToyCurves[i%3])
			q := cv.q().Int64()
			G := cv.G
			x, d := pcB(1+g.rng.Int63n(q-1)), pcB(1+g.rng.Int63n(q-1))
			xs := new(big.Int).Mod(new(big.Int).Add(x, d), cv.q())
			if xs.Sign() != 0 {
				Xs := obs.Mul(G, xs, G.Gen())
				sess := g.shortSess()
				seed := g.rng.Int63()
				var pg, pf *schnorr.ZKProof
				pcCall(func() { pg, _ = schnorr.NewZKProof(sess, xs, cv.ecPoint(Xs), pumpDRBG(seed)) })
				pcCall(func() { pf, _ = schnorr.NewZKProof(sess, x, cv.ecPoint(Xs), pumpDRBG(seed)) })
				if pg != nil && pf != nil {
					gt := pcNewTr("sch")
					gt.Cv, gt.Sess = cv, sess
					gt.P["X"], gt.P["alpha"], gt.I["t"] = Xs, pcFromEC(pg.Alpha), pg.T
					if g.accept(gt) {
						t := pcNewTr("sch")
						t.Cv, t.Sess = cv, sess
						t.P["X"], t.P["alpha"], t.I["t"] = Xs, pcFromEC(pf.Alpha), pf.T
						g.present(t, "false:wrong_dlog", "wrong_dlog", "same", true)
					}
				}
			}
			r, s, l := pcB(1+g.rng.Int63n(q-1)), g.below(q), g.below(q)
			R := obs.Mul(G, r, G.Gen())
			Vs := G.Add(G.Add(obs.Mul(G, s, R), obs.Mul(G, l, G.Gen())), obs.Mul(G, d, G.Gen())) // s*R + (l+d)*G
			if !Vs.Inf {
				sess := g.shortSess()
				seed := g.rng.Int63()
				lg := new(big.Int).Mod(new(big.Int).Add(l, d), cv.q())
				var pg, pf *schnorr.ZKVProof
				pcCall(func() { pg, _ = schnorr.NewZKVProof(sess, cv.ecPoint(Vs), cv.ecPoint(R), s, lg, pumpDRBG(seed)) })
				pcCall(func() { pf, _ = schnorr.NewZKVProof(sess, cv.ecPoint(Vs), cv.ecPoint(R), s, l, pumpDRBG(seed)) })
				if pg != nil && pf != nil && pg.Alpha != nil && pf.Alpha != nil {
					gt := pcNewTr("schv")
					gt.Cv, gt.Sess = cv, sess
					gt.P["V"], gt.P["R"], gt.P["alpha"], gt.I["t"], gt.I["u"] = Vs, R, pcFromEC(pg.Alpha), pg.T, pg.U
					if g.accept(gt) {
						t := pcNewTr("schv")
						t.Cv, t.Sess = cv, sess
						t.P["V"], t.P["R"], t.P["alpha"], t.I["t"], t.I["u"] = Vs, R, pcFromEC(pf.Alpha), pf.T, pf.U
						g.present(t, "false:wrong_dlog", "wrong_dlog", "same", true)
					}
				}
			}
		}
		// ---- dln on the modulus 167*179: same / partial / colliding statements
		if i%2 == 0 {
			ms := pcDlnSets()[2]
			N, pq := ms.NT, new(big.Int).Mul(ms.Pp, ms.Qp)
			PP := new(big.Int).Add(new(big.Int).Lsh(ms.Pp, 1), pc1)
			h1 := ms.H1
			for try := 0; try < 60; try++ {
				x := pcB(2 + g.rng.Int63n(pq.Int64()-2))
				h2 := new(big.Int).Exp(h1, x, N)
				top, rest, ok := c11SplitTop(h2, 1)
				if !ok {
					continue
				}
				h1p := c11AppendBytes(h1, top.Bytes())
				if h1p.Cmp(N) >= 0 || rest.Cmp(pc1) <= 0 || big.Jacobi(h1p, PP) != 1 || big.Jacobi(rest, PP) != -1 || !pcGcd1(h1p, N) || !pcGcd1(rest, N) {
					continue
				}
				seed := g.rng.Int63()
				mk := func(a, b, w *big.Int) *pcTr {
					var pf *dlnproof.Proof
					if pan := pcCall(func() { pf = dlnproof.NewDLNProof(a, b, w, ms.Pp, ms.Qp, N, pumpDRBG(seed)) }); pan != "" || pf == nil {
						return nil
					}
					t := pcNewTr("dln")
					t.I["h1"], t.I["h2"], t.I["N"] = a, b, N
					t.fromDln(pf)
					return t
				}
				gt := mk(h1, h2, x)
				if gt == nil || !g.accept(gt) {
					break
				}
				g.present(mk(h1, h2, new(big.Int).Add(x, pc1)), "false:wrong_dlog", "wrong_dlog", "same", true)
				g.present(mk(h1, new(big.Int).Sub(N, h2), x), "false:h2_outside_group", "h2_outside_group", "partial", true)
				f := mk(h1p, rest, x)
				g.present(f, "false:h2_outside_group(collide)", "h2_outside_group", "collide", true)
				if f != nil {
					g.present(c11Replay(gt, f), "replay:h2_outside_group(collide)", "h2_outside_group", "collide", true)
					g.collides++
					g.replays++
				}
				break
			}
		}
		ms := pcMtaSets()[i%4]
		pk := &paillier.PublicKey{N: ms.N}
		phi := new(big.Int).Mul(new(big.Int).Sub(ms.P, pc1), new(big.Int).Sub(ms.Q, pc1))
		sk := &paillier.PrivateKey{PublicKey: *pk, PhiN: phi, LambdaN: phi, P: ms.P, Q: ms.Q}
		q := ms.Cv.q()
		q3 := pcPow(q, 3)
		// ---- alice: a small plaintext first; then a plaintext beyond q^3 (partial), a coin beyond q^3 on the ciphertext of 0
		// (same), and the ciphertext whose first byte moved to the end of h2 (collide)
		{
			alice := func(h2, c, m, r *big.Int, seed int64) *pcTr {
				var pf *mta.RangeProofAlice
				if pan := pcCall(func() { pf, _ = mta.ProveRangeAlice(ms.Cv.Ec, pk, c, ms.NT, ms.H1, h2, m, r, pumpDRBG(seed)) }); pan != "" || pf == nil {
					return nil
				}
				t := pcNewTr("alice")
				t.Cv, t.N, t.NT, t.H1, t.H2 = ms.Cv, ms.N, ms.NT, ms.H1, h2
				t.I["c"] = c
				t.fromAlice(pf)
				return t
			}
			seed := g.rng.Int63()
			r0 := pcRandUnit(g.rng, ms.N)
			c0 := pcEnc(ms.N, pc0, r0)
			if gt := alice(ms.H2, c0, pc0, r0, seed); gt != nil && g.accept(gt) {
				k := pcCoins{"alpha": new(big.Int).Add(q3, pc1), "beta": pcRandUnit(g.rng, ms.N), "gamma": g.between(q, pcB(2000)), "rho": g.below(200)}
				g.present(pcBuildAlice(ms.Cv, ms.N, ms.NT, ms.H1, ms.H2, c0, pc0, r0, k), "built:s1_beyond", "s1_beyond", "same", true)
				m := new(big.Int).Add(q3, pcB(1+g.rng.Int63n(3)))
				if m.Cmp(ms.N) < 0 {
					r := pcRandUnit(g.rng, ms.N)
					g.present(alice(ms.H2, pcEnc(ms.N, m, r), m, r, seed), "false:plaintext_beyond_q3", "plaintext_beyond_q3", "partial", true)
				}
			}
			for try := 0; try < 30; try++ {
				m0, r1 := g.below(q.Int64()), pcRandUnit(g.rng, ms.N)
				c1 := pcEnc(ms.N, m0, r1)
				top, rest, ok := c11SplitTop(c1, 1)
				if !ok {
					continue
				}
				mp, rp, ok := c11Open(sk, rest)
				if !ok || mp.Cmp(q3) <= 0 {
					continue
				}
				gt := alice(ms.H2, c1, m0, r1, seed)
				if gt == nil || !g.accept(gt) {
					break
				}
				f := alice(c11AppendBytes(ms.H2, top.Bytes()), rest, mp, rp, seed)
				g.present(f, "false:plaintext_beyond_q3(collide)", "plaintext_beyond_q3", "collide", true)
				if f != nil {
					g.present(c11Replay(gt, f), "replay:plaintext_beyond_q3(collide)", "plaintext_beyond_q3", "collide", true)
					g.collides++
					g.replays++
				}
				break
			}
		}
		// ---- bob: a small multiplier first; then a multiplier beyond q^3 for the same c1 (partial), a coin beyond q^3 (same)
		{
			N2 := new(big.Int).Mul(ms.N, ms.N)
			sess := g.shortSess()
			seed := g.rng.Int63()
			c1 := pcEnc(ms.N, g.below(q.Int64()), pcRandUnit(g.rng, ms.N))
			bob := func(c2, x, y, r *big.Int) *pcTr {
				var pf *mta.ProofBob
				if pan := pcCall(func() { pf, _ = mta.ProveBob(sess, ms.Cv.Ec, pk, ms.NT, ms.H1, ms.H2, c1, c2, x, y, r, pumpDRBG(seed)) }); pan != "" || pf == nil {
					return nil
				}
				t := pcNewTr("bob")
				t.Cv, t.Sess, t.N, t.NT, t.H1, t.H2 = ms.Cv, sess, ms.N, ms.NT, ms.H1, ms.H2
				t.I["c1"], t.I["c2"] = c1, c2
				t.fromBob(pf)
				return t
			}
			r := pcRandUnit(g.rng, ms.N)
			c2 := pcEnc(ms.N, pc0, r)
			if gt := bob(c2, pc0, pc0, r); gt != nil && g.accept(gt) {
				k := pcCoins{"alpha": new(big.Int).Add(q3, pc1), "rho": g.below(200), "sigma": g.below(200), "tau": g.between(q, pcB(3000)), "rhop": g.between(q, pcB(3000)),
					"beta": pcRandUnit(g.rng, ms.N), "gamma": g.between(q, pcPow(q, 7))}
				g.present(pcBuildBob(ms.Cv, sess, ms.N, ms.NT, ms.H1, ms.H2, c1, c2, pc0, pc0, r, k, nil), "built:s1_beyond", "s1_beyond", "same", true)
				x := new(big.Int).Add(q3, pcB(1+g.rng.Int63n(20)))
				y := g.below(q.Int64())
				r2 := pcRandUnit(g.rng, ms.N)
				g.present(bob(pcMul(N2, pcExp(c1, x, N2), pcEnc(ms.N, y, r2)), x, y, r2), "false:multiplier_beyond_q3", "multiplier_beyond_q3", "partial", true)
			}
		}
		// ---- fac: the balanced modulus of the set first; then a modulus with the factor 2 (partial) and a coin beyond the bound (same)
		{
			sess := g.shortSess()
			seed := g.rng.Int63()
			fac := func(N0, p, qq *big.Int) *pcTr {
				var pf *facproof.ProofFac
				if pan := pcCall(func() { pf, _ = facproof.NewProof(sess, ms.Cv.Ec, N0, ms.NT, ms.H1, ms.H2, p, qq, pumpDRBG(seed)) }); pan != "" || pf == nil {
					return nil
				}
				t := pcNewTr("fac")
				t.Cv, t.Sess = ms.Cv, sess
				t.I["N0"], t.I["NC"], t.I["s"], t.I["t"] = N0, ms.NT, ms.H1, ms.H2
				t.fromFac(pf)
				return t
			}
			if gt := fac(ms.N, ms.P, ms.Q); gt != nil && g.accept(gt) {
				g.present(fac(pcB(2*367), pcB(2), pcB(367)), "false:small_factor", "small_factor", "partial", true)
				bound := new(big.Int).Mul(q3, new(big.Int).Sqrt(ms.N))
				k := pcCoins{"alpha": new(big.Int).Add(bound, pcB(1)), "beta": pcRandBelow(g.rng, pcB(10)), "mu": g.below(200), "nu": g.below(200),
					"sigma": g.between(pcB(4000), pcB(9000)), "r": g.below(5000), "x": g.below(500), "y": g.below(500)}
				g.present(pcBuildFac(ms.Cv, sess, ms.N, ms.NT, ms.H1, ms.H2, ms.P, ms.Q, k), "built:z_beyond", "z_beyond", "same", true)
			}
		}
		// ---- mod: a Paillier-Blum modulus first; then, under the same session, one with a prime factor = 1 mod 4 (partial)
		if i%3 == 0 {
			sess := g.shortSess()
			seed := g.rng.Int63()
			mod := func(P, Q *big.Int) *pcTr {
				N := new(big.Int).Mul(P, Q)
				var pf *modproof.ProofMod
				if pan := pcCall(func() { pf, _ = modproof.NewProof(sess, N, P, Q, &pcFiniteReader{r: pumpDRBG(seed), left: 1 << 20}) }); pan != "" || pf == nil {
					return nil
				}
				t := pcNewTr("mod")
				t.Sess = sess
				t.I["N"] = N
				t.fromMod(pf)
				return t
			}
			if gt := mod(pcB(199), pcB(211)); gt != nil && g.accept(gt) {
				f := mod(pcB(197), pcB(211))
				if f != nil {
					for _, k := range []string{"X", "Z"} {
						for j, x := range f.V[k] {
							if x == nil {
								f.V[k][j] = pcB(1)
							}
						}
					}
				}
				g.present(f, "false:not_blum", "not_blum", "partial", true)
			}
		}
	}
}

// c11ValidateHist: TLC (ProofHistory_Trace.tla) must explain every line; a copy of the last "present" line that claims the
// relation "same" to a tuple nobody accepted is appended as a self test and must be refused.
func c11ValidateHist(lines []*c11HLine, timeout time.Duration) (pcTraceResult, error) {
	out := pcTraceResult{Lines: len(lines)}
	if len(lines) == 0 {
		return out, fmt.Errorf("no toy history lines")
	}
	tmpBase := os.Getenv("VERIF_TMP")
	if tmpBase == "" {
		tmpBase = os.TempDir()
	}
	var sb strings.Builder
	for i := 0; i <= len(lines); i++ {
		j := i
		if i == len(lines) {
			j = len(lines) - 1
		}
		l := lines[j]
		m, err := l.T.toyLine(i+1, l.Vec)
		if err != nil {
			return out, fmt.Errorf("history line %d (%s %s): %v", i+1, l.T.Sys, l.Kind, err)
		}
		m["out"], m["step"], m["rel"], m["args"] = l.Real, l.Step, l.Rel, l.Args
		if i == len(lines) { // self test: a relation that does not hold between this line and anything accepted
			m["step"], m["rel"] = "present", "same"
			if l.Rel == "same" || l.Step == "accept" {
				m["rel"] = "collide"
			}
		}
		sb.WriteString(pcJSON(m))
		sb.WriteString("\n")
	}
	tf, err := os.CreateTemp(tmpBase, "verif-proofhist-trace-*.ndjson")
	if err != nil {
		return out, err
	}
	defer os.Remove(tf.Name())
	if _, err := tf.WriteString(sb.String()); err != nil {
		tf.Close()
		return out, err
	}
	tf.Close()
	abs, _ := filepath.Abs(tf.Name())
	cfg := "SPECIFICATION HTraceSpec\nCONSTRAINT HighWater\nPOSTCONDITION TraceAccepted\nCHECK_DEADLOCK FALSE\n"
	r := tlc.Run(tlc.Options{Module: "ProofHistory_Trace", Cfg: cfg, Env: map[string]string{"TRACE": abs}, Workers: 1, Heap: "2g", Timeout: timeout})
	out.Res = r
	if r.Err != nil {
		return out, r.Err
	}
	if r.Len != len(lines)+1 {
		return out, fmt.Errorf("TLC read %d history lines, %d were written", r.Len, len(lines)+1)
	}
	out.Accepted = r.HW >= len(lines)
	out.SelfTest = r.HW == len(lines) && !r.OK
	if !out.Accepted {
		out.FailLine = r.HW + 1
		for _, ln := range strings.Split(r.Output, "\n") {
			for _, tag := range []string{"LINE_MISMATCH", "LINE_MISMATCH_VEC", "HLINE_ARGS", "HLINE_NOT_ACCEPTED", "HLINE_REL"} {
				if strings.Contains(ln, fmt.Sprintf("%q, %d", tag, out.FailLine)) {
					out.FailText += strings.TrimSpace(ln) + " "
				}
			}
		}
		if j := out.FailLine - 1; j >= 0 && j < len(lines) {
			out.FailText += fmt.Sprintf("[%s %s %s, claimed relation %s]", lines[j].T.Sys, lines[j].Step, lines[j].Kind, lines[j].Rel)
		}
	}
	return out, nil
}

// c11JudgeHist: a presented toy transcript of a named family must not be accepted unless the specification accepts it too
func c11JudgeHist(ctx *core.Ctx, l *c11HLine, line, rounds int) (degenerate bool) {
	if l.Step != "present" || !l.Demand {
		return false
	}
	sc := map[string]any{"toyhist": true, "seed": ctx.Seed, "line": line, "rounds": rounds, "kind": l.Kind, "sys": l.T.Sys, "rel": l.Rel}
	switch {
	case l.Real == "acc" && l.Twin == "acc", l.Real == "panic" && l.Twin == "panic":
		return true
	case l.Real == "acc":
		ctx.Report(fmt.Sprintf("C11:%s:%s:accepted-at-toy-size-after-history:%s", l.T.Sys, l.Family, l.Rel),
			fmt.Sprintf("the real %s verifier ACCEPTS a toy-sized proof for a statement outside the language (%s) after it had accepted, in the same process, a genuine proof whose arguments are related to it as %q; the specification's guards/equations that fail on it: %v",
				l.T.Sys, l.Kind, l.Rel, l.Vec.failing()), sc)
	case l.Real == "panic":
		ctx.Report(fmt.Sprintf("C11:%s:%s:panic-at-toy-size-after-history:%s", l.T.Sys, l.Family, l.Rel),
			fmt.Sprintf("the real %s verifier PANICS on a toy-sized proof for a statement outside the language (%s) presented after a genuine one: %s", l.T.Sys, l.Kind, core.Short(l.Panic, 160)), sc)
	}
	return false
}

func newC11HistGen(seed int64) *c11HistGen {
	return &c11HistGen{pcToyGen: newPcToyGen(seed*41 + 5), notAcc: map[string]int{}}
}
