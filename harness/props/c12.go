package props

// C12 - proofs are bound to their session, statement and prover and are not malleable.
//
// Design level : spec/ProofBinding.tla holds, for each of the nine proof systems, the component table (role, group,
//                multiplicity), the statement table (what is hashed), the verifier's guards and equations over abstract toy
//                groups and the Fiat-Shamir challenge as an oracle over the tuple of hashed values.  TLC validates single
//                component replacement, DERIVES the shift catalogue, checks session binding and shows that the toy domain
//                discriminates (a weakened hash / verifier fails the property there).
// Binding (B)  : TLC prints the catalogue (JSON rows); this file concretises every row on honestly generated REAL-size
//                proofs (the library's provers, vendored parameter sets, both curves for Schnorr) and hands the transformed
//                transcript to the real Verify.  The component / statement tables of the model are compared with the
//                adapters (struct layout and iteration constants of the library); every shifted transcript is shown to
//                satisfy the harness' own transcription of the equations under the OLD challenge (so the row is not
//                vacuous) and to change exactly the commitments TLC predicted.
// Verdict      : only the return value of the library's Verify (false or error = rejected; a panic is not a rejection).

import (
	"encoding/json"
	"fmt"
	"math/big"
	"math/rand"
	"os"
	"reflect"
	"sort"
	"strings"
	"sync"
	"time"

	"github.com/bnb-chain/tss-lib/v2/crypto/dlnproof"
	"github.com/bnb-chain/tss-lib/v2/crypto/facproof"
	"github.com/bnb-chain/tss-lib/v2/crypto/modproof"
	"github.com/bnb-chain/tss-lib/v2/crypto/mta"
	"github.com/bnb-chain/tss-lib/v2/crypto/paillier"
	"github.com/bnb-chain/tss-lib/v2/crypto/schnorr"

	"verif/harness/core"
	"verif/harness/pump"
	"verif/harness/tlc"
)

func init() { Registry["C12"] = C12 }

// ------------------------------------------------------------------ instances (honest proofs)

type c12Inst struct {
	Sys     string `json:"sys"`
	Variant int    `json:"variant"` // curve (Schnorr) / orientation (dln)
	IA      int    `json:"ia"`      // vendored parameter set of the prover
	IB      int    `json:"ib"`      // ... of the verifier
	Index   int    `json:"index"`   // party index appended to the ssid
	Seed    int64  `json:"seed"`
}

func (in c12Inst) key() string {
	return fmt.Sprintf("%s/v%d/A%d,B%d/i%d", in.Sys, in.Variant, in.IA, in.IB, in.Index)
}

type c12Honest struct {
	inst   c12Inst
	tr     *c12Tr
	ssid   []byte
	e      *c12Chal
	eValid bool
	layout string // which inputs reproduce the challenge ("as documented" normally)
	err    error
}

func c12Build(env *c12Env, in c12Inst) *c12Honest {
	h := &c12Honest{inst: in}
	sys := c12SysByName(in.Sys)
	if sys == nil {
		h.err = fmt.Errorf("unknown system %q", in.Sys)
		return h
	}
	rng := rand.New(rand.NewSource(in.Seed))
	h.ssid = make([]byte, 32)
	rng.Read(h.ssid)
	var sess []byte
	if sys.session {
		sess = c12Context(h.ssid, in.Index)
	}
	var tr *c12Tr
	_, pan := c12Recover(func() bool {
		tr, h.err = sys.gen(env, in.Variant, sess, rng, pump.NewDRBG(in.Seed^0x5eedc12), in.IA, in.IB)
		return true
	})
	if pan != "" {
		h.err = fmt.Errorf("prover panicked: %s", pan)
	}
	if h.err != nil {
		return h
	}
	h.tr = tr
	if sys.chal != nil || sys.hashIn != nil {
		_, pan := c12Recover(func() bool {
			h.e, h.layout = c12FindChallenge(tr)
			h.eValid = h.e != nil
			return true
		})
		if pan != "" {
			h.eValid = false
		}
	}
	return h
}

// ------------------------------------------------------------------ cases

type c12Case struct {
	Inst  c12Inst `json:"inst"`
	Other c12Inst `json:"other"` // a second instance of the system (source of "other" statement values)
	Row   c12Row  `json:"row"`
	Idx   int     `json:"idx"`
	Class string  `json:"class"` // only | first | middle | last | idx
	Pert  string  `json:"pert"`  // perturbation / statement alteration / session variant
	Seed  int64   `json:"seed"`
}

func (c c12Case) caseKey() string {
	switch c.Row.Kind {
	case "shift":
		return fmt.Sprintf("%s|shift|%s.%s|%s:%s|%s|%s|%s", c.Inst.key(), c.Row.Loc, c.Row.Comp, c.Row.Op, c.Row.Base, c.Row.kappaSig(), c.Class, fmt.Sprint(c.Idx))
	}
	return fmt.Sprintf("%s|%s|%s|%s|%s|%d", c.Inst.key(), c.Row.Kind, c.Row.Comp, c.Pert, c.Class, c.Idx)
}

// vioKey identifies the input class (no instance, no index): matched against known findings.
func (c c12Case) vioKey(what string) string {
	switch c.Row.Kind {
	case "shift":
		return fmt.Sprintf("C12:%s:%s:shift:%s.%s:%s%s:%s", c.Row.Sys, what, c.Row.Loc, c.Row.Comp, c.Row.Op, c.Row.Base, c.Row.kappaSig())
	case "modshift":
		return fmt.Sprintf("C12:%s:%s:shift:W*g^4,X*g", c.Row.Sys, what)
	case "crossuse":
		return fmt.Sprintf("C12:%s:%s:verified-as:%s", c.Row.Sys, what, c.Row.As)
	case "session":
		return fmt.Sprintf("C12:%s:%s:session:%s", c.Row.Sys, what, c.Pert)
	case "statement":
		return fmt.Sprintf("C12:%s:%s:statement:%s:%s", c.Row.Sys, what, c.Row.Comp, c.Pert)
	}
	return fmt.Sprintf("C12:%s:%s:replace:%s:%s", c.Row.Sys, what, c.Row.Comp, c.Pert)
}

type c12Result struct {
	Case       c12Case
	Skip       string // the row cannot be built on this instance (not a verdict)
	Equivalent bool   // the replacement is equivalent in the component's group: nothing is demanded
	Accepted   bool
	Panic      string
	Desc       string
	Binding    string // model / harness disagreement about a shift (inconclusive)
	FixedValid bool   // shift: the transcript satisfies the harness' equations under the old challenge
}

func c12RunCase(c c12Case, h, other *c12Honest) (res c12Result) {
	res.Case = c
	t := h.tr
	rng := rand.New(rand.NewSource(c.Seed))
	var u *c12Tr
	row := c.Row
	switch row.Kind {
	case "replace":
		var skip string
		u, skip, res.Equivalent = c12Perturb(t, &row, c.Idx, c.Pert, rng)
		if skip != "" {
			res.Skip = skip
			return
		}
		res.Desc = fmt.Sprintf("component %s[%d] (%s, %s) replaced by %s: %s -> %s", row.Comp, c.Idx, row.K, row.Role, c.Pert, t.pf[row.Comp][c.Idx].short(), u.pf[row.Comp][c.Idx].short())
	case "statement":
		var ot *c12Tr
		if other != nil {
			ot = other.tr
		}
		var skip string
		u, skip = c12StPerturb(t, &row, c.Pert, ot, rng)
		if skip != "" {
			res.Skip = skip
			return
		}
		res.Desc = fmt.Sprintf("statement component %s (%s) altered by %s: %s -> %s", row.Comp, row.K, c.Pert, t.st[row.Comp].short(), u.st[row.Comp].short())
	case "session":
		u = t.clone()
		var what string
		u.sess, what = c12SessionVariant(h.ssid, h.inst.Index, c.Pert, rng)
		if string(u.sess) == string(t.sess) && (u.sess == nil) == (t.sess == nil) {
			res.Skip = "same session string"
			return
		}
		res.Desc = fmt.Sprintf("proof made for session ssid||%d verified under: %s", h.inst.Index, what)
	case "shift":
		var skip string
		var absorbed []string
		u, absorbed, skip = c12Shift(t, &row, c.Idx, h.e, h.eValid, rng)
		if skip != "" {
			res.Skip = skip
			return
		}
		if !c12SameSet(absorbed, row.Absorbers) {
			res.Binding = fmt.Sprintf("row %s: TLC predicts that the commitments %v absorb the move, at real size %v changed", c.caseKey(), row.Absorbers, absorbed)
		}
		if h.eValid {
			res.FixedValid = c12Own(u, h.e)
			if !res.FixedValid && res.Binding == "" {
				res.Binding = fmt.Sprintf("row %s: the shifted transcript does not satisfy the harness' own equations under the old challenge", c.caseKey())
			}
		}
		res.Desc = fmt.Sprintf("%s %s[%d] moved (%s %s), responses adjusted %s, commitments %v recomputed for the OLD challenge", row.Loc, row.Comp, c.Idx, row.Op, row.Base, row.kappaSig(), absorbed)
	case "modshift":
		u = c12ModShift(t, rng)
		res.FixedValid = c12ModOwn(u)
		if !res.FixedValid {
			res.Binding = "modshift: the shifted transcript does not satisfy x^4 = (-1)^a w^b z^N"
		}
		res.Desc = "W replaced by W*g^4 and x_i by x_i*g for every i with b_i = 1 (valid for the unchanged y_i)"
	case "crossuse":
		u = t.clone()
		u.sys = c12SysByName(row.As)
		if row.As == "bob" {
			delete(u.pf, "U")
			delete(u.st, "X")
			res.Desc = "the ProofBob inside a ProofBobWC verified by ProofBob.Verify (without the point)"
		} else {
			u.pf["U"] = []c12V{c12P(t.cur.base(c12RandScalar(rng, t.q())))}
			u.st["X"] = c12P(t.cur.base(c12RandScalar(rng, t.q())))
			res.Desc = "a ProofBob completed with a point U and verified by ProofBobWC.Verify with a point X"
		}
	default:
		res.Skip = "unknown row kind"
		return
	}
	res.Accepted, res.Panic = c12Recover(func() bool { return u.sys.verify(u) })
	return
}

// ------------------------------------------------------------------ TLC

type c12TLC struct {
	Rows []c12Row
	Res  tlc.Result
	Err  error
}

func c12Printed(out, tag string) ([]string, error) {
	var res []string
	pfx := `<<"` + tag + `", "`
	for _, line := range strings.Split(out, "\n") {
		i := strings.Index(line, pfx)
		if i < 0 {
			continue
		}
		s := line[i+len(pfx):]
		j := strings.LastIndex(s, `">>`)
		if j < 0 {
			return nil, fmt.Errorf("truncated %s line printed by TLC", tag)
		}
		s = s[:j]
		s = strings.ReplaceAll(s, `\"`, `"`)
		s = strings.ReplaceAll(s, `\\`, `\`)
		res = append(res, s)
	}
	return res, nil
}

const c12Invs = "HonestAccepted SessionBound ReplaceBound ShiftBound ModShiftBound CrossUseBound"

func c12RunTLC(big bool) c12TLC {
	// TLC evaluates the constant definitions (the derivation of the catalogue) once per worker: one worker is fastest for the small sets
	workers := 1
	if big {
		workers = 4
	}
	var out c12TLC
	b := "FALSE"
	if big {
		b = "TRUE"
	}
	cfg := "SPECIFICATION Spec\nCONSTANT Big = " + b + "\nINVARIANTS " + c12Invs + "\nCHECK_DEADLOCK FALSE\n"
	out.Res = tlc.Run(tlc.Options{Module: "ProofBinding", Cfg: cfg, Workers: workers, Heap: "3g", Timeout: 40 * time.Minute})
	if out.Res.Err != nil {
		out.Err = out.Res.Err
		return out
	}
	if !out.Res.OK {
		out.Err = fmt.Errorf("ProofBinding.tla violates %s (a problem of the model):\n%s", out.Res.Violated, out.Res.ErrorTrace(2500))
		return out
	}
	js, err := c12Printed(out.Res.Output, "ROW")
	if err != nil {
		out.Err = err
		return out
	}
	seen := map[string]bool{}
	for _, s := range js {
		if seen[s] {
			continue
		}
		seen[s] = true
		var r c12Row
		if err := json.Unmarshal([]byte(s), &r); err != nil {
			out.Err = fmt.Errorf("catalogue row does not parse: %v: %s", err, core.Short(s, 200))
			return out
		}
		r.fix()
		out.Rows = append(out.Rows, r)
	}
	sort.Slice(out.Rows, func(i, j int) bool {
		a, b := out.Rows[i], out.Rows[j]
		ka := a.Sys + "|" + a.Kind + "|" + a.Loc + "|" + a.Comp + "|" + a.Op + "|" + a.Base + "|" + a.kappaSig() + "|" + a.As
		kb := b.Sys + "|" + b.Kind + "|" + b.Loc + "|" + b.Comp + "|" + b.Op + "|" + b.Base + "|" + b.kappaSig() + "|" + b.As
		return ka < kb
	})
	if len(out.Rows) == 0 {
		out.Err = fmt.Errorf("TLC printed no catalogue row")
	}
	return out
}

// c12CheckTables compares the component / statement tables of the model with the adapters (which take the multiplicities
// from the library's constants) and the adapters with the library's struct layout.
func c12CheckTables(rows []c12Row) error {
	fields := map[string]int{
		"schnorr": reflect.TypeOf(schnorr.ZKProof{}).NumField(), "schnorrV": reflect.TypeOf(schnorr.ZKVProof{}).NumField(),
		"dln": reflect.TypeOf(dlnproof.Proof{}).NumField(), "mod": reflect.TypeOf(modproof.ProofMod{}).NumField(),
		"fac": reflect.TypeOf(facproof.ProofFac{}).NumField(), "alice": reflect.TypeOf(mta.RangeProofAlice{}).NumField(),
		"bob": reflect.TypeOf(mta.ProofBob{}).NumField(), "bobwc": reflect.TypeOf(mta.ProofBob{}).NumField() + reflect.TypeOf(mta.ProofBobWC{}).NumField() - 1,
		"pkey": 1,
	}
	if reflect.TypeOf(paillier.Proof{}).Len() != paillier.ProofIters {
		return fmt.Errorf("paillier.Proof is not an array of ProofIters elements")
	}
	for _, s := range c12Systems {
		if fields[s.name] != len(s.comps) {
			return fmt.Errorf("%s: the library's proof struct has %d fields, the adapter %d components", s.name, fields[s.name], len(s.comps))
		}
		nc, ns, sess := 0, 0, false
		for _, r := range rows {
			if r.Sys != s.name {
				continue
			}
			switch r.Kind {
			case "replace":
				nc++
				c := s.comp(r.Comp)
				if c == nil || c.K != r.K || c.Role != r.Role || c.Mult != r.Mult || r.Rep != (c.Mult > 1) {
					return fmt.Errorf("%s: component %s of the model (%s, %s, x%d) does not match the code (%+v)", s.name, r.Comp, r.K, r.Role, r.Mult, c)
				}
			case "statement":
				ns++
				c := s.stc(r.Comp)
				if c == nil || c.K != r.K || c.Hashed != r.Hashed || c.Aux != r.Aux {
					return fmt.Errorf("%s: statement component %s of the model does not match the adapter", s.name, r.Comp)
				}
			case "session":
				sess = true
			}
		}
		if nc != len(s.comps) || ns != len(s.stmt) || sess != s.session {
			return fmt.Errorf("%s: the model has %d components / %d statement parts / session=%v, the code %d / %d / %v", s.name, nc, ns, sess, len(s.comps), len(s.stmt), s.session)
		}
	}
	return nil
}

// ------------------------------------------------------------------ plan

func c12Instances(ctx *core.Ctx) (prim []c12Inst, other map[string]c12Inst) {
	rng := rand.New(rand.NewSource(ctx.Seed*7919 + 12))
	other = map[string]c12Inst{}
	seed := func() int64 { return ctx.Seed*1000003 + int64(rng.Intn(1<<30)) }
	pair := func() (int, int) {
		a := rng.Intn(5)
		b := (a + 1 + rng.Intn(4)) % 5
		return a, b
	}
	rounds := ctx.Pick(1, 3)
	for _, s := range c12Systems {
		for r := 0; r < rounds; r++ {
			for v := 0; v < s.variants; v++ {
				a, b := pair()
				prim = append(prim, c12Inst{Sys: s.name, Variant: v, IA: a, IB: b, Index: []int{0, 1, 3, 2, 4}[(r*2+v+int(ctx.Seed))%5], Seed: seed()})
			}
		}
		// a second instance with other parameter sets on both sides
		p := prim[len(prim)-1]
		other[s.name] = c12Inst{Sys: s.name, Variant: p.Variant, IA: (p.IA + 2) % 5, IB: (p.IB + 2) % 5, Index: p.Index, Seed: seed()}
		if o := other[s.name]; o.IA == o.IB {
			o.IB = (o.IB + 1) % 5
			other[s.name] = o
		}
	}
	return
}

func c12Classes(ctx *core.Ctx, mult int, full bool) (idx []int, cls []string) {
	if mult == 1 {
		return []int{0}, []string{"only"}
	}
	if full {
		for i := 0; i < mult; i++ {
			idx = append(idx, i)
			switch i {
			case 0:
				cls = append(cls, "first")
			case mult - 1:
				cls = append(cls, "last")
			default:
				cls = append(cls, "idx")
			}
		}
		return
	}
	return []int{0, mult / 2, mult - 1}, []string{"first", "middle", "last"}
}

func c12Plan(ctx *core.Ctx, rows []c12Row, prim []c12Inst, other map[string]c12Inst) []c12Case {
	var cases []c12Case
	n := int64(0)
	add := func(c c12Case) {
		n++
		c.Seed = ctx.Seed*2000003 + n*13
		cases = append(cases, c)
	}
	fullDone := map[string]bool{}
	for _, in := range prim {
		sys := c12SysByName(in.Sys)
		// every index of the repeated parts: thorough tier, first instance of each (system, variant)
		full := ctx.Thorough() && !fullDone[fmt.Sprintf("%s/%d", in.Sys, in.Variant)]
		fullDone[fmt.Sprintf("%s/%d", in.Sys, in.Variant)] = true
		for _, r := range rows {
			if r.Sys != in.Sys {
				continue
			}
			base := c12Case{Inst: in, Other: other[in.Sys], Row: r}
			switch r.Kind {
			case "replace":
				idx, cls := c12Classes(ctx, sys.comp(r.Comp).Mult, full)
				for k := range idx {
					for _, p := range c12PertsOf[r.K] {
						c := base
						c.Idx, c.Class, c.Pert = idx[k], cls[k], p
						add(c)
					}
				}
			case "statement":
				for _, p := range c12StPertsOf[r.K] {
					c := base
					c.Class, c.Pert = "only", p
					add(c)
				}
			case "session":
				for _, v := range r.Variants {
					c := base
					c.Class, c.Pert = "only", v
					add(c)
				}
			case "shift":
				mult := 1
				if r.Loc == "pf" {
					mult = sys.comp(r.Comp).Mult
				}
				idx, cls := c12Classes(ctx, mult, false)
				for k := range idx {
					c := base
					c.Idx, c.Class = idx[k], cls[k]
					add(c)
				}
			case "modshift", "crossuse":
				c := base
				c.Class = "only"
				add(c)
			}
		}
	}
	return cases
}

// ------------------------------------------------------------------ the check

func c12Workers() int { return 8 }

func c12Report(ctx *core.Ctx, r *c12Result) bool {
	c := r.Case
	switch {
	case r.Panic != "":
		ctx.Report(c.vioKey("panic"), fmt.Sprintf("%s: the verifier does not reject but panics (%s). Transformation: %s [instance %s]",
			c.Row.Sys, core.Short(r.Panic, 160), r.Desc, c.Inst.key()), c)
		return true
	case r.Accepted && !r.Equivalent:
		ctx.Report(c.vioKey("accepted"), fmt.Sprintf("%s: Verify returned true for a transformed proof. Transformation: %s [instance %s]", c.Row.Sys, r.Desc, c.Inst.key()), c)
		return true
	}
	return false
}

func C12(ctx *core.Ctx) error {
	keys, err := pump.LoadEcFixtures(5)
	if err != nil {
		return core.Inconcl("cannot load the vendored parameter sets: %v", err)
	}
	env := &c12Env{keys: keys}
	for i := range keys {
		if _, err := c12PedOf(&keys[i]); err != nil {
			return core.Inconcl("vendored parameter set %d: %v", i, err)
		}
		sk := keys[i].PaillierSK
		if sk == nil || sk.P == nil || sk.Q == nil || new(big.Int).Mul(sk.P, sk.Q).Cmp(sk.N) != 0 {
			return core.Inconcl("vendored parameter set %d: Paillier key without its factors", i)
		}
	}

	if ctx.Replay != "" {
		var cc c12CtxCase
		if _, err := core.LoadReplay(ctx.Replay, &cc); err == nil && cc.Mode == "context" {
			return c12CtxReplay(ctx, cc)
		}
		var c c12Case
		if _, err := core.LoadReplay(ctx.Replay, &c); err != nil {
			return core.Inconcl("cannot load replay: %v", err)
		}
		c.Row.fix()
		h := c12Build(env, c.Inst)
		if h.err != nil {
			return core.Inconcl("replay: cannot rebuild the honest proof: %v", h.err)
		}
		if ok, pan := c12Recover(func() bool { return h.tr.sys.verify(h.tr) }); !ok || pan != "" {
			return core.Inconcl("replay: the untransformed proof does not verify (%s)", pan)
		}
		var o *c12Honest
		if c.Other.Sys != "" {
			if o = c12Build(env, c.Other); o.err != nil {
				o = nil
			}
		}
		r := c12RunCase(c, h, o)
		fmt.Printf("replay %s: skip=%q equivalent=%v accepted=%v panic=%q\n  %s\n", c.caseKey(), r.Skip, r.Equivalent, r.Accepted, r.Panic, r.Desc)
		c12Report(ctx, &r)
		return nil
	}

	cov := core.NewCov()
	// VERIF_C12_ONLY=context|proofs runs one half of the check (development aid; no evidence is written)
	only := os.Getenv("VERIF_C12_ONLY")
	// ---- protocol level (spec/ProofContext.tla replayed on real rounds), beside everything else
	var ctxRep *c12CtxReport
	var cwg sync.WaitGroup
	if only != "proofs" {
		cwg.Add(1)
		go func() { defer cwg.Done(); ctxRep = c12RoundsContext(ctx, cov) }()
	}
	if only == "context" {
		cwg.Wait()
		if ctxRep.Inconcl != "" {
			return core.Inconcl("%s", ctxRep.Inconcl)
		}
		b, _ := json.MarshalIndent(cov.Extra["context"], "", " ")
		fmt.Printf("context part only (no evidence written): %d rows executed in %.1fs\n%s\n", ctxRep.Executed, ctxRep.Wall, b)
		return nil
	}
	// ---- the model, in the background
	var model c12TLC
	var wg sync.WaitGroup
	wg.Add(1)
	go func() { defer wg.Done(); model = c12RunTLC(ctx.Thorough()) }()

	// ---- honest proofs (each made once), meanwhile
	t0 := time.Now()
	prim, other := c12Instances(ctx)
	all := append([]c12Inst{}, prim...)
	for _, s := range c12Systems {
		all = append(all, other[s.name])
	}
	honest := make([]*c12Honest, len(all))
	{
		var hw sync.WaitGroup
		sem := make(chan struct{}, c12Workers())
		for i := range all {
			hw.Add(1)
			go func(i int) {
				defer hw.Done()
				sem <- struct{}{}
				defer func() { <-sem }()
				h := c12Build(env, all[i])
				if h.err == nil {
					ok, pan := c12Recover(func() bool { return h.tr.sys.verify(h.tr) })
					if pan != "" {
						h.err = fmt.Errorf("Verify panicked on the untransformed proof: %s", pan)
					} else if !ok {
						h.err = fmt.Errorf("the untransformed proof does not verify")
					}
				}
				honest[i] = h
			}(i)
		}
		hw.Wait()
	}
	byKey := map[string]*c12Honest{}
	eInvalid := []string{}
	layouts := map[string]string{}
	for _, h := range honest {
		if h.err != nil {
			wg.Wait()
			// an honest proof that fails is C10's matter; here every row on it would be vacuous
			return core.Inconcl("honest proof %s: %v", h.inst.key(), h.err)
		}
		byKey[fmt.Sprintf("%s#%d", h.inst.key(), h.inst.Seed)] = h
		if (h.tr.sys.chal != nil || h.tr.sys.hashIn != nil) && !h.eValid {
			eInvalid = append(eInvalid, h.inst.key())
		}
		if h.eValid && h.layout != "as documented" && h.layout != "read off the equations" {
			layouts[h.inst.Sys] = h.layout
		}
	}
	genWall := time.Since(t0).Seconds()
	if len(eInvalid) > 0 {
		ctx.Note("the harness could not recompute the challenge of %v (its copy of the hash layout does not reproduce the verifier's equations): shift rows that need the challenge are not exercised there", eInvalid)
	}

	wg.Wait()
	if model.Err != nil {
		return core.Inconcl("ProofBinding model: %v", model.Err)
	}
	cov.AddMC(model.Res.Distinct, model.Res.Generated)
	if err := c12CheckTables(model.Rows); err != nil {
		return core.Inconcl("the model no longer describes the structure of the code: %v", err)
	}

	// ---- the catalogue on the real verifiers
	cases := c12Plan(ctx, model.Rows, prim, other)
	results := make([]c12Result, len(cases))
	t1 := time.Now()
	{
		var cw sync.WaitGroup
		ch := make(chan int)
		for w := 0; w < c12Workers(); w++ {
			cw.Add(1)
			go func() {
				defer cw.Done()
				for i := range ch {
					c := cases[i]
					h := byKey[fmt.Sprintf("%s#%d", c.Inst.key(), c.Inst.Seed)]
					o := byKey[fmt.Sprintf("%s#%d", c.Other.key(), c.Other.Seed)]
					results[i] = c12RunCase(c, h, o)
				}
			}()
		}
		for i := range cases {
			ch <- i
		}
		close(ch)
		cw.Wait()
	}
	caseWall := time.Since(t1).Seconds()

	byKind := map[string]int{}
	skips := map[string]int{}
	equiv := map[string]map[string]int{}
	var binding []string
	shiftsValid, shiftsTotal := 0, 0
	perSys := map[string]int{}
	drift := []string{}
	for i := range results {
		r := &results[i]
		c := r.Case
		if r.Skip != "" {
			skips[c.Row.Sys+"|"+c.Row.Kind+"|"+c.Pert+": "+r.Skip]++
			continue
		}
		if r.Binding != "" {
			binding = append(binding, r.Binding)
		}
		if c.Row.Kind == "shift" || c.Row.Kind == "modshift" {
			shiftsTotal++
			if r.FixedValid {
				shiftsValid++
			}
		}
		bad := c12Report(ctx, r)
		if r.Equivalent {
			k := c.Row.Sys + "." + c.Row.Comp
			if equiv[k] == nil {
				equiv[k] = map[string]int{}
			}
			verdict := "reject"
			if r.Accepted {
				verdict = "accept"
			}
			equiv[k][verdict]++
			if c.Row.PlusOrder != "none" && c.Row.PlusOrder != verdict {
				drift = append(drift, fmt.Sprintf("%s + order: the toy verifier %ss, the code %ss (nothing is demanded here)", k, c.Row.PlusOrder, verdict))
			}
			cov.Case(c.caseKey(), true)
			byKind["equivalent"]++
			continue
		}
		cov.Case(c.caseKey(), true)
		byKind[c.Row.Kind]++
		perSys[c.Row.Sys]++
		if bad || len(cov.Samples) < 14 && (i%37 == 0) {
			cov.Sample(map[string]any{"case": c.caseKey(), "transformation": r.Desc, "verify": r.Accepted, "panic": r.Panic}, 14)
		}
	}
	sort.Strings(drift)
	drift = c12Uniq(drift)
	if len(binding) > 0 {
		sort.Strings(binding)
		return core.Inconcl("model and harness disagree on %d shift rows, e.g. %s", len(binding), binding[0])
	}

	// ---- self test of the comparison: an absorbing commitment left as it was must fail the fixed-challenge equations
	selfOK, selfRan := c12SelfTest(model.Rows, prim, byKey)
	if selfRan == 0 || selfOK != selfRan {
		return core.Inconcl("self test of the shift machinery: %d of %d sabotaged shifts were noticed", selfOK, selfRan)
	}
	if shiftsTotal == 0 {
		return core.Inconcl("no shift row could be exercised")
	}

	cwg.Wait()
	if ctxRep != nil && ctxRep.Inconcl != "" {
		return core.Inconcl("%s", ctxRep.Inconcl)
	}
	if only != "" {
		fmt.Printf("proof-level part only (no evidence written)\n")
		return nil
	}

	nShiftRows := 0
	for _, r := range model.Rows {
		if r.Kind == "shift" || r.Kind == "modshift" {
			nShiftRows++
		}
	}
	cov.AddTraces(len(model.Rows))
	cov.Set("catalogue_rows", len(model.Rows))
	cov.Set("catalogue_shift_rows_derived_by_tlc", nShiftRows)
	cov.Set("honest_proofs", len(honest))
	cov.Set("honest_proofs_wall_s", genWall)
	cov.Set("transformed_proofs_wall_s", caseWall)
	cov.Set("cases_by_kind", byKind)
	cov.Set("cases_by_system", perSys)
	cov.Set("rows_not_buildable", skips)
	cov.Set("equivalent_replacements_code_verdict", equiv)
	cov.Set("equivalent_replacements_model_differs", drift)
	cov.Set("shifts_valid_under_old_challenge", fmt.Sprintf("%d of %d", shiftsValid, shiftsTotal))
	cov.Set("self_test_sabotaged_shifts_noticed", fmt.Sprintf("%d of %d", selfOK, selfRan))
	cov.Set("tlc", map[string]any{"distinct": model.Res.Distinct, "generated": model.Res.Generated, "wall_s": model.Res.Wall, "big": ctx.Thorough(), "invariants": c12Invs})
	cov.Set("challenge_inputs_differing_from_the_documented_list", layouts)
	cov.Set("exhaustive", false)
	return ctx.WriteEvidence("fault_enumeration",
		"one case = one transformed copy of an honest real-size proof handed to the library's Verify: (instance = system, curve/orientation, parameter sets of prover and verifier, party index) x "+
			"catalogue row (component replacement: component x index class/index x perturbation; statement component x alteration; session variant; shift row derived by TLC x index class; cross use). "+
			"distinct = distinct such tuples, all non-trivial (the untransformed proof verifies, the transformed one differs). Verdict: Verify returned false / an error; equivalent replacements (value + group order) are only recorded. "+
			"states/transitions: TLC on spec/ProofBinding.tla (toy groups, every toy instance x every component x every replacement value, every derived shift x d in {1,2}, sessions, weakened variants must fail); "+
			"traces: catalogue rows generated by TLC and replayed on the code. "+
			"Protocol level (coverage.context): one case = one replay row of spec/ProofContext.tla executed on real rounds through the deterministic transport - the party at index j presents, as its own, "+
			"the proof-carrying messages / fields of the party at index i (same session: index classes 0/1/2 in committees of three, 3/4 in committees of five, 1->257 and further pairs around 127/128 and 255/256 in one "+
			"committee of 258 EdDSA key generation parties; or another session whose party keys / key data differ; or, as a control the model accepts, the same session inputs); verdict: the honest verifier shows the "+
			"marker of acceptance (its message of the verifying round / its result) after a replay the model rejects",
		cov, []string{
			"the five vendored parameter sets (Paillier factors, ring-Pedersen trapdoors alpha/beta, p', q'), self-checked (NTilde = (2p'+1)(2q'+1), h1 = h2^beta)",
			"harness/obs affine curve arithmetic (self-checked) for every point the harness builds; math/big",
			"the harness' own transcription of the verifiers' equations and guards is used only to build shifted transcripts and to show they hold under the old challenge - never for a verdict",
			"ProofBinding.tla: hash = oracle over the tuple of hashed values (collisions not modelled), prime-order toy groups, degenerate instances excluded (NonDegenerate), foreign moduli fail every equation (IdealForeignModulus)",
			"the verifier's own ring-Pedersen parameters (NTilde, h1, h2) are not hashed by the MtA proofs (as in GG18); they are altered singly, joint shifts of them are outside the catalogue",
			"panics are recovered in the calling goroutine; a panic inside a goroutine started by Verify would end the run (exit 2)",
			"ProofContext.tla: ssid = injective oracle over (curve, party keys, key data, round number, nonce) of fixed length; a proof is accepted under exactly the context it was made for (ProofBinding.SessionBound); round number and nonce are the constants 1 and 0 of the code, so two executions with the same committee and key data share their ssid (the control rows use this)",
			"context replays: acceptance is observed as the verifier's next step (marker named by the model, calibrated per site with an altered proof; costly ECDSA sites of the quick tier only when a row is accepted); index classes beyond 257 (two-byte truncation: 65536 parties) and committees above five for the ECDSA protocols and EdDSA signing are covered by the model only",
		}, "java tlc2.TLC ProofBinding.tla; java tlc2.TLC ProofContext.tla")
}

func c12Uniq(s []string) []string {
	var out []string
	for i, x := range s {
		if i == 0 || x != s[i-1] {
			out = append(out, x)
		}
	}
	return out
}

// c12SelfTest sabotages one shift per system (an absorbing commitment keeps its old value): the harness' fixed-challenge
// equations must notice, and so must the comparison of absorber sets.
func c12SelfTest(rows []c12Row, prim []c12Inst, byKey map[string]*c12Honest) (ok, ran int) {
	done := map[string]bool{}
	for _, in := range prim {
		if done[in.Sys] {
			continue
		}
		h := byKey[fmt.Sprintf("%s#%d", in.key(), in.Seed)]
		if h == nil || !h.eValid {
			continue
		}
		for _, r := range rows {
			if r.Sys != in.Sys || r.Kind != "shift" || len(r.Absorbers) == 0 {
				continue
			}
			row := r
			u, absorbed, skip := c12Shift(h.tr, &row, 0, h.e, h.eValid, rand.New(rand.NewSource(in.Seed)))
			if skip != "" || len(absorbed) == 0 {
				continue
			}
			done[in.Sys] = true
			ran++
			n := absorbed[0]
			u.pf[n][0] = h.tr.pf[n][0]
			wrong := append([]string{}, r.Absorbers[1:]...)
			if !c12Own(u, h.e) && !c12SameSet(absorbed, wrong) {
				ok++
			}
			break
		}
	}
	return
}
