package props

// C12, protocol level: the session / context string the ROUNDS hand to the provers and verifiers.
//
// Design level : spec/ProofContext.tla - context = ssid || big.Int(index).Bytes() as a function of (session inputs, index),
//                injective over the index classes around every byte boundary and over distinct session inputs; the sites
//                (which message carries which proof, where its statement is read from, which round of the recipient
//                verifies, what an accepting verifier does next); replay of a proof by another index / in another session
//                as a state machine (ReplayRejected); the weakened derivations (one index byte, seven bits, two bytes, no
//                index, ssid without party keys / key data) fail, with the least committee that shows it.
// Binding (B)  : TLC prints the replay catalogue; every selected row is executed on REAL rounds through the deterministic
//                transport (harness/pump): the deviating party's messages are replaced on the wire by the victim's
//                (whole messages, or exactly the fields that carry the proof and its statement), the honest verifier is
//                fed and observed.  One committee of 258 EdDSA key generation parties (rounds 1 and 2 of everybody, round
//                3 of the verifiers only) reaches the index classes 127/128/129 and 255/256/257.  Per site a calibration run
//                (one element of the proof + 1) shows that the marker the model names is really what separates accepting
//                from rejecting; control rows (same session inputs, same index, another execution) show that a
//                transplanted proof is accepted when the model says so.  The rounds' context is also recomputed
//                (ssid from the documented inputs || the bytes TLC printed) and the real proofs on the wire are verified
//                under it (recorded; a mismatch is drift, not a verdict).
// Verdict      : a row the model rejects, after which the honest verifier shows the marker of acceptance (it sent its
//                message of the verifying round / produced its result) - or panicked.

import (
	"encoding/hex"
	"encoding/json"
	"fmt"
	"math/big"
	"math/rand"
	"regexp"
	"sort"
	"strconv"
	"strings"
	"sync"
	"time"

	"github.com/bnb-chain/tss-lib/v2/common"
	"github.com/bnb-chain/tss-lib/v2/crypto"
	"github.com/bnb-chain/tss-lib/v2/crypto/schnorr"
	eckg "github.com/bnb-chain/tss-lib/v2/ecdsa/keygen"
	edkg "github.com/bnb-chain/tss-lib/v2/eddsa/keygen"
	"github.com/bnb-chain/tss-lib/v2/tss"

	"verif/harness/core"
	"verif/harness/pump"
	"verif/harness/tamper"
	"verif/harness/tlc"
)

// ------------------------------------------------------------------ the model's output

type c12CtxRow struct {
	Kind    string   `json:"kind"` // index | ssid | control
	Proto   string   `json:"proto"`
	Site    string   `json:"site"`
	Msg     string   `json:"msg"`    // the message that carries the proof
	Marker  string   `json:"marker"` // what an accepting verifier does next: a message type, or "result"
	Ver     int      `json:"ver"`
	I       int      `json:"i"` // index of the honest prover
	J       int      `json:"j"` // index of the party that presents the proof
	V       int      `json:"v"` // index of the honest verifier
	N       int      `json:"n"`
	Vary    string   `json:"vary"`  // ssid rows: the session input that differs (keys | keydata)
	CtxOf   string   `json:"ctxof"` // whose index the context of the site names: prover | recipient
	Predict string   `json:"predict"`
	Weak    []string `json:"weak"` // weakened designs of the model under which this replay would be accepted
}

func (r c12CtxRow) siteKey() string { return r.Proto + "/" + r.Site }
func (r c12CtxRow) key() string {
	return fmt.Sprintf("%s/%s|%s|%d->%d@%d|n%d|%s", r.Proto, r.Site, r.Kind, r.I, r.J, r.V, r.N, r.Vary)
}

type c12CtxModel struct {
	Rows      []c12CtxRow
	Enc       map[int][]byte // index -> bytes appended to the ssid (as TLC computed them)
	WeakEnc   map[string]int // weakened encoder -> least committee that shows it
	WeakDeriv []string
	Res       tlc.Result
	Err       error
}

var (
	reWeakEnc   = regexp.MustCompile(`<<"WEAKENC", "(\w+)", (\d+)>>`)
	reWeakDeriv = regexp.MustCompile(`<<"WEAKDERIV", "(\w+)">>`)
)

func c12CtxRunTLC(big bool) c12CtxModel {
	out := c12CtxModel{Enc: map[int][]byte{}, WeakEnc: map[string]int{}}
	b := "FALSE"
	if big {
		b = "TRUE"
	}
	cfg := "SPECIFICATION Spec\nCONSTANT Big = " + b + "\nINVARIANTS ReplayRejected\nCHECK_DEADLOCK FALSE\n"
	out.Res = tlc.Run(tlc.Options{Module: "ProofContext", Cfg: cfg, Workers: 2, Heap: "2g", Timeout: 20 * time.Minute})
	if out.Res.Err != nil {
		out.Err = out.Res.Err
		return out
	}
	if !out.Res.OK {
		out.Err = fmt.Errorf("ProofContext.tla violates %s (a problem of the model):\n%s", out.Res.Violated, out.Res.ErrorTrace(2000))
		return out
	}
	js, err := c12Printed(out.Res.Output, "CTXROW")
	if err != nil {
		out.Err = err
		return out
	}
	seen := map[string]bool{}
	for _, s := range js {
		if seen[s] {
			continue
		}
		seen[s] = true
		var r c12CtxRow
		if err := json.Unmarshal([]byte(s), &r); err != nil {
			out.Err = fmt.Errorf("context row does not parse: %v: %s", err, core.Short(s, 200))
			return out
		}
		sort.Strings(r.Weak)
		out.Rows = append(out.Rows, r)
	}
	sort.Slice(out.Rows, func(i, j int) bool { return out.Rows[i].key() < out.Rows[j].key() })
	es, err := c12Printed(out.Res.Output, "CTXENC")
	if err != nil {
		out.Err = err
		return out
	}
	for _, s := range es {
		var e struct {
			I     int   `json:"i"`
			Bytes []int `json:"bytes"`
			N     int   `json:"n"`
		}
		if err := json.Unmarshal([]byte(s), &e); err != nil || len(e.Bytes) != e.N {
			out.Err = fmt.Errorf("encoding row does not parse: %s", core.Short(s, 120))
			return out
		}
		bs := make([]byte, 0, len(e.Bytes))
		for _, x := range e.Bytes {
			bs = append(bs, byte(x))
		}
		out.Enc[e.I] = bs
	}
	for _, m := range reWeakEnc.FindAllStringSubmatch(out.Res.Output, -1) {
		n, _ := strconv.Atoi(m[2])
		out.WeakEnc[m[1]] = n
	}
	for _, m := range reWeakDeriv.FindAllStringSubmatch(out.Res.Output, -1) {
		out.WeakDeriv = append(out.WeakDeriv, m[1])
	}
	out.WeakDeriv = c12Uniq(sortedCopy(out.WeakDeriv))
	if len(out.Rows) == 0 || len(out.Enc) == 0 || len(out.WeakEnc) == 0 {
		out.Err = fmt.Errorf("TLC printed no context catalogue")
	}
	return out
}

func sortedCopy(s []string) []string {
	c := append([]string{}, s...)
	sort.Strings(c)
	return c
}

// ------------------------------------------------------------------ the sites, as the harness drives them

type c12CtxSite struct {
	proto  pump.Proto
	name   string
	msg    string              // the message carrying the proof (compared with the model's table)
	whole  []string            // message types the presenting party takes over wholesale from the prover
	fields map[string][]string // message type -> fields taken over from the prover's message of that type
	noFac  bool                // the other proof of the same messages is switched off (tss.Parameters.SetNoProofFac) so that this
	noMod  bool                // site is judged alone
	// calibration: this element of the proof is altered (+1)
	calField string
	calIdx   int
	costly   bool // a session costs ten and more CPU seconds (dln proofs): quick tier = one index row, calibration on demand
	oneRow   bool // quick tier: one index row
	// thoroughOnly: not exercised in the quick tier (the combined site of the same rounds is)
	thoroughOnly bool
	recordOnly   bool // one row, recorded (the model does not reject it)
}

var c12CtxSites = []*c12CtxSite{
	{proto: pump.EdKeygen, name: "schnorr", msg: "KGRound2Message2", whole: []string{"KGRound1Message", "KGRound2Message1", "KGRound2Message2"}, calField: "proof_t"},
	{proto: pump.EdSigning, name: "schnorr", msg: "SignRound2Message", whole: []string{"SignRound1Message", "SignRound2Message"}, calField: "proof_t"},
	{proto: pump.EcKeygen, name: "modfac", msg: "KGRound2Message2", fields: map[string][]string{"KGRound1Message": {"paillier_n"}, "KGRound2Message1": {"facProof"}, "KGRound2Message2": {"modProof"}}, calField: "modProof", calIdx: 0, costly: true},
	{proto: pump.EcKeygen, name: "mod", thoroughOnly: true, msg: "KGRound2Message2", fields: map[string][]string{"KGRound1Message": {"paillier_n"}, "KGRound2Message2": {"modProof"}}, noFac: true, calField: "modProof", calIdx: 0, costly: true},
	{proto: pump.EcKeygen, name: "fac", thoroughOnly: true, msg: "KGRound2Message1", fields: map[string][]string{"KGRound1Message": {"paillier_n"}, "KGRound2Message1": {"facProof"}}, noMod: true, calField: "facProof", calIdx: -1, costly: true},
	{proto: pump.EcSigning, name: "gamma", msg: "SignRound4Message", whole: []string{"SignRound1Message2", "SignRound4Message"}, calField: "proof_t", oneRow: true},
	{proto: pump.EcSigning, name: "av", msg: "SignRound6Message", whole: []string{"SignRound5Message", "SignRound6Message"}, calField: "proof_t", oneRow: true},
	{proto: pump.EcReshare, name: "mod", msg: "DGRound2Message1", fields: map[string][]string{"DGRound2Message1": {"paillier_n", "modProof"}}, noFac: true, calField: "modProof", calIdx: 0, costly: true},
	// recorded, not judged: the factorisation proof of ecdsa resharing is made under the RECIPIENT's index (the model accepts its replay)
	{proto: pump.EcReshare, name: "fac-to", thoroughOnly: true, recordOnly: true, msg: "DGRound4Message1", fields: map[string][]string{"DGRound2Message1": {"paillier_n"}, "DGRound4Message1": {"facProof"}}, noMod: true, calField: "facProof", calIdx: -1, costly: true},
}

func c12CtxSiteOf(proto, name string) *c12CtxSite {
	for _, s := range c12CtxSites {
		if string(s.proto) == proto && s.name == name {
			return s
		}
	}
	return nil
}

func (st *c12CtxSite) key() string { return string(st.proto) + "/" + st.name }

func (st *c12CtxSite) takes(typ string) (whole bool, fields []string) {
	for _, w := range st.whole {
		if w == typ {
			return true, nil
		}
	}
	return false, st.fields[typ]
}

// c12CtxCheckSites compares the model's site table with the harness' one.
func c12CtxCheckSites(rows []c12CtxRow) error {
	seen := map[string]bool{}
	for _, r := range rows {
		st := c12CtxSiteOf(r.Proto, r.Site)
		if st == nil {
			return fmt.Errorf("the model names a site %s the harness cannot drive", r.siteKey())
		}
		if st.msg != r.Msg {
			return fmt.Errorf("site %s: the model puts the proof into %s, the harness into %s", r.siteKey(), r.Msg, st.msg)
		}
		seen[st.key()] = true
	}
	for _, st := range c12CtxSites {
		if !seen[st.key()] {
			return fmt.Errorf("site %s of the harness is not in the model", st.key())
		}
	}
	return nil
}

// ------------------------------------------------------------------ sessions

var (
	c12CtxKeyMu  sync.Mutex
	c12CtxEdMemo = map[int64][]edkg.LocalPartySaveData{}
)

// c12CtxEdKey: a 5-party, t=1 EdDSA key made by a real key generation of the tree under test (party ids 1..5).
func c12CtxEdKey(seed int64) ([]edkg.LocalPartySaveData, error) {
	c12CtxKeyMu.Lock()
	defer c12CtxKeyMu.Unlock()
	if k, ok := c12CtxEdMemo[seed]; ok {
		return k, nil
	}
	k, err := pump.FreshEdKeygen(5, 1, seed, nil)
	if err != nil {
		return nil, err
	}
	c12CtxEdMemo[seed] = k
	return k, nil
}

// c12CtxSubset: the committee positions taking part; variant "keys" swaps the last participant of a 3-party session for
// another key holder (the party keys - and with them the ssid - differ, indices 0 and 1 stay what they were).
func c12CtxSubset(n int, variant string) []int {
	var idx []int
	for i := 0; i < n; i++ {
		idx = append(idx, i)
	}
	if variant == "keys" {
		idx[n-1] = n
	}
	return idx
}

// c12CtxNewSession builds the parties of one session of the site's protocol. variant: "base" | "keys" | "keydata"
// (another value of the named session input). off = node position of committee index 0.
func c12CtxNewSession(st *c12CtxSite, n int, variant string, seed, keySeed int64) (s *pump.Session, off int, err error) {
	cfg := pump.Config{Proto: st.proto, N: n, T: 1, Seed: seed, Msg: big.NewInt(0x5eed)}
	partyKeys := func() []*big.Int {
		if n > 8 {
			return nil
		}
		var ks []*big.Int
		for i := 0; i < n; i++ {
			ks = append(ks, big.NewInt(int64(11*(i+1))))
		}
		if variant == "keys" {
			ks[n-1] = big.NewInt(int64(11*n + 1))
		}
		return ks
	}
	switch st.proto {
	case pump.EdKeygen:
		cfg.PartyKeys = partyKeys()
	case pump.EcKeygen:
		cfg.PartyKeys = partyKeys()
		if cfg.PreParams, err = pump.PreParams(n); err != nil {
			return nil, 0, err
		}
	case pump.EdSigning:
		ks := keySeed
		if variant == "keydata" {
			ks = keySeed + 1
		}
		keys, err := c12CtxEdKey(ks)
		if err != nil {
			return nil, 0, err
		}
		if n > 4 && variant == "keys" || n > 5 {
			return nil, 0, fmt.Errorf("no EdDSA key for %d signers", n)
		}
		sorted := append([]edkg.LocalPartySaveData(nil), keys...)
		sort.Slice(sorted, func(i, j int) bool { return sorted[i].ShareID.Cmp(sorted[j].ShareID) < 0 })
		for _, p := range c12CtxSubset(n, variant) {
			cfg.EdKeys = append(cfg.EdKeys, copyEd(sorted[p]))
		}
	case pump.EcSigning, pump.EcReshare:
		keys, err := EcKeys(5, 2)
		if err != nil {
			return nil, 0, err
		}
		sorted := append([]eckg.LocalPartySaveData(nil), keys...)
		sort.Slice(sorted, func(i, j int) bool { return sorted[i].ShareID.Cmp(sorted[j].ShareID) < 0 })
		cfg.T = 2
		if st.proto == pump.EcSigning {
			if n < 3 || n > 4 && variant == "keys" || n > 5 {
				return nil, 0, fmt.Errorf("no ECDSA key for %d signers", n)
			}
			for _, p := range c12CtxSubset(n, variant) {
				cfg.EcKeys = append(cfg.EcKeys, copyEc(sorted[p]))
			}
		} else {
			for p := 0; p < 3; p++ {
				cfg.EcKeys = append(cfg.EcKeys, copyEc(sorted[p]))
			}
			cfg.N, cfg.NewN, cfg.NewT = 3, n, 1
			if n > 5 {
				return nil, 0, fmt.Errorf("only 5 vendored pre-parameter sets")
			}
			if cfg.PreParams, err = pump.PreParamsFrom(1, n); err != nil {
				return nil, 0, err
			}
			off = 3
		}
	default:
		return nil, 0, fmt.Errorf("no context site in %s", st.proto)
	}
	s, err = pump.New(cfg, nil)
	if err != nil {
		return nil, 0, err
	}
	for _, nd := range s.Nodes {
		if st.noFac {
			nd.Params.SetNoProofFac()
		}
		if st.noMod {
			nd.Params.SetNoProofMod()
		}
	}
	return s, off, nil
}

// ------------------------------------------------------------------ the deviating party

// c12CtxHook replaces, right before delivery, the proof-carrying traffic of the presenting party by the prover's.
type c12CtxHook struct {
	st        *c12CtxSite
	attackerG int
	src       *pump.Session // where the prover's messages are taken from (the same session, or an earlier one)
	victimG   int           // the prover, in src
	same      bool
	only      map[int]bool // recipients for which the replacement is made (nil = all)

	mu      sync.Mutex
	applied int
	missing int
	failed  string
	index   map[string]*pump.Item // optional: (type|from|to) -> item of src (built by the caller for large sessions)
}

func c12CtxItemKey(typ string, from, to int) string { return fmt.Sprintf("%s|%d|%d", typ, from, to) }

func (h *c12CtxHook) source(typ, kind string, to int) *pump.Item {
	if h.index != nil {
		if kind == "B" {
			// any copy of a broadcast carries the same bytes
			for _, t := range []int{to, h.attackerG, 1, 2, 3} {
				if o := h.index[c12CtxItemKey(typ, h.victimG, t)]; o != nil {
					return o
				}
			}
			return nil
		}
		return h.index[c12CtxItemKey(typ, h.victimG, to)]
	}
	for _, o := range h.src.All {
		if o.Msg.Type == typ && o.From.G == h.victimG && (kind == "B" || o.To.G == to) {
			return o
		}
	}
	return nil
}

func (h *c12CtxHook) mutate(it *pump.Item) []byte {
	if it.From.G != h.attackerG || (h.only != nil && !h.only[it.To.G]) {
		return nil
	}
	whole, fields := h.st.takes(it.Msg.Type)
	if !whole && fields == nil {
		return nil
	}
	to := it.To.G
	if h.same && to == h.victimG {
		to = h.attackerG // what the prover sent to the presenting party (the prover sends nothing to itself)
	}
	o := h.source(it.Msg.Type, it.Msg.Kind, to)
	h.mu.Lock()
	defer h.mu.Unlock()
	if o == nil {
		h.missing++
		return nil
	}
	if whole {
		h.applied++
		return o.Wire
	}
	w := it.Wire
	for _, f := range fields {
		nw, err := c12CtxTransplant(w, o.Wire, f)
		if err != nil {
			h.failed = err.Error()
			return nil
		}
		w = nw
	}
	h.applied++
	return w
}

// c12CtxTransplant copies one field (scalar or list) of the message src into the message dst.
func c12CtxTransplant(dst, src []byte, field string) ([]byte, error) {
	fs, err := tamper.Fields(src)
	if err != nil {
		return nil, err
	}
	for _, f := range fs {
		if f.Name != field {
			continue
		}
		if !f.IsList {
			b, err := tamper.Get(src, field, 0)
			if err != nil {
				return nil, err
			}
			w, _, err := tamper.Apply(dst, tamper.Spec{Field: field, Kind: "set", Hex: hex.EncodeToString(b)}, nil, nil)
			return w, err
		}
		var hs []string
		for k := 0; k < f.Len; k++ {
			b, err := tamper.Get(src, field, k)
			if err != nil {
				return nil, err
			}
			hs = append(hs, hex.EncodeToString(b))
		}
		w, _, err := tamper.Apply(dst, tamper.Spec{Field: field, Kind: "setlist", Hex: strings.Join(hs, ",")}, nil, nil)
		return w, err
	}
	return nil, fmt.Errorf("no field %s", field)
}

// ------------------------------------------------------------------ observation of the honest verifier

type c12CtxObs struct {
	Marker   bool   `json:"marker"`
	Err      bool   `json:"err"`
	ErrRound int    `json:"err_round"`
	Culprits []int  `json:"culprits"`
	Results  int    `json:"results"`
	Panic    string `json:"panic,omitempty"`
}

func c12CtxObserve(s *pump.Session, v *pump.Node, marker string) c12CtxObs {
	o := c12CtxObs{Results: len(v.Results), Panic: core.Short(v.Panic, 300)}
	if marker == "result" {
		o.Marker = len(v.Results) > 0
	} else {
		for _, it := range s.All {
			if it.From == v && it.Msg.Type == marker {
				o.Marker = true
				break
			}
		}
	}
	if v.Err != nil {
		o.Err = true
		o.ErrRound = v.Err.Round()
		for _, c := range v.Err.Culprits() {
			if c == nil {
				continue
			}
			g := -1
			for _, m := range s.Nodes {
				if m.PID == c || (m.PID.KeyInt().Cmp(c.KeyInt()) == 0 && m.PID.Id == c.Id) {
					g = m.G
				}
			}
			o.Culprits = append(o.Culprits, g)
		}
		sort.Ints(o.Culprits)
	}
	return o
}

func (o c12CtxObs) outcome() string {
	switch {
	case o.Panic != "":
		return "panic"
	case o.Marker:
		return "accepted"
	case o.Err:
		return "rejected"
	}
	return "not-reached"
}

// ------------------------------------------------------------------ one case

type c12CtxCase struct {
	Mode    string    `json:"mode"` // "context" (distinguishes these replay files from the proof-level ones)
	Row     c12CtxRow `json:"row"`
	Seed    int64     `json:"seed"`
	KeySeed int64     `json:"key_seed"`
	Big     bool      `json:"big,omitempty"`   // executed inside the large committee
	BigN    int       `json:"big_n,omitempty"` // its size
	VIdx    int       `json:"v_idx"`           // index of the verifier actually used
}

type c12CtxResult struct {
	Case    c12CtxCase
	Outcome string // accepted | rejected | not-reached | panic
	Obs     c12CtxObs
	Applied int
	Missing int
	Skip    string
	Err     error
	Wall    float64
	Clean   bool       // rejected, and the verifier blamed exactly the presenting party
	sess    *c12CtxSrc // the session the row ran in (its traffic, as SENT, is honest: replacements are made at delivery)
}

func c12CtxVariantOf(r c12CtxRow) string {
	if r.Kind == "ssid" {
		return r.Vary
	}
	return "base"
}

// c12CtxSource runs one honest session of the site to the end; its messages are what is presented elsewhere.
type c12CtxSrc struct {
	s   *pump.Session
	off int
	err error
}

// c12CtxDrive runs the session with a named strategy until nothing is enabled or every watched party has decided (it shows
// the marker, returned an error or panicked): what happens after the verifying round is of no interest here.
func c12CtxDrive(s *pump.Session, strat string, seed int64, marker string, watch []*pump.Node) {
	sg, err := pump.StrategyByName(strat)
	if err != nil {
		panic(err)
	}
	rng := rand.New(rand.NewSource(seed))
	scanned := 0
	shown := map[*pump.Node]bool{}
	for steps := 0; steps < 400000; steps++ {
		en := s.Enabled()
		if len(en) == 0 {
			return
		}
		if err := s.Apply(sg(s, en, rng)); err != nil {
			panic(err)
		}
		for ; scanned < len(s.All); scanned++ {
			if it := s.All[scanned]; it.Msg.Type == marker {
				shown[it.From] = true
			}
		}
		decided := len(watch) > 0
		for _, v := range watch {
			if !(shown[v] || (marker == "result" && len(v.Results) > 0) || v.Err != nil || v.Panic != "") {
				decided = false
			}
		}
		if decided {
			return
		}
	}
}

// c12CtxHonest runs one honest session of the site until every member of the committee has passed the verifying round.
func c12CtxHonest(st *c12CtxSite, n int, marker string, seed, keySeed int64) *c12CtxSrc {
	s, off, err := c12CtxNewSession(st, n, "base", seed, keySeed)
	if err != nil {
		return &c12CtxSrc{err: err}
	}
	c12CtxDrive(s, "fifo", seed, marker, s.Nodes[off:])
	for _, nd := range s.Nodes[off:] {
		if o := c12CtxObserve(s, nd, marker); !o.Marker || o.Err || o.Panic != "" {
			return &c12CtxSrc{err: fmt.Errorf("honest %s session: party %d did not pass the verifying round: %+v", st.proto, nd.G, o)}
		}
	}
	return &c12CtxSrc{s: s, off: off}
}

// c12CtxRunSmall executes one catalogue row in a committee of at most five.
func c12CtxRunSmall(c c12CtxCase, src *c12CtxSrc) (res c12CtxResult) {
	t0 := time.Now()
	res.Case = c
	defer func() { res.Wall = time.Since(t0).Seconds() }()
	r := c.Row
	st := c12CtxSiteOf(r.Proto, r.Site)
	if st == nil {
		res.Err = fmt.Errorf("unknown site %s", r.siteKey())
		return
	}
	s, off, err := c12CtxNewSession(st, r.N, c12CtxVariantOf(r), c.Seed, c.KeySeed)
	if err != nil {
		res.Skip = err.Error()
		return
	}
	if off+r.N > len(s.Nodes) || r.J >= r.N || r.I >= r.N || c.VIdx >= r.N {
		res.Err = fmt.Errorf("row %s does not fit the session", r.key())
		return
	}
	hook := &c12CtxHook{st: st, attackerG: s.Nodes[off+r.J].G}
	strat := "fifo"
	if r.Kind == "index" {
		hook.src, hook.victimG, hook.same = s, s.Nodes[off+r.I].G, true
		strat = fmt.Sprintf("devlast:%d", hook.attackerG) // the presenting party is the last to speak in every round
	} else {
		if src == nil || src.err != nil {
			res.Skip = "no source session"
			if src != nil {
				res.Skip = src.err.Error()
			}
			return
		}
		hook.src, hook.victimG = src.s, src.s.Nodes[src.off+r.I].G
	}
	s.Mutate = hook.mutate
	v := s.Nodes[off+c.VIdx]
	c12CtxDrive(s, strat, c.Seed, r.Marker, []*pump.Node{v})
	res.sess = &c12CtxSrc{s: s, off: off}
	res.Applied, res.Missing = hook.applied, hook.missing
	if hook.failed != "" {
		res.Err = fmt.Errorf("transplant failed: %s", hook.failed)
		return
	}
	res.Obs = c12CtxObserve(s, v, r.Marker)
	res.Outcome = res.Obs.outcome()
	res.Clean = res.Outcome == "rejected" && len(res.Obs.Culprits) == 1 && res.Obs.Culprits[0] == hook.attackerG
	if res.Applied == 0 {
		res.Outcome = "not-reached"
	}
	return
}

// c12CtxCalibrate: in one honest session the copy of party 1's proof-carrying message that goes to party 0 gets one
// element of the proof altered (+1). Party 0 must return an error and must not show the marker; party 2, which got the
// unaltered copy, must show it. (Binds the model's site table - message, field, marker - to the code, and is the self test
// that the observation tells acceptance from rejection.)
func c12CtxCalibrate(st *c12CtxSite, marker string, seed, keySeed int64) (altered c12CtxObs, honest c12CtxObs, err error) {
	s, off, e := c12CtxNewSession(st, 3, "base", seed, keySeed)
	if e != nil {
		return altered, honest, e
	}
	dev, v, u := s.Nodes[off+1], s.Nodes[off+0], s.Nodes[off+2]
	changed := false
	var terr error
	rng := rand.New(rand.NewSource(seed))
	s.Mutate = func(it *pump.Item) []byte {
		if it.From != dev || it.To != v || it.Msg.Type != st.msg {
			return nil
		}
		w, ch, e := tamper.Apply(it.Wire, tamper.Spec{Field: st.calField, Index: st.calIdx, Kind: "plus1"}, rng, nil)
		if e != nil {
			terr = e
			return nil
		}
		changed = changed || ch
		return w
	}
	c12CtxDrive(s, "fifo", seed, marker, []*pump.Node{v, u})
	if terr != nil || !changed {
		return altered, honest, fmt.Errorf("could not alter %s.%s: %v", st.msg, st.calField, terr)
	}
	return c12CtxObserve(s, v, marker), c12CtxObserve(s, u, marker), nil
}

// ------------------------------------------------------------------ the large committee (EdDSA key generation)

type c12CtxBigOut struct {
	Results  []c12CtxResult
	Baseline *c12CtxObs // an honest verifier nobody deviates towards (thorough)
	Recomp   c12CtxRecomp
	Wall     float64
	Phases   []float64
	Err      error
}

// c12CtxRecomp: the rounds' context recomputed as ssid(documented inputs) || bytes TLC printed; the real proofs on the wire
// verified under it.
type c12CtxRecomp struct {
	Tried      int    `json:"tried"`
	Match      []int  `json:"indices_whose_proof_verifies_under_the_models_context"`
	Mismatch   []int  `json:"indices_whose_proof_does_not"`
	CrossCheck bool   `json:"a_proof_fails_under_another_indexs_context"`
	Note       string `json:"note,omitempty"`
}

func c12CtxEdSsid(s *pump.Session) []byte {
	p := tss.Edwards().Params()
	list := []*big.Int{p.P, p.N, p.Gx, p.Gy}
	for _, nd := range s.Nodes {
		list = append(list, nd.PID.KeyInt())
	}
	list = append(list, big.NewInt(1), big.NewInt(0))
	return common.SHA512_256i(list...).Bytes()
}

// c12CtxEdProof reads the Schnorr proof and its statement off a KGRound2Message2 on the wire.
func c12CtxEdProof(wire []byte) (*schnorr.ZKProof, *crypto.ECPoint, error) {
	get := func(f string, i int) (*big.Int, error) {
		b, err := tamper.Get(wire, f, i)
		if err != nil {
			return nil, err
		}
		return new(big.Int).SetBytes(b), nil
	}
	x, e1 := get("de_commitment", 1)
	y, e2 := get("de_commitment", 2)
	ax, e3 := get("proof_alpha_x", 0)
	ay, e4 := get("proof_alpha_y", 0)
	t, e5 := get("proof_t", 0)
	for _, e := range []error{e1, e2, e3, e4, e5} {
		if e != nil {
			return nil, nil, e
		}
	}
	X, err := crypto.NewECPoint(tss.Edwards(), x, y)
	if err != nil {
		return nil, nil, err
	}
	A, err := crypto.NewECPoint(tss.Edwards(), ax, ay)
	if err != nil {
		return nil, nil, err
	}
	return &schnorr.ZKProof{Alpha: A, T: t}, X.EightInvEight(), nil
}

func c12CtxRecompute(s *pump.Session, enc map[int][]byte, idxs []int) (rc c12CtxRecomp) {
	defer func() {
		if r := recover(); r != nil {
			rc.Note = fmt.Sprintf("recomputation panicked: %v", r)
		}
	}()
	ssid := c12CtxEdSsid(s)
	wires := map[int][]byte{}
	for _, it := range s.All {
		if it.Msg.Type == "KGRound2Message2" {
			if _, ok := wires[it.From.G-1]; !ok {
				wires[it.From.G-1] = it.Wire
			}
		}
	}
	ctxOf := func(i int) []byte { return append(append([]byte{}, ssid...), enc[i]...) }
	var first = -1
	for _, i := range idxs {
		w, ok := wires[i]
		if _, have := enc[i]; !ok || !have {
			continue
		}
		pf, X, err := c12CtxEdProof(w)
		if err != nil {
			rc.Note = "wire layout: " + err.Error()
			return
		}
		rc.Tried++
		if pf.Verify(ctxOf(i), X) {
			rc.Match = append(rc.Match, i)
			if first < 0 {
				first = i
			}
		} else {
			rc.Mismatch = append(rc.Mismatch, i)
		}
	}
	if first >= 0 {
		// the comparison is real: the same proof under the context of another index must fail
		pf, X, _ := c12CtxEdProof(wires[first])
		for _, j := range idxs {
			if j != first && string(enc[j]) != string(enc[first]) {
				rc.CrossCheck = !pf.Verify(ctxOf(j), X)
				break
			}
		}
	}
	return
}

// c12CtxRunBig executes rows of the EdDSA key generation site inside ONE committee of n parties: everybody runs rounds 1
// and 2; each row gets its own honest verifier (an index outside every class), which alone is handed the round 2 traffic
// addressed to it - with the presenting party's three messages replaced by the prover's - and runs round 3.
func c12CtxRunBig(rows []c12CtxRow, enc map[int][]byte, seed int64, baseline bool, workers int) (out c12CtxBigOut) {
	t0 := time.Now()
	defer func() { out.Wall = time.Since(t0).Seconds() }()
	st := c12CtxSiteOf(string(pump.EdKeygen), "schnorr")
	n := 0
	for _, r := range rows {
		if r.N > n {
			n = r.N
		}
	}
	if n == 0 {
		return
	}
	s, _, err := c12CtxNewSession(st, n, "base", seed, 0)
	if err != nil {
		out.Err = err
		return
	}
	// verifiers: indices 10, 11, ... (no index class, nobody's prover or presenter)
	hooks := map[int]*c12CtxHook{} // by verifier G
	vG := map[int]int{}            // row -> verifier G
	next := 10
	for k, r := range rows {
		for next == r.I || next == r.J {
			next++
		}
		if next >= n {
			out.Err = fmt.Errorf("committee of %d too small for %d verifiers", n, len(rows))
			return
		}
		g := s.Nodes[next].G
		vG[k] = g
		hooks[g] = &c12CtxHook{st: st, attackerG: s.Nodes[r.J].G, src: s, victimG: s.Nodes[r.I].G, same: true, only: map[int]bool{g: true}}
		next++
	}
	baseG := 0
	if baseline {
		baseG = s.Nodes[next].G
	}
	index := map[string]*pump.Item{} // what the provers sent (only)
	provers := map[int]bool{}
	for _, h := range hooks {
		provers[h.victimG] = true
	}
	reindex := func(from int) int {
		for _, it := range s.All[from:] {
			if provers[it.From.G] {
				index[c12CtxItemKey(it.Msg.Type, it.From.G, it.To.G)] = it
			}
		}
		return len(s.All)
	}
	s.Mutate = func(it *pump.Item) []byte {
		if h := hooks[it.To.G]; h != nil {
			return h.mutate(it)
		}
		return nil
	}
	for _, h := range hooks {
		h.index = index
	}
	mark := func() { out.Phases = append(out.Phases, time.Since(t0).Seconds()) }
	s.StartAllQuiet(workers)
	done := reindex(0)
	mark()
	var r1 []*pump.Item
	for _, it := range s.All[:done] {
		if it.Round == 1 {
			r1 = append(r1, it)
		}
	}
	s.DeliverBulk(r1, workers)
	reindex(done)
	mark()
	for _, nd := range s.Nodes {
		if nd.Err != nil || nd.Panic != "" {
			out.Err = fmt.Errorf("party %d of the large committee failed before round 3: %v %s", nd.G, nd.Err, core.Short(nd.Panic, 200))
			return
		}
	}
	var r2 []*pump.Item
	for _, it := range s.All {
		if it.Round == 2 && (hooks[it.To.G] != nil || it.To.G == baseG) {
			r2 = append(r2, it)
		}
	}
	s.DeliverBulk(r2, workers)
	mark()
	for k, r := range rows {
		h := hooks[vG[k]]
		v := s.Nodes[vG[k]-1]
		res := c12CtxResult{Case: c12CtxCase{Mode: "context", Row: r, Seed: seed, Big: true, BigN: n, VIdx: vG[k] - 1}}
		res.Applied, res.Missing = h.applied, h.missing
		res.Obs = c12CtxObserve(s, v, r.Marker)
		res.Outcome = res.Obs.outcome()
		res.Clean = res.Outcome == "rejected" && len(res.Obs.Culprits) == 1 && res.Obs.Culprits[0] == h.attackerG
		if res.Applied < len(st.whole) {
			res.Outcome = "not-reached"
		}
		out.Results = append(out.Results, res)
	}
	if baseline {
		o := c12CtxObserve(s, s.Nodes[baseG-1], "result")
		out.Baseline = &o
	}
	var idxs []int
	for i := range enc {
		if i < n {
			idxs = append(idxs, i)
		}
	}
	sort.Ints(idxs)
	out.Recomp = c12CtxRecompute(s, enc, idxs)
	return
}

// ------------------------------------------------------------------ plan

type c12CtxPlanned struct {
	small []c12CtxCase
	big   []c12CtxRow
}

func c12CtxPlan(ctx *core.Ctx, m *c12CtxModel) c12CtxPlanned {
	var p c12CtxPlanned
	seed := int(ctx.Seed)
	if seed < 0 {
		seed = -seed
	}
	bySite := map[string][]c12CtxRow{}
	for _, r := range m.Rows {
		bySite[r.siteKey()] = append(bySite[r.siteKey()], r)
	}
	chosen := map[string]bool{}
	n := int64(0)
	addSmall := func(r c12CtxRow) {
		if chosen[r.key()] {
			return
		}
		chosen[r.key()] = true
		n++
		p.small = append(p.small, c12CtxCase{Mode: "context", Row: r, Seed: ctx.Seed*3000017 + n*101, KeySeed: 880000 + ctx.Seed*10, VIdx: r.V})
	}
	addBig := func(r c12CtxRow) {
		if chosen[r.key()] {
			return
		}
		chosen[r.key()] = true
		p.big = append(p.big, r)
	}
	for ord, st := range c12CtxSites {
		rows := bySite[st.key()]
		if st.thoroughOnly && !ctx.Thorough() {
			continue
		}
		var idx3, idx5, cross, bigRows []c12CtxRow
		for _, r := range rows {
			switch {
			case r.Kind == "index" && r.N == 3:
				idx3 = append(idx3, r)
			case r.Kind == "index" && r.N <= 5:
				idx5 = append(idx5, r)
			case r.Kind == "index":
				bigRows = append(bigRows, r)
			default:
				cross = append(cross, r)
			}
		}
		// --- committees of three: the ordered pairs over {0,1,2} (index 0 appends nothing to the ssid)
		if st.recordOnly {
			if len(idx3) > 0 {
				addSmall(idx3[(seed+ord)%len(idx3)])
			}
		} else if ctx.Thorough() {
			for k, r := range idx3 {
				// the isolated sites of ECDSA key generation (a session costs 12 CPU seconds): every second ordered pair
				if st.thoroughOnly && (k+seed)%2 == 1 {
					continue
				}
				addSmall(r)
			}
			for _, r := range idx5 {
				if !st.costly && ((r.I == 3 && r.J == 4) || (r.I == 4 && r.J == 0)) {
					addSmall(r)
				}
			}
		} else if len(idx3) > 0 {
			k := (seed + ord) % len(idx3)
			addSmall(idx3[k])
			if !st.costly && !st.oneRow {
				addSmall(idx3[(k+len(idx3)/2)%len(idx3)])
			}
		}
		// --- another session (other party keys / other key data) and the control (same inputs)
		pick := (seed + ord) % 2
		for _, r := range cross {
			if ctx.Thorough() || (r.I == pick && !(st.costly && r.Kind == "control")) {
				addSmall(r)
			}
		}
		// --- the large committee
		if len(bigRows) > 0 {
			want := [][2]int{{1, 257}}
			alt := [][2]int{{0, 256}, {257, 1}, {256, 0}, {0, 128}}
			if ctx.Thorough() {
				want = append(want, alt...)
				want = append(want, [][2]int{{255, 256}, {256, 255}, {127, 128}, {1, 129}, {254, 255}, {128, 256}}...)
			}
			_ = seed
			for _, w := range want {
				for _, r := range bigRows {
					if r.I == w[0] && r.J == w[1] {
						addBig(r)
					}
				}
			}
		}
		// --- every weakened design the model can tell apart at this site must be told apart by a selected row
		covered := map[string]bool{}
		for _, r := range rows {
			if chosen[r.key()] && r.Predict == "reject" {
				for _, w := range r.Weak {
					covered[w] = true
				}
			}
		}
		for _, r := range rows {
			if r.Predict != "reject" {
				continue
			}
			for _, w := range r.Weak {
				if !covered[w] {
					if r.N <= 5 {
						addSmall(r)
					} else {
						addBig(r)
					}
					for _, x := range r.Weak {
						covered[x] = true
					}
				}
			}
		}
	}
	return p
}

// ------------------------------------------------------------------ the part of the check

type c12CtxReport struct {
	Inconcl  string
	Model    c12CtxModel
	Results  []c12CtxResult
	Big      c12CtxBigOut
	Calib    map[string]any
	Drift    []string
	Wall     float64
	Executed int
}

func c12CtxWhat(res *c12CtxResult, rc *c12CtxRecomp) string {
	r := res.Case.Row
	st := c12CtxSiteOf(r.Proto, r.Site)
	var took []string
	took = append(took, st.whole...)
	for t, fs := range st.fields {
		took = append(took, t+"."+strings.Join(fs, "+"))
	}
	sort.Strings(took)
	how := fmt.Sprintf("the party at index %d presented, as its own, what the party at index %d sent (%s) in the same session of %d parties", r.J, r.I, strings.Join(took, ", "), r.N)
	if res.Case.Big {
		how = fmt.Sprintf("the party at index %d presented, as its own, what the party at index %d sent (%s) in the same session of %d parties", r.J, r.I, strings.Join(took, ", "), res.Case.BigN)
	}
	switch r.Kind {
	case "ssid":
		how = fmt.Sprintf("the party at index %d presented what its namesake sent (%s) in ANOTHER session whose %s differ", r.J, strings.Join(took, ", "), map[string]string{"keys": "party keys", "keydata": "key data (BigXj)"}[r.Vary])
	}
	verb := "accepted it: it went on without an error (" + r.Marker + ")"
	if res.Outcome == "panic" {
		verb = "did not reject it but panicked: " + core.Short(res.Obs.Panic, 160)
	}
	s := fmt.Sprintf("%s, %s proof in %s: %s; the honest verifier at index %d %s. The contexts of the two differ (ProofContext.tla predicts reject; designs that accept: %v)",
		r.Proto, r.Site, r.Msg, how, res.Case.VIdx, verb, r.Weak)
	if rc != nil && rc.Tried > 0 && len(rc.Mismatch) > 0 {
		s += fmt.Sprintf("; the rounds' context is ssid||big.Int(index).Bytes() only for the indices %v, not for %v", rc.Match, rc.Mismatch)
	}
	return s
}

func c12CtxVioKey(res *c12CtxResult) string {
	r := res.Case.Row
	what := "accepted"
	if res.Outcome == "panic" {
		what = "panic"
	}
	switch r.Kind {
	case "ssid":
		return fmt.Sprintf("C12:context:%s:%s:%s:other-session:%s", r.Proto, r.Site, what, r.Vary)
	}
	// the class of the index pair = the weakened designs of the model that would accept it (none: any two indices;
	// lowbyte / low7: indices congruent modulo 256 / 128)
	return fmt.Sprintf("C12:context:%s:%s:%s:index:%s", r.Proto, r.Site, what, strings.Join(r.Weak, "+"))
}

func c12CtxJudge(ctx *core.Ctx, res *c12CtxResult, rc *c12CtxRecomp) bool {
	if res.Case.Row.Predict != "reject" {
		return false
	}
	if res.Outcome == "accepted" || res.Outcome == "panic" {
		ctx.Report(c12CtxVioKey(res), c12CtxWhat(res, rc), res.Case)
		return true
	}
	return false
}

// c12RoundsContext is the protocol-level part of C12. Violations are reported on ctx; everything else comes back in the report.
func c12RoundsContext(ctx *core.Ctx, cov *core.Cov) *c12CtxReport {
	t0 := time.Now()
	rep := &c12CtxReport{Calib: map[string]any{}}
	defer func() { rep.Wall = time.Since(t0).Seconds() }()
	rep.Model = c12CtxRunTLC(ctx.Thorough())
	m := &rep.Model
	if m.Err != nil {
		rep.Inconcl = fmt.Sprintf("ProofContext model: %v", m.Err)
		return rep
	}
	if err := c12CtxCheckSites(m.Rows); err != nil {
		rep.Inconcl = fmt.Sprintf("the model's site table no longer matches the harness: %v", err)
		return rep
	}
	plan := c12CtxPlan(ctx, m)
	keySeed := 880000 + ctx.Seed*10

	// the large committee runs beside the small sessions
	var bigWG sync.WaitGroup
	if len(plan.big) > 0 {
		bigWG.Add(1)
		go func() {
			defer bigWG.Done()
			rep.Big = c12CtxRunBig(plan.big, m.Enc, ctx.Seed*7+258, ctx.Thorough(), 6)
		}()
	}

	// calibration + source sessions + rows, site by site (sites concurrently)
	type siteOut struct {
		results []c12CtxResult
		calib   any
		inconcl string
		drift   []string
	}
	outs := make([]siteOut, len(c12CtxSites))
	sem := make(chan struct{}, 3)
	var wg sync.WaitGroup
	for k, st := range c12CtxSites {
		wg.Add(1)
		go func(k int, st *c12CtxSite) {
			defer wg.Done()
			sem <- struct{}{}
			defer func() { <-sem }()
			o := &outs[k]
			var mine []c12CtxCase
			for _, c := range plan.small {
				if c.Row.siteKey() == st.key() {
					mine = append(mine, c)
				}
			}
			if len(mine) == 0 {
				return
			}
			marker := mine[0].Row.Marker
			tc := time.Now()
			cal := map[string]any{}
			o.calib = cal
			defer func() { cal["site_wall_s"] = time.Since(tc).Seconds() }()
			calibrated := false
			calibrate := func() bool {
				if calibrated {
					return true
				}
				calibrated = true
				t := time.Now()
				altered, honest, err := c12CtxCalibrate(st, marker, ctx.Seed*19+int64(k)+1, keySeed)
				cal["altered_proof_to_party_0"], cal["unaltered_copy_to_party_2"], cal["wall_s"] = altered, honest, time.Since(t).Seconds()
				switch {
				case err != nil:
					o.inconcl = fmt.Sprintf("site %s: calibration failed: %v", st.key(), err)
				case !honest.Marker || honest.Err:
					o.inconcl = fmt.Sprintf("site %s: an honest verifier does not show the marker %s the model names (%+v)", st.key(), marker, honest)
				case altered.Marker || !altered.Err:
					// an invalid proof that is not refused is C11's matter; here the observation cannot tell acceptance from rejection
					o.inconcl = fmt.Sprintf("site %s: a verifier handed an altered proof (%s.%s + 1) shows %+v - the marker %s does not separate acceptance from rejection", st.key(), st.msg, st.calField, altered, marker)
				}
				return o.inconcl == ""
			}
			// the costly sites of the quick tier are calibrated only if a row comes out accepted (before anything is reported)
			if (ctx.Thorough() || !st.costly) && !calibrate() {
				return
			}
			var src *c12CtxSrc // a session with the base inputs whose traffic is presented in the rows about another session
			for pass := 0; pass < 2; pass++ {
				for _, c := range mine {
					if (c.Row.Kind == "index") != (pass == 0) {
						continue
					}
					if pass == 1 && src == nil {
						src = c12CtxHonest(st, 3, marker, ctx.Seed*23+int64(k)+7, keySeed)
					}
					res := c12CtxRunSmall(c, src)
					if pass == 0 && src == nil && c.Row.N == 3 && res.Err == nil && res.Skip == "" && res.Outcome != "not-reached" {
						src = res.sess
					}
					res.sess = nil
					if c.Row.Predict == "reject" && (res.Outcome == "accepted" || res.Outcome == "panic") && !calibrate() {
						return
					}
					o.results = append(o.results, res)
				}
			}
			if !calibrated {
				cal["note"] = "quick tier: calibrated only when a row is accepted"
			}
		}(k, st)
	}
	wg.Wait()
	bigWG.Wait()

	for k, st := range c12CtxSites {
		if outs[k].inconcl != "" {
			rep.Inconcl = outs[k].inconcl
			return rep
		}
		rep.Calib[st.key()] = outs[k].calib
		rep.Results = append(rep.Results, outs[k].results...)
	}
	if rep.Big.Err != nil {
		rep.Inconcl = fmt.Sprintf("large committee: %v", rep.Big.Err)
		return rep
	}
	if rep.Big.Baseline != nil && (!rep.Big.Baseline.Marker || rep.Big.Baseline.Err) {
		rep.Inconcl = fmt.Sprintf("large committee: the honest verifier nobody deviated towards did not finish (%+v)", *rep.Big.Baseline)
		return rep
	}
	rep.Results = append(rep.Results, rep.Big.Results...)

	// verdicts
	perSite := map[string]map[string]int{}
	notReached := 0
	for i := range rep.Results {
		res := &rep.Results[i]
		r := res.Case.Row
		if res.Err != nil {
			rep.Inconcl = fmt.Sprintf("row %s: %v", r.key(), res.Err)
			return rep
		}
		if res.Skip != "" {
			rep.Drift = append(rep.Drift, fmt.Sprintf("row %s not executed: %s", r.key(), res.Skip))
			continue
		}
		if perSite[r.siteKey()] == nil {
			perSite[r.siteKey()] = map[string]int{}
		}
		perSite[r.siteKey()][r.Kind+":"+res.Outcome]++
		rep.Executed++
		cov.Case("context|"+r.key(), res.Outcome != "not-reached")
		var rc *c12CtxRecomp
		if res.Case.Big {
			rc = &rep.Big.Recomp
		}
		bad := c12CtxJudge(ctx, res, rc)
		switch {
		case res.Outcome == "not-reached":
			notReached++
			rep.Drift = append(rep.Drift, fmt.Sprintf("row %s: the verifier neither showed the marker nor returned an error (replacements made: %d, sources missing: %d)", r.key(), res.Applied, res.Missing))
		case r.Predict == "accept" && res.Outcome != "accepted":
			// nothing forbids a library that refuses this (e.g. an ssid with a fresh nonce); but then the rejections of the
			// neighbouring rows are not known to be due to the context alone
			rep.Drift = append(rep.Drift, fmt.Sprintf("row %s: the model accepts this proof (same session inputs and same index named by the context), the code: %s", r.key(), res.Outcome))
		case r.Predict == "reject" && res.Outcome == "rejected" && !res.Clean:
			rep.Drift = append(rep.Drift, fmt.Sprintf("row %s: rejected, but the verifier's culprits are %v (blame is C05's matter)", r.key(), res.Obs.Culprits))
		}
		if bad || i%5 == 0 {
			cov.Sample(map[string]any{"case": "context|" + r.key(), "model": r.Predict, "code": res.Outcome, "verifier": res.Obs, "replacements": res.Applied}, 18)
		}
	}
	if rep.Executed == 0 || notReached*2 > rep.Executed {
		rep.Inconcl = fmt.Sprintf("context replays: %d of %d rows did not reach the verifying round", notReached, rep.Executed)
		return rep
	}
	rc := rep.Big.Recomp
	if len(plan.big) > 0 {
		switch {
		case rc.Tried == 0 || len(rc.Match) == 0:
			rep.Drift = append(rep.Drift, "the rounds' context could not be recomputed from the documented inputs (ssid = H(curve, party keys, 1, 0)): "+rc.Note)
		case len(rc.Mismatch) > 0:
			rep.Drift = append(rep.Drift, fmt.Sprintf("the rounds' context equals ssid||big.Int(index).Bytes() for the indices %v but not for %v", rc.Match, rc.Mismatch))
		case !rc.CrossCheck:
			rep.Drift = append(rep.Drift, "context recomputation does not discriminate: a real proof also verifies under another index's context")
		}
	}
	sort.Strings(rep.Drift)
	cov.AddMC(m.Res.Distinct, m.Res.Generated)
	cov.AddTraces(rep.Executed)
	weakCovered := map[string][]string{}
	for i := range rep.Results {
		r := rep.Results[i].Case.Row
		if rep.Results[i].Skip == "" && r.Predict == "reject" {
			for _, w := range r.Weak {
				weakCovered[r.siteKey()] = append(weakCovered[r.siteKey()], w)
			}
		}
	}
	for k := range weakCovered {
		weakCovered[k] = c12Uniq(sortedCopy(weakCovered[k]))
	}
	unreached := []string{}
	for e, n := range m.WeakEnc {
		if n > 258 {
			unreached = append(unreached, fmt.Sprintf("%s (first collision needs a committee of %d)", e, n))
		}
	}
	sort.Strings(unreached)
	var rowList []string
	for i := range rep.Results {
		r := &rep.Results[i]
		if r.Skip == "" {
			rowList = append(rowList, fmt.Sprintf("%s: model %s, code %s (%.1fs)", r.Case.Row.key(), r.Case.Row.Predict, r.Outcome, r.Wall))
		}
	}
	var recorded []string
	for i := range rep.Results {
		r := &rep.Results[i]
		if st := c12CtxSiteOf(r.Case.Row.Proto, r.Case.Row.Site); st != nil && st.recordOnly && r.Skip == "" {
			if r.Outcome == "accepted" {
				// the property asks that a proof cannot be replayed by another participant: a context that names the recipient
				// instead of the prover does not give that (a finding recorded in known_findings.json)
				ctx.Report("C12:context:ecdsa-resharing:fac-to:context-names-recipient-not-prover",
					fmt.Sprintf("ecdsa-resharing, factorisation proof in DGRound4Message1: the proof is made and verified under ssid || index of the RECIPIENT, so it does not name its prover: with the modulus proofs switched off (SetNoProofMod) the party at index %d presented the Paillier modulus and the factorisation proof of the party at index %d to the party at index %d, which accepted them and saved key data",
						r.Case.Row.J, r.Case.Row.I, r.Case.VIdx), r.Case)
			}
			recorded = append(recorded, fmt.Sprintf("%s: the context of this site names the %s, not the prover: with the modulus proofs switched off (SetNoProofMod) the party at index %d presented the Paillier modulus and the factorisation proof of the party at index %d to the party at index %d, which %s them (model: %s)",
				r.Case.Row.key(), r.Case.Row.CtxOf, r.Case.Row.J, r.Case.Row.I, r.Case.VIdx, r.Outcome, r.Case.Row.Predict))
		}
	}
	cov.Set("context", map[string]any{
		"rows":                    rowList,
		"recorded_not_judged":     recorded,
		"tlc":                     map[string]any{"module": "ProofContext", "distinct": m.Res.Distinct, "generated": m.Res.Generated, "wall_s": m.Res.Wall, "invariants": "ReplayRejected; ASSUME DesignInjective, DiscriminatingEnc, DiscriminatingDeriv, CatalogueTellsApart"},
		"catalogue_rows":          len(m.Rows),
		"rows_executed_on_rounds": rep.Executed,
		"outcomes_by_site":        perSite,
		"calibration":             rep.Calib,
		"large_committee":         map[string]any{"parties": c12CtxBigN(plan.big), "rows": len(plan.big), "wall_s": rep.Big.Wall, "phase_marks_s": rep.Big.Phases, "baseline_verifier": rep.Big.Baseline, "context_recomputed": rc},
		"weakened_designs_told_apart_by_executed_rows":     weakCovered,
		"weakened_designs_no_executable_committee_reaches": unreached,
		"drift":  rep.Drift,
		"wall_s": time.Since(t0).Seconds(),
	})
	return rep
}

func c12CtxBigN(rows []c12CtxRow) int {
	n := 0
	for _, r := range rows {
		if r.N > n {
			n = r.N
		}
	}
	return n
}

// c12CtxReplay re-runs a stored context case.
func c12CtxReplay(ctx *core.Ctx, c c12CtxCase) error {
	m := c12CtxRunTLC(false)
	if m.Err != nil {
		return core.Inconcl("ProofContext model: %v", m.Err)
	}
	var res c12CtxResult
	var rc *c12CtxRecomp
	if c.Big {
		row := c.Row
		if row.N < c.BigN {
			row.N = c.BigN
		}
		out := c12CtxRunBig([]c12CtxRow{row}, m.Enc, c.Seed, false, 6)
		if out.Err != nil || len(out.Results) != 1 {
			return core.Inconcl("replay: large committee: %v", out.Err)
		}
		res = out.Results[0]
		res.Case.Row = c.Row
		rc = &out.Recomp
	} else {
		st := c12CtxSiteOf(c.Row.Proto, c.Row.Site)
		if st == nil {
			return core.Inconcl("replay: unknown site %s", c.Row.siteKey())
		}
		var src *c12CtxSrc
		if c.Row.Kind != "index" {
			src = c12CtxHonest(st, 3, c.Row.Marker, c.Seed+7, c.KeySeed)
		}
		res = c12CtxRunSmall(c, src)
		if res.Err != nil {
			return core.Inconcl("replay: %v", res.Err)
		}
	}
	fmt.Printf("replay context|%s: model=%s code=%s verifier=%+v replacements=%d skip=%q\n", c.Row.key(), c.Row.Predict, res.Outcome, res.Obs, res.Applied, res.Skip)
	c12CtxJudge(ctx, &res, rc)
	return nil
}
