package props

// C12 - the nine proof systems of tss-lib as "transcripts" (maps of named values) that the catalogue rows of
// spec/ProofBinding.tla can be applied to generically.  Each adapter knows how to
//   gen     make an honest proof with the library's own prover (real size, vendored parameter sets)
//   verify  hand a (transformed) transcript to the library's Verify
//   sim     say what every first-move commitment has to be for the verifier's equations to hold under a GIVEN
//           challenge (the harness' own transcription of the equations, ProofBinding!Sim at real size)
//   chal    recompute the challenge of an untouched honest proof (only used to build shifted transcripts and to
//           show that they are valid under the old challenge; never for a verdict, and validated against sim)
//   guards  the verifier's range / unit guards (own transcription, for the same self check)

import (
	"crypto/elliptic"
	"fmt"
	"io"
	"math/big"
	"math/rand"

	"github.com/bnb-chain/tss-lib/v2/common"
	"github.com/bnb-chain/tss-lib/v2/crypto"
	"github.com/bnb-chain/tss-lib/v2/crypto/dlnproof"
	"github.com/bnb-chain/tss-lib/v2/crypto/facproof"
	"github.com/bnb-chain/tss-lib/v2/crypto/modproof"
	"github.com/bnb-chain/tss-lib/v2/crypto/mta"
	"github.com/bnb-chain/tss-lib/v2/crypto/paillier"
	"github.com/bnb-chain/tss-lib/v2/crypto/schnorr"
	eckg "github.com/bnb-chain/tss-lib/v2/ecdsa/keygen"
	"github.com/bnb-chain/tss-lib/v2/tss"

	"verif/harness/obs"
)

// ------------------------------------------------------------------ values and transcripts

type c12Curve struct {
	name string
	g    obs.Group
	ec   elliptic.Curve
}

var (
	c12Secp = &c12Curve{"secp256k1", obs.Secp, tss.S256()}
	c12Ed   = &c12Curve{"ed25519", obs.Ed, tss.Edwards()}
	c12One  = big.NewInt(1)
	c12Zero = big.NewInt(0)
)

func c12CurveByName(n string) *c12Curve {
	if n == c12Ed.name {
		return c12Ed
	}
	return c12Secp
}

// c12V is an integer or a curve point (coordinates may be off-curve after a perturbation).
type c12V struct {
	I *big.Int
	P *obs.Pt
}

func c12I(x *big.Int) c12V { return c12V{I: new(big.Int).Set(x)} }
func c12P(p obs.Pt) c12V {
	q := obs.Pt{Inf: p.Inf}
	if !p.Inf {
		q.X, q.Y = new(big.Int).Set(p.X), new(big.Int).Set(p.Y)
	}
	return c12V{P: &q}
}

func (v c12V) eq(w c12V) bool {
	if (v.P == nil) != (w.P == nil) {
		return false
	}
	if v.P != nil {
		return v.P.Eq(*w.P)
	}
	return v.I.Cmp(w.I) == 0
}

func (v c12V) short() string {
	if v.P != nil {
		return v.P.String()
	}
	s := v.I.Text(16)
	if len(s) > 24 {
		s = s[:10] + ".." + s[len(s)-10:] + fmt.Sprintf("(%d bits)", v.I.BitLen())
	}
	return s
}

type c12Tr struct {
	sys  *c12Sys
	cur  *c12Curve
	sess []byte
	st   map[string]c12V
	pf   map[string][]c12V
	// what the harness knows about the honest instance beyond the public transcript
	priv map[string]*big.Int // lam: h1 = h2^lam (fac: s = t^lam); ordP: order of <h2>; ordC: a multiple of the order of Z*_{N^2}
}

func (t *c12Tr) clone() *c12Tr {
	u := &c12Tr{sys: t.sys, cur: t.cur, sess: append([]byte(nil), t.sess...), st: map[string]c12V{}, pf: map[string][]c12V{}, priv: t.priv}
	if t.sess == nil {
		u.sess = nil
	}
	for k, v := range t.st {
		u.st[k] = v
	}
	for k, v := range t.pf {
		u.pf[k] = append([]c12V(nil), v...)
	}
	return u
}

func (t *c12Tr) i(name string) *big.Int { return t.pf[name][0].I }
func (t *c12Tr) s(name string) *big.Int { return t.st[name].I }
func (t *c12Tr) q() *big.Int            { return t.cur.g.Order() }

// ecp converts to the library's point type without the on-curve check (the exported constructor a caller of Verify
// can use); the neutral element of secp256k1 has no such representation.
func (c *c12Curve) ecp(v c12V) (*crypto.ECPoint, bool) {
	if v.P == nil || v.P.Inf {
		return nil, false
	}
	return crypto.NewECPointNoCurveCheck(c.ec, v.P.X, v.P.Y), true
}

type c12Chal struct {
	E    *big.Int
	Bits []uint
}

type c12Comp struct {
	N, K, Role string
	Mult       int
}
type c12St struct {
	N, K        string
	Hashed, Aux bool
}

type c12Env struct {
	keys []eckg.LocalPartySaveData
}

type c12Sys struct {
	name    string
	comps   []c12Comp
	stmt    []c12St
	session bool
	// gen: variant selects curve / orientation; ia, ib the vendored parameter sets of prover and verifier
	gen      func(env *c12Env, variant int, sess []byte, rng *rand.Rand, lib io.Reader, ia, ib int) (*c12Tr, error)
	verify   func(t *c12Tr) bool
	sim      func(t *c12Tr, e *c12Chal) map[string][]c12V
	chal     func(t *c12Tr) *c12Chal      // the challenge read off the transcript without hashing (dln), if possible
	hashIn   func(t *c12Tr) []c12HashItem // the values the library feeds to the challenge hash, named
	tagged   bool                         // ... through the session-tagged hash
	guards   func(t *c12Tr) bool
	modOf    func(t *c12Tr, kind string) *big.Int // modulus a group element of this kind is reduced by
	order    func(t *c12Tr, comp string) *big.Int // integer components: a number n with v+n equivalent to v in every group v acts in
	base     func(t *c12Tr, name string, rng *rand.Rand) c12V
	variants int
}

func (s *c12Sys) comp(n string) *c12Comp {
	for i := range s.comps {
		if s.comps[i].N == n {
			return &s.comps[i]
		}
	}
	return nil
}
func (s *c12Sys) stc(n string) *c12St {
	for i := range s.stmt {
		if s.stmt[i].N == n {
			return &s.stmt[i]
		}
	}
	return nil
}

// ------------------------------------------------------------------ arithmetic helpers (math/big only)

func c12Mul(a, b, m *big.Int) *big.Int { z := new(big.Int).Mul(a, b); return z.Mod(z, m) }

// c12Exp: b^e mod m, negative e through the inverse (nil if b is not a unit).
func c12Exp(b, e, m *big.Int) *big.Int {
	if e.Sign() >= 0 {
		return new(big.Int).Exp(b, e, m)
	}
	inv := new(big.Int).ModInverse(new(big.Int).Mod(b, m), m)
	if inv == nil {
		return nil
	}
	return new(big.Int).Exp(inv, new(big.Int).Neg(e), m)
}

func c12Prod(m *big.Int, xs ...*big.Int) *big.Int {
	z := big.NewInt(1)
	for _, x := range xs {
		if x == nil {
			return nil
		}
		z.Mul(z, x).Mod(z, m)
	}
	return z
}

func c12Neg(x *big.Int) *big.Int { return new(big.Int).Neg(x) }

func c12RandUnit(rng *rand.Rand, m *big.Int) *big.Int {
	for {
		x := new(big.Int).Rand(rng, m)
		if x.Cmp(big.NewInt(2)) > 0 && new(big.Int).GCD(nil, nil, x, m).Cmp(c12One) == 0 {
			return x
		}
	}
}

func c12RandScalar(rng *rand.Rand, q *big.Int) *big.Int {
	for {
		x := new(big.Int).Rand(rng, q)
		if x.Cmp(big.NewInt(2)) > 0 {
			return x
		}
	}
}

func c12InInterval(v, bound *big.Int) bool { return v.Sign() >= 0 && v.Cmp(bound) < 0 }
func c12Unit(v, m *big.Int) bool           { return new(big.Int).GCD(nil, nil, v, m).Cmp(c12One) == 0 }

func c12Ints(vs []c12V) []*big.Int {
	out := make([]*big.Int, len(vs))
	for i, v := range vs {
		out[i] = v.I
	}
	return out
}

func c12Vals(xs []*big.Int) []c12V {
	out := make([]c12V, len(xs))
	for i, x := range xs {
		out[i] = c12I(x)
	}
	return out
}

func c12Pow(q *big.Int, n int) *big.Int { return new(big.Int).Exp(q, big.NewInt(int64(n)), nil) }

// points
func (c *c12Curve) mul(k *big.Int, p obs.Pt) obs.Pt {
	return obs.Mul(c.g, new(big.Int).Mod(k, c.g.Order()), p)
}
func (c *c12Curve) base(k *big.Int) obs.Pt { return c.mul(k, c.g.Gen()) }
func (c *c12Curve) sub(a, b obs.Pt) obs.Pt { return c.g.Add(a, c.g.Neg(b)) }

// ------------------------------------------------------------------ the Pedersen / Paillier parameters of a vendored set

type c12Ped struct {
	NT, H1, H2, Lam, Ord *big.Int // H1 = H2^Lam mod NT; Ord = p'q' is the order of the squares
}

func c12PedOf(k *eckg.LocalPartySaveData) (*c12Ped, error) {
	if k.NTildei == nil || k.H1i == nil || k.H2i == nil || k.Alpha == nil || k.Beta == nil || k.P == nil || k.Q == nil {
		return nil, fmt.Errorf("incomplete ring-Pedersen parameters")
	}
	two := big.NewInt(2)
	P := new(big.Int).Add(new(big.Int).Mul(two, k.P), c12One)
	Q := new(big.Int).Add(new(big.Int).Mul(two, k.Q), c12One)
	if new(big.Int).Mul(P, Q).Cmp(k.NTildei) != 0 {
		return nil, fmt.Errorf("NTilde != (2P+1)(2Q+1)")
	}
	ord := new(big.Int).Mul(k.P, k.Q)
	if new(big.Int).Exp(k.H2i, k.Beta, k.NTildei).Cmp(k.H1i) != 0 || new(big.Int).Exp(k.H1i, k.Alpha, k.NTildei).Cmp(k.H2i) != 0 {
		return nil, fmt.Errorf("H1 != H2^Beta or H2 != H1^Alpha")
	}
	if new(big.Int).Exp(k.H2i, ord, k.NTildei).Cmp(c12One) != 0 {
		return nil, fmt.Errorf("H2^(pq) != 1")
	}
	return &c12Ped{NT: k.NTildei, H1: k.H1i, H2: k.H2i, Lam: k.Beta, Ord: ord}, nil
}

// ------------------------------------------------------------------ the systems

func c12Recover(f func() bool) (ok bool, pan string) {
	defer func() {
		if r := recover(); r != nil {
			ok, pan = false, fmt.Sprint(r)
		}
	}()
	return f(), ""
}

func c12HashQ(q *big.Int, sess []byte, tagged bool, in ...*big.Int) *big.Int {
	var h *big.Int
	if tagged {
		h = common.SHA512_256i_TAGGED(sess, in...)
	} else {
		h = common.SHA512_256i(in...)
	}
	if h == nil {
		return nil
	}
	return common.RejectionSample(q, h)
}

func c12XY(v c12V) []*big.Int {
	if v.P == nil || v.P.Inf {
		return []*big.Int{big.NewInt(0), big.NewInt(0)}
	}
	return []*big.Int{v.P.X, v.P.Y}
}

var c12Systems = []*c12Sys{c12Schnorr(), c12SchnorrV(), c12Dln(), c12PKey(), c12ModSys(), c12Fac(), c12Alice(), c12Bob(false), c12Bob(true)}

func c12SysByName(n string) *c12Sys {
	for _, s := range c12Systems {
		if s.name == n {
			return s
		}
	}
	return nil
}

func c12CurveVariant(v int) *c12Curve {
	if v%2 == 1 {
		return c12Ed
	}
	return c12Secp
}

func c12Schnorr() *c12Sys {
	s := &c12Sys{name: "schnorr", session: true, variants: 2,
		comps: []c12Comp{{"Alpha", "E", "commit", 1}, {"T", "int", "resp", 1}},
		stmt:  []c12St{{"X", "E", true, false}}}
	s.gen = func(env *c12Env, variant int, sess []byte, rng *rand.Rand, lib io.Reader, ia, ib int) (*c12Tr, error) {
		cur := c12CurveVariant(variant)
		x := c12RandScalar(rng, cur.g.Order())
		X := cur.base(x)
		Xp, _ := cur.ecp(c12P(X))
		pf, err := schnorr.NewZKProof(sess, x, Xp, lib)
		if err != nil {
			return nil, err
		}
		return &c12Tr{sys: s, cur: cur, sess: sess, st: map[string]c12V{"X": c12P(X)},
			pf: map[string][]c12V{"Alpha": {c12P(obs.Pt{X: pf.Alpha.X(), Y: pf.Alpha.Y()})}, "T": {c12I(pf.T)}}}, nil
	}
	s.verify = func(t *c12Tr) bool {
		a, ok1 := t.cur.ecp(t.pf["Alpha"][0])
		X, ok2 := t.cur.ecp(t.st["X"])
		if !ok1 || !ok2 {
			panic("c12: unrepresentable point reached verify")
		}
		return (&schnorr.ZKProof{Alpha: a, T: t.i("T")}).Verify(t.sess, X)
	}
	s.sim = func(t *c12Tr, e *c12Chal) map[string][]c12V { // t*G = alpha + c*X
		return map[string][]c12V{"Alpha": {c12P(t.cur.sub(t.cur.base(t.i("T")), t.cur.mul(e.E, *t.st["X"].P)))}}
	}
	s.tagged = true
	s.hashIn = func(t *c12Tr) []c12HashItem {
		g := t.cur.g.Gen()
		return []c12HashItem{{"X", c12XY(t.st["X"])}, {"G", []*big.Int{g.X, g.Y}}, {"Alpha", c12XY(t.pf["Alpha"][0])}}
	}
	s.guards = func(t *c12Tr) bool { return new(big.Int).Mod(t.i("T"), t.q()).Sign() != 0 && !t.st["X"].P.Inf }
	s.order = func(t *c12Tr, comp string) *big.Int { return t.q() }
	s.base = c12BaseCommon
	return s
}

func c12SchnorrV() *c12Sys {
	s := &c12Sys{name: "schnorrV", session: true, variants: 2,
		comps: []c12Comp{{"Alpha", "E", "commit", 1}, {"T", "int", "resp", 1}, {"U", "int", "resp", 1}},
		stmt:  []c12St{{"V", "E", true, false}, {"Rp", "E", true, false}}}
	s.gen = func(env *c12Env, variant int, sess []byte, rng *rand.Rand, lib io.Reader, ia, ib int) (*c12Tr, error) {
		cur := c12CurveVariant(variant)
		q := cur.g.Order()
		sk, l := c12RandScalar(rng, q), c12RandScalar(rng, q)
		R := cur.base(c12RandScalar(rng, q))
		V := cur.g.Add(cur.mul(sk, R), cur.base(l))
		Vp, ok1 := cur.ecp(c12P(V))
		Rp, ok2 := cur.ecp(c12P(R))
		if !ok1 || !ok2 {
			return nil, fmt.Errorf("unrepresentable statement")
		}
		pf, err := schnorr.NewZKVProof(sess, Vp, Rp, sk, l, lib)
		if err != nil {
			return nil, err
		}
		return &c12Tr{sys: s, cur: cur, sess: sess, st: map[string]c12V{"V": c12P(V), "Rp": c12P(R)},
			pf: map[string][]c12V{"Alpha": {c12P(obs.Pt{X: pf.Alpha.X(), Y: pf.Alpha.Y()})}, "T": {c12I(pf.T)}, "U": {c12I(pf.U)}}}, nil
	}
	s.verify = func(t *c12Tr) bool {
		a, ok1 := t.cur.ecp(t.pf["Alpha"][0])
		V, ok2 := t.cur.ecp(t.st["V"])
		R, ok3 := t.cur.ecp(t.st["Rp"])
		if !ok1 || !ok2 || !ok3 {
			panic("c12: unrepresentable point reached verify")
		}
		return (&schnorr.ZKVProof{Alpha: a, T: t.i("T"), U: t.i("U")}).Verify(t.sess, V, R)
	}
	s.sim = func(t *c12Tr, e *c12Chal) map[string][]c12V { // t*R + u*G = alpha + c*V
		lhs := t.cur.g.Add(t.cur.mul(t.i("T"), *t.st["Rp"].P), t.cur.base(t.i("U")))
		return map[string][]c12V{"Alpha": {c12P(t.cur.sub(lhs, t.cur.mul(e.E, *t.st["V"].P)))}}
	}
	s.tagged = true
	s.hashIn = func(t *c12Tr) []c12HashItem {
		g := t.cur.g.Gen()
		return []c12HashItem{{"V", c12XY(t.st["V"])}, {"Rp", c12XY(t.st["Rp"])}, {"G", []*big.Int{g.X, g.Y}}, {"Alpha", c12XY(t.pf["Alpha"][0])}}
	}
	s.guards = func(t *c12Tr) bool {
		return new(big.Int).Mod(t.i("T"), t.q()).Sign() != 0 && new(big.Int).Mod(t.i("U"), t.q()).Sign() != 0 &&
			!t.st["V"].P.Inf && !t.st["Rp"].P.Inf && !t.pf["Alpha"][0].P.Inf
	}
	s.order = func(t *c12Tr, comp string) *big.Int { return t.q() }
	s.base = c12BaseCommon
	return s
}

// c12BaseCommon resolves the base of a multiplicative move.
func c12BaseCommon(t *c12Tr, name string, rng *rand.Rand) c12V {
	switch name {
	case "G":
		return c12P(t.cur.g.Gen())
	case "Gamma":
		return c12I(new(big.Int).Add(t.s("N"), c12One))
	case "runit": // a unit modulo N (the multiplicative response of the MtA proofs is moved by it)
		return c12I(c12RandUnit(rng, t.s("N")))
	case "rand": // an N-th residue modulo N^2
		N := t.s("N")
		return c12I(new(big.Int).Exp(c12RandUnit(rng, N), N, new(big.Int).Mul(N, N)))
	}
	return t.st[name]
}

func c12Dln() *c12Sys {
	s := &c12Sys{name: "dln", session: false, variants: 2,
		comps: []c12Comp{{"Alpha", "P", "commit", dlnproof.Iterations}, {"T", "int", "resp", dlnproof.Iterations}},
		stmt:  []c12St{{"h1", "P", true, false}, {"h2", "P", true, false}, {"N", "tag", true, false}}}
	s.gen = func(env *c12Env, variant int, sess []byte, rng *rand.Rand, lib io.Reader, ia, ib int) (*c12Tr, error) {
		k := &env.keys[ia]
		ped, err := c12PedOf(k)
		if err != nil {
			return nil, err
		}
		h1, h2, x := k.H1i, k.H2i, k.Alpha // h2 = h1^alpha
		if variant%2 == 1 {
			h1, h2, x = k.H2i, k.H1i, k.Beta // the second proof of the protocol: h1 = h2^beta
		}
		pf := dlnproof.NewDLNProof(h1, h2, x, k.P, k.Q, k.NTildei, lib)
		return &c12Tr{sys: s, cur: c12Secp, st: map[string]c12V{"h1": c12I(h1), "h2": c12I(h2), "N": c12I(k.NTildei)},
			pf:   map[string][]c12V{"Alpha": c12Vals(pf.Alpha[:]), "T": c12Vals(pf.T[:])},
			priv: map[string]*big.Int{"ordP": ped.Ord}}, nil
	}
	s.verify = func(t *c12Tr) bool {
		var pf dlnproof.Proof
		copy(pf.Alpha[:], c12Ints(t.pf["Alpha"]))
		copy(pf.T[:], c12Ints(t.pf["T"]))
		return pf.Verify(t.s("h1"), t.s("h2"), t.s("N"))
	}
	s.sim = func(t *c12Tr, e *c12Chal) map[string][]c12V { // h1^t_i = alpha_i * h2^c_i
		N := t.s("N")
		out := make([]c12V, len(t.pf["T"]))
		for i, ti := range t.pf["T"] {
			v := c12Prod(N, c12Exp(t.s("h1"), ti.I, N), c12Exp(t.s("h2"), big.NewInt(-int64(e.Bits[i])), N))
			if v == nil {
				v = big.NewInt(0)
			}
			out[i] = c12I(v)
		}
		return map[string][]c12V{"Alpha": out}
	}
	// the challenge bits are read off the equations themselves (no hash needed): c_i = 0 iff h1^t_i = alpha_i
	s.chal = func(t *c12Tr) *c12Chal {
		N := t.s("N")
		bits := make([]uint, len(t.pf["T"]))
		for i, ti := range t.pf["T"] {
			if c12Exp(t.s("h1"), ti.I, N).Cmp(new(big.Int).Mod(t.pf["Alpha"][i].I, N)) != 0 {
				bits[i] = 1
			}
		}
		return &c12Chal{Bits: bits}
	}
	s.guards = func(t *c12Tr) bool {
		N := t.s("N")
		gt1 := func(v *big.Int) bool { return new(big.Int).Mod(v, N).Cmp(c12One) > 0 }
		if N.Sign() != 1 || !gt1(t.s("h1")) || !gt1(t.s("h2")) || new(big.Int).Mod(t.s("h1"), N).Cmp(new(big.Int).Mod(t.s("h2"), N)) == 0 {
			return false
		}
		for i := range t.pf["T"] {
			if !gt1(t.pf["T"][i].I) || !gt1(t.pf["Alpha"][i].I) {
				return false
			}
		}
		return true
	}
	s.modOf = func(t *c12Tr, kind string) *big.Int { return t.s("N") }
	s.order = func(t *c12Tr, comp string) *big.Int { return t.priv["ordP"] }
	s.base = c12BaseCommon
	return s
}

func c12PKey() *c12Sys {
	s := &c12Sys{name: "pkey", session: false, variants: 1,
		comps: []c12Comp{{"Y", "MG", "resp", paillier.ProofIters}},
		stmt:  []c12St{{"N", "tag", true, false}, {"k", "int", true, false}, {"pub", "E", true, false}}}
	s.gen = func(env *c12Env, variant int, sess []byte, rng *rand.Rand, lib io.Reader, ia, ib int) (*c12Tr, error) {
		k := &env.keys[ia]
		pub := k.ECDSAPub
		pf := k.PaillierSK.Proof(k.ShareID, pub)
		return &c12Tr{sys: s, cur: c12Secp, st: map[string]c12V{"N": c12I(k.PaillierSK.N), "k": c12I(k.ShareID), "pub": c12P(obs.Pt{X: pub.X(), Y: pub.Y()})},
			pf: map[string][]c12V{"Y": c12Vals(pf[:])}}, nil
	}
	s.verify = func(t *c12Tr) bool {
		var pf paillier.Proof
		copy(pf[:], c12Ints(t.pf["Y"]))
		pub, ok := t.cur.ecp(t.st["pub"])
		if !ok {
			panic("c12: unrepresentable point reached verify")
		}
		ok, err := pf.Verify(t.s("N"), t.s("k"), pub)
		return ok && err == nil
	}
	s.modOf = func(t *c12Tr, kind string) *big.Int { return t.s("N") }
	s.base = c12BaseCommon
	return s
}

func c12ModSys() *c12Sys {
	s := &c12Sys{name: "mod", session: true, variants: 1,
		comps: []c12Comp{{"W", "MG", "commit", 1}, {"X", "MG", "resp", modproof.Iterations}, {"A", "bits", "resp", 1},
			{"B", "bits", "resp", 1}, {"Z", "MG", "resp", modproof.Iterations}},
		stmt: []c12St{{"N", "tag", true, false}}}
	s.gen = func(env *c12Env, variant int, sess []byte, rng *rand.Rand, lib io.Reader, ia, ib int) (*c12Tr, error) {
		sk := env.keys[ia].PaillierSK
		pf, err := modproof.NewProof(sess, sk.N, sk.P, sk.Q, lib)
		if err != nil {
			return nil, err
		}
		return &c12Tr{sys: s, cur: c12Secp, sess: sess, st: map[string]c12V{"N": c12I(sk.N)},
			pf: map[string][]c12V{"W": {c12I(pf.W)}, "X": c12Vals(pf.X[:]), "A": {c12I(pf.A)}, "B": {c12I(pf.B)}, "Z": c12Vals(pf.Z[:])}}, nil
	}
	s.verify = func(t *c12Tr) bool {
		pf := &modproof.ProofMod{W: t.i("W"), A: t.i("A"), B: t.i("B")}
		copy(pf.X[:], c12Ints(t.pf["X"]))
		copy(pf.Z[:], c12Ints(t.pf["Z"]))
		return pf.Verify(t.sess, t.s("N"))
	}
	s.modOf = func(t *c12Tr, kind string) *big.Int { return t.s("N") }
	s.base = c12BaseCommon
	return s
}

// c12ModOwn: the equations of the modulus proof with the challenges read off z_i^N (x_i^4 = (-1)^a w^b z_i^N), and its guards.
func c12ModOwn(t *c12Tr) bool {
	N, W, A, B := t.s("N"), t.i("W"), t.i("A"), t.i("B")
	n := len(t.pf["X"])
	if N.Cmp(c12One) <= 0 || N.Bit(0) == 0 || big.Jacobi(W, N) != -1 || !c12InInterval(W, N) || W.Sign() == 0 || A.BitLen() != n+1 || B.BitLen() != n+1 {
		return false
	}
	for i := 0; i < n; i++ {
		x, z := t.pf["X"][i].I, t.pf["Z"][i].I
		if x.Sign() != 1 || x.Cmp(N) >= 0 || z.Sign() != 1 || z.Cmp(N) >= 0 {
			return false
		}
		y := new(big.Int).Exp(z, N, N)
		if A.Bit(i) == 1 {
			y.Neg(y).Mod(y, N)
		}
		if B.Bit(i) == 1 {
			y = c12Mul(y, W, N)
		}
		if new(big.Int).Exp(x, big.NewInt(4), N).Cmp(y) != 0 {
			return false
		}
	}
	return true
}

func c12Fac() *c12Sys {
	names := []string{"P", "Q", "A", "B", "T", "Sigma", "Z1", "Z2", "W1", "W2", "V"}
	s := &c12Sys{name: "fac", session: true, variants: 1,
		comps: []c12Comp{{"P", "P", "wcommit", 1}, {"Q", "P", "wcommit", 1}, {"A", "P", "commit", 1}, {"B", "P", "commit", 1}, {"T", "P", "commit", 1},
			{"Sigma", "int", "aux", 1}, {"Z1", "int", "resp", 1}, {"Z2", "int", "resp", 1}, {"W1", "int", "resp", 1}, {"W2", "int", "resp", 1}, {"V", "int", "resp", 1}},
		stmt: []c12St{{"N0", "int", true, false}, {"NCap", "tag", true, false}, {"s", "P", true, false}, {"t", "P", true, false}}}
	s.gen = func(env *c12Env, variant int, sess []byte, rng *rand.Rand, lib io.Reader, ia, ib int) (*c12Tr, error) {
		sk := env.keys[ia].PaillierSK
		ped, err := c12PedOf(&env.keys[ib])
		if err != nil {
			return nil, err
		}
		pf, err := facproof.NewProof(sess, c12Secp.ec, sk.N, ped.NT, ped.H1, ped.H2, sk.P, sk.Q, lib)
		if err != nil {
			return nil, err
		}
		vals := []*big.Int{pf.P, pf.Q, pf.A, pf.B, pf.T, pf.Sigma, pf.Z1, pf.Z2, pf.W1, pf.W2, pf.V}
		t := &c12Tr{sys: s, cur: c12Secp, sess: sess, pf: map[string][]c12V{},
			st:   map[string]c12V{"N0": c12I(sk.N), "NCap": c12I(ped.NT), "s": c12I(ped.H1), "t": c12I(ped.H2)},
			priv: map[string]*big.Int{"lam": ped.Lam, "ordP": ped.Ord}}
		for i, n := range names {
			t.pf[n] = []c12V{c12I(vals[i])}
		}
		return t, nil
	}
	s.verify = func(t *c12Tr) bool {
		pf := &facproof.ProofFac{P: t.i("P"), Q: t.i("Q"), A: t.i("A"), B: t.i("B"), T: t.i("T"), Sigma: t.i("Sigma"),
			Z1: t.i("Z1"), Z2: t.i("Z2"), W1: t.i("W1"), W2: t.i("W2"), V: t.i("V")}
		return pf.Verify(t.sess, t.cur.ec, t.s("N0"), t.s("NCap"), t.s("s"), t.s("t"))
	}
	s.sim = func(t *c12Tr, e *c12Chal) map[string][]c12V {
		M, sv, tv, me := t.s("NCap"), t.s("s"), t.s("t"), c12Neg(e.E)
		one := func(v *big.Int) []c12V {
			if v == nil {
				v = big.NewInt(0)
			}
			return []c12V{c12I(v)}
		}
		R := c12Prod(M, c12Exp(sv, t.s("N0"), M), c12Exp(tv, t.i("Sigma"), M))
		var Rme *big.Int
		if R != nil {
			Rme = c12Exp(R, me, M)
		}
		return map[string][]c12V{
			"A": one(c12Prod(M, c12Exp(sv, t.i("Z1"), M), c12Exp(tv, t.i("W1"), M), c12Exp(t.i("P"), me, M))), // s^z1 t^w1 = A P^e
			"B": one(c12Prod(M, c12Exp(sv, t.i("Z2"), M), c12Exp(tv, t.i("W2"), M), c12Exp(t.i("Q"), me, M))), // s^z2 t^w2 = B Q^e
			"T": one(c12Prod(M, c12Exp(t.i("Q"), t.i("Z1"), M), c12Exp(tv, t.i("V"), M), Rme)),                // Q^z1 t^v = T (s^N0 t^sigma)^e
		}
	}
	s.tagged = true
	s.hashIn = func(t *c12Tr) []c12HashItem {
		out := []c12HashItem{{"N0", []*big.Int{t.s("N0")}}, {"NCap", []*big.Int{t.s("NCap")}}, {"s", []*big.Int{t.s("s")}}, {"t", []*big.Int{t.s("t")}}}
		for _, n := range []string{"P", "Q", "A", "B", "T", "Sigma"} {
			out = append(out, c12HashItem{n, []*big.Int{t.i(n)}})
		}
		return out
	}
	s.guards = func(t *c12Tr) bool {
		if t.s("N0").Sign() != 1 || t.s("NCap").Sign() != 1 {
			return false
		}
		bound := new(big.Int).Mul(c12Pow(t.q(), 3), new(big.Int).Sqrt(t.s("N0")))
		return c12InInterval(t.i("Z1"), bound) && c12InInterval(t.i("Z2"), bound)
	}
	s.modOf = func(t *c12Tr, kind string) *big.Int { return t.s("NCap") }
	s.order = func(t *c12Tr, comp string) *big.Int { return t.priv["ordP"] }
	s.base = c12BaseCommon
	return s
}

func c12Alice() *c12Sys {
	s := &c12Sys{name: "alice", session: false, variants: 1,
		comps: []c12Comp{{"Z", "P", "wcommit", 1}, {"U", "C", "commit", 1}, {"W", "P", "commit", 1}, {"S", "RN", "resp", 1}, {"S1", "int", "resp", 1}, {"S2", "int", "resp", 1}},
		stmt:  []c12St{{"N", "tag", true, false}, {"c", "C", true, false}, {"NT", "tag", false, true}, {"h1", "P", false, true}, {"h2", "P", false, true}}}
	s.gen = func(env *c12Env, variant int, sess []byte, rng *rand.Rand, lib io.Reader, ia, ib int) (*c12Tr, error) {
		sk := env.keys[ia].PaillierSK
		ped, err := c12PedOf(&env.keys[ib])
		if err != nil {
			return nil, err
		}
		a := c12RandScalar(rng, c12Secp.g.Order())
		cA, pf, err := mta.AliceInit(c12Secp.ec, &sk.PublicKey, a, ped.NT, ped.H1, ped.H2, lib)
		if err != nil {
			return nil, err
		}
		return &c12Tr{sys: s, cur: c12Secp,
			st:   map[string]c12V{"N": c12I(sk.N), "c": c12I(cA), "NT": c12I(ped.NT), "h1": c12I(ped.H1), "h2": c12I(ped.H2)},
			pf:   map[string][]c12V{"Z": {c12I(pf.Z)}, "U": {c12I(pf.U)}, "W": {c12I(pf.W)}, "S": {c12I(pf.S)}, "S1": {c12I(pf.S1)}, "S2": {c12I(pf.S2)}},
			priv: map[string]*big.Int{"lam": ped.Lam, "ordP": ped.Ord, "ordC": new(big.Int).Mul(sk.N, sk.PhiN)}}, nil
	}
	s.verify = func(t *c12Tr) bool {
		pf := &mta.RangeProofAlice{Z: t.i("Z"), U: t.i("U"), W: t.i("W"), S: t.i("S"), S1: t.i("S1"), S2: t.i("S2")}
		return pf.Verify(t.cur.ec, &paillier.PublicKey{N: t.s("N")}, t.s("NT"), t.s("h1"), t.s("h2"), t.s("c"))
	}
	s.sim = func(t *c12Tr, e *c12Chal) map[string][]c12V {
		N, NT, me := t.s("N"), t.s("NT"), c12Neg(e.E)
		N2 := new(big.Int).Mul(N, N)
		one := func(v *big.Int) []c12V {
			if v == nil {
				v = big.NewInt(0)
			}
			return []c12V{c12I(v)}
		}
		return map[string][]c12V{
			"U": one(c12Prod(N2, c12Exp(new(big.Int).Add(N, c12One), t.i("S1"), N2), c12Exp(t.i("S"), N, N2), c12Exp(t.s("c"), me, N2))), // u = Gamma^s1 s^N c^-e
			"W": one(c12Prod(NT, c12Exp(t.s("h1"), t.i("S1"), NT), c12Exp(t.s("h2"), t.i("S2"), NT), c12Exp(t.i("Z"), me, NT))),          // w = h1^s1 h2^s2 z^-e
		}
	}
	s.tagged = false
	s.hashIn = func(t *c12Tr) []c12HashItem {
		N := t.s("N")
		return []c12HashItem{{"N", []*big.Int{N}}, {"Gamma", []*big.Int{new(big.Int).Add(N, c12One)}}, {"c", []*big.Int{t.s("c")}},
			{"Z", []*big.Int{t.i("Z")}}, {"U", []*big.Int{t.i("U")}}, {"W", []*big.Int{t.i("W")}}}
	}
	s.guards = func(t *c12Tr) bool {
		N, NT, q := t.s("N"), t.s("NT"), t.q()
		N2 := new(big.Int).Mul(N, N)
		return c12InInterval(t.s("c"), N2) && c12Unit(t.s("c"), N2) && c12InInterval(t.i("Z"), NT) && c12InInterval(t.i("U"), N2) && c12InInterval(t.i("W"), NT) &&
			c12InInterval(t.i("S"), N) && c12Unit(t.i("Z"), NT) && c12Unit(t.i("U"), N2) && c12Unit(t.i("W"), NT) &&
			t.i("S1").Cmp(q) >= 0 && t.i("S2").Cmp(q) >= 0 && t.i("S").Cmp(c12One) != 0 && t.i("Z").Cmp(c12One) != 0 &&
			t.i("S1").Cmp(t.i("S2")) != 0 && t.i("S1").Cmp(c12Pow(q, 3)) <= 0
	}
	s.modOf = c12MtaMod
	s.order = func(t *c12Tr, comp string) *big.Int {
		if comp == "S1" { // acts on Gamma (order N) and on h1
			return new(big.Int).Mul(t.s("N"), t.priv["ordP"])
		}
		return t.priv["ordP"]
	}
	s.base = c12BaseCommon
	return s
}

func c12MtaMod(t *c12Tr, kind string) *big.Int {
	switch kind {
	case "P":
		return t.s("NT")
	case "C":
		return new(big.Int).Mul(t.s("N"), t.s("N"))
	}
	return t.s("N")
}

func c12Bob(wc bool) *c12Sys {
	s := &c12Sys{name: "bob", session: true, variants: 1,
		comps: []c12Comp{{"Z", "P", "wcommit", 1}, {"ZPrm", "P", "commit", 1}, {"T", "P", "wcommit", 1}, {"V", "C", "commit", 1}, {"W", "P", "commit", 1},
			{"S", "RN", "resp", 1}, {"S1", "int", "resp", 1}, {"S2", "int", "resp", 1}, {"T1", "int", "resp", 1}, {"T2", "int", "resp", 1}},
		stmt: []c12St{{"N", "tag", true, false}, {"c1", "C", true, false}, {"c2", "C", true, false}, {"NT", "tag", false, true}, {"h1", "P", false, true}, {"h2", "P", false, true}}}
	if wc {
		s.name = "bobwc"
		s.comps = append(s.comps, c12Comp{"U", "E", "commit", 1})
		s.stmt = append(s.stmt, c12St{"X", "E", true, false})
	}
	names := []string{"Z", "ZPrm", "T", "V", "W", "S", "S1", "S2", "T1", "T2"}
	s.gen = func(env *c12Env, variant int, sess []byte, rng *rand.Rand, lib io.Reader, ia, ib int) (*c12Tr, error) {
		skA := env.keys[ia].PaillierSK
		pedA, err := c12PedOf(&env.keys[ia])
		if err != nil {
			return nil, err
		}
		pedB, err := c12PedOf(&env.keys[ib])
		if err != nil {
			return nil, err
		}
		cur := c12Secp
		a, b := c12RandScalar(rng, cur.g.Order()), c12RandScalar(rng, cur.g.Order())
		cA, pfA, err := mta.AliceInit(cur.ec, &skA.PublicKey, a, pedB.NT, pedB.H1, pedB.H2, lib)
		if err != nil {
			return nil, err
		}
		t := &c12Tr{sys: s, cur: cur, sess: sess, pf: map[string][]c12V{},
			st:   map[string]c12V{"N": c12I(skA.N), "c1": c12I(cA), "NT": c12I(pedA.NT), "h1": c12I(pedA.H1), "h2": c12I(pedA.H2)},
			priv: map[string]*big.Int{"lam": pedA.Lam, "ordP": pedA.Ord, "ordC": new(big.Int).Mul(skA.N, skA.PhiN)}}
		var core *mta.ProofBob
		if wc {
			B := cur.base(b)
			Bp, _ := cur.ecp(c12P(B))
			_, cB, _, pf, err := mta.BobMidWC(sess, cur.ec, &skA.PublicKey, pfA, b, cA, pedA.NT, pedA.H1, pedA.H2, pedB.NT, pedB.H1, pedB.H2, Bp, lib)
			if err != nil {
				return nil, err
			}
			core = pf.ProofBob
			t.st["c2"], t.st["X"] = c12I(cB), c12P(B)
			t.pf["U"] = []c12V{c12P(obs.Pt{X: pf.U.X(), Y: pf.U.Y()})}
		} else {
			_, cB, _, pf, err := mta.BobMid(sess, cur.ec, &skA.PublicKey, pfA, b, cA, pedA.NT, pedA.H1, pedA.H2, pedB.NT, pedB.H1, pedB.H2, lib)
			if err != nil {
				return nil, err
			}
			core = pf
			t.st["c2"] = c12I(cB)
		}
		vals := []*big.Int{core.Z, core.ZPrm, core.T, core.V, core.W, core.S, core.S1, core.S2, core.T1, core.T2}
		for i, n := range names {
			t.pf[n] = []c12V{c12I(vals[i])}
		}
		return t, nil
	}
	mk := func(t *c12Tr) *mta.ProofBob {
		return &mta.ProofBob{Z: t.i("Z"), ZPrm: t.i("ZPrm"), T: t.i("T"), V: t.i("V"), W: t.i("W"), S: t.i("S"), S1: t.i("S1"), S2: t.i("S2"), T1: t.i("T1"), T2: t.i("T2")}
	}
	s.verify = func(t *c12Tr) bool {
		pk := &paillier.PublicKey{N: t.s("N")}
		if !wc {
			return mk(t).Verify(t.sess, t.cur.ec, pk, t.s("NT"), t.s("h1"), t.s("h2"), t.s("c1"), t.s("c2"))
		}
		U, ok1 := t.cur.ecp(t.pf["U"][0])
		X, ok2 := t.cur.ecp(t.st["X"])
		if !ok1 || !ok2 {
			panic("c12: unrepresentable point reached verify")
		}
		return (&mta.ProofBobWC{ProofBob: mk(t), U: U}).Verify(t.sess, t.cur.ec, pk, t.s("NT"), t.s("h1"), t.s("h2"), t.s("c1"), t.s("c2"), X)
	}
	s.sim = func(t *c12Tr, e *c12Chal) map[string][]c12V {
		N, NT, me := t.s("N"), t.s("NT"), c12Neg(e.E)
		N2 := new(big.Int).Mul(N, N)
		one := func(v *big.Int) []c12V {
			if v == nil {
				v = big.NewInt(0)
			}
			return []c12V{c12I(v)}
		}
		out := map[string][]c12V{
			"ZPrm": one(c12Prod(NT, c12Exp(t.s("h1"), t.i("S1"), NT), c12Exp(t.s("h2"), t.i("S2"), NT), c12Exp(t.i("Z"), me, NT))), // h1^s1 h2^s2 = z^e z'
			"W":    one(c12Prod(NT, c12Exp(t.s("h1"), t.i("T1"), NT), c12Exp(t.s("h2"), t.i("T2"), NT), c12Exp(t.i("T"), me, NT))), // h1^t1 h2^t2 = t^e w
			"V": one(c12Prod(N2, c12Exp(t.s("c1"), t.i("S1"), N2), c12Exp(t.i("S"), N, N2), c12Exp(new(big.Int).Add(N, c12One), t.i("T1"), N2),
				c12Exp(t.s("c2"), me, N2))), // c1^s1 s^N Gamma^t1 = c2^e v
		}
		if wc {
			out["U"] = []c12V{c12P(t.cur.sub(t.cur.base(t.i("S1")), t.cur.mul(e.E, *t.st["X"].P)))} // s1*G = e*X + U
		}
		return out
	}
	s.tagged = true
	s.hashIn = func(t *c12Tr) []c12HashItem {
		N := t.s("N")
		out := []c12HashItem{{"N", []*big.Int{N}}, {"Gamma", []*big.Int{new(big.Int).Add(N, c12One)}}}
		if wc {
			out = append(out, c12HashItem{"X", c12XY(t.st["X"])})
		}
		out = append(out, c12HashItem{"c1", []*big.Int{t.s("c1")}}, c12HashItem{"c2", []*big.Int{t.s("c2")}})
		if wc {
			out = append(out, c12HashItem{"U", c12XY(t.pf["U"][0])})
		}
		for _, n := range []string{"Z", "ZPrm", "T", "V", "W"} {
			out = append(out, c12HashItem{n, []*big.Int{t.i(n)}})
		}
		return out
	}
	s.guards = func(t *c12Tr) bool {
		N, NT, q := t.s("N"), t.s("NT"), t.q()
		N2 := new(big.Int).Mul(N, N)
		ok := c12InInterval(t.i("Z"), NT) && c12InInterval(t.i("ZPrm"), NT) && c12InInterval(t.i("T"), NT) && c12InInterval(t.i("V"), N2) &&
			c12InInterval(t.i("W"), NT) && c12InInterval(t.i("S"), N) && c12Unit(t.i("Z"), NT) && c12Unit(t.i("ZPrm"), NT) && c12Unit(t.i("T"), NT) &&
			c12Unit(t.i("V"), N2) && c12Unit(t.i("W"), NT) && t.i("S").Sign() != 0 && c12Unit(t.i("S"), N) &&
			t.i("S1").Cmp(q) >= 0 && t.i("S2").Cmp(q) >= 0 && t.i("T1").Cmp(q) >= 0 && t.i("T2").Cmp(q) >= 0 &&
			t.i("S1").Cmp(c12Pow(q, 3)) <= 0 && t.i("T1").Cmp(c12Pow(q, 7)) <= 0
		if wc {
			ok = ok && !t.st["X"].P.Inf && !t.pf["U"][0].P.Inf && new(big.Int).Mod(t.i("S1"), q).Sign() != 0
		}
		return ok
	}
	s.modOf = c12MtaMod
	s.order = func(t *c12Tr, comp string) *big.Int {
		switch comp {
		case "S1": // acts on c1 (Z*_{N^2}), h1 and, with the check, on G
			o := new(big.Int).Mul(t.priv["ordC"], t.priv["ordP"])
			if wc {
				o.Mul(o, t.q())
			}
			return o
		case "T1": // acts on Gamma (order N) and h1
			return new(big.Int).Mul(t.s("N"), t.priv["ordP"])
		}
		return t.priv["ordP"]
	}
	s.base = c12BaseCommon
	return s
}

// c12Own: is the transcript accepted by the harness' own transcription of the verifier under the GIVEN challenge?
func c12Own(t *c12Tr, e *c12Chal) bool {
	if t.sys.name == "mod" {
		return c12ModOwn(t)
	}
	if t.sys.sim == nil || t.sys.guards == nil {
		return false
	}
	ok, pan := c12Recover(func() bool {
		if !t.sys.guards(t) {
			return false
		}
		want := t.sys.sim(t, e)
		for n, vs := range want {
			for i := range vs {
				have := t.pf[n][i]
				if have.P == nil {
					if t.sys.modOf != nil {
						if m := t.sys.modOf(t, t.sys.comp(n).K); m != nil {
							have = c12I(new(big.Int).Mod(have.I, m))
						}
					}
				}
				if !have.eq(vs[i]) {
					return false
				}
			}
		}
		return true
	})
	return ok && pan == ""
}

// ------------------------------------------------------------------ the challenge of an honest proof

type c12HashItem struct {
	Name string
	Vals []*big.Int
}

// c12FindChallenge looks for the challenge under which the untouched transcript satisfies the harness' own equations.
// The library does not export the challenge; the harness knows which values are meant to be hashed (hashIn, in the order
// the library uses today) and tries that list first, then the list with the session tag and / or up to two of the values
// left out - so that a library whose hash has lost an input still gets its shifted transcripts built with the challenge
// IT uses (exactly the case the shift rows exist for).  The result is only used to build transformed transcripts.
func c12FindChallenge(t *c12Tr) (e *c12Chal, layout string) {
	sys := t.sys
	if sys.chal != nil {
		if e = sys.chal(t); e != nil && c12Own(t, e) {
			return e, "read off the equations"
		}
		return nil, ""
	}
	if sys.hashIn == nil {
		return nil, ""
	}
	items := sys.hashIn(t)
	n := len(items)
	try := func(tag bool, drop1, drop2 int) *c12Chal {
		var in []*big.Int
		for i, it := range items {
			if i == drop1 || i == drop2 {
				continue
			}
			in = append(in, it.Vals...)
		}
		if len(in) == 0 {
			return nil
		}
		c := &c12Chal{E: c12HashQ(t.q(), t.sess, tag, in...)}
		if c.E != nil && c12Own(t, c) {
			return c
		}
		return nil
	}
	tags := []bool{sys.tagged}
	if sys.tagged {
		tags = append(tags, false)
	}
	name := func(tag bool, d1, d2 int) string {
		s := "as documented"
		var dropped []string
		if sys.tagged && !tag {
			dropped = append(dropped, "session")
		}
		for _, d := range []int{d1, d2} {
			if d >= 0 {
				dropped = append(dropped, items[d].Name)
			}
		}
		if len(dropped) > 0 {
			s = fmt.Sprintf("without %v", dropped)
		}
		return s
	}
	for _, tag := range tags {
		if c := try(tag, -1, -1); c != nil {
			return c, name(tag, -1, -1)
		}
	}
	for _, tag := range tags {
		for i := 0; i < n; i++ {
			if c := try(tag, i, -1); c != nil {
				return c, name(tag, i, -1)
			}
		}
	}
	for _, tag := range tags {
		for i := 0; i < n; i++ {
			for j := i + 1; j < n; j++ {
				if c := try(tag, i, j); c != nil {
					return c, name(tag, i, j)
				}
			}
		}
	}
	return nil, ""
}
