package props

// C12 - concretisation of the catalogue rows of spec/ProofBinding.tla on real-size transcripts.

import (
	"fmt"
	"math/big"
	"math/rand"
	"sort"

	"verif/harness/obs"
)

// ------------------------------------------------------------------ catalogue rows (JSON printed by TLC)

type c12Row struct {
	Kind      string            `json:"kind"` // replace | statement | session | nosession | shift | modshift | crossuse
	Sys       string            `json:"sys"`
	Comp      string            `json:"comp,omitempty"`
	K         string            `json:"k,omitempty"`
	Role      string            `json:"role,omitempty"`
	Rep       bool              `json:"rep,omitempty"`
	Mult      int               `json:"mult,omitempty"`
	Hashed    bool              `json:"hashed,omitempty"`
	Aux       bool              `json:"aux,omitempty"`
	Swap      string            `json:"swap,omitempty"`
	Expect    string            `json:"expect,omitempty"`
	PlusOrder string            `json:"plusorder,omitempty"` // what the toy verifier does with v + order
	Loc       string            `json:"loc,omitempty"`
	Op        string            `json:"op,omitempty"`
	Base      string            `json:"base,omitempty"`
	Kappa     map[string]string `json:"-"`
	KappaRaw  any               `json:"kappa,omitempty"` // {} is printed as [] by the Json module
	Absorbers []string          `json:"absorbers,omitempty"`
	Variants  []string          `json:"variants,omitempty"`
	As        string            `json:"as,omitempty"`
}

func (r *c12Row) fix() {
	r.Kappa = map[string]string{}
	if m, ok := r.KappaRaw.(map[string]any); ok {
		for k, v := range m {
			r.Kappa[k] = fmt.Sprint(v)
		}
	}
	sort.Strings(r.Absorbers)
}

func (r *c12Row) kappaSig() string {
	var ks []string
	for k, v := range r.Kappa {
		ks = append(ks, k+":"+v)
	}
	sort.Strings(ks)
	return fmt.Sprint(ks)
}

// ------------------------------------------------------------------ perturbation of one component

var c12PertsOf = map[string][]string{
	"E":    {"plus1", "minus1", "random", "zero", "offcurve"},
	"P":    {"plus1", "minus1", "random", "zero", "swap", "plusorder"},
	"C":    {"plus1", "minus1", "random", "zero", "swap", "plusorder"},
	"RN":   {"plus1", "minus1", "random", "zero", "swap", "plusorder"},
	"MG":   {"plus1", "minus1", "random", "zero", "swap", "plusorder"},
	"int":  {"plus1", "minus1", "random", "zero", "swap", "plusorder"},
	"bits": {"plus1", "minus1", "random", "zero", "swap"},
}

// c12Perturb returns the transcript with component comp[idx] replaced, "" or the reason why the row cannot be built
// (no swap partner, unrepresentable point ...), and whether the replacement is equivalent in the component's group.
func c12Perturb(t *c12Tr, row *c12Row, idx int, pert string, rng *rand.Rand) (u *c12Tr, skip string, equivalent bool) {
	u = t.clone()
	old := t.pf[row.Comp][idx]
	var nv c12V
	switch row.K {
	case "E":
		g := t.cur.g
		switch pert {
		case "plus1":
			nv = c12P(g.Add(*old.P, g.Gen()))
		case "minus1":
			nv = c12P(g.Add(*old.P, g.Neg(g.Gen())))
		case "random":
			nv = c12P(t.cur.base(c12RandScalar(rng, g.Order())))
		case "zero":
			nv = c12P(g.Identity())
		case "offcurve":
			nv = c12P(obs.Pt{X: new(big.Int).Add(old.P.X, c12One), Y: old.P.Y})
			if g.OnCurve(*nv.P) {
				return nil, "x+1 is on the curve", false
			}
		default:
			return nil, "not applicable to a point", false
		}
		if nv.P.Inf {
			return nil, "the neutral element has no representation on " + t.cur.name, false
		}
	default:
		v := old.I
		switch pert {
		case "plus1":
			nv = c12I(new(big.Int).Add(v, c12One))
		case "minus1":
			nv = c12I(new(big.Int).Sub(v, c12One))
		case "zero":
			nv = c12I(big.NewInt(0))
		case "random":
			switch row.K {
			case "int": // same size, so that range guards do not decide
				x := new(big.Int).Rand(rng, new(big.Int).Lsh(c12One, uint(v.BitLen()-1)))
				nv = c12I(x.SetBit(x, v.BitLen()-1, 1))
			case "bits":
				x := new(big.Int).Rand(rng, new(big.Int).Lsh(c12One, uint(v.BitLen()-1)))
				nv = c12I(x.SetBit(x, v.BitLen()-1, 1))
			default:
				nv = c12I(c12RandUnit(rng, t.sys.modOf(t, row.K)))
			}
		case "swap":
			if row.Rep {
				j := idx + 1
				if j >= len(t.pf[row.Comp]) {
					j = idx - 1
				}
				nv = t.pf[row.Comp][j]
				u.pf[row.Comp][j] = old
			} else {
				if row.Swap == "" {
					return nil, "no neighbour of the same kind", false
				}
				nv = t.pf[row.Swap][0]
				u.pf[row.Swap][0] = old
			}
		case "plusorder":
			equivalent = true
			if row.K == "int" {
				if t.sys.order == nil {
					return nil, "no group order", false
				}
				nv = c12I(new(big.Int).Add(v, t.sys.order(t, row.Comp)))
			} else {
				nv = c12I(new(big.Int).Add(v, t.sys.modOf(t, row.K)))
			}
		default:
			return nil, "unknown perturbation", false
		}
	}
	if nv.eq(old) {
		return nil, "the replacement equals the original", false
	}
	u.pf[row.Comp][idx] = nv
	return u, "", equivalent
}

// ------------------------------------------------------------------ statement components

var c12StPertsOf = map[string][]string{
	"E":   {"plusG", "random"},
	"P":   {"plus1", "other", "swap"},
	"C":   {"mulGamma", "random", "other"},
	"tag": {"other", "plus2"},
	"int": {"plus1", "other"},
}

// c12StPerturb: the same proof presented for a statement that differs in one component.  other: a transcript of the same
// system made with other parameter sets (supplies "other" values of the same kind).
func c12StPerturb(t *c12Tr, row *c12Row, pert string, other *c12Tr, rng *rand.Rand) (*c12Tr, string) {
	u := t.clone()
	old := t.st[row.Comp]
	var nv c12V
	switch row.K {
	case "E":
		g := t.cur.g
		if pert == "plusG" {
			nv = c12P(g.Add(*old.P, g.Gen()))
		} else {
			nv = c12P(t.cur.base(c12RandScalar(rng, g.Order())))
		}
		if nv.P.Inf {
			return nil, "neutral element"
		}
	case "P":
		switch pert {
		case "plus1":
			nv = c12I(new(big.Int).Add(old.I, c12One))
		case "other":
			if other == nil {
				return nil, "no second instance"
			}
			nv = other.st[row.Comp]
		case "swap":
			partner := map[string]string{"h1": "h2", "h2": "h1", "s": "t", "t": "s"}[row.Comp]
			if partner == "" {
				return nil, "no partner"
			}
			nv = t.st[partner]
			u.st[partner] = old
		}
	case "C":
		N := t.s("N")
		N2 := new(big.Int).Mul(N, N)
		switch pert {
		case "mulGamma":
			nv = c12I(c12Mul(old.I, new(big.Int).Add(N, c12One), N2))
		case "random":
			nv = c12I(c12RandUnit(rng, N2))
		case "other":
			if other == nil {
				return nil, "no second instance"
			}
			nv = other.st[row.Comp]
		}
	case "tag", "int":
		switch pert {
		case "other":
			if other == nil {
				return nil, "no second instance"
			}
			nv = other.st[row.Comp]
		case "plus2":
			nv = c12I(new(big.Int).Add(old.I, big.NewInt(2)))
		case "plus1":
			nv = c12I(new(big.Int).Add(old.I, c12One))
		}
	}
	if nv.I == nil && nv.P == nil {
		return nil, "not applicable"
	}
	if nv.eq(old) {
		return nil, "the other instance has the same value"
	}
	u.st[row.Comp] = nv
	return u, ""
}

// ------------------------------------------------------------------ sessions

// c12Context builds the session string exactly as the protocol rounds do: ssid || bytes(index) (index 0 appends nothing).
func c12Context(ssid []byte, index int) []byte {
	return append(append([]byte{}, ssid...), big.NewInt(int64(index)).Bytes()...)
}

func c12SessionVariant(ssid []byte, index int, variant string, rng *rand.Rand) ([]byte, string) {
	cur := c12Context(ssid, index)
	switch variant {
	case "other-index":
		j := index + 1 + rng.Intn(5)
		return c12Context(ssid, j), fmt.Sprintf("context of party %d instead of %d", j, index)
	case "index-0-vs-1":
		j := 0
		if index == 0 {
			j = 1
		}
		return c12Context(ssid, j), fmt.Sprintf("context of party %d instead of %d", j, index)
	case "other-ssid":
		o := make([]byte, len(ssid))
		rng.Read(o)
		return c12Context(o, index), "another ssid, same party index"
	case "empty":
		return []byte{}, "empty session"
	case "nil":
		return nil, "nil session"
	case "truncated":
		return cur[:len(cur)-1], "last byte removed"
	case "extended":
		return append(append([]byte{}, cur...), 0), "a zero byte appended"
	}
	return nil, ""
}

// ------------------------------------------------------------------ shifts

// c12Shift applies a derived shift row: the moved component, the response adjustments kappa*d, and every first-move
// commitment recomputed from its equation with the challenge e held fixed (commit' = commit * sim(new)/sim(old), which
// needs the true e only where the statement side of an equation changes).  Returns the names of the commitments that changed.
func c12Shift(t *c12Tr, row *c12Row, idx int, e *c12Chal, eValid bool, rng *rand.Rand) (u *c12Tr, absorbed []string, skip string) {
	sys := t.sys
	needE := row.Loc == "st" || len(row.Kappa) > 0 || (sys.comp(row.Comp) != nil && sys.comp(row.Comp).Role != "resp")
	if needE && !eValid {
		return nil, nil, "the challenge could not be recomputed (hash layout unknown to the harness)"
	}
	d := big.NewInt(int64(1 + rng.Intn(1<<20)))
	u = t.clone()
	// 1. the move
	var old c12V
	if row.Loc == "st" {
		old = t.st[row.Comp]
	} else {
		old = t.pf[row.Comp][idx]
	}
	var nv c12V
	if row.Op == "add" {
		nv = c12I(new(big.Int).Add(old.I, d))
	} else {
		b := sys.base(t, row.Base, rng)
		if old.P != nil {
			nv = c12P(t.cur.g.Add(*old.P, t.cur.mul(d, *b.P)))
			if nv.P.Inf {
				return nil, nil, "neutral element"
			}
		} else {
			m := sys.modOf(t, row.K)
			nv = c12I(c12Mul(old.I, new(big.Int).Exp(b.I, d, m), m))
		}
	}
	if row.Loc == "st" {
		u.st[row.Comp] = nv
	} else {
		u.pf[row.Comp][idx] = nv
	}
	// 2. the responses
	for rn, sym := range row.Kappa {
		for j := range u.pf[rn] {
			var coef *big.Int
			neg := false
			if sym[0] == '-' {
				neg, sym = true, sym[1:]
			}
			ej := e.E
			if e.Bits != nil {
				ej = big.NewInt(int64(e.Bits[j]))
			}
			switch sym {
			case "e":
				coef = new(big.Int).Set(ej)
			case "le":
				coef = new(big.Int).Mul(t.priv["lam"], ej)
			default: // the value of another response
				coef = new(big.Int).Set(t.pf[sym][0].I)
			}
			if neg {
				coef.Neg(coef)
			}
			v := new(big.Int).Add(t.pf[rn][j].I, coef.Mul(coef, d))
			// an equivalent non-negative representative (above the verifier's lower bound q for the Pedersen exponents)
			if v.Sign() < 0 || sym == "le" {
				ord := sys.order(t, rn)
				if ord == nil {
					return nil, nil, "a response became negative"
				}
				v.Mod(v, ord)
				if ord.Cmp(t.q()) != 0 {
					v.Add(v, ord)
				}
			}
			u.pf[rn][j] = c12I(v)
		}
	}
	// 3. the commitments
	es := e
	if !eValid {
		es = &c12Chal{E: big.NewInt(1)}
		if e != nil && e.Bits != nil {
			es = e
		}
	}
	before, after := sys.sim(t, es), sys.sim(u, es)
	for n := range before {
		for i := range before[n] {
			if before[n][i].eq(after[n][i]) {
				continue
			}
			have := t.pf[n][i]
			var nc c12V
			if have.P != nil {
				nc = c12P(t.cur.g.Add(t.cur.sub(*have.P, *before[n][i].P), *after[n][i].P))
				if nc.P.Inf {
					return nil, nil, "neutral element"
				}
			} else {
				m := sys.modOf(t, sys.comp(n).K)
				inv := new(big.Int).ModInverse(before[n][i].I, m)
				if inv == nil {
					return nil, nil, "non-unit"
				}
				nc = c12I(c12Mul(c12Mul(have.I, inv, m), after[n][i].I, m))
			}
			u.pf[n][i] = nc
			seen := false
			for _, a := range absorbed {
				seen = seen || a == n
			}
			if !seen {
				absorbed = append(absorbed, n)
			}
		}
	}
	sort.Strings(absorbed)
	return u, absorbed, ""
}

// c12ModShift: W * g^4 together with x_i * g for every i with b_i = 1 (valid for the unchanged y_i = z_i^N).
func c12ModShift(t *c12Tr, rng *rand.Rand) *c12Tr {
	u := t.clone()
	N := t.s("N")
	g := c12RandUnit(rng, N)
	u.pf["W"][0] = c12I(c12Mul(t.i("W"), new(big.Int).Exp(g, big.NewInt(4), N), N))
	for i := range u.pf["X"] {
		if t.i("B").Bit(i) == 1 {
			u.pf["X"][i] = c12I(c12Mul(t.pf["X"][i].I, g, N))
		}
	}
	return u
}

func c12SameSet(a, b []string) bool {
	if len(a) != len(b) {
		return false
	}
	for i := range a {
		if a[i] != b[i] {
			return false
		}
	}
	return true
}
