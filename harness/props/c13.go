package props

// C13 - MtA turns a product of secrets into additive shares of that product.
//
// Design level : spec/MtA.tla (ideal homomorphic encryption, ideal proofs that may also be CRAFTED, receivers that
//                live in a process with a history; real integer arithmetic over a toy group order) is model-checked
//                exhaustively by TLC.  spec/MtACraft.tla derives the catalogue of crafted transcripts from the
//                verification equations of the three embedded proofs (checked by MtACraftMC.tla).
// Binding (A)  : real exchanges (crypto/mta at real size over the vendored parameter sets) - unaltered, with an
//                altered ciphertext whose proof travels unchanged or is crafted after a catalogue row, with a wrong
//                point, each also after / around an accepted genuine exchange in the same process - are logged as
//                ndjson and validated against spec/MtA_Trace.tla.
// Verdict      : only ever from the real outputs - the congruence computed with math/big, the accept / reject
//                decisions returned by BobMid[WC] / AliceEnd[WC].
//
// Files: c13.go (scenario space, TLC runs, the check), c13_run.go (one real exchange), c13_craft.go (catalogue rows
// on real-size transcripts), c13_dec.go (independent Paillier arithmetic).

import (
	"encoding/json"
	"fmt"
	"math/rand"
	"os"
	"path/filepath"
	"runtime"
	"sort"
	"strings"
	"sync"
	"time"

	eckg "github.com/bnb-chain/tss-lib/v2/ecdsa/keygen"

	"verif/harness/core"
	"verif/harness/pump"
	"verif/harness/tlc"
)

// ------------------------------------------------------------------ scenario space

// c13Scenario is one real exchange (with its history); everything else (secrets, library randomness) derives from Seed.
type c13Scenario struct {
	Idx   int     `json:"idx"`
	WC    bool    `json:"wc"`   // BobMidWC / AliceEndWC
	IA    int     `json:"ia"`   // vendored parameter set of Alice (Paillier key, her NTilde,h1,h2)
	IB    int     `json:"ib"`   // vendored parameter set of Bob (his NTilde,h1,h2)
	ACls  string  `json:"acls"` // 0 | 1 | q-1 | rand
	BCls  string  `json:"bcls"`
	Site  string  `json:"site"`            // none | cA | cB | B
	Kind  string  `json:"kind"`            // the alteration (see c13Alter) / who holds which wrong point
	Hist  string  `json:"hist,omitempty"`  // "" : the altered item is all the receiver ever sees | after : it is presented after the genuine item was accepted | sandwich : altered, genuine, altered
	Craft *c13Row `json:"craft,omitempty"` // the catalogue row applied to the proof (nil: the proof travels unchanged)
	Seed  int64   `json:"seed"`
}

func (s c13Scenario) variant() string {
	if s.WC {
		return "wc"
	}
	return "plain"
}

func (s c13Scenario) caseKey() string {
	k := fmt.Sprintf("%s|A%d,B%d|a=%s,b=%s|%s:%s", s.variant(), s.IA, s.IB, s.ACls, s.BCls, s.Site, s.Kind)
	if s.Hist != "" {
		k += "|" + s.Hist
	}
	if s.Craft != nil {
		k += "|" + s.Craft.key()
	}
	return k
}

var c13Classes = []string{"0", "1", "q-1", "rand"}

// alterations of a ciphertext in transit -> the class the model knows them by (MtA_Trace!AlteredBy)
var c13CtKinds = []string{"plus1", "minus1", "mulg", "inv", "random", "plusN2", "negint", "rerand", "addq", "other", "zero", "N", "multP", "foreign"}
var c13ModelKind = map[string]string{
	"plus1": "shift", "minus1": "shift", "mulg": "shift", "inv": "shift", "random": "shift", "plusN2": "shift", "negint": "shift",
	"rerand": "rerand", "addq": "addq", "other": "other", "zero": "nonunit", "N": "nonunit", "multP": "nonunit", "foreign": "foreign",
	"mulca": "mulca",
}

// real alterations a catalogue row of a given class is concretised on
var c13KindsOfClass = map[string][]string{
	"gamma": {"mulg", "addq"},
	"rand":  {"rerand"},
	"c1pow": {"mulca"},
	"free":  {"random", "plus1", "other", "foreign", "inv", "minus1"},
}

var c13Hists = []string{"sandwich", "after", ""}

// wrong public points (check variant): who holds what
var c13PointKinds = []string{"alice-holds-plus1", "both-plus1", "both-neg", "both-rand"}
var c13LatePointKinds = []string{"alice-holds-plus1", "alice-holds-neg", "alice-holds-rand"}
var c13CraftPointKinds = []string{"both-plus1", "both-neg", "both-rand"}

func c13Pairs() [][2]int {
	var ps [][2]int
	for i := 0; i < 5; i++ {
		for j := 0; j < 5; j++ {
			if i != j {
				ps = append(ps, [2]int{i, j})
			}
		}
	}
	return ps
}

// c13Plan: the exchanges of a run.  rows = nil: the part that does not need the catalogue (first index 0);
// rows != nil: the crafted part (indices from `from`).
func c13Plan(ctx *core.Ctx, rows []c13Row, from int) (scs []c13Scenario, skippedB0 int) {
	pairs := c13Pairs()
	rng := rand.New(rand.NewSource(ctx.Seed*7919 + 13))
	rng.Shuffle(len(pairs), func(i, j int) { pairs[i], pairs[j] = pairs[j], pairs[i] })
	k := 0
	add := func(sc c13Scenario) {
		sc.Idx = from + len(scs)
		sc.Seed = ctx.Seed*1000003 + int64(sc.Idx)*7 + 1
		scs = append(scs, sc)
	}
	nextPair := func() [2]int { p := pairs[k%len(pairs)]; k++; return p }
	// class pair for the tamper scenarios: rotate; never b = 0 with the check variant, a # 0 where the catalogue row
	// or the alteration needs it (the challenge of Alice's proof cannot be recovered for a = 0; cB * cA is cB * r^N then)
	ci := int(ctx.Seed % 16)
	nextCls := func(wc, needA bool) (string, string) {
		for {
			a, b := c13Classes[ci%4], c13Classes[(ci/4+ci)%4]
			ci++
			if wc && b == "0" || needA && a == "0" {
				continue
			}
			return a, b
		}
	}
	pairSets := [][][2]int{nil} // quick: one rotating pair per case
	if ctx.Thorough() {
		pairSets = nil
		for _, p := range pairs {
			pairSets = append(pairSets, [][2]int{p})
		}
	}
	hi := int(ctx.Seed % 3)
	for pi, ps := range pairSets {
		pick := func() [2]int {
			if ps == nil {
				return nextPair()
			}
			return ps[0]
		}
		if rows == nil {
			for vi, wc := range []bool{false, true} {
				// unaltered exchanges: all of {0,1,q-1,random}^2
				for _, ac := range c13Classes {
					for _, bc := range c13Classes {
						if wc && bc == "0" {
							// b*G is the identity, which crypto.ECPoint cannot represent: no honest input exists
							// for the check variant (the wrong-point scenarios below run b = 0 with B = G)
							skippedB0++
							continue
						}
						p := pick()
						add(c13Scenario{WC: wc, IA: p[0], IB: p[1], ACls: ac, BCls: bc, Site: "none", Kind: "-"})
					}
				}
				if ctx.Thorough() {
					p := pick()
					add(c13Scenario{WC: wc, IA: p[0], IB: p[1], ACls: "rand", BCls: "rand", Site: "none", Kind: "-"})
				}
				// single alterations of cA / cB, the proof travels unchanged; the history rotates over the kinds
				// (differently in the two variants, for every pair of sets and every seed)
				for si, site := range []string{"cA", "cB"} {
					kinds := c13CtKinds
					if site == "cB" {
						kinds = append(append([]string{}, c13CtKinds...), "mulca")
					}
					for ki, kind := range kinds {
						p := pick()
						ac, bc := nextCls(wc, kind == "mulca")
						add(c13Scenario{WC: wc, IA: p[0], IB: p[1], ACls: ac, BCls: bc, Site: site, Kind: kind, Hist: c13Hists[(hi+ki+vi+si+pi)%3]})
					}
				}
			}
			// check variant: the point is not b*G
			for _, kind := range c13PointKinds {
				p := pick()
				ac, bc := nextCls(true, false)
				add(c13Scenario{WC: true, IA: p[0], IB: p[1], ACls: ac, BCls: bc, Site: "B", Kind: kind})
			}
			for _, kind := range []string{"both-plus1", "both-rand"} { // b = 0: every representable point is wrong
				p := pick()
				add(c13Scenario{WC: true, IA: p[0], IB: p[1], ACls: c13Classes[(k+1)%4], BCls: "0", Site: "B", Kind: kind})
			}
			// ... and is presented after Alice has accepted the same message for b*G
			for _, kind := range c13LatePointKinds {
				p := pick()
				ac, bc := nextCls(true, false)
				add(c13Scenario{WC: true, IA: p[0], IB: p[1], ACls: ac, BCls: bc, Site: "B", Kind: kind, Hist: "after"})
			}
			continue
		}
		// the crafted transcripts: every catalogue row once per pair set, the real alteration, the variant (for Alice's
		// proof) and the history rotate
		for ri := range rows {
			row := rows[ri]
			p := pick()
			switch row.Site {
			case "cA", "cB":
				kinds := c13KindsOfClass[row.Alt]
				if len(kinds) == 0 {
					continue
				}
				if row.Site == "cB" && row.Alt == "free" {
					kinds = append(append([]string{}, kinds...), "mulg", "rerand", "mulca") // a structured alteration treated as an unrelated value
				}
				kind := kinds[(ri+pi+int(ctx.Seed))%len(kinds)]
				variants := []bool{row.Sys == "bobwc"}
				if row.Sys == "alice" { // Alice's proof is verified by BobMid and by BobMidWC
					variants = []bool{false, true}
				}
				for vi, wc := range variants {
					ac, bc := nextCls(wc, row.Site == "cA" || kind == "mulca")
					add(c13Scenario{WC: wc, IA: p[0], IB: p[1], ACls: ac, BCls: bc, Site: row.Site, Kind: kind, Hist: c13Hists[(hi+ri+pi+vi)%3], Craft: &row})
					kind = kinds[(ri+pi+int(ctx.Seed)+1)%len(kinds)]
					p = pick()
				}
			case "B":
				for hj, hist := range []string{"", "after"} {
					kind := c13CraftPointKinds[(ri+pi+hj+int(ctx.Seed))%len(c13CraftPointKinds)]
					ac, bc := nextCls(true, false)
					add(c13Scenario{WC: true, IA: p[0], IB: p[1], ACls: ac, BCls: bc, Site: "B", Kind: kind, Hist: hist, Craft: &row})
					p = pick()
				}
				if !ctx.Thorough() || pi%5 == 0 { // b = 0: Bob's multiplier is 0, every representable point is wrong
					add(c13Scenario{WC: true, IA: p[0], IB: p[1], ACls: c13Classes[(ri+pi+1)%4], BCls: "0", Site: "B", Kind: "both-plus1", Craft: &row})
				}
			}
		}
	}
	return scs, skippedB0
}

// ------------------------------------------------------------------ TLC: catalogue, design model, trace validation

const c13CraftInvs = "GenuineAccepted StatementAltered UncraftedRejected CraftSound CraftPinned RowPredicts OnlyNamedParts"

// c13Catalogue lets TLC derive and check the catalogue of crafted transcripts (MtACraft.tla / MtACraftMC.tla).
func c13Catalogue() ([]c13Row, tlc.Result, error) {
	r := tlc.Run(tlc.Options{Module: "MtACraftMC", Cfg: "SPECIFICATION Spec\nINVARIANTS " + c13CraftInvs + "\nCHECK_DEADLOCK FALSE\n",
		Workers: 2, Heap: "1g", Timeout: 15 * time.Minute})
	if r.Err != nil {
		return nil, r, r.Err
	}
	if !r.OK {
		return nil, r, fmt.Errorf("MtACraftMC violates %s:\n%s", r.Violated, r.ErrorTrace(2000))
	}
	rows, err := c13ParseRows(r.Output)
	if err != nil {
		return nil, r, err
	}
	// what the harness relies on: rows for every site / system, among them the two prover runs of a cheating Bob
	need := map[string]bool{"cA/alice": false, "cB/bob": false, "cB/bobwc": false, "B/bobwc": false}
	for _, x := range rows {
		need[x.Site+"/"+x.Sys] = true
	}
	for k, ok := range need {
		if !ok {
			return nil, r, fmt.Errorf("the catalogue has no row for %s", k)
		}
	}
	return rows, r, nil
}

type c13MC struct {
	Q        int
	WC       bool
	Masks    string // TLA+ set expression
	Label    string
	Craft    bool   // the catalogue rows are moves of the network / of Bob
	Hist     bool   // retransmissions and later presentations
	Memo     string // none | acc-item | acc-proof | rej-proof
	Unhashed string // TLA+ set of <<system, value>>
	Expect   string // "" : every invariant holds; else: a self-test - one of these invariants must be violated
}

const c13Invs = "TypeOK SharesAddUp HonestCompletes NoWrap TamperRejected CheckRejects LateRejected HistoryFree"

// c13MCPlan: configurations that do not need the catalogue (first result) and those that do.
func c13MCPlan(ctx *core.Ctx) (plain, crafted []c13MC) {
	// The mask arithmetic does not depend on the public point, on crafted proofs or on the history, and vice versa:
	// the plain variant without them carries the exhaustive mask ranges, the check variant the edge sets, and the
	// configurations with crafted transcripts and histories a few masks.
	all := "0..(Q5 - 1)"
	edge5 := "(0..11) \\cup (23..27) \\cup {124, 125, 126, 624, 625, 626, 1562} \\cup (3118..3124)"
	few5 := "{0, 4, 5, 25, 1562, 3124}"
	mk := func(q int, wc bool, masks, label string) c13MC {
		return c13MC{Q: q, WC: wc, Masks: masks, Label: label, Memo: "none", Unhashed: "{}"}
	}
	full := func(m c13MC) c13MC { m.Craft, m.Hist = true, true; return m }
	self := func(wc, craft, hist bool, memo, unhashed, expect string) c13MC {
		return c13MC{Q: 3, WC: wc, Masks: "{0}", Label: "self-test: " + memo + " " + unhashed, Craft: craft, Hist: hist, Memo: memo, Unhashed: unhashed, Expect: expect}
	}
	if !ctx.Thorough() {
		plain = []c13MC{
			mk(3, false, all, "all 243 masks"),
			mk(5, true, few5, "6 masks: 0, q-1, q, q^2, q^5/2, q^5-1"),
		}
		crafted = []c13MC{
			full(mk(3, true, "{242}", "1 mask: q^5-1")),
			full(mk(3, false, "{242}", "1 mask: q^5-1")),
		}
		// one self-test per quick run (all of them in the thorough tier)
		if ctx.Seed%2 == 1 {
			plain = append(plain, self(true, false, true, "acc-proof", "{}", "LateRejected TamperRejected HistoryFree")) // a memo of accepted proofs keyed without the ciphertext
		} else {
			crafted = append(crafted, self(true, true, false, "none", `{<<"bobwc", "U">>}`, "CheckRejects")) // the point U of Bob's proof left out of the challenge
		}
		return
	}
	wide5 := "(0..260) \\cup (3000..3124)"
	plain = []c13MC{
		mk(5, false, wide5, "386 masks: [0,260] and [3000,3124]"),
		mk(3, false, all, "all 243 masks"),
		mk(3, true, all, "all 243 masks"),
		mk(5, true, edge5, "31 masks around 0, q, q^2, q^3, q^4, q^5/2, q^5-1"),
		self(true, false, true, "acc-proof", "{}", "LateRejected TamperRejected HistoryFree"),
		self(false, false, true, "rej-proof", "{}", "HonestCompletes HistoryFree"),
	}
	a := mk(3, false, "{0, 1, 242}", "acc-item memo")
	a.Hist, a.Memo = true, "acc-item"
	plain = append(plain, a)
	crafted = []c13MC{
		full(mk(3, true, "{0, 1, 2, 3, 121, 242}", "6 masks")),
		full(mk(3, false, "{0, 1, 2, 3, 121, 242}", "6 masks")),
		full(mk(5, true, "{0, 3124}", "2 masks: 0, q^5-1")),
		full(mk(5, false, "{0, 4, 3124}", "3 masks")),
		self(true, true, false, "none", `{<<"bobwc", "U">>}`, "CheckRejects"),
		self(true, true, false, "none", `{<<"bobwc", "V">>}`, "CheckRejects"),
		self(false, true, false, "none", `{<<"alice", "c">>}`, "TamperRejected"),
		self(false, true, true, "none", `{<<"bob", "c2">>}`, "TamperRejected LateRejected"),
	}
	return
}

func c13TLCBool(b bool) string {
	if b {
		return "TRUE"
	}
	return "FALSE"
}

// c13Wrapper: the generated module that carries the set-valued constants.  bind: TLC compares the literal rows with the
// catalogue `Rows` it derives itself from MtACraft.tla (costs one derivation; done in one configuration per run).
func c13Wrapper(module, extends, masks, unhashed string, rows []c13Row, bind bool) string {
	assume := ""
	if bind {
		assume = "ASSUME RowsAreTheCatalogue == CraftRowsVal = Rows\n"
	}
	return fmt.Sprintf("---- MODULE %s ----\nEXTENDS %s\nMasksVal == %s\nUnhashedVal == %s\nCraftRowsVal == %s\n%s====\n",
		module, extends, masks, unhashed, c13RowsTLA(rows), assume)
}

func c13Consts(q int, wc, hist bool, memo string) string {
	return fmt.Sprintf("CONSTANTS\n  Q = %d\n  WithCheck = %s\n  Masks <- MasksVal\n  CraftRows <- CraftRowsVal\n  History = %s\n  Memo = \"%s\"\n  Unhashed <- UnhashedVal\n",
		q, c13TLCBool(wc), c13TLCBool(hist), memo)
}

func c13RunMC(ms []c13MC, rows []c13Row, workers, parallel int) ([]tlc.Result, error) {
	out := make([]tlc.Result, len(ms))
	var wg sync.WaitGroup
	sem := make(chan struct{}, parallel)
	for i, m := range ms {
		wg.Add(1)
		go func(i int, m c13MC) {
			defer wg.Done()
			sem <- struct{}{}
			defer func() { <-sem }()
			var rs []c13Row
			if m.Craft {
				rs = rows
			}
			w := workers
			if m.Expect != "" {
				w = 1
			}
			cfg := "SPECIFICATION Spec\n" + c13Consts(m.Q, m.WC, m.Hist, m.Memo) + "INVARIANTS " + c13Invs + "\n"
			out[i] = tlc.Run(tlc.Options{Module: "MC_MtA", Cfg: cfg, Workers: w, Heap: "3g", Timeout: 25 * time.Minute,
				Files: map[string]string{"MC_MtA.tla": c13Wrapper("MC_MtA", "MtA", m.Masks, m.Unhashed, rs, m.Craft && m.Expect == "" && i == 0)}})
		}(i, m)
	}
	wg.Wait()
	for i, r := range out {
		m := ms[i]
		if r.Err != nil {
			return out, fmt.Errorf("MtA %s Q=%d wc=%v: %v", m.Label, m.Q, m.WC, r.Err)
		}
		if m.Expect != "" {
			// self-test: the weakened design must break one of the named invariants on the model
			hit := false
			for _, inv := range strings.Fields(m.Expect) {
				hit = hit || r.Violated == inv
			}
			if !hit {
				return out, fmt.Errorf("MtA %s: the weakened design (memo %s, unhashed %s) should violate one of [%s], TLC reports %q (ok=%v)",
					m.Label, m.Memo, m.Unhashed, m.Expect, r.Violated, r.OK)
			}
			continue
		}
		if !r.OK {
			return out, fmt.Errorf("MtA %s Q=%d wc=%v violates %s:\n%s", m.Label, m.Q, m.WC, r.Violated, r.ErrorTrace(2500))
		}
	}
	return out, nil
}

type c13TraceVerdict struct {
	WC        bool
	Exchanges int
	Lines     int
	Accepted  bool
	FailLine  int
	FailText  string
	FailIdx   int // scenario idx of the exchange holding the failing line
	Res       tlc.Result
}

// c13ValidateTraces runs MtA_Trace.tla over the events of the given exchanges (one TLC run per variant).
func c13ValidateTraces(results []*c13Result, rows []c13Row) ([]c13TraceVerdict, error) {
	tmpBase := os.Getenv("VERIF_TMP")
	if tmpBase == "" {
		tmpBase = os.TempDir()
	}
	var out []c13TraceVerdict
	var mu sync.Mutex
	var wg sync.WaitGroup
	var firstErr error
	for _, wc := range []bool{false, true} {
		var lines []string
		var owner []int
		n := 0
		for _, r := range results {
			if r.Sc.WC != wc {
				continue
			}
			n++
			for _, e := range r.Events {
				bz, err := json.Marshal(e)
				if err != nil {
					return nil, err
				}
				lines = append(lines, string(bz))
				owner = append(owner, r.Sc.Idx)
			}
		}
		if n == 0 {
			continue
		}
		wg.Add(1)
		go func(wc bool, lines []string, owner []int, n int) {
			defer wg.Done()
			v := c13TraceVerdict{WC: wc, Exchanges: n, Lines: len(lines)}
			tf, err := os.CreateTemp(tmpBase, "verif-c13-trace-*.ndjson")
			if err == nil {
				_, err = tf.WriteString(strings.Join(lines, "\n") + "\n")
				tf.Close()
				defer os.Remove(tf.Name())
			}
			if err != nil {
				mu.Lock()
				firstErr = err
				mu.Unlock()
				return
			}
			abs, _ := filepath.Abs(tf.Name())
			// the model the real code is held against: no memory (Memo = "none"), every hashed value hashed (Unhashed = {})
			cfg := "SPECIFICATION TraceSpec\n" + c13Consts(c13ToyQ, wc, true, "none") +
				"INVARIANTS TraceInv\nCONSTRAINT HighWater\nPOSTCONDITION TraceAccepted\nCHECK_DEADLOCK FALSE\n"
			r := tlc.Run(tlc.Options{Module: "MC_MtA_Trace", Cfg: cfg, Env: map[string]string{"TRACE": abs}, Workers: 1, Heap: "2g",
				Timeout: 15 * time.Minute, Files: map[string]string{"MC_MtA_Trace.tla": c13Wrapper("MC_MtA_Trace", "MtA_Trace", "0..(Q5 - 1)", "{}", rows, false)}})
			v.Res = r
			if r.Err != nil {
				mu.Lock()
				if firstErr == nil {
					firstErr = fmt.Errorf("trace validation (wc=%v): %v", wc, r.Err)
				}
				mu.Unlock()
				return
			}
			v.Accepted = r.OK && r.HW == len(lines)
			if !v.Accepted {
				line := r.HW + 1
				if r.Violated != "" && r.Violated != "TraceAccepted" {
					line = r.HW
				}
				if line >= 1 && line <= len(lines) {
					v.FailLine, v.FailText, v.FailIdx = line, lines[line-1], owner[line-1]
				}
			}
			mu.Lock()
			out = append(out, v)
			mu.Unlock()
		}(wc, lines, owner, n)
	}
	wg.Wait()
	if firstErr != nil {
		return out, firstErr
	}
	sort.Slice(out, func(i, j int) bool { return !out[i].WC && out[j].WC })
	return out, nil
}

// ------------------------------------------------------------------ the check

func c13Workers() int {
	n := runtime.NumCPU() - 4
	if n > 12 {
		n = 12
	}
	if n < 2 {
		n = 2
	}
	return n
}

func c13RunAll(scs []c13Scenario, keys []eckg.LocalPartySaveData, workers int) []*c13Result {
	out := make([]*c13Result, len(scs))
	var wg sync.WaitGroup
	ch := make(chan int)
	for w := 0; w < workers; w++ {
		wg.Add(1)
		go func() {
			defer wg.Done()
			for i := range ch {
				r := c13Run(scs[i], keys)
				out[i] = &r
			}
		}()
	}
	for i := range scs {
		ch <- i
	}
	close(ch)
	wg.Wait()
	return out
}

// c13SelfTestBinding: the comparison between a catalogue row and its real-size concretisation must notice a corrupted
// prediction (one run of a crafted exchange with a row whose `changed` set was tampered with has to end inconclusive).
func c13SelfTestBinding(scs []c13Scenario, keys []eckg.LocalPartySaveData) error {
	for _, sc := range scs {
		if sc.Craft == nil || len(sc.Craft.Abs) == 0 {
			continue
		}
		bad := *sc.Craft
		bad.Abs = append([]string{}, bad.Abs[1:]...)
		sc.Craft = &bad
		r := c13Run(sc, keys)
		if r.Skip != "" {
			continue
		}
		if r.Inconcl == "" || !strings.Contains(r.Inconcl, "predicts") {
			return fmt.Errorf("a corrupted catalogue row (%s without %v) was not noticed on the real-size transcript", bad.key(), sc.Craft.Abs)
		}
		return nil
	}
	return fmt.Errorf("no crafted exchange could be built for the binding self-test")
}

func C13(ctx *core.Ctx) error {
	keys, err := pump.LoadEcFixtures(5)
	if err != nil {
		return core.Inconcl("cannot load the vendored parameter sets: %v", err)
	}
	rng := rand.New(rand.NewSource(ctx.Seed))
	for i, k := range keys {
		if k.PaillierSK == nil || k.NTildei == nil || k.H1i == nil || k.H2i == nil {
			return core.Inconcl("parameter set %d is incomplete", i)
		}
		d, err := newC13Dec(k.PaillierSK.P, k.PaillierSK.Q)
		if err != nil || d.n.Cmp(k.PaillierSK.N) != 0 {
			return core.Inconcl("parameter set %d: P*Q != N or not prime (%v)", i, err)
		}
		if err := d.selfCheck(rng); err != nil {
			return core.Inconcl("independent Paillier decryption failed its self check on parameter set %d: %v", i, err)
		}
	}
	report := func(r *c13Result) {
		for _, v := range r.Viols {
			ctx.Report(v.Key, v.What, r.Sc)
		}
	}
	if ctx.Replay != "" {
		var sc c13Scenario
		if _, err := core.LoadReplay(ctx.Replay, &sc); err != nil {
			return core.Inconcl("cannot load replay: %v", err)
		}
		if sc.IA < 0 || sc.IA > 4 || sc.IB < 0 || sc.IB > 4 {
			return core.Inconcl("replay names an unknown parameter set")
		}
		if sc.Craft != nil {
			sc.Craft.norm()
		}
		r := c13Run(sc, keys)
		if r.Inconcl != "" {
			return core.Inconcl("replay %s: %s", sc.caseKey(), r.Inconcl)
		}
		if r.Skip != "" {
			return core.Inconcl("replay %s: the crafted transcript cannot be built: %s", sc.caseKey(), r.Skip)
		}
		fmt.Printf("replay %s: outcome %s, %d violation(s)\n", sc.caseKey(), r.Outcome, len(r.Viols))
		report(&r)
		return nil
	}

	cov := core.NewCov()
	// design model (the configurations that do not need the catalogue) in the background
	mcPlain, mcCrafted := c13MCPlan(ctx)
	var mcRes1, mcRes2 []tlc.Result
	var mcErr1, mcErr2 error
	var wg sync.WaitGroup
	wg.Add(1)
	go func() { defer wg.Done(); mcRes1, mcErr1 = c13RunMC(mcPlain, nil, ctx.Pick(4, 5), ctx.Pick(3, 3)) }()

	// the catalogue of crafted transcripts, while the exchanges that do not need it run
	var rows []c13Row
	var catRes tlc.Result
	var catErr error
	var cwg sync.WaitGroup
	cwg.Add(1)
	go func() { defer cwg.Done(); rows, catRes, catErr = c13Catalogue() }()

	t0 := time.Now()
	scs, skippedB0 := c13Plan(ctx, nil, 0)
	results := c13RunAll(scs, keys, c13Workers())
	cwg.Wait()
	if catErr != nil {
		wg.Wait()
		return core.Inconcl("catalogue of crafted transcripts (MtACraft): %v", catErr)
	}
	wg.Add(1)
	go func() { defer wg.Done(); mcRes2, mcErr2 = c13RunMC(mcCrafted, rows, ctx.Pick(4, 5), ctx.Pick(3, 3)) }()
	scs2, _ := c13Plan(ctx, rows, len(scs))
	results = append(results, c13RunAll(scs2, keys, c13Workers())...)
	exWall := time.Since(t0).Seconds()
	if err := c13SelfTestBinding(scs2, keys); err != nil {
		wg.Wait()
		return core.Inconcl("binding self-test: %v", err)
	}

	outcomes := map[string]int{}
	bySite := map[string]int{}
	byHist := map[string]int{}
	rowCases := map[string]int{}
	var clean []*c13Result
	drifts, skips, calls, craftedBuilt := 0, 0, 0, 0
	for _, r := range results {
		if r.Inconcl != "" {
			wg.Wait()
			return core.Inconcl("exchange %s could not be built or observed: %s", r.Sc.caseKey(), r.Inconcl)
		}
		report(r)
		cov.Case(r.Sc.caseKey(), true)
		outcomes[r.Outcome]++
		calls += r.Calls
		site := r.Sc.Site
		if r.Sc.Craft != nil {
			site += "+crafted"
		}
		bySite[r.Sc.variant()+"/"+site]++
		if r.Sc.Site != "none" {
			h := r.Sc.Hist
			if h == "" {
				h = "fresh"
			}
			byHist[h]++
		}
		switch {
		case len(r.Viols) > 0:
		case r.Skip != "":
			skips++
			ctx.Note("not built: exchange %s: %s", r.Sc.caseKey(), r.Skip)
		case len(r.Drift) > 0:
			drifts++
			ctx.Note("drift: exchange %s: %s", r.Sc.caseKey(), strings.Join(r.Drift, "; "))
		default:
			clean = append(clean, r)
		}
		if r.Sc.Craft != nil && r.Skip == "" {
			craftedBuilt++
			rowCases[r.Sc.Craft.key()]++
		}
	}
	if craftedBuilt == 0 && len(ctx.Violations()) == 0 {
		wg.Wait()
		return core.Inconcl("none of the %d crafted transcripts could be built (the challenge of the real transcripts cannot be recovered)", len(scs2))
	}
	for _, want := range []struct{ site, kind string }{{"none", "-"}, {"cA", "plus1"}, {"cB", "plus1"}, {"cA", "N"}, {"cB", "addq"}, {"B", "both-plus1"}, {"B", "alice-holds-plus1"}} {
		for _, r := range results {
			if r.Sc.Site == want.site && r.Sc.Kind == want.kind && r.Sc.Craft == nil {
				cov.Sample(map[string]any{"scenario": r.Sc, "outcome": r.Outcome, "values": r.Info, "trace": r.Events}, 10)
				break
			}
		}
	}
	for _, site := range []string{"cA", "cB", "B"} {
		for _, r := range results {
			if r.Sc.Site == site && r.Sc.Craft != nil && r.Skip == "" {
				cov.Sample(map[string]any{"scenario": r.Sc, "outcome": r.Outcome, "values": r.Info, "trace": r.Events}, 10)
				break
			}
		}
	}
	// binding: every exchange that the harness judged without finding (and without drift) must be explained by MtA_Trace
	verdicts, terr := c13ValidateTraces(clean, rows)
	wg.Wait()
	if terr != nil {
		return core.Inconcl("trace validation machinery failed: %v", terr)
	}
	for _, v := range verdicts {
		if !v.Accepted {
			return core.Inconcl("MtA_Trace (wc=%v) does not explain line %d (exchange idx %d): %s [%s] - model and harness projection disagree although no observation failed",
				v.WC, v.FailLine, v.FailIdx, core.Short(v.FailText, 300), v.Res.Violated)
		}
		cov.AddTraces(v.Exchanges)
		cov.Add("trace_lines", v.Lines)
	}
	if mcErr1 != nil {
		return core.Inconcl("MtA design model: %v", mcErr1)
	}
	if mcErr2 != nil {
		return core.Inconcl("MtA design model: %v", mcErr2)
	}
	cov.AddMC(catRes.Distinct, catRes.Generated)
	var mcOut []map[string]any
	plan := append(append([]c13MC{}, mcPlain...), mcCrafted...)
	for i, r := range append(append([]tlc.Result{}, mcRes1...), mcRes2...) {
		m := plan[i]
		o := map[string]any{"Q": m.Q, "with_check": m.WC, "masks": m.Label, "crafted": m.Craft, "history": m.Hist,
			"distinct": r.Distinct, "generated": r.Generated, "depth": r.Depth, "wall_s": r.Wall}
		if m.Expect != "" {
			o["self_test"] = fmt.Sprintf("memo %s, unhashed %s: TLC reports %s violated, as it must", m.Memo, m.Unhashed, r.Violated)
		} else {
			cov.AddMC(r.Distinct, r.Generated)
		}
		mcOut = append(mcOut, o)
	}
	var rowOut []map[string]any
	for i := range rows {
		rowOut = append(rowOut, map[string]any{"row": rows[i].key(), "recomputed": rows[i].Abs, "changed": rows[i].Changed, "exchanges": rowCases[rows[i].key()]})
	}
	cov.Set("mc_configs", mcOut)
	cov.Set("catalogue", map[string]any{"rows": rowOut, "distinct": catRes.Distinct, "generated": catRes.Generated, "wall_s": catRes.Wall, "invariants": c13CraftInvs})
	cov.Set("exchanges", len(results))
	cov.Set("library_calls", calls)
	cov.Set("exchanges_wall_s", exWall)
	cov.Set("outcomes", outcomes)
	cov.Set("exchanges_by_variant_and_site", bySite)
	cov.Set("altered_exchanges_by_history", byHist)
	cov.Set("crafted_exchanges_built", craftedBuilt)
	cov.Set("crafted_exchanges_not_built", skips)
	cov.Set("drift_exchanges", drifts)
	cov.Set("wc_b0_honest_cases_not_applicable", skippedB0)
	cov.Set("alteration_kinds", append(append([]string{}, c13CtKinds...), "mulca (cB only)"))
	cov.Set("wrong_point_kinds", append(append([]string{}, c13PointKinds...), c13LatePointKinds[1:]...))
	cov.Set("exhaustive", false)
	return ctx.WriteEvidence("model_checking",
		"one case = one real MtA exchange at real size with its history (variant plain/check, ordered pair of vendored parameter sets, class of a and of b in {0,1,q-1,random}, "+
			"site and kind of a single alteration of cA / cB or of a wrong public point, what happens to the proof - it travels unchanged or is crafted after a catalogue row - and the history: "+
			"the altered item alone, after the genuine item was accepted by the same process, or altered / genuine / altered); distinct = distinct tuples; every one is non-trivial "+
			"(at least a full three-message exchange). Verdict from the real outputs: (alpha+beta-a*b) mod q = 0 in math/big for unaltered exchanges (also when they follow a refused altered message), "+
			"error return of the receiver for every altered presentation. states/transitions: TLC on spec/MtA.tla (ideal encryption, ideal and crafted proofs, receivers with a history, integer plaintext arithmetic, "+
			"toy q in {3,5}) with invariants "+c13Invs+" and deadlock check, plus spec/MtACraftMC.tla ("+c13CraftInvs+"); self-test configurations (weakened hash / memo, which must violate an invariant) are listed but not counted; "+
			"traces: exchanges accepted by spec/MtA_Trace.tla (observations: independent CRT decryption of cA and cB, no wrap, beta = -beta' mod q, the congruence; the verdict of every presentation)",
		cov, []string{
			"the five vendored parameter sets of test/_ecdsa_fixtures (Paillier keys with their prime factors, ring-Pedersen parameters)",
			"independent Paillier decryption by CRT with the prime factors, self-checked against the encryption formula; independent secp256k1 arithmetic of harness/obs for b*G and for the recomputed point U",
			"MtA.tla idealises encryption (perfectly homomorphic, no wrap because N >= q^2+q^5) and proofs (sound, complete, bound to their statement; a crafted transcript passes iff nothing it changed is hashed); TLC numbers are about that design, not the code",
			"crafted transcripts: the challenge of a real transcript is recovered with Alice's Paillier trapdoor and validated against the verification equations evaluated by the harness; exchanges on which that fails are reported as not built",
			"check variant with b = 0 has no honest input (b*G is the identity, not representable as crypto.ECPoint): covered only as a wrong-point case",
			"panics are recovered in the calling goroutine (the MtA functions start no goroutines)",
		}, "java tlc2.TLC MtACraftMC.tla / MC_MtA.tla / MC_MtA_Trace.tla")
}
