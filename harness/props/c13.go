package props

// C13 - MtA turns a product of secrets into additive shares of that product.
//
// Design level : spec/MtA.tla (ideal homomorphic encryption, ideal proofs, real integer arithmetic over a toy
//                group order) is model-checked exhaustively by TLC.
// Binding (A)  : real exchanges (crypto/mta at real size over the vendored parameter sets) are logged as ndjson
//                and validated against spec/MtA_Trace.tla.
// Verdict      : only ever from the real outputs - the congruence computed with math/big, the accept / reject
//                decisions returned by BobMid[WC] / AliceEnd[WC].

import (
	"encoding/json"
	"fmt"
	"math/big"
	"math/rand"
	"os"
	"path/filepath"
	"runtime"
	"sort"
	"strings"
	"sync"
	"time"

	"github.com/bnb-chain/tss-lib/v2/crypto"
	"github.com/bnb-chain/tss-lib/v2/crypto/mta"
	eckg "github.com/bnb-chain/tss-lib/v2/ecdsa/keygen"
	"github.com/bnb-chain/tss-lib/v2/tss"

	"verif/harness/core"
	"verif/harness/obs"
	"verif/harness/pump"
	"verif/harness/tlc"
)

// ------------------------------------------------------------------ scenario space

// c13Scenario is one real exchange; everything else (secrets, library randomness) derives from Seed.
type c13Scenario struct {
	Idx  int    `json:"idx"`
	WC   bool   `json:"wc"`   // BobMidWC / AliceEndWC
	IA   int    `json:"ia"`   // vendored parameter set of Alice (Paillier key, her NTilde,h1,h2)
	IB   int    `json:"ib"`   // vendored parameter set of Bob (his NTilde,h1,h2)
	ACls string `json:"acls"` // 0 | 1 | q-1 | rand
	BCls string `json:"bcls"`
	Site string `json:"site"` // none | cA | cB | B
	Kind string `json:"kind"` // the alteration (see c13Alter / c13Points)
	Seed int64  `json:"seed"`
}

func (s c13Scenario) variant() string {
	if s.WC {
		return "wc"
	}
	return "plain"
}

func (s c13Scenario) caseKey() string {
	return fmt.Sprintf("%s|A%d,B%d|a=%s,b=%s|%s:%s", s.variant(), s.IA, s.IB, s.ACls, s.BCls, s.Site, s.Kind)
}

var c13Classes = []string{"0", "1", "q-1", "rand"}

// alterations of a ciphertext in transit -> the class the model knows them by (MtA_Trace!AlteredBy)
var c13CtKinds = []string{"plus1", "minus1", "mulg", "inv", "random", "plusN2", "negint", "rerand", "addq", "other", "zero", "N", "multP", "foreign"}
var c13ModelKind = map[string]string{
	"plus1": "shift", "minus1": "shift", "mulg": "shift", "inv": "shift", "random": "shift", "plusN2": "shift", "negint": "shift",
	"rerand": "rerand", "addq": "addq", "other": "other", "zero": "nonunit", "N": "nonunit", "multP": "nonunit", "foreign": "foreign",
}

// wrong public points (check variant): who holds what
var c13PointKinds = []string{"alice-holds-plus1", "both-plus1", "both-neg", "both-rand"}

func c13Pairs() [][2]int {
	var ps [][2]int
	for i := 0; i < 5; i++ {
		for j := 0; j < 5; j++ {
			if i != j {
				ps = append(ps, [2]int{i, j})
			}
		}
	}
	return ps
}

func c13Plan(ctx *core.Ctx) (scs []c13Scenario, skippedB0 int) {
	pairs := c13Pairs()
	rng := rand.New(rand.NewSource(ctx.Seed*7919 + 13))
	rng.Shuffle(len(pairs), func(i, j int) { pairs[i], pairs[j] = pairs[j], pairs[i] })
	k := 0
	add := func(sc c13Scenario) {
		sc.Idx = len(scs)
		sc.Seed = ctx.Seed*1000003 + int64(sc.Idx)*7 + 1
		scs = append(scs, sc)
	}
	nextPair := func() [2]int { p := pairs[k%len(pairs)]; k++; return p }
	// class pair for the tamper scenarios: rotate, never b = 0 with the check variant
	ci := 0
	nextCls := func(wc bool) (string, string) {
		for {
			a, b := c13Classes[ci%4], c13Classes[(ci/4+ci)%4]
			ci++
			if wc && b == "0" {
				continue
			}
			return a, b
		}
	}
	pairSets := [][][2]int{nil} // quick: one rotating pair per case
	if ctx.Thorough() {
		pairSets = nil
		for _, p := range pairs {
			pairSets = append(pairSets, [][2]int{p})
		}
	}
	for _, ps := range pairSets {
		pick := func() [2]int {
			if ps == nil {
				return nextPair()
			}
			return ps[0]
		}
		for _, wc := range []bool{false, true} {
			// unaltered exchanges: all of {0,1,q-1,random}^2
			for _, ac := range c13Classes {
				for _, bc := range c13Classes {
					if wc && bc == "0" {
						// b*G is the identity, which crypto.ECPoint cannot represent: no honest input exists
						// for the check variant (the wrong-point scenarios below run b = 0 with B = G)
						skippedB0++
						continue
					}
					p := pick()
					add(c13Scenario{WC: wc, IA: p[0], IB: p[1], ACls: ac, BCls: bc, Site: "none", Kind: "-"})
				}
			}
			if ctx.Thorough() {
				p := pick()
				add(c13Scenario{WC: wc, IA: p[0], IB: p[1], ACls: "rand", BCls: "rand", Site: "none", Kind: "-"})
			}
			// single alterations of cA / cB
			for _, site := range []string{"cA", "cB"} {
				for _, kind := range c13CtKinds {
					p := pick()
					ac, bc := nextCls(wc)
					add(c13Scenario{WC: wc, IA: p[0], IB: p[1], ACls: ac, BCls: bc, Site: site, Kind: kind})
				}
			}
		}
		// check variant: the point is not b*G
		for _, kind := range c13PointKinds {
			p := pick()
			ac, bc := nextCls(true)
			add(c13Scenario{WC: true, IA: p[0], IB: p[1], ACls: ac, BCls: bc, Site: "B", Kind: kind})
		}
		for _, kind := range []string{"both-plus1", "both-rand"} { // b = 0: every representable point is wrong
			p := pick()
			add(c13Scenario{WC: true, IA: p[0], IB: p[1], ACls: c13Classes[(k+1)%4], BCls: "0", Site: "B", Kind: kind})
		}
	}
	return scs, skippedB0
}

// ------------------------------------------------------------------ independent Paillier decryption (CRT)

// c13Dec decrypts with the prime factors: m_p = L_p(c^(p-1) mod p^2) * h_p mod p, same for q, then CRT.
// Nothing of crypto/paillier is used (the library decrypts with lambda over N^2).
type c13Dec struct {
	p, q, n, n2, p2, q2, hp, hq, pInvQ *big.Int
}

var c13One = big.NewInt(1)

func c13L(x, p *big.Int) *big.Int {
	return new(big.Int).Div(new(big.Int).Sub(x, c13One), p)
}

func newC13Dec(p, q *big.Int) (*c13Dec, error) {
	if p == nil || q == nil || p.Cmp(q) == 0 || !p.ProbablyPrime(8) || !q.ProbablyPrime(8) {
		return nil, fmt.Errorf("fixture does not carry two distinct primes")
	}
	d := &c13Dec{p: p, q: q}
	d.n = new(big.Int).Mul(p, q)
	d.n2 = new(big.Int).Mul(d.n, d.n)
	d.p2 = new(big.Int).Mul(p, p)
	d.q2 = new(big.Int).Mul(q, q)
	g := new(big.Int).Add(d.n, c13One)
	pm1 := new(big.Int).Sub(p, c13One)
	qm1 := new(big.Int).Sub(q, c13One)
	d.hp = new(big.Int).ModInverse(c13L(new(big.Int).Exp(g, pm1, d.p2), p), p)
	d.hq = new(big.Int).ModInverse(c13L(new(big.Int).Exp(g, qm1, d.q2), q), q)
	d.pInvQ = new(big.Int).ModInverse(p, q)
	if d.hp == nil || d.hq == nil || d.pInvQ == nil {
		return nil, fmt.Errorf("CRT constants do not exist")
	}
	return d, nil
}

// wellFormed: 0 < c < N^2 and c is a unit modulo N^2.
func (d *c13Dec) wellFormed(c *big.Int) bool {
	return c != nil && c.Sign() > 0 && c.Cmp(d.n2) < 0 && new(big.Int).GCD(nil, nil, c, d.n).Cmp(c13One) == 0
}

func (d *c13Dec) dec(c *big.Int) (*big.Int, bool) {
	if !d.wellFormed(c) {
		return nil, false
	}
	pm1 := new(big.Int).Sub(d.p, c13One)
	qm1 := new(big.Int).Sub(d.q, c13One)
	mp := c13L(new(big.Int).Exp(c, pm1, d.p2), d.p)
	mp.Mul(mp, d.hp).Mod(mp, d.p)
	mq := c13L(new(big.Int).Exp(c, qm1, d.q2), d.q)
	mq.Mul(mq, d.hq).Mod(mq, d.q)
	// m = mp + p * ((mq - mp) / p mod q)
	t := new(big.Int).Sub(mq, mp)
	t.Mul(t, d.pInvQ).Mod(t, d.q)
	return t.Mul(t, d.p).Add(t, mp), true
}

// enc builds (1 + m*N) * r^N mod N^2 by its own formula (self check and crafted alterations).
func (d *c13Dec) enc(m, r *big.Int) *big.Int {
	c := new(big.Int).Mul(m, d.n)
	c.Add(c, c13One)
	c.Mul(c, new(big.Int).Exp(r, d.n, d.n2))
	return c.Mod(c, d.n2)
}

func (d *c13Dec) selfCheck(rng *rand.Rand) error {
	nm1 := new(big.Int).Sub(d.n, c13One)
	for _, m := range []*big.Int{big.NewInt(0), big.NewInt(1), nm1, new(big.Int).Rand(rng, d.n)} {
		r := new(big.Int).Rand(rng, d.n)
		if new(big.Int).GCD(nil, nil, r, d.n).Cmp(c13One) != 0 {
			continue
		}
		got, ok := d.dec(d.enc(m, r))
		if !ok || got.Cmp(m) != 0 {
			return fmt.Errorf("CRT decryption does not invert the encryption formula")
		}
	}
	if _, ok := d.dec(d.n); ok {
		return fmt.Errorf("CRT decryption accepted a non-unit")
	}
	return nil
}

// ------------------------------------------------------------------ one real exchange

type c13Viol struct {
	Key, What string
}

type c13Result struct {
	Sc      c13Scenario
	Events  []map[string]any // ndjson lines (Reset first)
	Viols   []c13Viol
	Drift   []string // an observation that is false although the property is not contradicted
	Outcome string   // shares | bob-rejected | alice-rejected | aborted
	Inconcl string   // the harness could not build / observe the case
	Info    map[string]any
}

// c13Call runs f and converts a panic in the calling goroutine into a string.
func c13Call(f func()) (panicked string) {
	defer func() {
		if r := recover(); r != nil {
			panicked = fmt.Sprint(r)
		}
	}()
	f()
	return ""
}

func c13ClassValue(cls string, rng *rand.Rand, q *big.Int) *big.Int {
	switch cls {
	case "0":
		return big.NewInt(0)
	case "1":
		return big.NewInt(1)
	case "q-1":
		return new(big.Int).Sub(q, c13One)
	}
	for {
		v := new(big.Int).Rand(rng, q)
		if v.Cmp(big.NewInt(1)) > 0 && v.Cmp(new(big.Int).Sub(q, c13One)) < 0 {
			return v
		}
	}
}

const c13ToyQ = 5

func c13Toy(cls string, v *big.Int) int {
	switch cls {
	case "0":
		return 0
	case "1":
		return 1
	case "q-1":
		return c13ToyQ - 1
	}
	return 2 + int(v.Bit(0))
}

func c13ECPoint(p obs.Pt) (*crypto.ECPoint, error) {
	if p.Inf {
		return nil, fmt.Errorf("identity")
	}
	return crypto.NewECPoint(tss.S256(), p.X, p.Y)
}

// c13Alter returns the altered ciphertext for kind; other is the corresponding ciphertext of another exchange,
// foreign one made under a third party's key.
func c13Alter(kind string, c *big.Int, d *c13Dec, q *big.Int, rng *rand.Rand, other, foreign *big.Int) *big.Int {
	unit := func() *big.Int {
		for {
			x := new(big.Int).Rand(rng, d.n)
			if x.Sign() > 0 && new(big.Int).GCD(nil, nil, x, d.n).Cmp(c13One) == 0 {
				return x
			}
		}
	}
	mulmod := func(x, y *big.Int) *big.Int { z := new(big.Int).Mul(x, y); return z.Mod(z, d.n2) }
	switch kind {
	case "plus1":
		return new(big.Int).Add(c, c13One)
	case "minus1":
		return new(big.Int).Sub(c, c13One)
	case "mulg": // plaintext + 1
		return mulmod(c, d.enc(big.NewInt(1), big.NewInt(1)))
	case "inv": // plaintext negated
		return new(big.Int).ModInverse(c, d.n2)
	case "random":
		return new(big.Int).Rand(rng, d.n2)
	case "plusN2": // same residue, outside [0, N^2)
		return new(big.Int).Add(c, d.n2)
	case "negint":
		return new(big.Int).Neg(c)
	case "rerand": // same plaintext, fresh randomiser
		return mulmod(c, d.enc(big.NewInt(0), unit()))
	case "addq": // plaintext + q : the same residue modulo q
		return mulmod(c, d.enc(q, big.NewInt(1)))
	case "other":
		return other
	case "zero":
		return big.NewInt(0)
	case "N":
		return new(big.Int).Set(d.n)
	case "multP": // a multiple of a prime factor below N^2
		z := new(big.Int).Div(c, d.p)
		return z.Mul(z, d.p)
	case "foreign":
		return foreign
	}
	return nil
}

func c13Run(sc c13Scenario, keys []eckg.LocalPartySaveData) (res c13Result) {
	res.Sc = sc
	res.Info = map[string]any{}
	ec := tss.S256()
	q := ec.Params().N
	rng := rand.New(rand.NewSource(sc.Seed))
	lib := pump.NewDRBG(sc.Seed ^ 0x5eed13) // the library's randomness
	A, B := keys[sc.IA], keys[sc.IB]
	skA := A.PaillierSK
	pkA := &skA.PublicKey
	d, err := newC13Dec(skA.P, skA.Q)
	if err != nil || d.n.Cmp(pkA.N) != 0 {
		res.Inconcl = fmt.Sprintf("parameter set %d: cannot build the independent decryptor: %v", sc.IA, err)
		return
	}
	sess := []byte(fmt.Sprintf("c13-session-%d", sc.Seed))
	a := c13ClassValue(sc.ACls, rng, q)
	b := c13ClassValue(sc.BCls, rng, q)
	ab := new(big.Int).Mul(a, b)
	fn := func(s string) string {
		if sc.WC && s != "AliceInit" {
			return s + "WC"
		}
		return s
	}
	viol := func(key, what string) { res.Viols = append(res.Viols, c13Viol{key, what}) }
	ev := func(m map[string]any) { res.Events = append(res.Events, m) }
	res.Info["a"], res.Info["b"] = core.Short(a.Text(16), 70), core.Short(b.Text(16), 70)

	// ---- toy projection for the trace (see MtA_Trace.tla)
	toyA, toyB := c13Toy(sc.ACls, a), c13Toy(sc.BCls, b)
	otherPoint := func(not int) int { // a representable toy point different from `not`
		for p := 1; p < c13ToyQ; p++ {
			if p != not%c13ToyQ {
				return p
			}
		}
		return 1
	}
	bpubToy, bobxToy := -1, -1
	// ---- the real points
	var bobX, bPub *crypto.ECPoint
	if sc.WC {
		honest := obs.BaseMul(obs.Secp, b) // independent affine arithmetic
		mk := func(k *big.Int) *crypto.ECPoint {
			k = new(big.Int).Mod(k, q)
			if k.Sign() == 0 {
				k = big.NewInt(2)
			}
			if k.Cmp(b) == 0 {
				k = new(big.Int).Add(k, c13One)
			}
			p, e := c13ECPoint(obs.BaseMul(obs.Secp, k))
			if e != nil {
				return nil
			}
			return p
		}
		var wrong *crypto.ECPoint
		switch sc.Kind {
		case "alice-holds-plus1", "both-plus1":
			wrong = mk(new(big.Int).Add(b, c13One))
		case "both-neg":
			wrong = mk(new(big.Int).Sub(q, b))
		case "both-rand":
			wrong = mk(new(big.Int).Rand(rng, q))
		}
		if sc.Site == "B" {
			if wrong == nil {
				res.Inconcl = "could not build the wrong point"
				return
			}
			bPub = wrong
			bpubToy = otherPoint(toyB)
			if strings.HasPrefix(sc.Kind, "both-") {
				bobX, bobxToy = wrong, bpubToy
			} else {
				hp, e := c13ECPoint(honest)
				if e != nil {
					res.Inconcl = "b*G is not representable"
					return
				}
				bobX, bobxToy = hp, toyB
			}
		} else {
			hp, e := c13ECPoint(honest)
			if e != nil {
				res.Inconcl = "b*G is not representable"
				return
			}
			bobX, bPub = hp, hp
			bpubToy, bobxToy = toyB, toyB
		}
	}
	ev(map[string]any{"ev": "Reset", "id": sc.Idx, "wc": sc.WC, "a": toyA, "b": toyB, "bpub": bpubToy, "bobx": bobxToy})

	// ---- message 1
	var cA *big.Int
	var pfA *mta.RangeProofAlice
	pan := c13Call(func() { cA, pfA, err = mta.AliceInit(ec, pkA, a, B.NTildei, B.H1i, B.H2i, lib) })
	if pan != "" || err != nil || cA == nil || pfA == nil {
		viol(fmt.Sprintf("C13:AliceInit:honest-input-fails:a=%s", sc.ACls),
			fmt.Sprintf("AliceInit on a=%s (class %s) with parameter sets A=%d,B=%d did not produce a ciphertext and proof: err=%v panic=%q", a.Text(16), sc.ACls, sc.IA, sc.IB, err, pan))
		res.Outcome = "aborted"
		return
	}
	{
		m, ok := d.dec(cA)
		o := map[string]any{"ca_wellformed": ok, "ca_plain_ok": ok && m.Cmp(a) == 0}
		ev(map[string]any{"ev": "AliceInit", "ret": "ok", "r": 1 + sc.Idx%2, "obs": o})
		if !(ok && m.Cmp(a) == 0) {
			res.Drift = append(res.Drift, "cA does not decrypt (independently) to a")
		}
	}
	sentCA := cA
	if sc.Site == "cA" {
		var other, foreign *big.Int
		switch sc.Kind {
		case "other":
			a2 := c13ClassValue("rand", rng, q)
			pan := c13Call(func() { other, _, err = mta.AliceInit(ec, pkA, a2, B.NTildei, B.H1i, B.H2i, lib) })
			if pan != "" || err != nil || other == nil {
				res.Inconcl = fmt.Sprintf("second AliceInit failed: %v %s", err, pan)
				return
			}
		case "foreign":
			third := keys[(sc.IA+1)%5] // a set that is not Alice's
			pan := c13Call(func() { foreign, err = third.PaillierSK.PublicKey.Encrypt(lib, a) })
			if pan != "" || err != nil || foreign == nil {
				res.Inconcl = fmt.Sprintf("encryption under a third key failed: %v %s", err, pan)
				return
			}
		}
		sentCA = c13Alter(sc.Kind, cA, d, q, rng, other, foreign)
		if sentCA == nil || sentCA.Cmp(cA) == 0 {
			res.Inconcl = "alteration " + sc.Kind + " did not change cA"
			return
		}
		ev(map[string]any{"ev": "TamperCA", "kind": c13ModelKind[sc.Kind]})
	}

	// ---- message 2
	var beta, cB, betaPrm *big.Int
	var piB *mta.ProofBob
	var piW *mta.ProofBobWC
	bobMid := func(bb, c *big.Int) (be, cb, bp *big.Int, p *mta.ProofBob, pw *mta.ProofBobWC, e error, pn string) {
		pn = c13Call(func() {
			if sc.WC {
				be, cb, bp, pw, e = mta.BobMidWC(sess, ec, pkA, pfA, bb, c, A.NTildei, A.H1i, A.H2i, B.NTildei, B.H1i, B.H2i, bobX, lib)
			} else {
				be, cb, bp, p, e = mta.BobMid(sess, ec, pkA, pfA, bb, c, A.NTildei, A.H1i, A.H2i, B.NTildei, B.H1i, B.H2i, lib)
			}
		})
		return
	}
	var bobErr error
	beta, cB, betaPrm, piB, piW, bobErr, pan = bobMid(b, sentCA)
	bobOK := pan == "" && bobErr == nil && beta != nil && cB != nil && betaPrm != nil && (piB != nil || piW != nil)
	if sc.Site == "cA" {
		switch {
		case pan != "":
			viol(fmt.Sprintf("C13:%s:panic:altered-cA:%s", fn("BobMid"), c13ModelKind[sc.Kind]),
				fmt.Sprintf("%s does not reject an altered cA (alteration %q) but panics: %s", fn("BobMid"), sc.Kind, core.Short(pan, 160)))
			res.Outcome = "aborted"
		case bobErr == nil:
			viol(fmt.Sprintf("C13:%s:accepts-altered-cA:%s", fn("BobMid"), sc.Kind),
				fmt.Sprintf("%s returned no error for an altered cA (alteration %q) and produced beta/cB", fn("BobMid"), sc.Kind))
			res.Outcome = "shares"
		default:
			ev(map[string]any{"ev": "BobMid", "ret": "err", "mask": 0, "r": 1, "obs": map[string]any{"rejected": true}})
			res.Outcome = "bob-rejected"
		}
		return
	}
	if !bobOK {
		if sc.Site == "B" && strings.HasPrefix(sc.Kind, "both-") && pan == "" && bobErr != nil {
			// Bob refuses to prove a false statement: no share reaches Alice; the model lets Bob go on, so this is drift
			res.Drift = append(res.Drift, "BobMidWC refused a point that is not b*G")
			res.Outcome = "bob-rejected"
			return
		}
		viol(fmt.Sprintf("C13:%s:honest-input-fails:a=%s,b=%s", fn("BobMid"), sc.ACls, sc.BCls),
			fmt.Sprintf("%s on an unaltered cA with a=%s b=%s (classes %s,%s), parameter sets A=%d,B=%d failed: err=%v panic=%q",
				fn("BobMid"), a.Text(16), b.Text(16), sc.ACls, sc.BCls, sc.IA, sc.IB, bobErr, pan))
		res.Outcome = "aborted"
		return
	}
	q5 := new(big.Int).Exp(q, big.NewInt(5), nil)
	want := new(big.Int).Add(ab, betaPrm) // the integer a*b + beta'
	{
		m, ok := d.dec(cB)
		negMask := new(big.Int).Neg(betaPrm)
		negMask.Mod(negMask, q)
		o := map[string]any{
			"cb_wellformed": ok,
			"cb_plain_ok":   ok && m.Cmp(want) == 0,                     // NoWrap: cB decrypts to the INTEGER a*b + beta'
			"no_wrap":       want.Cmp(d.n) < 0,                          // ... which is below N
			"mask_in_range": betaPrm.Sign() >= 0 && betaPrm.Cmp(q5) < 0, // beta' in [0, q^5)
			"beta_ok":       beta.Cmp(negMask) == 0,                     // beta = -beta' mod q, in [0, q)
		}
		toyMask := int(new(big.Int).Mod(betaPrm, big.NewInt(3125)).Int64())
		ev(map[string]any{"ev": "BobMid", "ret": "ok", "mask": toyMask, "r": 1 + (sc.Idx/2)%2, "obs": o})
		for k, v := range o {
			if !v.(bool) {
				res.Drift = append(res.Drift, "BobMid observation "+k+" is false")
			}
		}
	}
	sentCB := cB
	if sc.Site == "cB" {
		var other, foreign *big.Int
		switch sc.Kind {
		case "other":
			b2 := c13ClassValue("rand", rng, q)
			_, o2, _, _, _, e2, pn2 := bobMid(b2, cA)
			if pn2 != "" || e2 != nil || o2 == nil {
				res.Inconcl = fmt.Sprintf("second BobMid failed: %v %s", e2, pn2)
				return
			}
			other = o2
		case "foreign":
			third := keys[(sc.IA+1)%5]
			pan := c13Call(func() {
				foreign, err = third.PaillierSK.PublicKey.Encrypt(lib, new(big.Int).Mod(want, third.PaillierSK.N))
			})
			if pan != "" || err != nil || foreign == nil {
				res.Inconcl = fmt.Sprintf("encryption under a third key failed: %v %s", err, pan)
				return
			}
		}
		sentCB = c13Alter(sc.Kind, cB, d, q, rng, other, foreign)
		if sentCB == nil || sentCB.Cmp(cB) == 0 {
			res.Inconcl = "alteration " + sc.Kind + " did not change cB"
			return
		}
		ev(map[string]any{"ev": "TamperCB", "kind": c13ModelKind[sc.Kind]})
	}

	// ---- Alice's end
	var alpha *big.Int
	var endErr error
	pan = c13Call(func() {
		if sc.WC {
			alpha, endErr = mta.AliceEndWC(sess, ec, pkA, piW, bPub, cA, sentCB, A.NTildei, A.H1i, A.H2i, skA)
		} else {
			alpha, endErr = mta.AliceEnd(sess, ec, pkA, piB, A.H1i, A.H2i, cA, sentCB, A.NTildei, skA)
		}
	})
	accepted := pan == "" && endErr == nil
	switch sc.Site {
	case "cB", "B":
		what := "an altered cB (alteration " + sc.Kind + ")"
		key := fmt.Sprintf("C13:%s:accepts-altered-cB:%s", fn("AliceEnd"), sc.Kind)
		if sc.Site == "B" {
			what = "a public point that is not b*G (" + sc.Kind + ", b class " + sc.BCls + ")"
			key = fmt.Sprintf("C13:AliceEndWC:accepts-wrong-point:%s", sc.Kind)
		}
		switch {
		case pan != "":
			k := c13ModelKind[sc.Kind]
			if sc.Site == "B" {
				k = sc.Kind
			}
			viol(fmt.Sprintf("C13:%s:panic:%s:%s", fn("AliceEnd"), map[string]string{"cB": "altered-cB", "B": "wrong-point"}[sc.Site], k),
				fmt.Sprintf("%s does not reject %s but panics: %s", fn("AliceEnd"), what, core.Short(pan, 160)))
			res.Outcome = "aborted"
		case accepted:
			viol(key, fmt.Sprintf("%s returned a share for %s", fn("AliceEnd"), what))
			res.Outcome = "shares"
		default:
			ev(map[string]any{"ev": "AliceEnd", "ret": "err", "obs": map[string]any{"rejected": true}})
			res.Outcome = "alice-rejected"
		}
		return
	}
	if !accepted || alpha == nil {
		viol(fmt.Sprintf("C13:%s:honest-exchange-rejected:a=%s,b=%s", fn("AliceEnd"), sc.ACls, sc.BCls),
			fmt.Sprintf("%s on an unaltered exchange with a=%s b=%s (classes %s,%s), parameter sets A=%d,B=%d failed: err=%v panic=%q",
				fn("AliceEnd"), a.Text(16), b.Text(16), sc.ACls, sc.BCls, sc.IA, sc.IB, endErr, pan))
		res.Outcome = "aborted"
		return
	}
	// the verdict: (alpha + beta - a*b) mod q == 0, on the real outputs
	s := new(big.Int).Add(alpha, beta)
	s.Sub(s, ab)
	s.Mod(s, q)
	sumOK := s.Sign() == 0
	o := map[string]any{
		"sum_ok":         sumOK,
		"alpha_plain_ok": alpha.Cmp(new(big.Int).Mod(want, q)) == 0, // alpha = (a*b + beta') mod q
		"alpha_in_range": alpha.Sign() >= 0 && alpha.Cmp(q) < 0,
	}
	ev(map[string]any{"ev": "AliceEnd", "ret": "ok", "obs": o})
	res.Outcome = "shares"
	res.Info["alpha"], res.Info["beta"] = core.Short(alpha.Text(16), 70), core.Short(beta.Text(16), 70)
	if !sumOK {
		viol(fmt.Sprintf("C13:%s:shares-do-not-add-up:a=%s,b=%s", fn("AliceEnd"), sc.ACls, sc.BCls),
			fmt.Sprintf("unaltered %s exchange, a=%s b=%s: alpha=%s beta=%s, (alpha+beta-a*b) mod q = %s != 0 (parameter sets A=%d,B=%d)",
				sc.variant(), a.Text(16), b.Text(16), alpha.Text(16), beta.Text(16), s.Text(16), sc.IA, sc.IB))
	} else {
		for k, v := range o {
			if !v.(bool) {
				res.Drift = append(res.Drift, "AliceEnd observation "+k+" is false")
			}
		}
	}
	return
}

// ------------------------------------------------------------------ TLC: design model and trace validation

type c13MC struct {
	Q     int
	WC    bool
	Masks string // TLA+ set expression
	Label string
}

const c13Invs = "TypeOK SharesAddUp HonestCompletes NoWrap TamperRejected CheckRejects"

func c13MCPlan(ctx *core.Ctx) []c13MC {
	// The mask arithmetic does not depend on the public point and vice versa: the plain variant carries the
	// exhaustive mask ranges, the check variant (whose initial states multiply by the points) the edge sets.
	all := "0..(Q5 - 1)"
	edge5 := "(0..11) \\cup (23..27) \\cup {124, 125, 126, 624, 625, 626, 1562} \\cup (3118..3124)"
	few5 := "{0, 1, 4, 5, 6, 25, 1562, 3120, 3124}"
	if !ctx.Thorough() {
		// two JVMs only: the exhaustive mask range at Q=3, and the check variant (which contains the plain logic:
		// an honest point behaves like no point) at Q=5 on edge masks
		return []c13MC{
			{3, false, all, "all 243 masks"},
			{5, true, few5, "9 masks: 0, 1, q-1, q, q+1, q^2, q^5/2, q^5-q, q^5-1"},
		}
	}
	wide5 := "(0..260) \\cup (3000..3124)"
	return []c13MC{
		{5, false, wide5, "386 masks: [0,260] and [3000,3124]"},
		{3, false, all, "all 243 masks"},
		{3, true, all, "all 243 masks"},
		{5, true, edge5, "31 masks around 0, q, q^2, q^3, q^4, q^5/2, q^5-1"},
	}
}

func c13TLCBool(b bool) string {
	if b {
		return "TRUE"
	}
	return "FALSE"
}

func c13RunMC(ms []c13MC, workers, parallel int) ([]tlc.Result, error) {
	out := make([]tlc.Result, len(ms))
	var wg sync.WaitGroup
	sem := make(chan struct{}, parallel)
	for i, m := range ms {
		wg.Add(1)
		go func(i int, m c13MC) {
			defer wg.Done()
			sem <- struct{}{}
			defer func() { <-sem }()
			wrap := fmt.Sprintf("---- MODULE MC_MtA ----\nEXTENDS MtA\nMasksVal == %s\n====\n", m.Masks)
			cfg := fmt.Sprintf("SPECIFICATION Spec\nCONSTANTS\n  Q = %d\n  WithCheck = %s\n  Masks <- MasksVal\nINVARIANTS %s\n", m.Q, c13TLCBool(m.WC), c13Invs)
			out[i] = tlc.Run(tlc.Options{Module: "MC_MtA", Cfg: cfg, Workers: workers, Heap: "3g", Timeout: 25 * time.Minute,
				Files: map[string]string{"MC_MtA.tla": wrap}})
		}(i, m)
	}
	wg.Wait()
	for i, r := range out {
		if r.Err != nil {
			return out, fmt.Errorf("MtA Q=%d wc=%v: %v", ms[i].Q, ms[i].WC, r.Err)
		}
		if !r.OK {
			return out, fmt.Errorf("MtA Q=%d wc=%v violates %s:\n%s", ms[i].Q, ms[i].WC, r.Violated, r.ErrorTrace(2500))
		}
	}
	return out, nil
}

type c13TraceVerdict struct {
	WC        bool
	Exchanges int
	Lines     int
	Accepted  bool
	FailLine  int
	FailText  string
	FailIdx   int // scenario idx of the exchange holding the failing line
	Res       tlc.Result
}

// c13ValidateTraces runs MtA_Trace.tla over the events of the given exchanges (one TLC run per variant).
func c13ValidateTraces(results []*c13Result) ([]c13TraceVerdict, error) {
	tmpBase := os.Getenv("VERIF_TMP")
	if tmpBase == "" {
		tmpBase = os.TempDir()
	}
	var out []c13TraceVerdict
	var mu sync.Mutex
	var wg sync.WaitGroup
	var firstErr error
	for _, wc := range []bool{false, true} {
		var lines []string
		var owner []int
		n := 0
		for _, r := range results {
			if r.Sc.WC != wc {
				continue
			}
			n++
			for _, e := range r.Events {
				bz, err := json.Marshal(e)
				if err != nil {
					return nil, err
				}
				lines = append(lines, string(bz))
				owner = append(owner, r.Sc.Idx)
			}
		}
		if n == 0 {
			continue
		}
		wg.Add(1)
		go func(wc bool, lines []string, owner []int, n int) {
			defer wg.Done()
			v := c13TraceVerdict{WC: wc, Exchanges: n, Lines: len(lines)}
			tf, err := os.CreateTemp(tmpBase, "verif-c13-trace-*.ndjson")
			if err == nil {
				_, err = tf.WriteString(strings.Join(lines, "\n") + "\n")
				tf.Close()
				defer os.Remove(tf.Name())
			}
			if err != nil {
				mu.Lock()
				firstErr = err
				mu.Unlock()
				return
			}
			abs, _ := filepath.Abs(tf.Name())
			wrap := "---- MODULE MC_MtA_Trace ----\nEXTENDS MtA_Trace\nMasksVal == 0..(Q5 - 1)\n====\n"
			cfg := fmt.Sprintf("SPECIFICATION TraceSpec\nCONSTANTS\n  Q = %d\n  WithCheck = %s\n  Masks <- MasksVal\nINVARIANTS TraceInv\nCONSTRAINT HighWater\nPOSTCONDITION TraceAccepted\nCHECK_DEADLOCK FALSE\n",
				c13ToyQ, c13TLCBool(wc))
			r := tlc.Run(tlc.Options{Module: "MC_MtA_Trace", Cfg: cfg, Env: map[string]string{"TRACE": abs}, Workers: 1, Heap: "2g",
				Timeout: 15 * time.Minute, Files: map[string]string{"MC_MtA_Trace.tla": wrap}})
			v.Res = r
			if r.Err != nil {
				mu.Lock()
				if firstErr == nil {
					firstErr = fmt.Errorf("trace validation (wc=%v): %v", wc, r.Err)
				}
				mu.Unlock()
				return
			}
			v.Accepted = r.OK && r.HW == len(lines)
			if !v.Accepted {
				line := r.HW + 1
				if r.Violated != "" && r.Violated != "TraceAccepted" {
					line = r.HW
				}
				if line >= 1 && line <= len(lines) {
					v.FailLine, v.FailText, v.FailIdx = line, lines[line-1], owner[line-1]
				}
			}
			mu.Lock()
			out = append(out, v)
			mu.Unlock()
		}(wc, lines, owner, n)
	}
	wg.Wait()
	if firstErr != nil {
		return out, firstErr
	}
	sort.Slice(out, func(i, j int) bool { return !out[i].WC && out[j].WC })
	return out, nil
}

// ------------------------------------------------------------------ the check

func c13Workers() int {
	n := runtime.NumCPU() - 4
	if n > 12 {
		n = 12
	}
	if n < 2 {
		n = 2
	}
	return n
}

func c13RunAll(scs []c13Scenario, keys []eckg.LocalPartySaveData, workers int) []*c13Result {
	out := make([]*c13Result, len(scs))
	var wg sync.WaitGroup
	ch := make(chan int)
	for w := 0; w < workers; w++ {
		wg.Add(1)
		go func() {
			defer wg.Done()
			for i := range ch {
				r := c13Run(scs[i], keys)
				out[i] = &r
			}
		}()
	}
	for i := range scs {
		ch <- i
	}
	close(ch)
	wg.Wait()
	return out
}

func C13(ctx *core.Ctx) error {
	keys, err := pump.LoadEcFixtures(5)
	if err != nil {
		return core.Inconcl("cannot load the vendored parameter sets: %v", err)
	}
	rng := rand.New(rand.NewSource(ctx.Seed))
	for i, k := range keys {
		if k.PaillierSK == nil || k.NTildei == nil || k.H1i == nil || k.H2i == nil {
			return core.Inconcl("parameter set %d is incomplete", i)
		}
		d, err := newC13Dec(k.PaillierSK.P, k.PaillierSK.Q)
		if err != nil || d.n.Cmp(k.PaillierSK.N) != 0 {
			return core.Inconcl("parameter set %d: P*Q != N or not prime (%v)", i, err)
		}
		if err := d.selfCheck(rng); err != nil {
			return core.Inconcl("independent Paillier decryption failed its self check on parameter set %d: %v", i, err)
		}
	}
	report := func(r *c13Result) {
		for _, v := range r.Viols {
			ctx.Report(v.Key, v.What, r.Sc)
		}
	}
	if ctx.Replay != "" {
		var sc c13Scenario
		if _, err := core.LoadReplay(ctx.Replay, &sc); err != nil {
			return core.Inconcl("cannot load replay: %v", err)
		}
		if sc.IA < 0 || sc.IA > 4 || sc.IB < 0 || sc.IB > 4 {
			return core.Inconcl("replay names an unknown parameter set")
		}
		r := c13Run(sc, keys)
		if r.Inconcl != "" {
			return core.Inconcl("replay %s: %s", sc.caseKey(), r.Inconcl)
		}
		fmt.Printf("replay %s: outcome %s, %d violation(s)\n", sc.caseKey(), r.Outcome, len(r.Viols))
		report(&r)
		return nil
	}

	cov := core.NewCov()
	// design model in the background
	mcPlan := c13MCPlan(ctx)
	var mcRes []tlc.Result
	var mcErr error
	var wg sync.WaitGroup
	wg.Add(1)
	go func() { defer wg.Done(); mcRes, mcErr = c13RunMC(mcPlan, ctx.Pick(4, 5), ctx.Pick(2, 3)) }()

	scs, skippedB0 := c13Plan(ctx)
	t0 := time.Now()
	results := c13RunAll(scs, keys, c13Workers())
	exWall := time.Since(t0).Seconds()

	outcomes := map[string]int{}
	bySite := map[string]int{}
	var clean []*c13Result
	drifts := 0
	for _, r := range results {
		if r.Inconcl != "" {
			wg.Wait()
			return core.Inconcl("exchange %s could not be built or observed: %s", r.Sc.caseKey(), r.Inconcl)
		}
		report(r)
		cov.Case(r.Sc.caseKey(), true)
		outcomes[r.Outcome]++
		bySite[r.Sc.variant()+"/"+r.Sc.Site]++
		switch {
		case len(r.Viols) > 0:
		case len(r.Drift) > 0:
			drifts++
			ctx.Note("drift: exchange %s: %s", r.Sc.caseKey(), strings.Join(r.Drift, "; "))
		default:
			clean = append(clean, r)
		}
	}
	for _, want := range []struct{ site, kind string }{{"none", "-"}, {"cA", "plus1"}, {"cB", "plus1"}, {"cA", "N"}, {"cB", "addq"}, {"B", "both-plus1"}, {"B", "alice-holds-plus1"}} {
		for _, r := range results {
			if r.Sc.Site == want.site && r.Sc.Kind == want.kind {
				cov.Sample(map[string]any{"scenario": r.Sc, "outcome": r.Outcome, "values": r.Info, "trace": r.Events}, 8)
				break
			}
		}
	}
	// binding: every exchange that the harness judged without finding (and without drift) must be explained by MtA_Trace
	verdicts, terr := c13ValidateTraces(clean)
	wg.Wait()
	if terr != nil {
		return core.Inconcl("trace validation machinery failed: %v", terr)
	}
	for _, v := range verdicts {
		if !v.Accepted {
			return core.Inconcl("MtA_Trace (wc=%v) does not explain line %d (exchange idx %d): %s [%s] - model and harness projection disagree although no observation failed",
				v.WC, v.FailLine, v.FailIdx, core.Short(v.FailText, 300), v.Res.Violated)
		}
		cov.AddTraces(v.Exchanges)
		cov.Add("trace_lines", v.Lines)
	}
	if mcErr != nil {
		return core.Inconcl("MtA design model: %v", mcErr)
	}
	var mcOut []map[string]any
	for i, r := range mcRes {
		cov.AddMC(r.Distinct, r.Generated)
		mcOut = append(mcOut, map[string]any{"Q": mcPlan[i].Q, "with_check": mcPlan[i].WC, "masks": mcPlan[i].Label,
			"distinct": r.Distinct, "generated": r.Generated, "depth": r.Depth, "wall_s": r.Wall})
	}
	cov.Set("mc_configs", mcOut)
	cov.Set("exchanges", len(results))
	cov.Set("exchanges_wall_s", exWall)
	cov.Set("outcomes", outcomes)
	cov.Set("exchanges_by_variant_and_site", bySite)
	cov.Set("drift_exchanges", drifts)
	cov.Set("wc_b0_honest_cases_not_applicable", skippedB0)
	cov.Set("alteration_kinds", c13CtKinds)
	cov.Set("wrong_point_kinds", c13PointKinds)
	cov.Set("exhaustive", false)
	return ctx.WriteEvidence("model_checking",
		"one case = one real MtA exchange at real size (variant plain/check, ordered pair of vendored parameter sets, class of a and of b in {0,1,q-1,random}, "+
			"site and kind of a single alteration of cA / cB or of a wrong public point); distinct = distinct (variant, pair, classes, site, kind) tuples; every one is non-trivial "+
			"(a full three-message exchange). Verdict from the real outputs: (alpha+beta-a*b) mod q = 0 in math/big for unaltered exchanges, error return of the receiver for altered ones. "+
			"states/transitions: TLC on spec/MtA.tla (ideal encryption and proofs, integer plaintext arithmetic, toy q in {3,5}) with invariants "+c13Invs+" and deadlock check; "+
			"traces: exchanges accepted by spec/MtA_Trace.tla (observations: independent CRT decryption of cA and cB, no wrap, beta = -beta' mod q, the congruence)",
		cov, []string{
			"the five vendored parameter sets of test/_ecdsa_fixtures (Paillier keys with their prime factors, ring-Pedersen parameters)",
			"independent Paillier decryption by CRT with the prime factors, self-checked against the encryption formula; independent secp256k1 arithmetic of harness/obs for b*G",
			"MtA.tla idealises encryption (perfectly homomorphic, no wrap because N >= q^2+q^5) and proofs (sound, complete, bound to their statement); TLC numbers are about that design, not the code",
			"check variant with b = 0 has no honest input (b*G is the identity, not representable as crypto.ECPoint): covered only as a wrong-point case",
			"panics are recovered in the calling goroutine (the MtA functions start no goroutines)",
		}, "java tlc2.TLC MC_MtA.tla / MC_MtA_Trace.tla")
}
