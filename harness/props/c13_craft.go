package props

// C13 - crafted transcripts.  spec/MtACraft.tla derives, from the verification equations of the three proofs embedded
// in the MtA exchange, the catalogue of transcripts that the network (after altering a ciphertext) or a cheating Bob
// (proving for a point that is not b*G) can put together by moving witness-dependent components and recomputing
// first-move commitments WITH THE CHALLENGE HELD FIXED.  This file concretises a row on a real-size transcript.
//
// The challenge is not obtained by re-hashing (the check must not depend on the layout of the hash): it is recovered
// from the transcript with Alice's Paillier trapdoor,
//     Alice's proof:  Dec(u) = alpha,               s1 = e*a + alpha            =>  e = (s1 - Dec(u)) / a
//     Bob's proof:    Dec(v) = a*alpha + gamma,     a*s1 + t1 = e*(a*x + y) + Dec(v)
// (exact divisions over the integers), and validated against the remaining equations evaluated with math/big here.
// Everything else is public arithmetic modulo N^2, NTilde and on the curve (harness/obs).

import (
	"encoding/json"
	"fmt"
	"math/big"
	"sort"
	"strings"

	"github.com/bnb-chain/tss-lib/v2/crypto"
	"github.com/bnb-chain/tss-lib/v2/crypto/mta"
	"github.com/bnb-chain/tss-lib/v2/tss"

	"verif/harness/obs"
)

// c13Row is one row of the catalogue printed by MtACraftMC.tla.
type c13Row struct {
	Site    string   `json:"site"`    // cA | cB | B
	Sys     string   `json:"sys"`     // alice | bob | bobwc
	Alt     string   `json:"alt"`     // gamma | rand | c1pow | free | point
	New     []string `json:"new"`     // slots computed from the new witness
	Abs     []string `json:"abs"`     // first-move commitments recomputed from their equation
	Changed []string `json:"changed"` // hashed values that differ from what the prover hashed
}

func (r *c13Row) norm() {
	if r.New == nil {
		r.New = []string{}
	}
	if r.Abs == nil {
		r.Abs = []string{}
	}
	if r.Changed == nil {
		r.Changed = []string{}
	}
	sort.Strings(r.New)
	sort.Strings(r.Abs)
	sort.Strings(r.Changed)
}

func (r *c13Row) key() string {
	n := strings.Join(r.New, "+")
	if n == "" {
		n = "-"
	}
	return fmt.Sprintf("%s/%s/%s/%s", r.Site, r.Sys, r.Alt, n)
}

func (r *c13Row) has(slot string) bool {
	for _, s := range r.New {
		if s == slot {
			return true
		}
	}
	return false
}

// craftEv is the `craft` field of a trace line.
func c13CraftEv(r *c13Row) map[string]any {
	if r == nil {
		return map[string]any{"alt": "none", "new": []string{}}
	}
	return map[string]any{"alt": r.Alt, "new": r.New}
}

func c13SetTLA(xs []string) string {
	q := make([]string, len(xs))
	for i, x := range xs {
		q[i] = `"` + x + `"`
	}
	return "{" + strings.Join(q, ", ") + "}"
}

func (r *c13Row) tla() string {
	return fmt.Sprintf(`[site |-> "%s", sys |-> "%s", alt |-> "%s", new |-> %s, abs |-> %s, changed |-> %s]`,
		r.Site, r.Sys, r.Alt, c13SetTLA(r.New), c13SetTLA(r.Abs), c13SetTLA(r.Changed))
}

func c13RowsTLA(rows []c13Row) string {
	if len(rows) == 0 {
		return "{}"
	}
	s := make([]string, len(rows))
	for i := range rows {
		s[i] = rows[i].tla()
	}
	return "{" + strings.Join(s, ",\n  ") + "}"
}

// c13ParseRows extracts the <<"ROW", "json">> lines of a TLC run.
func c13ParseRows(out string) ([]c13Row, error) {
	var rows []c13Row
	for _, line := range strings.Split(out, "\n") {
		const pfx = `<<"ROW", "`
		i := strings.Index(line, pfx)
		if i < 0 {
			continue
		}
		s := line[i+len(pfx):]
		j := strings.LastIndex(s, `">>`)
		if j < 0 {
			continue
		}
		s = strings.ReplaceAll(s[:j], `\"`, `"`)
		s = strings.ReplaceAll(s, `\\`, `\`)
		var r c13Row
		if err := json.Unmarshal([]byte(s), &r); err != nil {
			return nil, fmt.Errorf("cannot parse catalogue row %q: %v", s, err)
		}
		r.norm()
		rows = append(rows, r)
	}
	sort.Slice(rows, func(i, j int) bool { return rows[i].key() < rows[j].key() })
	for i := 1; i < len(rows); i++ {
		if rows[i].key() == rows[i-1].key() {
			return nil, fmt.Errorf("catalogue row %s printed twice with different contents", rows[i].key())
		}
	}
	return rows, nil
}

// ------------------------------------------------------------------ arithmetic

// c13Ped: ring-Pedersen parameters of a verifier.
type c13Ped struct{ NT, H1, H2 *big.Int }

func c13MulMod(m *big.Int, xs ...*big.Int) *big.Int {
	r := big.NewInt(1)
	for _, x := range xs {
		r.Mul(r, x)
		r.Mod(r, m)
	}
	return r
}

// c13PowMod: x^e mod m for any integer e (nil if e < 0 and x is not a unit).
func c13PowMod(x, e, m *big.Int) *big.Int {
	if e.Sign() >= 0 {
		return new(big.Int).Exp(x, e, m)
	}
	inv := new(big.Int).ModInverse(new(big.Int).Mod(x, m), m)
	if inv == nil {
		return nil
	}
	return new(big.Int).Exp(inv, new(big.Int).Neg(e), m)
}

func c13SameSet(a, b []string) bool {
	if len(a) != len(b) {
		return false
	}
	x := append([]string{}, a...)
	y := append([]string{}, b...)
	sort.Strings(x)
	sort.Strings(y)
	for i := range x {
		if x[i] != y[i] {
			return false
		}
	}
	return true
}

// c13Alteration: an altered ciphertext together with what the altering party knows about it.
type c13Alteration struct {
	C   *big.Int // the altered value
	Cls string   // gamma | rand | c1pow | free | nonunit : the class of MtACraft.tla the real alteration belongs to
	D   *big.Int // gamma: C = c * Gamma^D ; c1pow: C = cB * cA^D
	X   *big.Int // rand: C = c * X^N
}

// ------------------------------------------------------------------ Alice's range proof

func c13CopyA(p *mta.RangeProofAlice) *mta.RangeProofAlice {
	c := func(x *big.Int) *big.Int { return new(big.Int).Set(x) }
	return &mta.RangeProofAlice{Z: c(p.Z), U: c(p.U), W: c(p.W), S: c(p.S), S1: c(p.S1), S2: c(p.S2)}
}

// c13ASim: what the two first-move commitments have to be for (c, responses, z) under the challenge e
// (range_proof.go checks 4 and 5):  u = Gamma^s1 s^N c^-e mod N^2,  w = h1^s1 h2^s2 z^-e mod NTilde.
func c13ASim(d *c13Dec, ped c13Ped, c, e *big.Int, p *mta.RangeProofAlice) (u, w *big.Int, ok bool) {
	gamma := new(big.Int).Add(d.n, c13One)
	me := new(big.Int).Neg(e)
	ce := c13PowMod(c, me, d.n2)
	ze := c13PowMod(p.Z, me, ped.NT)
	if ce == nil || ze == nil {
		return nil, nil, false
	}
	u = c13MulMod(d.n2, new(big.Int).Exp(gamma, p.S1, d.n2), new(big.Int).Exp(p.S, d.n, d.n2), ce)
	w = c13MulMod(ped.NT, new(big.Int).Exp(ped.H1, p.S1, ped.NT), new(big.Int).Exp(ped.H2, p.S2, ped.NT), ze)
	return u, w, true
}

// c13ChallengeA recovers the challenge of a genuine range proof for c = Enc(a) and validates it.
func c13ChallengeA(d *c13Dec, ped c13Ped, c, a, q *big.Int, p *mta.RangeProofAlice) (*big.Int, string) {
	if a.Sign() == 0 {
		return nil, "a = 0: the response s1 does not depend on the challenge"
	}
	alpha, ok := d.dec(p.U)
	if !ok {
		return nil, "the commitment u of the proof does not decrypt"
	}
	num := new(big.Int).Sub(p.S1, alpha)
	e, rem := new(big.Int).QuoRem(num, a, new(big.Int))
	if rem.Sign() != 0 || e.Sign() < 0 || e.Cmp(q) >= 0 {
		return nil, "s1 - Dec(u) is not a multiple of a in [0, q*a): the transcript does not have the shape e*a + alpha"
	}
	u, w, ok := c13ASim(d, ped, c, e, p)
	if !ok || u.Cmp(p.U) != 0 || w.Cmp(p.W) != 0 {
		return nil, "the recovered challenge does not satisfy the verification equations of the genuine proof"
	}
	return e, ""
}

type c13Crafted struct {
	Absorbed []string // commitments that had to be recomputed
	Changed  []string // hashed values that differ from what the prover hashed
}

// c13CraftAlice builds the transcript of a catalogue row (site cA) for the altered ciphertext alt.C.
// skip != "": the row cannot be built on this transcript (nothing is concluded from it).
func c13CraftAlice(row *c13Row, d *c13Dec, ped c13Ped, c, a, q *big.Int, alt c13Alteration, p *mta.RangeProofAlice) (out *mta.RangeProofAlice, info c13Crafted, skip string) {
	e, why := c13ChallengeA(d, ped, c, a, q, p)
	if e == nil {
		return nil, info, why
	}
	out = c13CopyA(p)
	for _, slot := range row.New {
		switch {
		case slot == "S1" && alt.D != nil: // s1 = e*(a + d) + alpha
			out.S1.Add(out.S1, new(big.Int).Mul(e, alt.D))
		case slot == "Z" && alt.D != nil: // z = h1^(a+d) h2^rho
			out.Z = c13MulMod(ped.NT, out.Z, new(big.Int).Exp(ped.H1, alt.D, ped.NT))
		case slot == "S" && alt.X != nil: // s = (r*x)^e beta
			out.S = c13MulMod(d.n, out.S, new(big.Int).Exp(alt.X, e, d.n))
		default:
			return nil, info, fmt.Sprintf("slot %s cannot be moved for an alteration of class %s", slot, alt.Cls)
		}
	}
	u, w, ok := c13ASim(d, ped, alt.C, e, out)
	if !ok {
		return nil, info, "the altered ciphertext (or z) is not invertible"
	}
	out.U, out.W = u, w
	// self check: the crafted transcript satisfies both equations for the altered ciphertext under the old challenge
	u2, w2, _ := c13ASim(d, ped, alt.C, e, out)
	if u2.Cmp(out.U) != 0 || w2.Cmp(out.W) != 0 {
		return nil, info, "internal: crafted transcript does not satisfy its equations"
	}
	q3 := new(big.Int).Exp(q, big.NewInt(3), nil)
	if out.S1.Cmp(q3) > 0 || out.S1.Cmp(q) < 0 {
		return nil, info, "the moved response leaves [q, q^3]"
	}
	info.Changed = []string{"c"}
	for _, x := range []struct {
		n    string
		a, b *big.Int
	}{{"U", p.U, out.U}, {"W", p.W, out.W}} {
		if x.a.Cmp(x.b) != 0 {
			info.Absorbed = append(info.Absorbed, x.n)
			info.Changed = append(info.Changed, x.n)
		}
	}
	if p.Z.Cmp(out.Z) != 0 {
		info.Changed = append(info.Changed, "Z")
	}
	return out, info, ""
}

// ------------------------------------------------------------------ Bob's proof (without / with check)

func c13CopyB(p *mta.ProofBob) *mta.ProofBob {
	c := func(x *big.Int) *big.Int { return new(big.Int).Set(x) }
	return &mta.ProofBob{Z: c(p.Z), ZPrm: c(p.ZPrm), T: c(p.T), V: c(p.V), W: c(p.W), S: c(p.S), S1: c(p.S1), S2: c(p.S2), T1: c(p.T1), T2: c(p.T2)}
}

type c13BSimOut struct {
	ZPrm, V, W *big.Int
	U          obs.Pt
}

// c13BSim: what the first-move commitments have to be (proofs.go checks 4-7):
//
//	z' = h1^s1 h2^s2 z^-e,  w = h1^t1 h2^t2 t^-e  (mod NTilde),  v = c1^s1 s^N Gamma^t1 c2^-e (mod N^2),  U = s1*G - e*X.
func c13BSim(d *c13Dec, ped c13Ped, c1, c2, e, q *big.Int, p *mta.ProofBob, X *obs.Pt) (o c13BSimOut, ok bool) {
	gamma := new(big.Int).Add(d.n, c13One)
	me := new(big.Int).Neg(e)
	ze := c13PowMod(p.Z, me, ped.NT)
	te := c13PowMod(p.T, me, ped.NT)
	c2e := c13PowMod(c2, me, d.n2)
	if ze == nil || te == nil || c2e == nil {
		return o, false
	}
	o.ZPrm = c13MulMod(ped.NT, new(big.Int).Exp(ped.H1, p.S1, ped.NT), new(big.Int).Exp(ped.H2, p.S2, ped.NT), ze)
	o.W = c13MulMod(ped.NT, new(big.Int).Exp(ped.H1, p.T1, ped.NT), new(big.Int).Exp(ped.H2, p.T2, ped.NT), te)
	o.V = c13MulMod(d.n2, new(big.Int).Exp(new(big.Int).Mod(c1, d.n2), p.S1, d.n2), new(big.Int).Exp(p.S, d.n, d.n2), new(big.Int).Exp(gamma, p.T1, d.n2), c2e)
	if X != nil {
		s1 := new(big.Int).Mod(p.S1, q)
		o.U = obs.Secp.Add(obs.BaseMul(obs.Secp, s1), obs.Secp.Neg(obs.Mul(obs.Secp, e, *X)))
	}
	return o, true
}

func c13PtOf(p *crypto.ECPoint) obs.Pt {
	if p == nil {
		return obs.Pt{Inf: true}
	}
	return obs.Pt{X: new(big.Int).Set(p.X()), Y: new(big.Int).Set(p.Y())}
}

// c13ChallengeB recovers the challenge of a transcript that the prover made with the witness (x, y): equations 5 and 6
// must hold for it under the recovered value; eq4 / eq7 report whether the point equation (for X, U) and the
// ciphertext equation (for c1, c2) hold as well - a genuine transcript satisfies both, the run of a cheating prover
// for a point that is not x*G or a ciphertext that is not c1^x Gamma^y r^N misses exactly one.
func c13ChallengeB(d *c13Dec, ped c13Ped, c1, c2, a, x, y, q *big.Int, p *mta.ProofBob, X *obs.Pt, U *obs.Pt) (e *big.Int, eq4, eq7 bool, why string) {
	dv, ok := d.dec(p.V)
	if !ok {
		return nil, false, false, "the commitment v of the proof does not decrypt"
	}
	num := new(big.Int).Mul(a, p.S1)
	num.Add(num, p.T1)
	num.Sub(num, dv)
	den := new(big.Int).Mul(a, x)
	den.Add(den, y)
	if den.Sign() == 0 {
		return nil, false, false, "a*x + y = 0: the responses do not depend on the challenge"
	}
	e, rem := new(big.Int).QuoRem(num, den, new(big.Int))
	if rem.Sign() != 0 || e.Sign() < 0 || e.Cmp(q) >= 0 {
		return nil, false, false, "a*s1 + t1 - Dec(v) is not e*(a*x + y) with e in [0, q)"
	}
	o, ok := c13BSim(d, ped, c1, c2, e, q, p, X)
	if !ok || o.ZPrm.Cmp(p.ZPrm) != 0 || o.W.Cmp(p.W) != 0 {
		return nil, false, false, "the recovered challenge does not satisfy equations 5 and 6 of the prover's transcript"
	}
	eq4 = X == nil || (U != nil && o.U.Eq(*U))
	return e, eq4, o.V.Cmp(p.V) == 0, ""
}

// c13CraftBob builds the transcript of a catalogue row of site cB (the network altered cB -> alt.C; x, y: Bob's
// witness, used only to recover the challenge) or of site B (alt.C = cB unchanged; the prover was run by the cheating
// Bob for the point X with the multiplier x, p is that run).
// X, U nil for the proof without check.
func c13CraftBob(row *c13Row, d *c13Dec, ped c13Ped, c1, c2, a, x, y, q *big.Int, alt c13Alteration, p *mta.ProofBob, X, U *obs.Pt) (out *mta.ProofBob, outU *obs.Pt, info c13Crafted, skip string) {
	e, eq4, eq7, why := c13ChallengeB(d, ped, c1, c2, a, x, y, q, p, X, U)
	if e == nil {
		return nil, nil, info, why
	}
	if row.Site == "cB" && !(eq4 && eq7) {
		return nil, nil, info, "the genuine transcript does not satisfy equations 4 and 7 under the recovered challenge"
	}
	if row.Site == "B" && eq4 == eq7 {
		return nil, nil, info, "the cheating prover's run should miss exactly one of the equations 4 (point) and 7 (ciphertext)"
	}
	out = c13CopyB(p)
	if row.Site == "cB" {
		for _, slot := range row.New {
			switch {
			case slot == "S1" && alt.Cls == "c1pow": // s1 = e*(b + d) + alpha
				out.S1.Add(out.S1, new(big.Int).Mul(e, alt.D))
			case slot == "Z" && alt.Cls == "c1pow":
				out.Z = c13MulMod(ped.NT, out.Z, new(big.Int).Exp(ped.H1, alt.D, ped.NT))
			case slot == "T1" && alt.Cls == "gamma": // t1 = e*(beta' + d) + gamma
				out.T1.Add(out.T1, new(big.Int).Mul(e, alt.D))
			case slot == "T" && alt.Cls == "gamma":
				out.T = c13MulMod(ped.NT, out.T, new(big.Int).Exp(ped.H1, alt.D, ped.NT))
			case slot == "S" && alt.Cls == "rand":
				out.S = c13MulMod(d.n, out.S, new(big.Int).Exp(alt.X, e, d.n))
			default:
				return nil, nil, info, fmt.Sprintf("slot %s cannot be moved for an alteration of class %s", slot, alt.Cls)
			}
		}
	}
	o, ok := c13BSim(d, ped, c1, alt.C, e, q, out, X)
	if !ok {
		return nil, nil, info, "the altered ciphertext (or z, t) is not invertible"
	}
	out.ZPrm, out.V, out.W = o.ZPrm, o.V, o.W
	if X != nil {
		if o.U.Inf {
			return nil, nil, info, "the recomputed point U is the identity"
		}
		outU = &o.U
	}
	q3 := new(big.Int).Exp(q, big.NewInt(3), nil)
	q7 := new(big.Int).Exp(q, big.NewInt(7), nil)
	if out.S1.Cmp(q3) > 0 || out.S1.Cmp(q) < 0 || out.T1.Cmp(q7) > 0 || out.T1.Cmp(q) < 0 {
		return nil, nil, info, "a moved response leaves its range"
	}
	if alt.C.Cmp(c2) != 0 {
		info.Changed = append(info.Changed, "c2")
	}
	for _, z := range []struct {
		n      string
		a, b   *big.Int
		commit bool
	}{{"Z", p.Z, out.Z, false}, {"ZPrm", p.ZPrm, out.ZPrm, true}, {"T", p.T, out.T, false}, {"V", p.V, out.V, true}, {"W", p.W, out.W, true}} {
		if z.a.Cmp(z.b) != 0 {
			info.Changed = append(info.Changed, z.n)
			if z.commit {
				info.Absorbed = append(info.Absorbed, z.n)
			}
		}
	}
	if X != nil && !outU.Eq(*U) {
		info.Changed = append(info.Changed, "U")
		info.Absorbed = append(info.Absorbed, "U")
	}
	return out, outU, info, ""
}

func c13ECPointOf(p *obs.Pt) (*crypto.ECPoint, error) {
	if p == nil || p.Inf {
		return nil, fmt.Errorf("identity")
	}
	return crypto.NewECPoint(tss.S256(), p.X, p.Y)
}

// c13RootN: the r in (0, N) with r^N = c mod N^2 for an N-th residue c (the randomiser of Enc(0; r)), from the factors.
func (d *c13Dec) rootN(c *big.Int) *big.Int {
	phi := new(big.Int).Mul(new(big.Int).Sub(d.p, c13One), new(big.Int).Sub(d.q, c13One))
	inv := new(big.Int).ModInverse(d.n, phi)
	if inv == nil {
		return nil
	}
	return new(big.Int).Exp(new(big.Int).Mod(c, d.n), inv, d.n)
}
