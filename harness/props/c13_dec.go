package props

// C13 - independent Paillier arithmetic of the harness (nothing of crypto/paillier is used).

import (
	"fmt"
	"math/big"
	"math/rand"
)

// ------------------------------------------------------------------ independent Paillier decryption (CRT)

// c13Dec decrypts with the prime factors: m_p = L_p(c^(p-1) mod p^2) * h_p mod p, same for q, then CRT.
// Nothing of crypto/paillier is used (the library decrypts with lambda over N^2).
type c13Dec struct {
	p, q, n, n2, p2, q2, hp, hq, pInvQ *big.Int
}

var c13One = big.NewInt(1)

func c13L(x, p *big.Int) *big.Int {
	return new(big.Int).Div(new(big.Int).Sub(x, c13One), p)
}

func newC13Dec(p, q *big.Int) (*c13Dec, error) {
	if p == nil || q == nil || p.Cmp(q) == 0 || !p.ProbablyPrime(8) || !q.ProbablyPrime(8) {
		return nil, fmt.Errorf("fixture does not carry two distinct primes")
	}
	d := &c13Dec{p: p, q: q}
	d.n = new(big.Int).Mul(p, q)
	d.n2 = new(big.Int).Mul(d.n, d.n)
	d.p2 = new(big.Int).Mul(p, p)
	d.q2 = new(big.Int).Mul(q, q)
	g := new(big.Int).Add(d.n, c13One)
	pm1 := new(big.Int).Sub(p, c13One)
	qm1 := new(big.Int).Sub(q, c13One)
	d.hp = new(big.Int).ModInverse(c13L(new(big.Int).Exp(g, pm1, d.p2), p), p)
	d.hq = new(big.Int).ModInverse(c13L(new(big.Int).Exp(g, qm1, d.q2), q), q)
	d.pInvQ = new(big.Int).ModInverse(p, q)
	if d.hp == nil || d.hq == nil || d.pInvQ == nil {
		return nil, fmt.Errorf("CRT constants do not exist")
	}
	return d, nil
}

// wellFormed: 0 < c < N^2 and c is a unit modulo N^2.
func (d *c13Dec) wellFormed(c *big.Int) bool {
	return c != nil && c.Sign() > 0 && c.Cmp(d.n2) < 0 && new(big.Int).GCD(nil, nil, c, d.n).Cmp(c13One) == 0
}

func (d *c13Dec) dec(c *big.Int) (*big.Int, bool) {
	if !d.wellFormed(c) {
		return nil, false
	}
	pm1 := new(big.Int).Sub(d.p, c13One)
	qm1 := new(big.Int).Sub(d.q, c13One)
	mp := c13L(new(big.Int).Exp(c, pm1, d.p2), d.p)
	mp.Mul(mp, d.hp).Mod(mp, d.p)
	mq := c13L(new(big.Int).Exp(c, qm1, d.q2), d.q)
	mq.Mul(mq, d.hq).Mod(mq, d.q)
	// m = mp + p * ((mq - mp) / p mod q)
	t := new(big.Int).Sub(mq, mp)
	t.Mul(t, d.pInvQ).Mod(t, d.q)
	return t.Mul(t, d.p).Add(t, mp), true
}

// enc builds (1 + m*N) * r^N mod N^2 by its own formula (self check and crafted alterations).
func (d *c13Dec) enc(m, r *big.Int) *big.Int {
	c := new(big.Int).Mul(m, d.n)
	c.Add(c, c13One)
	c.Mul(c, new(big.Int).Exp(r, d.n, d.n2))
	return c.Mod(c, d.n2)
}

func (d *c13Dec) selfCheck(rng *rand.Rand) error {
	nm1 := new(big.Int).Sub(d.n, c13One)
	for _, m := range []*big.Int{big.NewInt(0), big.NewInt(1), nm1, new(big.Int).Rand(rng, d.n)} {
		r := new(big.Int).Rand(rng, d.n)
		if new(big.Int).GCD(nil, nil, r, d.n).Cmp(c13One) != 0 {
			continue
		}
		got, ok := d.dec(d.enc(m, r))
		if !ok || got.Cmp(m) != 0 {
			return fmt.Errorf("CRT decryption does not invert the encryption formula")
		}
	}
	if _, ok := d.dec(d.n); ok {
		return fmt.Errorf("CRT decryption accepted a non-unit")
	}
	return nil
}

