package props

// C13 - one real exchange (crypto/mta at real size), its judgement and its trace lines.

import (
	"fmt"
	"math/big"
	"math/rand"
	"strings"

	"github.com/bnb-chain/tss-lib/v2/crypto"
	"github.com/bnb-chain/tss-lib/v2/crypto/mta"
	eckg "github.com/bnb-chain/tss-lib/v2/ecdsa/keygen"
	"github.com/bnb-chain/tss-lib/v2/tss"

	"verif/harness/core"
	"verif/harness/obs"
	"verif/harness/pump"
)

type c13Viol struct {
	Key, What string
}

type c13Result struct {
	Sc      c13Scenario
	Events  []map[string]any // ndjson lines (Reset first)
	Viols   []c13Viol
	Drift   []string // an observation that is false although the property is not contradicted
	Outcome string   // shares | bob-rejected | alice-rejected | aborted | not-built
	Inconcl string   // the harness could not build / observe the case
	Skip    string   // the crafted transcript could not be built on this exchange (nothing concluded)
	Calls   int      // calls of the five library functions
	Info    map[string]any
}

// c13Call runs f and converts a panic in the calling goroutine into a string.
func c13Call(f func()) (panicked string) {
	defer func() {
		if r := recover(); r != nil {
			panicked = fmt.Sprint(r)
		}
	}()
	f()
	return ""
}

func c13ClassValue(cls string, rng *rand.Rand, q *big.Int) *big.Int {
	switch cls {
	case "0":
		return big.NewInt(0)
	case "1":
		return big.NewInt(1)
	case "q-1":
		return new(big.Int).Sub(q, c13One)
	}
	for {
		v := new(big.Int).Rand(rng, q)
		if v.Cmp(big.NewInt(1)) > 0 && v.Cmp(new(big.Int).Sub(q, c13One)) < 0 {
			return v
		}
	}
}

const c13ToyQ = 5

func c13Toy(cls string, v *big.Int) int {
	switch cls {
	case "0":
		return 0
	case "1":
		return 1
	case "q-1":
		return c13ToyQ - 1
	}
	return 2 + int(v.Bit(0))
}

func c13ECPoint(p obs.Pt) (*crypto.ECPoint, error) {
	if p.Inf {
		return nil, fmt.Errorf("identity")
	}
	return crypto.NewECPoint(tss.S256(), p.X, p.Y)
}

// c13Alter returns the altered ciphertext for kind together with what the altering party knows about it; other is the
// corresponding ciphertext of another exchange, foreign one made under a third party's key, c1 Alice's ciphertext
// (kind mulca: cB * cA).
func c13Alter(kind string, c *big.Int, d *c13Dec, q *big.Int, rng *rand.Rand, other, foreign, c1 *big.Int) c13Alteration {
	unit := func() *big.Int {
		for {
			x := new(big.Int).Rand(rng, d.n)
			if x.Sign() > 0 && new(big.Int).GCD(nil, nil, x, d.n).Cmp(c13One) == 0 {
				return x
			}
		}
	}
	mulmod := func(x, y *big.Int) *big.Int { z := new(big.Int).Mul(x, y); return z.Mod(z, d.n2) }
	free := func(v *big.Int) c13Alteration { return c13Alteration{C: v, Cls: "free"} }
	switch kind {
	case "plus1":
		return free(new(big.Int).Add(c, c13One))
	case "minus1":
		return free(new(big.Int).Sub(c, c13One))
	case "mulg": // plaintext + 1
		return c13Alteration{C: mulmod(c, d.enc(big.NewInt(1), big.NewInt(1))), Cls: "gamma", D: big.NewInt(1)}
	case "inv": // plaintext negated
		return free(new(big.Int).ModInverse(c, d.n2))
	case "random":
		return free(new(big.Int).Rand(rng, d.n2))
	case "plusN2": // same residue, outside [0, N^2)
		return free(new(big.Int).Add(c, d.n2))
	case "negint":
		return free(new(big.Int).Neg(c))
	case "rerand": // same plaintext, fresh randomiser
		x := unit()
		return c13Alteration{C: mulmod(c, d.enc(big.NewInt(0), x)), Cls: "rand", X: x}
	case "addq": // plaintext + q : the same residue modulo q
		return c13Alteration{C: mulmod(c, d.enc(q, big.NewInt(1))), Cls: "gamma", D: new(big.Int).Set(q)}
	case "mulca": // cB * cA : the multiplier b becomes b + 1
		if c1 == nil {
			return c13Alteration{}
		}
		return c13Alteration{C: mulmod(c, c1), Cls: "c1pow", D: big.NewInt(1)}
	case "other":
		return free(other)
	case "zero":
		return c13Alteration{C: big.NewInt(0), Cls: "nonunit"}
	case "N":
		return c13Alteration{C: new(big.Int).Set(d.n), Cls: "nonunit"}
	case "multP": // a multiple of a prime factor below N^2
		z := new(big.Int).Div(c, d.p)
		return c13Alteration{C: z.Mul(z, d.p), Cls: "nonunit"}
	case "foreign":
		return free(foreign)
	}
	return c13Alteration{}
}

type c13BobOut struct {
	beta, cB, betaPrm *big.Int
	piB               *mta.ProofBob
	piW               *mta.ProofBobWC
	err               error
	pan               string
}

func (o c13BobOut) ok() bool {
	return o.pan == "" && o.err == nil && o.beta != nil && o.cB != nil && o.betaPrm != nil && (o.piB != nil || o.piW != nil)
}

func c13Run(sc c13Scenario, keys []eckg.LocalPartySaveData) (res c13Result) {
	res.Sc = sc
	res.Info = map[string]any{}
	ec := tss.S256()
	q := ec.Params().N
	rng := rand.New(rand.NewSource(sc.Seed))
	lib := pump.NewDRBG(sc.Seed ^ 0x5eed13) // the library's randomness
	A, B := keys[sc.IA], keys[sc.IB]
	skA := A.PaillierSK
	pkA := &skA.PublicKey
	d, err := newC13Dec(skA.P, skA.Q)
	if err != nil || d.n.Cmp(pkA.N) != 0 {
		res.Inconcl = fmt.Sprintf("parameter set %d: cannot build the independent decryptor: %v", sc.IA, err)
		return
	}
	pedA := c13Ped{NT: A.NTildei, H1: A.H1i, H2: A.H2i} // Alice verifies Bob's proof with her parameters
	pedB := c13Ped{NT: B.NTildei, H1: B.H1i, H2: B.H2i} // Bob verifies Alice's range proof with his
	sess := []byte(fmt.Sprintf("c13-session-%d", sc.Seed))
	a := c13ClassValue(sc.ACls, rng, q)
	b := c13ClassValue(sc.BCls, rng, q)
	ab := new(big.Int).Mul(a, b)
	fnv := func(s string, wc bool) string {
		if wc {
			return s + "WC"
		}
		return s
	}
	fn := func(s string) string { return fnv(s, sc.WC) }
	viol := func(key, what string) { res.Viols = append(res.Viols, c13Viol{key, what}) }
	ev := func(m map[string]any) { res.Events = append(res.Events, m) }
	res.Info["a"], res.Info["b"] = core.Short(a.Text(16), 70), core.Short(b.Text(16), 70)
	row := sc.Craft
	craftSfx, craftTxt := "", ""
	if row != nil {
		craftSfx = ":crafted:" + strings.TrimPrefix(row.key(), row.Site+"/"+row.Sys+"/")
		craftTxt = fmt.Sprintf(" travelling with a crafted proof (catalogue row %s: moved %v, recomputed %v for the old challenge)", row.key(), row.New, row.Abs)
	}
	// checkRow: the concretised row must be the row TLC derived (binding self-check; a mismatch is machinery trouble)
	checkRow := func(info c13Crafted) bool {
		if !c13SameSet(info.Absorbed, row.Abs) || !c13SameSet(info.Changed, row.Changed) {
			res.Inconcl = fmt.Sprintf("catalogue row %s predicts recomputed=%v changed=%v, the real-size transcript gives recomputed=%v changed=%v",
				row.key(), row.Abs, row.Changed, info.Absorbed, info.Changed)
			return false
		}
		return true
	}

	// ---- toy projection for the trace (see MtA_Trace.tla)
	toyA, toyB := c13Toy(sc.ACls, a), c13Toy(sc.BCls, b)
	otherPoint := func(not int) int { // a representable toy point different from `not`
		for p := 1; p < c13ToyQ; p++ {
			if p != not%c13ToyQ {
				return p
			}
		}
		return 1
	}
	bpubToy, bobxToy := -1, -1
	// ---- the real points
	var bobX, bPub *crypto.ECPoint // what Bob proves for / what Alice holds in the (first) exchange
	var wrong *crypto.ECPoint      // site B: the point that is not b*G, and its logarithm
	var wrongK *big.Int
	if sc.WC {
		honest := obs.BaseMul(obs.Secp, b) // independent affine arithmetic
		mk := func(k *big.Int) (*big.Int, *crypto.ECPoint) {
			k = new(big.Int).Mod(k, q)
			if k.Sign() == 0 {
				k = big.NewInt(2)
			}
			if k.Cmp(b) == 0 {
				k = new(big.Int).Add(k, c13One)
			}
			p, e := c13ECPoint(obs.BaseMul(obs.Secp, k))
			if e != nil {
				return nil, nil
			}
			return k, p
		}
		if sc.Site == "B" {
			switch {
			case strings.HasSuffix(sc.Kind, "-plus1"):
				wrongK, wrong = mk(new(big.Int).Add(b, c13One))
			case strings.HasSuffix(sc.Kind, "-neg"):
				wrongK, wrong = mk(new(big.Int).Sub(q, b))
			case strings.HasSuffix(sc.Kind, "-rand"):
				wrongK, wrong = mk(new(big.Int).Rand(rng, q))
			}
			if wrong == nil {
				res.Inconcl = "could not build the wrong point"
				return
			}
		}
		hp, herr := c13ECPoint(honest)
		switch {
		case sc.Site == "B" && sc.Hist == "":
			bPub = wrong
			bpubToy = otherPoint(toyB)
			if strings.HasPrefix(sc.Kind, "both-") {
				bobX, bobxToy = wrong, bpubToy
			} else {
				if herr != nil {
					res.Inconcl = "b*G is not representable"
					return
				}
				bobX, bobxToy = hp, toyB
			}
		default: // honest points (site B with a history: the wrong point comes later)
			if herr != nil {
				res.Inconcl = "b*G is not representable"
				return
			}
			bobX, bPub = hp, hp
			bpubToy, bobxToy = toyB, toyB
		}
	}
	ev(map[string]any{"ev": "Reset", "id": sc.Idx, "wc": sc.WC, "a": toyA, "b": toyB, "bpub": bpubToy, "bobx": bobxToy})

	// ---- the library calls
	callBob := func(wc bool, pf *mta.RangeProofAlice, c *big.Int, X *crypto.ECPoint) (o c13BobOut) {
		res.Calls++
		o.pan = c13Call(func() {
			if wc {
				o.beta, o.cB, o.betaPrm, o.piW, o.err = mta.BobMidWC(sess, ec, pkA, pf, b, c, A.NTildei, A.H1i, A.H2i, B.NTildei, B.H1i, B.H2i, X, lib)
			} else {
				o.beta, o.cB, o.betaPrm, o.piB, o.err = mta.BobMid(sess, ec, pkA, pf, b, c, A.NTildei, A.H1i, A.H2i, B.NTildei, B.H1i, B.H2i, lib)
			}
		})
		return
	}
	var cA *big.Int
	var pfA *mta.RangeProofAlice
	callAlice := func(wc bool, pB *mta.ProofBob, pW *mta.ProofBobWC, X *crypto.ECPoint, cb *big.Int) (alpha *big.Int, e error, pan string) {
		res.Calls++
		pan = c13Call(func() {
			if wc {
				alpha, e = mta.AliceEndWC(sess, ec, pkA, pW, X, cA, cb, A.NTildei, A.H1i, A.H2i, skA)
			} else {
				alpha, e = mta.AliceEnd(sess, ec, pkA, pB, A.H1i, A.H2i, cA, cb, A.NTildei, skA)
			}
		})
		return
	}

	// ---- message 1
	res.Calls++
	pan := c13Call(func() { cA, pfA, err = mta.AliceInit(ec, pkA, a, B.NTildei, B.H1i, B.H2i, lib) })
	if pan != "" || err != nil || cA == nil || pfA == nil {
		viol(fmt.Sprintf("C13:AliceInit:honest-input-fails:a=%s", sc.ACls),
			fmt.Sprintf("AliceInit on a=%s (class %s) with parameter sets A=%d,B=%d did not produce a ciphertext and proof: err=%v panic=%q", a.Text(16), sc.ACls, sc.IA, sc.IB, err, pan))
		res.Outcome = "aborted"
		return
	}
	{
		m, ok := d.dec(cA)
		o := map[string]any{"ca_wellformed": ok, "ca_plain_ok": ok && m.Cmp(a) == 0}
		ev(map[string]any{"ev": "AliceInit", "ret": "ok", "r": 1 + sc.Idx%2, "obs": o})
		if !(ok && m.Cmp(a) == 0) {
			res.Drift = append(res.Drift, "cA does not decrypt (independently) to a")
		}
	}

	// ---- the genuine steps (used in every position a history puts them)
	q5 := new(big.Int).Exp(q, big.NewInt(5), nil)
	var bo c13BobOut   // Bob's genuine output
	var want *big.Int  // the integer a*b + beta'
	genuineBob := func(afterRejection bool) bool {
		bo = callBob(sc.WC, pfA, cA, bobX)
		if !bo.ok() {
			if sc.Site == "B" && strings.HasPrefix(sc.Kind, "both-") && bo.pan == "" && bo.err != nil {
				// Bob refuses to prove a false statement: no share reaches Alice; the model lets Bob go on, so this is drift
				res.Drift = append(res.Drift, "BobMidWC refused a point that is not b*G")
				res.Outcome = "bob-rejected"
				return false
			}
			if afterRejection {
				viol(fmt.Sprintf("C13:%s:honest-input-fails-after-rejected-altered-cA:%s", fn("BobMid"), sc.Kind),
					fmt.Sprintf("%s refused (err=%v panic=%q) the unaltered cA and its proof after the same process had refused an altered cA (alteration %q)%s: the verdict on the genuine message depends on the history",
						fn("BobMid"), bo.err, bo.pan, sc.Kind, craftTxt))
			} else {
				viol(fmt.Sprintf("C13:%s:honest-input-fails:a=%s,b=%s", fn("BobMid"), sc.ACls, sc.BCls),
					fmt.Sprintf("%s on an unaltered cA with a=%s b=%s (classes %s,%s), parameter sets A=%d,B=%d failed: err=%v panic=%q",
						fn("BobMid"), a.Text(16), b.Text(16), sc.ACls, sc.BCls, sc.IA, sc.IB, bo.err, bo.pan))
			}
			res.Outcome = "aborted"
			return false
		}
		want = new(big.Int).Add(ab, bo.betaPrm)
		m, ok := d.dec(bo.cB)
		negMask := new(big.Int).Neg(bo.betaPrm)
		negMask.Mod(negMask, q)
		o := map[string]any{
			"cb_wellformed": ok,
			"cb_plain_ok":   ok && m.Cmp(want) == 0,                           // NoWrap: cB decrypts to the INTEGER a*b + beta'
			"no_wrap":       want.Cmp(d.n) < 0,                                // ... which is below N
			"mask_in_range": bo.betaPrm.Sign() >= 0 && bo.betaPrm.Cmp(q5) < 0, // beta' in [0, q^5)
			"beta_ok":       bo.beta.Cmp(negMask) == 0,                        // beta = -beta' mod q, in [0, q)
		}
		toyMask := int(new(big.Int).Mod(bo.betaPrm, big.NewInt(3125)).Int64())
		ev(map[string]any{"ev": "BobMid", "ret": "ok", "mask": toyMask, "r": 1 + (sc.Idx/2)%2, "obs": o})
		for k, v := range o {
			if !v.(bool) {
				res.Drift = append(res.Drift, "BobMid observation "+k+" is false")
			}
		}
		return true
	}
	genuineAlice := func(afterRejection bool) bool {
		alpha, endErr, pan := callAlice(sc.WC, bo.piB, bo.piW, bPub, bo.cB)
		if pan != "" || endErr != nil || alpha == nil {
			if afterRejection {
				viol(fmt.Sprintf("C13:%s:honest-exchange-rejected-after-rejected-altered-cB:%s", fn("AliceEnd"), sc.Kind),
					fmt.Sprintf("%s refused (err=%v panic=%q) the unaltered cB and its proof after the same process had refused an altered cB (alteration %q)%s: the verdict on the genuine message depends on the history",
						fn("AliceEnd"), endErr, pan, sc.Kind, craftTxt))
			} else {
				viol(fmt.Sprintf("C13:%s:honest-exchange-rejected:a=%s,b=%s", fn("AliceEnd"), sc.ACls, sc.BCls),
					fmt.Sprintf("%s on an unaltered exchange with a=%s b=%s (classes %s,%s), parameter sets A=%d,B=%d failed: err=%v panic=%q",
						fn("AliceEnd"), a.Text(16), b.Text(16), sc.ACls, sc.BCls, sc.IA, sc.IB, endErr, pan))
			}
			res.Outcome = "aborted"
			return false
		}
		// the verdict: (alpha + beta - a*b) mod q == 0, on the real outputs
		s := new(big.Int).Add(alpha, bo.beta)
		s.Sub(s, ab)
		s.Mod(s, q)
		sumOK := s.Sign() == 0
		o := map[string]any{
			"sum_ok":         sumOK,
			"alpha_plain_ok": alpha.Cmp(new(big.Int).Mod(want, q)) == 0, // alpha = (a*b + beta') mod q
			"alpha_in_range": alpha.Sign() >= 0 && alpha.Cmp(q) < 0,
		}
		ev(map[string]any{"ev": "AliceEnd", "ret": "ok", "obs": o})
		res.Outcome = "shares"
		res.Info["alpha"], res.Info["beta"] = core.Short(alpha.Text(16), 70), core.Short(bo.beta.Text(16), 70)
		if !sumOK {
			viol(fmt.Sprintf("C13:%s:shares-do-not-add-up:a=%s,b=%s", fn("AliceEnd"), sc.ACls, sc.BCls),
				fmt.Sprintf("unaltered %s exchange, a=%s b=%s: alpha=%s beta=%s, (alpha+beta-a*b) mod q = %s != 0 (parameter sets A=%d,B=%d)",
					sc.variant(), a.Text(16), b.Text(16), alpha.Text(16), bo.beta.Text(16), s.Text(16), sc.IA, sc.IB))
			return false
		}
		for k, v := range o {
			if !v.(bool) {
				res.Drift = append(res.Drift, "AliceEnd observation "+k+" is false")
			}
		}
		return true
	}
	lateTxt := func(late bool, what string) (string, string) {
		if late {
			return ":after-accepted", " after the same process had accepted the genuine " + what
		}
		return "", ""
	}

	switch sc.Site {
	case "none":
		if genuineBob(false) {
			genuineAlice(false)
		}
		return

	// ------------------------------------------------------------ Alice's ciphertext altered in transit
	case "cA":
		var other, foreign *big.Int
		switch sc.Kind {
		case "other":
			a2 := c13ClassValue("rand", rng, q)
			pan := c13Call(func() { other, _, err = mta.AliceInit(ec, pkA, a2, B.NTildei, B.H1i, B.H2i, lib) })
			if pan != "" || err != nil || other == nil {
				res.Inconcl = fmt.Sprintf("second AliceInit failed: %v %s", err, pan)
				return
			}
		case "foreign":
			third := keys[(sc.IA+1)%5] // a set that is not Alice's
			pan := c13Call(func() { foreign, err = third.PaillierSK.PublicKey.Encrypt(lib, a) })
			if pan != "" || err != nil || foreign == nil {
				res.Inconcl = fmt.Sprintf("encryption under a third key failed: %v %s", err, pan)
				return
			}
		}
		alt := c13Alter(sc.Kind, cA, d, q, rng, other, foreign, nil)
		if alt.C == nil || alt.C.Cmp(cA) == 0 {
			res.Inconcl = "alteration " + sc.Kind + " did not change cA"
			return
		}
		pfAlt := pfA
		if row != nil {
			if row.Site != "cA" || row.Alt != alt.Cls && row.Alt != "free" || alt.Cls == "nonunit" {
				res.Inconcl = fmt.Sprintf("catalogue row %s does not apply to alteration %s", row.key(), sc.Kind)
				return
			}
			crafted, info, skip := c13CraftAlice(row, d, pedB, cA, a, q, alt, pfA)
			if skip != "" {
				res.Skip, res.Outcome = skip, "not-built"
				return
			}
			if !checkRow(info) {
				return
			}
			pfAlt = crafted
		}
		// present the altered message to BobMid / BobMidWC; true iff it was refused with an error
		present := func(wc bool, X *crypto.ECPoint, late bool) bool {
			o := callBob(wc, pfAlt, alt.C, X)
			sfx, txt := lateTxt(late, "cA with this proof")
			switch {
			case o.pan != "":
				viol(fmt.Sprintf("C13:%s:panic:altered-cA:%s%s%s", fnv("BobMid", wc), c13ModelKind[sc.Kind], craftSfx, sfx),
					fmt.Sprintf("%s does not reject an altered cA (alteration %q)%s%s but panics: %s", fnv("BobMid", wc), sc.Kind, craftTxt, txt, core.Short(o.pan, 160)))
				res.Outcome = "aborted"
				return false
			case o.err == nil:
				viol(fmt.Sprintf("C13:%s:accepts-altered-cA:%s%s%s", fnv("BobMid", wc), sc.Kind, craftSfx, sfx),
					fmt.Sprintf("%s returned no error and produced beta/cB for an altered cA (alteration %q)%s%s", fnv("BobMid", wc), sc.Kind, craftTxt, txt))
				res.Outcome = "shares"
				return false
			}
			return true
		}
		if sc.Hist != "after" {
			ev(map[string]any{"ev": "TamperCA", "kind": c13ModelKind[sc.Kind], "craft": c13CraftEv(row)})
			if !present(sc.WC, bobX, false) {
				return
			}
			ev(map[string]any{"ev": "BobMid", "ret": "err", "mask": 0, "r": 1, "obs": map[string]any{"rejected": true}})
			res.Outcome = "bob-rejected"
			if sc.Hist == "" {
				return
			}
			ev(map[string]any{"ev": "RetryA"})
		}
		if !genuineBob(sc.Hist == "sandwich") || !genuineAlice(false) {
			return
		}
		// the same process is handed the altered ciphertext (with the proof it has accepted, or the crafted one) again:
		// through the same function and through its sibling
		if !present(sc.WC, bobX, true) {
			return
		}
		ev(map[string]any{"ev": "LateA", "kind": c13ModelKind[sc.Kind], "craft": c13CraftEv(row), "ret": "err", "fn": fn("BobMid")})
		sibX := bobX
		if !sc.WC { // the sibling is BobMidWC: it needs a point
			if hp, e := c13ECPoint(obs.BaseMul(obs.Secp, b)); e == nil {
				sibX = hp
			} else {
				return // b = 0: no honest point for the sibling
			}
		}
		if !present(!sc.WC, sibX, true) {
			return
		}
		ev(map[string]any{"ev": "LateA", "kind": c13ModelKind[sc.Kind], "craft": c13CraftEv(row), "ret": "err", "fn": fnv("BobMid", !sc.WC)})
		return

	// ------------------------------------------------------------ Bob's response ciphertext altered in transit
	case "cB":
		if !genuineBob(false) {
			return
		}
		var other, foreign *big.Int
		switch sc.Kind {
		case "other":
			o2 := callBob(sc.WC, pfA, cA, bobX) // a second response to the same cA
			if !o2.ok() {
				res.Inconcl = fmt.Sprintf("second BobMid failed: %v %s", o2.err, o2.pan)
				return
			}
			other = o2.cB
		case "foreign":
			third := keys[(sc.IA+1)%5]
			pan := c13Call(func() {
				foreign, err = third.PaillierSK.PublicKey.Encrypt(lib, new(big.Int).Mod(want, third.PaillierSK.N))
			})
			if pan != "" || err != nil || foreign == nil {
				res.Inconcl = fmt.Sprintf("encryption under a third key failed: %v %s", err, pan)
				return
			}
		}
		alt := c13Alter(sc.Kind, bo.cB, d, q, rng, other, foreign, cA)
		if alt.C == nil || alt.C.Cmp(bo.cB) == 0 {
			res.Inconcl = "alteration " + sc.Kind + " did not change cB"
			return
		}
		pB, pW := bo.piB, bo.piW
		if row != nil {
			if row.Site != "cB" || row.Alt != alt.Cls && row.Alt != "free" || alt.Cls == "nonunit" || (row.Sys == "bobwc") != sc.WC {
				res.Inconcl = fmt.Sprintf("catalogue row %s does not apply to alteration %s of the %s variant", row.key(), sc.Kind, sc.variant())
				return
			}
			base := bo.piB
			var X, U *obs.Pt
			if sc.WC {
				base = bo.piW.ProofBob
				x, u := c13PtOf(bPub), c13PtOf(bo.piW.U)
				X, U = &x, &u
			}
			crafted, cu, info, skip := c13CraftBob(row, d, pedA, cA, bo.cB, a, b, bo.betaPrm, q, alt, base, X, U)
			if skip != "" {
				res.Skip, res.Outcome = skip, "not-built"
				return
			}
			if !checkRow(info) {
				return
			}
			if sc.WC {
				up, e := c13ECPointOf(cu)
				if e != nil {
					res.Skip, res.Outcome = "the recomputed point U is not representable", "not-built"
					return
				}
				pW = &mta.ProofBobWC{ProofBob: crafted, U: up}
			} else {
				pB = crafted
			}
		}
		present := func(late bool) bool {
			_, e, pan := callAlice(sc.WC, pB, pW, bPub, alt.C)
			sfx, txt := lateTxt(late, "cB with this proof")
			switch {
			case pan != "":
				viol(fmt.Sprintf("C13:%s:panic:altered-cB:%s%s%s", fn("AliceEnd"), c13ModelKind[sc.Kind], craftSfx, sfx),
					fmt.Sprintf("%s does not reject an altered cB (alteration %s)%s%s but panics: %s", fn("AliceEnd"), sc.Kind, craftTxt, txt, core.Short(pan, 160)))
				res.Outcome = "aborted"
				return false
			case e == nil:
				viol(fmt.Sprintf("C13:%s:accepts-altered-cB:%s%s%s", fn("AliceEnd"), sc.Kind, craftSfx, sfx),
					fmt.Sprintf("%s returned a share for an altered cB (alteration %s)%s%s", fn("AliceEnd"), sc.Kind, craftTxt, txt))
				res.Outcome = "shares"
				return false
			}
			return true
		}
		if sc.Hist != "after" {
			ev(map[string]any{"ev": "TamperCB", "kind": c13ModelKind[sc.Kind], "craft": c13CraftEv(row)})
			if !present(false) {
				return
			}
			ev(map[string]any{"ev": "AliceEnd", "ret": "err", "obs": map[string]any{"rejected": true}})
			res.Outcome = "alice-rejected"
			if sc.Hist == "" {
				return
			}
			ev(map[string]any{"ev": "RetryB"})
		}
		if !genuineAlice(sc.Hist == "sandwich") {
			return
		}
		if !present(true) {
			return
		}
		ev(map[string]any{"ev": "LateB", "kind": c13ModelKind[sc.Kind], "craft": c13CraftEv(row), "ret": "err"})
		return

	// ------------------------------------------------------------ check variant: the point is not b*G
	case "B":
		if !sc.WC {
			res.Inconcl = "a wrong public point needs the check variant"
			return
		}
		if !genuineBob(false) {
			return
		}
		late := sc.Hist == "after"
		if late && !genuineAlice(false) { // Alice accepts for b*G first
			return
		}
		// the message Alice is handed for the wrong point
		pW := bo.piW
		if row != nil {
			if row.Site != "B" {
				res.Inconcl = fmt.Sprintf("catalogue row %s is not a row of the point check", row.key())
				return
			}
			// the cheating Bob's prover run for the point Alice holds: with his multiplier b (no slot moved) or with the
			// logarithm of that point (slots Z, S1)
			x, ownRun := b, late
			if row.has("S1") || row.has("Z") {
				if !(row.has("S1") && row.has("Z")) {
					res.Inconcl = fmt.Sprintf("catalogue row %s needs a prover with two multipliers", row.key())
					return
				}
				x, ownRun = wrongK, true
			}
			base := bo.piW
			if ownRun {
				// Bob runs the prover again on the same cB: he knows beta' and the randomiser of its encryption
				cb := c13PowMod(cA, new(big.Int).Neg(b), d.n2)
				if cb == nil {
					res.Inconcl = "cA is not invertible"
					return
				}
				cBeta := c13MulMod(d.n2, bo.cB, cb)
				r := d.rootN(cBeta)
				if r == nil || d.enc(bo.betaPrm, r).Cmp(cBeta) != 0 {
					res.Skip, res.Outcome = "cB is not cA^b * Enc(beta'; r): the randomiser cannot be recovered", "not-built"
					return
				}
				var pe error
				res.Calls++
				pan := c13Call(func() {
					base, pe = mta.ProveBobWC(sess, ec, pkA, A.NTildei, A.H1i, A.H2i, cA, bo.cB, x, bo.betaPrm, r, wrong, lib)
				})
				if pan != "" || pe != nil || base == nil || base.ProofBob == nil || base.U == nil {
					res.Skip, res.Outcome = fmt.Sprintf("ProveBobWC refused the cheating prover's input: %v %s", pe, pan), "not-built"
					return
				}
			}
			X, U := c13PtOf(wrong), c13PtOf(base.U)
			crafted, cu, info, skip := c13CraftBob(row, d, pedA, cA, bo.cB, a, x, bo.betaPrm, q, c13Alteration{C: bo.cB, Cls: "point"}, base.ProofBob, &X, &U)
			if skip != "" {
				res.Skip, res.Outcome = skip, "not-built"
				return
			}
			if !checkRow(info) {
				return
			}
			up, e := c13ECPointOf(cu)
			if e != nil {
				res.Skip, res.Outcome = "the recomputed point U is not representable", "not-built"
				return
			}
			pW = &mta.ProofBobWC{ProofBob: crafted, U: up}
			if !late {
				ev(map[string]any{"ev": "BobCraft", "craft": c13CraftEv(row)})
			}
		}
		target := bPub
		if late {
			target = wrong
		}
		_, e, pan := callAlice(true, nil, pW, target, bo.cB)
		sfx, txt := lateTxt(late, "message for b*G")
		what := "a public point that is not b*G (" + sc.Kind + ", b class " + sc.BCls + ")" + craftTxt + txt
		switch {
		case pan != "":
			viol(fmt.Sprintf("C13:AliceEndWC:panic:wrong-point:%s%s%s", sc.Kind, craftSfx, sfx),
				fmt.Sprintf("AliceEndWC does not reject %s but panics: %s", what, core.Short(pan, 160)))
			res.Outcome = "aborted"
		case e == nil:
			viol(fmt.Sprintf("C13:AliceEndWC:accepts-wrong-point:%s%s%s", sc.Kind, craftSfx, sfx),
				fmt.Sprintf("AliceEndWC returned a share for %s", what))
			res.Outcome = "shares"
		case late:
			ev(map[string]any{"ev": "LateP", "bpub": otherPoint(toyB), "craft": c13CraftEv(row), "ret": "err"})
		default:
			ev(map[string]any{"ev": "AliceEnd", "ret": "err", "obs": map[string]any{"rejected": true}})
			res.Outcome = "alice-rejected"
		}
		return
	}
	res.Inconcl = "unknown site " + sc.Site
	return
}
