package props

// C14 - Paillier encryption is correct, additively homomorphic and domain-checked; generated keys are well formed.
//
// Design level : spec/Paillier.tla (the four exported functions written as the code computes them, a session state
//                machine, the property as invariants) model-checked exhaustively by TLC for N = 15, 35, 77;
//                spec/PaillierKeyGen.tla (GenerateKeyPair's loop over the values the safe prime generator can
//                deliver) for requested lengths of 12..30 bits.
// Binding (C)  : the library's own key structs are built around the toy factors and the REAL functions are run over
//                the whole toy domain; every call is logged and must be explained by spec/Paillier_Trace.tla (TLC
//                predicts every value; the existential \E unit x for Encrypt). TLC's decryption table of [0,N^2) is
//                compared with the harness's CRT decryption, which judges the real-size calls. Real keys returned by
//                GenerateKeyPair (<= 30 bits) are validated against PaillierKeyGen_Trace.tla. A corrupted copy of
//                each trace must be rejected at the corrupted line (self-test).
// Verdict      : only from real outputs: error / no error, the independent CRT decryption of returned ciphertexts,
//                the real Decrypt of them, math/big predicates on returned keys.

import (
	"fmt"
	"math/big"
	"sort"
	"sync"
	"time"

	"verif/harness/core"
	"verif/harness/pump"
	"verif/harness/tlc"
)

func init() { Registry["C14"] = C14 }

func c14Fixtures() ([]*c14Key, error) {
	keys, err := pump.LoadEcFixtures(5)
	if err != nil {
		return nil, err
	}
	var out []*c14Key
	for i, k := range keys {
		ck, err := c14KeyFromLibrary(k.PaillierSK, c14KeyRef{Kind: "fixture", Idx: i})
		if err != nil {
			return nil, fmt.Errorf("vendored set %d: %v", i, err)
		}
		out = append(out, ck)
	}
	return out, nil
}

func c14Replay(ctx *core.Ctx, fixtures []*c14Key) error {
	var sc c14Scenario
	if _, err := core.LoadReplay(ctx.Replay, &sc); err != nil {
		return core.Inconcl("cannot load replay: %v", err)
	}
	col := newC14Col(ctx)
	if sc.Op == "KeyGen" {
		for i := 0; i < 24 && col.violations() == 0; i++ {
			r := c14Generate(c14GenReq{Bits: sc.Bits, Conc: sc.Conc, Seed: sc.Seed + int64(i), Feasible: -1}, 2*time.Minute)
			if r.Outcome == "stuck" {
				return core.Inconcl("replay: GenerateKeyPair(%d) did not return:\n%s", sc.Bits, r.Detail)
			}
			c14JudgeGen(r, col)
		}
		fmt.Printf("replay KeyGen(%d bits): %d violation(s)\n", sc.Bits, col.violations())
		return nil
	}
	k, err := c14Resolve(sc.Key, fixtures)
	if err != nil {
		return core.Inconcl("replay: %v", err)
	}
	if sc.Op == "History" {
		if sc.Key2 == nil {
			return core.Inconcl("replay: a History scenario needs two keys")
		}
		k2, err := c14Resolve(*sc.Key2, fixtures)
		if err != nil {
			return core.Inconcl("replay: %v", err)
		}
		s1, err1 := c14Store(k)
		s2, err2 := c14Store(k2)
		if err1 != nil || err2 != nil {
			return core.Inconcl("replay: the keys cannot be serialised: %v %v", err1, err2)
		}
		r := c14RunHistory(sc.Hist, [2]*c14Stored{s1, s2}, sc.Seed, k.toy && k2.toy, col)
		if r.Err != "" {
			return core.Inconcl("replay: %s", r.Err)
		}
		fmt.Printf("replay History (%d operations, %d re-populations): %d violation(s)\n", r.Steps, r.Reloads, col.violations())
		return nil
	}
	if _, err := c14RunScenario(sc, k, col); err != nil {
		return core.Inconcl("replay: %v", err)
	}
	fmt.Printf("replay %s on key %s: %d violation(s)\n", sc.Op, sc.Key.Kind, col.violations())
	return nil
}

func C14(ctx *core.Ctx) error {
	fixtures, err := c14Fixtures()
	if err != nil {
		return core.Inconcl("cannot load the vendored keys: %v", err)
	}
	if ctx.Replay != "" {
		return c14Replay(ctx, fixtures)
	}
	for i, k := range fixtures {
		if err := k.d.selfCheck(c14Rng(ctx.Seed, int64(i))); err != nil {
			return core.Inconcl("independent CRT decryption failed its self check on vendored set %d: %v", i, err)
		}
	}
	cov := core.NewCov()
	col := newC14Col(ctx)
	phase := map[string]float64{}
	var phMu sync.Mutex
	timed := func(name string, t0 time.Time) { phMu.Lock(); phase[name] = time.Since(t0).Seconds(); phMu.Unlock() }
	var inconcl []string
	var incMu sync.Mutex
	fail := func(format string, a ...any) {
		incMu.Lock()
		inconcl = append(inconcl, fmt.Sprintf(format, a...))
		incMu.Unlock()
	}
	tlcTimeout := time.Duration(ctx.Pick(8, 25)) * time.Minute

	// ------------------------------------------------------------ plans
	toyPlans := []c14ToyPlan{{P: 3, Q: 5, PairsFull: true, MultLines: 1200, AddLines: 1200, Chains: 40, AnyPerPlain: 2}}
	mcPlans := []c14MC{{P: 3, Q: 5, AddMs: "0..(N - 1)", AddXs: "Units", Full: true, Label: "N=15: every added plaintext and randomiser, all pairs"}}
	// lengths the key generation MODEL covers (TLC evaluates primality itself up to 30 bit moduli), and the even lengths
	// offered to the model for the generation plan: it sorts them into the eight residue classes of (length/2) mod 8
	keyBits := []int{12, 14, 16, 18, 19, 20, 22, 24, 26, 28, 30}
	var planSizes []int
	for b := 18; b <= ctx.Pick(64, 80); b += 2 {
		planSizes = append(planSizes, b)
	}
	planSizes = append(planSizes, 126, 128, 130) // primes around the 64 bit word boundary of math/big (classes 7, 0, 1)
	perClass := ctx.Pick(72, 240) // keys per residue class: a defect that spoils a third of the keys of ONE class escapes with (2/3)^72 < 1e-12
	if ctx.Thorough() {
		toyPlans = []c14ToyPlan{
			{P: 3, Q: 5, PairsFull: true, MultLines: 6000, AddLines: 12000, Chains: 300, AnyPerPlain: 4},
			{P: 5, Q: 7, PairsFull: true, MultLines: 10000, AddLines: 10000, Chains: 300, AnyPerPlain: 3},
			{P: 7, Q: 11, PairsFull: false, MultLines: 10000, AddLines: 10000, Chains: 300, AnyPerPlain: 2},
		}
		mcPlans = append(mcPlans,
			c14MC{P: 5, Q: 7, AddMs: "0..(N - 1)", AddXs: "Units", Full: true, Label: "N=35: every added plaintext and randomiser, all pairs"},
			c14MC{P: 7, Q: 11, AddMs: "{0, 1, 2, N \\div 2, N - 1}", AddXs: "{1, SomeUnit, N - 1}", Full: false, Label: "N=77: 5 added plaintexts x 3 randomisers, every scalar; pair law along the sessions only"})
		keyBits = append(keyBits, 27)
	} else {
		toyPlans = append(toyPlans, c14ToyPlan{P: 5, Q: 7, PairsFull: false, MultLines: 600, AddLines: 600, Chains: 20, AnyPerPlain: 1})
	}

	// ------------------------------------------------------------ TLC on the designs (background)
	var wg sync.WaitGroup
	mcRes := make([]tlc.Result, len(mcPlans))
	decTabs := make([][]int64, len(mcPlans))
	for i, m := range mcPlans {
		wg.Add(1)
		go func(i int, m c14MC) {
			defer wg.Done()
			r, tab, err := c14RunMC(m, 2, tlcTimeout)
			if err != nil {
				fail("%v", err)
				return
			}
			mcRes[i], decTabs[i] = r, tab
		}(i, m)
	}
	var keyMC tlc.Result
	var feas map[int][2]int
	var classes []c14SizeClass
	keyMCDone := make(chan struct{})
	go func() {
		defer close(keyMCDone)
		t0 := time.Now()
		r, f, cl, err := c14RunKeyGenMC(keyBits, planSizes, 2, tlcTimeout)
		timed("tlc_keygen_model", t0)
		if err != nil {
			fail("%v", err)
			return
		}
		keyMC, feas, classes = r, f, cl
	}()
	// histories of key objects: the design (exhaustive over two toy keys), the defective variants (self-test of the
	// model), and the generator of the histories that are replayed on the real structs
	var histMC tlc.Result
	var histMCLabel string
	wg.Add(1)
	go func() {
		defer wg.Done()
		r, label, err := c14RunHistMC(ctx.Thorough(), 2, tlcTimeout)
		if err != nil {
			fail("%v", err)
			return
		}
		histMC, histMCLabel = r, label
	}()
	histVariants := []string{[]string{"mucache", "n2cache"}[int(ctx.Seed&1)]}
	if ctx.Thorough() {
		histVariants = []string{"mucache", "n2cache"}
	}
	histVariantViolated := map[string]string{}
	for _, vn := range histVariants {
		wg.Add(1)
		go func(vn string) {
			defer wg.Done()
			r, err := c14RunHistVariant(vn, tlcTimeout)
			if err != nil {
				fail("%v", err)
				return
			}
			phMu.Lock()
			histVariantViolated[vn] = r.Violated
			phMu.Unlock()
		}(vn)
	}
	type histGenRes struct {
		directed, walks [][]c14HistOp
		r               tlc.Result
		err             error
	}
	histGenCh := make(chan histGenRes, 1)
	histOps := 12
	go func() {
		t0 := time.Now()
		d, w, r, err := c14HistGenerate(ctx.Pick(40, 400), histOps, ctx.Seed, tlcTimeout)
		timed("tlc_history_generator", t0)
		histGenCh <- histGenRes{d, w, r, err}
	}()

	toyRes := make([]c14ToyResult, len(toyPlans))
	// ------------------------------------------------------------ binding: TLC must explain every logged real call
	// (validations are launched as soon as their lines are complete)
	type tv struct {
		v   c14TraceVerdict
		err error
	}
	var verdicts []tv
	var vMu sync.Mutex
	var vwg sync.WaitGroup
	runV := func(f func() (c14TraceVerdict, error)) {
		vwg.Add(1)
		go func() {
			defer vwg.Done()
			v, err := f()
			vMu.Lock()
			verdicts = append(verdicts, tv{v, err})
			vMu.Unlock()
		}()
	}
	selfTests := 0
	callFields := map[string]string{"Encrypt": "v", "Decrypt": "v", "HomoAdd": "v", "HomoMult": "v", "Class": "ok"}
	launchToy := func(i int, extra []c14Line) {
		r := toyRes[i]
		if r.Key == nil {
			return
		}
		lines := append(append([]c14Line{}, r.Lines...), extra...)
		p, q := toyPlans[i].P, toyPlans[i].Q
		label := fmt.Sprintf("Paillier_Trace N=%d", p*q)
		bad := c14BadCopies(lines, callFields, 10, int(ctx.Seed)*37+11)
		selfTests += len(bad)
		runV(func() (c14TraceVerdict, error) { return c14ValidatePaillier(label, p, q, lines, bad, tlcTimeout) })
		if i == 0 && ctx.Thorough() {
			// end to end: a whole trace with one altered number must stop TLC at exactly that line
			badTrace, at := c14Corrupt(lines, "v", map[string]bool{"Encrypt": true, "Decrypt": true, "HomoAdd": true, "HomoMult": true}, int(ctx.Seed)*37+11)
			if at > 0 {
				selfTests++
				runV(func() (c14TraceVerdict, error) {
					v, err := c14ValidatePaillier("self-test", p, q, badTrace, nil, tlcTimeout)
					if err == nil {
						if v.Accepted || v.FailLine != at {
							err = fmt.Errorf("self-test: Paillier_Trace did not reject the corrupted line %d (%v): accepted=%v, stopped at line %d", at, badTrace[at-1], v.Accepted, v.FailLine)
						}
						v.Accepted, v.Lines = true, 0
					}
					return v, err
				})
			}
		}
	}

	// ------------------------------------------------------------ toy phase: the real functions over the whole toy domain
	t0 := time.Now()
	var twg sync.WaitGroup
	for i, p := range toyPlans {
		twg.Add(1)
		go func(i int, p c14ToyPlan) {
			defer twg.Done()
			toyRes[i] = c14ToyRun(p, ctx.Seed, col)
		}(i, p)
	}
	twg.Wait()
	timed("toy_real_calls", t0)
	for _, r := range toyRes {
		if r.Inconcl != "" {
			fail("toy phase: %s", r.Inconcl)
		}
	}
	toyViolations := col.violations()
	for i := 1; i < len(toyRes); i++ {
		launchToy(i, nil)
	}

	// ------------------------------------------------------------ real size: vendored keys
	var classLines []c14Line
	fixtureDefects := map[string][]string{}
	realScenarios := 0
	if toyViolations == 0 {
		t0 = time.Now()
		for i, k := range fixtures {
			if d := c14FixtureDefects(k.sk); len(d) > 0 {
				// not a behaviour of the code under test (the files were produced by an earlier version): recorded only
				fixtureDefects[fmt.Sprintf("set %d", i)] = d
			}
		}
		var jobs []c14Job
		if ctx.Thorough() {
			for round := 0; round < 4; round++ {
				for i, k := range fixtures {
					for _, sc := range c14RealScenarios(k, c14Rng(ctx.Seed, int64(100+10*round+i)), ctx.Seed*31+int64(10*round+i), false) {
						jobs = append(jobs, c14Job{k, sc})
					}
				}
			}
		} else {
			// one round; scenario j of the round is run on vendored set (j + seed) mod 5
			lists := make([][]c14Scenario, len(fixtures))
			for i, k := range fixtures {
				lists[i] = c14RealScenarios(k, c14Rng(ctx.Seed, int64(100+i)), ctx.Seed*31+int64(i), false)
			}
			for j := range lists[0] {
				i := (j + int(ctx.Seed%5) + 5) % len(fixtures)
				if j < len(lists[i]) {
					jobs = append(jobs, c14Job{fixtures[i], lists[i][j]})
				}
			}
		}
		realScenarios = len(jobs)
		lines, errs := c14RunJobs(jobs, 8, col)
		for _, e := range errs {
			fail("real-size scenario: %v", e)
		}
		classLines = append(classLines, lines...)
		timed("real_size_calls", t0)
	} else {
		ctx.Note("the toy phase already found %d contradiction(s); the real-size phase was skipped", toyViolations)
	}

	// ------------------------------------------------------------ histories: use, re-populate, use again
	hg := <-histGenCh
	histStats := map[string]any{}
	var histDrift []string
	if hg.err != nil {
		fail("%v", hg.err)
	} else if col.violations() == 0 {
		t0 = time.Now()
		if err := c14HistPhase(ctx, col, fixtures, hg.directed, hg.walks, histStats, &histDrift, fail,
			func(lines []c14Line, stopAt int) {
				if stopAt > 0 {
					selfTests++
				}
				runV(func() (c14TraceVerdict, error) {
					return c14ValidateHist("PaillierHist_Trace N=15/35", lines, stopAt, tlcTimeout)
				})
			}); err != nil {
			fail("history phase: %v", err)
		}
		timed("histories", t0)
	}

	// ------------------------------------------------------------ key generation
	<-keyMCDone
	var genRes []c14GenResult
	var keyLines []c14Line
	genKeysUsed := 0
	classKeys := map[int]int{}
	if feas != nil && col.violations() == 0 {
		t0 = time.Now()
		var reqs []c14GenReq
		seed := ctx.Seed * 100003
		addReq := func(bits, conc int) {
			seed++
			f := -1
			if v, ok := feas[bits]; ok {
				f = 0
				if v[1] > 0 {
					f = 1
				}
			}
			reqs = append(reqs, c14GenReq{Bits: bits, Conc: conc, Seed: seed, Feasible: f, Class: -1})
		}
		var small []int
		for _, b := range keyBits {
			if feas[b][1] > 0 {
				small = append(small, b)
			} else {
				addReq(b, 2) // the model says no key can come out; the real call must not produce one either
			}
		}
		perSmall := ctx.Pick(3, 22)
		for _, b := range small {
			for i := 0; i < perSmall; i++ {
				addReq(b, 1+i%4)
			}
		}
		large := []int{32, 40, 64, 128, 256}
		perLarge := ctx.Pick(1, 3)
		if ctx.Thorough() {
			large = append(large, 31, 33, 48, 96, 192, 384, 512)
		}
		for _, b := range large {
			for i := 0; i < perLarge; i++ {
				addReq(b, 2+2*(i%2))
			}
		}
		if ctx.Thorough() {
			addReq(1024, 8)
		}
		// the plan of the model: perClass keys in every residue class of (length/2) mod 8, spread over its sizes
		for _, cl := range classes {
			per := (perClass + len(cl.Sizes) - 1) / len(cl.Sizes)
			for _, b := range cl.Sizes {
				for i := 0; i < per; i++ {
					addReq(b, 1+i%3)
					reqs[len(reqs)-1].Class = cl.Class
				}
			}
		}
		genRes = c14RunGens(reqs, 6, time.Duration(ctx.Pick(4, 10))*time.Minute)
		var genJobs []c14Job
		for _, r := range genRes {
			switch r.Outcome {
			case "stuck":
				fail("GenerateKeyPair(%d bits, concurrency %d) did not return; goroutines in library code:\n%s", r.Req.Bits, r.Req.Conc, r.Detail)
			case "error":
				switch {
				case r.Req.Feasible == 0: // what the model predicts: the loop cannot end, the context expires
				case r.Req.Bits > 256:
					ctx.Note("GenerateKeyPair(%d bits, concurrency %d) did not finish within its budget (%d ms, %s); not judged", r.Req.Bits, r.Req.Conc, r.WallMs, core.Short(r.Detail, 80))
				default:
					fail("GenerateKeyPair(%d bits, concurrency %d) returned an error after %d ms: %s", r.Req.Bits, r.Req.Conc, r.WallMs, r.Detail)
				}
			default:
				c14JudgeGen(r, col)
				if len(r.Defects) == 0 && r.Line != nil {
					keyLines = append(keyLines, r.Line)
				}
				if r.Req.Class >= 0 {
					classKeys[r.Req.Class]++
				}
				if r.NoTopTwo && r.Line == nil {
					// above the reach of the model: the shape of the factors is observed here (not part of C14: recorded)
					col.noteDrift("a factor of a generated key lacks the generator model's two top bits; the modulus has the requested length (the top-two-bits claim is C19's)")
				}
				if r.Key != nil && (r.Req.Class < 0 || classKeys[r.Req.Class]%8 == 1) {
					genKeysUsed++
					for _, sc := range c14RealScenarios(r.Key, c14Rng(ctx.Seed, r.Req.Seed), r.Req.Seed, true) {
						genJobs = append(genJobs, c14Job{r.Key, sc})
					}
				}
			}
		}
		for _, cl := range classes {
			if classKeys[cl.Class] < perClass*9/10 && col.violations() == 0 {
				fail("key generation: only %d of the planned %d keys came back in the residue class %d (lengths %v)", classKeys[cl.Class], perClass, cl.Class, cl.Sizes)
			}
		}
		lines, errs := c14RunJobs(genJobs, 8, col)
		for _, e := range errs {
			fail("scenario on a generated key: %v", e)
		}
		realScenarios += len(genJobs)
		classLines = append(classLines, lines...)
		timed("key_generation", t0)
	}

	tTrace := time.Now()
	launchToy(0, classLines)
	if len(keyLines) > 0 {
		bad := c14BadCopies(keyLines, map[string]string{"KeyGen": []string{"lambda", "phi", "n", "p"}[int(ctx.Seed)%4]}, 4, int(ctx.Seed)*13+5)
		selfTests += len(bad)
		runV(func() (c14TraceVerdict, error) {
			return c14ValidateKeyGen("PaillierKeyGen_Trace", keyBits, keyLines, bad, tlcTimeout)
		})
	}
	vwg.Wait()
	timed("tlc_trace_validation_wait", tTrace)
	t0 = time.Now()
	wg.Wait()
	timed("tlc_models_wait", t0)

	// ------------------------------------------------------------ verdicts of the machinery
	// the harness's CRT decryption against TLC's table, on the whole of [0, N^2)
	tableEntries := 0
	for i, tab := range decTabs {
		if tab == nil {
			continue
		}
		k, err := c14KeyFromFactors(big.NewInt(mcPlans[i].P), big.NewInt(mcPlans[i].Q), true, "toy")
		if err != nil || int64(len(tab)) != k.d.n2.Int64() {
			fail("decryption table of N=%d has %d entries", mcPlans[i].P*mcPlans[i].Q, len(tab))
			continue
		}
		for c, want := range tab {
			got, ok := k.d.dec(big.NewInt(int64(c)))
			if (want < 0) == ok || (ok && got.Int64() != want) {
				fail("N=%d: TLC decrypts %d to %d, the harness's CRT decryption says %v (ok=%v): specification and independent oracle disagree", k.d.n.Int64(), c, want, got, ok)
				break
			}
			tableEntries++
		}
	}
	traceLines := 0
	var traceOut []map[string]any
	for _, t := range verdicts {
		if t.err != nil {
			fail("trace validation: %v", t.err)
			continue
		}
		if !t.v.Accepted {
			if col.violations() > 0 {
				ctx.Note("%s stopped at line %d (%s); contradictions were reported, see above", t.v.Label, t.v.FailLine, core.Short(t.v.FailText, 200))
				continue
			}
			fail("%s does not explain line %d of %d: %s [%s] - the real call was judged sound by the harness, so model and code (or model and harness) disagree",
				t.v.Label, t.v.FailLine, t.v.Lines, core.Short(t.v.FailText, 300), t.v.Res.Violated)
			continue
		}
		traceLines += t.v.Lines
		if t.v.Drift > 0 {
			col.noteDrift("a factor of a generated key lacks the generator model's two top bits; the modulus has the requested length (the top-two-bits claim is C19's)")
			ctx.Note("%s: %d of %d generated keys are good keys in the sense of the property but are not values the generator MODEL delivers (first: line %d); recorded as drift, the model's design-level numbers no longer describe the generator",
				t.v.Label, t.v.Drift, t.v.Lines, t.v.DriftAt)
		}
		if t.v.Lines > 0 {
			traceOut = append(traceOut, map[string]any{"trace": t.v.Label, "lines": t.v.Lines, "corrupted_copies_rejected": t.v.SelfRej, "tlc_wall_s": t.v.Res.Wall})
		}
	}
	if len(inconcl) > 0 && col.violations() == 0 {
		sort.Strings(inconcl)
		for _, m := range inconcl[1:] {
			fmt.Println("machinery:", core.Short(m, 600))
		}
		return core.Inconcl("%d problem(s) in the machinery; first: %s", len(inconcl), inconcl[0])
	}
	for _, m := range inconcl {
		ctx.Note("machinery: %s", core.Short(m, 300))
	}

	// ------------------------------------------------------------ evidence
	var mcOut []map[string]any
	for i, r := range mcRes {
		if r.Distinct > 0 {
			cov.AddMC(r.Distinct, r.Generated)
			mcOut = append(mcOut, map[string]any{"spec": "Paillier.tla", "N": mcPlans[i].P * mcPlans[i].Q, "scope": mcPlans[i].Label, "distinct": r.Distinct, "generated": r.Generated, "wall_s": r.Wall})
		}
	}
	if histMC.Distinct > 0 {
		cov.AddMC(histMC.Distinct, histMC.Generated)
		mcOut = append(mcOut, map[string]any{"spec": "PaillierHist.tla", "keys": "N=15 and N=35", "scope": histMCLabel + "; every history of Fresh/Add/Mult through either object, Dec, Proof, Reload in 5 modes", "distinct": histMC.Distinct, "generated": histMC.Generated, "wall_s": histMC.Wall})
	}
	if keyMC.Distinct > 0 {
		cov.AddMC(keyMC.Distinct, keyMC.Generated)
		mcOut = append(mcOut, map[string]any{"spec": "PaillierKeyGen.tla", "requested_bits": keyBits, "distinct": keyMC.Distinct, "generated": keyMC.Generated, "wall_s": keyMC.Wall})
	}
	toyOut := []map[string]any{}
	for _, r := range toyRes {
		if r.Key != nil {
			toyOut = append(toyOut, map[string]any{"N": r.Key.d.n.Int64(), "encrypt_coverage": r.Coverage, "counts": r.Stats, "lines_for_tlc": len(r.Lines)})
			for k := range r.Stats {
				cov.Case(fmt.Sprintf("toy N=%d %s", r.Key.d.n.Int64(), k), true)
			}
		}
	}
	genOut := map[string]int{}
	genWall := map[string]int64{}
	for _, r := range genRes {
		genOut[fmt.Sprintf("%d bits: %s", r.Req.Bits, r.Outcome)]++
		if r.WallMs > genWall[fmt.Sprint(r.Req.Bits)] {
			genWall[fmt.Sprint(r.Req.Bits)] = r.WallMs
		}
		cov.Case(fmt.Sprintf("keygen %d bits conc %d", r.Req.Bits, r.Req.Conc), true)
		if len(r.Defects) == 0 && r.Line != nil {
			cov.Sample(r.Line, 6)
		}
	}
	feasOut := map[string]string{}
	for b, v := range feas {
		feasOut[fmt.Sprint(b)] = fmt.Sprintf("%d safe primes of the generator's shape, %d acceptable ordered pairs", v[0], v[1])
	}
	total := 0
	for fn, n := range col.calls {
		total += n
		cov.Case("real function "+fn, true)
	}
	cov.Evals = total
	cov.AddTraces(traceLines)
	cov.Set("real_calls_by_function", col.calls)
	cov.Set("mc_configs", mcOut)
	cov.Set("toy_keys", toyOut)
	cov.Set("tlc_decryption_table_entries_compared_with_crt_oracle", tableEntries)
	cov.Set("trace_lines_explained_by_tlc", traceLines)
	cov.Set("trace_runs", traceOut)
	cov.Set("real_size_class_lines", len(classLines))
	cov.Set("real_size_scenarios", realScenarios)
	cov.Set("keygen_calls", genOut)
	cov.Set("keygen_max_wall_ms_by_bits", genWall)
	cov.Set("keygen_model_feasibility", feasOut)
	cov.Set("keygen_lines_for_tlc", len(keyLines))
	cov.Set("generated_keys_exercised", genKeysUsed)
	cov.Set("self_tests_corrupted_trace_rejected", selfTests)
	cov.Set("vendored_keys_not_matching_todays_generator", fixtureDefects)
	classOut := []map[string]any{}
	for _, cl := range classes {
		classOut = append(classOut, map[string]any{"half_length_mod_8": cl.Class, "bits_in_top_byte_of_candidate": cl.TopBits, "requested_lengths": cl.Sizes, "keys_judged": classKeys[cl.Class]})
	}
	cov.Set("keygen_size_classes", classOut)
	cov.Set("histories", histStats)
	cov.Set("history_model_defective_variants_violate", histVariantViolated)
	if len(histDrift) > 0 {
		cov.Set("history_drift", histDrift)
	}
	cov.Set("drift", col.drift)
	cov.Set("phase_wall_s", phase)
	cov.Set("exhaustive", false)
	cov.Set("exhaustive_note", "toy domain: yes (see toy_keys); real size and key generation: sampled")
	return ctx.WriteEvidence("model_checking",
		"evaluations = calls of the real EncryptAndReturnRandomness / Encrypt / Decrypt / HomoAdd / HomoMult (toy keys 15, 35[, 77] over the whole domain: every plaintext with every unit, "+
			"every ciphertext of a window around [0,N^2), scalar x ciphertext and ciphertext x ciphertext pairs, sessions; vendored 2048 bit keys and freshly generated keys: sampled classes) "+
			"plus GenerateKeyPair calls; each judged on its real outputs (error / no error, independent CRT decryption, real Decrypt, math/big key predicate). "+
			"states/transitions: TLC on spec/Paillier.tla ("+c14Invs+"), spec/PaillierKeyGen.tla ("+c14KeyInvs+"; candidate construction byte by byte, size classes) and spec/PaillierHist.tla ("+c14HistInvs+": key objects that are used, re-populated and used again). "+
			"histories generated by TLC from PaillierHist.tla (directed catalogue object x operation x mode x operation, random walks) are replayed on the real structs at toy, generated and vendored size. "+
			"traces = ndjson lines of real calls explained by Paillier_Trace.tla / PaillierKeyGen_Trace.tla / PaillierHist_Trace.tla (value predicted by TLC; existential over the units for Encrypt; argument classes for real-size calls)",
		cov, []string{
			"the prime factors in the vendored fixtures (independent CRT decryption; self-checked against the encryption formula, and compared with TLC's decryption table on the whole toy domain)",
			"Go math/big (arithmetic, ProbablyPrime with 32 rounds for the key predicate above 30 bits)",
			"'ciphertexts sharing a factor with N are refused' is demanded of Decrypt (where the code has the guard and a ciphertext is consumed); HomoAdd / HomoMult are demanded to refuse out-of-range arguments only, their behaviour on in-range non-units is recorded",
			"'far apart' is the code's own criterion: |P-Q| has at least modulusBitLen/2 - 3 bits; odd requested lengths are recorded, their length is not judged",
			"a GenerateKeyPair call that does not return is inconclusive here (termination of the prime generator is C19)",
			"freshness at real size: ciphertexts of the same plaintext differ; at toy size: equal ciphertexts exactly for equal reported randomisers, and not all of 64 coincide",
		}, "java tlc2.TLC MC_Paillier.tla / MC_Paillier_Trace.tla / MC_PaillierKeyGen.tla / MC_PaillierKeyGen_Trace.tla / MC_PaillierHist.tla / MCV_PaillierHist.tla / MCG_PaillierHist.tla (-simulate) / MCT_PaillierHist_Trace.tla")
}
