package props

// C14 - HISTORIES of key objects (spec/PaillierHist.tla): a *paillier.PrivateKey and a *paillier.PublicKey of the
// library are used, re-populated with another generated key in one of the ways a program does that (json / gob into
// the holder in use, field by field, in place, struct assignment) and used again. The histories come from TLC (the
// directed catalogue and random walks of PaillierHist.tla); every real result is judged with the independent CRT
// decryption of the key the object holds in its exported fields at that moment; the toy replays are logged with exact
// numbers for PaillierHist_Trace.tla.

import (
	"bytes"
	"encoding/gob"
	"encoding/json"
	"fmt"
	"math/big"
	"sort"
	"strings"
	"sync"
	"time"

	"verif/harness/core"

	"github.com/bnb-chain/tss-lib/v2/crypto"
	"github.com/bnb-chain/tss-lib/v2/crypto/paillier"
	"github.com/bnb-chain/tss-lib/v2/tss"
)

// c14HistOp is one operation of a generated history (the records TLC prints).
type c14HistOp struct {
	Op   string `json:"op"`   // Fresh | Add | Mult | Dec | Proof | Reload
	Who  string `json:"who"`  // sk | pk
	Key  int    `json:"key"`  // Reload: 1 | 2
	Mode string `json:"mode"` // Reload: json | gob | fields | inplace | copy
	Mc   string `json:"mc"`   // Fresh, Add: class of the plaintext; Mult: class of the scalar (zero | one | mid | max)
}

func (e c14HistOp) String() string {
	switch e.Op {
	case "Reload":
		return fmt.Sprintf("Reload(%s,key%d,%s)", e.Who, e.Key, e.Mode)
	case "Dec", "Proof":
		return e.Op + "(sk)"
	}
	return fmt.Sprintf("%s(%s,%s)", e.Op, e.Who, e.Mc)
}

var c14HistModes = []string{"json", "gob", "fields", "inplace", "copy"}

// the holders of a program that uses the library (keygen.LocalPartySaveData has both kinds of field)
type c14SKHolder struct{ PaillierSK *paillier.PrivateKey }
type c14PKHolder struct{ PaillierPK *paillier.PublicKey }

// c14Stored is one generated key as a program keeps it: serialised.
type c14Stored struct {
	k                            *c14Key // pristine structs (never handed to a history) and the CRT oracle
	skJSON, pkJSON, skGob, pkGob []byte
}

func c14Store(k *c14Key) (*c14Stored, error) {
	st := &c14Stored{k: k}
	var err error
	if st.skJSON, err = json.Marshal(c14SKHolder{k.sk}); err != nil {
		return nil, err
	}
	if st.pkJSON, err = json.Marshal(c14PKHolder{&paillier.PublicKey{N: k.sk.N}}); err != nil {
		return nil, err
	}
	var b1, b2 bytes.Buffer
	if err = gob.NewEncoder(&b1).Encode(k.sk); err != nil {
		return nil, err
	}
	if err = gob.NewEncoder(&b2).Encode(&paillier.PublicKey{N: k.sk.N}); err != nil {
		return nil, err
	}
	st.skGob, st.pkGob = b1.Bytes(), b2.Bytes()
	return st, nil
}

func (st *c14Stored) freshSK() (*paillier.PrivateKey, error) {
	var h c14SKHolder
	if err := json.Unmarshal(st.skJSON, &h); err != nil || h.PaillierSK == nil {
		return nil, fmt.Errorf("stored private key does not load: %v", err)
	}
	return h.PaillierSK, nil
}

func (st *c14Stored) freshPK() (*paillier.PublicKey, error) {
	var h c14PKHolder
	if err := json.Unmarshal(st.pkJSON, &h); err != nil || h.PaillierPK == nil {
		return nil, fmt.Errorf("stored public key does not load: %v", err)
	}
	return h.PaillierPK, nil
}

func c14EqInt(a, b *big.Int) bool { return a != nil && b != nil && a.Cmp(b) == 0 }

// reloadSK re-populates the object obj (in use) with the stored key; afterwards every exported field is that key's.
func (st *c14Stored) reloadSK(obj *paillier.PrivateKey, mode string) error {
	src := st.k.sk
	switch mode {
	case "json":
		h := c14SKHolder{obj}
		if err := json.Unmarshal(st.skJSON, &h); err != nil {
			return err
		}
		if h.PaillierSK != obj {
			return fmt.Errorf("encoding/json replaced the pointer instead of re-using the object")
		}
	case "gob":
		if err := gob.NewDecoder(bytes.NewReader(st.skGob)).Decode(obj); err != nil {
			return err
		}
	case "fields":
		obj.N, obj.LambdaN, obj.PhiN = new(big.Int).Set(src.N), new(big.Int).Set(src.LambdaN), new(big.Int).Set(src.PhiN)
		obj.P, obj.Q = new(big.Int).Set(src.P), new(big.Int).Set(src.Q)
	case "inplace":
		obj.N.Set(src.N)
		obj.LambdaN.Set(src.LambdaN)
		obj.PhiN.Set(src.PhiN)
		obj.P.Set(src.P)
		obj.Q.Set(src.Q)
	case "copy":
		f, err := st.freshSK()
		if err != nil {
			return err
		}
		*obj = *f
	default:
		return fmt.Errorf("unknown reload mode %q", mode)
	}
	if !(c14EqInt(obj.N, src.N) && c14EqInt(obj.LambdaN, src.LambdaN) && c14EqInt(obj.PhiN, src.PhiN) && c14EqInt(obj.P, src.P) && c14EqInt(obj.Q, src.Q)) {
		return fmt.Errorf("after the %s reload the exported fields are not those of the stored key", mode)
	}
	return nil
}

func (st *c14Stored) reloadPK(obj *paillier.PublicKey, mode string) error {
	src := st.k.sk
	switch mode {
	case "json":
		h := c14PKHolder{obj}
		if err := json.Unmarshal(st.pkJSON, &h); err != nil {
			return err
		}
		if h.PaillierPK != obj {
			return fmt.Errorf("encoding/json replaced the pointer instead of re-using the object")
		}
	case "gob":
		if err := gob.NewDecoder(bytes.NewReader(st.pkGob)).Decode(obj); err != nil {
			return err
		}
	case "fields":
		obj.N = new(big.Int).Set(src.N)
	case "inplace":
		obj.N.Set(src.N)
	case "copy":
		f, err := st.freshPK()
		if err != nil {
			return err
		}
		*obj = *f
	default:
		return fmt.Errorf("unknown reload mode %q", mode)
	}
	if !c14EqInt(obj.N, src.N) {
		return fmt.Errorf("after the %s reload the exported field N is not that of the stored key", mode)
	}
	return nil
}

func c14PlainOfClass(mc string, n *big.Int) (*big.Int, error) {
	switch mc {
	case "zero":
		return big.NewInt(0), nil
	case "one":
		return big.NewInt(1), nil
	case "mid":
		return new(big.Int).Rsh(n, 1), nil
	case "max":
		return new(big.Int).Sub(n, c14One), nil
	}
	return nil, fmt.Errorf("unknown plaintext class %q", mc)
}

type c14HistResult struct {
	Lines   []c14Line // toy keys, complete history without contradiction: Reset + one line per step
	Steps   int
	Reloads int
	Bad     bool   // a contradiction was reported
	Err     string // the harness could not carry the history out (machinery)
	Drift   []string
	Skipped bool // not run: the budget of distinct contradictions was used up
}

const c14HistBudget = 8 // distinct violation keys after which further histories are skipped

var c14ProofPoint = crypto.ScalarBaseMult(tss.S256(), big.NewInt(0xC14))

// c14RunHistory replays one history on fresh objects holding keys[0]; exact = the numbers fit TLC (toy keys).
func c14RunHistory(hist []c14HistOp, keys [2]*c14Stored, seed int64, exact bool, col *c14Col) (res c14HistResult) {
	sc := func() c14Scenario {
		return c14Scenario{Key: keys[0].k.Ref, Key2: &keys[1].k.Ref, Op: "History", Hist: hist, Seed: seed}
	}
	skObj, err := keys[0].freshSK()
	if err != nil {
		res.Err = err.Error()
		return
	}
	pkObj, err := keys[0].freshPK()
	if err != nil {
		res.Err = err.Error()
		return
	}
	keyOf := map[string]int{"sk": 0, "pk": 0}
	lastMode := map[string]string{}
	rnd := newC14Tape(seed)
	var acc, pt *big.Int
	accKey := -1
	lines := []c14Line{{"op": "Reset"}}
	var done []string
	for i, e := range hist {
		done = append(done, e.String())
		res.Steps++
		j := keyOf[e.Who]
		cur := keys[j]
		pub := pkObj
		if e.Who == "sk" {
			pub = &skObj.PublicKey
		}
		o := &c14Op{col: col, sc: sc}
		if md := lastMode[e.Who]; md != "" {
			o.tag = "reused-object:" + e.Who + ":" + md
			what := fmt.Sprintf("key %d, a %d bit key generated by the library,", j+1, cur.k.d.n.BitLen())
			if cur.k.Ref.Kind == "fixture" {
				what = fmt.Sprintf("key %d, a vendored %d bit key,", j+1, cur.k.d.n.BitLen())
			} else if exact {
				what = fmt.Sprintf("toy key %d (N = %s)", j+1, cur.k.d.n.String())
			}
			o.note = fmt.Sprintf("[history, step %d is the failing call: %s; the %s object was re-populated (%s) and holds %s in every exported field]",
				i+1, strings.Join(done, " "), e.Who, md, what)
		} else {
			o.note = fmt.Sprintf("[history, step %d is the failing call: %s]", i+1, strings.Join(done, " "))
		}
		view := &c14Key{Ref: cur.k.Ref, pk: pub, d: cur.k.d, toy: exact}
		o.k = view
		before := col.violations()
		fail := func(format string, a ...any) {
			res.Err = fmt.Sprintf("step %d (%s): ", i+1, e) + fmt.Sprintf(format, a...)
		}
		switch e.Op {
		case "Reload":
			if e.Key != 1 && e.Key != 2 {
				fail("bad key index")
				return
			}
			var rerr error
			pan := c14Recover(func() {
				if e.Who == "sk" {
					rerr = keys[e.Key-1].reloadSK(skObj, e.Mode)
				} else {
					rerr = keys[e.Key-1].reloadPK(pkObj, e.Mode)
				}
			})
			if pan != "" || rerr != nil {
				fail("the object could not be re-populated: %v %s", rerr, pan)
				return
			}
			keyOf[e.Who] = e.Key - 1
			lastMode[e.Who] = e.Mode
			res.Reloads++
			lines = append(lines, c14Line{"op": "Reload", "who": e.Who, "key": e.Key, "mode": e.Mode})
		case "Fresh", "Add":
			m, merr := c14PlainOfClass(e.Mc, cur.k.d.n)
			if merr != nil {
				fail("%v", merr)
				return
			}
			c, x, ok := o.encrypt(rnd, m, true)
			if col.violations() > before {
				res.Bad = true
				return
			}
			if !ok || x == nil || !cur.k.d.coprime(x) {
				res.Drift = append(res.Drift, "EncryptAndReturnRandomness reported a randomiser that is not a unit")
				return
			}
			if e.Op == "Fresh" {
				acc, pt, accKey = c, m, j
			} else {
				if acc == nil || accKey != j {
					fail("not enabled: no ciphertext under the key of the object")
					return
				}
				r, rok := o.homo("HomoAdd", acc, c, false)
				if col.violations() > before {
					res.Bad = true
					return
				}
				if !rok {
					fail("HomoAdd gave no result")
					return
				}
				acc = r
				pt = new(big.Int).Add(pt, m)
				pt.Mod(pt, cur.k.d.n)
			}
			if exact {
				lines = append(lines, c14Line{"op": e.Op, "who": e.Who, "m": m.Int64(), "x": x.Int64(), "c": acc.Int64()})
			}
		case "Mult":
			kk, merr := c14PlainOfClass(e.Mc, cur.k.d.n)
			if merr != nil || acc == nil || accKey != j {
				fail("not enabled (%v)", merr)
				return
			}
			r, rok := o.homo("HomoMult", kk, acc, false)
			if col.violations() > before {
				res.Bad = true
				return
			}
			if !rok {
				fail("HomoMult gave no result")
				return
			}
			acc = r
			pt = new(big.Int).Mul(pt, kk)
			pt.Mod(pt, cur.k.d.n)
			if exact {
				lines = append(lines, c14Line{"op": "Mult", "who": e.Who, "k": kk.Int64(), "c": acc.Int64()})
			}
		case "Dec":
			if e.Who != "sk" || acc == nil || accKey != j {
				fail("not enabled")
				return
			}
			view.sk = skObj
			got, dok := o.decrypt(acc)
			if col.violations() > before {
				res.Bad = true
				return
			}
			if !dok || got.Cmp(pt) != 0 {
				// every step was judged against the CRT decryption, so the book-keeping of this replay is wrong
				fail("Decrypt returned %s (ok=%v), agreed by the CRT decryption, but the replay expected %s", c14S(got), dok, c14S(pt))
				return
			}
			if exact {
				lines = append(lines, c14Line{"op": "Dec", "ok": true, "v": got.Int64()})
			}
		case "Proof":
			// GenerateXs hashes to whole 256 bit blocks and waits for a value below N: it only returns for moduli whose
			// length is a multiple of 256 bits (256, 512, 2048).
			// The key proof is the subject of C10-C12; here the call is one more USE of the object. Its outcome is recorded.
			if cur.k.d.n.BitLen()%256 != 0 {
				res.Steps--
				continue
			}
			var pf paillier.Proof
			var vok bool
			var verr error
			kk := big.NewInt(seed&0xffff + 2)
			pan := ""
			proofDone := make(chan struct{})
			go func() {
				defer close(proofDone)
				pan = c14Recover(func() {
					pf = skObj.Proof(kk, c14ProofPoint)
					vok, verr = pf.Verify(new(big.Int).Set(cur.k.d.n), kk, c14ProofPoint)
				})
			}()
			select {
			case <-proofDone:
			case <-time.After(3 * time.Minute):
				res.Drift = append(res.Drift, fmt.Sprintf("PrivateKey.Proof / Verify on a re-used object did not return within 3 minutes after %s - outside C14 (key proof: C10-C12)", strings.Join(done, " ")))
				return
			}
			col.call("Proof+Verify", 1)
			if pan != "" || verr != nil || !vok {
				res.Drift = append(res.Drift, fmt.Sprintf("PrivateKey.Proof on a re-used object does not verify against the key it holds (panic %q, err %v) after %s - outside C14 (key proof: C10-C12)", pan, verr, strings.Join(done, " ")))
			}
		default:
			fail("unknown operation")
			return
		}
	}
	if exact {
		res.Lines = lines
	}
	return
}

type c14HistJob struct {
	hist  []c14HistOp
	keys  [2]*c14Stored
	seed  int64
	exact bool
}

func c14RunHistories(jobs []c14HistJob, workers int, col *c14Col) []c14HistResult {
	out := make([]c14HistResult, len(jobs))
	var wg sync.WaitGroup
	ch := make(chan int)
	for w := 0; w < workers; w++ {
		wg.Add(1)
		go func() {
			defer wg.Done()
			for i := range ch {
				j := jobs[i]
				if col.distinct() >= c14HistBudget {
					out[i] = c14HistResult{Skipped: true} // enough contradictions to report; the rest would repeat them
					continue
				}
				out[i] = c14RunHistory(j.hist, j.keys, j.seed, j.exact, col)
			}
		}()
	}
	for i := range jobs {
		ch <- i
	}
	close(ch)
	wg.Wait()
	return out
}

// c14HistCoverage: which (object, operation before, mode, operation after) combinations the histories contain
// (operation before = any operation of the object since its creation, operation after = the next operations on it
// after the re-population).
func c14HistCoverage(hists [][]c14HistOp) map[string]int {
	cov := map[string]int{}
	for _, h := range hists {
		used := map[string]map[string]bool{"sk": {}, "pk": {}}
		pendingMode := map[string]string{}
		for _, e := range h {
			if e.Op == "Reload" {
				if len(used[e.Who]) > 0 {
					pendingMode[e.Who] = e.Mode
				}
				continue
			}
			if md := pendingMode[e.Who]; md != "" {
				for u := range used[e.Who] {
					cov[e.Who+":"+u+":"+md+":"+e.Op]++
				}
			}
			used[e.Who][e.Op] = true
		}
	}
	return cov
}

// c14HistPhase replays the histories TLC generated: on the toy keys of the model (exact numbers, handed to `validate`
// for PaillierHist_Trace.tla together with one corrupted copy), on pairs of keys the library generates now, and on
// pairs of vendored 2048 bit keys.
func c14HistPhase(ctx *core.Ctx, col *c14Col, fixtures []*c14Key, directed, walks [][]c14HistOp, stats map[string]any, drift *[]string,
	fail func(string, ...any), validate func(lines []c14Line, stopAt int)) error {
	// ---- the catalogue covers object x operation before x mode x operation after
	all := append(append([][]c14HistOp{}, directed...), walks...)
	sort.SliceStable(all, func(i, j int) bool { return len(all[i]) < len(all[j]) }) // a contradiction is reported on the shortest history that shows it
	cover := c14HistCoverage(all)
	missing := 0
	for _, o := range []string{"sk", "pk"} {
		uses := []string{"Fresh", "Add", "Mult"}
		if o == "sk" {
			uses = append(uses, "Dec", "Proof")
		}
		for _, u := range uses {
			for _, md := range c14HistModes {
				for _, v := range uses {
					if cover[o+":"+u+":"+md+":"+v] == 0 {
						missing++
					}
				}
			}
		}
	}
	if missing > 0 {
		return fmt.Errorf("the histories printed by TLC miss %d combinations of (object, operation before, mode, operation after)", missing)
	}
	stats["directed"] = len(directed)
	stats["random_walks"] = len(walks)
	stats["combinations_object_x_before_x_mode_x_after"] = len(cover)
	seedOf := func(i int) int64 { return ctx.Seed*1000003 + int64(i) }
	tally := func(name string, rs []c14HistResult) (bad int) {
		steps, reloads, ok := 0, 0, 0
		for _, r := range rs {
			steps += r.Steps
			reloads += r.Reloads
			if r.Skipped {
				continue
			}
			if r.Err != "" {
				fail("history replay (%s): %s", name, r.Err)
			} else if r.Bad {
				bad++
			} else {
				ok++
			}
			*drift = append(*drift, r.Drift...)
		}
		stats[name] = map[string]int{"histories": len(rs), "completed_without_contradiction": ok, "operations": steps, "re-populations": reloads}
		return bad
	}

	// ---- keys generated by the library now (the property: "for every generated key")
	sizes := []int{64, 96, 256, 256}
	if ctx.Thorough() {
		sizes = append(sizes, 128, 192, 512, 384)
	}
	var gen []*c14Stored
	for i, b := range sizes {
		r := c14Generate(c14GenReq{Bits: b, Conc: 2, Seed: ctx.Seed*7001 + int64(i), Feasible: -1, Class: -1}, 5*time.Minute)
		if r.Outcome != "key" {
			fail("history phase: GenerateKeyPair(%d bits) gave no key (%s: %s)", b, r.Outcome, core.Short(r.Detail, 200))
			continue
		}
		c14JudgeGen(r, col)
		if r.Key == nil {
			continue
		}
		st, err := c14Store(r.Key)
		if err != nil {
			return err
		}
		gen = append(gen, st)
	}
	var jobs []c14HistJob
	for p := 0; p+1 < len(gen); p++ {
		pair := [2]*c14Stored{gen[p], gen[p+1]}
		if p%2 == 1 {
			pair = [2]*c14Stored{gen[p+1], gen[p]} // also from the longer to the shorter key
		}
		for i, h := range all {
			jobs = append(jobs, c14HistJob{h, pair, seedOf(1000*(p+1) + i), false})
		}
	}
	tally("generated_keys", c14RunHistories(jobs, 8, col))

	// ---- vendored 2048 bit keys
	jobs = nil
	pick := func(i int) [2]*c14Stored {
		a := (int(ctx.Seed%5) + 5 + i) % len(fixtures)
		b := (a + 1 + i/len(fixtures)%(len(fixtures)-1)) % len(fixtures)
		sa, _ := c14Store(fixtures[a])
		sb, _ := c14Store(fixtures[b])
		return [2]*c14Stored{sa, sb}
	}
	if ctx.Thorough() {
		for i, h := range all {
			jobs = append(jobs, c14HistJob{h, pick(i), seedOf(50000 + i), false})
		}
	} else {
		// one directed history per (object, mode), the operations before / after rotating with the seed; and a few walks
		groups := map[string][][]c14HistOp{}
		var order []string
		for _, h := range directed {
			for _, e := range h {
				if e.Op == "Reload" {
					g := e.Who + ":" + e.Mode
					if groups[g] == nil {
						order = append(order, g)
					}
					groups[g] = append(groups[g], h)
					break
				}
			}
		}
		for gi, g := range order {
			hs := groups[g]
			jobs = append(jobs, c14HistJob{hs[(int(ctx.Seed%1000)*7+gi*3)%len(hs)], pick(gi), seedOf(50000 + gi), false})
		}
		for i := 0; i < 4 && i < len(walks); i++ {
			jobs = append(jobs, c14HistJob{walks[i], pick(i), seedOf(60000 + i), false})
		}
	}
	for _, j := range jobs {
		if j.keys[0] == nil || j.keys[1] == nil {
			return fmt.Errorf("a vendored key cannot be serialised")
		}
	}
	tally("vendored_2048_bit_keys", c14RunHistories(jobs, 8, col))

	// ---- toy keys of the model (for the trace validation; pointless once contradictions were found above)
	if col.violations() > 0 {
		return nil
	}
	var toy [2]*c14Stored
	for i := 0; i < 2; i++ {
		k, err := c14KeyFromFactors(big.NewInt(c14HistToy[2*i]), big.NewInt(c14HistToy[2*i+1]), true, "toy")
		if err != nil {
			return err
		}
		if toy[i], err = c14Store(k); err != nil {
			return err
		}
	}
	jobs = nil
	for i, h := range all {
		jobs = append(jobs, c14HistJob{h, toy, seedOf(i), true})
	}
	rs := c14RunHistories(jobs, 8, col)
	if tally("toy_keys_15_35", rs) == 0 {
		var lines []c14Line
		var corrupt []c14Line
		at := 0
		for _, r := range rs {
			lines = append(lines, r.Lines...)
			if corrupt == nil {
				for j, l := range r.Lines {
					if l["op"] == "Dec" && j > 2 {
						corrupt = make([]c14Line, j+1)
						copy(corrupt, r.Lines[:j+1])
						alt := c14Line{}
						for k, v := range l {
							alt[k] = v
						}
						alt["v"] = l["v"].(int64) + 1
						corrupt[j] = alt
						at = j + 1
						break
					}
				}
			}
		}
		stopAt := 0
		if corrupt != nil {
			stopAt = len(lines) + at
			lines = append(lines, corrupt...)
		}
		validate(lines, stopAt)
	}

	return nil
}
