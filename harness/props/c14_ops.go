package props

// C14 - one real call (or one chain of real calls) of crypto/paillier, judged on its real outputs, and the ndjson
// line(s) that Paillier_Trace.tla must explain. The same code serves the toy keys (exact numbers are logged), the
// vendored 2048 bit keys and freshly generated keys (argument classes are logged).

import (
	"fmt"
	"io"
	"math/big"
	"math/rand"
	"strings"
	"sync"

	"github.com/bnb-chain/tss-lib/v2/crypto/paillier"

	"verif/harness/core"
)

// ------------------------------------------------------------------ scenario (replayable)

type c14KeyRef struct {
	Kind string `json:"kind"`          // factors (struct built by the harness from P, Q) | fixture (vendored set Idx)
	P    string `json:"p,omitempty"`   // decimal
	Q    string `json:"q,omitempty"`   // decimal
	Idx  int    `json:"idx,omitempty"` // fixture
	Note string `json:"note,omitempty"`
}

type c14Step struct {
	Op string `json:"op"` // fresh | add | mult
	V  string `json:"v"`  // plaintext (fresh, add) or scalar (mult), decimal
}

type c14Scenario struct {
	Key   c14KeyRef   `json:"key"`
	Op    string      `json:"op"`             // Encrypt | EncryptAny | Decrypt | HomoAdd | HomoMult | Chain | Fresh | KeyGen | History
	Args  []string    `json:"args,omitempty"` // decimal arguments in the order of the library's signature
	Tape  []int       `json:"tape,omitempty"` // first bytes handed to the library's random source
	Seed  int64       `json:"seed"`           // the rest of the library's randomness
	Steps []c14Step   `json:"steps,omitempty"`
	Count int         `json:"count,omitempty"` // Fresh: number of encryptions of the same plaintext
	Bits  int         `json:"bits,omitempty"`  // KeyGen
	Conc  int         `json:"conc,omitempty"`  // KeyGen
	Key2  *c14KeyRef  `json:"key2,omitempty"`  // History: the second key (Key is the first)
	Hist  []c14HistOp `json:"hist,omitempty"`  // History: the operations, as generated from spec/PaillierHist.tla
}

type c14Key struct {
	Ref c14KeyRef
	sk  *paillier.PrivateKey
	pk  *paillier.PublicKey
	d   *c14Dec
	toy bool // numbers fit TLC: exact lines
}

// c14KeyFromFactors builds the LIBRARY's key structs around P, Q (all fields are exported).
func c14KeyFromFactors(p, q *big.Int, toy bool, note string) (*c14Key, error) {
	d, err := newC14Dec(p, q, 20)
	if err != nil {
		return nil, err
	}
	g := new(big.Int).GCD(nil, nil, d.pm1, d.qm1)
	phi := new(big.Int).Mul(d.pm1, d.qm1)
	lambda := new(big.Int).Div(phi, g)
	pub := paillier.PublicKey{N: new(big.Int).Set(d.n)}
	sk := &paillier.PrivateKey{PublicKey: pub, LambdaN: lambda, PhiN: phi, P: new(big.Int).Set(p), Q: new(big.Int).Set(q)}
	return &c14Key{Ref: c14KeyRef{Kind: "factors", P: p.String(), Q: q.String(), Note: note}, sk: sk, pk: &sk.PublicKey, d: d, toy: toy}, nil
}

func c14KeyFromLibrary(sk *paillier.PrivateKey, ref c14KeyRef) (*c14Key, error) {
	if sk == nil || sk.P == nil || sk.Q == nil || sk.N == nil {
		return nil, fmt.Errorf("key without factors")
	}
	d, err := newC14Dec(sk.P, sk.Q, 20)
	if err != nil {
		return nil, err
	}
	if d.n.Cmp(sk.N) != 0 {
		return nil, fmt.Errorf("N != P*Q")
	}
	return &c14Key{Ref: ref, sk: sk, pk: &sk.PublicKey, d: d}, nil
}

// ------------------------------------------------------------------ classes of arguments

// plainClass / cipherClass name the class of an argument: used in violation keys (stable over seeds) and as the
// projection of real-size calls for Paillier_Trace!TraceClass (names = fields of PlainClass / CipherClass).
func (k *c14Key) plainClass(m *big.Int) string {
	d := k.d
	switch {
	case m.Sign() < 0:
		return "neg"
	case m.Sign() == 0:
		return "zero"
	case m.Cmp(c14One) == 0:
		return "one"
	case m.Cmp(d.n) == 0:
		return "eqN"
	case m.Cmp(d.n2) >= 0:
		return "huge"
	case m.Cmp(d.n) > 0:
		return "above"
	case new(big.Int).Add(m, c14One).Cmp(d.n) == 0:
		return "max"
	}
	return "mid"
}

func (k *c14Key) cipherClass(c *big.Int) string {
	d := k.d
	switch {
	case c.Sign() < 0:
		return "neg"
	case c.Sign() == 0:
		return "zero"
	case c.Cmp(d.n2) == 0:
		return "eqN2"
	case c.Cmp(d.n2) > 0:
		return "above"
	case c.Cmp(c14One) == 0:
		return "one"
	case new(big.Int).Add(c, c14One).Cmp(d.n2) == 0:
		return "max"
	}
	byP := new(big.Int).Mod(c, d.p).Sign() == 0
	byQ := new(big.Int).Mod(c, d.q).Sign() == 0
	switch {
	case byP && byQ:
		return "eqN" // a multiple of N inside (0, N^2)
	case byP:
		return "multP"
	case byQ:
		return "multQ"
	}
	return "unit"
}

func c14NonUnit(cls string) bool {
	return cls == "zero" || cls == "eqN" || cls == "multP" || cls == "multQ"
}

// ------------------------------------------------------------------ collector

type c14Viol struct{ Key, What string }

type c14Col struct {
	ctx   *core.Ctx
	mu    sync.Mutex
	seen  map[string]bool
	count int
	drift map[string]int
	calls map[string]int
}

func newC14Col(ctx *core.Ctx) *c14Col {
	return &c14Col{ctx: ctx, seen: map[string]bool{}, drift: map[string]int{}, calls: map[string]int{}}
}

func (c *c14Col) report(key, what string, sc func() c14Scenario) {
	c.mu.Lock()
	c.count++
	dup := c.seen[key]
	c.seen[key] = true
	c.mu.Unlock()
	if !dup {
		c.ctx.Report(key, what, sc())
	}
}

func (c *c14Col) violations() int { c.mu.Lock(); defer c.mu.Unlock(); return c.count }
func (c *c14Col) distinct() int   { c.mu.Lock(); defer c.mu.Unlock(); return len(c.seen) }
func (c *c14Col) noteDrift(what string) {
	c.mu.Lock()
	c.drift[what]++
	c.mu.Unlock()
}
func (c *c14Col) call(fn string, n int) { c.mu.Lock(); c.calls[fn] += n; c.mu.Unlock() }

// ------------------------------------------------------------------ the real calls

func c14Recover(f func()) (panicked string) {
	defer func() {
		if r := recover(); r != nil {
			panicked = fmt.Sprint(r)
		}
	}()
	f()
	return ""
}

func c14S(v *big.Int) string {
	if v == nil {
		return "nil"
	}
	s := v.String()
	if len(s) > 60 {
		return s[:24] + "…" + s[len(s)-24:] + fmt.Sprintf("(%d bits)", v.BitLen())
	}
	return s
}

func c14Strs(vs ...*big.Int) []string {
	out := make([]string, len(vs))
	for i, v := range vs {
		out[i] = v.String()
	}
	return out
}

// c14Fits: the number can be written into a TLC trace (toy keys only; everything legitimate is below N^2 + small).
func c14Fits(vs ...*big.Int) bool {
	for _, v := range vs {
		if v == nil || !v.IsInt64() || v.Int64() > 1<<30 || v.Int64() < -(1<<30) {
			return false
		}
	}
	return true
}

type c14Line = map[string]any

// c14Op bundles what one call needs.
type c14Op struct {
	k    *c14Key
	col  *c14Col
	sc   func() c14Scenario
	line c14Line // the trace line of the last call (nil: nothing to log)
	tag  string  // history replay: "reused-object:<object>:<mode>" once the object was re-populated (part of the violation key)
	note string  // history replay: the operations so far (appended to the description)
}

func (o *c14Op) report(key, what string) {
	if o.tag != "" {
		key = "C14:" + o.tag + ":" + strings.TrimPrefix(key, "C14:")
	}
	if o.note != "" {
		what += " " + o.note
	}
	o.col.report(key, what, o.sc)
}

// decrypt runs the real Decrypt and judges it; quiet suppresses the trace line (used inside other operations).
func (o *c14Op) decrypt(c *big.Int) (m *big.Int, ok bool) {
	k, d := o.k, o.k.d
	o.line = nil
	cls := k.cipherClass(c)
	var err error
	pan := c14Recover(func() { m, err = k.sk.Decrypt(c) })
	o.col.call("Decrypt", 1)
	want, expectOK := d.dec(c)
	bad := false
	switch {
	case pan != "":
		bad = true
		o.report("C14:Decrypt:panics:"+cls, fmt.Sprintf("Decrypt(%s) [class %s] panics instead of returning a value or an error: %s", c14S(c), cls, core.Short(pan, 160)))
	case !expectOK && err == nil:
		bad = true
		why := "outside [0,N^2)"
		if d.inRange(c) {
			why = "shares a factor with N"
		}
		o.report("C14:Decrypt:accepts:"+cls, fmt.Sprintf("Decrypt(%s) [class %s: %s] returned %s and no error", c14S(c), cls, why, c14S(m)))
	case expectOK && (err != nil || m == nil):
		bad = true
		o.report("C14:Decrypt:refuses-valid-ciphertext", fmt.Sprintf("Decrypt(%s), a unit modulo N^2 inside [0,N^2), failed: %v", c14S(c), err))
	case expectOK && m.Cmp(want) != 0:
		bad = true
		o.report("C14:Decrypt:differs-from-CRT-decryption", fmt.Sprintf("Decrypt(%s) = %s but the independent CRT decryption gives %s", c14S(c), c14S(m), c14S(want)))
	}
	ok = pan == "" && err == nil && m != nil
	if !bad {
		if k.toy {
			if c14Fits(c) {
				v := int64(0)
				if ok {
					v = m.Int64()
				}
				o.line = c14Line{"op": "Decrypt", "c": c.Int64(), "ok": ok, "v": v}
			}
		} else {
			o.line = c14Line{"op": "Class", "fn": "Decrypt", "a": cls, "b": "-", "ok": ok}
		}
	}
	return m, ok
}

// encrypt runs EncryptAndReturnRandomness (withX) or Encrypt and judges the ciphertext, including the round trip
// through the real Decrypt.
func (o *c14Op) encrypt(rnd io.Reader, m *big.Int, withX bool) (c, x *big.Int, ok bool) {
	k, d := o.k, o.k.d
	cls := k.plainClass(m)
	fn := "Encrypt"
	if withX {
		fn = "EncryptAndReturnRandomness"
	}
	var err error
	pan := c14Recover(func() {
		if withX {
			c, x, err = k.pk.EncryptAndReturnRandomness(rnd, m)
		} else {
			c, err = k.pk.Encrypt(rnd, m)
		}
	})
	o.col.call(fn, 1)
	ok = pan == "" && err == nil && c != nil
	expectOK := d.inPlain(m)
	bad := false
	switch {
	case pan != "":
		bad = true
		o.report("C14:"+fn+":panics:"+cls, fmt.Sprintf("%s(m=%s) [class %s] panics: %s", fn, c14S(m), cls, core.Short(pan, 160)))
	case !expectOK && err == nil:
		bad = true
		o.report("C14:"+fn+":accepts-plaintext:"+cls, fmt.Sprintf("%s(m=%s) [class %s, outside [0,N)] returned the ciphertext %s and no error", fn, c14S(m), cls, c14S(c)))
	case expectOK && !ok:
		bad = true
		o.report("C14:"+fn+":refuses-plaintext:"+cls, fmt.Sprintf("%s(m=%s) [class %s, inside [0,N)] failed: %v", fn, c14S(m), cls, err))
	case expectOK:
		switch {
		case !d.inRange(c):
			bad = true
			o.report("C14:"+fn+":ciphertext-outside-[0,N^2)", fmt.Sprintf("%s(m=%s) returned %s, not inside [0,N^2)", fn, c14S(m), c14S(c)))
		case !d.wellFormed(c):
			bad = true
			o.report("C14:"+fn+":ciphertext-not-a-unit", fmt.Sprintf("%s(m=%s) returned %s, which shares a factor with N (randomiser %s)", fn, c14S(m), c14S(c), c14S(x)))
		default:
			if k.sk != nil { // (a history replay that encrypts through a public key object has no private key object at hand)
				got, dok := o.decrypt(c) // judged on its own as well
				o.line = nil
				if !dok || got.Cmp(m) != 0 {
					bad = true
					o.report("C14:roundtrip:"+cls, fmt.Sprintf("Decrypt(%s(m)) != m for m=%s [class %s]: ciphertext %s decrypts to %s (ok=%v)", fn, c14S(m), cls, c14S(c), c14S(got), dok))
				}
			}
			if want, _ := d.dec(c); !bad && want.Cmp(m) != 0 {
				bad = true
				o.report("C14:"+fn+":CRT-decryption-differs-from-m:"+cls, fmt.Sprintf("%s(m=%s) returned %s, which the independent CRT decryption maps to %s", fn, c14S(m), c14S(c), c14S(want)))
			}
		}
	}
	o.line = nil
	if bad {
		return c, x, false
	}
	if withX && ok && (x == nil || x.Sign() <= 0 || x.Cmp(d.n) >= 0 || !d.coprime(x)) {
		o.col.noteDrift("EncryptAndReturnRandomness reported a randomiser that is not a unit of [1,N) although the ciphertext is sound")
		return c, x, ok
	}
	switch {
	case !k.toy:
		o.line = c14Line{"op": "Class", "fn": "Encrypt", "a": cls, "b": "-", "ok": ok}
	case !c14Fits(m):
	case withX:
		o.line = c14Line{"op": "Encrypt", "m": m.Int64(), "ok": ok, "x": int64(0), "v": int64(0)}
		if ok {
			o.line["x"], o.line["v"] = x.Int64(), c.Int64()
		}
	default:
		o.line = c14Line{"op": "EncryptAny", "m": m.Int64(), "ok": ok, "v": int64(0)}
		if ok {
			o.line["v"] = c.Int64()
		}
	}
	return c, x, ok
}

// homo runs HomoAdd(a, b) (fn = "HomoAdd": two ciphertexts) or HomoMult(a, b) (scalar a, ciphertext b).
// decryptToo: also push the result through the real Decrypt.
func (o *c14Op) homo(fn string, a, b *big.Int, decryptToo bool) (r *big.Int, ok bool) {
	k, d := o.k, o.k.d
	o.line = nil
	var err error
	pan := c14Recover(func() {
		if fn == "HomoAdd" {
			r, err = k.pk.HomoAdd(a, b)
		} else {
			r, err = k.pk.HomoMult(a, b)
		}
	})
	o.col.call(fn, 1)
	ok = pan == "" && err == nil && r != nil
	var clsA string
	var inA, unitA bool
	var want *big.Int // plaintext the result must carry when both inputs are sound
	if fn == "HomoAdd" {
		clsA, inA = k.cipherClass(a), d.inRange(a)
		unitA = d.wellFormed(a)
	} else {
		clsA, inA = k.plainClass(a), d.inPlain(a)
		unitA = inA
	}
	clsB := k.cipherClass(b)
	inB, unitB := d.inRange(b), d.wellFormed(b)
	argName := func(first bool) string {
		switch {
		case fn == "HomoAdd" && first:
			return "c1"
		case fn == "HomoAdd":
			return "c2"
		case first:
			return "scalar"
		}
		return "ciphertext"
	}
	bad := false
	switch {
	case pan != "":
		bad = true
		o.report(fmt.Sprintf("C14:%s:panics:%s,%s", fn, clsA, clsB), fmt.Sprintf("%s(%s, %s) [classes %s, %s] panics: %s", fn, c14S(a), c14S(b), clsA, clsB, core.Short(pan, 160)))
	case !(inA && inB):
		if err == nil {
			bad = true
			which, cls := argName(true), clsA
			if inA {
				which, cls = argName(false), clsB
			}
			o.report(fmt.Sprintf("C14:%s:accepts:%s=%s", fn, which, cls), fmt.Sprintf("%s(%s, %s): the %s [class %s] is outside its domain, yet %s and no error was returned", fn, c14S(a), c14S(b), which, cls, c14S(r)))
		}
	case unitA && unitB:
		if fn == "HomoAdd" {
			pa, _ := d.dec(a)
			pb, _ := d.dec(b)
			want = new(big.Int).Add(pa, pb)
		} else {
			pb, _ := d.dec(b)
			want = new(big.Int).Mul(a, pb)
		}
		want.Mod(want, d.n)
		what := map[string]string{"HomoAdd": "sum", "HomoMult": "product"}[fn]
		switch {
		case !ok:
			bad = true
			o.report("C14:"+fn+":refuses-valid-input", fmt.Sprintf("%s(%s, %s) on arguments inside their domains failed: %v", fn, c14S(a), c14S(b), err))
		case !d.inRange(r):
			bad = true
			o.report("C14:"+fn+":result-outside-[0,N^2)", fmt.Sprintf("%s(%s, %s) returned %s, not inside [0,N^2)", fn, c14S(a), c14S(b), c14S(r)))
		case !d.wellFormed(r):
			bad = true
			o.report("C14:"+fn+":result-not-a-unit", fmt.Sprintf("%s(%s, %s) returned %s, which shares a factor with N", fn, c14S(a), c14S(b), c14S(r)))
		default:
			if got, _ := d.dec(r); got.Cmp(want) != 0 {
				bad = true
				o.report("C14:"+fn+":wrong-"+what, fmt.Sprintf("%s(%s, %s) = %s carries %s (independent CRT decryption), the %s modulo N is %s", fn, c14S(a), c14S(b), c14S(r), c14S(got), what, c14S(want)))
			} else if decryptToo {
				got, dok := o.decrypt(r)
				o.line = nil
				if !dok || got.Cmp(want) != 0 {
					bad = true
					o.report("C14:"+fn+":result-does-not-decrypt-to-"+what, fmt.Sprintf("Decrypt(%s(%s, %s)) = %s (ok=%v), the %s modulo N is %s", fn, c14S(a), c14S(b), c14S(got), dok, what, c14S(want)))
				}
			}
		}
	default:
		// inside the ranges but one ciphertext shares a factor with N: the functions have no such guard (only
		// Decrypt has, and every such result is again refused by Decrypt); outcome recorded, not judged
		if !ok {
			o.col.noteDrift(fn + " refused an in-range ciphertext that shares a factor with N")
			return r, ok
		}
	}
	if bad {
		return r, false
	}
	if k.toy {
		if c14Fits(a, b) && (!ok || c14Fits(r)) {
			v := int64(0)
			if ok {
				v = r.Int64()
			}
			if fn == "HomoAdd" {
				o.line = c14Line{"op": fn, "c1": a.Int64(), "c2": b.Int64(), "ok": ok, "v": v}
			} else {
				o.line = c14Line{"op": fn, "k": a.Int64(), "c1": b.Int64(), "ok": ok, "v": v}
			}
		}
	} else {
		o.line = c14Line{"op": "Class", "fn": fn, "a": clsA, "b": clsB, "ok": ok}
	}
	return r, ok
}

// chain drives a session: fresh m | add m (real encryption + real HomoAdd) | mult k (real HomoMult); the ciphertext
// held must carry the ghost plaintext after every step (CRT) and decrypt to it at the end (real Decrypt).
func (o *c14Op) chain(rnd io.Reader, steps []c14Step) (lines []c14Line, ok bool) {
	k, d := o.k, o.k.d
	var acc, pt *big.Int
	lines = append(lines, c14Line{"op": "Reset"})
	fail := func(step int, what string) {
		var ops []string
		for _, s := range steps[:step+1] {
			ops = append(ops, s.Op)
		}
		o.report("C14:chain:"+steps[step].Op+":"+what, fmt.Sprintf("chain %s: after step %d (%s %s) the ciphertext %s %s; expected plaintext %s", strings.Join(ops, ","), step, steps[step].Op, steps[step].V, c14S(acc), what, c14S(pt)))
	}
	for i, s := range steps {
		v, good := new(big.Int).SetString(s.V, 10)
		if !good {
			return nil, false
		}
		switch s.Op {
		case "fresh", "add":
			e, x, eok := o.encrypt(rnd, v, true)
			if !eok || x == nil {
				return nil, false // already reported by encrypt (or drift)
			}
			if s.Op == "fresh" {
				acc, pt = e, new(big.Int).Set(v)
				if k.toy {
					lines = append(lines, c14Line{"op": "Fresh", "m": v.Int64(), "x": x.Int64(), "c": acc.Int64()})
				}
			} else {
				r, rok := o.homo("HomoAdd", acc, e, false)
				if !rok {
					return nil, false
				}
				acc = r
				pt = new(big.Int).Add(pt, v)
				pt.Mod(pt, d.n)
				if k.toy {
					lines = append(lines, c14Line{"op": "Add", "m": v.Int64(), "x": x.Int64(), "c": acc.Int64()})
				}
			}
		case "mult":
			r, rok := o.homo("HomoMult", v, acc, false)
			if !rok {
				return nil, false
			}
			acc = r
			pt = new(big.Int).Mul(pt, v)
			pt.Mod(pt, d.n)
			if k.toy {
				lines = append(lines, c14Line{"op": "Mult", "k": v.Int64(), "c": acc.Int64()})
			}
		default:
			return nil, false
		}
		if got, dok := d.dec(acc); !dok || got.Cmp(pt) != 0 {
			fail(i, "does-not-carry-the-expected-plaintext")
			return nil, false
		}
	}
	if acc == nil {
		return nil, false
	}
	got, dok := o.decrypt(acc)
	o.line = nil
	if !dok || got.Cmp(pt) != 0 {
		fail(len(steps)-1, "does-not-decrypt-to-the-expected-plaintext")
		return nil, false
	}
	if k.toy {
		lines = append(lines, c14Line{"op": "Dec", "ok": true, "v": got.Int64()})
	} else {
		lines = nil
	}
	return lines, true
}

// fresh: `count` encryptions of the same plaintext from one random stream. Real size: all ciphertexts differ.
// Toy size (few units): two ciphertexts coincide exactly when the reported randomisers do, and not all coincide.
func (o *c14Op) fresh(rnd io.Reader, m *big.Int, count int) bool {
	k := o.k
	type enc struct{ c, x *big.Int }
	var es []enc
	for i := 0; i < count; i++ {
		c, x, ok := o.encrypt(rnd, m, true)
		if !ok {
			return false
		}
		es = append(es, enc{c, x})
	}
	distinct := map[string]bool{}
	for i, e := range es {
		distinct[e.c.String()] = true
		for _, f := range es[:i] {
			same := e.c.Cmp(f.c) == 0
			if !k.toy && same {
				o.report("C14:Encrypt:ciphertext-repeats", fmt.Sprintf("two of %d encryptions of m=%s under a %d bit key returned the same ciphertext %s", count, c14S(m), k.d.n.BitLen(), c14S(e.c)))
				return false
			}
			if k.toy && e.x != nil && f.x != nil && same != (e.x.Cmp(f.x) == 0) {
				o.report("C14:Encrypt:ciphertext-not-determined-by-randomiser", fmt.Sprintf("encryptions of m=%s: randomisers %s, %s but ciphertexts %s, %s", c14S(m), c14S(e.x), c14S(f.x), c14S(e.c), c14S(f.c)))
				return false
			}
		}
	}
	if count >= 32 && len(distinct) < 2 {
		o.report("C14:Encrypt:ciphertext-repeats", fmt.Sprintf("%d encryptions of m=%s all returned the same ciphertext %s", count, c14S(m), c14S(es[0].c)))
		return false
	}
	return true
}

// ------------------------------------------------------------------ replay of one scenario

func c14Resolve(ref c14KeyRef, fixtures []*c14Key) (*c14Key, error) {
	switch ref.Kind {
	case "fixture":
		if ref.Idx < 0 || ref.Idx >= len(fixtures) {
			return nil, fmt.Errorf("unknown vendored set %d", ref.Idx)
		}
		return fixtures[ref.Idx], nil
	case "factors":
		p, ok1 := new(big.Int).SetString(ref.P, 10)
		q, ok2 := new(big.Int).SetString(ref.Q, 10)
		if !ok1 || !ok2 {
			return nil, fmt.Errorf("bad factors")
		}
		return c14KeyFromFactors(p, q, new(big.Int).Mul(p, q).BitLen() <= 8, ref.Note)
	}
	return nil, fmt.Errorf("unknown key kind %q", ref.Kind)
}

func c14RunScenario(sc c14Scenario, k *c14Key, col *c14Col) (lines []c14Line, err error) {
	args := make([]*big.Int, len(sc.Args))
	for i, a := range sc.Args {
		v, ok := new(big.Int).SetString(a, 10)
		if !ok {
			return nil, fmt.Errorf("bad argument %q", a)
		}
		args[i] = v
	}
	tape := make([]byte, len(sc.Tape))
	for i, b := range sc.Tape {
		tape[i] = byte(b)
	}
	rnd := newC14Tape(sc.Seed, tape...)
	o := &c14Op{k: k, col: col, sc: func() c14Scenario { return sc }}
	need := func(n int) error {
		if len(args) != n {
			return fmt.Errorf("%s needs %d arguments", sc.Op, n)
		}
		return nil
	}
	switch sc.Op {
	case "Encrypt", "EncryptAny":
		if err := need(1); err != nil {
			return nil, err
		}
		o.encrypt(rnd, args[0], sc.Op == "Encrypt")
	case "Decrypt":
		if err := need(1); err != nil {
			return nil, err
		}
		o.decrypt(args[0])
	case "HomoAdd", "HomoMult":
		if err := need(2); err != nil {
			return nil, err
		}
		o.homo(sc.Op, args[0], args[1], true)
	case "Chain":
		ls, _ := o.chain(rnd, sc.Steps)
		return ls, nil
	case "History":
		return nil, fmt.Errorf("a History scenario is replayed with c14RunHistory")
	case "Fresh":
		if err := need(1); err != nil {
			return nil, err
		}
		o.fresh(rnd, args[0], sc.Count)
		o.line = nil
	default:
		return nil, fmt.Errorf("unknown operation %q", sc.Op)
	}
	if o.line != nil {
		lines = append(lines, o.line)
	}
	return lines, nil
}

// c14Rng derives a private generator.
func c14Rng(seed int64, salt int64) *rand.Rand { return rand.New(rand.NewSource(seed*1000003 + salt)) }
