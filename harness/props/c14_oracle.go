package props

// C14 - independent arithmetic: Paillier decryption by CRT with the prime factors, the encryption formula,
// and the predicate "this is a good key" with math/big. Nothing of crypto/paillier is used here.

import (
	"fmt"
	"io"
	"math/big"
	"math/rand"
	"sync"
)

var (
	c14Zero = big.NewInt(0)
	c14One  = big.NewInt(1)
	c14Two  = big.NewInt(2)
)

func c14L(x, p *big.Int) *big.Int {
	return new(big.Int).Div(new(big.Int).Sub(x, c14One), p)
}

// c14Dec decrypts with the factors: m_p = L_p(c^(p-1) mod p^2) * h_p mod p, likewise for q, then CRT
// (the library decrypts with lambda over N^2).
type c14Dec struct {
	p, q, n, n2, p2, q2, pm1, qm1, hp, hq, pInvQ *big.Int
}

func newC14Dec(p, q *big.Int, primeRounds int) (*c14Dec, error) {
	if p == nil || q == nil || p.Cmp(q) == 0 || !p.ProbablyPrime(primeRounds) || !q.ProbablyPrime(primeRounds) {
		return nil, fmt.Errorf("not two distinct primes")
	}
	d := &c14Dec{p: p, q: q}
	d.n = new(big.Int).Mul(p, q)
	d.n2 = new(big.Int).Mul(d.n, d.n)
	d.p2 = new(big.Int).Mul(p, p)
	d.q2 = new(big.Int).Mul(q, q)
	d.pm1 = new(big.Int).Sub(p, c14One)
	d.qm1 = new(big.Int).Sub(q, c14One)
	g := new(big.Int).Add(d.n, c14One)
	d.hp = new(big.Int).ModInverse(c14L(new(big.Int).Exp(g, d.pm1, d.p2), p), p)
	d.hq = new(big.Int).ModInverse(c14L(new(big.Int).Exp(g, d.qm1, d.q2), q), q)
	d.pInvQ = new(big.Int).ModInverse(p, q)
	if d.hp == nil || d.hq == nil || d.pInvQ == nil {
		return nil, fmt.Errorf("CRT constants do not exist (gcd(N, phi) != 1)")
	}
	return d, nil
}

func (d *c14Dec) inRange(c *big.Int) bool { return c != nil && c.Sign() >= 0 && c.Cmp(d.n2) < 0 }
func (d *c14Dec) inPlain(m *big.Int) bool { return m != nil && m.Sign() >= 0 && m.Cmp(d.n) < 0 }
func (d *c14Dec) coprime(c *big.Int) bool {
	return new(big.Int).GCD(nil, nil, new(big.Int).Abs(c), d.n).Cmp(c14One) == 0
}

// wellFormed: c in [0, N^2) and a unit modulo N^2.
func (d *c14Dec) wellFormed(c *big.Int) bool { return d.inRange(c) && c.Sign() > 0 && d.coprime(c) }

func (d *c14Dec) dec(c *big.Int) (*big.Int, bool) {
	if !d.wellFormed(c) {
		return nil, false
	}
	mp := c14L(new(big.Int).Exp(c, d.pm1, d.p2), d.p)
	mp.Mul(mp, d.hp).Mod(mp, d.p)
	mq := c14L(new(big.Int).Exp(c, d.qm1, d.q2), d.q)
	mq.Mul(mq, d.hq).Mod(mq, d.q)
	t := new(big.Int).Sub(mq, mp)
	t.Mul(t, d.pInvQ).Mod(t, d.q)
	return t.Mul(t, d.p).Add(t, mp), true
}

// enc builds (1 + m*N) * r^N mod N^2.
func (d *c14Dec) enc(m, r *big.Int) *big.Int {
	c := new(big.Int).Mul(new(big.Int).Mod(m, d.n), d.n)
	c.Add(c, c14One)
	c.Mul(c, new(big.Int).Exp(r, d.n, d.n2))
	return c.Mod(c, d.n2)
}

func (d *c14Dec) randUnit(rng *rand.Rand) *big.Int {
	for {
		x := new(big.Int).Rand(rng, d.n)
		if x.Sign() > 0 && d.coprime(x) {
			return x
		}
	}
}

func (d *c14Dec) selfCheck(rng *rand.Rand) error {
	nm1 := new(big.Int).Sub(d.n, c14One)
	for _, m := range []*big.Int{big.NewInt(0), big.NewInt(1), nm1, new(big.Int).Rand(rng, d.n)} {
		got, ok := d.dec(d.enc(m, d.randUnit(rng)))
		if !ok || got.Cmp(m) != 0 {
			return fmt.Errorf("CRT decryption does not invert the encryption formula")
		}
	}
	a, b := new(big.Int).Rand(rng, d.n), new(big.Int).Rand(rng, d.n)
	prod := new(big.Int).Mul(d.enc(a, d.randUnit(rng)), d.enc(b, d.randUnit(rng)))
	got, ok := d.dec(prod.Mod(prod, d.n2))
	want := new(big.Int).Add(a, b)
	if !ok || got.Cmp(want.Mod(want, d.n)) != 0 {
		return fmt.Errorf("CRT decryption of a product is not the sum")
	}
	for _, bad := range []*big.Int{big.NewInt(0), d.n, d.p, d.n2, big.NewInt(-1)} {
		if _, ok := d.dec(bad); ok {
			return fmt.Errorf("CRT decryption accepted %s", bad.String())
		}
	}
	return nil
}

// ------------------------------------------------------------------ key predicate

func c14IsSafePrime(p *big.Int, rounds int) bool {
	if p == nil || p.Sign() <= 0 || p.Bit(0) == 0 || !p.ProbablyPrime(rounds) {
		return false
	}
	h := new(big.Int).Rsh(p, 1) // (p-1)/2
	return h.ProbablyPrime(rounds)
}

// c14KeyDefects lists what is wrong with a key returned for a request of `bits` bits (empty: good key).
// judgeLen = false for requests the statement cannot apply to (odd lengths).
func c14KeyDefects(bits int, judgeLen bool, p, q, n, lambda, phi, pubN *big.Int) []string {
	var out []string
	for _, v := range []*big.Int{p, q, n, lambda, phi, pubN} {
		if v == nil {
			return []string{"nil-field"}
		}
	}
	if !c14IsSafePrime(p, 32) || !c14IsSafePrime(q, 32) {
		out = append(out, "factor-not-a-safe-prime")
	}
	if p.Cmp(q) == 0 {
		out = append(out, "factors-equal")
	}
	if new(big.Int).Mul(p, q).Cmp(n) != 0 {
		out = append(out, "N-is-not-P*Q")
	}
	if pubN.Cmp(n) != 0 {
		out = append(out, "public-N-differs")
	}
	if judgeLen && n.BitLen() != bits {
		out = append(out, "modulus-bit-length")
	}
	if d := new(big.Int).Sub(p, q); p.Cmp(q) != 0 && d.BitLen() < bits/2-3 {
		out = append(out, "factors-not-far-apart")
	}
	pm1, qm1 := new(big.Int).Sub(p, c14One), new(big.Int).Sub(q, c14One)
	if new(big.Int).Mul(pm1, qm1).Cmp(phi) != 0 {
		out = append(out, "phi-mismatch")
	}
	// lambda is the least common multiple: a multiple of both, and (p-1)(q-1)/lambda = gcd
	g := new(big.Int).GCD(nil, nil, pm1, qm1)
	lcm := new(big.Int).Div(new(big.Int).Mul(pm1, qm1), g)
	if lambda.Cmp(lcm) != 0 {
		out = append(out, "lambda-mismatch")
	}
	return out
}

// ------------------------------------------------------------------ byte sources

// c14Tape yields the given bytes first and then the bytes of a seeded stream. It only DRIVES which randomiser
// the library draws (go's rand.Int reads ceil(bits/8) bytes big-endian); nothing is predicted from it: the
// randomiser the library reports is what gets logged and counted.
type c14Tape struct {
	mu   sync.Mutex
	pre  []byte
	rest *rand.Rand
}

func newC14Tape(seed int64, pre ...byte) *c14Tape {
	return &c14Tape{pre: pre, rest: rand.New(rand.NewSource(seed))}
}

func (t *c14Tape) Read(b []byte) (int, error) {
	t.mu.Lock()
	defer t.mu.Unlock()
	n := copy(b, t.pre)
	t.pre = t.pre[n:]
	if n < len(b) {
		t.rest.Read(b[n:])
	}
	return len(b), nil
}

var _ io.Reader = (*c14Tape)(nil)
