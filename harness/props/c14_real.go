package props

// C14 - real size: the vendored 2048 bit keys (and every key the library generates during the key generation
// phase): sampled plaintexts {0, 1, N-1, N/2, random}, pairs and chains for the homomorphic laws, values just outside
// every bound, ciphertexts sharing a factor with N, freshness. Judged with the independent CRT decryption.

import (
	"math/big"
	"math/rand"
	"sync"
)

// c14RealScenarios: one round of scenarios for key k (about 100; `light` = the dozen run on each generated key).
func c14RealScenarios(k *c14Key, rng *rand.Rand, seed int64, light bool) []c14Scenario {
	d := k.d
	n, n2 := d.n, d.n2
	bi := big.NewInt
	sub := func(a, b *big.Int) *big.Int { return new(big.Int).Sub(a, b) }
	addi := func(a, b *big.Int) *big.Int { return new(big.Int).Add(a, b) }
	mul := func(a, b *big.Int) *big.Int { return new(big.Int).Mul(a, b) }
	rnd := func(below *big.Int) *big.Int { return new(big.Int).Rand(rng, below) }
	rndPos := func(below *big.Int) *big.Int { return addi(rnd(sub(below, c14One)), c14One) } // [1, below)
	small := rnd(new(big.Int).Lsh(c14One, uint(minInt(64, n.BitLen()-1))))
	plains := []*big.Int{bi(0), bi(1), sub(n, c14One), new(big.Int).Rsh(n, 1), rnd(n), small}
	badPlains := []*big.Int{bi(-1), new(big.Int).Neg(rndPos(n)), new(big.Int).Set(n), addi(n, c14One), addi(n, rndPos(n)), mul(n, bi(2)), new(big.Int).Set(n2)}
	ct := func(m *big.Int) *big.Int { return d.enc(m, d.randUnit(rng)) } // well-formed ciphertext by the harness's own formula
	valid := ct(rnd(n))
	badCts := []*big.Int{bi(-1), new(big.Int).Neg(valid), new(big.Int).Set(n2), addi(n2, c14One), addi(n2, valid)}
	nonUnits := []*big.Int{bi(0), new(big.Int).Set(n), new(big.Int).Set(d.p), new(big.Int).Set(d.q),
		mul(d.p, d.randUnit(rng)), mul(d.q, d.randUnit(rng)), mul(n, rndPos(n)), mul(d.p, d.p)}
	var out []c14Scenario
	next := int64(0)
	add := func(sc c14Scenario) {
		next++
		sc.Key = k.Ref
		sc.Seed = seed*4099 + next
		out = append(out, sc)
	}
	pick := func(vs []*big.Int) *big.Int { return vs[rng.Intn(len(vs))] }
	if light {
		for _, m := range plains[:5] {
			add(c14Scenario{Op: "Encrypt", Args: c14Strs(m)})
		}
		add(c14Scenario{Op: "Encrypt", Args: c14Strs(badPlains[2])})
		add(c14Scenario{Op: "Decrypt", Args: c14Strs(nonUnits[4])})
		add(c14Scenario{Op: "Decrypt", Args: c14Strs(badCts[2])})
		add(c14Scenario{Op: "HomoAdd", Args: c14Strs(ct(pick(plains)), ct(pick(plains)))})
		add(c14Scenario{Op: "HomoMult", Args: c14Strs(pick(plains), ct(pick(plains)))})
		add(c14Scenario{Op: "Chain", Steps: c14RandomChain(rng, n, 3)})
		add(c14Scenario{Op: "Fresh", Args: c14Strs(plains[4]), Count: 2})
		return out
	}
	for _, m := range plains {
		add(c14Scenario{Op: "Encrypt", Args: c14Strs(m)})
		add(c14Scenario{Op: "EncryptAny", Args: c14Strs(m)})
	}
	for _, m := range badPlains {
		add(c14Scenario{Op: "Encrypt", Args: c14Strs(m)})
		add(c14Scenario{Op: "EncryptAny", Args: c14Strs(m)})
	}
	add(c14Scenario{Op: "Fresh", Args: c14Strs(bi(0)), Count: 2})
	add(c14Scenario{Op: "Fresh", Args: c14Strs(rnd(n)), Count: 3})
	for _, m := range plains {
		add(c14Scenario{Op: "Decrypt", Args: c14Strs(ct(m))})
	}
	add(c14Scenario{Op: "Decrypt", Args: c14Strs(bi(1))})
	add(c14Scenario{Op: "Decrypt", Args: c14Strs(sub(n2, c14One))})
	add(c14Scenario{Op: "Decrypt", Args: c14Strs(rndUnitBelow(d, rng))})
	for _, c := range append(append([]*big.Int{}, badCts...), nonUnits...) {
		add(c14Scenario{Op: "Decrypt", Args: c14Strs(c)})
	}
	// pairs: all of {0,1,N-1}^2 (wrap-around of the sum) plus random ones
	for _, a := range plains[:3] {
		for _, b := range plains[:3] {
			add(c14Scenario{Op: "HomoAdd", Args: c14Strs(ct(a), ct(b))})
		}
	}
	for i := 0; i < 5; i++ {
		add(c14Scenario{Op: "HomoAdd", Args: c14Strs(ct(pick(plains)), ct(rnd(n)))})
	}
	for _, c := range badCts {
		add(c14Scenario{Op: "HomoAdd", Args: c14Strs(c, ct(rnd(n)))})
		add(c14Scenario{Op: "HomoAdd", Args: c14Strs(ct(rnd(n)), c)})
	}
	add(c14Scenario{Op: "HomoAdd", Args: c14Strs(pick(nonUnits[1:]), ct(rnd(n)))}) // recorded, not judged
	scalars := []*big.Int{bi(0), bi(1), bi(2), sub(n, c14One), rnd(n)}
	for _, s := range scalars {
		add(c14Scenario{Op: "HomoMult", Args: c14Strs(s, ct(pick(plains)))})
		add(c14Scenario{Op: "HomoMult", Args: c14Strs(s, ct(rnd(n)))})
	}
	for _, s := range badPlains {
		add(c14Scenario{Op: "HomoMult", Args: c14Strs(s, ct(rnd(n)))})
	}
	for _, c := range badCts {
		add(c14Scenario{Op: "HomoMult", Args: c14Strs(pick(scalars), c)})
	}
	add(c14Scenario{Op: "HomoMult", Args: c14Strs(bi(2), pick(nonUnits[1:]))}) // recorded, not judged
	// triples and longer: (m1 + m2) + m3, k * (m1 + m2), k1 * (k2 * m), ...
	fixed := [][]c14Step{
		{{"fresh", "1"}, {"add", sub(n, c14One).String()}, {"add", "1"}},
		{{"fresh", rnd(n).String()}, {"add", rnd(n).String()}, {"add", rnd(n).String()}},
		{{"fresh", rnd(n).String()}, {"add", rnd(n).String()}, {"mult", rnd(n).String()}},
		{{"fresh", rnd(n).String()}, {"mult", rnd(n).String()}, {"mult", rnd(n).String()}},
		{{"fresh", sub(n, c14One).String()}, {"mult", sub(n, c14One).String()}, {"add", sub(n, c14One).String()}},
		{{"fresh", rnd(n).String()}, {"mult", "0"}, {"add", rnd(n).String()}},
	}
	for _, st := range fixed {
		add(c14Scenario{Op: "Chain", Steps: st})
	}
	for i := 0; i < 3; i++ {
		add(c14Scenario{Op: "Chain", Steps: c14RandomChain(rng, n, 2+rng.Intn(3))})
	}
	return out
}

func rndUnitBelow(d *c14Dec, rng *rand.Rand) *big.Int {
	for {
		c := new(big.Int).Rand(rng, d.n2)
		if d.wellFormed(c) {
			return c
		}
	}
}

func minInt(a, b int) int {
	if a < b {
		return a
	}
	return b
}

type c14Job struct {
	k  *c14Key
	sc c14Scenario
}

// c14RunJobs runs scenarios on a pool; returns the trace lines (class lines for keys that do not fit TLC).
func c14RunJobs(jobs []c14Job, workers int, col *c14Col) (lines []c14Line, errs []error) {
	var mu sync.Mutex
	var wg sync.WaitGroup
	ch := make(chan c14Job)
	for w := 0; w < workers; w++ {
		wg.Add(1)
		go func() {
			defer wg.Done()
			for j := range ch {
				ls, err := c14RunScenario(j.sc, j.k, col)
				mu.Lock()
				if err != nil {
					errs = append(errs, err)
				}
				lines = append(lines, ls...)
				mu.Unlock()
			}
		}()
	}
	for _, j := range jobs {
		ch <- j
	}
	close(ch)
	wg.Wait()
	return
}
