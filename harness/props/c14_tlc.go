package props

// C14 - the TLC side: model checking of Paillier.tla / PaillierKeyGen.tla and validation of the recorded real calls
// against Paillier_Trace.tla / PaillierKeyGen_Trace.tla.

import (
	"encoding/json"
	"fmt"
	"os"
	"path/filepath"
	"regexp"
	"strconv"
	"strings"
	"time"

	"verif/harness/tlc"
)

const c14Invs = "TypeOK AccIsUnit AccDecrypts RoundTrip EncIsUnit EncBijective AddLaw MultLaw GuardTable DecryptSound"
const c14KeyInvs = "TypeOK KeyIsGood OddRequestOneShort LambdaIsHalfPhi TopTwoBits"

type c14MC struct {
	P, Q         int64
	AddMs, AddXs string // TLA+ set expressions
	Full         bool
	Label        string
}

func c14Bool(b bool) string {
	if b {
		return "TRUE"
	}
	return "FALSE"
}

var c14SemTLC = make(chan struct{}, 6) // JVMs running at the same time

var reC14DecTable = regexp.MustCompile(`"DECTABLE (\[[-0-9,]*\])"`)

// c14RunMC model-checks Paillier.tla for one toy key and returns TLC's decryption table of [0, N^2)
// (-1 = refused), which the harness compares with its own CRT decryption.
func c14RunMC(m c14MC, workers int, timeout time.Duration) (tlc.Result, []int64, error) {
	c14SemTLC <- struct{}{}
	defer func() { <-c14SemTLC }()
	wrap := fmt.Sprintf(`---- MODULE MC_Paillier ----
EXTENDS Paillier, Json
AddMsVal == %s
AddXsVal == %s
DecTable == [i \in 1..N2 |-> IF Decrypt(i - 1).ok THEN Decrypt(i - 1).v ELSE 0 - 1]
ASSUME PrintT("DECTABLE " \o ToJson(DecTable))
====
`, m.AddMs, m.AddXs)
	cfg := fmt.Sprintf("SPECIFICATION Spec\nCONSTANTS\n  P = %d\n  Q = %d\n  AddMs <- AddMsVal\n  AddXs <- AddXsVal\n  FullLaws = %s\nINVARIANTS %s\nCHECK_DEADLOCK FALSE\n",
		m.P, m.Q, c14Bool(m.Full), c14Invs)
	r := tlc.Run(tlc.Options{Module: "MC_Paillier", Cfg: cfg, Workers: workers, Heap: "2g", Timeout: timeout,
		Files: map[string]string{"MC_Paillier.tla": wrap}})
	if r.Err != nil {
		return r, nil, fmt.Errorf("Paillier.tla N=%d: %v", m.P*m.Q, r.Err)
	}
	if !r.OK {
		return r, nil, fmt.Errorf("Paillier.tla N=%d violates %s:\n%s", m.P*m.Q, r.Violated, r.ErrorTrace(2000))
	}
	mt := reC14DecTable.FindStringSubmatch(r.Output)
	if mt == nil {
		return r, nil, fmt.Errorf("Paillier.tla N=%d: TLC did not print its decryption table", m.P*m.Q)
	}
	var tab []int64
	if err := json.Unmarshal([]byte(mt[1]), &tab); err != nil {
		return r, nil, fmt.Errorf("Paillier.tla N=%d: decryption table unreadable: %v", m.P*m.Q, err)
	}
	return r, tab, nil
}

func c14BitsSet(bits []int) string {
	s := make([]string, len(bits))
	for i, b := range bits {
		s[i] = strconv.Itoa(b)
	}
	return "{" + strings.Join(s, ", ") + "}"
}

var reC14KeyGen = regexp.MustCompile(`<<"KEYGEN", (\d+), (\d+), (\d+)>>`)

// c14RunKeyGenMC model-checks PaillierKeyGen.tla; per requested length: number of safe primes the generator model
// delivers and number of acceptable ordered pairs (0: the real loop cannot end).
func c14RunKeyGenMC(bits []int, workers int, timeout time.Duration) (tlc.Result, map[int][2]int, error) {
	c14SemTLC <- struct{}{}
	defer func() { <-c14SemTLC }()
	wrap := fmt.Sprintf("---- MODULE MC_PaillierKeyGen ----\nEXTENDS PaillierKeyGen\nBitsVal == %s\n====\n", c14BitsSet(bits))
	cfg := fmt.Sprintf("SPECIFICATION Spec\nCONSTANTS\n  BitsSet <- BitsVal\nINVARIANTS %s\nCHECK_DEADLOCK FALSE\n", c14KeyInvs)
	r := tlc.Run(tlc.Options{Module: "MC_PaillierKeyGen", Cfg: cfg, Workers: workers, Heap: "2g", Timeout: timeout,
		Files: map[string]string{"MC_PaillierKeyGen.tla": wrap}})
	if r.Err != nil {
		return r, nil, fmt.Errorf("PaillierKeyGen.tla: %v", r.Err)
	}
	if !r.OK {
		return r, nil, fmt.Errorf("PaillierKeyGen.tla violates %s:\n%s", r.Violated, r.ErrorTrace(2000))
	}
	feas := map[int][2]int{}
	for _, m := range reC14KeyGen.FindAllStringSubmatch(r.Output, -1) {
		b, _ := strconv.Atoi(m[1])
		sp, _ := strconv.Atoi(m[2])
		acc, _ := strconv.Atoi(m[3])
		feas[b] = [2]int{sp, acc}
	}
	for _, b := range bits {
		if _, ok := feas[b]; !ok {
			return r, nil, fmt.Errorf("PaillierKeyGen.tla printed no KEYGEN line for %d bits", b)
		}
	}
	return r, feas, nil
}

type c14TraceVerdict struct {
	Label    string
	Lines    int
	SelfRej  int // in-run self-test: corrupted copies rejected ...
	SelfN    int // ... out of
	Accepted bool
	FailLine int // 1-based, 0 unknown
	FailText string
	Res      tlc.Result
}

// c14Validate runs a trace module over the lines.
var reC14Self = regexp.MustCompile(`<<"SELFTEST", (\d+), (\d+)>>`)

func c14WriteLines(lines []c14Line) (path string, text []string, err error) {
	tmpBase := os.Getenv("VERIF_TMP")
	if tmpBase == "" {
		tmpBase = os.TempDir()
	}
	tf, err := os.CreateTemp(tmpBase, "verif-c14-trace-*.ndjson")
	if err != nil {
		return "", nil, err
	}
	text = make([]string, len(lines))
	var sb strings.Builder
	for i, l := range lines {
		bz, err := json.Marshal(l)
		if err != nil {
			tf.Close()
			os.Remove(tf.Name())
			return "", nil, err
		}
		text[i] = string(bz)
		sb.Write(bz)
		sb.WriteByte('\n')
	}
	_, err = tf.WriteString(sb.String())
	tf.Close()
	if err != nil {
		os.Remove(tf.Name())
		return "", nil, err
	}
	abs, _ := filepath.Abs(tf.Name())
	return abs, text, nil
}

// c14Validate runs a trace module over the lines; bad (may be empty) are corrupted copies of logged calls that the
// same run must refuse to explain (in-run self-test of the binding).
func c14Validate(label, module, wrapper, cfg string, lines, bad []c14Line, timeout time.Duration) (c14TraceVerdict, error) {
	v := c14TraceVerdict{Label: label, Lines: len(lines)}
	if len(lines) == 0 {
		v.Accepted = true
		return v, nil
	}
	abs, text, err := c14WriteLines(lines)
	if err != nil {
		return v, err
	}
	defer os.Remove(abs)
	env := map[string]string{"TRACE": abs}
	if len(bad) > 0 {
		badPath, _, err := c14WriteLines(bad)
		if err != nil {
			return v, err
		}
		defer os.Remove(badPath)
		env["BAD"] = badPath
	}
	c14SemTLC <- struct{}{}
	r := tlc.Run(tlc.Options{Module: "MC_" + module, Cfg: cfg, Env: env, Workers: 1, Heap: "2g",
		Timeout: timeout, Files: map[string]string{"MC_" + module + ".tla": wrapper}})
	<-c14SemTLC
	v.Res = r
	if r.Err != nil {
		return v, fmt.Errorf("%s: %v", label, r.Err)
	}
	if m := reC14Self.FindStringSubmatch(r.Output); m != nil {
		v.SelfRej, _ = strconv.Atoi(m[1])
		v.SelfN, _ = strconv.Atoi(m[2])
	}
	if r.HW == len(lines) && (v.SelfN != len(bad) || v.SelfRej != v.SelfN) {
		return v, fmt.Errorf("%s: self-test failed: TLC explained %d of the %d corrupted copies of logged calls (%d handed over)", label, v.SelfN-v.SelfRej, v.SelfN, len(bad))
	}
	v.Accepted = r.OK && r.HW == len(lines)
	if !v.Accepted {
		line := r.HW + 1
		if r.Violated != "" && r.Violated != "TraceAccepted" {
			line = r.HW
		}
		if line >= 1 && line <= len(lines) {
			v.FailLine, v.FailText = line, text[line-1]
		}
	}
	return v, nil
}

func c14ValidatePaillier(label string, p, q int64, lines, bad []c14Line, timeout time.Duration) (c14TraceVerdict, error) {
	wrap := "---- MODULE MC_Paillier_Trace ----\nEXTENDS Paillier_Trace\nAddMsVal == {}\nAddXsVal == {}\n====\n"
	cfg := fmt.Sprintf("SPECIFICATION TraceSpec\nCONSTANTS\n  P = %d\n  Q = %d\n  AddMs <- AddMsVal\n  AddXs <- AddXsVal\n  FullLaws = FALSE\nINVARIANTS TraceInv\nCONSTRAINT HighWater\nPOSTCONDITION TraceAccepted\nCHECK_DEADLOCK FALSE\n", p, q)
	return c14Validate(label, "Paillier_Trace", wrap, cfg, lines, bad, timeout)
}

func c14ValidateKeyGen(label string, bits []int, lines, bad []c14Line, timeout time.Duration) (c14TraceVerdict, error) {
	wrap := fmt.Sprintf("---- MODULE MC_PaillierKeyGen_Trace ----\nEXTENDS PaillierKeyGen_Trace\nBitsVal == %s\n====\n", c14BitsSet(bits))
	cfg := "SPECIFICATION TraceSpec\nCONSTANTS\n  BitsSet <- BitsVal\nINVARIANTS TraceInv\nCONSTRAINT HighWater\nPOSTCONDITION TraceAccepted\nCHECK_DEADLOCK FALSE\n"
	return c14Validate(label, "PaillierKeyGen_Trace", wrap, cfg, lines, bad, timeout)
}

// c14Corrupt copies the lines up to and a little beyond a chosen value-bearing line and alters that one value by one.
// Returns the corrupted prefix and the 1-based index of the altered line (0: nothing suitable).
func c14Corrupt(lines []c14Line, field string, ops map[string]bool, pick int) ([]c14Line, int) {
	var cand []int
	for i, l := range lines {
		op, _ := l["op"].(string)
		okv, hasOK := l["ok"].(bool)
		if ops[op] && (!hasOK || okv) {
			if _, isInt := l[field].(int64); isInt {
				cand = append(cand, i)
			}
		}
		if len(cand) >= 400 {
			break
		}
	}
	if len(cand) == 0 {
		return nil, 0
	}
	i := cand[c14Abs(pick)%len(cand)]
	end := i + 4
	if end > len(lines) {
		end = len(lines)
	}
	out := make([]c14Line, end)
	copy(out, lines[:end])
	alt := c14Line{}
	for k, v := range lines[i] {
		alt[k] = v
	}
	alt[field] = alt[field].(int64) + 1
	out[i] = alt
	return out, i + 1
}

// c14BadCopies returns up to n copies of logged calls (of the given operations, successful ones) in which the named
// field was altered: an integer by one, a boolean negated.
func c14BadCopies(lines []c14Line, fields map[string]string, n, pick int) []c14Line {
	byOp := map[string][]int{}
	var ops []string
	for i, l := range lines {
		op, _ := l["op"].(string)
		f, want := fields[op]
		if !want {
			continue
		}
		if okv, hasOK := l["ok"].(bool); hasOK && !okv && f != "ok" {
			continue
		}
		if _, seen := byOp[op]; !seen {
			ops = append(ops, op)
		}
		byOp[op] = append(byOp[op], i)
	}
	var out []c14Line
	for round := 0; len(out) < n && round < n; round++ {
		for _, op := range ops {
			if len(out) >= n {
				break
			}
			idx := byOp[op]
			src := lines[idx[c14Abs(pick+round*7919)%len(idx)]]
			alt := c14Line{}
			for k, v := range src {
				alt[k] = v
			}
			switch v := alt[fields[op]].(type) {
			case int64:
				alt[fields[op]] = v + 1
			case int:
				alt[fields[op]] = v + 1
			case bool:
				alt[fields[op]] = !v
			default:
				continue
			}
			out = append(out, alt)
		}
	}
	return out
}

func c14Abs(x int) int {
	if x < 0 {
		return -x
	}
	return x
}
