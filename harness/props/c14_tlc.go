package props

// C14 - the TLC side: model checking of Paillier.tla / PaillierKeyGen.tla and validation of the recorded real calls
// against Paillier_Trace.tla / PaillierKeyGen_Trace.tla.

import (
	"encoding/json"
	"fmt"
	"os"
	"path/filepath"
	"regexp"
	"sort"
	"strconv"
	"strings"
	"time"

	"verif/harness/tlc"
)

const c14Invs = "TypeOK AccIsUnit AccDecrypts RoundTrip EncIsUnit EncBijective AddLaw MultLaw GuardTable DecryptSound"
const c14KeyInvs = "TypeOK KeyIsGood OddRequestOneShort LambdaIsHalfPhi TopTwoBits"

type c14MC struct {
	P, Q         int64
	AddMs, AddXs string // TLA+ set expressions
	Full         bool
	Label        string
}

func c14Bool(b bool) string {
	if b {
		return "TRUE"
	}
	return "FALSE"
}

var c14SemTLC = make(chan struct{}, 6) // JVMs running at the same time

var reC14DecTable = regexp.MustCompile(`"DECTABLE (\[[-0-9,]*\])"`)

// c14RunMC model-checks Paillier.tla for one toy key and returns TLC's decryption table of [0, N^2)
// (-1 = refused), which the harness compares with its own CRT decryption.
func c14RunMC(m c14MC, workers int, timeout time.Duration) (tlc.Result, []int64, error) {
	c14SemTLC <- struct{}{}
	defer func() { <-c14SemTLC }()
	wrap := fmt.Sprintf(`---- MODULE MC_Paillier ----
EXTENDS Paillier, Json
AddMsVal == %s
AddXsVal == %s
DecTable == [i \in 1..N2 |-> IF Decrypt(i - 1).ok THEN Decrypt(i - 1).v ELSE 0 - 1]
ASSUME PrintT("DECTABLE " \o ToJson(DecTable))
====
`, m.AddMs, m.AddXs)
	cfg := fmt.Sprintf("SPECIFICATION Spec\nCONSTANTS\n  P = %d\n  Q = %d\n  AddMs <- AddMsVal\n  AddXs <- AddXsVal\n  FullLaws = %s\nINVARIANTS %s\nCHECK_DEADLOCK FALSE\n",
		m.P, m.Q, c14Bool(m.Full), c14Invs)
	r := tlc.Run(tlc.Options{Module: "MC_Paillier", Cfg: cfg, Workers: workers, Heap: "2g", Timeout: timeout,
		Files: map[string]string{"MC_Paillier.tla": wrap}})
	if r.Err != nil {
		return r, nil, fmt.Errorf("Paillier.tla N=%d: %v", m.P*m.Q, r.Err)
	}
	if !r.OK {
		return r, nil, fmt.Errorf("Paillier.tla N=%d violates %s:\n%s", m.P*m.Q, r.Violated, r.ErrorTrace(2000))
	}
	mt := reC14DecTable.FindStringSubmatch(r.Output)
	if mt == nil {
		return r, nil, fmt.Errorf("Paillier.tla N=%d: TLC did not print its decryption table", m.P*m.Q)
	}
	var tab []int64
	if err := json.Unmarshal([]byte(mt[1]), &tab); err != nil {
		return r, nil, fmt.Errorf("Paillier.tla N=%d: decryption table unreadable: %v", m.P*m.Q, err)
	}
	return r, tab, nil
}

func c14BitsSet(bits []int) string {
	s := make([]string, len(bits))
	for i, b := range bits {
		s[i] = strconv.Itoa(b)
	}
	return "{" + strings.Join(s, ", ") + "}"
}

var reC14KeyGen = regexp.MustCompile(`<<"KEYGEN", (\d+), (\d+), (\d+)>>`)
var reC14KeyClass = regexp.MustCompile(`<<"KEYCLASS", (\d+), (\d+), (\d+)>>`)

// c14SizeClass is one residue class of (requested length / 2) modulo 8: the lengths of the plan that fall into it and
// the number of bits in the top byte of the generator's candidate (which code path forces the second bit).
type c14SizeClass struct {
	Class, TopBits int
	Sizes          []int
}

// c14RunKeyGenMC model-checks PaillierKeyGen.tla; per requested length: number of safe primes the generator model
// delivers and number of acceptable ordered pairs (0: the real loop cannot end); and the catalogue of size classes
// of the offered plan sizes.
func c14RunKeyGenMC(bits, plan []int, workers int, timeout time.Duration) (tlc.Result, map[int][2]int, []c14SizeClass, error) {
	c14SemTLC <- struct{}{}
	defer func() { <-c14SemTLC }()
	wrap := fmt.Sprintf("---- MODULE MC_PaillierKeyGen ----\nEXTENDS PaillierKeyGen\nBitsVal == %s\nPlanVal == %s\n====\n", c14BitsSet(bits), c14BitsSet(plan))
	cfg := fmt.Sprintf("SPECIFICATION Spec\nCONSTANTS\n  BitsSet <- BitsVal\n  PlanSizes <- PlanVal\nINVARIANTS %s\nCHECK_DEADLOCK FALSE\n", c14KeyInvs)
	r := tlc.Run(tlc.Options{Module: "MC_PaillierKeyGen", Cfg: cfg, Workers: workers, Heap: "2g", Timeout: timeout,
		Files: map[string]string{"MC_PaillierKeyGen.tla": wrap}})
	if r.Err != nil {
		return r, nil, nil, fmt.Errorf("PaillierKeyGen.tla: %v", r.Err)
	}
	if !r.OK {
		return r, nil, nil, fmt.Errorf("PaillierKeyGen.tla violates %s:\n%s", r.Violated, r.ErrorTrace(2000))
	}
	feas := map[int][2]int{}
	for _, m := range reC14KeyGen.FindAllStringSubmatch(r.Output, -1) {
		b, _ := strconv.Atoi(m[1])
		sp, _ := strconv.Atoi(m[2])
		acc, _ := strconv.Atoi(m[3])
		feas[b] = [2]int{sp, acc}
	}
	for _, b := range bits {
		if _, ok := feas[b]; !ok {
			return r, nil, nil, fmt.Errorf("PaillierKeyGen.tla printed no KEYGEN line for %d bits", b)
		}
	}
	byClass := map[int]*c14SizeClass{}
	rows := 0
	for _, m := range reC14KeyClass.FindAllStringSubmatch(r.Output, -1) {
		c, _ := strconv.Atoi(m[1])
		tb, _ := strconv.Atoi(m[2])
		b, _ := strconv.Atoi(m[3])
		if byClass[c] == nil {
			byClass[c] = &c14SizeClass{Class: c, TopBits: tb}
		}
		byClass[c].Sizes = append(byClass[c].Sizes, b)
		rows++
	}
	var classes []c14SizeClass
	for c := 0; c < 8; c++ {
		if byClass[c] == nil {
			return r, nil, nil, fmt.Errorf("PaillierKeyGen.tla printed no KEYCLASS row for residue class %d", c)
		}
		sort.Ints(byClass[c].Sizes)
		classes = append(classes, *byClass[c])
	}
	if rows != len(plan) {
		return r, nil, nil, fmt.Errorf("PaillierKeyGen.tla printed %d KEYCLASS rows for %d plan sizes", rows, len(plan))
	}
	return r, feas, classes, nil
}

type c14TraceVerdict struct {
	Label    string
	Lines    int
	SelfRej  int // in-run self-test: corrupted copies rejected ...
	SelfN    int // ... out of
	Drift    int // keys: lines explained at the level of the property but not by the generator model (top two bits)
	DriftAt  int // first such line (1-based)
	Accepted bool
	FailLine int // 1-based, 0 unknown
	FailText string
	Res      tlc.Result
}

// c14Validate runs a trace module over the lines.
var reC14Self = regexp.MustCompile(`<<"SELFTEST", (\d+), (\d+)>>`)
var reC14Drift = regexp.MustCompile(`<<"DRIFT", (\d+), (\d+)>>`)

func c14WriteLines(lines []c14Line) (path string, text []string, err error) {
	tmpBase := os.Getenv("VERIF_TMP")
	if tmpBase == "" {
		tmpBase = os.TempDir()
	}
	tf, err := os.CreateTemp(tmpBase, "verif-c14-trace-*.ndjson")
	if err != nil {
		return "", nil, err
	}
	text = make([]string, len(lines))
	var sb strings.Builder
	for i, l := range lines {
		bz, err := json.Marshal(l)
		if err != nil {
			tf.Close()
			os.Remove(tf.Name())
			return "", nil, err
		}
		text[i] = string(bz)
		sb.Write(bz)
		sb.WriteByte('\n')
	}
	_, err = tf.WriteString(sb.String())
	tf.Close()
	if err != nil {
		os.Remove(tf.Name())
		return "", nil, err
	}
	abs, _ := filepath.Abs(tf.Name())
	return abs, text, nil
}

// c14Validate runs a trace module over the lines; bad (may be empty) are corrupted copies of logged calls that the
// same run must refuse to explain (in-run self-test of the binding).
func c14Validate(label, module, wrapper, cfg string, lines, bad []c14Line, timeout time.Duration) (c14TraceVerdict, error) {
	v := c14TraceVerdict{Label: label, Lines: len(lines)}
	if len(lines) == 0 {
		v.Accepted = true
		return v, nil
	}
	abs, text, err := c14WriteLines(lines)
	if err != nil {
		return v, err
	}
	defer os.Remove(abs)
	env := map[string]string{"TRACE": abs}
	if len(bad) > 0 {
		badPath, _, err := c14WriteLines(bad)
		if err != nil {
			return v, err
		}
		defer os.Remove(badPath)
		env["BAD"] = badPath
	}
	c14SemTLC <- struct{}{}
	r := tlc.Run(tlc.Options{Module: "MC_" + module, Cfg: cfg, Env: env, Workers: 1, Heap: "2g",
		Timeout: timeout, Files: map[string]string{"MC_" + module + ".tla": wrapper}})
	<-c14SemTLC
	v.Res = r
	if r.Err != nil {
		return v, fmt.Errorf("%s: %v", label, r.Err)
	}
	if m := reC14Self.FindStringSubmatch(r.Output); m != nil {
		v.SelfRej, _ = strconv.Atoi(m[1])
		v.SelfN, _ = strconv.Atoi(m[2])
	}
	if m := reC14Drift.FindStringSubmatch(r.Output); m != nil {
		v.Drift, _ = strconv.Atoi(m[1])
		v.DriftAt, _ = strconv.Atoi(m[2])
	}
	if r.HW == len(lines) && (v.SelfN != len(bad) || v.SelfRej != v.SelfN) {
		return v, fmt.Errorf("%s: self-test failed: TLC explained %d of the %d corrupted copies of logged calls (%d handed over)", label, v.SelfN-v.SelfRej, v.SelfN, len(bad))
	}
	v.Accepted = r.OK && r.HW == len(lines)
	if !v.Accepted {
		line := r.HW + 1
		if r.Violated != "" && r.Violated != "TraceAccepted" {
			line = r.HW
		}
		if line >= 1 && line <= len(lines) {
			v.FailLine, v.FailText = line, text[line-1]
		}
	}
	return v, nil
}

func c14ValidatePaillier(label string, p, q int64, lines, bad []c14Line, timeout time.Duration) (c14TraceVerdict, error) {
	wrap := "---- MODULE MC_Paillier_Trace ----\nEXTENDS Paillier_Trace\nAddMsVal == {}\nAddXsVal == {}\n====\n"
	cfg := fmt.Sprintf("SPECIFICATION TraceSpec\nCONSTANTS\n  P = %d\n  Q = %d\n  AddMs <- AddMsVal\n  AddXs <- AddXsVal\n  FullLaws = FALSE\nINVARIANTS TraceInv\nCONSTRAINT HighWater\nPOSTCONDITION TraceAccepted\nCHECK_DEADLOCK FALSE\n", p, q)
	return c14Validate(label, "Paillier_Trace", wrap, cfg, lines, bad, timeout)
}

func c14ValidateKeyGen(label string, bits []int, lines, bad []c14Line, timeout time.Duration) (c14TraceVerdict, error) {
	wrap := fmt.Sprintf("---- MODULE MC_PaillierKeyGen_Trace ----\nEXTENDS PaillierKeyGen_Trace\nBitsVal == %s\nPlanVal == {16, 18, 20, 22, 24, 26, 28, 30}\n====\n", c14BitsSet(bits))
	cfg := "SPECIFICATION TraceSpec\nCONSTANTS\n  BitsSet <- BitsVal\n  PlanSizes <- PlanVal\nINVARIANTS TraceInv\nCONSTRAINT HighWater\nPOSTCONDITION TraceAccepted\nCHECK_DEADLOCK FALSE\n"
	return c14Validate(label, "PaillierKeyGen_Trace", wrap, cfg, lines, bad, timeout)
}

// c14Corrupt copies the lines up to and a little beyond a chosen value-bearing line and alters that one value by one.
// Returns the corrupted prefix and the 1-based index of the altered line (0: nothing suitable).
func c14Corrupt(lines []c14Line, field string, ops map[string]bool, pick int) ([]c14Line, int) {
	var cand []int
	for i, l := range lines {
		op, _ := l["op"].(string)
		okv, hasOK := l["ok"].(bool)
		if ops[op] && (!hasOK || okv) {
			if _, isInt := l[field].(int64); isInt {
				cand = append(cand, i)
			}
		}
		if len(cand) >= 400 {
			break
		}
	}
	if len(cand) == 0 {
		return nil, 0
	}
	i := cand[c14Abs(pick)%len(cand)]
	end := i + 4
	if end > len(lines) {
		end = len(lines)
	}
	out := make([]c14Line, end)
	copy(out, lines[:end])
	alt := c14Line{}
	for k, v := range lines[i] {
		alt[k] = v
	}
	alt[field] = alt[field].(int64) + 1
	out[i] = alt
	return out, i + 1
}

// c14BadCopies returns up to n copies of logged calls (of the given operations, successful ones) in which the named
// field was altered: an integer by one, a boolean negated.
func c14BadCopies(lines []c14Line, fields map[string]string, n, pick int) []c14Line {
	byOp := map[string][]int{}
	var ops []string
	for i, l := range lines {
		op, _ := l["op"].(string)
		f, want := fields[op]
		if !want {
			continue
		}
		if okv, hasOK := l["ok"].(bool); hasOK && !okv && f != "ok" {
			continue
		}
		if _, seen := byOp[op]; !seen {
			ops = append(ops, op)
		}
		byOp[op] = append(byOp[op], i)
	}
	var out []c14Line
	for round := 0; len(out) < n && round < n; round++ {
		for _, op := range ops {
			if len(out) >= n {
				break
			}
			idx := byOp[op]
			src := lines[idx[c14Abs(pick+round*7919)%len(idx)]]
			alt := c14Line{}
			for k, v := range src {
				alt[k] = v
			}
			switch v := alt[fields[op]].(type) {
			case int64:
				alt[fields[op]] = v + 1
			case int:
				alt[fields[op]] = v + 1
			case bool:
				alt[fields[op]] = !v
			default:
				continue
			}
			out = append(out, alt)
		}
	}
	return out
}

func c14Abs(x int) int {
	if x < 0 {
		return -x
	}
	return x
}

// ------------------------------------------------------------------ histories of key objects (spec/PaillierHist.tla)

const c14HistInvs = "TypeOK AccCarries DecCorrect NoRefusal"

// the two toy keys of the history model
var c14HistToy = [4]int64{3, 5, 5, 7}

func c14TLAStrSet(xs []string) string {
	q := make([]string, len(xs))
	for i, x := range xs {
		q[i] = strconv.Quote(x)
	}
	return "{" + strings.Join(q, ", ") + "}"
}

func c14HistWrapper(name, base, mcs, variants, extra string) string {
	return fmt.Sprintf("---- MODULE %s ----\nEXTENDS %s\nModesVal == %s\nMCsVal == %s\nVariantsVal == %s\n%s====\n",
		name, base, c14TLAStrSet(c14HistModes), mcs, variants, extra)
}

func c14HistConstants(xsel string, maxOps int, record, twoPhase bool) string {
	return fmt.Sprintf("CONSTANTS\n  P1 = %d\n  Q1 = %d\n  P2 = %d\n  Q2 = %d\n  Modes <- ModesVal\n  MCs <- MCsVal\n  XSel = %q\n  MaxOps = %d\n  Variants <- VariantsVal\n  Record = %s\n  TwoPhase = %s\n",
		c14HistToy[0], c14HistToy[1], c14HistToy[2], c14HistToy[3], xsel, maxOps, c14Bool(record), c14Bool(twoPhase))
}

// c14RunHistMC model-checks PaillierHist.tla (variant "code") exhaustively: every history over the two toy keys.
func c14RunHistMC(wide bool, workers int, timeout time.Duration) (tlc.Result, string, error) {
	c14SemTLC <- struct{}{}
	defer func() { <-c14SemTLC }()
	mcs, xsel, label := `{"one", "max"}`, "some", "plaintexts / scalars {1, N-1}, one randomiser"
	if wide {
		mcs, xsel, label = `{"zero", "one", "mid", "max"}`, "few", "plaintexts / scalars {0, 1, N/2, N-1}, three randomisers"
	}
	cfg := "SPECIFICATION Spec\n" + c14HistConstants(xsel, 0, false, false) + "INVARIANTS " + c14HistInvs + "\nCHECK_DEADLOCK FALSE\n"
	r := tlc.Run(tlc.Options{Module: "MC_PaillierHist", Cfg: cfg, Workers: workers, Heap: "2g", Timeout: timeout,
		Files: map[string]string{"MC_PaillierHist.tla": c14HistWrapper("MC_PaillierHist", "PaillierHist", mcs, `{"code"}`, "")}})
	if r.Err != nil {
		return r, label, fmt.Errorf("PaillierHist.tla: %v", r.Err)
	}
	if !r.OK {
		return r, label, fmt.Errorf("PaillierHist.tla violates %s:\n%s", r.Violated, r.ErrorTrace(2000))
	}
	return r, label, nil
}

// c14RunHistVariant: self-test of the model - a variant with unexported state that survives a reload must violate
// one of the invariants.
func c14RunHistVariant(variant string, timeout time.Duration) (tlc.Result, error) {
	c14SemTLC <- struct{}{}
	defer func() { <-c14SemTLC }()
	cfg := "SPECIFICATION Spec\n" + c14HistConstants("some", 0, false, false) + "INVARIANTS " + c14HistInvs + "\nCHECK_DEADLOCK FALSE\n"
	name := "MCV_PaillierHist"
	r := tlc.Run(tlc.Options{Module: name, Cfg: cfg, Workers: 1, Heap: "2g", Timeout: timeout,
		Files: map[string]string{name + ".tla": c14HistWrapper(name, "PaillierHist", `{"one", "max"}`, c14TLAStrSet([]string{variant}), "")}})
	if r.Err != nil {
		return r, fmt.Errorf("PaillierHist.tla variant %s: %v", variant, r.Err)
	}
	if r.OK || r.Violated == "" || r.Violated == "TypeOK" {
		return r, fmt.Errorf("self-test: PaillierHist.tla with the defective variant %q does not violate AccCarries / DecCorrect / NoRefusal (violated: %q)", variant, r.Violated)
	}
	return r, nil
}

// c14HistGenerate lets TLC print the directed catalogue and num random walks of maxOps operations.
func c14HistGenerate(num, maxOps int, seed int64, timeout time.Duration) (directed, walks [][]c14HistOp, r tlc.Result, err error) {
	c14SemTLC <- struct{}{}
	defer func() { <-c14SemTLC }()
	name := "MCG_PaillierHist"
	extra := "ASSUME Directed = DirectedLegal\nASSUME \\A h \\in Directed : PrintT(<<\"DIRECTED\", ToJson(h)>>)\n"
	cfg := "SPECIFICATION Spec\n" + c14HistConstants("some", maxOps, true, true) + "INVARIANTS " + c14HistInvs + " Emit\nCHECK_DEADLOCK FALSE\n"
	r = tlc.Run(tlc.Options{Module: name, Cfg: cfg, Workers: 1, Heap: "2g", Timeout: timeout,
		Args:  []string{"-simulate", fmt.Sprintf("num=%d", num), "-depth", fmt.Sprint(2*maxOps + 2), "-seed", fmt.Sprint(seed)},
		Files: map[string]string{name + ".tla": c14HistWrapper(name, "PaillierHist", `{"zero", "one", "mid", "max"}`, `{"code"}`, extra)}})
	if r.Err != nil {
		return nil, nil, r, fmt.Errorf("PaillierHist.tla generator: %v", r.Err)
	}
	if !r.OK {
		return nil, nil, r, fmt.Errorf("PaillierHist.tla generator violates %s", r.Violated)
	}
	parse := func(tag string) ([][]c14HistOp, error) {
		rows, err := c17Printed(r.Output, tag)
		if err != nil {
			return nil, err
		}
		var out [][]c14HistOp
		for _, row := range rows {
			var ops []c14HistOp
			if err := json.Unmarshal([]byte(row), &ops); err != nil {
				return nil, fmt.Errorf("cannot parse a history printed by TLC: %v", err)
			}
			out = append(out, ops)
		}
		return out, nil
	}
	if directed, err = parse("DIRECTED"); err != nil {
		return nil, nil, r, err
	}
	if walks, err = parse("BEHAVIOUR"); err != nil {
		return nil, nil, r, err
	}
	// TLC prints a set in its own order; make the catalogue order independent of it
	sort.Slice(directed, func(i, j int) bool { return fmt.Sprint(directed[i]) < fmt.Sprint(directed[j]) })
	for _, w := range walks {
		if len(w) != maxOps {
			return nil, nil, r, fmt.Errorf("TLC printed a walk of %d operations, expected %d", len(w), maxOps)
		}
	}
	if len(directed) == 0 || len(walks) == 0 {
		return nil, nil, r, fmt.Errorf("TLC printed %d directed histories and %d walks", len(directed), len(walks))
	}
	return directed, walks, r, nil
}

// c14ValidateHist: PaillierHist_Trace.tla must explain every line of the toy replays. If stopAt > 0 the file ends
// with a deliberately corrupted history whose altered line is line stopAt: TLC must consume exactly the stopAt-1
// lines before it (self-test of the binding, in the same run).
func c14ValidateHist(label string, lines []c14Line, stopAt int, timeout time.Duration) (c14TraceVerdict, error) {
	v := c14TraceVerdict{Label: label, Lines: len(lines)}
	if len(lines) == 0 {
		v.Accepted = true
		return v, nil
	}
	abs, text, err := c14WriteLines(lines)
	if err != nil {
		return v, err
	}
	defer os.Remove(abs)
	name := "MCT_PaillierHist_Trace"
	cfg := "SPECIFICATION TraceSpec\n" + c14HistConstants("some", 0, false, false) + "INVARIANTS TraceInv\nCONSTRAINT HighWater\nPOSTCONDITION TraceAccepted\nCHECK_DEADLOCK FALSE\n"
	c14SemTLC <- struct{}{}
	r := tlc.Run(tlc.Options{Module: name, Cfg: cfg, Env: map[string]string{"TRACE": abs}, Workers: 1, Heap: "2g", Timeout: timeout,
		Files: map[string]string{name + ".tla": c14HistWrapper(name, "PaillierHist_Trace", `{"zero", "one", "mid", "max"}`, `{"code"}`, "")}})
	<-c14SemTLC
	v.Res = r
	if r.Err != nil {
		return v, fmt.Errorf("%s: %v", label, r.Err)
	}
	want := len(lines)
	if stopAt > 0 {
		want = stopAt - 1
		v.Lines = stopAt - 1
		v.SelfN = 1
	}
	switch {
	case stopAt == 0:
		v.Accepted = r.OK && r.HW == want
	case r.HW == want && r.Violated == "TraceAccepted":
		v.Accepted, v.SelfRej = true, 1
	case r.HW >= stopAt:
		return v, fmt.Errorf("%s: self-test failed: TLC explained the corrupted line %d (%s)", label, stopAt, text[stopAt-1])
	}
	if !v.Accepted {
		line := r.HW + 1
		if r.Violated != "" && r.Violated != "TraceAccepted" {
			line = r.HW
		}
		if line >= 1 && line <= len(lines) {
			v.FailLine, v.FailText = line, text[line-1]
		}
	}
	return v, nil
}
