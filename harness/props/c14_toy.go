package props

// C14 - binding (C), toy-parameter algebra: the library's own key structs around N = 15, 35, 77 and the REAL
// functions over the whole toy domain: every plaintext with every unit as randomiser, every value of a window
// sticking out of [0,N^2) as ciphertext, all (scalar, ciphertext) and (ciphertext, ciphertext) pairs, sessions.
// Every call is judged on its real outputs (c14_ops.go); the lines go to Paillier_Trace.tla.

import (
	"fmt"
	"math/big"
	"math/rand"
)

type c14ToyPlan struct {
	P, Q        int64
	PairsFull   bool // HomoAdd over all pairs of the window (else: every c1 with a subset of c2, both orders)
	MultLines   int  // how many HomoMult / HomoAdd lines go to TLC (all calls are judged by the harness)
	AddLines    int
	Chains      int
	AnyPerPlain int // Encrypt (randomiser not disclosed) calls per plaintext
}

type c14ToyResult struct {
	Key      *c14Key
	Lines    []c14Line
	Stats    map[string]int
	Inconcl  string
	Coverage string
}

const c14Margin = 3 // how far the windows stick out of each bound

func c14ToyRun(plan c14ToyPlan, seed int64, col *c14Col) (res c14ToyResult) {
	res.Stats = map[string]int{}
	key, err := c14KeyFromFactors(big.NewInt(plan.P), big.NewInt(plan.Q), true, "toy")
	if err != nil {
		res.Inconcl = err.Error()
		return
	}
	res.Key = key
	d := key.d
	N, N2 := d.n.Int64(), d.n2.Int64()
	rng := c14Rng(seed, N)
	bi := big.NewInt
	add := func(l c14Line, stat string) {
		if l != nil {
			res.Lines = append(res.Lines, l)
			res.Stats["lines:"+stat]++
		}
	}
	var units []int64
	for x := int64(1); x < N; x++ {
		if d.coprime(bi(x)) {
			units = append(units, x)
		}
	}

	// ---- freshness at toy size
	for _, m := range []int64{0, 1, N - 1} {
		sc := c14Scenario{Key: key.Ref, Op: "Fresh", Args: c14Strs(bi(m)), Seed: seed*7919 + N + 77 + m, Count: 64}
		o := &c14Op{k: key, col: col, sc: func() c14Scenario { return sc }}
		o.fresh(newC14Tape(sc.Seed), bi(m), sc.Count)
		res.Stats["fresh_series"]++
	}

	// ---- E1: every plaintext of a window around [0,N) (and around N^2), in range: with every unit as randomiser
	var plains []int64
	for m := int64(-c14Margin); m <= N+c14Margin; m++ {
		plains = append(plains, m)
	}
	plains = append(plains, -N, N2-1, N2, N2+1)
	nBytes := (d.n.BitLen() + 7) / 8
	encSeed := seed*7919 + N
	for _, m := range plains {
		mm := bi(m)
		if !d.inPlain(mm) {
			sc := c14Scenario{Key: key.Ref, Op: "Encrypt", Args: c14Strs(mm), Seed: encSeed}
			o := &c14Op{k: key, col: col, sc: func() c14Scenario { return sc }}
			o.encrypt(newC14Tape(sc.Seed), mm, true)
			add(o.line, "Encrypt")
			sc.Op = "EncryptAny"
			o.encrypt(newC14Tape(sc.Seed), mm, false)
			add(o.line, "EncryptAny")
			res.Stats["encrypt_out_of_domain"]++
			continue
		}
		seen := map[int64]bool{}
		try := func(tape []int, s int64) bool {
			sc := c14Scenario{Key: key.Ref, Op: "Encrypt", Args: c14Strs(mm), Tape: tape, Seed: s}
			o := &c14Op{k: key, col: col, sc: func() c14Scenario { return sc }}
			tb := make([]byte, len(tape))
			for i, b := range tape {
				tb[i] = byte(b)
			}
			_, x, ok := o.encrypt(newC14Tape(s, tb...), mm, true)
			if !ok {
				return false
			}
			res.Stats["encrypt_in_domain"]++
			if x != nil && x.IsInt64() && !seen[x.Int64()] {
				seen[x.Int64()] = true
				add(o.line, "Encrypt")
			}
			return true
		}
		okAll := true
		for _, x := range units {
			// drive the draw: go's rand.Int reads nBytes big-endian bytes; whatever the library then reports is what counts
			tape := make([]int, nBytes)
			tape[nBytes-1] = int(x & 0xff)
			if nBytes > 1 {
				tape[nBytes-2] = int(x >> 8)
			}
			if !try(tape, encSeed+x) {
				okAll = false
				break
			}
		}
		// whatever the tape did not reach: plain random draws until every unit has been seen
		for extra := 0; okAll && len(seen) < len(units) && extra < 400*len(units); extra++ {
			if !try(nil, encSeed+int64(1000+extra)) {
				okAll = false
			}
		}
		if okAll && len(seen) < len(units) && res.Inconcl == "" {
			res.Inconcl = fmt.Sprintf("N=%d, m=%d: only %d of %d units were ever reported as randomiser", N, m, len(seen), len(units))
		}
		res.Stats["plaintext_x_unit_pairs_covered"] += len(seen)
		for i := 0; i < plan.AnyPerPlain; i++ {
			sc := c14Scenario{Key: key.Ref, Op: "EncryptAny", Args: c14Strs(mm), Seed: encSeed + int64(5000+i)}
			o := &c14Op{k: key, col: col, sc: func() c14Scenario { return sc }}
			o.encrypt(newC14Tape(sc.Seed), mm, false)
			add(o.line, "EncryptAny")
		}
	}
	res.Coverage = fmt.Sprintf("%d plaintexts x %d units", N, len(units))

	// ---- D1: every value of the window as ciphertext
	var window []int64
	for c := int64(-c14Margin); c <= N2+c14Margin; c++ {
		window = append(window, c)
	}
	for _, c := range window {
		cc := bi(c)
		sc := func() c14Scenario { return c14Scenario{Key: key.Ref, Op: "Decrypt", Args: c14Strs(cc)} }
		o := &c14Op{k: key, col: col, sc: sc}
		o.decrypt(cc)
		add(o.line, "Decrypt")
		res.Stats["decrypt"]++
	}
	nearBound := func(v, bound int64) bool { return v >= bound-c14Margin && v <= bound+c14Margin }
	edgeC := func(c int64) bool { return nearBound(c, 0) || nearBound(c, N2) || c == N || c == plan.P || c == plan.Q }

	// ---- M1: every scalar of the window with every ciphertext of the window
	var scalars []int64
	for k := int64(-c14Margin); k <= N+c14Margin; k++ {
		scalars = append(scalars, k)
	}
	scalars = append(scalars, N2)
	total := len(scalars) * len(window)
	pM := float64(plan.MultLines) / float64(total)
	for _, k := range scalars {
		kk := bi(k)
		for _, c := range window {
			cc := bi(c)
			sc := func() c14Scenario { return c14Scenario{Key: key.Ref, Op: "HomoMult", Args: c14Strs(kk, cc)} }
			o := &c14Op{k: key, col: col, sc: sc}
			o.homo("HomoMult", kk, cc, true)
			res.Stats["homomult"]++
			if (edgeC(c) && (nearBound(k, 0) || nearBound(k, N))) || rng.Float64() < pM {
				add(o.line, "HomoMult")
			}
		}
	}

	// ---- A1: pairs of ciphertexts
	second := window
	if !plan.PairsFull {
		second = nil
		for _, c := range window {
			if edgeC(c) {
				second = append(second, c)
			}
		}
		for i := 0; i < 40; i++ {
			second = append(second, 1+rng.Int63n(N2-1))
		}
	}
	total = len(window) * len(second)
	if !plan.PairsFull {
		total *= 2
	}
	pA := float64(plan.AddLines) / float64(total)
	pair := func(a, b int64) {
		aa, bb := bi(a), bi(b)
		sc := func() c14Scenario { return c14Scenario{Key: key.Ref, Op: "HomoAdd", Args: c14Strs(aa, bb)} }
		o := &c14Op{k: key, col: col, sc: sc}
		o.homo("HomoAdd", aa, bb, true)
		res.Stats["homoadd"]++
		if (edgeC(a) && edgeC(b) && rng.Intn(4) == 0) || rng.Float64() < pA {
			add(o.line, "HomoAdd")
		}
	}
	for _, a := range window {
		for _, b := range second {
			pair(a, b)
			if !plan.PairsFull {
				pair(b, a)
			}
		}
	}

	// ---- sessions: random chains of fresh / add / mult, decrypted at the end
	for i := 0; i < plan.Chains; i++ {
		steps := c14RandomChain(rng, d.n, 2+rng.Intn(5))
		sc := c14Scenario{Key: key.Ref, Op: "Chain", Steps: steps, Seed: encSeed + int64(9000+i)}
		o := &c14Op{k: key, col: col, sc: func() c14Scenario { return sc }}
		lines, ok := o.chain(newC14Tape(sc.Seed), steps)
		if ok {
			for _, l := range lines {
				add(l, "session")
			}
			res.Stats["chains"]++
		}
	}
	return
}

// c14RandomChain: fresh m0, then n steps of add m / mult k with values from {0, 1, N-1, random}.
func c14RandomChain(rng *rand.Rand, n *big.Int, steps int) []c14Step {
	val := func() string {
		switch rng.Intn(5) {
		case 0:
			return "0"
		case 1:
			return "1"
		case 2:
			return new(big.Int).Sub(n, c14One).String()
		}
		return new(big.Int).Rand(rng, n).String()
	}
	out := []c14Step{{Op: "fresh", V: val()}}
	for i := 0; i < steps; i++ {
		if rng.Intn(2) == 0 {
			out = append(out, c14Step{Op: "add", V: val()})
		} else {
			out = append(out, c14Step{Op: "mult", V: val()})
		}
	}
	return out
}
