package props

// C15 - Feldman VSS: shares verify, reconstruct with t+1, and bad input is refused.
//
// Specification: spec/FeldmanVSS.tla (operators shaped like crypto/vss/feldman_vss.go over Z_q with points written as
// discrete logs; property invariants; state machine choose (t, ids) -> deal -> one call) model-checked by TLC for
// q = 5 (quick) and q in {5, 7} (thorough).
// Binding (C), toy-parameter algebra: the REAL vss.Create / Share.Verify / Shares.ReConstruct run on toy elliptic curves
// of order 5, 7 (the whole domain of the model: every id set, threshold, secret and - driven by byte tapes - every
// coefficient vector) and 11..251 (sampled); every dealing is written as one ndjson line and FeldmanVSS_Trace.tla must
// explain every line (outcome of Create, exact result of every Verify / ReConstruct call, property invariants).
// Real size: the same predicates on secp256k1 and edwards25519, judged by math/big and harness/obs.
// Signed representatives: ids, secrets and altered ids / share values are integers that stand for residues modulo q; the
// model's windows (Ids, Secrets, AltMin..AltMax), the sampled toy dealings and the real-size plan all contain negative
// integers and integers >= q for every class (k-q, k, k+q are one id; -q, 0, q are the inadmissible id).
// Verdicts come from the real outputs only (c15Run); a line TLC does not explain although the harness found nothing is
// inconclusive.

import (
	"encoding/hex"
	"encoding/json"
	"fmt"
	"math/big"
	"math/rand"
	"os"
	"path/filepath"
	"regexp"
	"sort"
	"strconv"
	"strings"
	"sync"
	"time"

	"verif/harness/core"
	"verif/harness/tlc"
	"verif/harness/toy"
)

func init() { Registry["C15"] = C15 }

// ------------------------------------------------------------------ model checking of the design

type c15MC struct {
	Q, MaxT, MaxN, AltMin, AltMax, AltN int
	Ids, Secrets                        []int // windows around 0: negative, canonical and >= q representatives
	Name                                string
}

func c15IdsSet(ids []int) string {
	s := make([]string, len(ids))
	for i, v := range ids {
		s[i] = strconv.Itoa(v)
		if v < 0 {
			s[i] = "(" + s[i] + ")"
		}
	}
	return "{" + strings.Join(s, ", ") + "}"
}

func c15Range(lo, hi int) []int {
	var out []int
	for v := lo; v <= hi; v++ {
		out = append(out, v)
	}
	return out
}

// tlcInput: TLC's configuration files cannot hold negative numbers, so the (signed) windows of ids, secrets and altered
// values are definitions of a generated wrapper module and bound with `<-`.
func (m c15MC) tlcInput(base, spec, invs string) (module, cfg string, files map[string]string) {
	module = "C15Gen" + base
	wrapper := fmt.Sprintf("---- MODULE %s ----\nEXTENDS %s\nIdsVal == %s\nSecretsVal == %s\nAltMinVal == %d\n====\n",
		module, base, c15IdsSet(m.Ids), c15IdsSet(m.Secrets), m.AltMin)
	cfg = fmt.Sprintf("SPECIFICATION %s\nCONSTANTS\n  Q = %d\n  MaxT = %d\n  MaxN = %d\n  Ids <- IdsVal\n  Secrets <- SecretsVal\n  AltMin <- AltMinVal\n  AltMax = %d\n  AltN = %d\nINVARIANTS %s\nCHECK_DEADLOCK FALSE\n",
		spec, m.Q, m.MaxT, m.MaxN, m.AltMax, m.AltN, invs)
	return module, cfg, map[string]string{module + ".tla": wrapper}
}

const c15Invs = "InvSecrecy InvDeal InvCall InvEval InvInterp InvRepr"

func c15RunMC(ms []c15MC, workers int) ([]tlc.Result, error) {
	out := make([]tlc.Result, len(ms))
	for i, m := range ms { // one after the other: each run already uses several workers
		mod, cfg, files := m.tlcInput("FeldmanVSS", "Spec", c15Invs)
		out[i] = tlc.Run(tlc.Options{Module: mod, Cfg: cfg, Files: files, Workers: workers, Heap: "4g", Timeout: 40 * time.Minute})
		if out[i].Err != nil {
			return out, fmt.Errorf("FeldmanVSS %s: %v", m.Name, out[i].Err)
		}
		if !out[i].OK {
			return out, fmt.Errorf("FeldmanVSS %s violates %s:\n%s", m.Name, out[i].Violated, out[i].ErrorTrace(2500))
		}
	}
	return out, nil
}

// ------------------------------------------------------------------ plans

func c15Ints(xs []int) []string {
	out := make([]string, len(xs))
	for i, x := range xs {
		out[i] = strconv.Itoa(x)
	}
	return out
}

// subsets of dom of size 1..maxN, each in increasing order
func c15Subsets(dom []int, maxN int) [][]int {
	var out [][]int
	for mask := 1; mask < 1<<len(dom); mask++ {
		var s []int
		for i, v := range dom {
			if mask&(1<<i) != 0 {
				s = append(s, v)
			}
		}
		if len(s) <= maxN {
			out = append(out, s)
		}
	}
	return out
}

func c15Refused(q, t int, ids []int) bool {
	seen := map[int]bool{}
	for _, id := range ids {
		r := ((id % q) + q) % q
		if r == 0 || seen[r] {
			return true
		}
		seen[r] = true
	}
	return t < 1 || len(ids) < t
}

// c15ToyExhaustive enumerates the domains of the FeldmanVSS models ms (all of the same order q) on the toy curve of that
// order: every threshold, every id set (signed windows: negative, canonical and >= q representatives), and for the dealings
// that are not refused every secret of the window and every byte tape (one byte < q per drawn coefficient). A dealing that
// belongs to several of the domains is run once, with the widest set of alterations.
func c15ToyExhaustive(ms []c15MC, seed int64) []c15Scenario {
	var out []c15Scenario
	if len(ms) == 0 {
		return out
	}
	q := ms[0].Q
	curve := fmt.Sprintf("toy-%d", q)
	rng := rand.New(rand.NewSource(seed*31 + int64(q)))
	index := map[string]int{}
	covers := func(a, b c15Scenario) bool { // a's alterations include b's
		return !b.Alter || (a.Alter && a.AltMin <= b.AltMin && a.AltMax >= b.AltMax)
	}
	put := func(key string, sc c15Scenario) {
		if j, ok := index[key]; ok {
			switch {
			case covers(out[j], sc):
				return
			case covers(sc, out[j]):
				sc.Seed = out[j].Seed
				out[j] = sc
				return
			}
		} else {
			index[key] = len(out)
		}
		out = append(out, sc)
	}
	for _, m := range ms {
		for t := 0; t <= m.MaxT; t++ {
			for _, ids := range c15Subsets(m.Ids, m.MaxN) {
				if c15Refused(m.Q, t, ids) {
					put(fmt.Sprintf("R|%d|%v", t, ids), c15Scenario{Curve: curve, T: t, Secret: "1", Ids: c15Ints(ids), Tape: strings.Repeat("01", t+1), Seed: seed, Label: "exhaustive/refused"})
					continue
				}
				ntapes := 1
				for i := 0; i < t; i++ {
					ntapes *= m.Q
				}
				for _, secret := range m.Secrets {
					for tp := 0; tp < ntapes; tp++ {
						tape := make([]byte, t)
						x := tp
						for i := range tape {
							tape[i] = byte(x % m.Q)
							x /= m.Q
						}
						put(fmt.Sprintf("D|%d|%v|%d|%d", t, ids, secret, tp), c15Scenario{Curve: curve, T: t, Secret: strconv.Itoa(secret), Ids: c15Ints(ids), Tape: hex.EncodeToString(tape),
							Seed: seed + int64(len(out)), Alter: len(ids) <= m.AltN, AltMin: m.AltMin, AltMax: m.AltMax, Label: "exhaustive"})
					}
				}
				// the same ids in another order (the order of ids must not matter), random coefficients
				if len(ids) >= 2 {
					perm := append([]int(nil), ids...)
					rng.Shuffle(len(perm), func(i, j int) { perm[i], perm[j] = perm[j], perm[i] })
					secret := m.Secrets[rng.Intn(len(m.Secrets))]
					if ((secret%m.Q)+m.Q)%m.Q == 0 {
						secret++
					}
					put(fmt.Sprintf("P|%d|%v", t, ids), c15Scenario{Curve: curve, T: t, Secret: strconv.Itoa(secret), Ids: c15Ints(perm), Seed: seed + int64(len(out)),
						Alter: true, AltMin: m.AltMin, AltMax: m.AltMax, Label: "permuted"})
				}
			}
		}
	}
	return out
}

// c15ToySampled: random dealings on a larger toy curve (ids and secrets as signed representatives in -2q..3q, some id lists
// inadmissible: a multiple of q of either sign, two representatives - possibly of different sign - of one class),
// alterations from the catalogue.
func c15ToySampled(q, count int, seed int64) []c15Scenario {
	rng := rand.New(rand.NewSource(seed*977 + int64(q)))
	curve := fmt.Sprintf("toy-%d", q)
	shift := func() int { return q * (rng.Intn(5) - 2) } // -2q, -q, 0, q, 2q
	var out []c15Scenario
	for len(out) < count {
		t := 1 + rng.Intn(3)
		maxN := 5
		if q-1 < maxN {
			maxN = q - 1
		}
		if t > maxN {
			t = maxN
		}
		n := t + rng.Intn(maxN-t+1)
		res := rng.Perm(q - 1)[:n]
		ids := make([]int, n)
		for i, r := range res {
			ids[i] = r + 1 + shift()
		}
		label := "sampled"
		switch rng.Intn(8) {
		case 0:
			ids[rng.Intn(n)] = shift()
			label = "sampled/id-0-mod-q"
		case 1:
			if n >= 2 {
				i, j := rng.Intn(n), rng.Intn(n)
				if i != j {
					ids[i] = ((ids[j]%q)+q)%q + shift()
					label = "sampled/ids-equal-mod-q"
				}
			}
		}
		secret := 1 + rng.Intn(q-1) + q*(rng.Intn(4)-2) // s-2q, s-q, s, s+q
		if rng.Intn(12) == 0 {
			secret = q * (rng.Intn(3) - 1)
		}
		only := []int{rng.Intn(n)}
		if o := rng.Intn(n); o != only[0] {
			only = append(only, o)
		}
		out = append(out, c15Scenario{Curve: curve, T: t, Secret: strconv.Itoa(secret), Ids: c15Ints(ids), Seed: seed*1000003 + int64(len(out)),
			Alter: true, Only: only, Label: label})
	}
	return out
}

// c15RealPlan: dealings at real size. Secrets 1, q-1, random, and the negative representatives -1, s-q; (t, n) pairs; id
// patterns small / random / with q-1 / with q+1 (alias of 1) / k*q + r / all-negative representatives / mixed signs;
// inadmissible patterns (0, q, 2q, -q, -3q; equal ids; ids congruent modulo q, as representatives of either sign) at
// every position.
func c15RealPlan(ctx *core.Ctx, cv *c15Curve) []c15Scenario {
	rng := rand.New(rand.NewSource(ctx.Seed*7919 + int64(len(cv.Name))))
	q := cv.Q
	rnd := func() *big.Int {
		return new(big.Int).Add(new(big.Int).Rand(rng, new(big.Int).Sub(q, big.NewInt(1))), big.NewInt(1))
	}
	add := func(x *big.Int, k int64) *big.Int { return new(big.Int).Add(x, big.NewInt(k)) }
	mulq := func(k int64, r *big.Int) *big.Int { return new(big.Int).Add(new(big.Int).Mul(q, big.NewInt(k)), r) }
	patterns := []string{"small", "random", "with-q-1", "with-q+1", "kq+r", "mixed", "negative", "mixed-sign"}
	idsFor := func(pat string, n int) []*big.Int {
		ids := make([]*big.Int, n)
		for i := range ids {
			switch pat {
			case "small":
				ids[i] = big.NewInt(int64(i + 1))
			case "random":
				ids[i] = rnd()
			case "with-q-1":
				ids[i] = big.NewInt(int64(i + 2))
				if i == n-1 {
					ids[i] = add(q, -1)
				}
			case "with-q+1": // q+1 is the id 1 written differently
				ids[i] = big.NewInt(int64(i + 2))
				if i == 0 {
					ids[i] = add(q, 1)
				}
			case "kq+r":
				ids[i] = mulq(int64(1+rng.Intn(9)), big.NewInt(int64(2*i+2)))
			case "negative": // every id a negative representative: -(small), r-q, r-kq
				switch i % 3 {
				case 0:
					ids[i] = big.NewInt(int64(-(i + 1)))
				case 1:
					ids[i] = mulq(-1, big.NewInt(int64(i+1)))
				default:
					ids[i] = mulq(-int64(1+rng.Intn(9)), rnd())
				}
			case "mixed-sign":
				switch i % 4 {
				case 0:
					ids[i] = mulq(-1, rnd())
				case 1:
					ids[i] = big.NewInt(int64(i + 1))
				case 2:
					ids[i] = big.NewInt(int64(-(i + 1)))
				default:
					ids[i] = mulq(1, rnd())
				}
			default:
				switch i % 3 {
				case 0:
					ids[i] = rnd()
				case 1:
					ids[i] = big.NewInt(int64(100 + i))
				default:
					ids[i] = mulq(2, rnd())
				}
			}
		}
		return ids
	}
	var tn [][2]int
	if ctx.Thorough() {
		for t := 1; t <= 4; t++ {
			for n := t; n <= 6; n++ {
				tn = append(tn, [2]int{t, n})
			}
		}
	} else {
		tn = [][2]int{{1, 1}, {1, 3}, {2, 3}, {2, 5}, {3, 4}, {4, 6}}
	}
	secretOf := func(cls string) *big.Int {
		switch cls {
		case "1":
			return big.NewInt(1)
		case "q-1":
			return add(q, -1)
		case "-1": // the secret q-1 as a negative integer
			return big.NewInt(-1)
		case "s-q": // a random secret as its negative representative
			return new(big.Int).Sub(rnd(), q)
		}
		return rnd()
	}
	classes := []string{"1", "q-1", "random", "-1", "s-q"}
	var out []c15Scenario
	mk := func(t int, secret *big.Int, ids []*big.Int, alter bool, label string) {
		// the material of one share (every third dealing of the thorough tier: two shares) is altered, rotating through the positions
		n, k := len(ids), len(out)
		only := []int{k % n}
		if ctx.Thorough() && n > 1 && k%3 == 0 {
			only = append(only, (k+1+n/2)%n)
			if only[1] == only[0] {
				only[1] = (only[0] + 1) % n
			}
		}
		out = append(out, c15Scenario{Curve: cv.Name, T: t, Secret: secret.String(), Ids: c15Strs(ids), Seed: ctx.Seed*1000003 + int64(len(out)), Alter: alter, Only: only, Label: label})
	}
	k := 0
	for _, p := range tn {
		for _, pat := range patterns {
			for ci, cls := range classes {
				// quick: one secret class per (t,n,pattern), thorough: three of the five (two for the signed id patterns), rotating
				if r := (k + ci) % len(classes); (!ctx.Thorough() && r != 0) || r >= 3 || (r == 2 && (pat == "negative" || pat == "mixed-sign")) {
					continue
				}
				mk(p[0], secretOf(cls), idsFor(pat, p[1]), true, fmt.Sprintf("t=%d,n=%d/%s/secret=%s", p[0], p[1], pat, cls))
			}
			k++
		}
	}
	// sampled
	for i := 0; i < ctx.Pick(6, 80); i++ {
		t := 1 + rng.Intn(4)
		n := t + rng.Intn(7-t)
		mk(t, rnd(), idsFor(patterns[rng.Intn(len(patterns))], n), i%4 == 0 || !ctx.Thorough(), "sampled")
	}
	// degenerate at real size: secret 0 (recorded, not judged: V_0 would be the neutral element)
	mk(1, big.NewInt(0), idsFor("small", 2), false, "degenerate/secret=0")
	// refusals
	bad := []struct {
		label string
		mk    func(ids []*big.Int, pos int)
	}{
		{"id=0", func(ids []*big.Int, pos int) { ids[pos] = big.NewInt(0) }},
		{"id=q", func(ids []*big.Int, pos int) { ids[pos] = new(big.Int).Set(q) }},
		{"id=2q", func(ids []*big.Int, pos int) { ids[pos] = mulq(2, big.NewInt(0)) }},
		{"id=7q", func(ids []*big.Int, pos int) { ids[pos] = mulq(7, big.NewInt(0)) }},
		{"equal-ids", func(ids []*big.Int, pos int) { ids[pos] = new(big.Int).Set(ids[(pos+1)%len(ids)]) }},
		{"id+q", func(ids []*big.Int, pos int) { ids[pos] = new(big.Int).Add(ids[(pos+1)%len(ids)], q) }},
		{"id+3q", func(ids []*big.Int, pos int) { ids[pos] = mulq(3, ids[(pos+1)%len(ids)]) }},
		// the same classes as negative integers
		{"id=-q", func(ids []*big.Int, pos int) { ids[pos] = new(big.Int).Neg(q) }},
		{"id=-3q", func(ids []*big.Int, pos int) { ids[pos] = mulq(-3, big.NewInt(0)) }},
		{"id-q", func(ids []*big.Int, pos int) { ids[pos] = new(big.Int).Sub(ids[(pos+1)%len(ids)], q) }},
		{"id-2q", func(ids []*big.Int, pos int) { ids[pos] = mulq(-2, ids[(pos+1)%len(ids)]) }},
		{"id-q,id-3q", func(ids []*big.Int, pos int) { // both representatives negative
			o := (pos + 1) % len(ids)
			ids[o] = new(big.Int).Sub(cv.mod(ids[o]), q)
			ids[pos] = mulq(-2, ids[o])
		}},
		{"-x,q-x", func(ids []*big.Int, pos int) { // the negated id -x next to its canonical representative q-x
			o := (pos + 1) % len(ids)
			ids[pos] = new(big.Int).Neg(cv.mod(ids[o]))
			ids[o] = cv.mod(ids[pos])
		}},
		{"id-mod-q", func(ids []*big.Int, pos int) {
			ids[(pos+1)%len(ids)] = mulq(4, ids[(pos+1)%len(ids)])
			ids[pos] = cv.mod(ids[(pos+1)%len(ids)])
		}},
	}
	for _, b := range bad {
		for _, pat := range []string{"small", "random", "kq+r", "negative"} {
			for _, n := range []int{2, 3, 5} {
				for pos := 0; pos < n; pos++ {
					if !ctx.Thorough() && (pos+n+len(pat))%2 == 0 {
						continue
					}
					ids := idsFor(pat, n)
					b.mk(ids, pos)
					mk(1+pos%2, rnd(), ids, false, "refusal/"+b.label)
				}
			}
		}
	}
	return out
}

// ------------------------------------------------------------------ running scenarios

func c15RunAll(scs []c15Scenario, workers int, dd *c15Dedupe) ([]*c15Result, error) {
	curves := map[string]*c15Curve{}
	for _, sc := range scs {
		if _, ok := curves[sc.Curve]; !ok {
			cv, err := c15GetCurve(sc.Curve)
			if err != nil {
				return nil, err
			}
			if err := cv.selfCheck(); err != nil {
				return nil, err
			}
			curves[sc.Curve] = cv
		}
	}
	out := make([]*c15Result, len(scs))
	var wg sync.WaitGroup
	ch := make(chan int, 64)
	for w := 0; w < workers; w++ {
		wg.Add(1)
		go func() {
			defer wg.Done()
			for i := range ch {
				out[i] = c15Run(curves[scs[i].Curve], scs[i], dd)
			}
		}()
	}
	for i := range scs {
		ch <- i
	}
	close(ch)
	wg.Wait()
	return out, nil
}

// ------------------------------------------------------------------ trace validation

type c15TraceVerdict struct {
	Q               int
	Lines           int
	Calls           int
	Accepted        bool
	FailLine        int // 1-based, 0 if unknown
	AcceptedCorrupt bool
	Res             tlc.Result
}

var reC15Reject = regexp.MustCompile(`<<"TRACE_(REJECT|ACCEPTED_CORRUPT)", (\d+)>>`)

func c15WriteLines(lines []string) (string, func(), error) {
	tmpBase := os.Getenv("VERIF_TMP")
	if tmpBase == "" {
		tmpBase = os.TempDir()
	}
	tf, err := os.CreateTemp(tmpBase, "verif-c15-trace-*.ndjson")
	if err != nil {
		return "", nil, err
	}
	_, err = tf.WriteString(strings.Join(lines, "\n") + "\n")
	tf.Close()
	if err != nil {
		os.Remove(tf.Name())
		return "", nil, err
	}
	abs, _ := filepath.Abs(tf.Name())
	if os.Getenv("VERIF_C15_KEEP") != "" { // debugging aid: keep the trace files
		return abs, func() {}, nil
	}
	return abs, func() { os.Remove(tf.Name()) }, nil
}

// c15Validate lets TLC check a file of lines of one toy order against FeldmanVSS_Trace.tla (TraceInv: every line must be
// explained, except those marked as corrupted by the self test, which must not).
func c15Validate(q int, lines []string, workers int) (c15TraceVerdict, error) {
	const inv = "TraceInv"
	v := c15TraceVerdict{Q: q, Lines: len(lines)}
	path, cleanup, err := c15WriteLines(lines)
	if err != nil {
		return v, err
	}
	defer cleanup()
	m := c15MC{Q: q, MaxT: 1, MaxN: 1, Ids: []int{1}, Secrets: []int{1}, AltMax: 1, AltN: 1} // the trace module does not use the enumeration constants
	mod, cfg, files := m.tlcInput("FeldmanVSS_Trace", "TraceSpec", inv)
	r := tlc.Run(tlc.Options{Module: mod, Cfg: cfg, Files: files, Env: map[string]string{"TRACE": path},
		Workers: workers, Heap: "4g", Timeout: 40 * time.Minute})
	v.Res = r
	if mm := reC15Reject.FindStringSubmatch(r.Output); mm != nil {
		v.FailLine, _ = strconv.Atoi(mm[2])
		v.AcceptedCorrupt = mm[1] == "ACCEPTED_CORRUPT"
	}
	if r.Err != nil && r.Violated == "" {
		return v, fmt.Errorf("trace validation (toy-%d, %d lines): %v", q, len(lines), r.Err)
	}
	v.Accepted = r.OK && r.Distinct == len(lines)
	if r.OK && r.Distinct != len(lines) {
		return v, fmt.Errorf("trace validation (toy-%d): TLC visited %d of %d lines", q, r.Distinct, len(lines))
	}
	return v, nil
}

// c15Corrupt changes one logged value of a line (shape preserved); what says which one.
func c15Corrupt(l c15Line, q, k int) (c15Line, string, bool) {
	b, _ := json.Marshal(l)
	var c c15Line
	json.Unmarshal(b, &c)
	bump := func(x int) int { return (x+1)%q + q*(x/q) }
	num := func(x any) int {
		f, _ := x.(float64)
		return int(f)
	}
	switch k % 8 {
	case 0:
		if c.Out == "ok" && len(c.Shares) > 0 {
			c.Shares[len(c.Shares)-1] = bump(c.Shares[len(c.Shares)-1])
			return c, "share value", true
		}
	case 1:
		if c.Out == "ok" && len(c.Vs) > 1 {
			c.Vs[1] = c.Vs[1]%(q-1) + 1
			return c, "commitment", true
		}
	case 2:
		if len(c.Ver) > 0 {
			i := k % len(c.Ver)
			c.Ver[i][7] = !(c.Ver[i][7].(bool))
			return c, "verdict of a Verify call", true
		}
	case 3:
		if len(c.Rec) > 0 {
			i := k % len(c.Rec)
			r := num(c.Rec[i][1])
			if r < 0 {
				r = 0
			} else {
				r = (r + 1) % q
			}
			c.Rec[i][1] = r
			return c, "result of a ReConstruct call", true
		}
	case 4:
		if c.Out == "ok" {
			c.Out = "refused"
			c.Vs, c.Shares, c.Ver, c.Rec, c.Recx = []int{}, []int{}, [][]any{}, [][]any{}, [][]any{}
			return c, "outcome ok -> refused", true
		}
	case 5:
		if c.Out == "refused" {
			c.Out = "panic"
			return c, "outcome refused -> panic", true
		}
	case 6:
		if c.Out == "ok" {
			c.Secret = (c.Secret + 1) % q
			return c, "secret", true
		}
	case 7:
		if c.Out == "ok" && len(c.Vs) > 0 {
			c.Vs[0] = c.Vs[0]%(q-1) + 1
			return c, "first commitment", true
		}
	}
	return c, "", false
}

func mustToy(q int) *toy.Curve {
	c, err := toy.Find(q)
	if err != nil {
		return &toy.Curve{}
	}
	return c
}

// ------------------------------------------------------------------ the check

func C15(ctx *core.Ctx) error {
	rng := rand.New(rand.NewSource(ctx.Seed))
	if err := c15OracleSelfCheck(rng); err != nil {
		return core.Inconcl("polynomial oracle failed its self check: %v", err)
	}
	report := func(r *c15Result) {
		for _, v := range r.Viols {
			ctx.Report(v.Key, v.What, r.Sc)
		}
	}
	if ctx.Replay != "" {
		var sc c15Scenario
		if _, err := core.LoadReplay(ctx.Replay, &sc); err != nil {
			return core.Inconcl("cannot load replay: %v", err)
		}
		rs, err := c15RunAll([]c15Scenario{sc}, 1, nil)
		if err != nil {
			return core.Inconcl("replay: %v", err)
		}
		r := rs[0]
		if r.Inconcl != "" {
			return core.Inconcl("replay: %s", r.Inconcl)
		}
		fmt.Printf("replay %s t=%d n=%d: outcome %s, %d Verify and %d ReConstruct calls, %d violation(s)\n", sc.Curve, sc.T, len(sc.Ids), r.Out, r.Verifies, r.Recons, len(r.Viols))
		report(r)
		return nil
	}
	cov := core.NewCov()

	// ---- design: TLC on FeldmanVSS.tla, in the background
	// "unsigned" configurations: canonical representatives and representatives >= q, the larger (t, n) domain;
	// "signed" configurations: ids, secrets and altered values range over windows around 0 (negative representatives of
	// every class, -q and 0 and q as the inadmissible id, k and k-q and k+q as colliding ids)
	mc5 := c15MC{Name: "q=5", Q: 5, MaxT: 2, MaxN: 4, Ids: c15Range(0, 6), Secrets: c15Range(0, 4), AltMin: 0, AltMax: 9, AltN: 2}
	mc5s := c15MC{Name: "q=5 signed", Q: 5, MaxT: 1, MaxN: 2, Ids: c15Range(-6, 6), Secrets: c15Range(-2, 2), AltMin: -9, AltMax: 9, AltN: 1}
	mc7 := c15MC{Name: "q=7", Q: 7, MaxT: 2, MaxN: 4, Ids: c15Range(0, 8), Secrets: c15Range(0, 6), AltMin: 0, AltMax: 13, AltN: 2}
	mc7s := c15MC{Name: "q=7 signed", Q: 7, MaxT: 1, MaxN: 2, Ids: c15Range(-8, 8), Secrets: c15Range(-3, 3), AltMin: -13, AltMax: 13, AltN: 1}
	mcPlan := []c15MC{mc5s, mc5}
	if ctx.Thorough() {
		mc5.AltN = 4
		mc5s.MaxT, mc5s.MaxN, mc5s.AltN, mc5s.Secrets = 2, 3, 2, c15Range(-3, 3)
		mcPlan = []c15MC{mc5s, mc5, mc7s, mc7}
	}
	var mcRes []tlc.Result
	var mcErr error
	var wg sync.WaitGroup
	skip := os.Getenv("VERIF_C15_SKIP") // development aid only ("mc", "real"): a run with it set is reported inconclusive
	wg.Add(1)
	go func() {
		defer wg.Done()
		if !strings.Contains(skip, "mc") {
			mcRes, mcErr = c15RunMC(mcPlan, ctx.Pick(3, 4))
		}
	}()

	// ---- the real code on the toy curves
	type toyRun struct {
		q          int
		exhaustive bool
		scs        []c15Scenario
		res        []*c15Result
		lines      []string
		owner      []int
		verdict    c15TraceVerdict
		err        error
	}
	var toys []*toyRun
	for _, q := range []int{5, 7} { // one run (and one trace) per exhaustive order: the domains of all its configurations
		var ms []c15MC
		for _, m := range mcPlan {
			if m.Q == q {
				ms = append(ms, m)
			}
		}
		if len(ms) > 0 {
			toys = append(toys, &toyRun{q: q, exhaustive: true, scs: c15ToyExhaustive(ms, ctx.Seed)})
		}
	}
	sampledQs := []int{17, 251}
	if ctx.Thorough() {
		sampledQs = []int{11, 17, 19, 23, 227, 251}
	}
	for _, q := range sampledQs {
		toys = append(toys, &toyRun{q: q, scs: c15ToySampled(q, ctx.Pick(40, 300), ctx.Seed)})
	}
	t0 := time.Now()
	for _, tr := range toys {
		var err error
		var dd *c15Dedupe
		if tr.exhaustive {
			dd = &c15Dedupe{}
		}
		tr.res, err = c15RunAll(tr.scs, 6, dd)
		if err != nil {
			wg.Wait()
			return core.Inconcl("toy curve of order %d: %v", tr.q, err)
		}
	}
	toyWall := time.Since(t0).Seconds()

	// ---- the real code at real size
	var realScs []c15Scenario
	for _, name := range []string{"secp256k1", "edwards25519"} {
		cv, err := c15GetCurve(name)
		if err != nil {
			wg.Wait()
			return core.Inconcl("%v", err)
		}
		if !strings.Contains(skip, "real") {
			realScs = append(realScs, c15RealPlan(ctx, cv)...)
		}
	}
	t0 = time.Now()
	var realRes []*c15Result
	var realErr error
	var wgReal sync.WaitGroup
	wgReal.Add(1)
	go func() { defer wgReal.Done(); realRes, realErr = c15RunAll(realScs, ctx.Pick(6, 8), nil) }()

	// ---- judge the toy runs, check that the tapes covered the whole coefficient space, build the trace files
	type agg struct{ verifies, recons, fewer, fewerHits, coinc, degenerate, alias, ok, refused, panics, drift int }
	stats := map[string]*agg{}
	byKind := map[string]int{}
	account := func(group string, r *c15Result) {
		a := stats[group]
		if a == nil {
			a = &agg{}
			stats[group] = a
		}
		a.verifies += r.Verifies
		a.recons += r.Recons
		a.fewer += r.FewerCalls
		a.fewerHits += r.FewerHits
		a.coinc += r.IdCoincidences
		a.alias += r.AliasAccepted
		if r.Degenerate {
			a.degenerate++
		}
		switch r.Out {
		case "ok":
			a.ok++
		case "refused":
			a.refused++
		case "panic":
			a.panics++
		}
		if len(r.Drift) > 0 {
			a.drift++
		}
		for k, n := range r.ByKind {
			kk := k
			if i := strings.Index(k, "/"); i > 0 && strings.HasPrefix(group, "toy") {
				kk = k[:i]
			}
			byKind[strings.SplitN(group, "-", 2)[0]+":"+kk] += n
		}
	}
	var inconcl []string
	driftNotes := 0
	for _, tr := range toys {
		type grp struct {
			vs            map[string]bool
			panics, tapes int
			secret, t     int
		}
		groups := map[string]*grp{}
		for i, r := range tr.res {
			if r.Inconcl != "" {
				inconcl = append(inconcl, fmt.Sprintf("toy-%d scenario %d: %s", tr.q, i, r.Inconcl))
				continue
			}
			report(r)
			account(fmt.Sprintf("toy-%d", tr.q), r)
			cov.Case(fmt.Sprintf("toy-%d/%d/%s/%v/%s", tr.q, r.Sc.T, r.Sc.Secret, r.Sc.Ids, r.Sc.Tape+fmt.Sprint(r.Sc.Seed)), r.Out == "ok")
			for _, d := range r.Drift {
				if driftNotes < 5 {
					ctx.Note("drift (toy-%d, t=%d, ids %v): %s", tr.q, r.Sc.T, r.Sc.Ids, d)
				}
				driftNotes++
			}
			if r.Line != nil {
				b, err := json.Marshal(r.Line)
				if err != nil {
					inconcl = append(inconcl, err.Error())
					continue
				}
				tr.lines = append(tr.lines, string(b))
				tr.owner = append(tr.owner, i)
			}
			if tr.exhaustive && r.Sc.Label == "exhaustive" {
				key := fmt.Sprintf("%d/%s/%v", r.Sc.T, r.Sc.Secret, r.Sc.Ids)
				g := groups[key]
				if g == nil {
					s, _ := strconv.Atoi(r.Sc.Secret)
					g = &grp{vs: map[string]bool{}, secret: s, t: r.Sc.T}
					groups[key] = g
				}
				g.tapes++
				switch r.Out {
				case "ok":
					g.vs[r.VsKey] = true
				case "panic":
					g.panics++
				}
			}
		}
		// coverage: the tapes are only a means to reach every coefficient vector. Which tape yields which vector is not
		// assumed; that all (q-1)^t vectors without a zero appeared (and the other tapes ended in the degenerate panic) is
		// measured here. If not, the enumeration is no longer exhaustive: inconclusive, not a verdict.
		if tr.exhaustive {
			for key, g := range groups {
				want := 1
				all := 1
				for i := 0; i < g.t; i++ {
					want *= tr.q - 1
					all *= tr.q
				}
				if ((g.secret%tr.q)+tr.q)%tr.q == 0 {
					want = 0
				}
				if len(g.vs) != want || g.panics != all-want || g.tapes != all {
					inconcl = append(inconcl, fmt.Sprintf("toy-%d dealing %s: the byte tapes reached %d of %d coefficient vectors (%d of %d tapes panicked): the enumeration does not cover the domain",
						tr.q, key, len(g.vs), want, g.panics, all))
					break
				}
			}
			cov.Add("toy_exhaustive_groups_fully_covered", len(groups))
		}
	}

	// ---- self test of the binding: copies of accepted lines with one logged value changed are mixed into the first
	// trace, marked x = 1; TraceInv demands that TLC explains none of them
	selfWhat := map[int]string{} // line number (1-based) in toys[0].lines -> what was corrupted
	{
		tr := toys[0]
		var good []int
		for j, r := range tr.res {
			if r.Line != nil && (len(r.Line.Ver) > 0 || r.Line.Out != "ok") {
				good = append(good, j)
			}
		}
		k := 0
		for n := 0; n < 64 && len(good) > 0; n++ {
			j := good[(n*len(good))/64]
			c, what, ok := c15Corrupt(*tr.res[j].Line, tr.q, k)
			k++
			if !ok {
				continue
			}
			c.X = 1
			bz, _ := json.Marshal(c)
			tr.lines = append(tr.lines, string(bz))
			tr.owner = append(tr.owner, -1)
			selfWhat[len(tr.lines)] = what
		}
	}

	// ---- binding: TLC must explain every line; one run per toy order
	sem := make(chan struct{}, 3)
	var wgT sync.WaitGroup
	for _, tr := range toys {
		if len(tr.lines) == 0 {
			continue
		}
		wgT.Add(1)
		go func(tr *toyRun) {
			defer wgT.Done()
			sem <- struct{}{}
			defer func() { <-sem }()
			w := 1
			if tr.exhaustive {
				w = 3
			}
			tr.verdict, tr.err = c15Validate(tr.q, tr.lines, w)
		}(tr)
	}

	// ---- judge the real-size runs
	wgReal.Wait()
	realWall := time.Since(t0).Seconds()
	if realErr != nil {
		wgT.Wait()
		wg.Wait()
		return core.Inconcl("real-size runs: %v", realErr)
	}
	labels := map[string]int{}
	for i, r := range realRes {
		if r.Inconcl != "" {
			inconcl = append(inconcl, fmt.Sprintf("%s scenario %d: %s", r.Sc.Curve, i, r.Inconcl))
			continue
		}
		report(r)
		account(r.Sc.Curve, r)
		lab := r.Sc.Label
		if strings.HasPrefix(lab, "t=") {
			lab = "grid"
		}
		labels[r.Sc.Curve+"/"+lab]++
		cov.Case(fmt.Sprintf("%s/%d/%v/%s/%d", r.Sc.Curve, r.Sc.T, r.Sc.Ids, r.Sc.Secret, r.Sc.Seed), r.Out == "ok")
		for _, d := range r.Drift {
			if driftNotes < 8 {
				ctx.Note("drift (%s, %s): %s", r.Sc.Curve, r.Sc.Label, d)
			}
			driftNotes++
		}
		if r.Out == "panic" && r.Degenerate {
			ctx.Note("degenerate dealing on %s (%s): Create panics because a commitment would be the neutral element (recorded, not judged)", r.Sc.Curve, r.Sc.Label)
		}
		if strings.HasSuffix(r.Sc.Label, "secret=1") || r.Sc.Label == "refusal/id+q" {
			cov.Sample(map[string]any{"scenario": r.Sc, "outcome": r.Out, "verify_calls": r.Verifies, "reconstruct_calls": r.Recons}, 4)
		}
	}
	wgT.Wait()
	wg.Wait()

	// ---- conclusions
	var traceOut []map[string]any
	for _, tr := range toys {
		if len(tr.lines) == 0 {
			continue
		}
		if tr.err != nil {
			inconcl = append(inconcl, tr.err.Error())
			continue
		}
		calls, corrupted := 0, 0
		for _, i := range tr.owner {
			if i < 0 {
				corrupted++
				continue
			}
			calls += len(tr.res[i].Line.Ver) + len(tr.res[i].Line.Rec) + len(tr.res[i].Line.Recx)
		}
		traceOut = append(traceOut, map[string]any{"curve": fmt.Sprintf("toy-%d", tr.q), "field_p": mustToy(tr.q).Pf, "b": mustToy(tr.q).B, "exhaustive": tr.exhaustive,
			"dealings": len(tr.scs), "lines_validated": len(tr.lines) - corrupted, "corrupted_lines_rejected": corrupted, "calls_in_lines": calls, "wall_s": tr.verdict.Res.Wall})
		if !tr.verdict.Accepted {
			fl := tr.verdict.FailLine
			text, idx := "", -1
			if fl >= 1 && fl <= len(tr.lines) {
				text, idx = tr.lines[fl-1], tr.owner[fl-1]
			}
			if tr.verdict.AcceptedCorrupt {
				inconcl = append(inconcl, fmt.Sprintf("self test of the binding: FeldmanVSS_Trace explains line %d of the toy-%d trace although its %s was changed: %s", fl, tr.q, selfWhat[fl], core.Short(text, 400)))
			} else {
				inconcl = append(inconcl, fmt.Sprintf("FeldmanVSS_Trace does not explain line %d of the toy-%d trace (scenario %d) although the harness found nothing wrong in it - model and code disagree: %s [%s]",
					fl, tr.q, idx, core.Short(text, 600), tr.verdict.Res.Violated))
			}
			continue
		}
		cov.AddTraces(len(tr.lines) - corrupted)
		cov.Add("trace_calls_validated", calls)
		if corrupted > 0 {
			kinds := map[string]int{}
			for _, w := range selfWhat {
				kinds[w]++
			}
			cov.Set("selftest_corrupted_lines_rejected", kinds)
		}
	}
	if len(selfWhat) == 0 {
		inconcl = append(inconcl, "self test of the binding: no line to corrupt")
	}
	if mcErr != nil {
		inconcl = append(inconcl, "FeldmanVSS design model: "+mcErr.Error())
	}
	if skip != "" {
		inconcl = append(inconcl, "VERIF_C15_SKIP="+skip+": parts of the check were skipped")
	}
	var mcOut []map[string]any
	for i, r := range mcRes {
		if r.OK {
			cov.AddMC(r.Distinct, r.Generated)
			mcOut = append(mcOut, map[string]any{"name": mcPlan[i].Name, "Q": mcPlan[i].Q, "MaxT": mcPlan[i].MaxT, "MaxN": mcPlan[i].MaxN, "Ids": mcPlan[i].Ids, "Secrets": mcPlan[i].Secrets,
				"AltMin": mcPlan[i].AltMin, "AltMax": mcPlan[i].AltMax, "AltN": mcPlan[i].AltN,
				"distinct": r.Distinct, "generated": r.Generated, "depth": r.Depth, "wall_s": r.Wall})
		}
	}
	groupsOut := map[string]any{}
	var names []string
	for k := range stats {
		names = append(names, k)
	}
	sort.Strings(names)
	for _, k := range names {
		a := stats[k]
		groupsOut[k] = map[string]int{"dealt": a.ok, "refused": a.refused, "create_panics_degenerate": a.panics, "degenerate_dealings_incl_create_panics": a.degenerate, "verify_calls": a.verifies,
			"reconstruct_calls": a.recons, "reconstruct_with_at_most_t_shares": a.fewer, "of_which_returned_the_secret": a.fewerHits,
			"other_id_with_equal_share_value": a.coinc, "congruent_id_or_share_accepted": a.alias, "dealings_with_drift": a.drift}
	}
	cov.Set("mc_configs", mcOut)
	cov.Set("toy_traces", traceOut)
	cov.Set("by_curve", groupsOut)
	cov.Set("verify_calls_by_kind", byKind)
	cov.Set("real_size_dealings_by_class", labels)
	cov.Set("toy_wall_s", toyWall)
	cov.Set("real_wall_s", realWall)
	cov.Set("drift_notes", driftNotes)
	cov.Set("exhaustive", "toy orders of mc_configs: every id set and secret of the (signed) windows, threshold and coefficient vector; real size: sampled")
	if len(inconcl) > 0 && len(ctx.Violations()) == 0 {
		return core.Inconcl("%s", strings.Join(inconcl, "\n  "))
	}
	for _, s := range inconcl {
		ctx.Note("machinery: %s", s)
	}
	return ctx.WriteEvidence("model_checking",
		"one case = one dealing by the real vss.Create (curve, t, secret, id list, random tape; ids and secrets as signed representatives: negative, canonical and >= q integers) with the Verify / ReConstruct calls made on it (own ids, every single alteration of id / share / "+
			"one commitment / shape, every non-empty subset); distinct = distinct dealings, non-trivial = dealt (not refused, not degenerate panic). Verdict from the real outputs by independent arithmetic: "+
			"V_0 = secret*G, commitments = a_k*G for the polynomial through (0,secret) and the shares, degree exactly t, own id verifies, altered id/share/commitment does not, >= t+1 shares give the secret, "+
			"<= t shares give an error or another value (real size), inadmissible ids are refused without panic. states/transitions: TLC on spec/FeldmanVSS.tla ("+c15Invs+"); "+
			"traces: toy dealings (one ndjson line each, all calls inside) explained by spec/FeldmanVSS_Trace.tla",
		cov, []string{
			"toy curves y^2=x^3-3x+b of prime order found by enumeration; crypto/elliptic's generic CurveParams arithmetic agrees with the harness's own affine arithmetic on them (self-checked at start-up)",
			"the discrete-log projection is a table computed with the harness's own arithmetic",
			"byte tapes drive common.GetRandomPositiveInt to every coefficient vector on the exhaustive toy orders; that they do is measured (coverage of all (q-1)^t vectors), outputs are never predicted from the tape",
			"degenerate dealings (secret or a coefficient or a share or a partial verification sum = 0 mod q) cannot be represented by crypto.ECPoint on a Weierstrass curve; the model describes what the code does with them and the property is judged on the others",
			"at toy size another id can have the same share value (then the share IS that id's share): counted, not judged; FeldmanVSS.tla states the exact condition (OtherIdFails). 'Fewer than t+1 never do' is exact also at toy size (degree exactly t), and Secrecy states the information-theoretic version on the model",
			"real-size oracle: harness/obs affine arithmetic (self-checked against published vectors) and math/big interpolation (self-checked)",
		}, "java tlc2.TLC FeldmanVSS.tla / FeldmanVSS_Trace.tla")
}
