package props

// C15 - one dealing of crypto/vss driven through the real code and judged by independent arithmetic.
// c15Run is used for the toy curves (where it also produces the ndjson line that FeldmanVSS_Trace.tla validates)
// and for secp256k1 / edwards25519 (where the same predicates are evaluated with math/big and harness/obs).

import (
	"crypto/elliptic"
	"encoding/hex"
	"errors"
	"fmt"
	"math/big"
	"math/rand"
	"strconv"
	"strings"
	"sync"

	"github.com/bnb-chain/tss-lib/v2/crypto"
	"github.com/bnb-chain/tss-lib/v2/crypto/vss"
	"github.com/bnb-chain/tss-lib/v2/tss"

	"verif/harness/obs"
	"verif/harness/toy"
)

// ------------------------------------------------------------------ curves

type c15Curve struct {
	Name string
	EC   elliptic.Curve
	G    obs.Group // arithmetic independent of the library
	Q    *big.Int
	Toy  *toy.Curve // nil at real size
	Tors []obs.Pt   // points of small order (edwards25519), nil on cofactor-1 curves
}

func c15GetCurve(name string) (*c15Curve, error) {
	switch {
	case name == "secp256k1":
		return &c15Curve{Name: name, EC: tss.S256(), G: obs.Secp, Q: obs.Secp.Order()}, nil
	case name == "edwards25519":
		return &c15Curve{Name: name, EC: tss.Edwards(), G: obs.Ed, Q: obs.Ed.Order(), Tors: obs.Ed.Torsion()}, nil
	case strings.HasPrefix(name, "toy-"):
		o, err := strconv.Atoi(name[4:])
		if err != nil {
			return nil, err
		}
		c, err := toy.Find(o)
		if err != nil {
			return nil, err
		}
		return &c15Curve{Name: name, EC: c.EC(), G: c, Q: c.Order(), Toy: c}, nil
	}
	return nil, fmt.Errorf("unknown curve %q", name)
}

// the library's group order must be the one the oracle uses
func (cv *c15Curve) selfCheck() error {
	if cv.EC.Params().N.Cmp(cv.Q) != 0 {
		return fmt.Errorf("%s: group order of the library curve differs from the oracle's", cv.Name)
	}
	g := cv.G.Gen()
	if cv.EC.Params().Gx.Cmp(g.X) != 0 || cv.EC.Params().Gy.Cmp(g.Y) != 0 {
		return fmt.Errorf("%s: generator of the library curve differs from the oracle's", cv.Name)
	}
	return nil
}

func (cv *c15Curve) mod(x *big.Int) *big.Int { return new(big.Int).Mod(x, cv.Q) }

// point of the library -> oracle point (no judgement)
func c15Pt(p *crypto.ECPoint) obs.Pt { return obs.Pt{X: p.X(), Y: p.Y()} }

// oracle point -> library point, built without asking the library whether it is on the curve
func (cv *c15Curve) ecPoint(p obs.Pt) *crypto.ECPoint {
	if p.Inf {
		return nil
	}
	return crypto.NewECPointNoCurveCheck(cv.EC, new(big.Int).Set(p.X), new(big.Int).Set(p.Y))
}

// dlog of a library point on a toy curve; 0 = not a representable group element
func (cv *c15Curve) dlog(p *crypto.ECPoint) int {
	if p == nil || cv.Toy == nil {
		return 0
	}
	var k int
	func() {
		defer func() { recover() }() // a point with nil coordinates
		if v, ok := cv.Toy.Dlog(p.X(), p.Y()); ok {
			k = v
		}
	}()
	return k
}

// ------------------------------------------------------------------ polynomial oracle (math/big)

// c15Interpolate returns a_0..a_{m-1} with sum a_k x^k = y_i at every x_i (mod q); the x_i must be distinct mod q.
func c15Interpolate(xs, ys []*big.Int, q *big.Int) ([]*big.Int, error) {
	m := len(xs)
	out := make([]*big.Int, m)
	for k := range out {
		out[k] = new(big.Int)
	}
	for i := 0; i < m; i++ {
		num := []*big.Int{big.NewInt(1)} // product of (x - x_j)
		den := big.NewInt(1)
		for j := 0; j < m; j++ {
			if j == i {
				continue
			}
			nx := make([]*big.Int, len(num)+1)
			for k := range nx {
				nx[k] = new(big.Int)
			}
			for k, c := range num {
				nx[k+1].Add(nx[k+1], c)
				t := new(big.Int).Mul(c, xs[j])
				nx[k].Sub(nx[k], t)
			}
			for k := range nx {
				nx[k].Mod(nx[k], q)
			}
			num = nx
			d := new(big.Int).Sub(xs[i], xs[j])
			den.Mul(den, d.Mod(d, q)).Mod(den, q)
		}
		inv := new(big.Int).ModInverse(den, q)
		if inv == nil {
			return nil, errors.New("interpolation points collide modulo q")
		}
		f := new(big.Int).Mul(ys[i], inv)
		f.Mod(f, q)
		for k, c := range num {
			t := new(big.Int).Mul(c, f)
			out[k].Add(out[k], t).Mod(out[k], q)
		}
	}
	return out, nil
}

func c15Eval(a []*big.Int, x, q *big.Int) *big.Int {
	r := new(big.Int)
	for k := len(a) - 1; k >= 0; k-- {
		r.Mul(r, x).Add(r, a[k]).Mod(r, q)
	}
	return r
}

// value at 0 of the polynomial of degree < len(xs) through the points, by Lagrange (obs)
func c15AtZero(xs, ys []*big.Int, q *big.Int) (*big.Int, error) {
	l, err := obs.LagrangeAtZero(xs, q)
	if err != nil {
		return nil, err
	}
	r := new(big.Int)
	for i := range xs {
		r.Add(r, new(big.Int).Mul(l[i], ys[i]))
	}
	return r.Mod(r, q), nil
}

func c15OracleSelfCheck(rng *rand.Rand) error {
	for _, q := range []*big.Int{big.NewInt(7), big.NewInt(251), obs.Secp.Order(), obs.Ed.Order()} {
		for m := 1; m <= 5; m++ {
			if int64(m) >= q.Int64() && q.IsInt64() {
				continue
			}
			a := make([]*big.Int, m)
			for k := range a {
				a[k] = new(big.Int).Rand(rng, q)
			}
			xs, ys := make([]*big.Int, m), make([]*big.Int, m)
			for i := range xs {
				xs[i] = big.NewInt(int64(i)) // includes x = 0
				if i > 0 && !q.IsInt64() {
					xs[i] = new(big.Int).Rand(rng, q)
				}
				ys[i] = new(big.Int)
				xk := big.NewInt(1)
				for k := range a { // plain power sum, not Horner
					ys[i].Add(ys[i], new(big.Int).Mul(a[k], xk))
					xk = new(big.Int).Mul(xk, xs[i])
					xk.Mod(xk, q)
				}
				ys[i].Mod(ys[i], q)
			}
			b, err := c15Interpolate(xs, ys, q)
			if err != nil {
				continue // random collision
			}
			for k := range a {
				if a[k].Cmp(b[k]) != 0 {
					return fmt.Errorf("interpolation oracle wrong for q=%v m=%d", q, m)
				}
			}
			for i := range xs {
				if c15Eval(b, xs[i], q).Cmp(ys[i]) != 0 {
					return fmt.Errorf("evaluation oracle wrong for q=%v m=%d", q, m)
				}
			}
			z, err := c15AtZero(xs[1:], ys[1:], q)
			if m >= 2 && err == nil {
				// the polynomial of degree < m-1 through m-1 of the points is another one; only check it is a value mod q
				if z.Sign() < 0 || z.Cmp(q) >= 0 {
					return fmt.Errorf("Lagrange oracle out of range")
				}
			}
			z, err = c15AtZero(xs, ys, q)
			if err != nil || z.Cmp(a[0]) != 0 {
				return fmt.Errorf("Lagrange oracle wrong for q=%v m=%d", q, m)
			}
		}
	}
	return nil
}

// ------------------------------------------------------------------ scenario / result

// c15Scenario is one dealing with the calls made on it; it is the replay unit.
type c15Scenario struct {
	Curve  string   `json:"curve"`
	T      int      `json:"t"`
	Secret string   `json:"secret"` // decimal
	Ids    []string `json:"ids"`    // decimal
	Tape   string   `json:"tape"`   // hex: first bytes of the random stream handed to Create
	Seed   int64    `json:"seed"`   // rest of the stream, and the sampled alterations
	Alter  bool     `json:"alter"`  // apply the single-component alterations (otherwise own-id verification and reconstructions)
	Only   []int    `json:"only"`   // with Alter: the shares (indices) whose material is altered; empty = all
	AltMin int      `json:"altmin"` // toy: altered ids / share values range over AltMin..AltMax exhaustively (AltMax = 0: the
	AltMax int      `json:"altmax"` // catalogue); AltMin < 0: negative representatives
	Label  string   `json:"label"`  // class of the dealing (coverage)
}

type c15Viol struct{ Key, What string }

// c15Line is the ndjson record of a toy dealing (see FeldmanVSS_Trace.tla).
type c15Line struct {
	T      int     `json:"t"`
	Secret int     `json:"secret"`
	Ids    []int   `json:"ids"`
	Out    string  `json:"out"`
	Vs     []int   `json:"vs"`
	Shares []int   `json:"shares"`
	Ver    [][]any `json:"ver"`
	Rec    [][]any `json:"rec"`
	Recx   [][]any `json:"recx"`
	X      int     `json:"x"` // 1: a line corrupted on purpose by the self test of the binding (must NOT be explained)
}

type c15Result struct {
	Sc      c15Scenario
	Out     string // ok | refused | panic
	Viols   []c15Viol
	Inconcl string
	Drift   []string
	Line    *c15Line // toy curves, only when nothing was reported
	VsKey   string   // toy: the commitment vector as dlogs
	// counters
	Verifies, Recons int
	Degenerate       bool // a dealt share is 0 mod q or a partial sum of its verification is the neutral element
	IdCoincidences   int  // altered id under which the polynomial happens to take the same value
	FewerHits        int  // subsets of <= t shares whose interpolation at 0 happens to be the secret (toy)
	FewerCalls       int
	AliasAccepted    int // calls with a congruent id / share value (same element of Z_q), not judged
	PanicNote        string
	ByKind           map[string]int
	coefs            []*big.Int
	noLine           bool // a dealing-level report: the dealing is left out of the trace
}

// viol records a violation found in a single call (that call is left out of the trace); dviol one about the dealing as a
// whole (the dealing is left out).
func (r *c15Result) viol(key, format string, a ...any) {
	r.Viols = append(r.Viols, c15Viol{Key: key, What: fmt.Sprintf(format, a...)})
}

func (r *c15Result) dviol(key, format string, a ...any) {
	r.noLine = true
	r.viol(key, format, a...)
}

func (r *c15Result) ddrift(format string, a ...any) {
	r.noLine = true
	r.Drift = append(r.Drift, fmt.Sprintf(format, a...))
}

func c15Recover(f func()) (panicked string) {
	defer func() {
		if r := recover(); r != nil {
			panicked = fmt.Sprint(r)
			if panicked == "" {
				panicked = "panic"
			}
		}
	}()
	f()
	return ""
}

func c15ParseInts(ss []string) ([]*big.Int, error) {
	out := make([]*big.Int, len(ss))
	for i, s := range ss {
		v, ok := new(big.Int).SetString(s, 10)
		if !ok {
			return nil, fmt.Errorf("bad integer %q", s)
		}
		out[i] = v
	}
	return out, nil
}

func c15Strs(xs []*big.Int) []string {
	out := make([]string, len(xs))
	for i, x := range xs {
		out[i] = x.String()
	}
	return out
}

// small integers for the trace line
func c15Int(x *big.Int) (int, bool) {
	if x == nil || !x.IsInt64() || x.Int64() > 1<<30 || x.Int64() < -(1<<30) {
		return 0, false
	}
	return int(x.Int64()), true
}

// ------------------------------------------------------------------ the run

type c15VCall struct {
	kind  string // own | id | share | commit | shape
	sub   string // which alteration
	i     int
	sthr  int
	id    *big.Int
	share *big.Int
	thr   int
	vs    vss.Vs
	// judgement
	mustFail bool   // the property demands FALSE
	mustHold bool   // the property demands TRUE
	key      string // violation key if the demand is not met
	nolog    bool   // cannot be written to the toy trace (nil vector ...)
}

// c15Dedupe remembers which Verify-alteration blocks (threshold, commitments, id) and which ReConstruct inputs (ids and
// share values of the subset) were already written to a toy trace: Verify sees one share and the commitments, ReConstruct
// the listed shares, nothing else of the dealing, so the exhaustive enumeration meets the same arguments many times. Every
// call is still made and judged; only the first occurrence is logged for TLC.
type c15Dedupe struct{ m sync.Map }

func (d *c15Dedupe) first(key string) bool {
	if d == nil {
		return true
	}
	_, loaded := d.m.LoadOrStore(key, true)
	return !loaded
}

func c15Run(cv *c15Curve, sc c15Scenario, dd *c15Dedupe) (res *c15Result) {
	res = &c15Result{Sc: sc, ByKind: map[string]int{}}
	q := cv.Q
	secret, ok := new(big.Int).SetString(sc.Secret, 10)
	if !ok {
		res.Inconcl = "bad secret"
		return
	}
	ids, err := c15ParseInts(sc.Ids)
	if err != nil {
		res.Inconcl = err.Error()
		return
	}
	tapeBytes, err := hex.DecodeString(sc.Tape)
	if err != nil {
		res.Inconcl = "bad tape"
		return
	}
	rng := rand.New(rand.NewSource(sc.Seed ^ 0x5eed15))
	n, t := len(ids), sc.T

	// what the property (and the model) say about refusal, computed here from the ids alone
	zeroID, dupID := false, false
	seen := map[string]bool{}
	for _, id := range ids {
		m := cv.mod(id)
		if m.Sign() == 0 {
			zeroID = true
		}
		if seen[m.String()] {
			dupID = true
		}
		seen[m.String()] = true
	}
	modelRefuses := zeroID || dupID || t < 1 || n < t

	// ---- Create
	var vs vss.Vs
	var shares vss.Shares
	var cerr error
	idsArg := make([]*big.Int, n)
	for i := range ids {
		idsArg[i] = new(big.Int).Set(ids[i])
	}
	pan := c15Recover(func() {
		vs, shares, cerr = vss.Create(cv.EC, t, new(big.Int).Set(secret), idsArg, toy.NewTape(tapeBytes, sc.Seed))
	})
	line := &c15Line{T: t, Ids: []int{}, Vs: []int{}, Shares: []int{}, Ver: [][]any{}, Rec: [][]any{}, Recx: [][]any{}}
	if cv.Toy != nil {
		s, ok1 := c15Int(secret)
		line.Secret = s
		for _, id := range ids {
			v, ok2 := c15Int(id)
			ok1 = ok1 && ok2
			line.Ids = append(line.Ids, v)
		}
		if !ok1 {
			res.Inconcl = "toy scenario with integers too large for TLC"
			return
		}
	}
	finish := func() {
		if cv.Toy != nil && !res.noLine && res.Inconcl == "" {
			line.Out = res.Out
			res.Line = line
		}
	}
	switch {
	case pan != "":
		res.Out = "panic"
		res.PanicNote = pan
		switch {
		case zeroID:
			res.dviol("C15:Create:panics-on-id-0-mod-q", "vss.Create on %s with an id that is 0 modulo the group order panics instead of refusing (ids %v): %s", cv.Name, sc.Ids, pan)
		case dupID:
			res.dviol("C15:Create:panics-on-ids-equal-mod-q", "vss.Create on %s with two ids that coincide modulo the group order panics instead of refusing (ids %v): %s", cv.Name, sc.Ids, pan)
		case modelRefuses:
			res.ddrift("Create panics for t < 1 or n < t: %s", pan)
		case cv.Toy != nil || cv.mod(secret).Sign() == 0:
			// degenerate dealing (named deviation): a coefficient that is 0 mod q has the neutral element as commitment,
			// which crypto.ECPoint cannot represent. Frequent at toy size, recorded; the enumeration checks that exactly the
			// expected number of tapes ends here.
			res.Degenerate = true
		default:
			res.dviol("C15:Create:panic", "vss.Create on %s panics for admissible ids and a secret that is not 0 mod q (t=%d, n=%d): %s", cv.Name, t, n, pan)
		}
		finish()
		return
	case cerr != nil:
		res.Out = "refused"
		if !modelRefuses {
			res.dviol("C15:Create:refuses-admissible-input", "vss.Create on %s refuses t=%d with %d ids that are non-zero and distinct modulo the group order (%v): %v", cv.Name, t, n, sc.Ids, cerr)
		}
		finish()
		return
	}
	res.Out = "ok"
	switch {
	case zeroID:
		res.dviol("C15:Create:accepts-id-0-mod-q", "vss.Create on %s deals to an id that is 0 modulo the group order (ids %v): that party's share is the secret itself", cv.Name, sc.Ids)
		return
	case dupID:
		res.dviol("C15:Create:accepts-ids-equal-mod-q", "vss.Create on %s deals to two ids that coincide modulo the group order (ids %v)", cv.Name, sc.Ids)
		return
	case modelRefuses:
		res.ddrift("Create accepts t=%d n=%d (the model refuses t < 1 and n < t; the property does not speak about it)", t, n)
		return
	}

	// ---- the dealing itself
	if len(vs) != t+1 || len(shares) != n {
		res.dviol("C15:Create:malformed-output", "vss.Create on %s returns %d commitments and %d shares for t=%d, n=%d", cv.Name, len(vs), len(shares), t, n)
		return
	}
	for i, s := range shares {
		if s == nil || s.ID == nil || s.Share == nil || s.ID.Cmp(ids[i]) != 0 || s.Threshold != t {
			res.dviol("C15:Create:malformed-output", "vss.Create on %s: share %d does not carry the id / threshold it was dealt for", cv.Name, i)
			return
		}
	}
	vpts := make([]obs.Pt, t+1)
	for k, v := range vs {
		bad := v == nil
		if !bad {
			if c15Recover(func() { vpts[k] = c15Pt(v) }) != "" {
				bad = true
			}
		}
		if bad || !cv.G.OnCurve(vpts[k]) || vpts[k].X.Sign() < 0 || vpts[k].Y.Sign() < 0 {
			res.dviol("C15:Create:commitment-not-on-curve", "vss.Create on %s: commitment %d is not a point of the curve", cv.Name, k)
			return
		}
	}
	sG := obs.BaseMul(cv.G, cv.mod(secret))
	if !sG.Eq(vpts[0]) {
		if secret.Sign() < 0 && obs.BaseMul(cv.G, cv.mod(new(big.Int).Neg(secret))).Eq(vpts[0]) {
			// the secret is a residue modulo q given as a negative integer -s: the commitment published is s*G, the shares are
			// dealt for -s, so that the first commitment is not secret*G and no dealt share verifies
			res.dviol("C15:Create:negative-secret-commitment-is-magnitude", "vss.Create on %s with the secret given as a negative integer publishes |secret|*G as first commitment, which is not secret*G (t=%d, n=%d, secret %s)", cv.Name, t, n, core15Short(secret))
			return
		}
		res.dviol("C15:Create:V0-is-not-secret*G", "vss.Create on %s: the first commitment is not secret*G (t=%d, n=%d)", cv.Name, t, n)
	}
	// the polynomial: through (0, secret) and the first t shares; everything else must agree with it
	xs := []*big.Int{big.NewInt(0)}
	ys := []*big.Int{cv.mod(secret)}
	for i := 0; i < t; i++ {
		xs = append(xs, cv.mod(ids[i]))
		ys = append(ys, cv.mod(shares[i].Share))
	}
	a, err := c15Interpolate(xs, ys, q)
	if err != nil {
		res.Inconcl = "interpolation of the dealt shares failed: " + err.Error()
		return
	}
	res.coefs = a
	onePoly := true
	for i := t; i < n; i++ {
		if c15Eval(a, cv.mod(ids[i]), q).Cmp(cv.mod(shares[i].Share)) != 0 {
			onePoly = false
		}
	}
	if !onePoly {
		res.dviol("C15:Create:shares-not-on-one-polynomial", "vss.Create on %s: the %d shares do not lie on one polynomial of degree <= %d with f(0) = secret", cv.Name, n, t)
	}
	if a[t].Sign() == 0 {
		res.dviol("C15:Create:degree-below-t", "vss.Create on %s: the shares lie on a polynomial of degree < t = %d", cv.Name, t)
	}
	commitOK := true
	for k := 0; k <= t; k++ {
		if !obs.BaseMul(cv.G, a[k]).Eq(vpts[k]) {
			commitOK = false
		}
	}
	if !commitOK && len(res.Viols) == 0 {
		res.dviol("C15:Create:commitments-do-not-match-the-shares", "vss.Create on %s: the commitments are not a_k*G for the polynomial through (0,secret) and the shares (t=%d, n=%d)", cv.Name, t, n)
	}
	if len(res.Viols) > 0 {
		return
	}
	if cv.Toy != nil {
		var key []string
		for _, v := range vs {
			d := cv.dlog(v)
			line.Vs = append(line.Vs, d)
			key = append(key, strconv.Itoa(d))
		}
		res.VsKey = strings.Join(key, ",")
		for _, s := range shares {
			v, ok := c15Int(s.Share)
			if !ok {
				res.Inconcl = "toy share too large for TLC"
				return
			}
			line.Shares = append(line.Shares, v)
		}
	}
	// smooth(id): every partial sum a_0 + a_1 id + .. + a_j id^j (j = 0..t) is non-zero mod q, i.e. the library can
	// represent every intermediate point of the verification (Weierstrass curves; on edwards25519 the neutral element is
	// an ordinary point and only the final value matters)
	smooth := func(id *big.Int) bool {
		x := cv.mod(id)
		if x.Sign() == 0 {
			return false
		}
		acc, xp := new(big.Int).Set(a[0]), big.NewInt(1)
		for j := 1; j <= t; j++ {
			xp = cv.mod(new(big.Int).Mul(xp, x))
			acc = cv.mod(new(big.Int).Add(acc, new(big.Int).Mul(a[j], xp)))
			if acc.Sign() == 0 && (cv.Tors == nil || j == t) {
				return false
			}
		}
		return true
	}
	for i := range ids {
		if !smooth(ids[i]) {
			res.Degenerate = true
		}
	}

	// ---- Verify calls
	calls := c15VerifyCalls(cv, sc, rng, t, ids, shares, vs, vpts, a)
	logAlt := make([]bool, n)
	for i := range logAlt {
		logAlt[i] = cv.Toy != nil && dd.first(fmt.Sprintf("V|%d|%s|%s", t, res.VsKey, ids[i]))
	}
	for _, c := range calls {
		var got bool
		sh := &vss.Share{Threshold: c.sthr, ID: c.id, Share: c.share}
		vcopy := make(vss.Vs, len(c.vs))
		for k, v := range c.vs { // Verify calls SetCurve on the points it is given: hand it its own copies
			if v != nil {
				vcopy[k] = crypto.NewECPointNoCurveCheck(cv.EC, v.X(), v.Y())
			}
		}
		if c.vs == nil {
			vcopy = nil
		}
		pan := c15Recover(func() { got = sh.Verify(cv.EC, c.thr, vcopy) })
		res.Verifies++
		res.ByKind[c.kind+"/"+c.sub]++
		congruentID := cv.mod(c.id).Cmp(cv.mod(ids[c.i])) == 0
		congruentShare := cv.mod(c.share).Cmp(cv.mod(shares[c.i].Share)) == 0
		if pan != "" {
			res.viol("C15:Verify:panic:"+c.kind+"/"+c.sub, "Share.Verify on %s panics on a %s/%s call (share %d, t=%d): %s", cv.Name, c.kind, c.sub, c.i, t, pan)
			continue
		}
		before := len(res.Viols) + len(res.Drift)
		switch {
		case c.kind == "own":
			if smooth(c.id) && !got {
				res.viol("C15:Verify:rejects-dealt-share", "Share.Verify on %s rejects share %d of an unaltered dealing (t=%d, n=%d) under its own id", cv.Name, c.i, t, n)
			}
			if !smooth(c.id) && got {
				res.Drift = append(res.Drift, "a degenerate share verifies")
			}
		case c.kind == "id" && congruentID, c.kind == "share" && congruentShare:
			// the same element of Z_q written as another integer: not an alteration; the model says it verifies like the
			// dealt one, the property says nothing
			if got {
				res.AliasAccepted++
			}
			if got != smooth(c.id) {
				res.Drift = append(res.Drift, fmt.Sprintf("Verify of a congruent %s [%s] returns %v, the dealt share %v (not demanded by the property)", c.kind, c.sub, got, smooth(c.id)))
			}
		case c.kind == "id":
			if c15Eval(a, cv.mod(c.id), q).Cmp(cv.mod(c.share)) == 0 {
				// the polynomial takes the same value at the other id: that IS the other id's share (toy sizes only)
				res.IdCoincidences++
			} else if got {
				res.viol(c.key, "Share.Verify on %s accepts share %d (dealt for id %s) under the id %s [%s] (t=%d)", cv.Name, c.i, core15Short(ids[c.i]), core15Short(c.id), c.sub, t)
			}
		default:
			if c.mustFail && got {
				res.viol(c.key, "Share.Verify on %s accepts a %s alteration [%s] of share %d (t=%d, n=%d, id %s)", cv.Name, c.kind, c.sub, c.i, t, n, core15Short(ids[c.i]))
			}
			if !c.mustFail && got {
				res.Drift = append(res.Drift, fmt.Sprintf("Verify accepts a %s case [%s] that the model rejects (not demanded by the property)", c.kind, c.sub))
			}
		}
		if cv.Toy != nil && !c.nolog && (c.kind == "own" || logAlt[c.i]) && len(res.Viols)+len(res.Drift) == before {
			idv, ok1 := c15Int(c.id)
			shv, ok2 := c15Int(c.share)
			if !ok1 || !ok2 {
				continue
			}
			dl := []int{}
			for _, v := range c.vs {
				dl = append(dl, cv.dlog(v))
			}
			line.Ver = append(line.Ver, []any{c.kind, c.i + 1, c.sthr, idv, shv, c.thr, dl, got})
		}
	}

	// ---- ReConstruct on every non-empty subset of the dealt shares
	secretModQ := cv.mod(secret)
	for mask := 1; mask < 1<<n; mask++ {
		var idx []int
		for i := 0; i < n; i++ {
			if mask&(1<<i) != 0 {
				idx = append(idx, i)
			}
		}
		if mask%3 == 0 { // the order of the shares must not matter
			rng.Shuffle(len(idx), func(x, y int) { idx[x], idx[y] = idx[y], idx[x] })
		}
		sub := make(vss.Shares, len(idx))
		for m, i := range idx {
			sub[m] = &vss.Share{Threshold: t, ID: new(big.Int).Set(ids[i]), Share: new(big.Int).Set(shares[i].Share)}
		}
		var got *big.Int
		var rerr error
		pan := c15Recover(func() { got, rerr = sub.ReConstruct(cv.EC) })
		res.Recons++
		logv := -1
		switch {
		case pan != "":
			if len(idx) >= t+1 {
				res.viol("C15:ReConstruct:panic", "Shares.ReConstruct on %s panics on %d >= t+1 = %d dealt shares: %s", cv.Name, len(idx), t+1, pan)
			} else {
				res.Drift = append(res.Drift, "ReConstruct panics on fewer than t+1 shares: "+pan)
			}
			continue
		case len(idx) >= t+1:
			if rerr != nil || got == nil || cv.mod(got).Cmp(secretModQ) != 0 {
				res.viol("C15:ReConstruct:t+1-shares-do-not-give-the-secret", "Shares.ReConstruct on %s with %d of %d shares (t=%d) returns %v, %v instead of the secret", cv.Name, len(idx), n, t, core15ShortP(got), rerr)
				continue
			}
		default:
			res.FewerCalls++
			if rerr == nil && got != nil && cv.mod(got).Cmp(secretModQ) == 0 {
				// at most t shares give the secret. Cannot happen for a polynomial of degree exactly t: the polynomial g of
				// degree < t through t of its points differs from it at 0 by a_t * prod(-x_i) != 0 (Reconstruction in
				// FeldmanVSS.tla); fewer than t shares are refused
				res.FewerHits++
				res.viol("C15:ReConstruct:fewer-than-t+1-shares-give-the-secret", "Shares.ReConstruct on %s returns the secret from %d <= t = %d shares", cv.Name, len(idx), t)
				continue
			}
			// what the model says about fewer than t+1 shares (fewer than t: error; exactly t: the value at 0 of the
			// polynomial of degree < t through them) is not demanded by the property: a departure is drift
			modelErr := len(idx) < t
			var modelVal *big.Int
			if !modelErr {
				xs2, ys2 := make([]*big.Int, len(idx)), make([]*big.Int, len(idx))
				for m, i := range idx {
					xs2[m], ys2[m] = cv.mod(ids[i]), cv.mod(shares[i].Share)
				}
				modelVal, _ = c15AtZero(xs2, ys2, q)
			}
			if (rerr != nil) != modelErr || (rerr == nil && (got == nil || modelVal == nil || cv.mod(got).Cmp(modelVal) != 0)) {
				res.Drift = append(res.Drift, fmt.Sprintf("ReConstruct with %d <= t = %d shares returns %v, %v; the model says %v (not demanded by the property)", len(idx), t, core15ShortP(got), rerr, core15ShortP(modelVal)))
				continue
			}
		}
		if rerr == nil && got != nil {
			v, ok := c15Int(got)
			if !ok {
				continue
			}
			logv = v
		}
		if cv.Toy != nil {
			key := fmt.Sprintf("R|%d", t)
			for i := 0; i < n; i++ {
				if mask&(1<<i) != 0 {
					key += fmt.Sprintf("|%s:%s", ids[i], shares[i].Share)
				}
			}
			if !dd.first(key) {
				continue
			}
			one := make([]int, len(idx))
			for m, i := range idx {
				one[m] = i + 1
			}
			line.Rec = append(line.Rec, []any{one, logv})
		}
	}
	// ReConstruct on lists that are not subsets of a dealing (the property does not speak about them: a departure from the
	// model is drift, what agrees with it is written to the toy trace):
	// (1) two ids that coincide modulo q, as representatives of either sign - the model says: error;
	// (2) the dealt shares written with other representatives (id - q, id + q, share - q: negative and >= q integers for the
	//     same elements of Z_q) - the model says: the secret, as for the dealt integers (ReprBlindCall).
	if sc.Alter && n >= 2 {
		for _, sh := range []int64{0, 1, -1, -2} {
			x1 := new(big.Int).Add(ids[0], new(big.Int).Mul(q, big.NewInt(sh)))
			sub := vss.Shares{{Threshold: 1, ID: new(big.Int).Set(ids[0]), Share: new(big.Int).Set(shares[0].Share)}, {Threshold: 1, ID: x1, Share: new(big.Int).Set(shares[1].Share)}}
			var got *big.Int
			var rerr error
			pan := c15Recover(func() { got, rerr = sub.ReConstruct(cv.EC) })
			res.Recons++
			switch {
			case pan != "":
				res.Drift = append(res.Drift, "ReConstruct panics on ids equal mod q: "+pan)
			case rerr == nil:
				res.Drift = append(res.Drift, fmt.Sprintf("ReConstruct on the ids x and x%+d*q returns %s, the model says error (not demanded by the property)", sh, core15ShortP(got)))
			case cv.Toy != nil:
				x0v, ok0 := c15Int(ids[0])
				x1v, ok1 := c15Int(x1)
				s0, _ := c15Int(shares[0].Share)
				s1, _ := c15Int(shares[1].Share)
				if ok0 && ok1 && dd.first(fmt.Sprintf("X|%d|%d|%d|%d", x0v, x1v, s0, s1)) {
					line.Recx = append(line.Recx, []any{1, []int{x0v, x1v}, []int{s0, s1}, -1})
				}
			}
		}
	}
	if sc.Alter && n >= t+1 {
		for _, sh := range []int64{-1, 1, -3} {
			shift := new(big.Int).Mul(q, big.NewInt(sh))
			sub := make(vss.Shares, n)
			xl, sl, small := make([]int, n), make([]int, n), true
			for i := range sub {
				sub[i] = &vss.Share{Threshold: t, ID: new(big.Int).Add(cv.mod(ids[i]), shift), Share: new(big.Int).Add(cv.mod(shares[i].Share), shift)}
				var ok1, ok2 bool
				xl[i], ok1 = c15Int(sub[i].ID)
				sl[i], ok2 = c15Int(sub[i].Share)
				small = small && ok1 && ok2
			}
			var got *big.Int
			var rerr error
			pan := c15Recover(func() { got, rerr = sub.ReConstruct(cv.EC) })
			res.Recons++
			switch {
			case pan != "":
				res.Drift = append(res.Drift, "ReConstruct panics on the dealt shares written with other representatives: "+pan)
			case rerr != nil || got == nil || cv.mod(got).Cmp(secretModQ) != 0:
				res.Drift = append(res.Drift, fmt.Sprintf("ReConstruct on all dealt shares written as id%+d*q, share%+d*q returns %s, %v, the model says the secret (not demanded by the property)", sh, sh, core15ShortP(got), rerr))
			case cv.Toy != nil && small:
				if v, ok := c15Int(got); ok && dd.first(fmt.Sprintf("X|%d|%v|%v", t, xl, sl)) {
					line.Recx = append(line.Recx, []any{t, xl, sl, v})
				}
			}
		}
	}
	finish()
	return
}

func core15Short(x *big.Int) string {
	s := x.String()
	if len(s) > 24 {
		return s[:10] + ".." + s[len(s)-6:] + fmt.Sprintf("(%d bits)", x.BitLen())
	}
	return s
}

func core15ShortP(x *big.Int) string {
	if x == nil {
		return "nil"
	}
	return core15Short(x)
}

// c15VerifyCalls lists the Verify calls of a dealing: every share under its own id and, when the scenario asks for it,
// every single-component alteration (exhaustive over the toy ranges when AltMax > 0, a fixed catalogue plus random values
// otherwise).
func c15VerifyCalls(cv *c15Curve, sc c15Scenario, rng *rand.Rand, t int, ids []*big.Int, shares vss.Shares, vs vss.Vs, vpts []obs.Pt, a []*big.Int) []c15VCall {
	q := cv.Q
	var out []c15VCall
	n := len(ids)
	for i := 0; i < n; i++ {
		own := c15VCall{kind: "own", sub: "-", i: i, sthr: t, id: ids[i], share: shares[i].Share, thr: t, vs: vs, mustHold: true}
		out = append(out, own)
		if !sc.Alter {
			continue
		}
		if len(sc.Only) > 0 {
			in := false
			for _, o := range sc.Only {
				in = in || o == i
			}
			if !in {
				continue
			}
		}
		add := func(c c15VCall) { out = append(out, c) }
		// --- id
		type alt struct {
			sub string
			v   *big.Int
		}
		var idAlts, shAlts []alt
		s := shares[i].Share
		if sc.AltMax > 0 {
			for v := sc.AltMin; v <= sc.AltMax; v++ {
				idAlts = append(idAlts, alt{"x", big.NewInt(int64(v))})
				shAlts = append(shAlts, alt{"x", big.NewInt(int64(v))})
			}
		} else {
			id := ids[i]
			idAlts = []alt{
				{"+1", new(big.Int).Add(id, big.NewInt(1))}, {"-1", new(big.Int).Sub(id, big.NewInt(1))},
				{"*2", new(big.Int).Lsh(id, 1)}, {"neg", new(big.Int).Sub(q, cv.mod(id))},
				{"+q", new(big.Int).Add(id, q)}, {"+q+1", new(big.Int).Add(new(big.Int).Add(id, q), big.NewInt(1))},
				{"0", big.NewInt(0)}, {"q", new(big.Int).Set(q)}, {"random", new(big.Int).Rand(rng, q)},
				{"flipbit", new(big.Int).Xor(id, new(big.Int).Lsh(big.NewInt(1), uint(rng.Intn(q.BitLen()))))},
				// negative integers: the same id written as id-q / id-3q (recorded), other classes, and -q (0 mod q)
				{"-q(congruent)", new(big.Int).Sub(id, q)}, {"-3q(congruent)", new(big.Int).Sub(id, new(big.Int).Mul(q, big.NewInt(3)))},
				{"negated", new(big.Int).Neg(id)}, {"+1-q", new(big.Int).Sub(new(big.Int).Add(id, big.NewInt(1)), q)},
				{"=-q", new(big.Int).Neg(q)}, {"random-2q", new(big.Int).Sub(new(big.Int).Rand(rng, q), new(big.Int).Lsh(q, 1))},
			}
			for j := 0; j < n; j++ {
				if j != i {
					idAlts = append(idAlts, alt{"other-party", ids[j]})
					if j == (i+1)%n { // one other party's id written as a negative integer
						idAlts = append(idAlts, alt{"other-party-q", new(big.Int).Sub(cv.mod(ids[j]), q)})
					}
				}
			}
			shAlts = []alt{
				{"+1", new(big.Int).Add(s, big.NewInt(1))}, {"-1", new(big.Int).Sub(s, big.NewInt(1))},
				{"*2", new(big.Int).Lsh(s, 1)}, {"q-s", new(big.Int).Sub(q, cv.mod(s))},
				{"+q", new(big.Int).Add(s, q)}, {"+q+1", new(big.Int).Add(new(big.Int).Add(s, q), big.NewInt(1))},
				{"0", big.NewInt(0)}, {"q", new(big.Int).Set(q)}, {"random", new(big.Int).Rand(rng, q)},
				{"flipbit", new(big.Int).Xor(s, new(big.Int).Lsh(big.NewInt(1), uint(rng.Intn(q.BitLen()))))},
				// negative integers: the same value written as s-q (recorded), other values, and -q (0 mod q)
				{"-q(congruent)", new(big.Int).Sub(s, q)}, {"+1-q", new(big.Int).Sub(new(big.Int).Add(s, big.NewInt(1)), q)},
				{"=-q", new(big.Int).Neg(q)}, {"random-2q", new(big.Int).Sub(new(big.Int).Rand(rng, q), new(big.Int).Lsh(q, 1))},
			}
			for j := 0; j < n; j++ {
				if j != i {
					shAlts = append(shAlts, alt{"other-party", shares[j].Share})
				}
			}
		}
		for _, al := range idAlts {
			if al.v.Cmp(ids[i]) == 0 {
				continue
			}
			add(c15VCall{kind: "id", sub: al.sub, i: i, sthr: t, id: al.v, share: s, thr: t, vs: vs, mustFail: true, key: "C15:Verify:accepts-share-under-another-id"})
		}
		negS, negDone := new(big.Int).Neg(s), false
		for _, al := range shAlts {
			if al.v.Cmp(s) == 0 {
				continue
			}
			key, sub := "C15:Verify:accepts-altered-share", al.sub
			if al.v.Cmp(negS) == 0 { // the negated share: -s is not congruent to s (q is odd, s != 0)
				key, sub, negDone = "C15:Verify:accepts-negated-share", "negative", true
			}
			add(c15VCall{kind: "share", sub: sub, i: i, sthr: t, id: ids[i], share: al.v, thr: t, vs: vs, mustFail: true, key: key})
		}
		if s.Sign() != 0 && !negDone {
			add(c15VCall{kind: "share", sub: "negative", i: i, sthr: t, id: ids[i], share: negS, thr: t, vs: vs, mustFail: true, key: "C15:Verify:accepts-negated-share"})
		}
		// --- commitments: one component replaced by another valid point
		for k := 0; k <= t; k++ {
			repl := func(sub string, p *crypto.ECPoint, key string, nolog bool) {
				nv := make(vss.Vs, len(vs))
				copy(nv, vs)
				nv[k] = p
				if key == "" {
					key = "C15:Verify:accepts-altered-commitment"
				}
				add(c15VCall{kind: "commit", sub: sub, i: i, sthr: t, id: ids[i], share: s, thr: t, vs: nv, mustFail: true, key: key, nolog: nolog})
			}
			if cv.Toy != nil && sc.AltMax > 0 {
				own := cv.dlog(vs[k])
				for d := 1; d < cv.Toy.Q; d++ {
					if d == own {
						continue
					}
					x, y, _ := cv.Toy.XY(d)
					repl("x", crypto.NewECPointNoCurveCheck(cv.EC, x, y), "", false)
				}
			} else {
				g := cv.G
				cands := []struct {
					sub string
					p   obs.Pt
				}{
					{"+G", g.Add(vpts[k], g.Gen())}, {"neg", g.Neg(vpts[k])}, {"double", g.Add(vpts[k], vpts[k])},
					{"random", obs.BaseMul(g, new(big.Int).Add(new(big.Int).Rand(rng, new(big.Int).Sub(q, big.NewInt(1))), big.NewInt(1)))},
					{"other-commitment", vpts[(k+1)%(t+1)]},
				}
				for _, c := range cands {
					if c.p.Inf || c.p.Eq(vpts[k]) || (cv.Tors != nil && c.p.Eq(g.Identity())) {
						continue
					}
					repl(c.sub, cv.ecPoint(c.p), "", false)
				}
				o8 := 1 + 2*rng.Intn(4)
				for ti, tp := range cv.Tors {
					if ti != 4 && ti != 2 && ti != o8 { // order 2, order 4, one of the four of order 8
						continue
					}
					repl(fmt.Sprintf("+small-order-point(order %d)", 8/c15gcd(ti, 8)), cv.ecPoint(g.Add(vpts[k], tp)), "C15:Verify:accepts-commitment-with-small-order-component", false)
				}
			}
			// not a curve point, and a missing point
			off := crypto.NewECPointNoCurveCheck(cv.EC, vs[k].X(), new(big.Int).Add(vs[k].Y(), big.NewInt(1)))
			if !cv.G.OnCurve(c15Pt(off)) {
				repl("off-curve", off, "", false)
			}
			repl("nil", nil, "", false)
		}
		// --- shape
		shape := func(sub string, sthr, thr int, v vss.Vs, nolog bool) {
			add(c15VCall{kind: "shape", sub: sub, i: i, sthr: sthr, id: ids[i], share: s, thr: thr, vs: v, mustFail: true, key: "C15:Verify:accepts-wrong-shape", nolog: nolog})
		}
		shape("last-commitment-dropped", t, t, vs[:t], false)
		shape("commitment-appended", t, t, append(append(vss.Vs{}, vs...), vs[t]), false)
		shape("commitment-appended,threshold+1", t, t+1, append(append(vss.Vs{}, vs...), vs[t]), false)
		out = append(out, c15VCall{kind: "shape", sub: "share-threshold+1", i: i, sthr: t + 1, id: ids[i], share: s, thr: t, vs: vs}) // the Threshold field of a share: recorded (model: false), not judged
		shape("no-commitments", t, t, nil, true)
	}
	return out
}

func c15gcd(a, b int) int {
	for b != 0 {
		a, b = b, a%b
	}
	return a
}
