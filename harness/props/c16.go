package props

// C16 — commitments bind; hash inputs are framed unambiguously; the multi-part packing round-trips and its parser
// rejects malformed or oversized input with an error.
//
// Reference: spec/HashFrame.tla (byte framing of common/hash.go as TLA+ operators, its left inverse, the hash
// commitment with an ideal hash and the single edits of a decommitment) and spec/CommitBuilder.tla (builder.Secrets /
// ParseSecrets transcribed branch by branch over sequence views that reach the real caps).
// Binding: (B) catalogue replay - TLC prints, for EVERY tuple of the exhaustive domain, the frame the specification
// assigns to it; the harness hashes those bytes with crypto/sha512 and compares with the digest the library returns
// for the same tuple (conformance; a mismatch is drift, not a violation), and TLC prints the catalogues of
// decommitment edits, of all short sequences and of mutated layouts at the real caps with the predicted verdicts,
// which are replayed into the real Verify / DeCommit / Secrets / ParseSecrets.
// Verdict: only from real-code behaviour - two distinct tuples with the same library digest, a decommitment one edit
// away that opens, two sequences sharing a commitment, a packing that does not come back, a malformed or oversized
// input that is accepted, a panic where an error is due.
//
// Helper files: c16_hash.go, c16_commit.go, c16_builder.go.

import (
	"bufio"
	"encoding/json"
	"fmt"
	"sort"
	"strconv"
	"strings"
	"sync"
	"time"

	"verif/harness/core"
	"verif/harness/tlc"
)

func init() { Registry["C16"] = C16 }

// ---------------------------------------------------------------- scenarios (replay files)

type c16Scenario struct {
	Kind      string            `json:"kind"` // hash | commit | parse | secrets | hashhist | buildhist
	Hash      *c16HashCase      `json:"hash,omitempty"`
	Commit    *c16CommitCase    `json:"commit,omitempty"`
	Parse     *c16ParseCase     `json:"parse,omitempty"`
	Secrets   *c16SecretsCase   `json:"secrets,omitempty"`
	HashHist  *c16HashHistCase  `json:"hash_history,omitempty"`
	BuildHist *c16BuildHistCase `json:"builder_history,omitempty"`
}

// c16Finding is what the evaluation of one case returns when the real code contradicts the property.
type c16Finding struct {
	Key, What string
	Inconcl   bool
}

// ---------------------------------------------------------------- TLC jobs

type c16Job struct {
	name    string
	workers int
	opt     tlc.Options
	res     tlc.Result
	done    chan struct{}
}

// c16RunJobs starts the jobs in the given order, never using more than `budget` TLC workers at a time.
func c16RunJobs(jobs []*c16Job, budget int) {
	var mu sync.Mutex
	cond := sync.NewCond(&mu)
	free := budget
	for _, j := range jobs {
		j.done = make(chan struct{})
	}
	go func() {
		for _, j := range jobs {
			j := j
			if j.workers > budget {
				j.workers = budget
			}
			mu.Lock()
			for free < j.workers {
				cond.Wait()
			}
			free -= j.workers
			mu.Unlock()
			go func() {
				j.opt.Workers = j.workers
				j.res = tlc.Run(j.opt)
				mu.Lock()
				free += j.workers
				cond.Broadcast()
				mu.Unlock()
				close(j.done)
			}()
		}
	}()
}

func c16Set(v []int) string {
	s := make([]string, len(v))
	for i, x := range v {
		s[i] = strconv.Itoa(x)
	}
	return "{" + strings.Join(s, ", ") + "}"
}

type c16HF struct {
	alpha            []int
	blocks           []int  // BlockVals: the 9-byte blocks '$' o LE64(k) are symbols too
	extra            string // further CONSTANTS lines
	spec             string // SPECIFICATION (default Spec)
	maxCount, maxLen int
	kind             string
	withNil          bool
	variants         []string
	emit             bool
	invs             string
	view             bool
}

func (h c16HF) cfg() string {
	b := func(x bool) string {
		if x {
			return "TRUE"
		}
		return "FALSE"
	}
	if len(h.variants) == 0 {
		h.variants = []string{"code"}
	}
	q := make([]string, len(h.variants))
	for i, x := range h.variants {
		q[i] = strconv.Quote(x)
	}
	vs := "{" + strings.Join(q, ", ") + "}"
	if h.spec == "" {
		h.spec = "Spec"
	}
	s := fmt.Sprintf("SPECIFICATION %s\nCONSTANTS\n  Alphabet = %s\n  BlockVals = %s\n  MaxCount = %d\n  MaxLen = %d\n  Kind = %q\n  WithNil = %s\n  VariantSet = %s\n  Emit = %s\n%s",
		h.spec, c16Set(h.alpha), c16Set(h.blocks), h.maxCount, h.maxLen, h.kind, b(h.withNil), vs, b(h.emit), h.extra)
	if h.invs != "" {
		s += "INVARIANTS " + h.invs + "\n"
	}
	if h.view {
		s += "VIEW FrameView\n"
	}
	return s + "CHECK_DEADLOCK FALSE\n"
}

// number of byte strings / integers / tuples of the domain
func c16Pow(a, n int) int {
	r := 1
	for i := 0; i < n; i++ {
		r *= a
	}
	return r
}
func c16NStrings(a, maxLen int) int {
	n := 0
	for l := 0; l <= maxLen; l++ {
		n += c16Pow(a, l)
	}
	return n
}

// integers whose minimal big-endian encoding is a string over the alphabet (which contains 0) of at most maxLen bytes
func c16NInts(a, maxLen int) int {
	n := 1
	for l := 1; l <= maxLen; l++ {
		n += (a - 1) * c16Pow(a, l-1)
	}
	return n
}
func c16NTuples(inputs, maxCount int) int {
	n := 0
	for k := 1; k <= maxCount; k++ {
		n += c16Pow(inputs, k)
	}
	return n
}

type c16CB struct {
	partsCap, maxPart int
	dangling, mode    string
	maxSeqLen         int
	natElems, lens    []int
	overLens          []int
	fill              int
	invs              string
	history           bool // Mode "history": HistProfiles comes from the wrapper module
}

func (c c16CB) cfg() string {
	if len(c.natElems) == 0 {
		c.natElems = []int{0}
	}
	if len(c.lens) == 0 {
		c.lens = []int{0}
	}
	if len(c.overLens) == 0 {
		c.overLens = c.lens
	}
	prof := "  HistProfiles = {}\n"
	if c.history {
		prof = "  HistProfiles <- HistProfilesVal\n"
	}
	return fmt.Sprintf("SPECIFICATION Spec\nCONSTANTS\n  PartsCap = %d\n  MaxPartSize = %d\n  Dangling = %q\n  Mode = %q\n  MaxSeqLen = %d\n  NatElems = %s\n  LenChoices = %s\n  OverLens = %s\n  FillV = %d\n  MemoDesign = \"none\"\n%sINVARIANTS %s\nCHECK_DEADLOCK FALSE\n",
		c.partsCap, c.maxPart, c.dangling, c.mode, c.maxSeqLen, c16Set(c.natElems), c16Set(c.lens), c16Set(c.overLens), c.fill, prof, c.invs)
}

// c16Lines calls f with the string payload of every value <<"TAG", "...">> printed by TLC (TLC's pretty printer may
// break such a value over several lines, between the elements of the tuple).
func c16Lines(out, tag string, f func(payload string) error) (int, error) {
	return c16Tagged(out, tag, func(rest string) error {
		s, err := strconv.Unquote(rest)
		if err != nil {
			return fmt.Errorf("cannot unquote TLC output %q: %v", core.Short(rest, 80), err)
		}
		return f(s)
	})
}

// c16Tagged calls f with the text between `<<"TAG",` and the closing `>>` of every printed tuple with that tag.
func c16Tagged(out, tag string, f func(rest string) error) (int, error) {
	p1, p2 := fmt.Sprintf("<<%q,", tag), fmt.Sprintf("<< %q,", tag)
	sc := bufio.NewScanner(strings.NewReader(out))
	sc.Buffer(make([]byte, 1<<20), 1<<28)
	n := 0
	acc, open := "", false
	for sc.Scan() {
		line := strings.TrimSpace(sc.Text())
		if !open {
			switch {
			case strings.HasPrefix(line, p1):
				acc, open = line[len(p1):], true
			case strings.HasPrefix(line, p2):
				acc, open = line[len(p2):], true
			default:
				continue
			}
		} else {
			acc += " " + line
		}
		if !strings.HasSuffix(acc, ">>") {
			continue
		}
		open = false
		n++
		if err := f(strings.TrimSpace(acc[:len(acc)-2])); err != nil {
			return n, err
		}
	}
	if open {
		return n, fmt.Errorf("unterminated %s value in the TLC output", tag)
	}
	return n, sc.Err()
}

// c16Witnesses: <<"WITNESS", "variant", "json">>
func c16Witnesses(out string) (map[string][2][][]int, error) {
	res := map[string][2][][]int{}
	_, err := c16Tagged(out, "WITNESS", func(rest string) error {
		i := strings.Index(rest, `", `)
		if i < 0 || !strings.HasPrefix(rest, `"`) {
			return fmt.Errorf("bad witness line %q", core.Short(rest, 80))
		}
		variant := rest[1:i]
		s, err := strconv.Unquote(strings.TrimSpace(rest[i+2:]))
		if err != nil {
			return err
		}
		var pair [2][][]int
		if err := json.Unmarshal([]byte(s), &pair); err != nil {
			return err
		}
		res[variant] = pair
		return nil
	})
	return res, err
}

func c16Report(ctx *core.Ctx, f *c16Finding, sc c16Scenario) error {
	if f == nil {
		return nil
	}
	if f.Inconcl {
		return core.Inconcl("C16 machinery: %s", f.What)
	}
	ctx.Report(f.Key, f.What, sc)
	return nil
}

func c16Replay(ctx *core.Ctx) error {
	var sc c16Scenario
	if _, err := core.LoadReplay(ctx.Replay, &sc); err != nil {
		return core.Inconcl("cannot load replay: %v", err)
	}
	var f *c16Finding
	switch {
	case sc.Kind == "hash" && sc.Hash != nil:
		f = c16HashEval(sc.Hash)
	case sc.Kind == "commit" && sc.Commit != nil:
		f = c16CommitEval(sc.Commit)
	case sc.Kind == "parse" && sc.Parse != nil:
		f = c16ParseEval(sc.Parse, nil).Finding
	case sc.Kind == "secrets" && sc.Secrets != nil:
		f = c16SecretsEval(sc.Secrets, nil)
	case sc.Kind == "hashhist" && sc.HashHist != nil:
		f = c16HashHistEval(sc.HashHist)
	case sc.Kind == "buildhist" && sc.BuildHist != nil:
		f, _ = c16BuildHistEval(sc.BuildHist)
	default:
		return core.Inconcl("replay file has no C16 scenario")
	}
	if f == nil {
		fmt.Println("replay: the scenario no longer contradicts the property")
		return nil
	}
	return c16Report(ctx, f, sc)
}

const (
	c16RealPartsCap = 3
	c16RealMaxPart  = 1 << 20
)

var c16Ambiguous = []string{"nolen", "nocount+nolen", "bare", "skipempty"}
var c16Injective = []string{"code", "nocount", "nodelim"}

// injective on short strings over single bytes, ambiguous as soon as an input embeds a whole delimiter + field (HashFrame.tla)
// (these four collide on the block domain with BlockVals {0, 1, 2, 3}; "total" needs a block that holds the sum of all lengths
// and is convicted by the constructed pairs only)
var c16EmbedAmbiguous = []string{"count/$/count", "count/$/zero", "count/$/index", "count/$/first"}

func C16(ctx *core.Ctx) error {
	if ctx.Replay != "" {
		return c16Replay(ctx)
	}
	cov := core.NewCov()
	phases := map[string]float64{}
	t0 := time.Now()
	lap := func(name string) { phases[name] = time.Since(t0).Seconds(); t0 = time.Now() }
	if err := c16LimitsMatch(); err != nil {
		return err
	}

	alpha := []int{0, 36, 1}
	if ctx.Thorough() {
		alpha = []int{0, 36, 1, 8}
	}
	alphaQuick := []int{0, 36, 1}
	timeout := time.Duration(ctx.Pick(20, 60)) * time.Minute
	heap := "3g"
	// several JVMs run side by side on a shared machine: keep their helper threads few
	jvmEnv := map[string]string{"JAVA_TOOL_OPTIONS": "-XX:ParallelGCThreads=2 -XX:CICompilerCount=2"}

	// random long tuples: a sample of them goes to TLC (frames computed by the specification)
	rl := c16NewRandomLong(ctx.Seed, ctx.Pick(150, 6000), ctx.Pick(60, 300)) // families (about 17 tuples each), tuples sampled for TLC

	// ---- TLC jobs (started now, consumed below as they finish)
	hfJobOn := func(base, name string, w int, h c16HF, wrapper string) *c16Job {
		o := tlc.Options{Module: base, Cfg: h.cfg(), Heap: heap, Timeout: timeout, Env: jvmEnv}
		if wrapper != "" {
			o.Module = "MC_C16_" + name
			o.Files = map[string]string{o.Module + ".tla": fmt.Sprintf("---- MODULE %s ----\nEXTENDS %s\n%s\n====\n", o.Module, base, wrapper)}
		}
		return &c16Job{name: name, workers: w, opt: o}
	}
	hfJob := func(name string, w int, h c16HF, wrapper string) *c16Job {
		return hfJobOn("HashFrame", name, w, h, wrapper)
	}
	cbJob := func(name string, w int, c c16CB) *c16Job {
		return &c16Job{name: name, workers: w, opt: tlc.Options{Module: "CommitBuilder", Cfg: c.cfg(), Heap: heap, Timeout: timeout, Env: jvmEnv}}
	}
	jBytes := hfJob("bytes", ctx.Pick(3, 5), c16HF{alpha: alpha, maxCount: 3, maxLen: 3, kind: "bytes", emit: true, invs: "FrameRow"}, "")
	jInts := hfJob("ints", ctx.Pick(2, 3), c16HF{alpha: alpha, maxCount: 3, maxLen: 3, kind: "ints", withNil: true, emit: true, invs: "IntBytesInjective FrameRow"}, "")
	jCommit := hfJob("commit", ctx.Pick(2, 4), c16HF{alpha: alpha, maxCount: 3, maxLen: 2, kind: "ints", emit: true, invs: "CommitBinds"}, "")
	// views: distinct states = distinct (framing, frame) pairs. The first one also evaluates the collision witnesses of
	// the ambiguous framings and the frames of the sampled long tuples.
	viewLen := ctx.Pick(2, 3)
	wrapper := "ASSUME \\A vv \\in Ambiguous : PrintT(<<\"WITNESS\", vv, ToJson(Witness(vv))>>)\n" + rl.tlaSample() +
		// HashFrameAdv.tla: the pairs that embed what a (weakened) framing writes, judged under every variant; the probes
		"ASSUME \\A p \\in EmbedPairs : CodeSeparates(p) /\\ PrintT(<<\"PAIR\", ToJson([a |-> p[1], b |-> p[2], by |-> CollidesUnder(p)])>>)\n" +
		"ASSUME \\A v \\in EmbedAmbiguous \\cup LongAmbiguous : \\E p \\in EmbedPairs : v \\in CollidesUnder(p)\n" +
		"ASSUME PrintT(<<\"MUSTHIT\", ToJson(EmbedAmbiguous \\cup LongAmbiguous)>>)\n" +
		"ASSUME PrintT(<<\"PROBES\", ToJson(Probes)>>)\n" +
		"ASSUME ProbesDiscriminate /\\ \\A v \\in ProbeVariants : PrintT(<<\"PROBE\", VName(v), ToJson(ProbeFrames[v])>>)\n"
	type viewRun struct {
		job      *c16Job
		kind     string
		variants []string
		total    int
	}
	var views []viewRun
	nb := c16NTuples(c16NStrings(len(alphaQuick), viewLen), 3)
	views = append(views, viewRun{hfJobOn("HashFrameAdv", "view_injective", 1, c16HF{alpha: alphaQuick, maxCount: 3, maxLen: viewLen, kind: "bytes", variants: c16Injective, invs: "TypeOK", view: true}, wrapper), "bytes", c16Injective, nb})
	// the exhaustive domain over SYMBOLS: bytes and whole 9-byte blocks '$' o LE64(k) (a delimiter and a length / count field)
	blockAlpha, blockVals := []int{1}, []int{0, 2, 3}
	if ctx.Thorough() {
		blockVals = []int{0, 1, 2, 3}
	}
	nBlocks := c16NTuples(c16NStrings(len(blockAlpha)+len(blockVals), 2), 3)
	jBlocks := hfJob("blocks", ctx.Pick(2, 4), c16HF{alpha: blockAlpha, blocks: blockVals, maxCount: 3, maxLen: 2, kind: "bytes", emit: true, invs: "FrameRow"}, "")
	if ctx.Thorough() {
		// on the block domain TLC itself finds the collisions of the framings whose field does not fix the length
		views = append(views, viewRun{hfJob("viewblocks_injective", 1, c16HF{alpha: blockAlpha, blocks: blockVals, maxCount: 3, maxLen: 2, kind: "bytes", variants: c16Injective, invs: "TypeOK", view: true}, ""), "blocks", c16Injective, nBlocks})
		for _, v := range c16EmbedAmbiguous {
			j := hfJob("viewblocks_"+strings.NewReplacer("/", "_", "$", "D").Replace(v), 1, c16HF{alpha: blockAlpha, blocks: blockVals, maxCount: 3, maxLen: 2, kind: "bytes", variants: []string{v}, invs: "TypeOK", view: true}, "")
			views = append(views, viewRun{j, "blocks", []string{v}, nBlocks})
		}
	}
	// histories of calls of the hash functions in one process, the caller re-using its objects (spec/HashHistory.tla)
	hv := "bv |-> {<<1>>, <<2>>}, iv |-> {1, 2}, tv |-> {<<1>>, <<2>>}"
	hprof := fmt.Sprintf("{ [%s, arity |-> {1}, max |-> 2, flags |-> TRUE], [%s, arity |-> {1}, max |-> 3, flags |-> FALSE], [%s, arity |-> {1, 2}, max |-> 2, flags |-> FALSE] }", hv, hv, hv)
	if ctx.Thorough() {
		hv3 := "bv |-> {<<1>>, <<2>>, <<1, 2>>}, iv |-> {1, 2, 258}, tv |-> {<<1>>, <<2>>, <<1, 2>>}"
		hprof = fmt.Sprintf("{ [%s, arity |-> {1, 2}, max |-> 2, flags |-> TRUE], [%s, arity |-> {1}, max |-> 4, flags |-> FALSE], [%s, arity |-> {1, 2}, max |-> 3, flags |-> FALSE], [%s, arity |-> {1}, max |-> 3, flags |-> FALSE], [%s, arity |-> {1}, max |-> 2, flags |-> TRUE] }", hv, hv, hv, hv3, hv3)
	}
	hhWrapper := "HProfilesVal == " + hprof + "\n" +
		"ASSUME \\A p \\in HProfilesVal : \\A c \\in CallsOf(p) : PrintT(<<\"CALL\", ToJson([fn |-> c.fn, tag |-> c.tag, ins |-> c.ins, f |-> Frame(InBytes(c)), tf |-> Frame(<<c.tag>>)])>>)\n" +
		"ASSUME \\A d \\in StatefulDesigns : PrintT(<<\"HWITNESS\", d, ToJson(Witness2(d))>>)\n"
	jHHist := hfJobOn("HashHistory", "hash_histories", ctx.Pick(1, 3), c16HF{alpha: []int{1}, maxCount: 1, maxLen: 1, kind: "bytes", spec: "HSpec",
		extra: "  Design = \"pure\"\n  HProfiles <- HProfilesVal\n", invs: "HistFunctional HistInjective HistHeld EmitHist"}, hhWrapper)
	if ctx.Thorough() {
		for _, v := range c16Ambiguous {
			j := hfJob("view_"+strings.ReplaceAll(v, "+", "_"), 1, c16HF{alpha: alphaQuick, maxCount: 3, maxLen: viewLen, kind: "bytes", variants: []string{v}, invs: "TypeOK", view: true}, "")
			views = append(views, viewRun{j, "bytes", []string{v}, nb})
		}
		ni := c16NTuples(c16NInts(len(alphaQuick), 3), 3)
		views = append(views, viewRun{hfJob("viewints_injective", 1, c16HF{alpha: alphaQuick, maxCount: 3, maxLen: 3, kind: "ints", variants: c16Injective, invs: "TypeOK", view: true}, ""), "ints", c16Injective, ni})
		views = append(views, viewRun{hfJob("viewints_nolen", 1, c16HF{alpha: alphaQuick, maxCount: 3, maxLen: 3, kind: "ints", variants: []string{"nolen"}, invs: "TypeOK", view: true}, ""), "ints", []string{"nolen"}, ni})
	}
	small := []int{0, 1, 2, 3}
	jSeqs := cbJob("seqs_small", 2, c16CB{partsCap: 3, maxPart: 2, dangling: "checked", mode: "seqs", maxSeqLen: ctx.Pick(4, 6), natElems: small, invs: "ParserSound ParserExact"})
	// the pinned parser: TLC must find counterexamples to both statements (-continue: all violations are reported)
	jSeqsIgn := cbJob("seqs_pinned_parser", 1, c16CB{partsCap: 3, maxPart: 2, dangling: "ignored", mode: "seqs", maxSeqLen: 2, natElems: small, invs: "ParserSound ParserExact"})
	jSeqsIgn.opt.Args = []string{"-continue"}
	jLayouts := cbJob("layouts", 2, c16CB{partsCap: 3, maxPart: 2, dangling: "checked", mode: "layouts", invs: "BuilderCaps RoundTrip LayoutViewAgrees"})
	realNat := []int{0, 1, 2, c16RealMaxPart, c16RealMaxPart + 1}
	jSeqsReal := cbJob("seqs_real", 2, c16CB{partsCap: c16RealPartsCap, maxPart: c16RealMaxPart, dangling: "checked", mode: "seqs", maxSeqLen: ctx.Pick(4, 5), natElems: realNat, invs: "ParserSound ParserExact EmitSeq"})
	catLens, overLens := []int{0, 2, c16RealMaxPart, c16RealMaxPart + 1}, []int{0, 2}
	if ctx.Thorough() {
		catLens = []int{0, 1, 3, c16RealMaxPart, c16RealMaxPart + 1}
		overLens = catLens
	}
	jCat := cbJob("catalogue", ctx.Pick(3, 4), c16CB{partsCap: c16RealPartsCap, maxPart: c16RealMaxPart, dangling: "checked", mode: "catalogue", lens: catLens, overLens: overLens, fill: 1, invs: "RowSound RowRoundTrip EmitRow"})
	cats := []*c16Job{jCat}
	var extra []*c16Job // thorough only
	if ctx.Thorough() {
		cats = append(cats, cbJob("catalogue_fill5", 3, c16CB{partsCap: c16RealPartsCap, maxPart: c16RealMaxPart, dangling: "checked", mode: "catalogue", lens: []int{0, 2, c16RealMaxPart - 1, c16RealMaxPart + 1}, fill: 5, invs: "RowSound RowRoundTrip EmitRow"}))
		extra = append(extra, cbJob("seqs_small_cap2", 1, c16CB{partsCap: 2, maxPart: 1, dangling: "checked", mode: "seqs", maxSeqLen: 6, natElems: []int{0, 1, 2}, invs: "ParserSound ParserExact"}))
	}
	jLayoutsIgn := cbJob("layouts_pinned_parser", 1, c16CB{partsCap: 3, maxPart: 2, dangling: "ignored", mode: "layouts", invs: "RoundTrip"})
	// histories on ONE builder object at the real caps (CommitBuilder.tla, Mode "history")
	bprof := `{ [ops |-> {"add0", "add1", "secrets", "parse", "scribble", "parts"}, max |-> 5], [ops |-> {"add1", "secrets", "parse"}, max |-> 7], [ops |-> {"add1", "addBig", "secrets"}, max |-> 4] }`
	if ctx.Thorough() {
		bprof = `{ [ops |-> {"add0", "add1", "secrets", "parse", "scribble", "parts"}, max |-> 6], [ops |-> {"add0", "add2", "secrets", "parse", "scribble"}, max |-> 6], [ops |-> {"add1", "secrets", "parse"}, max |-> 9], [ops |-> {"add1", "addBig", "secrets", "scribble"}, max |-> 5] }`
	}
	jBHist := cbJob("builder_histories", ctx.Pick(1, 3), c16CB{partsCap: c16RealPartsCap, maxPart: c16RealMaxPart, dangling: "checked", mode: "history", history: true, invs: "HistSecretsArePacking HistParseGivesParts EmitHist"})
	jBHist.opt.Module = "MC_C16_builder_histories"
	jBHist.opt.Files = map[string]string{"MC_C16_builder_histories.tla": "---- MODULE MC_C16_builder_histories ----\nEXTENDS CommitBuilder\nHistProfilesVal == " + bprof + "\n" +
		"ASSUME \\A d \\in {\"stale\", \"shared\"} : PrintT(<<\"HISTWITNESS\", d, ToJson(HistWitness(d))>>)\n" +
		"ASSUME \\A h \\in WitnessHists : LET o == TLCEval(HObs(\"none\", h)) IN SecretsArePacking(h, o) /\\ ParseGivesParts(h, o)\n====\n"}

	jobs := []*c16Job{jBytes, jInts, views[0].job, jBlocks, jCat, jCommit, jHHist, jSeqsReal, jBHist, jLayouts, jSeqs}
	jobs = append(jobs, cats[1:]...)
	jobs = append(jobs, extra...)
	jobs = append(jobs, jSeqsIgn)
	if ctx.Thorough() {
		jobs = append(jobs, jLayoutsIgn)
	}
	for _, v := range views[1:] {
		jobs = append(jobs, v.job)
	}
	c16RunJobs(jobs, 8)

	mcTable := map[string]any{}
	wait := func(j *c16Job, expectViolated string) error {
		<-j.done
		r := j.res
		mcTable[j.name] = map[string]any{"distinct": r.Distinct, "generated": r.Generated, "wall_s": int(r.Wall), "violated": r.Violated}
		if r.Err != nil {
			return core.Inconcl("TLC run %s failed: %v", j.name, r.Err)
		}
		if expectViolated == "" {
			if !r.OK {
				return core.Inconcl("TLC run %s: the specification violates %s (design-level counterexample, nothing was judged):\n%s", j.name, r.Violated, r.ErrorTrace(2000))
			}
			cov.AddMC(r.Distinct, r.Generated)
			return nil
		}
		if r.Violated != expectViolated {
			return core.Inconcl("TLC run %s was expected to violate %s (the pinned parser drops a final length prefix), got %q", j.name, expectViolated, r.Violated)
		}
		return nil
	}

	// ---- meanwhile: real-size commitments and random long tuples (no TLC output needed)
	var findings []struct {
		f  *c16Finding
		sc c16Scenario
	}
	var fmu sync.Mutex
	haveKey := map[string]bool{}
	add := func(f *c16Finding, sc c16Scenario) {
		if f == nil {
			return
		}
		fmu.Lock()
		defer fmu.Unlock()
		k := f.Key
		if f.Inconcl {
			k = "inconclusive:" + f.What
		}
		if haveKey[k] { // one scenario per key is enough
			return
		}
		haveKey[k] = true
		findings = append(findings, struct {
			f  *c16Finding
			sc c16Scenario
		}{f, sc})
	}
	c16CommitRealSize(ctx, cov, add)
	lap("commit_real_size")
	rl.run(cov, add)
	lap("random_long_tuples")
	c16HashEdgeRecords(cov)

	// ---- hash functions: tables from TLC against the library
	hs := c16NewHashState(cov, add)
	if err := wait(jBytes, ""); err != nil {
		return err
	}
	wantBytes := c16NTuples(c16NStrings(len(alpha), 3), 3)
	if jBytes.res.Distinct != wantBytes+1 {
		return core.Inconcl("HashFrame bytes run explored %d states, the domain has %d tuples", jBytes.res.Distinct, wantBytes)
	}
	if err := hs.bytesTable(jBytes.res.Output, wantBytes); err != nil {
		return err
	}
	jBytes.res.Output = ""
	lap("hash_bytes")
	if err := wait(jInts, ""); err != nil {
		return err
	}
	wantInts := c16NTuples(c16NInts(len(alpha), 3)+1, 3)
	if jInts.res.Distinct != wantInts+1 {
		return core.Inconcl("HashFrame ints run explored %d states, the domain has %d tuples", jInts.res.Distinct, wantInts)
	}
	if err := hs.intsTable(jInts.res.Output, wantInts, ctx.Pick(4, 6)); err != nil {
		return err
	}
	jInts.res.Output = ""
	lap("hash_ints")

	// views: injective framings have as many frames as tuples, ambiguous ones fewer
	viewTable := map[string]any{}
	for _, v := range views {
		if err := wait(v.job, ""); err != nil {
			return err
		}
		amb := false
		for _, a := range c16Ambiguous {
			amb = amb || a == v.variants[0]
		}
		for _, a := range c16EmbedAmbiguous {
			amb = amb || (v.kind == "blocks" && a == v.variants[0])
		}
		d := v.job.res.Distinct
		name := v.kind + ":" + strings.Join(v.variants, ",")
		viewTable[name] = map[string]any{"tuples_per_framing": v.total, "distinct_frames_incl_roots": d, "expected_ambiguous": amb}
		if !amb && d != len(v.variants)*(v.total+1) {
			return core.Inconcl("HashFrame view %s: %d distinct frames for %d framings x %d tuples - a framing expected to be injective is not (design-level, nothing judged)", name, d, len(v.variants), v.total)
		}
		if amb && d >= v.total+1 {
			return core.Inconcl("HashFrame view %s: the broken framing shows no collision on the domain - the domain does not discriminate", name)
		}
	}
	cov.Set("framing_variants_on_the_domain", viewTable)
	wit, err := c16Witnesses(views[0].job.res.Output)
	if err != nil || len(wit) != len(c16Ambiguous) {
		return core.Inconcl("TLC printed %d collision witnesses for the %d ambiguous framings (%v)", len(wit), len(c16Ambiguous), err)
	}
	if err := hs.witnesses(wit); err != nil {
		return err
	}
	if err := rl.conformance(views[0].job.res.Output, cov); err != nil {
		return err
	}
	// the adversarial pairs of HashFrameAdv.tla and the identification of the framing each function follows
	var mustHit []string
	if _, err := c16Lines(views[0].job.res.Output, "MUSTHIT", func(p string) error { return json.Unmarshal([]byte(p), &mustHit) }); err != nil || len(mustHit) < 5 {
		return core.Inconcl("cannot read the list of weakened framings the adversarial pairs must hit (%v)", err)
	}
	if err := hs.advPairs(views[0].job.res.Output, mustHit, add); err != nil {
		return err
	}
	if err := hs.identify(views[0].job.res.Output); err != nil {
		return err
	}
	views[0].job.res.Output = ""
	lap("hash_views")
	if err := wait(jBlocks, ""); err != nil {
		return err
	}
	if jBlocks.res.Distinct != nBlocks+1 {
		return core.Inconcl("HashFrame blocks run explored %d states, the domain has %d tuples", jBlocks.res.Distinct, nBlocks)
	}
	if err := hs.blocksTable(jBlocks.res.Output, nBlocks); err != nil {
		return err
	}
	jBlocks.res.Output = ""
	lap("hash_blocks")
	if err := wait(jHHist, ""); err != nil {
		return err
	}
	hw := 0
	c16Tagged(jHHist.res.Output, "HWITNESS", func(string) error { hw++; return nil })
	if hw != 4 {
		return core.Inconcl("self-test: TLC found a distinguishing history for %d of the 4 designs that keep state between calls", hw)
	}
	if err := c16HashHistories(jHHist.res.Output, jHHist.res.Distinct, hs, cov, add); err != nil {
		return err
	}
	jHHist.res.Output = ""
	hs.finishDrift()
	lap("hash_histories")

	// ---- commitments: the edit catalogue
	if err := wait(jCommit, ""); err != nil {
		return err
	}
	wantCommit := c16NTuples(c16NInts(len(alpha), 2), 3)
	if err := c16CommitCatalogue(jCommit.res.Output, wantCommit, cov, add); err != nil {
		return err
	}
	jCommit.res.Output = ""
	lap("commit_catalogue")

	// ---- packing
	for _, j := range append([]*c16Job{jSeqs, jLayouts}, extra...) {
		if err := wait(j, ""); err != nil {
			return err
		}
	}
	<-jSeqsIgn.done
	mcTable[jSeqsIgn.name] = map[string]any{"distinct": jSeqsIgn.res.Distinct, "generated": jSeqsIgn.res.Generated, "wall_s": int(jSeqsIgn.res.Wall), "violated": "ParserSound, ParserExact (expected)"}
	if jSeqsIgn.res.Err != nil {
		return core.Inconcl("TLC run %s failed: %v", jSeqsIgn.name, jSeqsIgn.res.Err)
	}
	cex := map[string]string{}
	for _, inv := range []string{"ParserSound", "ParserExact"} {
		i := strings.Index(jSeqsIgn.res.Output, "Error: Invariant "+inv+" is violated")
		if i < 0 {
			return core.Inconcl("TLC was expected to find a counterexample to %s for the pinned parser (it drops a final length prefix)", inv)
		}
		cex[inv] = core.Short(jSeqsIgn.res.Output[i:], 500)
	}
	if ctx.Thorough() {
		if err := wait(jLayoutsIgn, "RoundTrip"); err != nil {
			return err
		}
		cex["RoundTrip"] = core.Short(jLayoutsIgn.res.ErrorTrace(500), 500)
	}
	cov.Set("tlc_counterexamples_for_the_pinned_parser", cex)
	bs := c16NewBuilderState(ctx, cov, add)
	if err := wait(jSeqsReal, ""); err != nil {
		return err
	}
	if err := bs.seqCatalogue(jSeqsReal.res.Output, jSeqsReal.res.Distinct); err != nil {
		return err
	}
	jSeqsReal.res.Output = ""
	lap("packing_short_sequences")
	for _, j := range cats {
		if err := wait(j, ""); err != nil {
			return err
		}
		if err := bs.rowCatalogue(j.res.Output, j.res.Distinct); err != nil {
			return err
		}
		j.res.Output = ""
	}
	bs.finish()
	lap("packing_catalogue")
	if err := wait(jBHist, ""); err != nil {
		return err
	}
	bw := 0
	c16Tagged(jBHist.res.Output, "HISTWITNESS", func(string) error { bw++; return nil })
	if bw != 2 {
		return core.Inconcl("self-test: TLC found a distinguishing history for %d of the 2 builder designs that keep a flattening", bw)
	}
	if err := c16BuilderHistories(jBHist.res.Output, jBHist.res.Distinct, cov, add); err != nil {
		return err
	}
	jBHist.res.Output = ""
	lap("builder_histories")

	// ---- report
	sort.SliceStable(findings, func(i, j int) bool { return findings[i].f.Key < findings[j].f.Key })
	for _, x := range findings {
		if err := c16Report(ctx, x.f, x.sc); err != nil {
			return err
		}
	}
	cov.Set("tlc_runs", mcTable)
	cov.Set("phase_wall_s", phases)
	cov.Set("alphabet", alpha)
	return ctx.WriteEvidence("model_checking",
		"one case = one real call (or pair of calls) of common.SHA512_256 / SHA512_256i / SHA512_256i_TAGGED / commitments.NewHashCommitment[WithRandomness] / "+
			"HashCommitDecommit.Verify / DeCommit / builder.Secrets / ParseSecrets on one input of the catalogue; distinct = distinct (function, input) pairs, all non-trivial. "+
			"Verdict from the real outputs only: pairwise distinct digests for distinct tuples (per function, and per (tag, tuple) for the tagged one) over EVERY tuple of at most 3 "+
			"inputs of at most 3 bytes over the alphabet (and the integers with such encodings), plus families of long random tuples with re-split / merged / re-framed partners; "+
			"Verify false and DeCommit (false, nil) for every single edit of a decommitment (change / insert / remove / split / merge, exhaustive over the small domain, sampled at real size), "+
			"true and the committed numbers for the unedited one, pairwise distinct commitments; Secrets / ParseSecrets accept exactly the inputs the specification (repaired parser) accepts "+
			"and return the same parts, for every sequence of at most 4 (thorough 5) elements over the element classes and for every mutated layout at the real caps. "+
			"states/transitions: TLC on spec/HashFrame.tla (LeftInverse, IntBytesInjective, TaggedInjective, CommitBinds; VIEW runs count distinct frames per framing variant) and "+
			"spec/CommitBuilder.tla (ParserSound, ParserExact, BuilderCaps, RoundTrip, LayoutViewAgrees, RowSound, RowRoundTrip). traces = catalogue rows printed by TLC that the real code "+
			"reproduced (frame conformance: sha512/256 over the specification's frame = library digest).",
		cov, []string{
			"SHA-512/256 itself (crypto/sha512 of the Go standard library) is trusted on both sides; what is compared is the pre-image framing and the resulting digests",
			"TLC cannot hash: the specification proves injectivity of the pre-image (a left inverse exists) on the domain; distinctness of digests is observed on the real outputs",
			"integers are non-negative (the domain of the property); big.Int.Bytes drops the sign, so x and -x hash alike - recorded, not judged; a nil element is read as 0 by the TAGGED variant and dereferenced by the untagged one - recorded, not judged",
			"CommitBuilder.tla holds sequences as views (length, special positions, fill element) so that the real caps (PartsCap 3, MaxPartSize 2^20) are reached; element classes: small naturals, cap, cap+1, negative, 2^63-1, 2^63, 2^64+k, nil",
			"the reference for the packing is the repaired parser Parse(s, \"checked\"), proved by TLC to accept exactly the builder's encodings (ParserExact against an independent left-to-right decoder) for small caps; the pinned parser Parse(s, \"ignored\") is only used to classify deviations",
			"panics are recovered in the calling goroutine (none of the functions starts goroutines)",
		}, "java tlc2.TLC HashFrame.tla / CommitBuilder.tla (configurations in tlc_runs)")
}
