package props

// C16, adversarial part of the hash check (spec/HashFrame.tla with BlockVals, spec/HashFrameAdv.tla):
//   - the exhaustive table over SYMBOLS (single bytes and whole 9-byte blocks '$' o LE64(k)): every tuple with its frame from
//     TLC, against all three real functions (conformance + pairwise distinct digests);
//   - the pairs TLC constructs by embedding, into an input, the suffix a (weakened) framing itself writes behind an element:
//     presented to the three hash functions and to the commitment (second sequence / re-grouped opening);
//   - identification of the framing a real function follows: TLC prints the frames of a few probe tuples under EVERY framing
//     variant of the specification; the variant whose frames hash to the library's digests is the one the code implements
//     (conformance at the byte level). A function that follows a variant TLC shows ambiguous is convicted by the explicit
//     collision on TLC's pair, not by the drift.

import (
	"encoding/hex"
	"encoding/json"
	"fmt"
	"math/big"
	"sort"
	"strconv"
	"strings"

	"github.com/bnb-chain/tss-lib/v2/common"

	"verif/harness/core"
)

// c16IntsFaithful: the byte tuple is the tuple of the minimal encodings of its integers (no leading zero byte anywhere).
func c16IntsFaithful(t [][]byte) bool {
	for _, b := range t {
		if len(b) > 0 && b[0] == 0 {
			return false
		}
	}
	return true
}

func c16AsInts(t [][]byte) []*big.Int {
	r := make([]*big.Int, len(t))
	for i, b := range t {
		r[i] = new(big.Int).SetBytes(b)
	}
	return r
}

func c16Tuple(v [][]int) ([][]byte, error) {
	t := make([][]byte, len(v))
	for i := range v {
		b, err := c16ToBytes(v[i])
		if err != nil {
			return nil, err
		}
		t[i] = b
	}
	return t, nil
}

// blocksTable: every ROW {t, f} of the run over symbols (bytes and 9-byte blocks) against SHA512_256 and, as integers,
// against SHA512_256i and SHA512_256i_TAGGED (the frame of the integers is the frame of their minimal encodings).
func (h *c16HashState) blocksTable(out string, want int) error {
	tags := c16Tags(2)
	tagT := make([][]byte, len(tags))
	for i, tag := range tags {
		f, ok := h.tagFrames[string(tag)]
		if !ok {
			return core.Inconcl("the bytes table has no frame for the tag %x", tag)
		}
		tagT[i] = sum256(f)
	}
	keys := map[string]bool{}
	asInts, longest := 0, 0
	n, err := c16Lines(out, "ROW", func(p string) error {
		var row struct {
			T [][]int `json:"t"`
			F []int   `json:"f"`
		}
		if err := json.Unmarshal([]byte(p), &row); err != nil {
			return err
		}
		t, err := c16Tuple(row.T)
		if err != nil {
			return err
		}
		f, err := c16ToBytes(row.F)
		if err != nil {
			return err
		}
		in := c16HashInput{Bytes: c16HexAll(t)}
		keys[strings.Join(in.Bytes, "|")+fmt.Sprint(len(t))] = true
		for _, b := range t {
			if len(b) > longest {
				longest = len(b)
			}
		}
		lib := common.SHA512_256(t...)
		if len(lib) != 32 {
			return fmt.Errorf("SHA512_256 returned %d bytes for %s", len(lib), c16Show(in))
		}
		h.cov.Case("kb"+string(lib[:9]), true)
		h.conform("SHA512_256", in, lib, sum256(f))
		h.note("SHA512_256", in, lib)
		if !c16IntsFaithful(t) {
			return nil
		}
		asInts++
		it := c16AsInts(t)
		ii := c16HashInput{Ints: c16DecAll(it)}
		r := common.SHA512_256i(it...)
		if r == nil {
			return fmt.Errorf("SHA512_256i returned nil for %s", c16Show(ii))
		}
		li := r.FillBytes(make([]byte, 32))
		h.cov.Case("ki"+string(li[:9]), true)
		h.conform("SHA512_256i", ii, li, sum256(f))
		h.note("SHA512_256i", ii, li)
		for ti, tag := range tags {
			tin := c16HashInput{Tag: hex.EncodeToString(tag), Ints: ii.Ints}
			r := common.SHA512_256i_TAGGED(tag, it...)
			if r == nil {
				return fmt.Errorf("SHA512_256i_TAGGED returned nil for %s", c16Show(tin))
			}
			lt := r.FillBytes(make([]byte, 32))
			h.cov.Case("kt"+string(lt[:9]), true)
			h.conform("SHA512_256i_TAGGED", tin, lt, sum256(tagT[ti], tagT[ti], f))
			h.note("SHA512_256i_TAGGED", tin, lt)
		}
		return nil
	})
	if err != nil {
		return core.Inconcl("cannot read the frame table of the block run: %v", err)
	}
	if n != want || len(keys) != want {
		return core.Inconcl("the frame table of the block run has %d rows / %d distinct tuples, the domain has %d", n, len(keys), want)
	}
	if longest < 9 {
		return core.Inconcl("the block domain has no input long enough to embed a delimiter and a length field (longest input %d bytes)", longest)
	}
	h.cov.Set("tuples_blocks", map[string]int{"tuples": want, "also_as_integers": asInts, "longest_input_bytes": longest})
	return nil
}

// ---------------------------------------------------------------- pairs constructed by TLC

type c16AdvPair struct {
	A  [][]int  `json:"a"`
	B  [][]int  `json:"b"`
	By []string `json:"by"`
}

var c16CodeLike = map[string]bool{"count/$/len": true, "none/$/len": true, "count/none/len": true} // code, nocount, nodelim

// advPairs: every PAIR row (two different tuples; `by` = the framing variants under which TLC finds them colliding) is
// presented to the real functions; mustHit = the weakened variants for which the pairs must contain a collision.
func (h *c16HashState) advPairs(out string, mustHit []string, add func(*c16Finding, c16Scenario)) error {
	hit := map[string]int{}
	classes := map[string]int{}
	tag := []byte("C16 session tag")
	var firstColl *c16AdvPair
	n, err := c16Lines(out, "PAIR", func(p string) error {
		var pr c16AdvPair
		if err := json.Unmarshal([]byte(p), &pr); err != nil {
			return err
		}
		a, err1 := c16Tuple(pr.A)
		b, err2 := c16Tuple(pr.B)
		if err1 != nil || err2 != nil {
			return fmt.Errorf("bad pair: %v %v", err1, err2)
		}
		for _, v := range pr.By {
			if c16CodeLike[v] {
				return fmt.Errorf("TLC reports a pair colliding under the framing %s, which has a left inverse", v)
			}
			hit[v]++
		}
		if len(pr.By) > 0 && firstColl == nil {
			q := pr
			firstColl = &q
		}
		note := ""
		if len(pr.By) > 0 {
			sort.Strings(pr.By)
			note = "TLC: this pair has ONE pre-image under the weakened framings " + strings.Join(pr.By, ", ") + " (pre/delimiter/field) of spec/HashFrameAdv.tla"
		}
		ia, ib := c16HashInput{Bytes: c16HexAll(a)}, c16HashInput{Bytes: c16HexAll(b)}
		c := &c16HashCase{Fn: "SHA512_256", A: ia, B: ib, Note: note}
		f1 := c16HashEval(c)
		h.collided(f1, c.Fn, pr.By)
		add(f1, c16Scenario{Kind: "hash", Hash: c})
		classes[c16DiffClass("SHA512_256", ia, ib)]++
		h.cov.Case("pair:b:"+strings.Join(ia.Bytes, "|")+"/"+strings.Join(ib.Bytes, "|"), true)
		if !c16IntsFaithful(a) || !c16IntsFaithful(b) {
			return nil
		}
		xa, xb := c16AsInts(a), c16AsInts(b)
		ja, jb := c16HashInput{Ints: c16DecAll(xa)}, c16HashInput{Ints: c16DecAll(xb)}
		c2 := &c16HashCase{Fn: "SHA512_256i", A: ja, B: jb, Note: note}
		f2 := c16HashEval(c2)
		h.collided(f2, c2.Fn, pr.By)
		add(f2, c16Scenario{Kind: "hash", Hash: c2})
		ta, tb := ja, jb
		ta.Tag, tb.Tag = hex.EncodeToString(tag), hex.EncodeToString(tag)
		c3 := &c16HashCase{Fn: "SHA512_256i_TAGGED", A: ta, B: tb, Note: note}
		f3 := c16HashEval(c3)
		h.collided(f3, c3.Fn, pr.By)
		add(f3, c16Scenario{Kind: "hash", Hash: c3})
		h.cov.Case("pair:i:"+strings.Join(ja.Ints, ",")+"/"+strings.Join(jb.Ints, ","), true)
		// the commitment: a = (r, secrets...) and b = another sequence must not share a commitment, and b must not open it
		pc := &c16CommitCase{Kind: "pair", R: ja.Ints[0], Secrets: ja.Ints[1:], D2: jb.Ints}
		add(c16CommitEval(pc), c16Scenario{Kind: "commit", Commit: pc})
		kind := "regroup"
		if len(a) != len(b) {
			kind = "merge"
		}
		for _, dir := range [][2][]string{{ja.Ints, jb.Ints}, {jb.Ints, ja.Ints}} {
			ec := &c16CommitCase{Kind: "edit", R: dir[0][0], Secrets: dir[0][1:], D: dir[1], EditKind: kind}
			add(c16CommitEval(ec), c16Scenario{Kind: "commit", Commit: ec})
		}
		return nil
	})
	if err != nil {
		return core.Inconcl("adversarial pairs: %v", err)
	}
	if n == 0 {
		return core.Inconcl("TLC printed no adversarial pair")
	}
	for _, v := range mustHit {
		if hit[v] == 0 {
			return core.Inconcl("self-test: no pair of the adversarial family collides under the weakened framing %s - the family does not discriminate it", v)
		}
	}
	if firstColl == nil {
		return core.Inconcl("self-test: no pair collides under any weakened framing")
	}
	h.cov.Set("adversarial_pairs", map[string]any{"pairs": n, "by_difference": classes, "pairs_colliding_under_weakened_framing": hit})
	return nil
}

// collided notes that the real function fn maps a pair to one digest (by: the variants under which TLC finds it colliding).
func (h *c16HashState) collided(f *c16Finding, fn string, by []string) {
	if h.pairHits == nil {
		h.pairHits, h.weakBy = map[string]int{}, map[string]bool{}
	}
	for _, v := range by {
		h.weakBy[v] = true
	}
	if f != nil && !f.Inconcl {
		h.pairHits[fn]++
	}
}

// ---------------------------------------------------------------- identification of the framing

// identify: PROBES (the probe tuples) and PROBE rows (variant name, frames of the probes under it).
func (h *c16HashState) identify(out string) error {
	var probes [][][]int
	if _, err := c16Lines(out, "PROBES", func(p string) error { return json.Unmarshal([]byte(p), &probes) }); err != nil || len(probes) == 0 {
		return core.Inconcl("cannot read the probe tuples: %v", err)
	}
	tag := []byte("C16 session tag")
	T := append([]byte{}, common.SHA512_256(tag)...)
	type dig struct{ b, i, t []byte }
	lib := make([]dig, len(probes))
	for k, pv := range probes {
		t, err := c16Tuple(pv)
		if err != nil || !c16IntsFaithful(t) {
			return core.Inconcl("bad probe tuple %d: %v", k, err)
		}
		it := c16AsInts(t)
		lib[k] = dig{append([]byte{}, common.SHA512_256(t...)...), common.SHA512_256i(it...).FillBytes(make([]byte, 32)), common.SHA512_256i_TAGGED(tag, it...).FillBytes(make([]byte, 32))}
	}
	ident := map[string][]string{"SHA512_256": {}, "SHA512_256i": {}, "SHA512_256i_TAGGED": {}}
	nv := 0
	_, err := c16Tagged(out, "PROBE", func(rest string) error {
		i := strings.Index(rest, `", `)
		if i < 0 || !strings.HasPrefix(rest, `"`) {
			return fmt.Errorf("bad probe line %q", core.Short(rest, 80))
		}
		name := rest[1:i]
		s, err := strconv.Unquote(strings.TrimSpace(rest[i+2:]))
		if err != nil {
			return err
		}
		var frames [][]int
		if err := json.Unmarshal([]byte(s), &frames); err != nil {
			return err
		}
		if len(frames) != len(probes) {
			return fmt.Errorf("%d frames for %d probes", len(frames), len(probes))
		}
		nv++
		okB, okI, okT := true, true, true
		for k := range frames {
			f, err := c16ToBytes(frames[k])
			if err != nil {
				return err
			}
			d := sum256(f)
			okB = okB && string(d) == string(lib[k].b)
			okI = okI && string(d) == string(lib[k].i)
			okT = okT && string(sum256(T, T, f)) == string(lib[k].t)
		}
		if okB {
			ident["SHA512_256"] = append(ident["SHA512_256"], name)
		}
		if okI {
			ident["SHA512_256i"] = append(ident["SHA512_256i"], name)
		}
		if okT {
			ident["SHA512_256i_TAGGED"] = append(ident["SHA512_256i_TAGGED"], name)
		}
		return nil
	})
	if err != nil || nv < 40 {
		return core.Inconcl("framing identification: %d variants read (%v)", nv, err)
	}
	h.identified = ident
	// consistency of the two bindings: a function that follows, byte for byte, a framing under which TLC's pairs collide must
	// have been convicted by those pairs
	for fn, names := range ident {
		for _, v := range names {
			if h.weakBy[v] && h.pairHits[fn] == 0 {
				return core.Inconcl("%s follows the framing %s of the specification on every probe, TLC's pairs collide under it, but the function separated every pair", fn, v)
			}
		}
	}
	h.cov.Set("adversarial_pairs_with_one_digest (per function)", h.pairHits)
	h.cov.Set("framing_identified (pre/delimiter/field; the code is count/$/len)", ident)
	h.cov.Set("framing_variants_probed", nv)
	return nil
}
