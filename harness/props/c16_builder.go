package props

// C16, packing part: builder.Secrets / ParseSecrets of crypto/commitments/commitment_builder.go against the catalogues
// printed by TLC from spec/CommitBuilder.tla (all short sequences over the element classes; mutated layouts at the
// real caps, held as views: length, special positions, fill element).

import (
	"encoding/json"
	"fmt"
	"math"
	"math/big"
	"sync"
	"unsafe"

	cmts "github.com/bnb-chain/tss-lib/v2/crypto/commitments"

	"verif/harness/core"
)

type c16Elem struct {
	K string `json:"k"` // nat | neg | i64big | p63 | p64 | nil
	V int    `json:"v"`
}

type c16Sp struct {
	P int     `json:"p"`
	E c16Elem `json:"e"`
}

// c16ParseCase: one input of ParseSecrets (as a view) with the verdict of the specification.
type c16ParseCase struct {
	Origin   string   `json:"origin"`
	Len      int      `json:"len"`
	Sp       []c16Sp  `json:"sp"`
	Fill     c16Elem  `json:"fill"`
	Ok       bool     `json:"ok"`    // repaired parser (the reference): accepted?
	Parts    [][2]int `json:"parts"` // slices <<start, len>> of the input
	Why      string   `json:"why"`
	IgnOk    bool     `json:"ign_ok"` // the pinned parser as modelled (classification only)
	IgnParts [][2]int `json:"ign_parts"`
}

// c16SecretsCase: one layout for builder.Secrets (every data element = fill).
type c16SecretsCase struct {
	Lens      []int `json:"lens"`
	FillV     int   `json:"fill"`
	BuilderOk bool  `json:"builder_ok"` // within the builder's limits?
}

func c16LimitsMatch() error {
	if cmts.PartsCap < 1 || cmts.PartsCap > 5 || cmts.MaxPartSize < 2 || cmts.MaxPartSize > 1<<22 {
		return core.Inconcl("the builder's limits (PartsCap %d, MaxPartSize %d) are outside what the catalogue can reach", cmts.PartsCap, cmts.MaxPartSize)
	}
	if cmts.PartsCap != c16RealPartsCap || cmts.MaxPartSize != c16RealMaxPart {
		return core.Inconcl("the builder's limits changed (PartsCap %d, MaxPartSize %d): update c16RealPartsCap / c16RealMaxPart", cmts.PartsCap, cmts.MaxPartSize)
	}
	return nil
}

func (e c16Elem) concrete() *big.Int {
	switch e.K {
	case "nat":
		return big.NewInt(int64(e.V))
	case "neg":
		return big.NewInt(-1)
	case "i64big":
		return big.NewInt(math.MaxInt64)
	case "p63":
		return new(big.Int).Lsh(big.NewInt(1), 63)
	case "p64":
		return new(big.Int).Add(new(big.Int).Lsh(big.NewInt(1), 64), big.NewInt(int64(e.V)))
	}
	return nil // "nil"
}

// c16Backing is a reusable array of fill pointers (a view is materialised by overwriting the special positions).
type c16Backing struct {
	arr   []*big.Int
	fill  *big.Int
	fillV int
}

func c16NewBacking(n, fillV int) *c16Backing {
	b := &c16Backing{arr: make([]*big.Int, n), fill: big.NewInt(int64(fillV)), fillV: fillV}
	for i := range b.arr {
		b.arr[i] = b.fill
	}
	return b
}

type c16ParseOutcome struct {
	Finding *c16Finding
	Conform string // reference | pinned | neither
}

// c16ParseEval materialises the view, calls the real ParseSecrets and compares with the reference.
func c16ParseEval(c *c16ParseCase, bk *c16Backing) c16ParseOutcome {
	if c.Len < 0 || c.Len > (c16RealPartsCap+2)*(c16RealMaxPart+2) {
		return c16ParseOutcome{Finding: &c16Finding{Inconcl: true, What: "bad parse scenario"}}
	}
	if bk == nil || bk.fillV != c.Fill.V || c.Fill.K != "nat" || len(bk.arr) < c.Len {
		if c.Fill.K != "nat" {
			return c16ParseOutcome{Finding: &c16Finding{Inconcl: true, What: "bad parse scenario (fill)"}}
		}
		bk = c16NewBacking(c.Len, c.Fill.V)
	}
	seq := bk.arr[:c.Len:c.Len]
	for _, sp := range c.Sp {
		if sp.P >= 0 && sp.P < c.Len {
			seq[sp.P] = sp.E.concrete()
		}
	}
	defer func() {
		for _, sp := range c.Sp {
			if sp.P >= 0 && sp.P < c.Len {
				seq[sp.P] = bk.fill
			}
		}
	}()
	var parts [][]*big.Int
	var err error
	pan := ""
	func() {
		defer func() {
			if r := recover(); r != nil {
				pan = fmt.Sprint(r)
			}
		}()
		parts, err = cmts.ParseSecrets(seq)
	}()
	desc := fmt.Sprintf("ParseSecrets(%s)", c.describe())
	if pan != "" {
		return c16ParseOutcome{Conform: "neither", Finding: &c16Finding{Key: "C16:ParseSecrets:panic", What: desc + " panics instead of returning an error: " + core.Short(pan, 100)}}
	}
	// project the real result onto slices of the input
	realOk := err == nil
	var got [][2]int
	projected := true
	if realOk {
		for _, p := range parts {
			start := -1
			if len(p) == 0 {
				start = -2 // position of an empty part cannot be observed
			} else {
				// a part is a sub-slice of the input in the code: locate it by address; a copy is compared by value
				if c.Len > 0 {
					off := (uintptr(unsafe.Pointer(&p[0])) - uintptr(unsafe.Pointer(&seq[0]))) / unsafe.Sizeof(seq[0])
					if uintptr(unsafe.Pointer(&p[0])) >= uintptr(unsafe.Pointer(&seq[0])) && int(off)+len(p) <= c.Len && &seq[off] == &p[0] {
						start = int(off)
					}
				}
				if start == -1 {
					projected = false
				}
			}
			got = append(got, [2]int{start, len(p)})
		}
	}
	match := func(ok bool, want [][2]int) bool {
		if ok != realOk {
			return false
		}
		if !ok {
			return true
		}
		if len(want) != len(got) {
			return false
		}
		for i := range want {
			if want[i][1] != got[i][1] {
				return false
			}
			if got[i][0] >= 0 && got[i][0] != want[i][0] {
				return false
			}
			if got[i][0] == -1 { // a copy: compare by value
				p := parts[i]
				if want[i][0] < 0 || want[i][0]+len(p) > c.Len {
					return false
				}
				for k := range p {
					w := seq[want[i][0]+k]
					if (p[k] == nil) != (w == nil) || (w != nil && p[k].Cmp(w) != 0) {
						return false
					}
				}
			}
		}
		return true
	}
	_ = projected
	if match(c.Ok, c.Parts) {
		return c16ParseOutcome{Conform: "reference"}
	}
	gotLens := make([]int, len(got))
	for i := range got {
		gotLens[i] = got[i][1]
	}
	realDesc := "an error"
	if realOk {
		realDesc = fmt.Sprintf("%d part(s) of lengths %v", len(got), gotLens)
	}
	wantDesc := "an error (" + c.Why + ")"
	if c.Ok {
		wl := make([]int, len(c.Parts))
		for i := range c.Parts {
			wl[i] = c.Parts[i][1]
		}
		wantDesc = fmt.Sprintf("%d part(s) of lengths %v", len(c.Parts), wl)
	}
	what := fmt.Sprintf("%s returns %s; the packing's own rules give %s", desc, realDesc, wantDesc)
	if match(c.IgnOk, c.IgnParts) {
		// the deviation of the pinned parser: an input that ends right after a length prefix
		key := "C16:ParseSecrets:input-ending-in-a-length-prefix:"
		switch {
		case !c.Ok && realOk:
			key += "accepted"
			what += " - a truncated / over-long input is accepted, the dangling length prefix is dropped silently"
		case c.Ok && realOk:
			key += "empty-last-part-dropped"
			what += " - builder.Secrets packs an empty last part as a final 0, ParseSecrets does not give it back"
		default:
			key += "single-empty-part-refused"
			what += " - builder.Secrets packs one empty part as <<0>>, ParseSecrets refuses it"
		}
		return c16ParseOutcome{Conform: "pinned", Finding: &c16Finding{Key: key, What: what}}
	}
	key := "C16:ParseSecrets:"
	switch {
	case !c.Ok && realOk:
		key += "accepts-malformed:" + c.Why
	case c.Ok && !realOk:
		key += "rejects-well-formed"
	default:
		key += "returns-other-parts"
	}
	return c16ParseOutcome{Conform: "neither", Finding: &c16Finding{Key: key, What: what}}
}

func (c *c16ParseCase) describe() string {
	s := fmt.Sprintf("%d elements", c.Len)
	if c.Len <= 12 {
		el := make([]string, c.Len)
		for i := range el {
			el[i] = c.Fill.show()
		}
		for _, sp := range c.Sp {
			if sp.P >= 0 && sp.P < c.Len {
				el[sp.P] = sp.E.show()
			}
		}
		s = fmt.Sprint(el)
	} else {
		s += ": "
		for _, sp := range c.Sp {
			if sp.P < c.Len {
				s += fmt.Sprintf("[%d]=%s ", sp.P, sp.E.show())
			}
		}
		s += "others=" + c.Fill.show()
	}
	if c.Origin != "" {
		s += "; " + c.Origin
	}
	return s
}

func (e c16Elem) show() string {
	switch e.K {
	case "nat":
		return fmt.Sprint(e.V)
	case "neg":
		return "-1"
	case "i64big":
		return "2^63-1"
	case "p63":
		return "2^63"
	case "p64":
		return fmt.Sprintf("2^64+%d", e.V)
	}
	return "nil"
}

// c16SecretsEval: builder.Secrets on a layout, and the round trip through ParseSecrets.
func c16SecretsEval(c *c16SecretsCase, bk *c16Backing) *c16Finding {
	maxLen := 0
	for _, l := range c.Lens {
		if l < 0 || l > c16RealMaxPart+2 || len(c.Lens) > c16RealPartsCap+2 {
			return &c16Finding{Inconcl: true, What: "bad secrets scenario"}
		}
		if l > maxLen {
			maxLen = l
		}
	}
	if bk == nil || bk.fillV != c.FillV || len(bk.arr) < maxLen {
		bk = c16NewBacking(maxLen, c.FillV)
	}
	b := cmts.NewBuilder()
	for _, l := range c.Lens {
		b = b.AddPart(bk.arr[:l:l])
	}
	var sec []*big.Int
	var err error
	pan := ""
	func() {
		defer func() {
			if r := recover(); r != nil {
				pan = fmt.Sprint(r)
			}
		}()
		sec, err = b.Secrets()
	}()
	desc := fmt.Sprintf("builder.Secrets() for parts of lengths %v", c.Lens)
	if pan != "" {
		return &c16Finding{Key: "C16:builder.Secrets:panic", What: desc + " panics: " + core.Short(pan, 100)}
	}
	if (err == nil) != c.BuilderOk {
		if err == nil {
			why := "part too large"
			if len(c.Lens) > c16RealPartsCap {
				why = "too many parts"
			}
			return &c16Finding{Key: "C16:builder.Secrets:accepts-beyond-limits:" + why, What: desc + " succeeds although the limits (PartsCap, MaxPartSize) are exceeded"}
		}
		return &c16Finding{Key: "C16:builder.Secrets:refuses-within-limits", What: desc + " fails although the parts are within the limits: " + core.Short(err.Error(), 80)}
	}
	if err != nil {
		return nil
	}
	// the packing: every part preceded by its length
	want := len(c.Lens)
	for _, l := range c.Lens {
		want += l
	}
	okPack := len(sec) == want
	pos := 0
	for _, l := range c.Lens {
		if !okPack {
			break
		}
		if sec[pos] == nil || !sec[pos].IsInt64() || sec[pos].Int64() != int64(l) {
			okPack = false
			break
		}
		for k := 1; k <= l; k++ {
			if sec[pos+k] != bk.fill {
				okPack = false
				break
			}
		}
		pos += 1 + l
	}
	if !okPack {
		return &c16Finding{Key: "C16:builder.Secrets:wrong-packing", What: desc + " does not return every part preceded by its length"}
	}
	// round trip
	var parts [][]*big.Int
	func() {
		defer func() {
			if r := recover(); r != nil {
				pan = fmt.Sprint(r)
			}
		}()
		parts, err = cmts.ParseSecrets(sec)
	}()
	if pan != "" {
		return &c16Finding{Key: "C16:ParseSecrets:panic", What: "ParseSecrets of the output of " + desc + " panics: " + core.Short(pan, 100)}
	}
	same := err == nil && len(parts) == len(c.Lens)
	if same {
		for i, p := range parts {
			if len(p) != c.Lens[i] {
				same = false
				break
			}
			for _, x := range p {
				if x != bk.fill {
					same = false
					break
				}
			}
		}
	}
	if same {
		return nil
	}
	last := c.Lens[len(c.Lens)-1]
	got := "an error"
	if err == nil {
		gl := make([]int, len(parts))
		for i := range parts {
			gl[i] = len(parts[i])
		}
		got = fmt.Sprintf("parts of lengths %v", gl)
	}
	what := fmt.Sprintf("round trip: ParseSecrets(builder.Secrets()) for parts of lengths %v gives %s", c.Lens, got)
	switch {
	case last == 0 && err == nil && len(parts) == len(c.Lens)-1:
		return &c16Finding{Key: "C16:ParseSecrets:input-ending-in-a-length-prefix:empty-last-part-dropped", What: what}
	case last == 0 && len(c.Lens) == 1 && err != nil:
		return &c16Finding{Key: "C16:ParseSecrets:input-ending-in-a-length-prefix:single-empty-part-refused", What: what}
	}
	return &c16Finding{Key: "C16:packing-round-trip:parts-differ", What: what}
}

// ---------------------------------------------------------------- catalogues

type c16BuilderState struct {
	ctx     *core.Ctx
	cov     *core.Cov
	add     func(*c16Finding, c16Scenario)
	conform map[string]int
	rows    int
	layouts int
	byWhy   map[string]int
	byMut   map[string]int
}

func c16NewBuilderState(ctx *core.Ctx, cov *core.Cov, add func(*c16Finding, c16Scenario)) *c16BuilderState {
	return &c16BuilderState{ctx: ctx, cov: cov, add: add, conform: map[string]int{}, byWhy: map[string]int{}, byMut: map[string]int{}}
}

func (b *c16BuilderState) record(c *c16ParseCase, o c16ParseOutcome) {
	b.rows++
	b.conform[o.Conform]++
	if c.Ok {
		b.byWhy["accepted"]++
	} else {
		b.byWhy[c.Why]++
	}
	if o.Conform == "reference" {
		b.cov.AddTraces(1)
	}
	b.add(o.Finding, c16Scenario{Kind: "parse", Parse: c})
}

// seqCatalogue: SEQ lines {q: [elements], ok, parts, why, ign_ok, ign_parts}: every short sequence.
func (b *c16BuilderState) seqCatalogue(out string, want int) error {
	selfTested := false
	n, err := c16Lines(out, "SEQ", func(p string) error {
		var row struct {
			Q        []c16Elem `json:"q"`
			Ok       bool      `json:"ok"`
			Parts    [][2]int  `json:"parts"`
			Why      string    `json:"why"`
			IgnOk    bool      `json:"ign_ok"`
			IgnParts [][2]int  `json:"ign_parts"`
		}
		if err := json.Unmarshal([]byte(p), &row); err != nil {
			return err
		}
		c := &c16ParseCase{Origin: "short sequence", Len: len(row.Q), Fill: c16Elem{K: "nat"}, Ok: row.Ok, Parts: row.Parts, Why: row.Why, IgnOk: row.IgnOk, IgnParts: row.IgnParts}
		for i, e := range row.Q {
			c.Sp = append(c.Sp, c16Sp{P: i, E: e})
		}
		o := c16ParseEval(c, nil)
		b.record(c, o)
		b.cov.Case("parse:seq:"+c.describe(), true)
		if !selfTested && row.Ok && len(row.Parts) >= 1 && row.Parts[0][1] >= 1 && o.Conform == "reference" {
			// self-test of the binding: a corrupted prediction must be noticed
			bad := *c
			bad.Parts = append([][2]int{{row.Parts[0][0], row.Parts[0][1] - 1}}, row.Parts[1:]...)
			bad.IgnParts = bad.Parts
			if c16ParseEval(&bad, nil).Finding == nil {
				return fmt.Errorf("self-test: a corrupted prediction of the parts is not noticed")
			}
			bad2 := *c
			bad2.Ok, bad2.IgnOk = false, false
			if c16ParseEval(&bad2, nil).Finding == nil {
				return fmt.Errorf("self-test: a corrupted accept/reject prediction is not noticed")
			}
			selfTested = true
		}
		return nil
	})
	if err != nil {
		return core.Inconcl("packing catalogue of short sequences: %v", err)
	}
	if n != want || !selfTested {
		return core.Inconcl("packing catalogue of short sequences: %d rows for %d states (self-test done: %v)", n, want, selfTested)
	}
	b.cov.Set("packing_short_sequences", n)
	return nil
}

// rowCatalogue: ROW lines of the catalogue mode (layout, mutation, view, verdicts), replayed by 4 goroutines.
func (b *c16BuilderState) rowCatalogue(out string, want int) error {
	type row struct {
		Lens []int `json:"lens"`
		Mut  struct {
			Kind string  `json:"kind"`
			At   int     `json:"at"`
			E    c16Elem `json:"e"`
		} `json:"mut"`
		Len       int      `json:"len"`
		Sp        []c16Sp  `json:"sp"`
		Fill      c16Elem  `json:"fill"`
		BuilderOk bool     `json:"builder_ok"`
		Ok        bool     `json:"ok"`
		Parts     [][2]int `json:"parts"`
		Why       string   `json:"why"`
		IgnOk     bool     `json:"ign_ok"`
		IgnParts  [][2]int `json:"ign_parts"`
	}
	var rows []row
	n, err := c16Lines(out, "ROW", func(p string) error {
		var r row
		if err := json.Unmarshal([]byte(p), &r); err != nil {
			return err
		}
		rows = append(rows, r)
		return nil
	})
	if err != nil {
		return core.Inconcl("packing catalogue: %v", err)
	}
	if n != want || n == 0 {
		return core.Inconcl("packing catalogue: %d rows for %d states", n, want)
	}
	maxLen := 0
	for _, r := range rows {
		if r.Len > maxLen {
			maxLen = r.Len
		}
	}
	var mu sync.Mutex
	var wg sync.WaitGroup
	const workers = 4
	for w := 0; w < workers; w++ {
		wg.Add(1)
		go func(w int) {
			defer wg.Done()
			bk := c16NewBacking(maxLen+2, rows[0].Fill.V)
			for i := w; i < len(rows); i += workers {
				r := rows[i]
				c := &c16ParseCase{Origin: fmt.Sprintf("parts of lengths %v packed, then %s", r.Lens, c16MutShow(r.Mut.Kind, r.Mut.At, r.Mut.E)),
					Len: r.Len, Sp: r.Sp, Fill: r.Fill, Ok: r.Ok, Parts: r.Parts, Why: r.Why, IgnOk: r.IgnOk, IgnParts: r.IgnParts}
				o := c16ParseEval(c, bk)
				var sf *c16Finding
				var sc *c16SecretsCase
				if r.Mut.Kind == "none" {
					sc = &c16SecretsCase{Lens: r.Lens, FillV: r.Fill.V, BuilderOk: r.BuilderOk}
					sf = c16SecretsEval(sc, bk)
				}
				mu.Lock()
				b.record(c, o)
				b.byMut[r.Mut.Kind]++
				b.cov.Case(fmt.Sprint("parse:row:", r.Fill.V, r.Lens, r.Mut.Kind, r.Mut.At, r.Mut.E), true)
				if sc != nil {
					b.layouts++
					b.cov.Case(fmt.Sprint("secrets:", r.Fill.V, r.Lens), true)
					if sf == nil {
						b.cov.AddTraces(1)
					}
					b.add(sf, c16Scenario{Kind: "secrets", Secrets: sc})
				}
				mu.Unlock()
			}
		}(w)
	}
	wg.Wait()
	return nil
}

func c16MutShow(kind string, at int, e c16Elem) string {
	switch kind {
	case "none":
		return "unchanged"
	case "truncate":
		return fmt.Sprintf("truncated to %d elements", at)
	case "forge":
		return fmt.Sprintf("length prefix of part %d forged to %s", at, e.show())
	case "append":
		return "element " + e.show() + " appended"
	}
	return kind
}

func (b *c16BuilderState) finish() {
	b.cov.Set("packing", map[string]any{
		"ParseSecrets_inputs":           b.rows,
		"agreeing_with":                 b.conform,
		"reference_verdicts":            b.byWhy,
		"catalogue_rows_by_mutation":    b.byMut,
		"layouts_through_Secrets":       b.layouts,
		"real_caps (PartsCap, MaxPart)": []int{cmts.PartsCap, int(cmts.MaxPartSize)},
	})
}
