package props

// C16, commitment part: crypto/commitments/commitment.go against the edit catalogue printed by TLC
// (spec/HashFrame.tla: Commit / Verify / DeCommit with an ideal hash, Edits) and against sampled edits at real size.

import (
	"encoding/json"
	"fmt"
	"math/big"
	"math/rand"

	cmts "github.com/bnb-chain/tss-lib/v2/crypto/commitments"

	"verif/harness/core"
)

// c16CommitCase: commit to (R, Secrets); present (C + COffset, D); or, Kind "pair", commit to a second sequence.
type c16CommitCase struct {
	Kind     string   `json:"kind"` // honest | edit | pair
	R        string   `json:"r"`
	Secrets  []string `json:"secrets"`
	D        []string `json:"d,omitempty"`        // the decommitment presented (edit)
	COffset  string   `json:"c_offset,omitempty"` // presented commitment = C + offset ("" = C)
	CZero    bool     `json:"c_zero,omitempty"`   // presented commitment = 0
	EditKind string   `json:"edit_kind,omitempty"`
	At       int      `json:"at,omitempty"`
	D2       []string `json:"d2,omitempty"` // pair: the other sequence (randomness first)
}

func c16Ints(s []string) ([]*big.Int, error) {
	r := make([]*big.Int, len(s))
	for i, x := range s {
		v, ok := new(big.Int).SetString(x, 10)
		if !ok {
			return nil, fmt.Errorf("bad integer %q", x)
		}
		r[i] = v
	}
	return r, nil
}

func c16SameInts(a, b []*big.Int) bool {
	if len(a) != len(b) {
		return false
	}
	for i := range a {
		if a[i] == nil || b[i] == nil || a[i].Cmp(b[i]) != 0 {
			return false
		}
	}
	return true
}

func c16Open(c *cmts.HashCommitDecommit) (verify, dok bool, dec []*big.Int, panicked string) {
	defer func() {
		if r := recover(); r != nil {
			panicked = fmt.Sprint(r)
		}
	}()
	verify = c.Verify()
	dok, dec = c.DeCommit()
	return
}

func c16CommitEval(c *c16CommitCase) *c16Finding {
	r, ok := new(big.Int).SetString(c.R, 10)
	secrets, err := c16Ints(c.Secrets)
	if !ok || err != nil {
		return &c16Finding{Inconcl: true, What: "bad commit scenario"}
	}
	var cmt *cmts.HashCommitDecommit
	pan := ""
	func() {
		defer func() {
			if x := recover(); x != nil {
				pan = fmt.Sprint(x)
			}
		}()
		cmt = cmts.NewHashCommitmentWithRandomness(r, secrets...)
	}()
	if pan != "" || cmt == nil || cmt.C == nil {
		return &c16Finding{Key: "C16:commitment:cannot-commit", What: fmt.Sprintf("NewHashCommitmentWithRandomness(%s, %v) gave no commitment (panic %q)", c.R, c.Secrets, pan)}
	}
	full := append([]*big.Int{r}, secrets...)
	switch c.Kind {
	case "honest":
		v, dok, dec, p := c16Open(cmt)
		if p != "" || !v || !dok {
			return &c16Finding{Key: "C16:commitment:honest-opening-fails", What: fmt.Sprintf("commitment to r=%s secrets=%v does not open with its own decommitment (Verify %v, DeCommit %v, panic %q)", c.R, c.Secrets, v, dok, p)}
		}
		if !c16SameInts(cmt.D, full) || !c16SameInts(dec, secrets) {
			return &c16Finding{Key: "C16:commitment:DeCommit-returns-other-numbers", What: fmt.Sprintf("commitment to secrets %v de-commits to %v", c.Secrets, c16DecAll(dec))}
		}
		return nil
	case "pair":
		d2, err := c16Ints(c.D2)
		if err != nil || len(d2) == 0 {
			return &c16Finding{Inconcl: true, What: "bad commit scenario"}
		}
		if c16SameInts(d2, full) {
			return nil
		}
		other := cmts.NewHashCommitmentWithRandomness(d2[0], d2[1:]...)
		if other.C.Cmp(cmt.C) == 0 {
			return &c16Finding{Key: "C16:commitment:shared-by-two-sequences", What: fmt.Sprintf("the different sequences %v and %v (randomness first) share the commitment %s", c16DecAll(full), c.D2, core.Short(cmt.C.String(), 20))}
		}
		return nil
	case "edit":
		d, err := c16Ints(c.D)
		if err != nil {
			return &c16Finding{Inconcl: true, What: "bad commit scenario"}
		}
		if d == nil {
			d = []*big.Int{}
		}
		cc := new(big.Int).Set(cmt.C)
		if c.CZero {
			cc.SetInt64(0)
		} else if c.COffset != "" {
			off, ok := new(big.Int).SetString(c.COffset, 10)
			if !ok {
				return &c16Finding{Inconcl: true, What: "bad commit scenario"}
			}
			cc.Add(cc, off)
		}
		if c16SameInts(d, full) && cc.Cmp(cmt.C) == 0 {
			return nil // not an edit
		}
		v, dok, dec, p := c16Open(&cmts.HashCommitDecommit{C: cc, D: d})
		what := fmt.Sprintf("commitment to %v (randomness first) presented with %s (%s at %d)", c16DecAll(full), c16ShowOpening(c, d), c.EditKind, c.At)
		if p != "" {
			cl := "other"
			if len(d) == 0 {
				cl = "empty-decommitment"
			}
			return &c16Finding{Key: "C16:commitment:Verify-panics:" + cl, What: what + ": the opening does not fail, it panics: " + core.Short(p, 80)}
		}
		if v || dok || dec != nil {
			return &c16Finding{Key: "C16:commitment:opens-after-" + c.EditKind, What: fmt.Sprintf("%s: Verify %v, DeCommit (%v, %v)", what, v, dok, c16DecAll(dec))}
		}
		return nil
	}
	return &c16Finding{Inconcl: true, What: "bad commit scenario kind " + c.Kind}
}

func c16ShowOpening(c *c16CommitCase, d []*big.Int) string {
	s := fmt.Sprintf("D=%v", c16DecAll(d))
	if c.CZero {
		s += " C=0"
	} else if c.COffset != "" {
		s += " C+" + c.COffset
	}
	return s
}

func c16Strs(v []int) []string {
	r := make([]string, len(v))
	for i, x := range v {
		r[i] = fmt.Sprint(x)
	}
	return r
}

// c16CommitCatalogue replays the EDITS lines of the commit run.
func c16CommitCatalogue(out string, want int, cov *core.Cov, add func(*c16Finding, c16Scenario)) error {
	byC := map[string][]string{}
	edits, honest, kinds := 0, 0, map[string]int{}
	n, err := c16Lines(out, "EDITS", func(p string) error {
		var row struct {
			D []int `json:"d"`
			E []struct {
				D     []int  `json:"d"`
				Kind  string `json:"kind"`
				At    int    `json:"at"`
				Opens bool   `json:"opens"`
			} `json:"e"`
		}
		if err := json.Unmarshal([]byte(p), &row); err != nil {
			return err
		}
		if len(row.D) == 0 {
			return fmt.Errorf("empty base decommitment")
		}
		ds := c16Strs(row.D)
		base := c16CommitCase{Kind: "honest", R: ds[0], Secrets: ds[1:]}
		add(c16CommitEval(&base), c16Scenario{Kind: "commit", Commit: &base})
		cov.Case("commit:honest:"+fmt.Sprint(ds), true)
		honest++
		// two sequences never share a commitment
		r, _ := new(big.Int).SetString(ds[0], 10)
		sec, _ := c16Ints(ds[1:])
		c := cmts.NewHashCommitmentWithRandomness(r, sec...).C.String()
		if old, ok := byC[c]; ok {
			pc := c16CommitCase{Kind: "pair", R: ds[0], Secrets: ds[1:], D2: old}
			add(c16CommitEval(&pc), c16Scenario{Kind: "commit", Commit: &pc})
		} else {
			byC[c] = ds
		}
		for _, e := range row.E {
			if e.Opens {
				return fmt.Errorf("the specification predicts that an edited decommitment opens: %v -> %v", row.D, e.D)
			}
			ec := c16CommitCase{Kind: "edit", R: ds[0], Secrets: ds[1:], D: c16Strs(e.D), EditKind: e.Kind, At: e.At}
			f := c16CommitEval(&ec)
			add(f, c16Scenario{Kind: "commit", Commit: &ec})
			if f == nil {
				cov.AddTraces(1)
			}
			edits++
			kinds[e.Kind]++
			cov.Case(fmt.Sprint("commit:edit:", ds, e.D), true)
		}
		// the commitment itself changed
		for _, off := range []string{"1", "-1", "256", "57896044618658097711785492504343953926634992332820282019728792003956564819968"} {
			ec := c16CommitCase{Kind: "edit", R: ds[0], Secrets: ds[1:], D: ds, COffset: off, EditKind: "commitment-changed"}
			add(c16CommitEval(&ec), c16Scenario{Kind: "commit", Commit: &ec})
			edits++
		}
		ez := c16CommitCase{Kind: "edit", R: ds[0], Secrets: ds[1:], D: ds, CZero: true, EditKind: "commitment-changed"}
		add(c16CommitEval(&ez), c16Scenario{Kind: "commit", Commit: &ez})
		kinds["commitment-changed"] += 5
		return nil
	})
	if err != nil {
		return core.Inconcl("commit catalogue: %v", err)
	}
	if n != want {
		return core.Inconcl("the commit catalogue has %d base sequences, the domain has %d", n, want)
	}
	cov.Set("commit_small_domain", map[string]any{"sequences": honest, "distinct_commitments": len(byC), "edits": edits, "by_kind": kinds})
	return nil
}

// c16CommitRealSize: NewHashCommitment with real-size numbers and every kind of single edit, sampled.
func c16CommitRealSize(ctx *core.Ctx, cov *core.Cov, add func(*c16Finding, c16Scenario)) {
	rng := rand.New(rand.NewSource(ctx.Seed*31337 + 16))
	n := ctx.Pick(40, 600)
	edits := 0
	kinds := map[string]int{}
	randInt := func(bits int) *big.Int {
		v := new(big.Int).Rand(rng, new(big.Int).Lsh(big.NewInt(1), uint(bits)))
		return v
	}
	for i := 0; i < n; i++ {
		k := 1 + rng.Intn(10)
		if i%7 == 0 {
			k = 0 // a commitment to no secrets at all: D = <<r>>
		}
		secrets := make([]*big.Int, k)
		for j := range secrets {
			switch rng.Intn(6) {
			case 0:
				secrets[j] = big.NewInt(int64(rng.Intn(3))) // 0, 1, 2
			case 1:
				secrets[j] = randInt(2048)
			case 2:
				secrets[j] = new(big.Int).Lsh(randInt(200), 56) // trailing zero bytes
			default:
				secrets[j] = randInt(256)
			}
		}
		// the library draws r itself here
		cmt := cmts.NewHashCommitment(rng, secrets...)
		if cmt == nil || len(cmt.D) != k+1 || cmt.D[0] == nil {
			add(&c16Finding{Key: "C16:commitment:cannot-commit", What: "NewHashCommitment did not return randomness followed by the secrets"}, c16Scenario{Kind: "commit", Commit: &c16CommitCase{Kind: "honest", R: "0", Secrets: c16DecAll(secrets)}})
			continue
		}
		r := cmt.D[0]
		base := c16CommitCase{Kind: "honest", R: r.String(), Secrets: c16DecAll(secrets)}
		add(c16CommitEval(&base), c16Scenario{Kind: "commit", Commit: &base})
		if v, dok, dec, p := c16Open(cmt); p != "" || !v || !dok || !c16SameInts(dec, secrets) {
			add(&c16Finding{Key: "C16:commitment:honest-opening-fails", What: fmt.Sprintf("NewHashCommitment(%v) does not open to its secrets (Verify %v, DeCommit %v, panic %q)", base.Secrets, v, dok, p)}, c16Scenario{Kind: "commit", Commit: &base})
		}
		cov.Case(fmt.Sprint("commit:real:", i), true)
		d := append([]*big.Int{r}, secrets...)
		try := func(kind string, at int, nd []*big.Int) {
			ec := c16CommitCase{Kind: "edit", R: base.R, Secrets: base.Secrets, D: c16DecAll(nd), EditKind: kind, At: at}
			add(c16CommitEval(&ec), c16Scenario{Kind: "commit", Commit: &ec})
			edits++
			kinds[kind]++
		}
		with := func(at int, repl ...*big.Int) []*big.Int { // d with element at replaced by repl
			nd := append([]*big.Int{}, d[:at]...)
			nd = append(nd, repl...)
			return append(nd, d[at+1:]...)
		}
		for at := range d {
			x := d[at]
			try("change", at, with(at, new(big.Int).Add(x, big.NewInt(1))))
			if x.Sign() > 0 {
				try("change", at, with(at, new(big.Int).Sub(x, big.NewInt(1))))
				try("change", at, with(at, new(big.Int).Lsh(x, 8)))
				try("change", at, with(at, new(big.Int).Xor(x, new(big.Int).Lsh(big.NewInt(1), uint(rng.Intn(x.BitLen()))))))
			}
			try("change", at, with(at, big.NewInt(0)))
			try("change", at, with(at, randInt(256)))
			try("remove", at, with(at))
			b := x.Bytes()
			for _, cut := range []int{0, 1, len(b) / 2, len(b) - 1, len(b)} {
				if cut < 0 || cut > len(b) {
					continue
				}
				try("split", at, with(at, new(big.Int).SetBytes(b[:cut]), new(big.Int).SetBytes(b[cut:])))
			}
			if at+1 < len(d) {
				try("merge", at, append(with(at, new(big.Int).SetBytes(append(append([]byte{}, b...), d[at+1].Bytes()...)))[:at+1], d[at+2:]...))
				sw := append([]*big.Int{}, d...)
				sw[at], sw[at+1] = sw[at+1], sw[at]
				try("swap", at, sw)
			}
		}
		for at := 0; at <= len(d); at++ {
			for _, ins := range []*big.Int{big.NewInt(0), big.NewInt(1), randInt(256), d[rng.Intn(len(d))]} {
				nd := append([]*big.Int{}, d[:at]...)
				nd = append(nd, ins)
				try("insert", at, append(nd, d[at:]...))
			}
		}
		for _, off := range []string{"1", "-1"} {
			ec := c16CommitCase{Kind: "edit", R: base.R, Secrets: base.Secrets, D: c16DecAll(d), COffset: off, EditKind: "commitment-changed"}
			add(c16CommitEval(&ec), c16Scenario{Kind: "commit", Commit: &ec})
			edits++
			kinds["commitment-changed"]++
		}
	}
	cov.Set("commit_real_size", map[string]any{"commitments": n, "edits": edits, "by_kind": kinds})
}
