package props

// C16, hash part: the tables tuple -> frame printed by TLC (spec/HashFrame.tla) against the digests of
// common.SHA512_256 / SHA512_256i / SHA512_256i_TAGGED; families of long random tuples.

import (
	"bytes"
	"crypto/sha512"
	"encoding/binary"
	"encoding/hex"
	"encoding/json"
	"fmt"
	"math/big"
	"math/rand"
	"strings"

	"github.com/bnb-chain/tss-lib/v2/common"

	"verif/harness/core"
)

// c16HashInput is one input of one of the three hash functions (replayable form).
type c16HashInput struct {
	Tag   string   `json:"tag,omitempty"`   // hex, SHA512_256i_TAGGED only
	Bytes []string `json:"bytes,omitempty"` // hex of every input, SHA512_256
	Ints  []string `json:"ints,omitempty"`  // decimal (or "nil"), SHA512_256i / _TAGGED
}

type c16HashCase struct {
	Fn   string       `json:"fn"` // SHA512_256 | SHA512_256i | SHA512_256i_TAGGED
	A    c16HashInput `json:"a"`
	B    c16HashInput `json:"b"`
	Note string       `json:"note,omitempty"` // where the pair comes from (appended to the report)
}

func c16HexAll(t [][]byte) []string {
	r := make([]string, len(t))
	for i, b := range t {
		r[i] = hex.EncodeToString(b)
	}
	return r
}
func c16DecAll(t []*big.Int) []string {
	r := make([]string, len(t))
	for i, b := range t {
		if b == nil {
			r[i] = "nil"
		} else {
			r[i] = b.String()
		}
	}
	return r
}

// c16Digest calls the named library function; panics are recovered (and reported as such).
func c16Digest(fn string, in c16HashInput) (d []byte, panicked string, err error) {
	defer func() {
		if r := recover(); r != nil {
			panicked = fmt.Sprint(r)
		}
	}()
	switch fn {
	case "SHA512_256":
		t := make([][]byte, len(in.Bytes))
		for i, h := range in.Bytes {
			if t[i], err = hex.DecodeString(h); err != nil {
				return nil, "", err
			}
		}
		r := common.SHA512_256(t...)
		if r == nil {
			return nil, "", nil
		}
		return append([]byte{}, r...), "", nil // a copy: what a later call does to the returned slice is judged in the histories
	case "SHA512_256i", "SHA512_256i_TAGGED":
		t := make([]*big.Int, len(in.Ints))
		for i, s := range in.Ints {
			if s == "nil" {
				continue
			}
			v, ok := new(big.Int).SetString(s, 10)
			if !ok {
				return nil, "", fmt.Errorf("bad integer %q", s)
			}
			t[i] = v
		}
		var r *big.Int
		if fn == "SHA512_256i" {
			r = common.SHA512_256i(t...)
		} else {
			tag, e := hex.DecodeString(in.Tag)
			if e != nil {
				return nil, "", e
			}
			r = common.SHA512_256i_TAGGED(tag, t...)
		}
		if r == nil {
			return nil, "", nil
		}
		return r.FillBytes(make([]byte, 32)), "", nil
	}
	return nil, "", fmt.Errorf("unknown function %q", fn)
}

// how two different inputs differ, in the words of the property
func c16DiffClass(fn string, a, b c16HashInput) string {
	if a.Tag != b.Tag {
		return "different-tag"
	}
	la, lb := len(a.Bytes)+len(a.Ints), len(b.Bytes)+len(b.Ints)
	if la != lb {
		return "different-count"
	}
	flat := func(x c16HashInput) string {
		var sb strings.Builder
		for _, h := range x.Bytes {
			sb.WriteString(h)
		}
		for _, s := range x.Ints {
			v, _ := new(big.Int).SetString(s, 10)
			if v != nil {
				sb.WriteString(hex.EncodeToString(v.Bytes()))
			}
		}
		return sb.String()
	}
	if flat(a) == flat(b) {
		return "different-split-points"
	}
	return "different-bytes"
}

func c16SameInput(a, b c16HashInput) bool {
	ja, _ := json.Marshal(a)
	jb, _ := json.Marshal(b)
	return bytes.Equal(ja, jb)
}

// c16HashEval: two different inputs of one function must have different digests.
func c16HashEval(c *c16HashCase) *c16Finding {
	if c16SameInput(c.A, c.B) {
		return nil
	}
	da, pa, ea := c16Digest(c.Fn, c.A)
	db, pb, eb := c16Digest(c.Fn, c.B)
	if ea != nil || eb != nil {
		return &c16Finding{Inconcl: true, What: fmt.Sprintf("bad hash scenario: %v %v", ea, eb)}
	}
	if pa != "" || pb != "" || da == nil || db == nil {
		return &c16Finding{Inconcl: true, What: fmt.Sprintf("%s gave no digest for a non-empty input (panic %q %q)", c.Fn, pa, pb)}
	}
	if bytes.Equal(da, db) {
		cl := c16DiffClass(c.Fn, c.A, c.B)
		what := fmt.Sprintf("common.%s maps two different inputs (%s) to the same digest %x: %s vs %s", c.Fn, cl, da[:8], c16ShowShort(c.A), c16ShowShort(c.B))
		if c.Note != "" {
			what += " [" + c.Note + "]"
		}
		return &c16Finding{Key: "C16:hash-collision:" + c.Fn + ":" + cl, What: what}
	}
	return nil
}

func c16Show(x c16HashInput) string {
	s := ""
	if x.Tag != "" {
		s = "tag=" + x.Tag + " "
	}
	if x.Bytes != nil {
		return s + "[" + strings.Join(x.Bytes, "|") + "]"
	}
	return s + "(" + strings.Join(x.Ints, ", ") + ")"
}

// long inputs abbreviated (the replay file has them in full)
func c16ShowShort(x c16HashInput) string {
	ab := func(v []string) []string {
		r := make([]string, len(v))
		for i, s := range v {
			if len(s) > 64 {
				s = fmt.Sprintf("%s..(%d chars)..%s", s[:24], len(s), s[len(s)-24:])
			}
			r[i] = s
		}
		return r
	}
	y := x
	y.Bytes, y.Ints = nil, nil
	if x.Bytes != nil {
		y.Bytes = ab(x.Bytes)
	}
	if x.Ints != nil {
		y.Ints = ab(x.Ints)
	}
	return c16Show(y)
}

// ---------------------------------------------------------------- tables

type c16HashState struct {
	cov        *core.Cov
	add        func(*c16Finding, c16Scenario)
	seen       map[string]map[[32]byte]c16HashInput // per function: digest -> first input that produced it
	tagFrames  map[string][]byte                    // frame of the 1-tuple <<tag>> (from the bytes table)
	drift      map[string]int
	driftEx    []string
	pairHits   map[string]int      // per function: adversarial pairs it maps to one digest
	weakBy     map[string]bool     // framing variants under which some adversarial pair collides (TLC)
	identified map[string][]string // per function: the framing variants of the specification whose probe frames hash to its digests
}

func c16NewHashState(cov *core.Cov, add func(*c16Finding, c16Scenario)) *c16HashState {
	return &c16HashState{cov: cov, add: add, seen: map[string]map[[32]byte]c16HashInput{}, tagFrames: map[string][]byte{}, drift: map[string]int{}}
}

// note records one (function, input, digest); a second, different input with the same digest is a collision.
func (h *c16HashState) note(fn string, in c16HashInput, d []byte) {
	m := h.seen[fn]
	if m == nil {
		m = map[[32]byte]c16HashInput{}
		h.seen[fn] = m
	}
	var k [32]byte
	copy(k[:], d)
	if old, ok := m[k]; ok {
		if !c16SameInput(old, in) {
			c := &c16HashCase{Fn: fn, A: old, B: in}
			h.add(c16HashEval(c), c16Scenario{Kind: "hash", Hash: c})
		}
		return
	}
	m[k] = in
}

func (h *c16HashState) conform(fn string, in c16HashInput, lib, spec []byte) {
	if bytes.Equal(lib, spec) {
		h.cov.AddTraces(1)
		return
	}
	h.drift[fn]++
	if len(h.driftEx) < 5 {
		h.driftEx = append(h.driftEx, fmt.Sprintf("%s %s: library %x, sha512/256(specification frame) %x", fn, c16Show(in), lib[:6], spec[:6]))
	}
}

func c16ToBytes(v []int) ([]byte, error) {
	b := make([]byte, len(v))
	for i, x := range v {
		if x < 0 || x > 255 {
			return nil, fmt.Errorf("not a byte: %d", x)
		}
		b[i] = byte(x)
	}
	return b, nil
}

func sum256(b ...[]byte) []byte {
	hh := sha512.New512_256()
	for _, x := range b {
		hh.Write(x)
	}
	return hh.Sum(nil)
}

// bytesTable: every ROW {t: [[bytes]..], f: [bytes]} of the bytes run against common.SHA512_256.
func (h *c16HashState) bytesTable(out string, want int) error {
	keys := map[string]bool{}
	var firstLib, firstFrame []byte
	n, err := c16Lines(out, "ROW", func(p string) error {
		var row struct {
			T [][]int `json:"t"`
			F []int   `json:"f"`
		}
		if err := json.Unmarshal([]byte(p), &row); err != nil {
			return err
		}
		t := make([][]byte, len(row.T))
		for i := range row.T {
			b, err := c16ToBytes(row.T[i])
			if err != nil {
				return err
			}
			t[i] = b
		}
		f, err := c16ToBytes(row.F)
		if err != nil {
			return err
		}
		in := c16HashInput{Bytes: c16HexAll(t)}
		keys[strings.Join(in.Bytes, "|")+fmt.Sprint(len(t))] = true
		lib := common.SHA512_256(t...)
		if len(lib) != 32 {
			return fmt.Errorf("SHA512_256 returned %d bytes for %s", len(lib), c16Show(in))
		}
		h.cov.Case("b"+string(lib[:9]), true)
		h.conform("SHA512_256", in, lib, sum256(f))
		h.note("SHA512_256", in, lib)
		if len(t) == 1 {
			h.tagFrames[string(t[0])] = f
		}
		if firstLib == nil {
			firstLib, firstFrame = append([]byte{}, lib...), f // (a copy: the library's slice is not the harness's to keep)
		}
		return nil
	})
	if err != nil {
		return core.Inconcl("cannot read the frame table of the bytes run: %v", err)
	}
	if n != want || len(keys) != want {
		return core.Inconcl("the frame table of the bytes run has %d rows / %d distinct tuples, the domain has %d", n, len(keys), want)
	}
	// self-test of the binding: a frame with one byte changed must not conform
	bad := append([]byte{}, firstFrame...)
	bad[len(bad)-1] ^= 1
	if bytes.Equal(sum256(bad), firstLib) || !bytes.Equal(sum256(firstFrame), firstLib) && h.drift["SHA512_256"] == 0 {
		return core.Inconcl("self-test: the conformance comparison does not react to a corrupted frame")
	}
	h.cov.Set("tuples_bytes", want)
	return nil
}

func c16Tags(n int) [][]byte {
	all := [][]byte{{}, {0}, {36}, {1, 0, 0}, {36, 1}, {0, 0, 0}}
	return all[:n]
}

// intsTable: every ROW {t: [ints, -1 = nil], f} of the ints run against SHA512_256i (rows without nil) and
// SHA512_256i_TAGGED (all rows, nTags tags).
func (h *c16HashState) intsTable(out string, want int, nTags int) error {
	tags := c16Tags(nTags)
	tagT := make([][]byte, len(tags))
	for i, tag := range tags {
		f, ok := h.tagFrames[string(tag)]
		if !ok {
			return core.Inconcl("the bytes table has no frame for the tag %x", tag)
		}
		tagT[i] = sum256(f) // T = SHA512_256(tag) according to the specification
	}
	type nilRow struct {
		tag   int
		canon string
		d     []byte
	}
	var nilRows []nilRow
	canonDigest := map[string][]byte{}
	nilFree, one := 0, map[[32]byte]string{}
	oneCollision := ""
	n, err := c16Lines(out, "ROW", func(p string) error {
		var row struct {
			T []int `json:"t"`
			F []int `json:"f"`
		}
		if err := json.Unmarshal([]byte(p), &row); err != nil {
			return err
		}
		f, err := c16ToBytes(row.F)
		if err != nil {
			return err
		}
		t := make([]*big.Int, len(row.T))
		canon := make([]*big.Int, len(row.T))
		hasNil := false
		for i, v := range row.T {
			if v == -1 {
				hasNil = true
				canon[i] = big.NewInt(0)
				continue
			}
			t[i] = big.NewInt(int64(v))
			canon[i] = t[i]
		}
		in := c16HashInput{Ints: c16DecAll(t)}
		if !hasNil {
			nilFree++
			r := common.SHA512_256i(t...)
			if r == nil {
				return fmt.Errorf("SHA512_256i returned nil for %s", c16Show(in))
			}
			lib := r.FillBytes(make([]byte, 32))
			h.cov.Case("i"+string(lib[:9]), true)
			h.conform("SHA512_256i", in, lib, sum256(f))
			h.note("SHA512_256i", in, lib)
			if len(t) == 1 { // recorded only: the single-input function has no framing
				if r1 := common.SHA512_256iOne(t[0]); r1 != nil {
					var k [32]byte
					copy(k[:], r1.FillBytes(make([]byte, 32)))
					if old, ok := one[k]; ok && old != in.Ints[0] && oneCollision == "" {
						oneCollision = old + " / " + in.Ints[0]
					}
					one[k] = in.Ints[0]
				}
			}
		}
		for ti, tag := range tags {
			tin := c16HashInput{Tag: hex.EncodeToString(tag), Ints: in.Ints}
			r := common.SHA512_256i_TAGGED(tag, t...)
			if r == nil {
				return fmt.Errorf("SHA512_256i_TAGGED returned nil for %s", c16Show(tin))
			}
			lib := r.FillBytes(make([]byte, 32))
			h.cov.Case("t"+string(lib[:9]), true)
			h.conform("SHA512_256i_TAGGED", tin, lib, sum256(tagT[ti], tagT[ti], f))
			if hasNil {
				nilRows = append(nilRows, nilRow{ti, fmt.Sprint(ti, c16DecAll(canon)), lib})
			} else {
				h.note("SHA512_256i_TAGGED", tin, lib)
				canonDigest[fmt.Sprint(ti, in.Ints)] = lib
			}
		}
		return nil
	})
	if err != nil {
		return core.Inconcl("cannot read the frame table of the ints run: %v", err)
	}
	if n != want {
		return core.Inconcl("the frame table of the ints run has %d rows, the domain has %d", n, want)
	}
	nilAsZero := 0
	for _, r := range nilRows {
		if d, ok := canonDigest[r.canon]; ok && bytes.Equal(d, r.d) {
			nilAsZero++
		}
	}
	h.cov.Set("tuples_ints_nil_free", nilFree)
	h.cov.Set("tags", len(tags))
	h.cov.Set("recorded_not_judged", map[string]any{
		"tagged_rows_with_nil":                        len(nilRows),
		"tagged_rows_with_nil_hashing_like_zero":      nilAsZero,
		"SHA512_256iOne_distinct_digests_on_the_ints": len(one),
		"SHA512_256iOne_collision":                    oneCollision,
		"SHA512_256iOne_has_no_framing_single_input":  true,
		"frame_conformance_mismatches (drift)":        h.drift,
		"frame_conformance_mismatch_examples":         h.driftEx,
		"digests_compared_pairwise_per_function":      map[string]int{"SHA512_256": len(h.seen["SHA512_256"]), "SHA512_256i": len(h.seen["SHA512_256i"]), "SHA512_256i_TAGGED": len(h.seen["SHA512_256i_TAGGED"])},
	})
	return nil
}

// finishDrift records the conformance mismatches of ALL tables (the entry written by intsTable covers the first two).
func (h *c16HashState) finishDrift() {
	h.cov.Set("frame_conformance_mismatches_all_tables (drift)", h.drift)
	h.cov.Set("frame_conformance_mismatch_examples_all_tables", h.driftEx)
}

// witnesses: the pairs TLC found colliding under the broken framings must be separated by the real function.
func (h *c16HashState) witnesses(w map[string][2][][]int) error {
	rec := map[string]string{}
	for variant, pair := range w {
		var in [2]c16HashInput
		for k := 0; k < 2; k++ {
			t := make([][]byte, len(pair[k]))
			for i := range pair[k] {
				b, err := c16ToBytes(pair[k][i])
				if err != nil {
					return core.Inconcl("bad witness from TLC: %v", err)
				}
				t[i] = b
			}
			in[k] = c16HashInput{Bytes: c16HexAll(t)}
		}
		c := &c16HashCase{Fn: "SHA512_256", A: in[0], B: in[1]}
		f := c16HashEval(c)
		h.add(f, c16Scenario{Kind: "hash", Hash: c})
		rec[variant] = fmt.Sprintf("%s vs %s separated by the library: %v", c16Show(in[0]), c16Show(in[1]), f == nil)
		h.cov.Case("witness:"+variant, true)
	}
	h.cov.Set("collision_witnesses_of_broken_framings", rec)
	return nil
}

// c16HashEdgeRecords: behaviour outside the property's domain, recorded only.
func c16HashEdgeRecords(cov *core.Cov) {
	try := func(f func() string) (s string) {
		defer func() {
			if r := recover(); r != nil {
				s = "panic"
			}
		}()
		return f()
	}
	five, minus := big.NewInt(5), big.NewInt(-5)
	cov.Set("edge_behaviour_recorded", map[string]string{
		"empty input list": try(func() string {
			return fmt.Sprintf("SHA512_256()=%v SHA512_256i()=%v TAGGED(tag)=%v iOne(nil)=%v", common.SHA512_256() == nil, common.SHA512_256i() == nil, common.SHA512_256i_TAGGED([]byte("t")) == nil, common.SHA512_256iOne(nil) == nil) + " (true = nil returned)"
		}),
		"SHA512_256i(nil element)": try(func() string { return fmt.Sprint(common.SHA512_256i(five, nil)) }),
		"sign": try(func() string {
			return fmt.Sprintf("SHA512_256i(-5)==SHA512_256i(5): %v", common.SHA512_256i(minus).Cmp(common.SHA512_256i(five)) == 0)
		}),
	})
}

// ---------------------------------------------------------------- long random tuples

type c16RandomLong struct {
	seed     int64
	families [][][][]byte // family -> tuple -> inputs
	sample   [][][]byte   // byte tuples whose frames TLC computes
	sampleI  [][]*big.Int // integer tuples; TLC computes the frame of their minimal encodings
}

func c16LE64(n int) []byte {
	b := make([]byte, 8)
	binary.LittleEndian.PutUint64(b, uint64(n))
	return b
}

func c16Cat(bs ...[]byte) []byte {
	var r []byte
	for _, b := range bs {
		r = append(r, b...)
	}
	if r == nil {
		r = []byte{}
	}
	return r
}

func c16CloneT(t [][]byte) [][]byte {
	r := make([][]byte, len(t))
	for i := range t {
		r[i] = append([]byte{}, t[i]...)
	}
	return r
}

// frame as an ATTACKER would write it into an input (this is test data, not the reference: the reference frames come from TLC)
func c16AttackFrame(t [][]byte, withCount bool) []byte {
	var r []byte
	if withCount {
		r = append(r, c16LE64(len(t))...)
	}
	for _, b := range t {
		r = append(r, b...)
		r = append(r, '$')
		r = append(r, c16LE64(len(b))...)
	}
	return r
}

func c16NewRandomLong(seed int64, nFamilies, nSample int) *c16RandomLong {
	rng := rand.New(rand.NewSource(seed*7919 + 16))
	rl := &c16RandomLong{seed: seed}
	special := []byte{0, '$', 1, 8, 0xff, 2, 3}
	randBytes := func(n int) []byte {
		b := make([]byte, n)
		for i := range b {
			if rng.Intn(2) == 0 {
				b[i] = special[rng.Intn(len(special))]
			} else {
				b[i] = byte(rng.Intn(256))
			}
		}
		return b
	}
	for f := 0; f < nFamilies; f++ {
		cnt := 1 + rng.Intn(8)
		if rng.Intn(10) == 0 {
			cnt = 9 + rng.Intn(24)
		}
		base := make([][]byte, cnt)
		for i := range base {
			l := rng.Intn(12)
			switch rng.Intn(10) {
			case 0:
				l = 0
			case 1:
				l = 32 + rng.Intn(40)
			case 2:
				if f%20 == 0 {
					l = 256 + rng.Intn(2000)
				}
			}
			base[i] = randBytes(l)
		}
		fam := [][][]byte{base}
		put := func(t [][]byte) { fam = append(fam, t) }
		i := rng.Intn(cnt)
		// re-grouping: merge neighbours (plainly, with a delimiter, with the literal framing), split one input
		if cnt >= 2 {
			if i == cnt-1 {
				i--
			}
			a, b := base[i], base[i+1]
			merged := func(m []byte) [][]byte {
				t := c16CloneT(base[:i])
				t = append(t, m)
				return append(t, c16CloneT(base[i+2:])...)
			}
			put(merged(c16Cat(a, b)))
			put(merged(c16Cat(a, []byte{'$'}, b)))
			put(merged(c16Cat(a, []byte{'$'}, c16LE64(len(a)), b)))
			// move one byte across the boundary, both ways
			if len(a) > 0 {
				t := c16CloneT(base)
				t[i], t[i+1] = a[:len(a)-1], c16Cat(a[len(a)-1:], b)
				put(t)
			}
			if len(b) > 0 {
				t := c16CloneT(base)
				t[i], t[i+1] = c16Cat(a, b[:1]), b[1:]
				put(t)
			}
			// swap neighbours
			t := c16CloneT(base)
			t[i], t[i+1] = t[i+1], t[i]
			put(t)
		}
		j := rng.Intn(cnt)
		if l := len(base[j]); l > 0 {
			k := rng.Intn(l + 1)
			t := c16CloneT(base[:j])
			t = append(t, append([]byte{}, base[j][:k]...), append([]byte{}, base[j][k:]...))
			put(append(t, c16CloneT(base[j+1:])...))
			// one byte changed, one byte dropped, one byte added
			t2 := c16CloneT(base)
			t2[j][rng.Intn(l)] ^= byte(1 + rng.Intn(255))
			put(t2)
			t3 := c16CloneT(base)
			t3[j] = t3[j][:l-1]
			put(t3)
		}
		t4 := c16CloneT(base)
		t4[j] = append(t4[j], special[rng.Intn(3)])
		put(t4)
		t5 := c16CloneT(base)
		t5[j] = c16Cat(t5[j], []byte{'$'}, c16LE64(len(base[j])))
		put(t5)
		// different count: empty inputs added at either end or in the middle, last input dropped
		put(append(c16CloneT(base), []byte{}))
		put(append([][]byte{{}}, c16CloneT(base)...))
		mid := c16CloneT(base[:j])
		mid = append(mid, []byte{})
		put(append(mid, c16CloneT(base[j:])...))
		if cnt >= 2 {
			put(c16CloneT(base[:cnt-1]))
		}
		// everything in one input: plain concatenation, the literal framing without and with the count
		put([][]byte{c16Cat(base...)})
		put([][]byte{c16AttackFrame(base, false)})
		put([][]byte{c16AttackFrame(base, true)})
		rl.families = append(rl.families, fam)
	}
	// length fields narrower than 8 bytes: with a suffix of w bytes (length mod 256^w) the tuples
	//   (Y o '$' o Lw(|Y|) o Z, W)  and  (Y, Z o '$' o Lw(|Y|+1+w+|Z|) o W)   with |Z| = 256^w - 1 - w
	// have the same pre-image; with the full 64-bit suffix they do not
	nMod := 2
	if nFamilies > 1000 {
		nMod = 12
	}
	for w := 1; w <= 2; w++ {
		for k := 0; k < nMod; k++ {
			y, wv := randBytes(1+rng.Intn(20)), randBytes(1+rng.Intn(20))
			zl := 256 - 1 - w
			if w == 2 {
				zl = 65536 - 1 - w
			}
			z := randBytes(zl)
			y[0], z[0], wv[0] = 1+byte(rng.Intn(255)), 1+byte(rng.Intn(255)), 1+byte(rng.Intn(255)) // no leading zeros: same tuples as integers
			lw := func(n int) []byte { return c16LE64(n)[:w] }
			a := [][]byte{c16Cat(y, []byte{'$'}, lw(len(y)), z), wv}
			b := [][]byte{y, c16Cat(z, []byte{'$'}, lw(len(y)+1+w+len(z)), wv)}
			rl.families = append(rl.families, [][][]byte{a, b})
		}
	}
	// sample for TLC: short tuples only (TLC evaluates Frame on them)
	for _, fam := range rl.families {
		for _, t := range fam {
			total := 0
			for _, b := range t {
				total += len(b)
			}
			if total > 160 || len(t) > 10 || len(rl.sample) >= nSample {
				continue
			}
			rl.sample = append(rl.sample, t)
			it := make([]*big.Int, len(t))
			for i, b := range t {
				it[i] = new(big.Int).SetBytes(b)
			}
			rl.sampleI = append(rl.sampleI, it)
		}
	}
	return rl
}

func c16TLATuple(t [][]byte) string {
	parts := make([]string, len(t))
	for i, b := range t {
		xs := make([]string, len(b))
		for k, x := range b {
			xs[k] = fmt.Sprint(int(x))
		}
		parts[i] = "<<" + strings.Join(xs, ",") + ">>"
	}
	return "<<" + strings.Join(parts, ", ") + ">>"
}

// tlaSample: definitions and ASSUMEs for the wrapper module - TLC prints Frame of every sampled tuple.
func (rl *c16RandomLong) tlaSample() string {
	var a, b []string
	for i := range rl.sample {
		a = append(a, c16TLATuple(rl.sample[i]))
		enc := make([][]byte, len(rl.sampleI[i]))
		for k, v := range rl.sampleI[i] {
			enc[k] = v.Bytes()
		}
		b = append(b, c16TLATuple(enc))
	}
	return "SampleB == <<" + strings.Join(a, ",\n  ") + ">>\nSampleI == <<" + strings.Join(b, ",\n  ") + ">>\n" +
		"ASSUME PrintT(<<\"SAMPLEB\", ToJson([i \\in 1..Len(SampleB) |-> Frame(SampleB[i])])>>)\n" +
		"ASSUME PrintT(<<\"SAMPLEI\", ToJson([i \\in 1..Len(SampleI) |-> Frame(SampleI[i])])>>)\n"
}

// conformance of the sampled long tuples: sha512/256 over the frame TLC computed = library digest.
func (rl *c16RandomLong) conformance(out string, cov *core.Cov) error {
	var fb, fi [][]int
	if _, err := c16Lines(out, "SAMPLEB", func(p string) error { return json.Unmarshal([]byte(p), &fb) }); err != nil {
		return core.Inconcl("cannot read the sample frames: %v", err)
	}
	if _, err := c16Lines(out, "SAMPLEI", func(p string) error { return json.Unmarshal([]byte(p), &fi) }); err != nil {
		return core.Inconcl("cannot read the sample frames: %v", err)
	}
	if len(fb) != len(rl.sample) || len(fi) != len(rl.sample) {
		return core.Inconcl("TLC printed %d / %d sample frames for %d sampled tuples", len(fb), len(fi), len(rl.sample))
	}
	tag := []byte("C16 session tag")
	// T = SHA512_256(tag); the frame of <<tag>> is taken from the same TLC run: not available here, so T comes from the
	// library and only the composition T o T o Frame is checked for the tagged function at this size.
	T := append([]byte{}, common.SHA512_256(tag)...)
	mism := map[string]int{}
	for i := range rl.sample {
		f1, err1 := c16ToBytes(fb[i])
		f2, err2 := c16ToBytes(fi[i])
		if err1 != nil || err2 != nil {
			return core.Inconcl("bad sample frame: %v %v", err1, err2)
		}
		if !bytes.Equal(sum256(f1), common.SHA512_256(rl.sample[i]...)) {
			mism["SHA512_256"]++
		}
		if !bytes.Equal(sum256(f2), common.SHA512_256i(rl.sampleI[i]...).FillBytes(make([]byte, 32))) {
			mism["SHA512_256i"]++
		}
		if !bytes.Equal(sum256(T, T, f2), common.SHA512_256i_TAGGED(tag, rl.sampleI[i]...).FillBytes(make([]byte, 32))) {
			mism["SHA512_256i_TAGGED"]++
		}
		cov.AddTraces(3)
	}
	cov.Set("long_tuples_with_frames_from_tlc", len(rl.sample))
	cov.Set("long_tuple_frame_mismatches (drift)", mism)
	return nil
}

// run: within every function, all tuples of all families must have pairwise distinct digests (distinct tuples only).
func (rl *c16RandomLong) run(cov *core.Cov, add func(*c16Finding, c16Scenario)) {
	h := c16NewHashState(cov, add)
	rng := rand.New(rand.NewSource(rl.seed*104729 + 3))
	tags := [][]byte{[]byte("C16 session tag"), []byte("C16 session tag$"), {}}
	n := 0
	for _, fam := range rl.families {
		for _, t := range fam {
			n++
			in := c16HashInput{Bytes: c16HexAll(t)}
			h.note("SHA512_256", in, common.SHA512_256(t...))
			it := make([]*big.Int, len(t))
			for i, b := range t {
				it[i] = new(big.Int).SetBytes(b)
			}
			ii := c16HashInput{Ints: c16DecAll(it)}
			h.note("SHA512_256i", ii, common.SHA512_256i(it...).FillBytes(make([]byte, 32)))
			tag := tags[rng.Intn(len(tags))]
			for _, tg := range [][]byte{tag, tags[(rng.Intn(len(tags)))]} {
				ti := c16HashInput{Tag: hex.EncodeToString(tg), Ints: ii.Ints}
				h.note("SHA512_256i_TAGGED", ti, common.SHA512_256i_TAGGED(tg, it...).FillBytes(make([]byte, 32)))
			}
			cov.Case(fmt.Sprint("long:", n), true)
		}
	}
	cov.Set("long_random_tuples", n)
	cov.Set("long_random_families", len(rl.families))
}
