package props

// C16, histories: ONE object / ONE process used more than once.
//   - spec/CommitBuilder.tla, Mode "history": every maximal history of AddPart / Secrets / Parts / ParseSecrets (of what the
//     caller got from the latest Secrets) / the caller writing into the slice it got, with the predicted observation of every
//     call, replayed on one real builder;
//   - spec/HashHistory.tla: every maximal history of calls of SHA512_256 / SHA512_256i / SHA512_256i_TAGGED in which the
//     caller re-uses (rewrites in place) its tag buffer, byte buffers, big.Int objects and argument slices, and overwrites
//     returned digests; the reference of every call is the pre-image TLC prints for its contents at the time of the call.
// Verdicts come from the real return values: a Secrets() that is not the packing of the parts added so far (so that it does
// not parse back to them) or that ignores the builder's limits; two calls of one hash function with different contents and
// one digest.

import (
	"bytes"
	"encoding/hex"
	"encoding/json"
	"fmt"
	"math/big"
	"strings"

	"github.com/bnb-chain/tss-lib/v2/common"
	cmts "github.com/bnb-chain/tss-lib/v2/crypto/commitments"

	"verif/harness/core"
)

// ================================================================ builder histories

type c16HObs struct {
	Ok  bool            `json:"ok"`
	Val json.RawMessage `json:"val"` // secrets: [elem]; parse: [[start, len]]; parts: [{n, id}]
	Why string          `json:"why"`
}

// c16BuildHistCase: a history of operations on one builder with the observations the specification predicts.
type c16BuildHistCase struct {
	Pk  string    `json:"pk,omitempty"` // the profile (operation alphabet, length) the history was generated under
	Ops []string  `json:"ops"`
	Obs []c16HObs `json:"obs"`
	Fin c16HObs   `json:"fin"` // Secrets() after the last operation
}

var c16BigPart []*big.Int // MaxPartSize+1 pointers to one number (shared by all histories, never written)

func c16HistPartLen(op string) int {
	switch op {
	case "add0":
		return 0
	case "add1":
		return 1
	case "add2":
		return 2
	case "addBig":
		return c16RealMaxPart + 1
	}
	return -1
}

// c16BuildHistEval replays the history on one real builder and compares every observation with the prediction.
func c16BuildHistEval(c *c16BuildHistCase) (f *c16Finding, drift string) {
	if len(c.Obs) != len(c.Ops) {
		return &c16Finding{Inconcl: true, What: "bad builder history: observations do not match operations"}, ""
	}
	bld := cmts.NewBuilder()
	type part struct {
		n    int
		data *big.Int
	}
	var added []part   // ground truth: what the harness handed to AddPart
	var got []*big.Int // the slice the caller holds from the latest successful Secrets()
	gotOk := false
	// every result the caller was given and did not write into itself: the slice and a copy of what it held
	type heldRes struct {
		at   int
		what string
		live []*big.Int
		copy []*big.Int
	}
	var held []heldRes
	hold := func(k int, what string, sl []*big.Int) {
		held = append(held, heldRes{k, what, sl, append([]*big.Int{}, sl...)})
	}
	type heldList struct { // the list of parts a ParseSecrets call returned
		at   int
		live [][]*big.Int
		copy [][]*big.Int
	}
	var heldLists []heldList
	unhold := func(sl []*big.Int) { // the caller writes into sl: results sharing storage with it are its own business from now on
		for i := range held {
			if len(held[i].live) > 0 && len(sl) > 0 && &held[i].live[0] == &sl[0] {
				held[i].live, held[i].copy = nil, nil
			}
		}
	}
	hist := func(k int) string { return strings.Join(c.Ops[:k+1], " ") }
	// flattening of the parts added so far, as the property demands it
	isPacking := func(sec []*big.Int) bool {
		pos := 0
		for _, p := range added {
			if pos >= len(sec) || sec[pos] == nil || !sec[pos].IsInt64() || sec[pos].Int64() != int64(p.n) || pos+1+p.n > len(sec) {
				return false
			}
			for k := 1; k <= p.n; k++ {
				if sec[pos+k] != p.data {
					return false
				}
			}
			pos += 1 + p.n
		}
		return pos == len(sec)
	}
	within := func() bool {
		if len(added) > c16RealPartsCap {
			return false
		}
		for _, p := range added {
			if p.n > c16RealMaxPart {
				return false
			}
		}
		return true
	}
	lens := func() []int {
		r := make([]int, len(added))
		for i, p := range added {
			r[i] = p.n
		}
		return r
	}
	secretsStep := func(k int, pred c16HObs, label string) *c16Finding {
		var sec []*big.Int
		var err error
		pan := ""
		func() {
			defer func() {
				if r := recover(); r != nil {
					pan = fmt.Sprint(r)
				}
			}()
			sec, err = bld.Secrets()
		}()
		desc := fmt.Sprintf("one builder, history [%s]%s: Secrets() with parts of lengths %v added so far", hist(k), label, lens())
		if pan != "" {
			return &c16Finding{Key: "C16:builder-history:Secrets-panics", What: desc + " panics: " + core.Short(pan, 100)}
		}
		realOk := err == nil
		if realOk {
			got, gotOk = sec, true
			hold(k, "Secrets()", sec)
		} else {
			got, gotOk = nil, false
		}
		if realOk != within() {
			if realOk {
				why := "part too large"
				if len(added) > c16RealPartsCap {
					why = "too many parts"
				}
				return &c16Finding{Key: "C16:builder-history:Secrets-accepts-beyond-limits:" + why, What: desc + " succeeds although the builder's limits (PartsCap, MaxPartSize) are exceeded"}
			}
			return &c16Finding{Key: "C16:builder-history:Secrets-refuses-within-limits", What: desc + " fails although the parts are within the limits: " + core.Short(err.Error(), 80)}
		}
		if realOk && !isPacking(sec) {
			// the round trip, in the words of the property
			parts, perr := cmts.ParseSecrets(sec)
			back := "an error"
			if perr == nil {
				gl := make([]int, len(parts))
				for i := range parts {
					gl[i] = len(parts[i])
				}
				back = fmt.Sprintf("%d part(s) of lengths %v", len(parts), gl)
			}
			return &c16Finding{Key: "C16:builder-history:Secrets-is-not-the-packing-of-the-parts-added",
				What: fmt.Sprintf("%s returns %d elements that are not the parts preceded by their lengths; ParseSecrets of it gives %s - the packing does not round-trip", desc, len(sec), back)}
		}
		if realOk != pred.Ok {
			return &c16Finding{Inconcl: true, What: fmt.Sprintf("%s: the specification predicts ok=%v (%s) where the harness judges the real result (ok=%v) sound", desc, pred.Ok, pred.Why, realOk)}
		}
		if realOk {
			var want []c16Elem
			if e := json.Unmarshal(pred.Val, &want); e != nil || len(want) != len(sec) {
				return &c16Finding{Inconcl: true, What: fmt.Sprintf("%s: the specification predicts %d elements, the (sound) real result has %d (%v)", desc, len(want), len(sec), e)}
			}
			for i, w := range want {
				if sec[i] == nil || !sec[i].IsInt64() || w.K != "nat" || sec[i].Int64() != int64(w.V) {
					return &c16Finding{Inconcl: true, What: fmt.Sprintf("%s: element %d is %v, the specification predicts %s", desc, i, sec[i], w.show())}
				}
			}
		}
		return nil
	}
	for k, op := range c.Ops {
		pred := c.Obs[k]
		switch {
		case c16HistPartLen(op) >= 0:
			n := c16HistPartLen(op)
			p := part{n: n, data: big.NewInt(int64(100 + len(added) + 1))}
			var sl []*big.Int
			if op == "addBig" {
				if c16BigPart == nil {
					one := big.NewInt(7)
					c16BigPart = make([]*big.Int, c16RealMaxPart+1)
					for i := range c16BigPart {
						c16BigPart[i] = one
					}
				}
				sl, p.data = c16BigPart, c16BigPart[0]
			} else {
				sl = make([]*big.Int, n)
				for i := range sl {
					sl[i] = p.data
				}
			}
			bld.AddPart(sl)
			added = append(added, p)
		case op == "secrets":
			if f := secretsStep(k, pred, ""); f != nil {
				return f, drift
			}
		case op == "parse":
			if !gotOk {
				return &c16Finding{Inconcl: true, What: "bad builder history: parse without a successful Secrets()"}, drift
			}
			var parts [][]*big.Int
			var err error
			pan := ""
			func() {
				defer func() {
					if r := recover(); r != nil {
						pan = fmt.Sprint(r)
					}
				}()
				parts, err = cmts.ParseSecrets(got)
			}()
			desc := fmt.Sprintf("one builder, history [%s]: ParseSecrets of what the latest Secrets() returned", hist(k))
			if pan != "" {
				return &c16Finding{Key: "C16:ParseSecrets:panic", What: desc + " panics: " + core.Short(pan, 100)}, drift
			}
			var want [][2]int
			if pred.Ok {
				if e := json.Unmarshal(pred.Val, &want); e != nil {
					return &c16Finding{Inconcl: true, What: "bad builder history: " + e.Error()}, drift
				}
			}
			same := (err == nil) == pred.Ok
			if same && pred.Ok {
				same = len(parts) == len(want)
				for i := 0; same && i < len(want); i++ {
					s, l := want[i][0], want[i][1]
					same = len(parts[i]) == l && s+l <= len(got)
					for j := 0; same && j < l; j++ {
						same = parts[i][j] == got[s+j]
					}
				}
			}
			for _, pt := range parts {
				hold(k, "a part returned by ParseSecrets", pt)
			}
			if err == nil {
				heldLists = append(heldLists, heldList{k, parts, append([][]*big.Int{}, parts...)})
			}
			if !same {
				key := "C16:builder-history:ParseSecrets-of-the-packing-gives-other-parts"
				if !pred.Ok {
					key = "C16:builder-history:ParseSecrets-accepts-malformed:" + pred.Why
				}
				return &c16Finding{Key: key, What: fmt.Sprintf("%s gives (error: %v, %d parts); the packing's own rules give (ok: %v %s, slices %v)", desc, err, len(parts), pred.Ok, pred.Why, want)}, drift
			}
		case op == "parts":
			ps := bld.Parts()
			same := len(ps) == len(added)
			for i := 0; same && i < len(ps); i++ {
				same = len(ps[i]) == added[i].n && (added[i].n == 0 || ps[i][0] == added[i].data)
			}
			if !same && drift == "" { // Parts() is an accessor, not the packing: recorded, not judged
				drift = fmt.Sprintf("history [%s]: Parts() does not return the parts handed to AddPart", hist(k))
			}
		case op == "scribble":
			if !gotOk || len(got) == 0 {
				return &c16Finding{Inconcl: true, What: "bad builder history: scribble without a non-empty result"}, drift
			}
			unhold(got)
			got[0] = new(big.Int).Add(new(big.Int).Lsh(big.NewInt(1), 64), big.NewInt(1)) // the caller owns the slice it was given
			for i := range held {                                                         // parts parsed out of this slice are views of it (commitment_builder.go:82): not judged after the write
				if len(held[i].live) > 0 && len(got) > 1 && &held[i].live[0] == &got[1] {
					held[i].live, held[i].copy = nil, nil
				}
			}
		default:
			return &c16Finding{Inconcl: true, What: "bad builder history: operation " + op}, drift
		}
	}
	if f := secretsStep(len(c.Ops)-1, c.Fin, " and then"); f != nil {
		return f, drift
	}
	// what earlier calls returned is still what it was (the specification's observations are values)
	for _, h := range held {
		for i := range h.live {
			if h.live[i] != h.copy[i] {
				return &c16Finding{Key: "C16:builder-history:earlier-result-changed-by-a-later-call",
					What: fmt.Sprintf("one builder, history [%s] and then Secrets(): %s at call %d of the history changed under the caller's hands at element %d when later calls were made - what was packed / parsed no longer round-trips", strings.Join(c.Ops, " "), h.what, h.at+1, i)}, drift
			}
		}
	}
	for _, h := range heldLists {
		for i := range h.live {
			a, b := h.live[i], h.copy[i]
			if len(a) != len(b) || (len(a) > 0 && &a[0] != &b[0]) {
				return &c16Finding{Key: "C16:builder-history:earlier-result-changed-by-a-later-call",
					What: fmt.Sprintf("one builder, history [%s] and then Secrets(): the list of parts returned by ParseSecrets at call %d of the history changed under the caller's hands (part %d) when later calls were made - what was parsed is no longer what was packed", strings.Join(c.Ops, " "), h.at+1, i)}, drift
			}
		}
	}
	return nil, drift
}

// builderHistories replays the HIST rows.
func c16BuilderHistories(out string, states int, cov *core.Cov, add func(*c16Finding, c16Scenario)) error {
	seen := map[string]bool{}
	closure := map[string]bool{} // (profile, prefix): the states TLC explored are exactly the prefixes of the maximal histories
	calls := map[string]int{}
	drifts := []string{}
	selfTested := false
	n, err := c16Lines(out, "HIST", func(p string) error {
		var c c16BuildHistCase
		if err := json.Unmarshal([]byte(p), &c); err != nil {
			return err
		}
		key := strings.Join(c.Ops, " ")
		for k := 0; k <= len(c.Ops); k++ {
			closure[c.Pk+"|"+strings.Join(c.Ops[:k], " ")] = true
		}
		if seen[key] {
			return nil
		}
		seen[key] = true
		f, d := c16BuildHistEval(&c)
		add(f, c16Scenario{Kind: "buildhist", BuildHist: &c})
		if d != "" && len(drifts) < 3 {
			drifts = append(drifts, d)
		}
		if f == nil {
			cov.AddTraces(1)
		}
		cov.Case("buildhist:"+key, true)
		for _, op := range c.Ops {
			calls[op]++
		}
		// self-test of the binding: a corrupted prediction of a Secrets() observation must be noticed
		if !selfTested && f == nil {
			for k, op := range c.Ops {
				if op == "secrets" && c.Obs[k].Ok && len(c.Obs[k].Val) > 4 {
					bad := c
					bad.Obs = append([]c16HObs{}, c.Obs...)
					bad.Obs[k].Val = json.RawMessage(`[{"k":"nat","v":99}]`)
					if g, _ := c16BuildHistEval(&bad); g == nil {
						return fmt.Errorf("self-test: a corrupted prediction of Secrets() is not noticed")
					}
					selfTested = true
					break
				}
			}
		}
		return nil
	})
	if err != nil {
		return core.Inconcl("builder histories: %v", err)
	}
	if n == 0 || len(closure) != states || !selfTested {
		return core.Inconcl("builder histories: the %d rows have %d prefixes, TLC explored %d histories (self-test done: %v)", n, len(closure), states, selfTested)
	}
	cov.Set("builder_histories", map[string]any{"histories": len(seen), "operations": calls, "Parts_accessor_drift": drifts})
	return nil
}

// ================================================================ hash histories

type c16HHCall struct {
	Fn    string   `json:"fn"`              // B = SHA512_256, I = SHA512_256i, T = SHA512_256i_TAGGED
	Tag   string   `json:"tag,omitempty"`   // hex
	Bytes []string `json:"bytes,omitempty"` // hex (B)
	Ints  []string `json:"ints,omitempty"`  // decimal (I, T)
	Fresh bool     `json:"fresh,omitempty"` // newly allocated objects instead of the re-used ones
	Scrib bool     `json:"scrib,omitempty"` // the caller overwrites the returned digest afterwards
}

type c16HashHistCase struct {
	Steps []c16HHCall `json:"steps"`
}

var c16HHFn = map[string]string{"B": "SHA512_256", "I": "SHA512_256i", "T": "SHA512_256i_TAGGED"}

func (c c16HHCall) input() c16HashInput {
	return c16HashInput{Tag: c.Tag, Bytes: c.Bytes, Ints: c.Ints}
}
func (c c16HHCall) contentKey() string {
	return c.Fn + "|" + c.Tag + "|" + strings.Join(c.Bytes, ",") + "|" + strings.Join(c.Ints, ",")
}

// the caller's re-used objects
type c16HHPool struct {
	tag  []byte
	b    [][]byte   // backing buffers
	argB [][]byte   // the re-used argument slice
	q    []*big.Int // re-used numbers (also the re-used argument slice)
}

func c16NewHHPool() *c16HHPool {
	p := &c16HHPool{tag: make([]byte, 0, 16), argB: make([][]byte, 4), q: make([]*big.Int, 4)}
	for i := 0; i < 4; i++ {
		p.b = append(p.b, make([]byte, 0, 16))
		p.q[i] = new(big.Int)
	}
	return p
}

// c16HHHeld is a digest object as the library returned it, which the caller keeps holding.
type c16HHHeld struct {
	b []byte
	i *big.Int
}

func (h c16HHHeld) now() []byte {
	if h.i != nil {
		if h.i.Sign() < 0 || h.i.BitLen() > 256 {
			return []byte("not a digest")
		}
		return h.i.FillBytes(make([]byte, 32))
	}
	return h.b
}

// call performs one call with the pool's objects rewritten in place (or with fresh objects) and returns a COPY of the digest
// and the returned object itself.
func (p *c16HHPool) call(c c16HHCall) (d []byte, held c16HHHeld, err error) {
	defer func() {
		if r := recover(); r != nil {
			err = fmt.Errorf("panic: %v", r)
		}
	}()
	tag, e := hex.DecodeString(c.Tag)
	if e != nil {
		return nil, held, e
	}
	if len(tag) > cap(p.tag) || len(c.Bytes) > 4 || len(c.Ints) > 4 {
		return nil, held, fmt.Errorf("history call too large for the pool")
	}
	switch c.Fn {
	case "B":
		args := p.argB[:len(c.Bytes)]
		if c.Fresh {
			args = make([][]byte, len(c.Bytes))
		}
		for i, hx := range c.Bytes {
			v, e := hex.DecodeString(hx)
			if e != nil || len(v) > cap(p.b[i]) {
				return nil, held, fmt.Errorf("bad input %q", hx)
			}
			if c.Fresh {
				args[i] = v
				continue
			}
			p.b[i] = p.b[i][:len(v)]
			copy(p.b[i], v) // in place
			args[i] = p.b[i]
		}
		r := common.SHA512_256(args...)
		if r == nil {
			return nil, held, nil
		}
		d = append([]byte{}, r...)
		if c.Scrib {
			for i := range r {
				r[i] = 0xAA
			}
		}
		return d, c16HHHeld{b: r}, nil
	case "I", "T":
		args := p.q[:len(c.Ints)]
		if c.Fresh {
			args = make([]*big.Int, len(c.Ints))
		}
		for i, s := range c.Ints {
			if c.Fresh {
				args[i] = new(big.Int)
			}
			if _, ok := args[i].SetString(s, 10); !ok { // in place for the pool's numbers
				return nil, held, fmt.Errorf("bad integer %q", s)
			}
		}
		var r *big.Int
		if c.Fn == "I" {
			r = common.SHA512_256i(args...)
		} else {
			tg := tag
			if !c.Fresh {
				p.tag = p.tag[:len(tag)]
				copy(p.tag, tag) // in place
				tg = p.tag
			}
			r = common.SHA512_256i_TAGGED(tg, args...)
		}
		if r == nil {
			return nil, held, nil
		}
		d = r.FillBytes(make([]byte, 32))
		if c.Scrib {
			r.SetInt64(0xAAAA)
		}
		return d, c16HHHeld{i: r}, nil
	}
	return nil, held, fmt.Errorf("unknown function %q", c.Fn)
}

// c16HashHistEval: every call's digest must be the digest of its contents at the time of the call. References: the same
// library function on freshly allocated, never re-used objects (computed before the history starts). A call that returns
// the digest of OTHER contents (its own with the tag / the inputs of an earlier call) is an explicit collision.
func c16HashHistEval(c *c16HashHistCase) *c16Finding {
	type cand struct {
		call c16HHCall
		d    []byte
	}
	cands := map[string]cand{}
	addCand := func(x c16HHCall) *c16Finding {
		x.Fresh, x.Scrib = true, false
		if _, ok := cands[x.contentKey()]; ok {
			return nil
		}
		d, pan, err := c16Digest(c16HHFn[x.Fn], x.input())
		if err != nil || pan != "" || d == nil {
			return &c16Finding{Inconcl: true, What: fmt.Sprintf("bad hash history (reference digest: %v %s)", err, pan)}
		}
		cands[x.contentKey()] = cand{x, d}
		return nil
	}
	for k, st := range c.Steps {
		if c16HHFn[st.Fn] == "" {
			return &c16Finding{Inconcl: true, What: "bad hash history: function " + st.Fn}
		}
		if f := addCand(st); f != nil {
			return f
		}
		for j := 0; j < k; j++ { // the contents of this call with the tag / the inputs an earlier call left in the re-used objects
			o := c.Steps[j]
			if o.Fn != st.Fn {
				continue
			}
			h1, h2 := st, st
			h1.Tag = o.Tag
			h2.Bytes, h2.Ints = o.Bytes, o.Ints
			for _, hy := range []c16HHCall{h1, h2} {
				if f := addCand(hy); f != nil {
					return f
				}
			}
		}
	}
	pool := c16NewHHPool()
	helds := make([]c16HHHeld, len(c.Steps))
	gots := make([][]byte, len(c.Steps))
	descTo := func(k int) string {
		return c16HHDesc(c, k)
	}
	for k, st := range c.Steps {
		got, held, err := pool.call(st)
		helds[k], gots[k] = held, got
		desc := func() string {
			var sb strings.Builder
			for j := 0; j <= k; j++ {
				s := c.Steps[j]
				if j > 0 {
					sb.WriteString("; ")
				}
				sb.WriteString(c16HHFn[s.Fn] + " " + c16Show(s.input()))
				if s.Fresh {
					sb.WriteString(" (fresh objects)")
				}
				if s.Scrib && j < k {
					sb.WriteString(" (result overwritten by the caller)")
				}
			}
			return sb.String()
		}
		fn := c16HHFn[st.Fn]
		if err != nil || got == nil {
			return &c16Finding{Key: "C16:hash-history:" + fn + ":no-digest", What: fmt.Sprintf("calls in one process with re-used buffers [%s]: the last call gives no digest (%v)", desc(), err)}
		}
		x := st
		x.Fresh, x.Scrib = true, false
		want := cands[x.contentKey()].d
		if bytes.Equal(got, want) {
			continue
		}
		for _, y := range cands {
			if y.call.Fn == st.Fn && y.call.contentKey() != x.contentKey() && bytes.Equal(y.d, got) {
				cl := c16DiffClass(fn, st.input(), y.call.input())
				return &c16Finding{Key: "C16:hash-history:" + fn + ":" + cl,
					What: fmt.Sprintf("calls in one process, the caller re-using (rewriting in place) its buffers [%s]: the last call returns %x, which is the digest of the different input %s (%s) - two different inputs, one digest", desc(), got[:8], c16Show(y.call.input()), cl)}
			}
		}
		return &c16Finding{Key: "C16:hash-history:" + fn + ":digest-depends-on-earlier-calls",
			What: fmt.Sprintf("calls in one process, the caller re-using (rewriting in place) its buffers [%s]: the last call returns %x, the same input hashed with fresh objects gives %x - the digest is not a function of the input sequence", desc(), got[:8], want[:8])}
	}
	// the digests the caller still holds (and did not overwrite itself) are what they were when they were returned
	for k, st := range c.Steps {
		if st.Scrib {
			continue
		}
		if now := helds[k].now(); !bytes.Equal(now, gots[k]) {
			fn := c16HHFn[st.Fn]
			what := fmt.Sprintf("calls in one process [%s]: the digest object returned by call %d (%x) reads %x after the later calls - the caller, still holding it, sees another digest for that input", descTo(len(c.Steps)-1), k+1, gots[k][:8], now[:min(8, len(now))])
			for j := k + 1; j < len(c.Steps); j++ {
				if c.Steps[j].Fn == st.Fn && bytes.Equal(now, gots[j]) && c.Steps[j].contentKey() != st.contentKey() {
					cl := c16DiffClass(fn, st.input(), c.Steps[j].input())
					return &c16Finding{Key: "C16:hash-history:" + fn + ":held-digest-overwritten:" + cl, What: what + fmt.Sprintf(": the digest of the different input of call %d (%s): two different inputs, one digest in the caller's hands", j+1, cl)}
				}
			}
			return &c16Finding{Key: "C16:hash-history:" + fn + ":held-digest-overwritten", What: what}
		}
	}
	return nil
}

func c16HHDesc(c *c16HashHistCase, k int) string {
	var sb strings.Builder
	for j := 0; j <= k && j < len(c.Steps); j++ {
		s := c.Steps[j]
		if j > 0 {
			sb.WriteString("; ")
		}
		sb.WriteString(c16HHFn[s.Fn] + " " + c16Show(s.input()))
		if s.Fresh {
			sb.WriteString(" (fresh objects)")
		}
		if s.Scrib {
			sb.WriteString(" (result overwritten by the caller)")
		}
	}
	return sb.String()
}

// c16HashHistories: CALL rows (pre-image of every call of the alphabet: conformance) and HHIST rows (the histories).
func c16HashHistories(out string, states int, hs *c16HashState, cov *core.Cov, add func(*c16Finding, c16Scenario)) error {
	type callRow struct {
		Fn  string          `json:"fn"`
		Tag []int           `json:"tag"`
		Ins json.RawMessage `json:"ins"`
		F   []int           `json:"f"`
		TF  []int           `json:"tf"`
	}
	conv := func(fn string, tagv []int, ins json.RawMessage) (c16HHCall, error) {
		c := c16HHCall{Fn: fn}
		tb, err := c16ToBytes(tagv)
		if err != nil {
			return c, err
		}
		if fn == "T" {
			c.Tag = hex.EncodeToString(tb)
		}
		if fn == "B" {
			var v [][]int
			if err := json.Unmarshal(ins, &v); err != nil {
				return c, err
			}
			t, err := c16Tuple(v)
			if err != nil {
				return c, err
			}
			c.Bytes = c16HexAll(t)
			return c, nil
		}
		var v []int
		if err := json.Unmarshal(ins, &v); err != nil {
			return c, err
		}
		c.Ints = c16Strs(v)
		return c, nil
	}
	ncalls := 0
	seenCall := map[string]bool{}
	if _, err := c16Lines(out, "CALL", func(p string) error {
		var r callRow
		if err := json.Unmarshal([]byte(p), &r); err != nil {
			return err
		}
		c, err := conv(r.Fn, r.Tag, r.Ins)
		if err != nil {
			return err
		}
		if seenCall[c.contentKey()] {
			return nil
		}
		seenCall[c.contentKey()] = true
		f, err1 := c16ToBytes(r.F)
		tf, err2 := c16ToBytes(r.TF)
		if err1 != nil || err2 != nil {
			return fmt.Errorf("bad frame")
		}
		d, pan, err := c16Digest(c16HHFn[c.Fn], c.input())
		if err != nil || pan != "" || d == nil {
			return fmt.Errorf("no digest for %s (%v %s)", c16Show(c.input()), err, pan)
		}
		spec := sum256(f)
		if c.Fn == "T" {
			T := sum256(tf)
			spec = sum256(T, T, f)
		}
		hs.conform(c16HHFn[c.Fn], c.input(), d, spec)
		hs.note(c16HHFn[c.Fn], c.input(), d)
		ncalls++
		return nil
	}); err != nil || ncalls == 0 {
		return core.Inconcl("hash histories: cannot read the table of calls (%d, %v)", ncalls, err)
	}
	seen := map[string]bool{}
	closure := map[string]bool{}
	steps, reused, scrib := 0, 0, 0
	n, err := c16Lines(out, "HHIST", func(p string) error {
		var row struct {
			Pk    string `json:"pk"`
			Calls []struct {
				Fn    string          `json:"fn"`
				Tag   []int           `json:"tag"`
				Ins   json.RawMessage `json:"ins"`
				Fresh bool            `json:"fresh"`
				Scrib bool            `json:"scrib"`
			} `json:"calls"`
		}
		if err := json.Unmarshal([]byte(p), &row); err != nil {
			return err
		}
		hc := &c16HashHistCase{}
		pre := row.Pk
		closure[pre] = true
		for _, r := range row.Calls {
			c, err := conv(r.Fn, r.Tag, r.Ins)
			if err != nil {
				return err
			}
			if !seenCall[c.contentKey()] {
				return fmt.Errorf("history with a call that is not in the table of calls: %s", c.contentKey())
			}
			c.Fresh, c.Scrib = r.Fresh, r.Scrib
			hc.Steps = append(hc.Steps, c)
			pre += fmt.Sprint("|", c.contentKey(), c.Fresh, c.Scrib)
			closure[pre] = true
		}
		kb, _ := json.Marshal(hc)
		if seen[string(kb)] {
			return nil
		}
		seen[string(kb)] = true
		f := c16HashHistEval(hc)
		add(f, c16Scenario{Kind: "hashhist", HashHist: hc})
		if f == nil {
			cov.AddTraces(1)
		}
		cov.Case("hashhist:"+string(kb), true)
		for _, s := range hc.Steps {
			steps++
			if !s.Fresh {
				reused++
			}
			if s.Scrib {
				scrib++
			}
		}
		return nil
	})
	if err != nil {
		return core.Inconcl("hash histories: %v", err)
	}
	if n == 0 || len(closure) != states {
		return core.Inconcl("hash histories: the %d rows have %d prefixes, TLC explored %d histories", n, len(closure), states)
	}
	cov.Set("hash_histories", map[string]any{"histories": len(seen), "calls_in_the_alphabet": ncalls, "calls": steps, "calls_with_reused_objects": reused, "results_overwritten": scrib})
	return nil
}
