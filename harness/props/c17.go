package props

// C17 — only valid curve points are accepted; point arithmetic and encodings are exact.
//
// spec/Points.tla      abstract groups Z_8 x Z_l (edwards25519) and Z_q with an unrepresentable identity (secp256k1),
//                      the operations of crypto/ecpoint.go, group-law / cofactor-map invariants (TLC, exhaustive over
//                      toy orders) and random walks printed as behaviours (TLC -simulate) with the predicted result of
//                      every step;
// spec/PointDoors.tla  the doors through which a point enters the library x the classes of coordinate pairs, with the
//                      expected verdict per case (TLC, exhaustive; printed as a catalogue).
// Binding (B, behaviour replay): every behaviour / catalogue row is replayed on the real crypto.ECPoint API; abstract
// elements are concretised with the independent arithmetic of harness/obs and the library's answer is compared with the
// concretisation of the model's answer after every step.  Field-arithmetic fidelity is judged by the independent
// implementation; the specification supplies group structure, behaviours and the door table.

import (
	"bytes"
	"crypto/elliptic"
	"encoding/gob"
	"encoding/json"
	"fmt"
	"math/big"
	"math/rand"
	"sort"
	"strconv"
	"strings"
	"sync"
	"time"

	"github.com/bnb-chain/tss-lib/v2/crypto"
	"github.com/bnb-chain/tss-lib/v2/crypto/mta"
	eckg "github.com/bnb-chain/tss-lib/v2/ecdsa/keygen"
	ecrs "github.com/bnb-chain/tss-lib/v2/ecdsa/resharing"
	ecsig "github.com/bnb-chain/tss-lib/v2/ecdsa/signing"
	edkgen "github.com/bnb-chain/tss-lib/v2/eddsa/keygen"
	edrs "github.com/bnb-chain/tss-lib/v2/eddsa/resharing"
	edsig "github.com/bnb-chain/tss-lib/v2/eddsa/signing"
	"github.com/bnb-chain/tss-lib/v2/tss"

	"verif/harness/core"
	"verif/harness/obs"
	"verif/harness/tlc"
)

// ---------------------------------------------------------------- curves

type c17Curve struct {
	name   string // registry name (tss/curve.go)
	ec     elliptic.Curve
	g      obs.Group
	p      *big.Int // field prime
	topbit *big.Int // 2^(field bit length): adding it leaves the low bits alone
	tors   []obs.Pt // the 8 points of order dividing 8 (edwards25519), nil otherwise
	small  []obs.Pt // points with a coordinate small enough that c + p keeps the field's byte length
}

var (
	c17Once   sync.Once
	c17Curves map[string]*c17Curve
)

func c17Get(name string) *c17Curve {
	c17Once.Do(func() {
		ed := &c17Curve{name: string(tss.Ed25519), ec: tss.Edwards(), g: obs.Ed, p: obs.Ed.P(), topbit: new(big.Int).Lsh(big.NewInt(1), 255), tors: obs.Ed.Torsion()}
		// (0,1), (0,-1), (+-sqrt(-1), 0): coordinates 0 / 1
		ed.small = []obs.Pt{ed.tors[0], ed.tors[4], ed.tors[2], ed.tors[6]}
		sec := &c17Curve{name: string(tss.Secp256k1), ec: tss.S256(), g: obs.Secp, p: obs.Secp.P(), topbit: new(big.Int).Lsh(big.NewInt(1), 256)}
		for x := int64(1); x < 200 && len(sec.small) < 3; x++ {
			if q, ok := obs.Secp.LiftX(big.NewInt(x), uint(x&1)); ok {
				sec.small = append(sec.small, q)
			}
		}
		c17Curves = map[string]*c17Curve{ed.name: ed, sec.name: sec}
	})
	return c17Curves[name]
}

func (c *c17Curve) other() *c17Curve {
	if c.name == string(tss.Ed25519) {
		return c17Get(string(tss.Secp256k1))
	}
	return c17Get(string(tss.Ed25519))
}

// randPoint returns k*G for a random k in [1, order).
func (c *c17Curve) randPoint(rng *rand.Rand) obs.Pt {
	k := new(big.Int).Rand(rng, new(big.Int).Sub(c.g.Order(), big.NewInt(1)))
	k.Add(k, big.NewInt(1))
	return obs.BaseMul(c.g, k)
}

type c17XY struct {
	X string `json:"x"` // decimal
	Y string `json:"y"`
}

func c17FromPt(p obs.Pt) c17XY { return c17XY{p.X.String(), p.Y.String()} }
func (v c17XY) ints() (*big.Int, *big.Int, bool) {
	x, ok1 := new(big.Int).SetString(v.X, 10)
	y, ok2 := new(big.Int).SetString(v.Y, 10)
	return x, y, ok1 && ok2
}

// c17Call runs a library call and turns a panic in the calling goroutine into a value.
func c17Call(f func() (*crypto.ECPoint, error)) (p *crypto.ECPoint, err error, panicked string) {
	defer func() {
		if r := recover(); r != nil {
			p, err, panicked = nil, nil, fmt.Sprint(r)
		}
	}()
	p, err = f()
	return
}

func c17Same(p *crypto.ECPoint, q obs.Pt) bool {
	return p != nil && !q.Inf && p.X().Cmp(q.X) == 0 && p.Y().Cmp(q.Y) == 0
}

// ---------------------------------------------------------------- scenarios (replayable)

type c17Scenario struct {
	Kind  string       `json:"kind"` // door | walk | arith
	Door  *c17DoorCase `json:"door,omitempty"`
	Walk  *c17Walk     `json:"walk,omitempty"`
	Arith *c17Arith    `json:"arith,omitempty"`
}

type c17Finding struct {
	Key, What string
	Inconcl   bool // the harness / model disagree with the independent arithmetic: not a verdict on the code
}

// ---------------------------------------------------------------- doors

type c17Row struct {
	Door       string `json:"door"`
	StatedBy   string `json:"stated_by"`
	Base       string `json:"base"`
	Class      string `json:"class"`
	Claim      string `json:"claim"`
	Global     string `json:"global"`
	Stated     string `json:"stated"`
	PreKind    string `json:"pre_kind"`  // fresh | seen | reuse (PointDoors.tla: PreStates)
	PreHow     string `json:"pre_how"`   // seen: what was presented before; reuse: how the target got bound
	PreCurve   string `json:"pre_curve"` // reuse: the curve the target is bound to
	WrongCurve bool   `json:"wrong_curve"`
	Expect     string `json:"expect"`
}

type c17DoorCase struct {
	Row     c17Row  `json:"row"`
	Variant string  `json:"variant"`        // how the pair was built
	Pair    c17XY   `json:"pair"`           // an empty string stands for a missing coordinate (class "absent")
	List    []c17XY `json:"list,omitempty"` // UnFlattenECPoints: the whole list, Pair sits at Pos
	Pos     int     `json:"pos"`
	Form    int     `json:"form,omitempty"`  // JSON spelling of a missing coordinate: 0 null, 1 short array, 2 no Coords member
	Embed   string  `json:"embed,omitempty"` // receiver doors: where the decoded-into *ECPoint sits (direct, field, slice, ...-savedata)
	Prev    *c17XY  `json:"prev,omitempty"`  // reuse: what the target held before; seen/intact_point_own_curve: the intact point
}

type c17DoorOutcome struct {
	Accepted bool
	Reused   string // "yes" / "no": an accepted decode into a prepared target returned that very object
	Panicked string
	Finding  *c17Finding
	Drift    string
}

func c17DoorFamily(door string) string {
	switch door {
	case "crypto.NewECPoint", "crypto.UnFlattenECPoints", "ECPoint.GobDecode":
		return door
	case "ECPoint.UnmarshalJSON", "ECPoint.UnmarshalJSON(no Curve member)":
		return "ECPoint.UnmarshalJSON"
	}
	return "message-field"
}

func c17HasReceiver(door string) bool {
	return door == "ECPoint.UnmarshalJSON" || door == "ECPoint.UnmarshalJSON(no Curve member)" || door == "ECPoint.GobDecode"
}

func c17ClassKey(row c17Row) string {
	if row.WrongCurve {
		return "point-of-other-curve"
	}
	if strings.HasPrefix(row.Class, "ge_p_") {
		return "coordinate>=p"
	}
	return row.Class
}

// c17PreKey: suffix of the violation key for cases with a history ("" for a first use, so that the keys of the
// history-free table stay what they were).
func c17PreKey(row c17Row) string {
	switch row.PreKind {
	case "seen":
		return ":repeated-use-of-the-door"
	case "reuse":
		return ":reused-target"
	}
	return ""
}

func c17PreDesc(dc *c17DoorCase) string {
	row := dc.Row
	switch row.PreKind {
	case "seen":
		if row.PreHow == "same_pair_other_curve" {
			return "; history: the same pair was presented at this door immediately before with the other curve stated"
		}
		if row.PreHow == "intact_point_earlier_in_the_list" {
			return "; history: the intact point the pair was made from stands directly before it in the same list"
		}
		return fmt.Sprintf("; history: the intact point the pair was made from was presented at this door immediately before on its own curve %s", row.Base)
	case "reuse":
		how := map[string]string{"json": "decoded from JSON naming", "legacy_json": "decoded from JSON without a curve name while the default curve was",
			"gob": "decoded from Gob while the default curve was", "constructor": "made by NewECPoint for", "setcurve": "an empty point marked with SetCurve for",
			"failed_json": "the target of a refused JSON decode naming"}[row.PreHow]
		return fmt.Sprintf("; history: the *ECPoint decoded into (%s) was used before: %s %s", dc.Embed, how, row.PreCurve)
	}
	return ""
}

func c17Bytes(v *big.Int) []byte {
	if v.Sign() == 0 {
		return []byte{0}
	}
	return v.Bytes()
}

// opt parses a pair in which an empty string stands for a missing coordinate (nil).
func (v c17XY) opt() (x, y *big.Int, ok bool) {
	ok = true
	if v.X != "" {
		var k bool
		x, k = new(big.Int).SetString(v.X, 10)
		ok = ok && k
	}
	if v.Y != "" {
		var k bool
		y, k = new(big.Int).SetString(v.Y, 10)
		ok = ok && k
	}
	return
}

func (v c17XY) show() string {
	s := func(c string) string {
		if c == "" {
			return "<absent>"
		}
		return core.Short(c, 80)
	}
	return "(" + s(v.X) + ", " + s(v.Y) + ")"
}

// c17Coords reads the coordinates of a library point; ok=false if it holds none (reading them would panic).
func c17Coords(p *crypto.ECPoint) (x, y *big.Int, ok bool) {
	defer func() {
		if recover() != nil {
			x, y, ok = nil, nil, false
		}
	}()
	if p == nil {
		return nil, nil, false
	}
	return p.X(), p.Y(), true
}

func c17NameOf(p *crypto.ECPoint) string {
	if p == nil || p.Curve() == nil {
		return ""
	}
	n, _ := tss.GetCurveName(p.Curve())
	return string(n)
}

// holders of a *ECPoint that encoding/json and encoding/gob decode INTO: a non-nil pointer they find is re-used
type c17HolderP struct{ P *crypto.ECPoint }
type c17HolderPs struct{ Ps []*crypto.ECPoint }

var c17JSONEmbeds = []string{"direct", "field", "slice", "eddsa-savedata", "ecdsa-savedata"}
var c17GobEmbeds = []string{"direct", "field", "slice"}

// c17DoorObj is one real door together with what persists between two uses of it: the *ECPoint that is decoded into
// (receiver doors; nil = a new object per use) and the message / byte-slice object whose fields are overwritten
// (message-field doors).
type c17DoorObj struct {
	name   string
	target *crypto.ECPoint
	embed  string
	field  func(ec elliptic.Curve, bx, by []byte) (*crypto.ECPoint, error)
}

// c17Pres is one presentation: a pair (nil = missing coordinate) with the curve stated the way the door takes it.
type c17Pres struct {
	statedBy, claim string
	stated          *c17Curve
	x, y            *big.Int
	list            []c17XY
	pos, form       int
}

func c17FieldDoor(door string) func(ec elliptic.Curve, bx, by []byte) (*crypto.ECPoint, error) {
	one := []byte{1}
	switch door {
	case "eddsa/keygen.KGRound2Message2.UnmarshalZKProof":
		m := &edkgen.KGRound2Message2{ProofT: one}
		return func(ec elliptic.Curve, bx, by []byte) (*crypto.ECPoint, error) {
			m.ProofAlphaX, m.ProofAlphaY = bx, by
			pf, e := m.UnmarshalZKProof(ec)
			if e != nil {
				return nil, e
			}
			return pf.Alpha, nil
		}
	case "eddsa/signing.SignRound2Message.UnmarshalZKProof":
		m := &edsig.SignRound2Message{ProofT: one}
		return func(ec elliptic.Curve, bx, by []byte) (*crypto.ECPoint, error) {
			m.ProofAlphaX, m.ProofAlphaY = bx, by
			pf, e := m.UnmarshalZKProof(ec)
			if e != nil {
				return nil, e
			}
			return pf.Alpha, nil
		}
	case "eddsa/resharing.DGRound1Message.UnmarshalEDDSAPub":
		m := &edrs.DGRound1Message{VCommitment: one}
		return func(ec elliptic.Curve, bx, by []byte) (*crypto.ECPoint, error) {
			m.EddsaPubX, m.EddsaPubY = bx, by
			return m.UnmarshalEDDSAPub(ec)
		}
	case "ecdsa/signing.SignRound4Message.UnmarshalZKProof":
		m := &ecsig.SignRound4Message{ProofT: one}
		return func(ec elliptic.Curve, bx, by []byte) (*crypto.ECPoint, error) {
			m.ProofAlphaX, m.ProofAlphaY = bx, by
			pf, e := m.UnmarshalZKProof(ec)
			if e != nil {
				return nil, e
			}
			return pf.Alpha, nil
		}
	case "ecdsa/signing.SignRound6Message.UnmarshalZKProof":
		m := &ecsig.SignRound6Message{ProofT: one}
		return func(ec elliptic.Curve, bx, by []byte) (*crypto.ECPoint, error) {
			m.ProofAlphaX, m.ProofAlphaY = bx, by
			pf, e := m.UnmarshalZKProof(ec)
			if e != nil {
				return nil, e
			}
			return pf.Alpha, nil
		}
	case "ecdsa/signing.SignRound6Message.UnmarshalZKVProof":
		m := &ecsig.SignRound6Message{VProofT: one, VProofU: one}
		return func(ec elliptic.Curve, bx, by []byte) (*crypto.ECPoint, error) {
			m.VProofAlphaX, m.VProofAlphaY = bx, by
			pf, e := m.UnmarshalZKVProof(ec)
			if e != nil {
				return nil, e
			}
			return pf.Alpha, nil
		}
	case "ecdsa/resharing.DGRound1Message.UnmarshalECDSAPub":
		m := &ecrs.DGRound1Message{VCommitment: one}
		return func(ec elliptic.Curve, bx, by []byte) (*crypto.ECPoint, error) {
			m.EcdsaPubX, m.EcdsaPubY = bx, by
			return m.UnmarshalECDSAPub(ec)
		}
	case "crypto/mta.ProofBobWCFromBytes":
		bzs := make([][]byte, mta.ProofBobWCBytesParts)
		for i := range bzs {
			bzs[i] = one
		}
		return func(ec elliptic.Curve, bx, by []byte) (*crypto.ECPoint, error) {
			bzs[10], bzs[11] = bx, by
			pf, e := mta.ProofBobWCFromBytes(ec, bzs)
			if e != nil {
				return nil, e
			}
			return pf.U, nil
		}
	}
	return nil
}

func c17NewDoor(door, embed string) *c17DoorObj {
	if embed == "" {
		embed = "direct"
	}
	return &c17DoorObj{name: door, embed: embed, field: c17FieldDoor(door)}
}

// c17JSONPayload: the JSON form of a pair, with or without the curve name.
func c17JSONPayload(statedBy, claim string, x, y *big.Int, form int) string {
	num := func(v *big.Int) string {
		if v == nil {
			return "null"
		}
		return v.String()
	}
	coords := fmt.Sprintf(`"Coords":[%s,%s]`, num(x), num(y))
	switch {
	case form == 1 && y == nil && x != nil:
		coords = fmt.Sprintf(`"Coords":[%s]`, x)
	case form == 1 && y == nil && x == nil:
		coords = `"Coords":[]`
	case form == 2 && y == nil && x == nil:
		coords = ""
	}
	var members []string
	if statedBy == "payload" {
		members = append(members, fmt.Sprintf(`"Curve":%q`, claim))
	}
	if coords != "" {
		members = append(members, coords)
	}
	return "{" + strings.Join(members, ",") + "}"
}

// decodeJSON hands the payload to encoding/json with the door's target sitting where `embed` says.
func (d *c17DoorObj) decodeJSON(payload string) (*crypto.ECPoint, error) {
	switch d.embed {
	case "field":
		h := c17HolderP{P: d.target}
		if e := json.Unmarshal([]byte(`{"P":`+payload+`}`), &h); e != nil {
			return nil, e
		}
		return h.P, nil
	case "slice":
		h := c17HolderPs{}
		if d.target != nil {
			h.Ps = []*crypto.ECPoint{d.target}
		}
		if e := json.Unmarshal([]byte(`{"Ps":[`+payload+`]}`), &h); e != nil {
			return nil, e
		}
		if len(h.Ps) != 1 {
			return nil, fmt.Errorf("harness: %d elements decoded", len(h.Ps))
		}
		return h.Ps[0], nil
	case "eddsa-savedata":
		h := edkgen.LocalPartySaveData{EDDSAPub: d.target}
		if e := json.Unmarshal([]byte(`{"EDDSAPub":`+payload+`}`), &h); e != nil {
			return nil, e
		}
		return h.EDDSAPub, nil
	case "ecdsa-savedata":
		h := eckg.LocalPartySaveData{}
		if d.target != nil {
			h.BigXj = []*crypto.ECPoint{d.target}
		}
		if e := json.Unmarshal([]byte(`{"BigXj":[`+payload+`]}`), &h); e != nil {
			return nil, e
		}
		if len(h.BigXj) != 1 {
			return nil, fmt.Errorf("harness: %d elements decoded", len(h.BigXj))
		}
		return h.BigXj[0], nil
	}
	p := d.target
	if p == nil {
		p = new(crypto.ECPoint)
	}
	if e := json.Unmarshal([]byte(payload), p); e != nil {
		return nil, e
	}
	return p, nil
}

// gobWire: the bytes anybody can produce: the Gob form of the coordinate pair (the encoding has no curve member), in
// the shape the holder is decoded from.
func (d *c17DoorObj) gobWire(pt *crypto.ECPoint) ([]byte, error) {
	var wire bytes.Buffer
	var e error
	switch d.embed {
	case "field":
		e = gob.NewEncoder(&wire).Encode(&c17HolderP{P: pt})
	case "slice":
		e = gob.NewEncoder(&wire).Encode(&c17HolderPs{Ps: []*crypto.ECPoint{pt}})
	default:
		e = gob.NewEncoder(&wire).Encode(pt)
	}
	return append([]byte(nil), wire.Bytes()...), e
}

func (d *c17DoorObj) decodeGob(raw []byte) (*crypto.ECPoint, error) {
	dec := gob.NewDecoder(bytes.NewReader(raw))
	switch d.embed {
	case "field":
		h := c17HolderP{P: d.target}
		if e := dec.Decode(&h); e != nil {
			return nil, e
		}
		return h.P, nil
	case "slice":
		h := c17HolderPs{}
		if d.target != nil {
			h.Ps = []*crypto.ECPoint{d.target}
		}
		if e := dec.Decode(&h); e != nil {
			return nil, e
		}
		if len(h.Ps) != 1 {
			return nil, fmt.Errorf("harness: %d elements decoded", len(h.Ps))
		}
		return h.Ps[0], nil
	}
	p := d.target
	if p == nil {
		p = new(crypto.ECPoint)
	}
	if e := dec.Decode(p); e != nil {
		return nil, e
	}
	return p, nil
}

// present hands the pair to the real door.  It returns the point the door produced (nil if refused), the pair read back
// from a re-encoding of that point, and the registry name of the curve the result is tagged with.
func (d *c17DoorObj) present(in c17Pres) (res *crypto.ECPoint, backX, backY *big.Int, backCurve string, err error, panicked string) {
	stated, x, y := in.stated, in.x, in.y
	switch d.name {
	case "crypto.NewECPoint":
		res, err, panicked = c17Call(func() (*crypto.ECPoint, error) { return crypto.NewECPoint(stated.ec, x, y) })
		if res != nil {
			backX, backY, _ = c17Coords(res)
			backCurve = c17NameOf(res)
		}
	case "crypto.UnFlattenECPoints":
		var flat []*big.Int
		for _, e := range in.list {
			ex, ey, ok := e.opt()
			if !ok {
				return nil, nil, nil, "", fmt.Errorf("harness: bad list"), ""
			}
			flat = append(flat, ex, ey)
		}
		var out []*crypto.ECPoint
		res, err, panicked = c17Call(func() (*crypto.ECPoint, error) {
			var e error
			out, e = crypto.UnFlattenECPoints(stated.ec, flat)
			if e != nil {
				return nil, e
			}
			if len(out) != len(in.list) {
				return nil, fmt.Errorf("returned %d points for %d pairs", len(out), len(in.list))
			}
			return out[in.pos], nil
		})
		if res != nil {
			re, e, _ := c17CallFlatten(out)
			if e != nil || len(re) != len(flat) {
				return res, nil, nil, c17NameOf(res), nil, ""
			}
			for i := range re {
				if i != 2*in.pos && i != 2*in.pos+1 && (re[i] == nil || flat[i] == nil || re[i].Cmp(flat[i]) != 0) {
					return res, nil, nil, c17NameOf(res), nil, "" // a neighbour changed: reported as a failed round trip
				}
			}
			backX, backY, backCurve = re[2*in.pos], re[2*in.pos+1], c17NameOf(res)
		}
	case "ECPoint.UnmarshalJSON", "ECPoint.UnmarshalJSON(no Curve member)":
		payload := c17JSONPayload(in.statedBy, in.claim, x, y, in.form)
		res, err, panicked = c17Call(func() (*crypto.ECPoint, error) { return d.decodeJSON(payload) })
		if res != nil {
			b, e, _ := c17CallBytes(func() ([]byte, error) { return json.Marshal(res) })
			var aux struct {
				Curve  string
				Coords [2]*big.Int
			}
			if e == nil && json.Unmarshal(b, &aux) == nil && aux.Coords[0] != nil && aux.Coords[1] != nil {
				backX, backY, backCurve = aux.Coords[0], aux.Coords[1], aux.Curve
			}
		}
	case "ECPoint.GobDecode":
		if x == nil || y == nil {
			return nil, nil, nil, "", fmt.Errorf("harness: the Gob form cannot express a missing coordinate"), ""
		}
		raw, e := d.gobWire(crypto.NewECPointNoCurveCheck(stated.ec, x, y))
		if e != nil {
			return nil, nil, nil, "", fmt.Errorf("harness: gob encode: %v", e), ""
		}
		res, err, panicked = c17Call(func() (*crypto.ECPoint, error) { return d.decodeGob(raw) })
		if res != nil {
			again, e, _ := c17CallBytes(func() ([]byte, error) { return d.gobWire(res) })
			if e == nil && bytes.Equal(again, raw) {
				backX, backY, _ = c17Coords(res)
			}
			backCurve = c17NameOf(res)
		}
	default:
		if d.field == nil {
			return nil, nil, nil, "", fmt.Errorf("harness: unknown door %q", d.name), ""
		}
		if x == nil || y == nil {
			return nil, nil, nil, "", fmt.Errorf("harness: a byte field cannot express a missing coordinate"), ""
		}
		bx, by := c17Bytes(x), c17Bytes(y)
		res, err, panicked = c17Call(func() (*crypto.ECPoint, error) { return d.field(stated.ec, bx, by) })
		if rx, ry, ok := c17Coords(res); ok {
			// the message doors re-encode a point as the big-endian bytes of its coordinates
			backX, backY = new(big.Int).SetBytes(rx.Bytes()), new(big.Int).SetBytes(ry.Bytes())
			backCurve = c17NameOf(res)
		}
	}
	return
}

func c17CallFlatten(pts []*crypto.ECPoint) (out []*big.Int, err error, panicked string) {
	defer func() {
		if r := recover(); r != nil {
			out, err, panicked = nil, fmt.Errorf("panic: %v", r), fmt.Sprint(r)
		}
	}()
	out, err = crypto.FlattenECPoints(pts)
	return
}

func c17CallBytes(f func() ([]byte, error)) (out []byte, err error, panicked string) {
	defer func() {
		if r := recover(); r != nil {
			out, err, panicked = nil, fmt.Errorf("panic: %v", r), fmt.Sprint(r)
		}
	}()
	out, err = f()
	return
}

// c17SetGlobal switches tss.EC() (callers serialise door evaluation).
func c17SetGlobal(name string) { tss.SetCurve(c17Get(name).ec) }

// c17Bind makes a *ECPoint that "was used before": bound to curve b the way `how` says (PointDoors.tla: BindingWays),
// with real calls only.  prev is a valid point of b (how = failed_json: a pair that is not on b).
func c17Bind(how string, b *c17Curve, prev c17XY) (*crypto.ECPoint, *c17Finding) {
	px, py, ok := prev.ints()
	if !ok && how != "setcurve" {
		return nil, &c17Finding{Inconcl: true, What: "bad previous content in scenario"}
	}
	refused := func(fam string, err error, pan string) *c17Finding {
		return &c17Finding{Key: fmt.Sprintf("C17:refuses-valid-point:%s:%s:target-preparation", fam, b.name),
			What: fmt.Sprintf("a prime-order point of the stated curve %s was refused by %s (err=%v panic=%q) while a target object was being prepared: (%s, %s)", b.name, fam, err, pan, core.Short(prev.X, 80), core.Short(prev.Y, 80))}
	}
	switch how {
	case "setcurve":
		return new(crypto.ECPoint).SetCurve(b.ec), nil
	case "constructor":
		p, err, pan := c17Call(func() (*crypto.ECPoint, error) { return crypto.NewECPoint(b.ec, px, py) })
		if p == nil {
			return nil, refused("crypto.NewECPoint", err, pan)
		}
		return p, nil
	case "json", "failed_json", "legacy_json":
		by := "payload"
		if how == "legacy_json" {
			by = "global"
			c17SetGlobal(b.name)
		}
		t := new(crypto.ECPoint)
		_, err, pan := c17Call(func() (*crypto.ECPoint, error) {
			return t, json.Unmarshal([]byte(c17JSONPayload(by, b.name, px, py, 0)), t)
		})
		if how != "failed_json" && (err != nil || pan != "") {
			return nil, refused("ECPoint.UnmarshalJSON", err, pan)
		}
		// failed_json: a decode that succeeded although the pair is not on b is the business of the first-use rows
		return t, nil
	case "gob":
		c17SetGlobal(b.name)
		var wire bytes.Buffer
		if e := gob.NewEncoder(&wire).Encode(crypto.NewECPointNoCurveCheck(b.ec, px, py)); e != nil {
			return nil, &c17Finding{Inconcl: true, What: fmt.Sprintf("gob encode: %v", e)}
		}
		t := new(crypto.ECPoint)
		_, err, pan := c17Call(func() (*crypto.ECPoint, error) { return t, gob.NewDecoder(&wire).Decode(t) })
		if err != nil || pan != "" {
			return nil, refused("ECPoint.GobDecode", err, pan)
		}
		return t, nil
	}
	return nil, &c17Finding{Inconcl: true, What: "unknown way to bind a target: " + how}
}

// c17Prepare brings the door into the pre-state of the case with real calls (nothing of it is judged here: every
// presentation made on the way is a first-use row of its own).
func c17Prepare(dc *c17DoorCase) (*c17DoorObj, *c17Finding) {
	row := dc.Row
	d := c17NewDoor(row.Door, dc.Embed)
	x, y, _ := dc.Pair.opt()
	switch row.PreKind {
	case "fresh", "":
	case "seen":
		if row.PreHow == "intact_point_earlier_in_the_list" {
			// the history is part of the list itself (c17BuildCases)
			if row.Door != "crypto.UnFlattenECPoints" || dc.Prev == nil || dc.Pos < 1 || dc.Pos >= len(dc.List) || dc.List[dc.Pos-1] != *dc.Prev {
				return nil, &c17Finding{Inconcl: true, What: "the list does not hold the intact point before the pair"}
			}
			break
		}
		in := c17Pres{statedBy: row.StatedBy, form: dc.Form}
		switch row.PreHow {
		case "same_pair_other_curve":
			in.stated, in.x, in.y = c17Get(row.Stated).other(), x, y
			in.list = []c17XY{dc.Pair}
		case "intact_point_own_curve":
			if dc.Prev == nil {
				return nil, &c17Finding{Inconcl: true, What: "scenario lacks the intact point"}
			}
			px, py, ok := dc.Prev.ints()
			if !ok {
				return nil, &c17Finding{Inconcl: true, What: "bad intact point in scenario"}
			}
			in.stated, in.x, in.y = c17Get(row.Base), px, py
			in.list = []c17XY{*dc.Prev}
		default:
			return nil, &c17Finding{Inconcl: true, What: "unknown history " + row.PreHow}
		}
		in.claim = in.stated.name
		c17SetGlobal(in.stated.name) // the doors that take the stated curve from the default; the others must not care
		if _, _, _, _, err, _ := d.present(in); err != nil && strings.HasPrefix(err.Error(), "harness:") {
			return nil, &c17Finding{Inconcl: true, What: err.Error()}
		}
	case "reuse":
		b := c17Get(row.PreCurve)
		if b == nil || !c17HasReceiver(row.Door) {
			return nil, &c17Finding{Inconcl: true, What: "catalogue row re-uses a target at a door without one"}
		}
		prev := c17XY{}
		if dc.Prev != nil {
			prev = *dc.Prev
		}
		t, f := c17Bind(row.PreHow, b, prev)
		if f != nil {
			return nil, f
		}
		if row.PreHow != "setcurve" && row.PreHow != "failed_json" && (!tss.SameCurve(t.Curve(), b.ec) || !t.ValidateBasic()) {
			return nil, &c17Finding{Inconcl: true, What: fmt.Sprintf("the prepared target is not a valid point of %s", b.name)}
		}
		d.target = t
	default:
		return nil, &c17Finding{Inconcl: true, What: "unknown pre-state " + row.PreKind}
	}
	return d, nil
}

// c17DoorEval presents one case at its door and judges the outcome against the model's expectation.
func c17DoorEval(dc *c17DoorCase) c17DoorOutcome {
	var o c17DoorOutcome
	row := dc.Row
	stated := c17Get(row.Stated)
	if stated == nil || c17Get(row.Global) == nil || c17Get(row.Base) == nil {
		o.Finding = &c17Finding{Inconcl: true, What: "catalogue row names an unknown curve"}
		return o
	}
	x, y, ok := dc.Pair.opt()
	if !ok {
		o.Finding = &c17Finding{Inconcl: true, What: "bad pair in scenario"}
		return o
	}
	// the independent implementation decides whether the pair lies on the stated curve; it must agree with the model
	on := x != nil && y != nil && stated.g.OnCurve(obs.Pt{X: x, Y: y})
	if on != (row.Expect == "accept") {
		o.Finding = &c17Finding{Inconcl: true, What: fmt.Sprintf("model expects %s for %s/%s (%s) at %s but the independent arithmetic says on-curve=%v",
			row.Expect, row.Base, row.Class, dc.Variant, row.Stated, on)}
		return o
	}
	d, f := c17Prepare(dc)
	if f != nil {
		o.Finding = f
		return o
	}
	c17SetGlobal(row.Global)
	res, bx, by, bcurve, err, panicked := d.present(c17Pres{statedBy: row.StatedBy, claim: row.Claim, stated: stated, x: x, y: y, list: dc.List, pos: dc.Pos, form: dc.Form})
	if err != nil && strings.HasPrefix(err.Error(), "harness:") {
		o.Finding = &c17Finding{Inconcl: true, What: err.Error()}
		return o
	}
	o.Panicked = panicked
	o.Accepted = res != nil
	if res != nil && d.target != nil {
		o.Reused = "no"
		if res == d.target {
			o.Reused = "yes"
		}
	}
	fam := c17DoorFamily(row.Door)
	desc := fmt.Sprintf("%s (stated curve %s by %s, default curve %s): %s pair of class %s/%s [%s] %s%s",
		row.Door, row.Stated, row.StatedBy, row.Global, row.Base, row.Class, row.Base, dc.Variant, dc.Pair.show(), c17PreDesc(dc))
	switch {
	case row.Expect == "reject" && o.Accepted:
		o.Finding = &c17Finding{Key: fmt.Sprintf("C17:accepts-off-curve:%s:%s:%s%s", fam, row.Stated, c17ClassKey(row), c17PreKey(row)),
			What: "a coordinate pair that does not lie on the stated curve was accepted — " + desc}
	case row.Expect == "accept" && !o.Accepted:
		if row.Class == "generator" || row.Class == "random" {
			why := fmt.Sprint(err)
			if panicked != "" {
				why = "panic: " + panicked
			}
			o.Finding = &c17Finding{Key: fmt.Sprintf("C17:refuses-valid-point:%s:%s:%s%s", fam, row.Stated, row.Class, c17PreKey(row)),
				What: "a prime-order point of the stated curve was refused (" + core.Short(why, 120) + ") — " + desc}
		} else {
			// small-order / mixed-order / neutral points are on the curve; a door that refuses them is stricter than the
			// model, which the property allows
			o.Drift = fmt.Sprintf("%s refuses %s/%s points of %s (allowed by the property; the model lets them in)", row.Door, row.Base, row.Class, row.Stated)
		}
	case o.Accepted:
		// same point, same curve, and the re-encoding reproduces the input
		rx, ry, has := c17Coords(res)
		if !has || rx.Cmp(x) != 0 || ry.Cmp(y) != 0 {
			o.Finding = &c17Finding{Key: fmt.Sprintf("C17:decoded-point-differs:%s:%s%s", fam, row.Stated, c17PreKey(row)), What: fmt.Sprintf("decoded point (%v,%v) differs from the presented pair — %s", rx, ry, desc)}
		} else if res.Curve() == nil || !tss.SameCurve(res.Curve(), stated.ec) {
			o.Finding = &c17Finding{Key: fmt.Sprintf("C17:decoded-curve-differs:%s:%s%s", fam, row.Stated, c17PreKey(row)), What: fmt.Sprintf("decoded point is tagged with another curve (%q) than the stated one — %s", c17NameOf(res), desc)}
		} else if bx == nil || by == nil || bx.Cmp(x) != 0 || by.Cmp(y) != 0 || bcurve != row.Stated {
			o.Finding = &c17Finding{Key: fmt.Sprintf("C17:reencoding-differs:%s:%s%s", fam, row.Stated, c17PreKey(row)), What: fmt.Sprintf("re-encoding what was decoded gives (%v,%v) on %q — %s", bx, by, bcurve, desc)}
		}
	}
	return o
}

// c17BuildCases concretises one catalogue row into n coordinate pairs (and, for rows with a history, the concrete
// history: previous content of the target, where the target sits, the intact point presented before).
func c17BuildCases(row c17Row, n int, rng *rand.Rand, pool map[string][]obs.Pt) []*c17DoorCase {
	base := c17Get(row.Base)
	stated := c17Get(row.Stated)
	var out []*c17DoorCase
	pick := func(i int) obs.Pt { return pool[base.name][(i+rng.Intn(4))%len(pool[base.name])] }
	var embeds []string
	if row.PreKind == "reuse" {
		embeds = c17JSONEmbeds
		if row.Door == "ECPoint.GobDecode" {
			embeds = c17GobEmbeds
		}
	}
	for i := 0; i < n; i++ {
		var p obs.Pt
		var u obs.Pt // the intact point the pair is built from
		variant := ""
		pair := c17XY{}
		form := 0
		under := func(i int) (obs.Pt, string) {
			switch {
			case i%4 == 0:
				return base.g.Gen(), "generator"
			case base.tors != nil && i%4 == 3:
				t := 1 + rng.Intn(7)
				return base.g.Add(pick(i), base.tors[t]), fmt.Sprintf("random+T%d", t)
			}
			return pick(i), "random"
		}
		// one pair is enough for the classes that have a single member, except where the instance number also selects
		// the list position (UnFlattenECPoints) or the place of the re-used target
		single := i > 0 && row.Door != "crypto.UnFlattenECPoints" && i >= len(embeds)
		switch row.Class {
		case "generator":
			p, variant = base.g.Gen(), "G"
			u = p
			if single {
				continue
			}
		case "random":
			p, variant = pick(i), "k*G"
			u = p
		case "identity":
			if base.tors != nil {
				p, variant = base.g.Identity(), "(0,1)"
				u = p
			} else {
				p, variant = obs.Pt{X: big.NewInt(0), Y: big.NewInt(0)}, "(0,0) stand-in"
				u = base.g.Gen()
			}
			if single {
				continue
			}
		case "torsion":
			p, variant = base.tors[i%8], fmt.Sprintf("T%d", i%8)
			u = p
		case "mixed":
			t := 1 + i%7
			p, variant = base.g.Add(pick(i), base.tors[t]), fmt.Sprintf("k*B+T%d", t)
			u = p
		case "perturbed_x", "perturbed_y":
			var uv string
			u, uv = under(i)
			d := big.NewInt(int64(1 - 2*(i%2)))
			p = obs.Pt{X: new(big.Int).Set(u.X), Y: new(big.Int).Set(u.Y)}
			if row.Class == "perturbed_x" {
				p.X.Add(p.X, d).Mod(p.X, base.p)
			} else {
				p.Y.Add(p.Y, d).Mod(p.Y, base.p)
			}
			variant = fmt.Sprintf("%s, coordinate %+d", uv, d.Int64())
		case "swapped":
			var uv string
			u, uv = under(i)
			p, variant = obs.Pt{X: u.Y, Y: u.X}, uv+" swapped"
		case "absent":
			var uv string
			u, uv = under(i)
			which := i % 3 // x, y, both missing
			form = (i / 3) % 3
			pair = c17FromPt(u)
			if which == 0 || which == 2 {
				pair.X = ""
			}
			if which == 1 || which == 2 {
				pair.Y = ""
			}
			variant = fmt.Sprintf("%s, %s missing", uv, []string{"x", "y", "x and y"}[which])
			if strings.HasPrefix(row.Door, "ECPoint.UnmarshalJSON") {
				spelt := "null"
				switch {
				case form == 1 && which == 1:
					spelt = "Coords has one element"
				case form == 1 && which == 2:
					spelt = "Coords is empty"
				case form == 2 && which == 2:
					spelt = "no Coords member"
				}
				variant += " (" + spelt + ")"
			}
		case "ge_p_alias", "ge_p_topbit", "ge_p_overlong":
			var uv string
			u, uv = under(i)
			which := i % 3 // x, y, both
			if row.Class == "ge_p_alias" && i%2 == 1 {
				// points with a coordinate so small that c + p keeps the byte length of the field
				u, uv = base.small[(i/2)%len(base.small)], "small-coordinate point"
				switch {
				case (i/2/len(base.small))%2 == 1:
					which = 2
				case u.X.Cmp(u.Y) < 0:
					which = 0
				default:
					which = 1
				}
			}
			lift := func(c *big.Int) *big.Int {
				switch row.Class {
				case "ge_p_alias":
					return new(big.Int).Add(c, base.p)
				case "ge_p_topbit":
					return new(big.Int).Add(c, base.topbit)
				}
				r := new(big.Int).Lsh(c, 8)
				return r.Add(r, big.NewInt(int64(rng.Intn(256))))
			}
			p = obs.Pt{X: new(big.Int).Set(u.X), Y: new(big.Int).Set(u.Y)}
			if which == 0 || which == 2 {
				p.X = lift(p.X)
			}
			if which == 1 || which == 2 {
				p.Y = lift(p.Y)
			}
			variant = fmt.Sprintf("%s, %s on %s", uv, map[string]string{"ge_p_alias": "c+p", "ge_p_topbit": "c+2^fieldbits", "ge_p_overlong": "c*256+r"}[row.Class], []string{"x", "y", "x and y"}[which])
			if row.Class == "ge_p_overlong" && p.X.Sign() == 0 && p.Y.Sign() == 0 {
				continue
			}
		default:
			continue
		}
		if row.Class != "absent" {
			pair = c17FromPt(p)
		}
		dc := &c17DoorCase{Row: row, Variant: variant, Pair: pair, Form: form}
		if row.Door == "crypto.UnFlattenECPoints" {
			ln := 1 + i%4
			dc.Pos = (i / 4) % ln
			if i%8 >= 4 {
				dc.Pos = ln - 1 // the last position as often as the others together
			}
			for j := 0; j < ln; j++ {
				if j == dc.Pos {
					dc.List = append(dc.List, dc.Pair)
				} else {
					dc.List = append(dc.List, c17FromPt(pool[stated.name][(i+j)%len(pool[stated.name])]))
				}
			}
		}
		switch row.PreKind {
		case "seen":
			if row.PreHow == "intact_point_own_curve" || row.PreHow == "intact_point_earlier_in_the_list" {
				v := c17FromPt(u)
				dc.Prev = &v
			}
			if row.PreHow == "intact_point_earlier_in_the_list" {
				// the intact point directly before the pair (it is a point of the stated curve iff base = stated; otherwise
				// the list is refused for two reasons, which is what the model expects anyway)
				l := append([]c17XY{}, dc.List[:dc.Pos]...)
				l = append(l, *dc.Prev)
				dc.List = append(l, dc.List[dc.Pos:]...)
				dc.Pos++
			}
		case "reuse":
			dc.Embed = embeds[i%len(embeds)]
			b := c17Get(row.PreCurve)
			if b == nil {
				continue
			}
			switch row.PreHow {
			case "setcurve":
			case "failed_json":
				q := pool[b.name][(i+3)%len(pool[b.name])]
				v := c17FromPt(obs.Pt{X: new(big.Int).Mod(new(big.Int).Add(q.X, big.NewInt(1)), b.p), Y: q.Y})
				dc.Prev = &v
			default:
				q := b.g.Gen()
				if i%3 != 0 {
					q = pool[b.name][(i+5)%len(pool[b.name])]
				}
				v := c17FromPt(q)
				dc.Prev = &v
			}
		}
		out = append(out, dc)
	}
	return out
}

// ---------------------------------------------------------------- walks (behaviours of Points.tla)

type c17Step struct {
	Op  string `json:"op"`
	Arg []int  `json:"arg"`
	Pre []int  `json:"pre"`
	Res []int  `json:"res"`
	Deg bool   `json:"deg"`
}

type c17Walk struct {
	Curve string    `json:"curve"`
	R     string    `json:"r"` // decimal: P0 = r*B
	Steps []c17Step `json:"steps"`
}

type c17WalkStats struct {
	Steps, Degenerate, Torsion, BigScalar int
	DegBehaviour                          map[string]int
	Ops                                   map[string]int
}

func (c *c17Curve) conc(e []int, p0 obs.Pt) obs.Pt {
	r := obs.Mul(c.g, big.NewInt(int64(e[1])), c.g.Gen())
	r = c.g.Add(r, obs.Mul(c.g, big.NewInt(int64(e[2])), p0))
	if c.tors != nil {
		r = c.g.Add(r, c.tors[e[0]])
	}
	return r
}

func (c *c17Curve) scalar(k []int) *big.Int {
	v := new(big.Int).Mul(big.NewInt(int64(k[1])), c.g.Order())
	return v.Add(v, big.NewInt(int64(k[0])))
}

// c17WalkEval replays one behaviour on crypto.ECPoint. It returns the index of the failing step and a finding, or -1.
func c17WalkEval(w *c17Walk, st *c17WalkStats) (int, *c17Finding) {
	c := c17Get(w.Curve)
	if c == nil {
		return 0, &c17Finding{Inconcl: true, What: "unknown curve in walk"}
	}
	r, ok := new(big.Int).SetString(w.R, 10)
	if !ok || r.Sign() <= 0 {
		return 0, &c17Finding{Inconcl: true, What: "bad r in walk"}
	}
	p0 := obs.BaseMul(c.g, r)
	g := c.g.Gen()
	cur, err := crypto.NewECPoint(c.ec, g.X, g.Y)
	if err != nil {
		return 0, &c17Finding{Key: fmt.Sprintf("C17:refuses-valid-point:crypto.NewECPoint:%s:generator", c.name), What: "the base point was refused by NewECPoint"}
	}
	load := func(e []int) (*crypto.ECPoint, obs.Pt, string) {
		q := c.conc(e, p0)
		if q.Inf {
			return nil, q, "identity"
		}
		p, err, pan := c17Call(func() (*crypto.ECPoint, error) { return crypto.NewECPoint(c.ec, q.X, q.Y) })
		if p == nil {
			return nil, q, fmt.Sprintf("err=%v panic=%q", err, pan)
		}
		return p, q, ""
	}
	for i, s := range w.Steps {
		if len(s.Pre) != 3 || len(s.Res) != 3 {
			return i, &c17Finding{Inconcl: true, What: "malformed step"}
		}
		pre := c.conc(s.Pre, p0)
		if !c17Same(cur, pre) {
			return i, &c17Finding{Inconcl: true, What: "harness lost track of the current point"}
		}
		want := c.conc(s.Res, p0)
		var indep obs.Pt // the same operation by the independent arithmetic on the concrete operands
		var got *crypto.ECPoint
		var gerr error
		var pan string
		class := "prime-order"
		if s.Pre[0] != 0 {
			class = "with-small-order-component"
		}
		switch s.Op {
		case "Load", "Add":
			if len(s.Arg) != 3 {
				return i, &c17Finding{Inconcl: true, What: "malformed operand"}
			}
			op, q, why := load(s.Arg)
			if op == nil {
				return i, &c17Finding{Key: fmt.Sprintf("C17:refuses-valid-point:crypto.NewECPoint:%s:walk-operand", c.name),
					What: fmt.Sprintf("NewECPoint refused the on-curve operand %v = %s (%s)", s.Arg, q, why)}
			}
			if s.Arg[0] != 0 {
				class = "with-small-order-component"
			}
			if s.Op == "Load" {
				got, indep = op, q
			} else {
				indep = c.g.Add(pre, q)
				got, gerr, pan = c17Call(func() (*crypto.ECPoint, error) { return cur.Add(op) })
			}
		case "Dbl":
			indep = c.g.Add(pre, pre)
			got, gerr, pan = c17Call(func() (*crypto.ECPoint, error) { return cur.Add(cur) })
		case "Mul", "Base":
			if len(s.Arg) != 2 {
				return i, &c17Finding{Inconcl: true, What: "malformed scalar"}
			}
			k := c.scalar(s.Arg)
			if k.Sign() < 0 {
				return i, &c17Finding{Inconcl: true, What: "negative scalar in behaviour"}
			}
			if s.Arg[1] > 0 {
				class += ",k>=order"
				st.BigScalar++
			} else {
				class += ",k<order"
			}
			if s.Op == "Mul" {
				indep = obs.Mul(c.g, k, pre)
				got, gerr, pan = c17Call(func() (*crypto.ECPoint, error) { return cur.ScalarMult(k), nil })
			} else {
				indep = obs.BaseMul(c.g, k)
				got, gerr, pan = c17Call(func() (*crypto.ECPoint, error) { return crypto.ScalarBaseMult(c.ec, k), nil })
			}
		case "E8":
			inv := new(big.Int).ModInverse(big.NewInt(8), c.g.Order())
			indep = obs.Mul(c.g, inv, obs.Mul(c.g, big.NewInt(8), pre))
			got, gerr, pan = c17Call(func() (*crypto.ECPoint, error) { return cur.EightInvEight(), nil })
		default:
			return i, &c17Finding{Inconcl: true, What: "unknown operation " + s.Op}
		}
		st.Steps++
		st.Ops[s.Op]++
		if s.Pre[0] != 0 || (len(s.Arg) == 3 && s.Arg[0] != 0) {
			st.Torsion++
		}
		// model and independent arithmetic must agree before the library is judged
		if s.Deg != indep.Inf || (!s.Deg && !indep.Eq(want)) {
			return i, &c17Finding{Inconcl: true, What: fmt.Sprintf("step %d %s%v: model predicts %v (deg=%v) = %s but the independent arithmetic computes %s", i, s.Op, s.Arg, s.Res, s.Deg, want, indep)}
		}
		if s.Deg {
			// the result is the neutral element, which an ECPoint of this curve cannot hold: recorded, not judged
			st.Degenerate++
			switch {
			case pan != "":
				st.DegBehaviour[s.Op+":panic"]++
			case gerr != nil:
				st.DegBehaviour[s.Op+":error"]++
			default:
				st.DegBehaviour[s.Op+":returned-a-value"]++
			}
			continue
		}
		if got == nil {
			why := fmt.Sprint(gerr)
			if pan != "" {
				why = "panic: " + pan
			}
			return i, &c17Finding{Key: fmt.Sprintf("C17:arith:%s:%s:%s:no-result", c.name, s.Op, class),
				What: fmt.Sprintf("%s: step %d %s%v on %v yields no point (%s); the independent implementation gives %s", c.name, i, s.Op, s.Arg, s.Pre, core.Short(why, 100), want)}
		}
		if !c17Same(got, want) {
			return i, &c17Finding{Key: fmt.Sprintf("C17:arith:%s:%s:%s", c.name, s.Op, class),
				What: fmt.Sprintf("%s: step %d %s%v on %v = %s: library returns (%x,%x), model and independent implementation give %v = %s", c.name, i, s.Op, s.Arg, s.Pre, pre, got.X(), got.Y(), s.Res, want)}
		}
		if !tss.SameCurve(got.Curve(), c.ec) {
			return i, &c17Finding{Key: fmt.Sprintf("C17:arith:%s:%s:curve-tag", c.name, s.Op), What: "result is tagged with another curve"}
		}
		cur = got
	}
	return -1, nil
}

// ---------------------------------------------------------------- direct differential cases

type c17Arith struct {
	Curve string `json:"curve"`
	Op    string `json:"op"` // mul | basemul | add | laws | cofactor | roundtrip
	P     c17XY  `json:"p"`
	Q     c17XY  `json:"q"`
	R     c17XY  `json:"r"`
	K     string `json:"k"`  // decimal
	K2    string `json:"k2"` // decimal
	Class string `json:"class"`
}

func c17Lib(c *c17Curve, p obs.Pt) *crypto.ECPoint {
	q, _ := crypto.NewECPoint(c.ec, p.X, p.Y)
	return q
}

func c17PtOf(v c17XY) (obs.Pt, bool) {
	x, y, ok := v.ints()
	return obs.Pt{X: x, Y: y}, ok
}

// c17ArithEval: library against the independent implementation on concrete points / scalars, group laws on the
// library alone, the cofactor map, and encode/decode round trips of library points.
func c17ArithEval(a *c17Arith) *c17Finding {
	c := c17Get(a.Curve)
	if c == nil {
		return &c17Finding{Inconcl: true, What: "unknown curve"}
	}
	P, ok1 := c17PtOf(a.P)
	k, ok2 := new(big.Int).SetString(a.K, 10)
	if !ok1 || !ok2 {
		return &c17Finding{Inconcl: true, What: "bad arith scenario"}
	}
	lp := c17Lib(c, P)
	if lp == nil {
		return &c17Finding{Key: fmt.Sprintf("C17:refuses-valid-point:crypto.NewECPoint:%s:random", c.name), What: "NewECPoint refused the on-curve point " + P.String()}
	}
	key := func(op string) string { return fmt.Sprintf("C17:arith:%s:%s:%s", c.name, op, a.Class) }
	cmp := func(op string, got *crypto.ECPoint, gerr error, pan string, want obs.Pt, what string) *c17Finding {
		if want.Inf {
			return nil // neutral element: unrepresentable, not judged
		}
		if got == nil {
			return &c17Finding{Key: key(op) + ":no-result", What: fmt.Sprintf("%s: %s yields no point (err=%v panic=%q); independent implementation: %s", c.name, what, gerr, pan, want)}
		}
		if !c17Same(got, want) {
			return &c17Finding{Key: key(op), What: fmt.Sprintf("%s: %s: library (%x,%x), independent implementation %s", c.name, what, got.X(), got.Y(), want)}
		}
		return nil
	}
	switch a.Op {
	case "mul":
		got, gerr, pan := c17Call(func() (*crypto.ECPoint, error) { return lp.ScalarMult(k), nil })
		return cmp("Mul", got, gerr, pan, obs.Mul(c.g, k, P), fmt.Sprintf("ScalarMult(%s) of %s", k, P))
	case "basemul":
		got, gerr, pan := c17Call(func() (*crypto.ECPoint, error) { return crypto.ScalarBaseMult(c.ec, k), nil })
		return cmp("Base", got, gerr, pan, obs.BaseMul(c.g, k), fmt.Sprintf("ScalarBaseMult(%s)", k))
	case "add":
		Q, ok := c17PtOf(a.Q)
		lq := c17Lib(c, Q)
		if !ok || lq == nil {
			return &c17Finding{Inconcl: true, What: "bad second operand"}
		}
		got, gerr, pan := c17Call(func() (*crypto.ECPoint, error) { return lp.Add(lq) })
		if f := cmp("Add", got, gerr, pan, c.g.Add(P, Q), fmt.Sprintf("%s + %s", P, Q)); f != nil {
			return f
		}
		got2, gerr2, pan2 := c17Call(func() (*crypto.ECPoint, error) { return lq.Add(lp) })
		return cmp("Add", got2, gerr2, pan2, c.g.Add(P, Q), fmt.Sprintf("%s + %s (commuted)", Q, P))
	case "laws":
		// group laws evaluated on the library alone (whenever every intermediate value is representable)
		Q, okq := c17PtOf(a.Q)
		R, okr := c17PtOf(a.R)
		k2, okk := new(big.Int).SetString(a.K2, 10)
		lq, lr := c17Lib(c, Q), c17Lib(c, R)
		if !okq || !okr || !okk || lq == nil || lr == nil {
			return &c17Finding{Inconcl: true, What: "bad laws scenario"}
		}
		add := func(x, y *crypto.ECPoint) *crypto.ECPoint {
			if x == nil || y == nil {
				return nil
			}
			r, _, _ := c17Call(func() (*crypto.ECPoint, error) { return x.Add(y) })
			return r
		}
		mul := func(s *big.Int, x *crypto.ECPoint) *crypto.ECPoint {
			if x == nil {
				return nil
			}
			r, _, _ := c17Call(func() (*crypto.ECPoint, error) { return x.ScalarMult(s), nil })
			return r
		}
		law := func(name string, l, r *crypto.ECPoint) *c17Finding {
			if l == nil || r == nil {
				return nil // an intermediate value was the neutral element
			}
			if !l.Equals(r) {
				return &c17Finding{Key: key("law-" + name), What: fmt.Sprintf("%s: law %s fails for P=%s Q=%s R=%s k=%s k2=%s: (%x,%x) vs (%x,%x)", c.name, name, P, Q, R, k, k2, l.X(), l.Y(), r.X(), r.Y())}
			}
			return nil
		}
		checks := []*c17Finding{
			law("associativity", add(add(lp, lq), lr), add(lp, add(lq, lr))),
			law("commutativity", add(lp, lq), add(lq, lp)),
			law("k(P+Q)=kP+kQ", mul(k, add(lp, lq)), add(mul(k, lp), mul(k, lq))),
			law("(k+k2)P=kP+k2P", mul(new(big.Int).Add(k, k2), lp), add(mul(k, lp), mul(k2, lp))),
			law("k(k2 P)=(k k2)P", mul(k, mul(k2, lp)), mul(new(big.Int).Mul(k, k2), lp)),
			law("2P=P+P", mul(big.NewInt(2), lp), add(lp, lp)),
		}
		for _, f := range checks {
			if f != nil {
				return f
			}
		}
		return nil
	case "cofactor":
		// P = S + T with S of prime order (given as Q) and T of small order: EightInvEight(P) = S, EightInvEight(S) = S
		S, ok := c17PtOf(a.Q)
		ls := c17Lib(c, S)
		if !ok || ls == nil || c.tors == nil {
			return &c17Finding{Inconcl: true, What: "bad cofactor scenario"}
		}
		if !obs.Mul(c.g, c.g.Order(), S).Eq(c.g.Identity()) {
			return &c17Finding{Inconcl: true, What: "cofactor scenario: S is not of prime order"}
		}
		got, gerr, pan := c17Call(func() (*crypto.ECPoint, error) { return lp.EightInvEight(), nil })
		if got == nil || !c17Same(got, S) {
			return &c17Finding{Key: fmt.Sprintf("C17:cofactor-map:%s:small-order-component-not-removed", c.name),
				What: fmt.Sprintf("EightInvEight(S+T) != S for S=%s, S+T=%s: got %v (err=%v panic=%q)", S, P, c17Desc(got), gerr, pan)}
		}
		got2, gerr2, pan2 := c17Call(func() (*crypto.ECPoint, error) { return ls.EightInvEight(), nil })
		if got2 == nil || !c17Same(got2, S) {
			return &c17Finding{Key: fmt.Sprintf("C17:cofactor-map:%s:prime-order-point-changed", c.name),
				What: fmt.Sprintf("EightInvEight(S) != S for the prime-order point S=%s: got %v (err=%v panic=%q)", S, c17Desc(got2), gerr2, pan2)}
		}
		return nil
	case "roundtrip":
		return c17RoundTrip(c, lp, a)
	}
	return &c17Finding{Inconcl: true, What: "unknown arith op " + a.Op}
}

func c17Desc(p *crypto.ECPoint) string {
	if p == nil {
		return "nil"
	}
	return fmt.Sprintf("(%x,%x)", p.X(), p.Y())
}

// c17RoundTrip: Flatten/UnFlatten, JSON and Gob of a library point give back the same point on the same curve.
// The default curve is set to the OTHER curve for Flatten and JSON (they must not depend on it) and to the point's curve
// for Gob (whose encoding has no curve member: the default curve is the stated one).
func c17RoundTrip(c *c17Curve, lp *crypto.ECPoint, a *c17Arith) *c17Finding {
	defer c17SetGlobal(string(tss.Secp256k1))
	c17SetGlobal(c.other().name)
	fail := func(enc, what string) *c17Finding {
		return &c17Finding{Key: fmt.Sprintf("C17:roundtrip:%s:%s", enc, c.name), What: fmt.Sprintf("%s round trip of (%s,%s) on %s: %s", enc, a.P.X, a.P.Y, c.name, what)}
	}
	same := func(q *crypto.ECPoint) string {
		switch {
		case q == nil:
			return "nothing came back"
		case !q.Equals(lp):
			return "a different point came back: " + c17Desc(q)
		case !tss.SameCurve(q.Curve(), c.ec):
			return "the point came back on another curve"
		}
		return ""
	}
	Q, ok := c17PtOf(a.Q)
	lq := c17Lib(c, Q)
	if !ok || lq == nil {
		return &c17Finding{Inconcl: true, What: "bad round trip scenario"}
	}
	flat, err := crypto.FlattenECPoints([]*crypto.ECPoint{lp, lq, lp})
	if err != nil || len(flat) != 6 {
		return fail("Flatten", fmt.Sprintf("FlattenECPoints failed: %v", err))
	}
	un, err := crypto.UnFlattenECPoints(c.ec, flat)
	if err != nil || len(un) != 3 {
		return fail("Flatten", fmt.Sprintf("UnFlattenECPoints failed: %v", err))
	}
	if s := same(un[0]); s != "" {
		return fail("Flatten", s)
	}
	if !un[1].Equals(lq) || !un[2].Equals(lp) {
		return fail("Flatten", "order of the points changed")
	}
	js, err := json.Marshal(lp)
	if err != nil {
		return fail("JSON", fmt.Sprintf("Marshal failed: %v", err))
	}
	var back crypto.ECPoint
	if err := json.Unmarshal(js, &back); err != nil {
		return fail("JSON", fmt.Sprintf("Unmarshal of the library's own encoding failed: %v", err))
	}
	if s := same(&back); s != "" {
		return fail("JSON", s)
	}
	js2, err := json.Marshal(&back)
	if err != nil || !bytes.Equal(js, js2) {
		return fail("JSON", "re-encoding differs")
	}
	c17SetGlobal(c.name)
	var wire bytes.Buffer
	if err := gob.NewEncoder(&wire).Encode(lp); err != nil {
		return fail("Gob", fmt.Sprintf("Encode failed: %v", err))
	}
	raw := append([]byte(nil), wire.Bytes()...)
	var gb crypto.ECPoint
	if err := gob.NewDecoder(bytes.NewReader(raw)).Decode(&gb); err != nil {
		return fail("Gob", fmt.Sprintf("Decode of the library's own encoding failed: %v", err))
	}
	if s := same(&gb); s != "" {
		return fail("Gob", s)
	}
	var again bytes.Buffer
	if err := gob.NewEncoder(&again).Encode(&gb); err != nil || !bytes.Equal(again.Bytes(), raw) {
		return fail("Gob", "re-encoding differs")
	}
	return nil
}

// ---------------------------------------------------------------- TLC runs

var c17C0s = "{-1, 0, 1, 2, 3, 5}"

func c17PointsRun(curve string, l, l2 int, coefs string, gen bool, maxLen, num int, seed int64, workers int, timeout time.Duration) tlc.Result {
	wrap := fmt.Sprintf("---- MODULE MC_Points ----\nEXTENDS Points\nC0sVal == %s\nC1sVal == {0, 1, 2}\nCoefsVal == %s\n====\n", c17C0s, coefs)
	cfg := fmt.Sprintf("SPECIFICATION Spec\nCONSTANTS\n  Curve = %q\n  L = %d\n  L2 = %d\n  C0s <- C0sVal\n  C1s <- C1sVal\n  Coefs <- CoefsVal\n  MaxLen = %d\n", curve, l, l2, maxLen)
	o := tlc.Options{Module: "MC_Points", Workers: workers, Heap: "2g", Timeout: timeout, Files: map[string]string{"MC_Points.tla": wrap}}
	if gen {
		cfg += "  Record = TRUE\n  RequireExact = TRUE\nINVARIANTS Emit\nCHECK_DEADLOCK FALSE\n"
		o.Workers = 1
		o.Args = []string{"-simulate", fmt.Sprintf("num=%d", num), "-depth", strconv.Itoa(2*maxLen + 2), "-seed", strconv.FormatInt(seed, 10)}
	} else {
		cfg += "  Record = FALSE\n  RequireExact = FALSE\nINVARIANTS TypeOK GroupLaws ScalarLaws CofactorMap ExactIsSizeIndependent DegenerateSteps\nVIEW View\nCHECK_DEADLOCK FALSE\n"
	}
	o.Cfg = cfg
	return tlc.Run(o)
}

// c17Printed extracts the JSON payloads of lines <<"TAG", "...">> printed by TLC.
func c17Printed(out, tag string) ([]string, error) {
	var res []string
	prefix := fmt.Sprintf("<<%q, ", tag)
	for _, line := range strings.Split(out, "\n") {
		line = strings.TrimSpace(line)
		if !strings.HasPrefix(line, prefix) || !strings.HasSuffix(line, ">>") {
			continue
		}
		s, err := strconv.Unquote(line[len(prefix) : len(line)-2])
		if err != nil {
			return nil, fmt.Errorf("cannot unquote TLC output line %q: %v", core.Short(line, 80), err)
		}
		res = append(res, s)
	}
	return res, nil
}

// ---------------------------------------------------------------- the check

func c17Report(ctx *core.Ctx, f *c17Finding, sc c17Scenario) error {
	if f == nil {
		return nil
	}
	if f.Inconcl {
		return core.Inconcl("C17 machinery: %s", f.What)
	}
	ctx.Report(f.Key, f.What, sc)
	return nil
}

func c17Replay(ctx *core.Ctx) error {
	var sc c17Scenario
	if _, err := core.LoadReplay(ctx.Replay, &sc); err != nil {
		return core.Inconcl("cannot load replay: %v", err)
	}
	defer c17SetGlobal(string(tss.Secp256k1))
	var f *c17Finding
	switch {
	case sc.Kind == "door" && sc.Door != nil:
		f = c17DoorEval(sc.Door).Finding
	case sc.Kind == "walk" && sc.Walk != nil:
		st := &c17WalkStats{DegBehaviour: map[string]int{}, Ops: map[string]int{}}
		_, f = c17WalkEval(sc.Walk, st)
	case sc.Kind == "arith" && sc.Arith != nil:
		f = c17ArithEval(sc.Arith)
	default:
		return core.Inconcl("replay file has no C17 scenario")
	}
	if f == nil {
		fmt.Println("replay: the scenario no longer contradicts the property")
		return nil
	}
	return c17Report(ctx, f, sc)
}

func C17(ctx *core.Ctx) error {
	if ctx.Replay != "" {
		return c17Replay(ctx)
	}
	cov := core.NewCov()
	defer c17SetGlobal(string(tss.Secp256k1))
	phases := map[string]float64{}
	t0 := time.Now()
	lap := func(name string) { phases[name] = time.Since(t0).Seconds(); t0 = time.Now() }
	edName, secName := string(tss.Ed25519), string(tss.Secp256k1)
	// the two curves must not share the points the harness draws, and every torsion point must be what it claims
	ed, sec := c17Get(edName), c17Get(secName)
	for i, t := range ed.tors {
		if !ed.g.OnCurve(t) || !obs.Mul(ed.g, big.NewInt(8), t).Eq(ed.g.Identity()) || (i > 0 && t.Eq(ed.g.Identity())) {
			return core.Inconcl("torsion table of the independent arithmetic is wrong at %d", i)
		}
	}
	if len(sec.small) == 0 {
		return core.Inconcl("no small-coordinate secp256k1 point found")
	}

	// ---- TLC: exhaustive design runs, the door catalogue, behaviour generation (all concurrently)
	type mcSpec struct {
		curve   string
		l, l2   int
		coefs   string
		workers int
	}
	// the whole group is reachable with any operand set that contains B and P0; larger sets only widen the quantifiers of the laws
	mcs := []mcSpec{{edName, 13, 29, "{0, 1}", 4}, {secName, 11, 13, "{-2, -1, 0, 1, 2}", 2}}
	if ctx.Thorough() {
		mcs = []mcSpec{{edName, 13, 29, "{-1, 0, 1}", 5}, {edName, 29, 37, "{0, 1}", 4}, {secName, 11, 13, "{-2, -1, 0, 1, 2}", 2}, {secName, 31, 37, "{-2, -1, 0, 1, 2}", 3}}
	}
	mcRes := make([]tlc.Result, len(mcs))
	walkLen := 25
	nWalks := ctx.Pick(40, 1000) // per curve
	perRun := ctx.Pick(40, 250)
	type genSpec struct {
		curve string
		num   int
		seed  int64
	}
	var gens []genSpec
	for ci, cn := range []string{edName, secName} {
		for left, j := nWalks, 0; left > 0; left, j = left-perRun, j+1 {
			n := perRun
			if left < n {
				n = left
			}
			gens = append(gens, genSpec{cn, n, ctx.Seed*1000 + int64(ci*100+j) + 1})
		}
	}
	genRes := make([]tlc.Result, len(gens))
	var doorRes tlc.Result
	var wg sync.WaitGroup
	sem := make(chan struct{}, ctx.Pick(5, 7))
	run := func(f func()) {
		wg.Add(1)
		go func() { defer wg.Done(); sem <- struct{}{}; defer func() { <-sem }(); f() }()
	}
	run(func() {
		doorRes = tlc.Run(tlc.Options{Module: "PointDoors", Workers: 1, Heap: "1g", Timeout: 10 * time.Minute,
			Cfg: "SPECIFICATION Spec\nINVARIANTS TypeOK NothingOffCurveGetsIn IntactPointsGetIn HistoryIndependent SmallOrderPointsGetIn RoundTrip EmitRow\nCHECK_DEADLOCK FALSE\n"})
	})
	for i := range gens {
		i := i
		run(func() {
			genRes[i] = c17PointsRun(gens[i].curve, 1021, 1061, "{-1, 0, 1}", true, walkLen, gens[i].num, gens[i].seed, 1, 30*time.Minute)
		})
	}
	for i := range mcs {
		i := i
		run(func() {
			mcRes[i] = c17PointsRun(mcs[i].curve, mcs[i].l, mcs[i].l2, mcs[i].coefs, false, 0, 0, 0, mcs[i].workers, 30*time.Minute)
		})
	}

	// ---- meanwhile: direct differential cases (library vs independent implementation, laws, cofactor map, round trips)
	rng := rand.New(rand.NewSource(ctx.Seed))
	pool := map[string][]obs.Pt{}
	for _, c := range []*c17Curve{ed, sec} {
		for i := 0; i < 12; i++ {
			pool[c.name] = append(pool[c.name], c.randPoint(rng))
		}
	}
	var inconcl error
	var imu sync.Mutex
	note := func(err error) {
		if err != nil {
			imu.Lock()
			if inconcl == nil {
				inconcl = err
			}
			imu.Unlock()
		}
	}
	var ariths []*c17Arith
	nArith := ctx.Pick(6, 60)
	for _, c := range []*c17Curve{ed, sec} {
		q := c.g.Order()
		big512 := new(big.Int).Rand(rng, new(big.Int).Lsh(big.NewInt(1), 512))
		scalars := map[string]*big.Int{
			"k=1": big.NewInt(1), "k=2": big.NewInt(2), "k=order-1": new(big.Int).Sub(q, big.NewInt(1)), "k=order": new(big.Int).Set(q),
			"k=order+1": new(big.Int).Add(q, big.NewInt(1)), "k=2*order+3": new(big.Int).Add(new(big.Int).Lsh(q, 1), big.NewInt(3)),
			"k=8*order+1": new(big.Int).Add(new(big.Int).Lsh(q, 3), big.NewInt(1)),
			"k=512-bit":   big512, "k=2^256-1": new(big.Int).Sub(new(big.Int).Lsh(big.NewInt(1), 256), big.NewInt(1)),
			"k=2^255": new(big.Int).Lsh(big.NewInt(1), 255),
		}
		var names []string
		for n := range scalars {
			names = append(names, n)
		}
		sort.Strings(names)
		pointOf := func(i int) (obs.Pt, string) {
			p := c.randPoint(rng)
			if c.tors != nil && i%2 == 1 {
				t := 1 + rng.Intn(7)
				return c.g.Add(p, c.tors[t]), "with-small-order-component"
			}
			return p, "prime-order"
		}
		for i := 0; i < nArith; i++ {
			for _, n := range names {
				if !ctx.Thorough() && i > 1 && n != "k=order-1" && n != "k=2*order+3" {
					continue
				}
				P, cl := pointOf(i)
				ariths = append(ariths, &c17Arith{Curve: c.name, Op: "mul", P: c17FromPt(P), K: scalars[n].String(), Class: cl + "," + n})
				ariths = append(ariths, &c17Arith{Curve: c.name, Op: "basemul", P: c17FromPt(c.g.Gen()), K: scalars[n].String(), Class: n})
			}
			for j := 0; j < 3; j++ {
				kr := new(big.Int).Rand(rng, q)
				P, cl := pointOf(i + j)
				ariths = append(ariths, &c17Arith{Curve: c.name, Op: "mul", P: c17FromPt(P), K: kr.String(), Class: cl + ",k=random"})
				ariths = append(ariths, &c17Arith{Curve: c.name, Op: "basemul", P: c17FromPt(c.g.Gen()), K: kr.String(), Class: "k=random"})
				Q, cl2 := pointOf(i + j + 1)
				ariths = append(ariths, &c17Arith{Curve: c.name, Op: "add", P: c17FromPt(P), Q: c17FromPt(Q), K: "0", Class: cl + "+" + cl2})
				ariths = append(ariths, &c17Arith{Curve: c.name, Op: "add", P: c17FromPt(P), Q: c17FromPt(P), K: "0", Class: cl + ",doubling"})
				R, _ := pointOf(i)
				k2 := scalars[names[(i+j)%len(names)]]
				ariths = append(ariths, &c17Arith{Curve: c.name, Op: "laws", P: c17FromPt(P), Q: c17FromPt(Q), R: c17FromPt(R), K: kr.String(), K2: k2.String(), Class: cl})
				ariths = append(ariths, &c17Arith{Curve: c.name, Op: "roundtrip", P: c17FromPt(P), Q: c17FromPt(Q), K: "0", Class: cl})
			}
			if c.tors != nil {
				for t := 0; t < 8; t++ {
					S := c.randPoint(rng)
					ariths = append(ariths, &c17Arith{Curve: c.name, Op: "cofactor", P: c17FromPt(c.g.Add(S, c.tors[t])), Q: c17FromPt(S), K: "0", Class: fmt.Sprintf("T%d", t)})
				}
			}
		}
		// the small-order points alone: EightInvEight maps them to the neutral element
		if c.tors != nil {
			for t := 0; t < 8; t++ {
				ariths = append(ariths, &c17Arith{Curve: c.name, Op: "cofactor", P: c17FromPt(c.tors[t]), Q: c17FromPt(c.g.Identity()), K: "0", Class: fmt.Sprintf("T%d alone", t)})
			}
		}
	}
	// round trips switch the default curve: they run sequentially, before the door table; everything else in parallel
	arithCount := map[string]int{}
	{
		var awg sync.WaitGroup
		asem := make(chan struct{}, 6)
		for _, a := range ariths {
			arithCount[a.Op]++
			cov.Case("arith|"+a.Curve+"|"+a.Op+"|"+a.Class+"|"+core.Short(a.P.X, 12)+core.Short(a.K, 12), a.Op != "basemul" || a.K != "1")
			if a.Op == "roundtrip" {
				continue
			}
			a := a
			awg.Add(1)
			go func() {
				defer awg.Done()
				asem <- struct{}{}
				defer func() { <-asem }()
				note(c17Report(ctx, c17ArithEval(a), c17Scenario{Kind: "arith", Arith: a}))
			}()
		}
		awg.Wait()
		for _, a := range ariths {
			if a.Op == "roundtrip" {
				note(c17Report(ctx, c17ArithEval(a), c17Scenario{Kind: "arith", Arith: a}))
			}
		}
	}
	for _, a := range ariths[:3] {
		cov.Sample(map[string]any{"kind": "arith", "case": a}, 12)
	}

	lap("direct_cases")
	wg.Wait()
	lap("waiting_for_tlc")
	if inconcl != nil {
		return inconcl
	}
	// ---- TLC verdicts
	for i, r := range mcRes {
		if r.Err != nil {
			return core.Inconcl("Points.tla (%s, L=%d): %v", mcs[i].curve, mcs[i].l, r.Err)
		}
		if !r.OK {
			return core.Inconcl("Points.tla (%s, L=%d) violates %s (a problem of the model, not of the code):\n%s", mcs[i].curve, mcs[i].l, r.Violated, r.ErrorTrace(1500))
		}
		cov.AddMC(r.Distinct, r.Generated)
	}
	if doorRes.Err != nil {
		return core.Inconcl("PointDoors.tla: %v", doorRes.Err)
	}
	if !doorRes.OK {
		return core.Inconcl("PointDoors.tla violates %s (a problem of the model):\n%s", doorRes.Violated, doorRes.ErrorTrace(1500))
	}
	cov.AddMC(doorRes.Distinct, doorRes.Generated)

	// ---- the door table on the real doors
	rowsJSON, err := c17Printed(doorRes.Output, "ROW")
	if err != nil {
		return core.Inconcl("%v", err)
	}
	seenRow := map[string]bool{}
	var rows []c17Row
	for _, s := range rowsJSON {
		var r c17Row
		if err := json.Unmarshal([]byte(s), &r); err != nil {
			return core.Inconcl("catalogue row does not parse: %v", err)
		}
		if r.StatedBy == "global" {
			r.Claim = r.Global // the claim is not part of such an encoding
		}
		k := fmt.Sprintf("%+v", r)
		if !seenRow[k] {
			seenRow[k] = true
			rows = append(rows, r)
		}
	}
	preRows := map[string]int{}
	for _, r := range rows {
		preRows[r.PreKind]++
	}
	if len(rows) < 3000 || preRows["fresh"] < 500 || preRows["seen"] < 1000 || preRows["reuse"] < 1000 {
		return core.Inconcl("door catalogue has only %d rows (%v)", len(rows), preRows)
	}
	sort.Slice(rows, func(i, j int) bool {
		a, b := rows[i], rows[j]
		if a.Global != b.Global {
			return a.Global > b.Global // secp256k1 (the library default) first
		}
		if a.Door != b.Door {
			return a.Door < b.Door
		}
		return fmt.Sprintf("%+v", a) < fmt.Sprintf("%+v", b)
	})
	perRow := ctx.Pick(8, 48)
	doorStats := map[string]int{}
	offAccepted := map[string]int{}
	offDoors := map[string]bool{}
	drift := map[string]bool{}
	doorCases, doorPanics := 0, 0
	preCases := map[string]int{}
	var doorInconcl error
	reusedSeen := map[string]int{}
	for _, row := range rows {
		for _, dc := range c17BuildCases(row, perRow, rng, pool) {
			o := c17DoorEval(dc)
			doorCases++
			if o.Panicked != "" {
				doorPanics++
			}
			verdict := "refused"
			if o.Accepted {
				verdict = "accepted"
			}
			doorStats[row.Expect+"->"+verdict]++
			pre := row.PreKind
			if pre != "fresh" {
				pre += ":" + row.PreHow
			}
			if row.PreKind == "reuse" {
				pre += ":" + dc.Embed
			}
			preCases[pre]++
			if o.Reused != "" {
				reusedSeen[row.Door+" | "+dc.Embed+" | decoded into the prepared object: "+o.Reused]++
			}
			cov.Case(fmt.Sprintf("door|%s|%s|%s|%s|%s|%s|%d|%d|%s|%s|%s|%s", row.Door, row.Global, row.Stated, row.Base, row.Class, dc.Variant, len(dc.List), dc.Pos,
				row.PreKind, row.PreHow, row.PreCurve, dc.Embed), true)
			if o.Drift != "" {
				drift[o.Drift] = true
			}
			if o.Finding != nil {
				if !o.Finding.Inconcl && row.Expect == "reject" {
					how := dc.Variant
					if i := strings.LastIndex(how, ", "); i >= 0 && strings.HasPrefix(row.Class, "ge_p_") {
						how = how[i+2:]
					}
					offAccepted[fmt.Sprintf("%s | %s | %s | %s", c17DoorFamily(row.Door), row.Stated, row.Class, how)]++
					offDoors[row.Door+" | "+row.Stated] = true
				}
				if err := c17Report(ctx, o.Finding, c17Scenario{Kind: "door", Door: dc}); err != nil && doorInconcl == nil {
					// machinery trouble in one case: the table is finished first; it decides the run only if the real doors
					// have not contradicted the property anywhere (a changed library can derail the preparation of a history)
					doorInconcl = err
				}
			}
			if doorCases%97 == 1 {
				cov.Sample(map[string]any{"kind": "door", "door": row.Door, "stated": row.Stated, "default_curve": row.Global, "class": row.Base + "/" + row.Class,
					"pre_state": strings.TrimRight(row.PreKind+":"+row.PreHow+":"+row.PreCurve+":"+dc.Embed, ":-"),
					"variant":   dc.Variant, "x": core.Short(dc.Pair.X, 40), "y": core.Short(dc.Pair.Y, 40), "model_expects": row.Expect, "library": verdict}, 12)
			}
		}
	}
	c17SetGlobal(secName)
	lap("door_table")
	if doorInconcl == nil {
		// the binding of the re-use rows is real only if encoding/json and encoding/gob did decode into the prepared objects
		for _, door := range []string{"ECPoint.UnmarshalJSON", "ECPoint.UnmarshalJSON(no Curve member)", "ECPoint.GobDecode"} {
			embeds := c17JSONEmbeds
			if door == "ECPoint.GobDecode" {
				embeds = c17GobEmbeds
			}
			for _, e := range embeds {
				if reusedSeen[door+" | "+e+" | decoded into the prepared object: yes"] == 0 || reusedSeen[door+" | "+e+" | decoded into the prepared object: no"] > 0 {
					doorInconcl = core.Inconcl("C17 machinery: %s with the target as %q did not (always) decode into the prepared object: %v", door, e, reusedSeen)
				}
			}
		}
	}
	if doorInconcl != nil {
		if len(ctx.Violations()) == 0 {
			return doorInconcl
		}
		ctx.Note("machinery trouble in the door table (not a verdict): %v", doorInconcl)
	}
	for d := range drift {
		ctx.Note("drift: %s", d)
	}
	// not part of the property's classes, recorded only: negative coordinates (math/big integers can be negative)
	negAccepted := map[string]int{}
	for _, c := range []*c17Curve{ed, sec} {
		for i := 0; i < 4; i++ {
			u := pool[c.name][i]
			for v, pr := range map[string][2]*big.Int{"(x,-y)": {u.X, new(big.Int).Neg(u.Y)}, "(-x,y)": {new(big.Int).Neg(u.X), u.Y}} {
				p, _, _ := c17Call(func() (*crypto.ECPoint, error) { return crypto.NewECPoint(c.ec, pr[0], pr[1]) })
				if p != nil {
					negAccepted["crypto.NewECPoint | "+c.name+" | "+v]++
				}
				js := fmt.Sprintf(`{"Curve":%q,"Coords":[%s,%s]}`, c.name, pr[0], pr[1])
				p, _, _ = c17Call(func() (*crypto.ECPoint, error) {
					var q crypto.ECPoint
					if e := json.Unmarshal([]byte(js), &q); e != nil {
						return nil, e
					}
					return &q, nil
				})
				if p != nil {
					negAccepted["ECPoint.UnmarshalJSON | "+c.name+" | "+v]++
				}
			}
		}
	}

	// ---- behaviours of Points.tla on the real ECPoint
	var walks []*c17Walk
	for i, r := range genRes {
		if r.Err != nil {
			return core.Inconcl("Points.tla behaviour generation (%s): %v", gens[i].curve, r.Err)
		}
		if !r.OK {
			return core.Inconcl("Points.tla behaviour generation (%s) reports %s", gens[i].curve, r.Violated)
		}
		bs, err := c17Printed(r.Output, "BEHAVIOUR")
		if err != nil {
			return core.Inconcl("%v", err)
		}
		if len(bs) < gens[i].num {
			return core.Inconcl("TLC printed %d of %d behaviours for %s", len(bs), gens[i].num, gens[i].curve)
		}
		c := c17Get(gens[i].curve)
		for _, b := range bs {
			w := &c17Walk{Curve: gens[i].curve}
			if err := json.Unmarshal([]byte(b), &w.Steps); err != nil || len(w.Steps) != walkLen {
				return core.Inconcl("behaviour does not parse (%v, %d steps)", err, len(w.Steps))
			}
			rr := new(big.Int).Rand(rng, new(big.Int).Sub(c.g.Order(), big.NewInt(2)))
			w.R = rr.Add(rr, big.NewInt(2)).String()
			walks = append(walks, w)
		}
	}
	total := &c17WalkStats{DegBehaviour: map[string]int{}, Ops: map[string]int{}}
	var tmu sync.Mutex
	{
		var wwg sync.WaitGroup
		wsem := make(chan struct{}, 8)
		accepted := 0
		for wi, w := range walks {
			w, wi := w, wi
			wwg.Add(1)
			go func() {
				defer wwg.Done()
				wsem <- struct{}{}
				defer func() { <-wsem }()
				st := &c17WalkStats{DegBehaviour: map[string]int{}, Ops: map[string]int{}}
				at, f := c17WalkEval(w, st)
				tmu.Lock()
				total.Steps += st.Steps
				total.Degenerate += st.Degenerate
				total.Torsion += st.Torsion
				total.BigScalar += st.BigScalar
				for k, v := range st.DegBehaviour {
					total.DegBehaviour[k] += v
				}
				for k, v := range st.Ops {
					total.Ops[k] += v
				}
				if f == nil {
					accepted++
				}
				tmu.Unlock()
				var sig []string
				for _, s := range w.Steps {
					sig = append(sig, fmt.Sprint(s.Op, s.Arg))
				}
				cov.Case("walk|"+w.Curve+"|"+strings.Join(sig, ";"), true)
				if f != nil {
					// keep the prefix up to the failing step: enough to reproduce
					short := &c17Walk{Curve: w.Curve, R: w.R, Steps: w.Steps[:at+1]}
					note(c17Report(ctx, f, c17Scenario{Kind: "walk", Walk: short}))
				}
				if wi%(len(walks)/4+1) == 0 {
					cov.Sample(map[string]any{"kind": "walk", "curve": w.Curve, "first_steps": w.Steps[:6]}, 12)
				}
			}()
		}
		wwg.Wait()
		cov.AddTraces(accepted)
	}
	if inconcl != nil {
		return inconcl
	}
	lap("walk_replay")
	cov.Set("phase_wall_s", phases)
	var tlcWall []string
	for i, r := range mcRes {
		tlcWall = append(tlcWall, fmt.Sprintf("mc %s L=%d: %.0fs", mcs[i].curve, mcs[i].l, r.Wall))
	}
	tlcWall = append(tlcWall, fmt.Sprintf("doors: %.0fs", doorRes.Wall))
	for i, r := range genRes {
		tlcWall = append(tlcWall, fmt.Sprintf("gen %s x%d: %.0fs", gens[i].curve, gens[i].num, r.Wall))
	}
	cov.Set("tlc_wall", tlcWall)
	genStates := 0
	for _, r := range genRes {
		// -simulate prints "The number of states generated: N"
		if i := strings.LastIndex(r.Output, "The number of states generated: "); i >= 0 {
			f := strings.Fields(r.Output[i+len("The number of states generated: "):])
			if len(f) > 0 {
				n, _ := strconv.Atoi(strings.ReplaceAll(f[0], ",", ""))
				genStates += n
			}
		}
	}
	cov.Set("walks", len(walks))
	cov.Set("walk_steps_replayed", total.Steps)
	cov.Set("walk_steps_with_small_order_component", total.Torsion)
	cov.Set("walk_steps_scalar_ge_order", total.BigScalar)
	cov.Set("walk_steps_degenerate_unjudged", total.Degenerate)
	cov.Set("walk_degenerate_library_behaviour", total.DegBehaviour)
	cov.Set("walk_ops", total.Ops)
	cov.Set("simulation_states_generated", genStates)
	cov.Set("door_catalogue_rows", len(rows))
	cov.Set("door_cases", doorCases)
	cov.Set("door_catalogue_rows_by_pre_state", preRows)
	cov.Set("door_cases_by_pre_state", preCases)
	cov.Set("accepted_decodes_into_a_used_target", reusedSeen)
	cov.Set("door_outcomes_model_to_library", doorStats)
	cov.Set("door_panics_recovered_unjudged", doorPanics)
	cov.Set("off_curve_pairs_accepted", offAccepted)
	var od []string
	for d := range offDoors {
		od = append(od, d)
	}
	sort.Strings(od)
	cov.Set("doors_that_accepted_an_off_curve_pair", od)
	cov.Set("negative_coordinates_accepted_unjudged", negAccepted)
	cov.Set("direct_cases", arithCount)
	var mcDesc []string
	for i, m := range mcs {
		mcDesc = append(mcDesc, fmt.Sprintf("%s L=%d L2=%d Coefs=%s: %d distinct / %d generated", m.curve, m.l, m.l2, m.coefs, mcRes[i].Distinct, mcRes[i].Generated))
	}
	mcDesc = append(mcDesc, fmt.Sprintf("PointDoors: %d distinct / %d generated", doorRes.Distinct, doorRes.Generated))
	cov.Set("model_checking_runs", mcDesc)
	cov.Set("exhaustive", false)
	return ctx.WriteEvidence("model_checking",
		"(1) Points.tla model-checked exhaustively by TLC over toy orders (whole group reachable): group laws, scalar laws, the cofactor map "+
			"(EightInvEight(t,a,b) = (0,a,b)), where the unrepresentable identity occurs, and size-independence of exact steps; "+
			"(2) PointDoors.tla model-checked exhaustively: all (default curve, door, input class, stated curve) cases with the expected verdict, printed as a catalogue; "+
			"(3) one case = a catalogue row concretised by the harness into coordinate pairs (variant, list length/position) and presented at the real door: "+
			"accept/reject, same point, same curve, re-encoding compared; or one TLC-generated walk (-simulate, 25 steps of Load/Base/Add/Dbl/Mul/EightInvEight over "+
			"abstract elements (t,a,b) = a*B + b*P0 + T_t with P0 random) replayed on crypto.ECPoint, the library's point compared after every step with the "+
			"concretisation of the model's result AND with the same operation done by the independent affine arithmetic (harness/obs); or one direct case "+
			"(ScalarMult/ScalarBaseMult/Add against the independent implementation for random points and scalars 1, 2, order-1, order, order+1, 2*order+3, 8*order+1, 2^255, 2^256-1, 512-bit, random; "+
			"group laws on the library alone; EightInvEight(S+T)=S, EightInvEight(S)=S; Flatten/JSON/Gob round trips). "+
			"Distinct = distinct (door,row,variant,position) / distinct operation sequences / distinct (op,class,point,scalar); all are non-trivial except ScalarBaseMult(1). "+
			"traces_validated_against_impl = walks on which library, model and independent implementation agreed at every step. "+
			"Field-arithmetic fidelity is judged by the independent implementation; the specification supplies group structure, behaviours and the door table.",
		cov, []string{
			"harness/obs affine arithmetic over math/big is the independent implementation (self-checked against published vectors at start-up)",
			"steps whose result is the neutral element of secp256k1 (unrepresentable as an ECPoint) are recorded, not judged (crashes: C06)",
			"Gob carries no curve: the stated curve of that door is tss.EC() at decoding time (tss.SetCurve is used to state it)",
			"UnFlattenECPoints is exercised without its optional noCurveCheck argument (no call site in the library passes it)",
			"negative big.Int coordinates are not among the property's input classes: acceptance is recorded, not judged",
			"the in-protocol uses of EightInvEight (eddsa keygen/signing/resharing rounds) are exercised by C05/C06, not here",
		}, "java tlc2.TLC MC_Points.tla (exhaustive and -simulate) / PointDoors.tla")
}
