package props

// C18 - HD child key derivation matches BIP32 and signatures verify under the child key.
//
// Design level : spec/Bip32.tla (path state machine over a toy group Z_Q, IL as an oracle input, real 32 bit child
//                numbers and depths, the real serialisation layout, the share-shift algebra of the signing part)
//                is model-checked exhaustively by TLC.
// Binding (B)  : a generator configuration of the same module prints the path catalogue - every sequence of
//                (child number, IL class) up to length 5 from the start depths 0, 251, 254, 255 with the predicted
//                outcome of every step - and the serialisation layout.  The harness concretises every row it can
//                (all ILs usable: secp256k1; an IL >= n: edwards25519, where that happens for 15 of 16 HMAC outputs),
//                steps the REAL ckd.DeriveChildKey / DeriveChildKeyFromHierarchy through it and compares accept /
//                refuse, depth and child number with the row, and every returned value with an independent BIP32
//                public derivation (harness/obs/bip32.go, driven by the printed layout, self-checked against the
//                published BIP32 vectors).
// Signing      : paths taken from the catalogue, real threshold signing sessions with NewLocalPartyWithKDD.
// Verdict      : only ever from real outputs of the library.

import (
	"bytes"
	"crypto/ecdsa"
	"crypto/elliptic"
	"crypto/sha256"
	"encoding/binary"
	"encoding/hex"
	"encoding/json"
	"fmt"
	"math/big"
	"math/rand"
	"sort"
	"strings"
	"sync"
	"time"

	"github.com/bnb-chain/tss-lib/v2/crypto/ckd"
	"github.com/bnb-chain/tss-lib/v2/tss"

	"verif/harness/core"
	"verif/harness/obs"
	"verif/harness/pump"
	"verif/harness/tlc"
)

// ------------------------------------------------------------------ catalogue (printed by TLC)

type c18Step struct {
	Hi    int    `json:"hi"`
	Lo    int    `json:"lo"`
	IL    string `json:"il"` // valid | ge | zero | identity | na
	OK    bool   `json:"ok"`
	Why   string `json:"why"`
	Depth int    `json:"depth"` // depth of the current node after the step
}

func (s c18Step) index() uint32 { return uint32(s.Hi)<<16 | uint32(s.Lo) }

type c18Row struct {
	StartDepth int       `json:"start_depth"`
	Steps      []c18Step `json:"steps"`
	Outcome    string    `json:"outcome"` // done | refused
	Why        string    `json:"why"`
	RefusedAt  int       `json:"refused_at"`
	NSum       int       `json:"nsum"` // number of ILs the returned offset is the sum of
	FinalDepth int       `json:"final_depth"`
	FinalHi    int       `json:"final_hi"`
	FinalLo    int       `json:"final_lo"`
}

func (r c18Row) key() string {
	var b strings.Builder
	fmt.Fprintf(&b, "d%d", r.StartDepth)
	for _, s := range r.Steps {
		fmt.Fprintf(&b, "/%d:%s", s.index(), s.IL)
	}
	return b.String()
}

func (r c18Row) path() []uint32 {
	p := make([]uint32, len(r.Steps))
	for i, s := range r.Steps {
		p[i] = s.index()
	}
	return p
}

// where a row can be presented to the real code
func (r c18Row) venue() string {
	ge, valid := 0, 0
	for _, s := range r.Steps {
		switch s.IL {
		case "zero", "identity":
			return "model" // would need a 256 bit preimage search
		case "ge":
			ge++
		case "valid":
			valid++
		}
	}
	if ge > 0 {
		return "ed25519"
	}
	_ = valid
	return "secp256k1"
}

func (r c18Row) validSteps() int {
	n := 0
	for _, s := range r.Steps {
		if s.IL == "valid" {
			n++
		}
	}
	return n
}

const c18Invs = "TypeOK OffsetIsSum KeyIsRootPlusOffset EveryLevel NeverInfinity NonHardenedOnly DepthBounded Refusals Completeness SerRoundTrip AbstractionSound"

var c18Special = [][2]int{{0, 0}, {0, 1}, {32767, 65535}, {32768, 0}, {65535, 65535}} // 0, 1, 2^31-1, 2^31, 2^32-1

type c18MCConf struct {
	Q         int
	MaxLen    int
	Depths    []int
	Roots     string // TLA+ set expression
	Indices   [][2]int
	Catalogue bool
	Label     string
}

func c18RunTLC(c c18MCConf, workers int, timeout time.Duration) tlc.Result {
	var idx, dep []string
	for _, i := range c.Indices {
		idx = append(idx, fmt.Sprintf("<<%d, %d>>", i[0], i[1]))
	}
	for _, d := range c.Depths {
		dep = append(dep, fmt.Sprint(d))
	}
	name := fmt.Sprintf("MC_Bip32_q%d_l%d", c.Q, c.MaxLen)
	if c.Catalogue {
		name += "_cat"
	}
	wrap := fmt.Sprintf("---- MODULE %s ----\nEXTENDS Bip32\nIndicesVal == {%s}\nStartDepthsVal == {%s}\nRootKeysVal == %s\n====\n",
		name, strings.Join(idx, ", "), strings.Join(dep, ", "), c.Roots)
	invs := c18Invs
	cat := "FALSE"
	if c.Catalogue {
		invs += " Emit EmitLayout"
		cat = "TRUE"
		workers = 1
	}
	cfg := fmt.Sprintf("SPECIFICATION Spec\nCONSTANTS\n  Q = %d\n  MaxLen = %d\n  Catalogue = %s\n  StartDepths <- StartDepthsVal\n  RootKeys <- RootKeysVal\n  Indices <- IndicesVal\nINVARIANTS %s\n",
		c.Q, c.MaxLen, cat, invs)
	return tlc.Run(tlc.Options{Module: name, Cfg: cfg, Workers: workers, Heap: "3g", Timeout: timeout, Files: map[string]string{name + ".tla": wrap}})
}

// c18Catalogue lets TLC print the path catalogue and the serialisation layout.
func c18Catalogue(c c18MCConf, timeout time.Duration) ([]c18Row, []obs.Bip32Field, tlc.Result, error) {
	r := c18RunTLC(c, 1, timeout)
	if r.Err != nil {
		return nil, nil, r, r.Err
	}
	if !r.OK {
		return nil, nil, r, fmt.Errorf("Bip32 catalogue configuration violates %s:\n%s", r.Violated, r.ErrorTrace(2000))
	}
	lines, err := c17Printed(r.Output, "ROW")
	if err != nil {
		return nil, nil, r, err
	}
	byKey := map[string]c18Row{}
	var rows []c18Row
	for _, l := range lines {
		var row c18Row
		if err := json.Unmarshal([]byte(l), &row); err != nil {
			return nil, nil, r, fmt.Errorf("cannot parse a catalogue row: %v", err)
		}
		k := row.key()
		if old, ok := byKey[k]; ok {
			// several toy instances of one class sequence (IL = Q and IL = Q+1): the prediction must not depend on the instance
			a, _ := json.Marshal(old)
			b, _ := json.Marshal(row)
			if !bytes.Equal(a, b) {
				return nil, nil, r, fmt.Errorf("catalogue rows of the class sequence %s disagree: %s / %s", k, a, b)
			}
			continue
		}
		byKey[k] = row
		rows = append(rows, row)
	}
	sort.Slice(rows, func(i, j int) bool { return rows[i].key() < rows[j].key() })
	ll, err := c17Printed(r.Output, "LAYOUT")
	if err != nil || len(ll) == 0 {
		return nil, nil, r, fmt.Errorf("TLC printed no layout (%v)", err)
	}
	var layout []obs.Bip32Field
	if err := json.Unmarshal([]byte(ll[0]), &layout); err != nil {
		return nil, nil, r, fmt.Errorf("cannot parse the layout: %v", err)
	}
	if len(rows) == 0 {
		return nil, nil, r, fmt.Errorf("TLC printed no catalogue row")
	}
	return rows, layout, r, nil
}

// ------------------------------------------------------------------ roots (parent keys and chain codes)

// c18Root is the node a derivation starts from; the depth comes from the catalogue row.
type c18Root struct {
	Name      string `json:"name"`
	Curve     string `json:"curve"` // secp256k1 | ed25519
	X         string `json:"x"`
	Y         string `json:"y"`
	ChainCode string `json:"chain_code"`
	Version   string `json:"version"`
	ParentFP  string `json:"parent_fp"` // used when the start depth is not 0
	Child     uint32 `json:"child"`     // "
}

func c18Hex(s string) []byte {
	b, _ := hex.DecodeString(s)
	return b
}

func c18Big(s string) *big.Int {
	v, _ := new(big.Int).SetString(s, 16)
	return v
}

func c18Group(curve string) (obs.Group, elliptic.Curve) {
	if curve == "ed25519" {
		return obs.Ed, tss.Edwards()
	}
	return obs.Secp, tss.S256()
}

func (r c18Root) indep(depth int) obs.XKey {
	k := obs.XKey{Version: c18Hex(r.Version), Depth: byte(depth), ParentFP: []byte{0, 0, 0, 0}, Child: 0,
		ChainCode: c18Hex(r.ChainCode), Key: obs.Pt{X: c18Big(r.X), Y: c18Big(r.Y)}}
	if depth != 0 {
		k.ParentFP, k.Child = c18Hex(r.ParentFP), r.Child
	}
	return k
}

func c18Lib(k obs.XKey, ec elliptic.Curve) *ckd.ExtendedKey {
	return &ckd.ExtendedKey{
		PublicKey:  ecdsa.PublicKey{Curve: ec, X: new(big.Int).Set(k.Key.X), Y: new(big.Int).Set(k.Key.Y)},
		Depth:      k.Depth,
		ChildIndex: k.Child,
		ChainCode:  append([]byte(nil), k.ChainCode...),
		ParentFP:   append([]byte(nil), k.ParentFP...),
		Version:    append([]byte(nil), k.Version...),
	}
}

const (
	c18Xpub = "0488b21e"
	c18Tpub = "043587cf"
	c18Xprv = "0488ade4" // what ecdsa/signing.derivingPubkeyFromPath puts into the version field
)

func c18RootFrom(name, curve string, p obs.Pt, cc []byte, version string, rng *rand.Rand) c18Root {
	fp := make([]byte, 4)
	rng.Read(fp)
	return c18Root{Name: name, Curve: curve, X: p.X.Text(16), Y: p.Y.Text(16), ChainCode: hex.EncodeToString(cc), Version: version,
		ParentFP: hex.EncodeToString(fp), Child: rng.Uint32()}
}

// c18Roots: parent keys and chain codes on secp256k1.
func c18Roots(ctx *core.Ctx, layout []obs.Bip32Field) ([]c18Root, error) {
	rng := rand.New(rand.NewSource(ctx.Seed*7907 + 18))
	q := obs.Secp.Order()
	rcc := func() []byte { b := make([]byte, 32); rng.Read(b); return b }
	var roots []c18Root
	// the group key of a real keygen (vendored 5-party fixture), the way the signing package sets it up
	keys, err := pump.LoadEcFixtures(1)
	if err != nil {
		return nil, err
	}
	roots = append(roots, c18RootFrom("fixture-group-key", "secp256k1", pt(keys[0].ECDSAPub), rcc(), c18Xprv, rng))
	// the master key of BIP32 test vector 1 with its own chain code
	m, err := obs.ParseXKey(obs.Bip32ParseOnly[2], layout)
	if err != nil {
		return nil, err
	}
	roots = append(roots, c18RootFrom("bip32-vector1-master", "secp256k1", m.Key, m.ChainCode, c18Xpub, rng))
	// G with an all-zero chain code; (1/2)G, whose x coordinate has 11 leading zero bytes, with an all-ones chain code
	roots = append(roots, c18RootFrom("G-zero-chaincode", "secp256k1", obs.Secp.Gen(), make([]byte, 32), c18Xpub, rng))
	half := obs.BaseMul(obs.Secp, new(big.Int).ModInverse(big.NewInt(2), q))
	roots = append(roots, c18RootFrom("halfG-short-x", "secp256k1", half, bytes.Repeat([]byte{0xff}, 32), c18Tpub, rng))
	// -G with a chain code that starts with zero bytes
	cc := rcc()
	cc[0], cc[1], cc[2] = 0, 0, 0
	roots = append(roots, c18RootFrom("minusG", "secp256k1", obs.Secp.Neg(obs.Secp.Gen()), cc, c18Xpub, rng))
	for i := 0; i < ctx.Pick(2, 8); i++ {
		k := new(big.Int).Rand(rng, q)
		if k.Sign() == 0 {
			k.SetInt64(3)
		}
		roots = append(roots, c18RootFrom(fmt.Sprintf("random-%d", i), "secp256k1", obs.BaseMul(obs.Secp, k), rcc(), c18Xpub, rng))
	}
	return roots, nil
}

// ------------------------------------------------------------------ one path on the real code

type c18Viol struct{ Key, What string }

// c18PathCase is the replayable scenario of the derivation part.
type c18PathCase struct {
	Kind string  `json:"kind"` // path
	Root c18Root `json:"root"`
	Row  c18Row  `json:"row"`
}

type c18PathResult struct {
	Viols    []c18Viol
	Inconcl  string   // the harness could not build / observe the case
	Mismatch string   // the concrete HMAC outputs are not of the classes the row speaks of (concretisation failed)
	Steps    int      // steps compared field by field
	Drift    []string // the code departs from the specification in a way the property text does not forbid
	Info     map[string]any
}

func c18Call(f func()) (pan string) {
	defer func() {
		if r := recover(); r != nil {
			pan = fmt.Sprint(r)
		}
	}()
	f()
	return ""
}

// c18Classes walks the row's path with the independent derivation; it returns the outcome of every step.
func c18Classes(g obs.Group, root obs.XKey, path []uint32) []obs.CkdStep {
	var out []obs.CkdStep
	cur := root
	for _, idx := range path {
		st := obs.CKDpub(g, cur, idx)
		out = append(out, st)
		if st.Class != obs.CkdValid {
			break
		}
		cur = st.Child
	}
	return out
}

func c18RowClass(c string) string {
	switch c {
	case obs.CkdHardened, obs.CkdDepth:
		return "na"
	}
	return c
}

// c18Matches: do the independent outcomes have the classes the row speaks of?
func c18Matches(row c18Row, steps []obs.CkdStep) string {
	if len(steps) != len(row.Steps) {
		return fmt.Sprintf("the independent derivation stops after %d of %d steps", len(steps), len(row.Steps))
	}
	for i, st := range steps {
		if c18RowClass(st.Class) != row.Steps[i].IL {
			return fmt.Sprintf("step %d: the HMAC output is of class %s, the row says %s", i+1, st.Class, row.Steps[i].IL)
		}
	}
	return ""
}

// c18Diff compares a node returned by the library with the independently derived one.
func c18Diff(lib *ckd.ExtendedKey, ind obs.XKey) []string {
	var d []string
	if lib.X == nil || lib.Y == nil || lib.X.Cmp(ind.Key.X) != 0 || lib.Y.Cmp(ind.Key.Y) != 0 {
		d = append(d, "key")
	}
	if !bytes.Equal(lib.ChainCode, ind.ChainCode) {
		d = append(d, "chain-code")
	}
	if lib.Depth != ind.Depth {
		d = append(d, "depth")
	}
	if !bytes.Equal(lib.ParentFP, ind.ParentFP) {
		d = append(d, "fingerprint")
	}
	if lib.ChildIndex != ind.Child {
		d = append(d, "child-number")
	}
	if !bytes.Equal(lib.Version, ind.Version) {
		d = append(d, "version")
	}
	return d
}

func c18Describe(lib *ckd.ExtendedKey) string {
	if lib == nil {
		return "nil"
	}
	x, y := "nil", "nil"
	if lib.X != nil {
		x = lib.X.Text(16)
	}
	if lib.Y != nil {
		y = lib.Y.Text(16)
	}
	return fmt.Sprintf("{key=(%s,%s) depth=%d child=%d cc=%x fp=%x ver=%x}", x, y, lib.Depth, lib.ChildIndex, lib.ChainCode, lib.ParentFP, lib.Version)
}

func c18DescribeInd(k obs.XKey) string {
	return fmt.Sprintf("{key=(%s,%s) depth=%d child=%d cc=%x fp=%x ver=%x}", k.Key.X.Text(16), k.Key.Y.Text(16), k.Depth, k.Child, k.ChainCode, k.ParentFP, k.Version)
}

var c18WhyName = map[string]string{"hardened": "hardened-index", "depth": "depth-255", "il_ge": "IL>=n", "il_zero": "IL=0", "identity": "child-at-infinity"}

// c18RunPath presents one catalogue row to the real code.
func c18RunPath(pc c18PathCase, layout []obs.Bip32Field) (res c18PathResult) {
	res.Info = map[string]any{}
	g, ec := c18Group(pc.Root.Curve)
	row := pc.Row
	root := pc.Root.indep(row.StartDepth)
	if !g.OnCurve(root.Key) || len(root.ChainCode) != 32 || len(root.Version) != 4 || len(root.ParentFP) != 4 {
		res.Inconcl = "malformed root"
		return
	}
	path := row.path()
	viol := func(key, what string) { res.Viols = append(res.Viols, c18Viol{key, what}) }
	curve := pc.Root.Curve
	where := fmt.Sprintf("root %s (%s, depth %d), path %v", pc.Root.Name, curve, row.StartDepth, path)

	// the independent derivation and the classes the concrete HMAC outputs fall into
	ind := c18Classes(g, root, path)
	if m := c18Matches(row, ind); m != "" {
		res.Mismatch = m
		return
	}
	n := g.Order()

	// ---- step by step through ckd.DeriveChildKey
	cur := c18Lib(root, ec)
	curInd := root
	for i, rs := range row.Steps {
		idx := rs.index()
		before := c18Describe(cur)
		var il *big.Int
		var child *ckd.ExtendedKey
		var err error
		pan := c18Call(func() { il, child, err = ckd.DeriveChildKey(idx, cur, ec) })
		if c18Describe(cur) != before {
			viol("C18:DeriveChildKey:parent-modified:"+curve, fmt.Sprintf("%s: step %d (index %d) changed the parent node from %s to %s", where, i+1, idx, before, c18Describe(cur)))
			return
		}
		if !rs.OK {
			name := c18WhyName[rs.Why]
			switch {
			case pan != "":
				viol(fmt.Sprintf("C18:DeriveChildKey:panic:%s:%s", name, curve), fmt.Sprintf("%s: step %d (index %d, %s) is not refused with an error but panics: %s", where, i+1, idx, name, core.Short(pan, 200)))
			case err == nil:
				viol(fmt.Sprintf("C18:DeriveChildKey:accepts-%s:%s", name, curve), fmt.Sprintf("%s: step %d (index %d) must be refused (%s) but DeriveChildKey returned a child %s",
					where, i+1, idx, name, c18Describe(child)))
			case il != nil || child != nil:
				// still a refusal (the error is what callers look at): recorded, not judged
				res.Drift = append(res.Drift, fmt.Sprintf("%s: step %d (index %d) is refused (%v) but a value is returned with the error: il=%v child=%s", where, i+1, idx, err, il, c18Describe(child)))
			}
			break
		}
		st := ind[i]
		if pan != "" || err != nil || il == nil || child == nil {
			viol("C18:DeriveChildKey:refuses-valid-step:"+curve, fmt.Sprintf("%s: step %d (index %d) is a valid non-hardened derivation (IL=%s) but DeriveChildKey failed: err=%v panic=%q",
				where, i+1, idx, st.IL.Text(16), err, core.Short(pan, 200)))
			return
		}
		res.Steps++
		// against the catalogue: depth and child number are real numbers in the model
		if int(child.Depth) != rs.Depth || child.ChildIndex != idx {
			viol("C18:DeriveChildKey:depth-or-child-number:"+curve, fmt.Sprintf("%s: after step %d (index %d) the child has depth %d, child number %d; the specification says depth %d, child number %d",
				where, i+1, idx, child.Depth, child.ChildIndex, rs.Depth, idx))
		}
		// against the independent BIP32 derivation
		for _, f := range c18Diff(child, st.Child) {
			viol(fmt.Sprintf("C18:DeriveChildKey:%s:%s", f, curve), fmt.Sprintf("%s: step %d (index %d): %s differs from BIP32 public derivation: library %s, independent %s",
				where, i+1, idx, f, c18Describe(child), c18DescribeInd(st.Child)))
		}
		if il.Cmp(st.IL) != 0 {
			viol("C18:DeriveChildKey:offset:"+curve, fmt.Sprintf("%s: step %d (index %d): returned offset %s, HMAC left half %s", where, i+1, idx, il.Text(16), st.IL.Text(16)))
		}
		// child = parent + offset*G with the RETURNED offset and the RETURNED point (independent arithmetic)
		if child.X != nil && child.Y != nil {
			want := g.Add(curInd.Key, obs.BaseMul(g, new(big.Int).Mod(il, n)))
			if !want.Eq(obs.Pt{X: child.X, Y: child.Y}) {
				viol("C18:DeriveChildKey:relation:"+curve, fmt.Sprintf("%s: step %d (index %d): child %s is not parent + offset*G = %s (offset %s)", where, i+1, idx, c18Describe(child), want, il.Text(16)))
			}
		}
		// serialised extended key and its round trip
		var s string
		if p := c18Call(func() { s = child.String() }); p != "" {
			viol("C18:ExtendedKey.String:panic:"+curve, fmt.Sprintf("%s: step %d: String() panics: %s", where, i+1, core.Short(p, 200)))
			return
		}
		wantS, err := st.Child.Encode(layout)
		if err != nil {
			res.Inconcl = "independent serialisation failed: " + err.Error()
			return
		}
		if s != wantS {
			viol("C18:ExtendedKey.String:serialised:"+curve, fmt.Sprintf("%s: step %d (index %d): serialised extended key %s, BIP32 serialisation %s", where, i+1, idx, s, wantS))
		}
		if curve == "secp256k1" {
			var back *ckd.ExtendedKey
			var perr error
			if p := c18Call(func() { back, perr = ckd.NewExtendedKeyFromString(wantS, ec) }); p != "" || perr != nil || back == nil {
				viol("C18:NewExtendedKeyFromString:rejects:"+curve, fmt.Sprintf("%s: step %d: the BIP32 serialisation %s of the child is not parsed: err=%v panic=%q", where, i+1, wantS, perr, core.Short(p, 200)))
			} else {
				if d := c18Diff(back, st.Child); len(d) > 0 {
					viol("C18:NewExtendedKeyFromString:round-trip:"+curve, fmt.Sprintf("%s: step %d: parsing %s gives %s, want %s (differs in %v)", where, i+1, wantS, c18Describe(back), c18DescribeInd(st.Child), d))
				}
				var again string
				if p := c18Call(func() { again = back.String() }); p != "" || again != wantS {
					viol("C18:NewExtendedKeyFromString:round-trip:"+curve, fmt.Sprintf("%s: step %d: parse then String() of %s gives %s (panic %q)", where, i+1, wantS, again, core.Short(p, 200)))
				}
			}
		}
		if len(res.Viols) > 0 {
			return
		}
		cur, curInd = child, st.Child
	}
	if len(res.Viols) > 0 {
		return
	}

	// ---- the whole path through ckd.DeriveChildKeyFromHierarchy
	rootLib := c18Lib(root, ec)
	before := c18Describe(rootLib)
	var off *big.Int
	var fin *ckd.ExtendedKey
	var err error
	pan := c18Call(func() { off, fin, err = ckd.DeriveChildKeyFromHierarchy(path, rootLib, n, ec) })
	if c18Describe(rootLib) != before {
		viol("C18:DeriveChildKeyFromHierarchy:parent-modified:"+curve, fmt.Sprintf("%s: the call changed the parent node from %s to %s", where, before, c18Describe(rootLib)))
		return
	}
	if row.Outcome == "refused" {
		name := c18WhyName[row.Why]
		switch {
		case pan != "":
			viol(fmt.Sprintf("C18:DeriveChildKeyFromHierarchy:panic:%s:%s", name, curve), fmt.Sprintf("%s: must be refused at step %d (%s) but panics: %s", where, row.RefusedAt, name, core.Short(pan, 200)))
		case err == nil:
			viol(fmt.Sprintf("C18:DeriveChildKeyFromHierarchy:accepts-%s:%s", name, curve), fmt.Sprintf("%s: must be refused at step %d (%s) but returned offset %v and node %s", where, row.RefusedAt, name, off, c18Describe(fin)))
		case off != nil || fin != nil:
			res.Drift = append(res.Drift, fmt.Sprintf("%s: refused at step %d (%v) but a partial result is returned with the error: offset=%v node=%s", where, row.RefusedAt, err, off, c18Describe(fin)))
		}
		return
	}
	if pan != "" || err != nil || off == nil || fin == nil {
		viol("C18:DeriveChildKeyFromHierarchy:refuses-valid-path:"+curve, fmt.Sprintf("%s: every step is a valid non-hardened derivation but the call failed: err=%v panic=%q", where, err, core.Short(pan, 200)))
		return
	}
	// the specification: the offset is the sum of the ILs of the NSum accepted steps modulo the group order,
	// the final node has depth FinalDepth and the last child number
	sum := new(big.Int)
	for i := 0; i < row.NSum; i++ {
		sum.Add(sum, ind[i].IL)
	}
	sum.Mod(sum, n)
	if off.Cmp(sum) != 0 {
		viol("C18:DeriveChildKeyFromHierarchy:offset:"+curve, fmt.Sprintf("%s: returned offset %s, the sum of the %d ILs modulo the group order is %s", where, off.Text(16), row.NSum, sum.Text(16)))
	}
	if int(fin.Depth) != row.FinalDepth || (len(path) > 0 && fin.ChildIndex != uint32(row.FinalHi)<<16|uint32(row.FinalLo)) {
		viol("C18:DeriveChildKeyFromHierarchy:depth-or-child-number:"+curve, fmt.Sprintf("%s: final node has depth %d, child number %d; the specification says %d, %d", where, fin.Depth, fin.ChildIndex,
			row.FinalDepth, uint32(row.FinalHi)<<16|uint32(row.FinalLo)))
	}
	for _, f := range c18Diff(fin, curInd) {
		viol(fmt.Sprintf("C18:DeriveChildKeyFromHierarchy:%s:%s", f, curve), fmt.Sprintf("%s: %s of the final node differs from BIP32 public derivation: library %s, independent %s", where, f, c18Describe(fin), c18DescribeInd(curInd)))
	}
	if fin.X != nil && fin.Y != nil {
		want := g.Add(root.Key, obs.BaseMul(g, new(big.Int).Mod(off, n)))
		if len(path) == 0 || off.Sign() == 0 {
			want = root.Key
		}
		if !want.Eq(obs.Pt{X: fin.X, Y: fin.Y}) {
			viol("C18:DeriveChildKeyFromHierarchy:relation:"+curve, fmt.Sprintf("%s: final key %s is not root + offset*G = %s (offset %s)", where, c18Describe(fin), want, off.Text(16)))
		}
	}
	if off.Sign() < 0 || off.Cmp(n) >= 0 {
		viol("C18:DeriveChildKeyFromHierarchy:offset:"+curve, fmt.Sprintf("%s: returned offset %s is not reduced modulo the group order", where, off.Text(16)))
	}
	var s string
	if p := c18Call(func() { s = fin.String() }); p != "" {
		viol("C18:ExtendedKey.String:panic:"+curve, fmt.Sprintf("%s: String() of the final node panics: %s", where, core.Short(p, 200)))
		return
	}
	if wantS, err := curInd.Encode(layout); err != nil {
		res.Inconcl = "independent serialisation failed: " + err.Error()
	} else if s != wantS {
		viol("C18:ExtendedKey.String:serialised:"+curve, fmt.Sprintf("%s: serialised final node %s, BIP32 serialisation %s", where, s, wantS))
	} else {
		res.Info["xpub"] = s
	}
	res.Info["offset"] = off.Text(16)
	return
}

// ------------------------------------------------------------------ concretisation on edwards25519

// c18EdRoot searches a chain code under which the concrete HMAC outputs along the row's path fall into the row's
// classes (an IL is below the order of edwards25519 for about one HMAC output in 16).
func c18EdRoot(row c18Row, seed int64, maxTries int) (c18Root, int, bool) {
	rng := rand.New(rand.NewSource(seed))
	k := new(big.Int).Rand(rng, obs.Ed.Order())
	if k.Sign() == 0 {
		k.SetInt64(5)
	}
	root := c18RootFrom("ed-random", "ed25519", obs.BaseMul(obs.Ed, k), make([]byte, 32), c18Xpub, rng)
	path := row.path()
	var ctr [8]byte
	for t := 0; t < maxTries; t++ {
		binary.BigEndian.PutUint64(ctr[:], uint64(seed)<<20+uint64(t))
		cc := sha256.Sum256(ctr[:])
		root.ChainCode = hex.EncodeToString(cc[:])
		if c18Matches(row, c18Classes(obs.Ed, root.indep(row.StartDepth), path)) == "" {
			return root, t + 1, true
		}
	}
	return root, maxTries, false
}

// ------------------------------------------------------------------ published vectors on the real code

type c18VectorCase struct {
	Kind   string `json:"kind"` // vector
	Parent string `json:"parent"`
	Index  uint32 `json:"index"`
	Child  string `json:"child"`
}

func c18RunVector(vc c18VectorCase, layout []obs.Bip32Field) (viols []c18Viol, inconcl string) {
	ec := tss.S256()
	want, err := obs.ParseXKey(vc.Parent, layout)
	if err != nil {
		return nil, "published parent does not parse independently: " + err.Error()
	}
	var parent *ckd.ExtendedKey
	var perr error
	pan := c18Call(func() { parent, perr = ckd.NewExtendedKeyFromString(vc.Parent, ec) })
	if pan != "" || perr != nil || parent == nil {
		return []c18Viol{{"C18:vector:NewExtendedKeyFromString:rejects", fmt.Sprintf("published extended public key %s is not parsed: err=%v panic=%q", vc.Parent, perr, core.Short(pan, 200))}}, ""
	}
	if d := c18Diff(parent, want); len(d) > 0 {
		return []c18Viol{{"C18:vector:NewExtendedKeyFromString:fields", fmt.Sprintf("published extended public key %s parsed as %s, want %s (differs in %v)", vc.Parent, c18Describe(parent), c18DescribeInd(want), d)}}, ""
	}
	var s string
	if p := c18Call(func() { s = parent.String() }); p != "" || s != vc.Parent {
		viols = append(viols, c18Viol{"C18:vector:String:round-trip", fmt.Sprintf("published extended public key %s re-serialised as %s (panic %q)", vc.Parent, s, core.Short(p, 200))})
	}
	if vc.Child == "" {
		return viols, ""
	}
	var child *ckd.ExtendedKey
	var il *big.Int
	pan = c18Call(func() { il, child, perr = ckd.DeriveChildKey(vc.Index, parent, ec) })
	if pan != "" || perr != nil || child == nil || il == nil {
		return append(viols, c18Viol{"C18:vector:DeriveChildKey:fails", fmt.Sprintf("published derivation %s / %d fails: err=%v panic=%q", vc.Parent, vc.Index, perr, core.Short(pan, 200))}), ""
	}
	if p := c18Call(func() { s = child.String() }); p != "" || s != vc.Child {
		viols = append(viols, c18Viol{"C18:vector:DeriveChildKey:child", fmt.Sprintf("published derivation %s / %d: library gives %s (panic %q), published child %s", vc.Parent, vc.Index, s, core.Short(p, 200), vc.Child)})
	}
	return viols, ""
}

// ------------------------------------------------------------------ self tests of the binding

// c18SelfTest: a corrupted prediction, a corrupted expected value and a corrupted layout must all be noticed.
func c18SelfTest(rows []c18Row, roots []c18Root, layout []obs.Bip32Field) error {
	var hard, done *c18Row
	for i := range rows {
		r := &rows[i]
		if r.venue() != "secp256k1" || r.StartDepth != 0 {
			continue
		}
		if hard == nil && r.Outcome == "refused" && r.Why == "hardened" && len(r.Steps) == 2 {
			hard = r
		}
		if done == nil && r.Outcome == "done" && len(r.Steps) == 2 {
			done = r
		}
	}
	if hard == nil || done == nil {
		return fmt.Errorf("the catalogue has no two-step rows to run the self test on")
	}
	for _, base := range []*c18Row{hard, done} {
		r := c18RunPath(c18PathCase{"path", roots[0], *base}, layout)
		if r.Inconcl != "" || r.Mismatch != "" {
			return fmt.Errorf("self test baseline failed: %s%s", r.Inconcl, r.Mismatch)
		}
		if len(r.Viols) != 0 {
			// the library already departs on the uncorrupted rows: the regular run reports that; a corrupted prediction
			// cannot be told apart from it, so the self test has nothing to show
			return nil
		}
	}
	// (1) corrupted prediction: the row claims that the hardened step is accepted
	bad := *hard
	bad.Steps = append([]c18Step(nil), hard.Steps...)
	last := &bad.Steps[len(bad.Steps)-1]
	last.OK, last.Why, last.IL, last.Depth = true, "", "valid", last.Depth+1
	bad.Outcome, bad.Why, bad.RefusedAt, bad.NSum, bad.FinalDepth = "done", "", 0, 2, hard.FinalDepth+1
	if r := c18RunPath(c18PathCase{"path", roots[0], bad}, layout); r.Mismatch == "" && len(r.Viols) == 0 {
		return fmt.Errorf("a catalogue row corrupted to predict acceptance of a hardened index was not noticed")
	}
	// (2) corrupted prediction of the accumulation: one IL too few in the sum
	bad2 := *done
	bad2.NSum = 1
	if r := c18RunPath(c18PathCase{"path", roots[0], bad2}, layout); len(r.Viols) == 0 {
		return fmt.Errorf("a catalogue row corrupted to sum one IL too few was not noticed")
	}
	// (3) corrupted predicted depth
	bad3 := *done
	bad3.Steps = append([]c18Step(nil), done.Steps...)
	bad3.Steps[0].Depth++
	if r := c18RunPath(c18PathCase{"path", roots[0], bad3}, layout); len(r.Viols) == 0 {
		return fmt.Errorf("a catalogue row with a corrupted depth was not noticed")
	}
	// (4) corrupted layout: child number and parent fingerprint swapped
	l2 := append([]obs.Bip32Field(nil), layout...)
	l2[2], l2[3] = l2[3], l2[2]
	if obs.Bip32SelfCheck(l2) == nil {
		return fmt.Errorf("a corrupted serialisation layout passes the published vectors")
	}
	if r := c18RunPath(c18PathCase{"path", roots[0], *done}, l2); len(r.Viols) == 0 {
		return fmt.Errorf("a corrupted serialisation layout was not noticed by the comparison")
	}
	return nil
}

// ------------------------------------------------------------------ the check

func c18Report(ctx *core.Ctx, vs []c18Viol, scenario any) {
	for _, v := range vs {
		ctx.Report(v.Key, v.What, scenario)
	}
}

func c18Replay(ctx *core.Ctx) error {
	var probe struct {
		Kind string `json:"kind"`
	}
	if _, err := core.LoadReplay(ctx.Replay, &probe); err != nil {
		return core.Inconcl("cannot load replay: %v", err)
	}
	layout := obs.Bip32Layout
	switch probe.Kind {
	case "path":
		var pc c18PathCase
		if _, err := core.LoadReplay(ctx.Replay, &pc); err != nil {
			return core.Inconcl("cannot load replay: %v", err)
		}
		r := c18RunPath(pc, layout)
		if r.Inconcl != "" || r.Mismatch != "" {
			return core.Inconcl("replay: %s%s", r.Inconcl, r.Mismatch)
		}
		fmt.Printf("replay path %s on %s: %d violation(s)\n", pc.Row.key(), pc.Root.Name, len(r.Viols))
		c18Report(ctx, r.Viols, pc)
	case "vector":
		var vc c18VectorCase
		if _, err := core.LoadReplay(ctx.Replay, &vc); err != nil {
			return core.Inconcl("cannot load replay: %v", err)
		}
		vs, inc := c18RunVector(vc, layout)
		if inc != "" {
			return core.Inconcl("replay: %s", inc)
		}
		fmt.Printf("replay vector %s/%d: %d violation(s)\n", core.Short(vc.Parent, 20), vc.Index, len(vs))
		c18Report(ctx, vs, vc)
	case "sign":
		var sc c18SignCase
		if _, err := core.LoadReplay(ctx.Replay, &sc); err != nil {
			return core.Inconcl("cannot load replay: %v", err)
		}
		r := c18RunSign(sc, layout)
		if r.Inconcl != "" {
			return core.Inconcl("replay: %s", r.Inconcl)
		}
		fmt.Printf("replay signing history %s: %d violation(s)\n", sc.Name, len(r.Viols))
		c18Report(ctx, r.Viols, sc)
	default:
		return core.Inconcl("unknown replay kind %q", probe.Kind)
	}
	return nil
}

func C18(ctx *core.Ctx) error {
	if err := obs.Bip32SelfCheck(obs.Bip32Layout); err != nil {
		return core.Inconcl("independent BIP32 derivation failed its self check against the published vectors: %v", err)
	}
	if ctx.Replay != "" {
		return c18Replay(ctx)
	}
	cov := core.NewCov()
	rng := rand.New(rand.NewSource(ctx.Seed*104729 + 18))

	// ---- TLC: the catalogue (needed first), the design configurations in the background
	indices := append([][2]int(nil), c18Special...)
	if ctx.Thorough() {
		// two more child numbers drawn from the seed: one ordinary, one hardened
		indices = append(indices, [2]int{rng.Intn(32767), 2 + rng.Intn(65000)}, [2]int{32768 + 1 + rng.Intn(32000), rng.Intn(65536)})
	}
	catConf := c18MCConf{Q: 3, MaxLen: 5, Depths: []int{0, 251, 254, 255}, Roots: "{1}", Indices: indices, Catalogue: true, Label: "catalogue"}
	var mcConfs []c18MCConf
	if ctx.Thorough() {
		mcConfs = []c18MCConf{
			{Q: 5, MaxLen: 4, Depths: []int{0, 1, 252, 253, 254, 255}, Roots: "1..(Q-1)", Indices: c18Special, Label: "Q=5, all roots, paths <= 4"},
			{Q: 7, MaxLen: 3, Depths: []int{0, 253, 254, 255}, Roots: "1..(Q-1)", Indices: c18Special, Label: "Q=7, all roots, paths <= 3"},
			{Q: 11, MaxLen: 2, Depths: []int{0, 254, 255}, Roots: "1..(Q-1)", Indices: c18Special, Label: "Q=11, all roots, paths <= 2"},
		}
	} else {
		mcConfs = []c18MCConf{
			{Q: 5, MaxLen: 3, Depths: []int{0, 253, 254, 255}, Roots: "1..(Q-1)", Indices: c18Special, Label: "Q=5, all roots, paths <= 3"},
		}
	}
	mcRes := make([]tlc.Result, len(mcConfs))
	var mcWG sync.WaitGroup
	for i := range mcConfs {
		mcWG.Add(1)
		go func(i int) {
			defer mcWG.Done()
			mcRes[i] = c18RunTLC(mcConfs[i], ctx.Pick(3, 4), time.Duration(ctx.Pick(15, 40))*time.Minute)
		}(i)
	}
	// ---- signing histories in the background (they are the slow part; their paths are looked up in the catalogue below)
	signCases, err := c18SignPlan(ctx, indices)
	if err != nil {
		mcWG.Wait()
		return core.Inconcl("signing plan: %v", err)
	}
	signRes := make([]c18SignResult, len(signCases))
	var signWG sync.WaitGroup
	signSem := make(chan struct{}, ctx.Pick(4, 6))
	tSign := time.Now()
	for i := range signCases {
		signWG.Add(1)
		go func(i int) {
			defer signWG.Done()
			signSem <- struct{}{}
			defer func() { <-signSem }()
			signRes[i] = c18RunSign(signCases[i], obs.Bip32Layout)
		}(i)
	}
	t0 := time.Now()
	rows, layout, catRes, err := c18Catalogue(catConf, time.Duration(ctx.Pick(15, 30))*time.Minute)
	if err != nil {
		signWG.Wait()
		mcWG.Wait()
		return core.Inconcl("catalogue generation: %v", err)
	}
	cov.AddMC(catRes.Distinct, catRes.Generated)
	cov.Set("catalogue", map[string]any{"rows": len(rows), "distinct": catRes.Distinct, "generated": catRes.Generated, "wall_s": time.Since(t0).Seconds(),
		"Q": catConf.Q, "max_len": catConf.MaxLen, "start_depths": catConf.Depths, "indices": indices})
	if err := obs.Bip32SelfCheck(layout); err != nil {
		signWG.Wait()
		mcWG.Wait()
		return core.Inconcl("the serialisation layout printed by TLC does not reproduce the published BIP32 vectors: %v", err)
	}

	roots, err := c18Roots(ctx, layout)
	if err != nil {
		signWG.Wait()
		mcWG.Wait()
		return core.Inconcl("cannot build the root keys: %v", err)
	}
	if err := c18SelfTest(rows, roots, layout); err != nil {
		signWG.Wait()
		mcWG.Wait()
		return core.Inconcl("self test of the binding: %v", err)
	}

	if err := c18SignPathsInCatalogue(signCases, rows); err != nil {
		signWG.Wait()
		mcWG.Wait()
		return core.Inconcl("signing plan: %v", err)
	}

	// ---- published vectors on the real code
	for _, v := range obs.Bip32VectorList() {
		var idx uint32
		fmt.Sscan(v[1], &idx)
		vc := c18VectorCase{Kind: "vector", Parent: v[0], Index: idx, Child: v[2]}
		vs, inc := c18RunVector(vc, layout)
		if inc != "" {
			signWG.Wait()
			mcWG.Wait()
			return core.Inconcl("vector case: %s", inc)
		}
		c18Report(ctx, vs, vc)
		cov.Case("vector|"+v[0][:24]+"/"+v[1], true)
		cov.Add("published_vector_steps", 1)
	}
	for _, s := range obs.Bip32ParseOnly {
		vc := c18VectorCase{Kind: "vector", Parent: s}
		vs, inc := c18RunVector(vc, layout)
		if inc != "" {
			signWG.Wait()
			mcWG.Wait()
			return core.Inconcl("vector case: %s", inc)
		}
		c18Report(ctx, vs, vc)
		cov.Case("vector-parse|"+s[:24], true)
	}

	// ---- the catalogue on the real code
	type job struct {
		pc    c18PathCase
		tries int
	}
	var jobs []job
	venues := map[string]int{}
	edSkipped := 0
	nr := 0
	perRow := ctx.Pick(2, 4)
	var edRows []c18Row
	for _, row := range rows {
		v := row.venue()
		venues[v]++
		switch v {
		case "secp256k1":
			for k := 0; k < perRow; k++ {
				jobs = append(jobs, job{pc: c18PathCase{"path", roots[(nr+k)%len(roots)], row}})
			}
			nr++
			// rows without an IL >= n but with few steps are also run on edwards25519 (acceptance works there too)
			if row.validSteps() <= 1 && row.StartDepth == 0 {
				edRows = append(edRows, row)
			}
		case "ed25519":
			if row.validSteps() <= ctx.Pick(2, 3) {
				edRows = append(edRows, row)
			} else {
				edSkipped++
			}
		}
	}
	// concretise the edwards25519 rows (search of a chain code), in parallel
	edRoots := make([]*c18Root, len(edRows))
	edTries := make([]int, len(edRows))
	{
		var wg sync.WaitGroup
		sem := make(chan struct{}, 8)
		for i := range edRows {
			wg.Add(1)
			go func(i int) {
				defer wg.Done()
				sem <- struct{}{}
				defer func() { <-sem }()
				budget := 400
				for v := 0; v < edRows[i].validSteps(); v++ {
					budget *= 16
				}
				if r, n, ok := c18EdRoot(edRows[i], ctx.Seed*1000003+int64(i), budget); ok {
					edRoots[i], edTries[i] = &r, n
				}
			}(i)
		}
		wg.Wait()
	}
	edFailed := 0
	for i, r := range edRoots {
		if r == nil {
			edFailed++
			continue
		}
		jobs = append(jobs, job{pc: c18PathCase{"path", *r, edRows[i]}, tries: edTries[i]})
	}
	results := make([]c18PathResult, len(jobs))
	{
		var wg sync.WaitGroup
		ch := make(chan int)
		for w := 0; w < 8; w++ {
			wg.Add(1)
			go func() {
				defer wg.Done()
				for i := range ch {
					results[i] = c18RunPath(jobs[i].pc, layout)
				}
			}()
		}
		for i := range jobs {
			ch <- i
		}
		close(ch)
		wg.Wait()
	}
	ran := map[string]int{}
	outcomes := map[string]int{}
	stepsCompared := 0
	drifts := 0
	rowsHit := map[string]bool{}
	for i, r := range results {
		pc := jobs[i].pc
		if r.Inconcl != "" {
			signWG.Wait()
			mcWG.Wait()
			return core.Inconcl("path case %s on %s: %s", pc.Row.key(), pc.Root.Name, r.Inconcl)
		}
		if r.Mismatch != "" {
			signWG.Wait()
			mcWG.Wait()
			return core.Inconcl("path case %s on %s could not be concretised: %s", pc.Row.key(), pc.Root.Name, r.Mismatch)
		}
		c18Report(ctx, r.Viols, pc)
		for _, d := range r.Drift {
			if drifts < 5 {
				ctx.Note("drift: %s", core.Short(d, 400))
			}
			drifts++
		}
		cov.Case(pc.Root.Curve+"|"+pc.Root.Name+"|"+pc.Row.key(), len(pc.Row.Steps) > 0)
		ran[pc.Root.Curve]++
		o := pc.Row.Outcome
		if o == "refused" {
			o += ":" + pc.Row.Why
		}
		outcomes[pc.Root.Curve+"/"+o]++
		stepsCompared += r.Steps
		rowsHit[pc.Row.key()] = true
		if len(pc.Row.Steps) >= 3 || pc.Root.Curve == "ed25519" {
			cov.Sample(map[string]any{"root": pc.Root.Name, "curve": pc.Root.Curve, "start_depth": pc.Row.StartDepth, "path": pc.Row.path(),
				"predicted": o, "refused_at": pc.Row.RefusedAt, "values": r.Info}, 10)
		}
	}
	cov.AddTraces(len(results))
	cov.Set("rows_by_venue", venues)
	cov.Set("rows_presented_to_real_code", len(rowsHit))
	cov.Set("paths_run", ran)
	cov.Set("paths_by_predicted_outcome", outcomes)
	cov.Set("steps_compared_field_by_field", stepsCompared)
	cov.Set("drift_refusals_that_also_return_a_value", drifts)
	cov.Set("ed25519_rows_beyond_search_budget", edSkipped)
	cov.Set("ed25519_rows_search_failed", edFailed)
	cov.Set("roots", func() []string {
		var s []string
		for _, r := range roots {
			s = append(s, r.Name)
		}
		return s
	}())

	// ---- signing results
	signWG.Wait()
	sessions := 0
	for i, r := range signRes {
		if r.Inconcl != "" {
			mcWG.Wait()
			return core.Inconcl("signing history %s: %s", signCases[i].Name, r.Inconcl)
		}
		c18Report(ctx, r.Viols, signCases[i])
		sessions += r.Sessions
		for _, k := range r.CaseKeys {
			cov.Case("sign|"+k, true)
		}
		cov.Sample(map[string]any{"signing_history": signCases[i].Name, "key": fmt.Sprintf("(%d,%d)", signCases[i].KeyN, signCases[i].T), "signers": signCases[i].Subset,
			"sessions": r.Log}, 14)
	}
	cov.Set("signing_histories", len(signCases))
	cov.Set("signing_sessions", sessions)
	cov.Set("signing_wall_s", time.Since(tSign).Seconds())

	// ---- design configurations
	mcWG.Wait()
	var mcOut []map[string]any
	for i, r := range mcRes {
		if r.Err != nil {
			return core.Inconcl("Bip32 design model (%s): %v", mcConfs[i].Label, r.Err)
		}
		if !r.OK {
			return core.Inconcl("Bip32 design model (%s) violates %s:\n%s", mcConfs[i].Label, r.Violated, r.ErrorTrace(2500))
		}
		cov.AddMC(r.Distinct, r.Generated)
		mcOut = append(mcOut, map[string]any{"config": mcConfs[i].Label, "distinct": r.Distinct, "generated": r.Generated, "depth": r.Depth, "wall_s": r.Wall})
	}
	cov.Set("mc_configs", mcOut)
	cov.Set("exhaustive", false)
	return ctx.WriteEvidence("model_checking",
		"one case = one catalogue row (start depth, sequence of (child number, IL class), printed by TLC from spec/Bip32.tla with the predicted outcome of every step) presented to the real "+
			"ckd.DeriveChildKey step by step and to DeriveChildKeyFromHierarchy as a whole, on one root key (secp256k1: fixture group key, BIP32 vector master, G, (1/2)G, -G, random; "+
			"edwards25519 for rows with an IL >= n, chain code found by search); or one published BIP32 derivation; or one real threshold signing session with NewLocalPartyWithKDD. "+
			"Verdict from the real return values: accept / refuse and depth / child number against the row, key / chain code / fingerprint / version / serialised string / parse round trip "+
			"against the independent derivation, child = parent + offset*G and offset = sum of ILs mod n in independent arithmetic, signatures by the independent ECDSA verifier under child and parent key, "+
			"SHA-256 of the JSON of the key shares before / after. states/transitions: TLC on spec/Bip32.tla with invariants "+c18Invs+"; traces = catalogue rows replayed on the real code",
		cov, []string{
			"independent BIP32 derivation (harness/obs/bip32.go: own RIPEMD-160, base58, compression; HMAC-SHA512 / SHA-256 of the Go standard library; affine arithmetic of harness/obs), self-checked against 15 published derivations and 4 published keys, with the layout printed by TLC",
			"rows whose IL class is zero or identity (IL = 0, child at infinity) cannot be concretised (256 bit preimage search): covered on the model only",
			"IL >= n cannot be concretised on secp256k1 (probability 2^-128): the same exported functions are driven on edwards25519, where the group order is about 2^252",
			"stored key shares = the LocalPartySaveData values the caller keeps; UpdatePublicKeyAndAdjustBigXj is applied to deep copies (it adjusts its argument in place by design)",
			"HMAC, the chain code and the fingerprint are uninterpreted tokens in the specification; the toy group is Z_Q with Q in {3,5,7,11}",
		}, "java tlc2.TLC MC_Bip32_*.tla")
}

func init() { Registry["C18"] = C18 }
