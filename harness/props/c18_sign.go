package props

// C18, signing part: derive-then-sign histories on real key material.
//
// A history keeps one set of STORED key shares (what a caller keeps between sessions) and runs a sequence of real
// threshold signing sessions from it: for a path taken from the TLC catalogue the offset comes from the real
// ckd.DeriveChildKeyFromHierarchy, the shares are deep-copied, the copies adjusted with the real
// signing.UpdatePublicKeyAndAdjustBigXj and handed to signing.NewLocalPartyWithKDD.  Judged on the real outputs:
// the signature verifies under the independently derived child key (full C01 oracle) and not under the parent key,
// the shares handed to the parties and the stored shares are bit-for-bit what they were before the session.

import (
	"crypto/ecdsa"
	"crypto/sha256"
	"encoding/hex"
	"encoding/json"
	"fmt"
	"math/big"
	"math/rand"
	"strings"

	"github.com/bnb-chain/tss-lib/v2/common"
	"github.com/bnb-chain/tss-lib/v2/crypto/ckd"
	eckg "github.com/bnb-chain/tss-lib/v2/ecdsa/keygen"
	ecsg "github.com/bnb-chain/tss-lib/v2/ecdsa/signing"
	"github.com/bnb-chain/tss-lib/v2/tss"

	"verif/harness/core"
	"verif/harness/obs"
	"verif/harness/pump"
)

type c18SignSession struct {
	Path     []uint32 `json:"path"` // empty: a session without derivation (NewLocalParty), must verify under the parent key
	MsgHex   string   `json:"msg_hex"`
	Strategy string   `json:"strategy"`
	Reuse    bool     `json:"reuse,omitempty"` // sign again with the adjusted copies of the previous session instead of fresh copies
	NSum     int      `json:"nsum"`            // catalogue: number of ILs the offset is the sum of
}

type c18SignCase struct {
	Kind      string           `json:"kind"` // sign
	Name      string           `json:"name"`
	KeyN      int              `json:"key_n"`
	T         int              `json:"t"`
	Subset    []int            `json:"subset"`
	ChainCode string           `json:"chain_code"`
	Sessions  []c18SignSession `json:"sessions"`
	Seed      int64            `json:"seed"`
}

type c18SignResult struct {
	Viols    []c18Viol
	Inconcl  string
	Sessions int
	CaseKeys []string
	Log      []map[string]any
}

func c18DeepCopy(k eckg.LocalPartySaveData) (eckg.LocalPartySaveData, error) {
	var c eckg.LocalPartySaveData
	bz, err := json.Marshal(k)
	if err != nil {
		return c, err
	}
	if err := json.Unmarshal(bz, &c); err != nil {
		return c, err
	}
	for _, p := range c.BigXj {
		p.SetCurve(tss.S256())
	}
	c.ECDSAPub.SetCurve(tss.S256())
	return c, nil
}

func c18Digest(keys []eckg.LocalPartySaveData) (string, error) {
	h := sha256.New()
	for _, k := range keys {
		bz, err := json.Marshal(k)
		if err != nil {
			return "", err
		}
		h.Write(bz)
	}
	return hex.EncodeToString(h.Sum(nil)), nil
}

func c18CopyAll(keys []eckg.LocalPartySaveData) ([]eckg.LocalPartySaveData, error) {
	out := make([]eckg.LocalPartySaveData, len(keys))
	for i := range keys {
		c, err := c18DeepCopy(keys[i])
		if err != nil {
			return nil, err
		}
		out[i] = c
	}
	return out, nil
}

// c18SignPlan builds the histories.  The paths are drawn from the non-hardened child numbers of the catalogue
// configuration BEFORE the catalogue exists (the sessions are the slow part and run while TLC works);
// c18SignPathsInCatalogue then looks every path up: it must be a row that ends in "done" and sums all its ILs.
func c18SignPlan(ctx *core.Ctx, indices [][2]int) ([]c18SignCase, error) {
	rng := rand.New(rand.NewSource(ctx.Seed*15485863 + 180))
	var free []uint32
	for _, i := range indices {
		if i[0] < 32768 {
			free = append(free, uint32(i[0])<<16|uint32(i[1]))
		}
	}
	if len(free) == 0 {
		return nil, fmt.Errorf("no non-hardened child number in the configuration")
	}
	q := obs.Secp.Order()
	strats := []string{"fifo", "lifo", "random", "future"}
	ns := 0
	sess := func(l int) c18SignSession {
		ns++
		s := c18SignSession{MsgHex: new(big.Int).Rand(rng, q).Text(16), Strategy: strats[ns%len(strats)]}
		for i := 0; i < l; i++ {
			s.Path = append(s.Path, free[rng.Intn(len(free))])
		}
		s.NSum = l
		return s
	}
	cc := func() string { b := make([]byte, 32); rng.Read(b); return hex.EncodeToString(b) }
	var cases []c18SignCase
	add := func(keyN, t int, sub []int, ss ...c18SignSession) {
		cases = append(cases, c18SignCase{Kind: "sign", Name: fmt.Sprintf("(%d,%d)%v#%d", keyN, t, sub, len(cases)), KeyN: keyN, T: t, Subset: sub,
			ChainCode: cc(), Sessions: ss, Seed: ctx.Seed*7001 + int64(len(cases))*13 + 1})
	}
	if !ctx.Thorough() {
		add(5, 2, []int{0, 1, 2}, sess(3), sess(0))
		add(5, 2, []int{4, 2, 1, 3}, sess(1+rng.Intn(2)))
		return cases, nil
	}
	var subs [][]int
	subs = append(subs, subsets(5, 3)...)
	subs = append(subs, subsets(5, 4)...)
	subs = append(subs, []int{0, 1, 2, 3, 4}, []int{4, 3, 0})
	for i, sub := range subs {
		ss := []c18SignSession{sess(1 + i%5), sess(1 + (i+2)%5)}
		if i%4 == 0 {
			again := sess(0)
			again.Path, again.NSum, again.Reuse = ss[1].Path, ss[1].NSum, true
			ss = append(ss, again, sess(0))
		}
		add(5, 2, sub, ss...)
	}
	for i, sub := range [][]int{{0, 1}, {1, 2}, {2, 0}, {0, 1, 2}} {
		add(3, 1, sub, sess(5-i), sess(1+i))
	}
	return cases, nil
}

// c18SignPathsInCatalogue: every signing path must be a catalogue row from depth 0 whose predicted outcome is "done"
// with all ILs summed (that prediction is what c18RunSign judged the offset by).
func c18SignPathsInCatalogue(cases []c18SignCase, rows []c18Row) error {
	byKey := map[string]c18Row{}
	for _, r := range rows {
		byKey[r.key()] = r
	}
	for _, sc := range cases {
		for _, ss := range sc.Sessions {
			if len(ss.Path) == 0 {
				continue
			}
			k := "d0"
			for _, idx := range ss.Path {
				k += fmt.Sprintf("/%d:valid", idx)
			}
			r, ok := byKey[k]
			if !ok {
				return fmt.Errorf("signing path %v is not in the catalogue", ss.Path)
			}
			if r.Outcome != "done" || r.NSum != len(ss.Path) || ss.NSum != r.NSum || r.FinalDepth != len(ss.Path) {
				return fmt.Errorf("signing path %v: the catalogue predicts %s with %d ILs summed", ss.Path, r.Outcome, r.NSum)
			}
		}
	}
	return nil
}

func c18RunSign(sc c18SignCase, layout []obs.Bip32Field) (res c18SignResult) {
	viol := func(key, what string) { res.Viols = append(res.Viols, c18Viol{key, what}) }
	all, err := EcKeys(sc.KeyN, sc.T)
	if err != nil {
		res.Inconcl = fmt.Sprintf("no (%d,%d) key material: %v", sc.KeyN, sc.T, err)
		return
	}
	var picked []eckg.LocalPartySaveData
	for _, i := range sc.Subset {
		if i < 0 || i >= len(all) {
			res.Inconcl = "subset index out of range"
			return
		}
		picked = append(picked, all[i])
	}
	stored, err := c18CopyAll(picked) // this history's own "storage"
	if err != nil {
		res.Inconcl = "cannot copy key material: " + err.Error()
		return
	}
	storedDigest, err := c18Digest(stored)
	if err != nil {
		res.Inconcl = err.Error()
		return
	}
	ec := tss.S256()
	n := obs.Secp.Order()
	parent := pt(stored[0].ECDSAPub)
	rootInd := obs.XKey{Version: c18Hex(c18Xprv), Depth: 0, ParentFP: []byte{0, 0, 0, 0}, Child: 0, ChainCode: c18Hex(sc.ChainCode), Key: parent}
	if len(rootInd.ChainCode) != 32 {
		res.Inconcl = "bad chain code"
		return
	}
	var work []eckg.LocalPartySaveData // the adjusted copies of the previous derived session
	var workDelta *big.Int
	var workChild obs.Pt
	for si, ss := range sc.Sessions {
		where := fmt.Sprintf("history %s, session %d (path %v, %s)", sc.Name, si+1, ss.Path, ss.Strategy)
		msg, ok := new(big.Int).SetString(ss.MsgHex, 16)
		if !ok {
			res.Inconcl = "bad message"
			return
		}
		var delta *big.Int
		pub := parent
		var keys []eckg.LocalPartySaveData
		switch {
		case len(ss.Path) > 0 && ss.Reuse && work != nil:
			keys, delta, pub = work, workDelta, workChild
		case len(ss.Path) > 0:
			// the offset and the child key from the real derivation
			var child *ckd.ExtendedKey
			var derr error
			pan := c18Call(func() {
				delta, child, derr = ckd.DeriveChildKeyFromHierarchy(ss.Path, c18Lib(rootInd, ec), ec.Params().N, ec)
			})
			if pan != "" || derr != nil || delta == nil || child == nil {
				viol("C18:DeriveChildKeyFromHierarchy:refuses-valid-path:secp256k1", fmt.Sprintf("%s: derivation from the group key failed: err=%v panic=%q", where, derr, core.Short(pan, 200)))
				return
			}
			// the independent derivation; the catalogue says how many ILs the offset sums
			ind := c18Classes(obs.Secp, rootInd, ss.Path)
			if len(ind) != len(ss.Path) || ind[len(ind)-1].Class != obs.CkdValid || ss.NSum != len(ss.Path) {
				res.Inconcl = where + ": the path is not a valid derivation for this root"
				return
			}
			sum := new(big.Int)
			for i := 0; i < ss.NSum; i++ {
				sum.Add(sum, ind[i].IL)
			}
			sum.Mod(sum, n)
			pub = ind[len(ind)-1].Child.Key
			if delta.Cmp(sum) != 0 || child.X == nil || child.Y == nil || !pub.Eq(obs.Pt{X: child.X, Y: child.Y}) {
				viol("C18:sign:derivation-differs-from-BIP32", fmt.Sprintf("%s: library offset %s / child %s, independent offset %s / child %s", where, delta.Text(16), c18Describe(child), sum.Text(16), pub))
				return
			}
			if keys, err = c18CopyAll(stored); err != nil {
				res.Inconcl = err.Error()
				return
			}
			var uerr error
			pan = c18Call(func() {
				uerr = ecsg.UpdatePublicKeyAndAdjustBigXj(delta, keys, &ecdsa.PublicKey{Curve: ec, X: child.X, Y: child.Y}, ec)
			})
			if pan != "" || uerr != nil {
				viol("C18:sign:UpdatePublicKeyAndAdjustBigXj:fails", fmt.Sprintf("%s: adjusting the copies failed: err=%v panic=%q", where, uerr, core.Short(pan, 200)))
				return
			}
			work, workDelta, workChild = keys, delta, pub
		default:
			if keys, err = c18CopyAll(stored); err != nil {
				res.Inconcl = err.Error()
				return
			}
		}
		before, err := c18Digest(keys)
		if err != nil {
			res.Inconcl = err.Error()
			return
		}
		cfg := pump.Config{Proto: pump.EcSigning, N: len(keys), T: sc.T, EcKeys: keys, Msg: msg, KDD: delta, Seed: sc.Seed*100 + int64(si) + 1}
		var s *pump.Session
		var nerr error
		if pan := c18Call(func() { s, nerr = pump.New(cfg, nil) }); pan != "" || nerr != nil {
			viol("C18:sign:party-construction-fails", fmt.Sprintf("%s: NewLocalParty[WithKDD] failed: err=%v panic=%q", where, nerr, core.Short(pan, 200)))
			return
		}
		strat, err := pump.StrategyByName(ss.Strategy)
		if err != nil {
			res.Inconcl = err.Error()
			return
		}
		if pan := c18Call(func() { s.Run(strat, rand.New(rand.NewSource(cfg.Seed)), 200000) }); pan != "" {
			res.Inconcl = where + ": the transport panicked: " + core.Short(pan, 300)
			return
		}
		res.Sessions++
		res.CaseKeys = append(res.CaseKeys, fmt.Sprintf("(%d,%d)%v|len%d|reuse=%v|%s", sc.KeyN, sc.T, sc.Subset, len(ss.Path), ss.Reuse, ss.Strategy))
		var errs []string
		var sigs []*common.SignatureData
		for _, nd := range s.Nodes {
			if nd.Err != nil {
				errs = append(errs, fmt.Sprintf("party %d: %v", nd.G, nd.Err))
			}
			if nd.Panic != "" {
				errs = append(errs, fmt.Sprintf("party %d PANIC: %s", nd.G, core.Short(nd.Panic, 300)))
			}
			for _, x := range nd.Results {
				if sd, ok := x.(*common.SignatureData); ok {
					sigs = append(sigs, sd)
				}
			}
		}
		kind := "derived"
		if delta == nil {
			kind = "plain"
		}
		entry := map[string]any{"path": ss.Path, "strategy": ss.Strategy, "reuse": ss.Reuse, "signatures": len(sigs)}
		res.Log = append(res.Log, entry)
		switch {
		case len(errs) > 0:
			viol("C18:sign:honest-session-fails:"+kind, fmt.Sprintf("%s: honest signing session reported errors: %s", where, strings.Join(errs, "; ")))
		case !s.Quiescent():
			res.Inconcl = where + ": the session did not reach quiescence"
			return
		case len(sigs) != len(keys):
			viol("C18:sign:no-signature:"+kind, fmt.Sprintf("%s: %d of %d signers produced a signature and nobody reported an error", where, len(sigs), len(keys)))
		default:
			if m := SigOracleEcdsa(pub, msg, 0, sigs); m != "" {
				viol("C18:sign:"+kind+":"+oracleClass(m), fmt.Sprintf("%s: signature judged under the %s key %s: %s", where, map[string]string{"derived": "derived child", "plain": "parent"}[kind], pub, m))
			}
			r, sv := new(big.Int).SetBytes(sigs[0].R), new(big.Int).SetBytes(sigs[0].S)
			if delta != nil && obs.EcdsaVerify(parent, msg, r, sv) {
				viol("C18:sign:verifies-under-parent", fmt.Sprintf("%s: the signature made with offset %s also verifies under the parent key", where, delta.Text(16)))
			}
			entry["r"] = core.Short(r.Text(16), 20)
		}
		after, err := c18Digest(keys)
		if err != nil {
			res.Inconcl = err.Error()
			return
		}
		if after != before {
			viol("C18:sign:key-shares-changed-by-session:"+kind, fmt.Sprintf("%s: the key shares handed to the parties differ after the session (SHA-256 of their JSON %s -> %s)", where, before[:16], after[:16]))
		}
		now, err := c18Digest(stored)
		if err != nil {
			res.Inconcl = err.Error()
			return
		}
		if now != storedDigest {
			viol("C18:sign:stored-key-shares-changed", fmt.Sprintf("%s: the stored key shares differ after derive / adjust-on-copies / sign (SHA-256 of their JSON %s -> %s)", where, storedDigest[:16], now[:16]))
			return
		}
		if len(res.Viols) > 0 {
			return
		}
	}
	return
}
